(** Histories, files that are compactions of a TXID range, and the invariant
    behind [apply_overlap] and [follow_idempotent]. *)
From Coq Require Import List NArith Bool Lia Arith.
From LS Require Import Base.PMap Follow.Follow Follow.Sem.
Import ListNotations.
Open Scope N_scope.

Section History.
(** the primary's committed transactions: element [i] (0-based) is the level-0
    file of TXID [i+1] *)
Variable h : list txn.
Hypothesis Hwf : wf_seg 0 h.

Definition img_at (n : nat) : image := run img_empty (firstn n h).
Definition ver (n : nat) (p : N) : option N := pg (img_at n) p.
Definition commit_at (n : nat) : N := im_size (img_at n).
Definition seg (lo hi : nat) : list txn := skipn lo (firstn hi h).

Lemma img_at_wf n : img_wf (img_at n).
Proof. apply run_wf, img_wf_empty. Qed.

Lemma firstn_split (lo v : nat) : (lo <= v)%nat ->
  firstn v h = firstn lo h ++ skipn lo (firstn v h).
Proof.
  intros H. rewrite <- (firstn_skipn lo (firstn v h)) at 1.
  rewrite firstn_firstn. now replace (Nat.min lo v) with lo by lia.
Qed.

Lemma img_at_split lo v : (lo <= v)%nat -> img_at v = run (img_at lo) (skipn lo (firstn v h)).
Proof. intros H. unfold img_at. rewrite (firstn_split lo v H) at 1. apply run_app. Qed.

Lemma seg_prefix lo v hi : (lo <= v <= hi)%nat ->
  skipn lo (firstn v h) = firstn (v - lo) (seg lo hi).
Proof.
  intros H. unfold seg. rewrite firstn_skipn_comm, firstn_firstn.
  now replace (Nat.min (lo + (v - lo)) hi) with v by lia.
Qed.

Lemma wf_at lo hi : (lo <= hi)%nat -> wf_seg (commit_at lo) (seg lo hi).
Proof.
  intros H. pose proof Hwf as W.
  rewrite <- (firstn_skipn hi h) in W. apply wf_seg_app in W as [W _].
  rewrite (firstn_split lo hi H) in W. apply wf_seg_app in W as [_ W].
  unfold commit_at, img_at. rewrite run_size. exact W.
Qed.

Lemma seg_length lo hi : (lo <= hi <= length h)%nat -> length (seg lo hi) = (hi - lo)%nat.
Proof. intros H. unfold seg. rewrite skipn_length, firstn_length. lia. Qed.

Lemma commit_at_seg lo hi : (lo <= hi)%nat -> commit_at hi = last_commit (commit_at lo) (seg lo hi).
Proof.
  intros H. unfold commit_at at 1. rewrite (img_at_split lo hi H), run_size. reflexivity.
Qed.

(** [f] is (content-wise) the compaction of the level-0 files of TXIDs
    [lo+1 .. hi]: same range, commit of the last transaction, distinct page
    numbers (the LTX encoder demands ascending pgno), newest version of every
    page touched in the range, nothing beyond the commit *)
Definition covers (f : ltxf) (lo hi : nat) : Prop :=
  (lo < hi <= length h)%nat /\
  f_min f = N.of_nat lo + 1 /\ f_max f = N.of_nat hi /\
  f_commit f = commit_at hi /\
  NoDup (map fst (f_pages f)) /\
  forall p, pm_get p (f_pages f) =
            if p <=? commit_at hi then pm_get p (union_pages (seg lo hi)) else None.

Lemma commit_at_pos hi lo : (lo < hi <= length h)%nat -> 0 < commit_at hi.
Proof.
  intros H. rewrite (commit_at_seg (hi - 1) hi) by lia.
  pose proof (wf_at (hi - 1) hi ltac:(lia)) as W.
  pose proof (seg_length (hi - 1) hi ltac:(lia)) as L.
  destruct (seg (hi - 1) hi) as [|x [|y tl]]; cbn in L; try lia.
  cbn in *. destruct W as [[W _] _]. exact W.
Qed.

(** F1 *)
Lemma covers_hit f lo hi p c : covers f lo hi -> pm_get p (f_pages f) = Some c ->
  ver hi p = Some c /\ p <= commit_at hi.
Proof.
  intros (Hr & _ & _ & _ & _ & Hp) G. rewrite Hp in G.
  destruct (p <=? commit_at hi) eqn:E; [|discriminate]. apply N.leb_le in E.
  split; [|exact E].
  unfold ver. rewrite (img_at_split lo hi) by lia. fold (seg lo hi).
  pose proof (seg_lookup (seg lo hi) (img_at lo) (img_at_wf lo) (wf_at lo hi ltac:(lia)) p) as [S1 _].
  apply S1; [exact G|]. fold (commit_at lo). rewrite <- commit_at_seg by lia. exact E.
Qed.

(** F2 *)
Lemma covers_miss f lo hi p : covers f lo hi -> 1 <= p <= commit_at hi ->
  pm_get p (f_pages f) = None ->
  forall v, (lo <= v <= hi)%nat -> ver v p = ver hi p.
Proof.
  intros (Hr & _ & _ & _ & _ & Hp) Hpr G. rewrite Hp in G.
  assert (E : (p <=? commit_at hi) = true) by (apply N.leb_le; lia). rewrite E in G.
  pose proof (seg_lookup (seg lo hi) (img_at lo) (img_at_wf lo) (wf_at lo hi ltac:(lia)) p) as [_ S2].
  fold (commit_at lo) in S2. rewrite <- commit_at_seg in S2 by lia.
  destruct (S2 G Hpr) as [_ Hpre].
  assert (K : forall v, (lo <= v <= hi)%nat -> ver v p = pg (img_at lo) p).
  { intros v Hv. unfold ver. rewrite (img_at_split lo v) by lia.
    rewrite (seg_prefix lo v hi Hv). apply Hpre. rewrite seg_length by lia. lia. }
  intros v Hv. rewrite (K v Hv). symmetry. apply K. lia.
Qed.

(** ** the invariant: "everything up to [c] is in [s]", relative to a horizon [u] *)
Definition stable (c u : nat) (p : N) : Prop := forall v, (c <= v <= u)%nat -> ver v p = ver u p.
Definition J (c u : nat) (s : image) : Prop :=
  img_wf s /\ forall p, 1 <= p <= commit_at u -> stable c u p -> pg s p = ver u p.

Lemma J_img_at c u : (c <= u)%nat -> J c u (img_at c).
Proof.
  intros H. split; [apply img_at_wf|]. intros p _ St. apply (St c). lia.
Qed.

(** what a follower killed inside applyLTXFile leaves behind: some of the
    file's pages written, the truncate done or not *)
Definition partial_apply (s : image) (f : ltxf) (written : list (N * N)) (truncated : bool) : image :=
  let s1 := write_pages s written in
  if truncated then truncate s1 (f_commit f) else s1.

Lemma ver_some_le u p c : ver u p = Some c -> 1 <= p <= commit_at u.
Proof. apply pg_some. Qed.

Lemma J_partial c u s f lo hi written truncated :
  J c u s -> covers f lo hi -> (c <= hi <= u)%nat ->
  (forall kv, In kv written -> In kv (f_pages f)) ->
  J c u (partial_apply s f written truncated).
Proof.
  intros [Hwfs HJ] Hcov Hr Hsub.
  assert (Hw1 : img_wf (write_pages s written)) by now apply write_pages_wf.
  split.
  { unfold partial_apply. destruct truncated; [apply truncate_wf|exact Hw1]. }
  intros p Hp St.
  specialize (HJ p Hp St).
  destruct (pg_in (img_at u) p Hp) as [x Hx]. fold (ver u p) in Hx.
  assert (Hhi : ver hi p = Some x) by (rewrite (St hi) by lia; exact Hx).
  assert (S1 : pg (write_pages s written) p = Some x).
  { destruct (pm_get p (rev written)) eqn:G.
    - assert (In (p, n) (f_pages f)) by (apply Hsub, in_rev, pm_get_In; exact G).
      pose proof Hcov as (_ & _ & _ & _ & Hnd & _).
      pose proof (In_pm_get p n (f_pages f) Hnd H) as G2.
      destruct (covers_hit f lo hi p n Hcov G2) as [V _].
      rewrite (pg_write_pages_hit s written p n) by (lia || assumption). congruence.
    - apply pg_write_pages_miss; [exact G|]. now rewrite HJ. }
  unfold partial_apply. destruct truncated; [|now rewrite S1].
  rewrite pg_truncate by exact Hw1. rewrite S1.
  destruct Hcov as (_ & _ & _ & Hc & _).
  pose proof (ver_some_le hi p x Hhi) as [? ?].
  assert (E1 : (1 <=? p) = true) by (apply N.leb_le; lia).
  assert (E2 : (p <=? f_commit f) = true) by (apply N.leb_le; lia).
  now rewrite E1, E2, Hx.
Qed.

(** a complete application is a special partial one ... *)
Lemma apply_tx_partial s f : apply_tx s (f_pages f) (f_commit f) = partial_apply s f (f_pages f) true.
Proof. reflexivity. Qed.

(** ... and, obeying the chain rule, it moves the invariant forward *)
Lemma J_full c u s f lo hi :
  J c u s -> covers f lo hi -> (lo <= c)%nat -> (c <= hi <= u)%nat ->
  J hi u (apply_tx s (f_pages f) (f_commit f)).
Proof.
  intros [Hwfs HJ] Hcov Hlo Hr. split; [apply apply_tx_wf|].
  intros p Hp St.
  destruct (pg_in (img_at u) p Hp) as [x Hx]. fold (ver u p) in Hx.
  assert (Hhi : ver hi p = Some x) by (rewrite (St hi) by lia; exact Hx).
  pose proof (ver_some_le hi p x Hhi) as Hphi.
  pose proof Hcov as (_ & _ & _ & Hc & Hnd & _).
  rewrite pg_apply_tx by assumption.
  assert (E1 : (1 <=? p) = true) by (apply N.leb_le; lia).
  assert (E2 : (p <=? f_commit f) = true) by (apply N.leb_le; lia).
  rewrite E1, E2. cbn [andb].
  destruct (pm_get p (f_pages f)) eqn:G.
  - destruct (covers_hit f lo hi p n Hcov G) as [V _]. congruence.
  - pose proof (covers_miss f lo hi p Hcov Hphi G) as M.
    assert (St' : stable c u p).
    { intros v Hv. destruct (Nat.le_gt_cases v hi).
      - rewrite (M v) by lia. apply St. lia.
      - apply St. lia. }
    rewrite (HJ p Hp St'), Hx. reflexivity.
Qed.

Lemma J_done u s : J u u s -> im_size s = commit_at u -> img_eq s (img_at u).
Proof.
  intros [_ HJ] Hs. split; [exact Hs|]. intros p.
  destruct (N.le_gt_cases 1 p) as [H1|H1].
  - destruct (N.le_gt_cases p (commit_at u)) as [H2|H2].
    + apply HJ; [lia|]. intros v Hv. now replace v with u by lia.
    + unfold ver, pg. fold (commit_at u). rewrite Hs.
      assert (E : (p <=? commit_at u) = false) by (apply N.leb_gt; lia).
      now rewrite E, !andb_false_r.
  - unfold pg. assert (E : (1 <=? p) = false) by (apply N.leb_gt; lia). now rewrite E.
Qed.

(** ** apply_overlap: a compacted file reaching back below the follower's
    position [t] still yields exactly image(hi) *)
Lemma apply_overlap f lo hi t :
  covers f lo hi -> (lo <= t <= hi)%nat ->
  img_eq (apply_tx (img_at t) (f_pages f) (f_commit f)) (img_at hi).
Proof.
  intros Hcov Hr. apply J_done.
  - apply (J_full t hi (img_at t) f lo hi); try lia; [|exact Hcov]. apply J_img_at. lia.
  - rewrite apply_tx_size. now destruct Hcov as (_ & _ & _ & Hc & _).
Qed.

(** ** chains of compacted files, and idempotence *)
Fixpoint chainP (c : nat) (fs : list ltxf) (u : nat) : Prop :=
  match fs with
  | [] => c = u
  | f :: tl => exists lo hi, covers f lo hi /\ (lo <= c < hi)%nat /\ (hi <= u)%nat /\ chainP hi tl u
  end.

Definition apply_all (s : image) (fs : list ltxf) : image :=
  fold_left (fun im f => apply_tx im (f_pages f) (f_commit f)) fs s.

Lemma chain_J fs : forall c u s, J c u s -> chainP c fs u -> J u u (apply_all s fs).
Proof.
  induction fs as [|f tl IH]; intros c u s HJ Hch; cbn in *.
  - now subst.
  - destruct Hch as (lo & hi & Hcov & Hr & Hu & Hch).
    apply (IH hi u); [|exact Hch]. apply (J_full c u s f lo hi); try assumption; lia.
Qed.

Lemma chain_size fs : forall c u s, fs <> [] -> chainP c fs u -> im_size (apply_all s fs) = commit_at u.
Proof.
  induction fs as [|f tl IH]; intros c u s Hne Hch; [congruence|]. cbn in *.
  destruct Hch as (lo & hi & Hcov & Hr & Hu & Hch).
  destruct tl as [|g tl'].
  - cbn in *. subst. now destruct Hcov as (_ & _ & _ & Hc & _).
  - apply (IH hi u); [discriminate|exact Hch].
Qed.

(** states reachable from image(t) by complete or partial applications, in any
    order and any number, of files whose range ends in (t, u] - a kill anywhere *)
Inductive partial_state (t u : nat) : image -> Prop :=
| ps_init : partial_state t u (img_at t)
| ps_step s f lo hi written truncated :
    partial_state t u s -> covers f lo hi -> (t <= hi <= u)%nat ->
    (forall kv, In kv written -> In kv (f_pages f)) ->
    partial_state t u (partial_apply s f written truncated).

Lemma partial_state_J t u s : (t <= u)%nat -> partial_state t u s -> J t u s.
Proof.
  intros Htu H. induction H.
  - now apply J_img_at.
  - eapply J_partial; eauto.
Qed.

Theorem follow_idempotent t u s fs :
  (t <= u)%nat -> partial_state t u s -> fs <> [] -> chainP t fs u ->
  img_eq (apply_all s fs) (img_at u).
Proof.
  intros Htu Hps Hne Hch. apply J_done.
  - eapply chain_J; [|exact Hch]. now apply partial_state_J.
  - eapply chain_size; eauto.
Qed.

End History.
