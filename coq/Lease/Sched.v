(** C20 — the system: ANY number of clients (indexed by [nat]; every index is a
    client, the ones never scheduled simply stay idle), one store, one monotone
    clock.  A transition is one of

    - [LTick d]    the clock advances by d >= 0
    - [LCall c o]  idle client c enters AcquireLease / RenewLease / ReleaseLease
    - [LStep c]    client c, inside a call, performs its next micro-step (one
                   storage request, atomically, or one clock read)

    No fairness, no bound on the number of clients or steps.  [exec] is a
    function so that traces can be run; [reachable] is its closure. *)
From Coq Require Import ZArith NArith Bool List Arith.
From LS Require Import Lease.Store Lease.Client.
Import ListNotations.
Open Scope Z_scope.

Section Sched.
  Variable T : Type.
  Variable f : lease -> T.
  Variable teqb : T -> T -> bool.

  Record state := mkState {
    st_store : store lease;
    st_now : Z;
    st_cl : nat -> client T;
    st_log : list (N * Z)        (* ghost: (owner, generation) of the successful acquires, newest first *)
  }.

  Definition upd (m : nat -> client T) (c : nat) (v : client T) : nat -> client T :=
    fun c' => if Nat.eqb c' c then v else m c'.

  Inductive label := LTick (d : Z) | LCall (c : nat) (o : op) | LStep (c : nat).

  (** observation attached to a transition: the result a call returned *)
  Definition obs := option (nat * result T).

  Definition exec (s : state) (l : label) : option (state * obs) :=
    match l with
    | LTick d =>
        if Z.leb 0 d then Some (mkState (st_store s) (st_now s + d) (st_cl s) (st_log s), None) else None
    | LCall c o =>
        match c_pc (st_cl s c) with
        | PIdle =>
            let (cl', r) := ccall o (st_cl s c) in
            Some (mkState (st_store s) (st_now s) (upd (st_cl s) c cl') (st_log s),
                  match r with Some r => Some (c, r) | None => None end)
        | _ => None
        end
    | LStep c =>
        match c_pc (st_cl s c) with
        | PIdle => None
        | _ =>
            let o := cstep f teqb (st_now s) (st_store s) (st_cl s c) in
            Some (mkState (o_store o) (st_now s) (upd (st_cl s) c (o_client o))
                          (match o_acquired o with Some a => a :: st_log s | None => st_log s end),
                  match o_result o with Some r => Some (c, r) | None => None end)
        end
    end.

  (** initial states: an arbitrary clock, an arbitrary (possibly left-over) lock
      object, every client idle and holding nothing, arbitrary owners and TTLs
      (TTLs may be negative: a lease born expired) *)
  Definition init (own : nat -> N) (ttl : nat -> Z) (now0 : Z) (s0 : store lease) : state :=
    mkState s0 now0 (fun c => mkClient (own c) (ttl c) PIdle None) [].

  Inductive reachable (i : state) : state -> Prop :=
  | reach_init : reachable i i
  | reach_step : forall s l s' o, reachable i s -> exec s l = Some (s', o) -> reachable i s'.

  (** running a list of labels, collecting the observations (oldest first) *)
  Fixpoint run (s : state) (ls : list label) : option (state * list (nat * result T)) :=
    match ls with
    | [] => Some (s, [])
    | l :: tl =>
        match exec s l with
        | None => None
        | Some (s', o) =>
            match run s' tl with
            | None => None
            | Some (s'', os) => Some (s'', match o with Some x => x :: os | None => os end)
            end
        end
    end.

  Lemma run_reachable : forall ls i s s' os, reachable i s -> run s ls = Some (s', os) -> reachable i s'.
  Proof.
    induction ls as [|l tl IH]; intros i s s' os Hr H; simpl in H.
    - inversion H; subst; exact Hr.
    - destruct (exec s l) as [[s1 o]|] eqn:E; try discriminate.
      destruct (run s1 tl) as [[s2 os2]|] eqn:E2; try discriminate.
      inversion H; subst. eapply IH; [|exact E2]. eapply reach_step; eauto.
  Qed.

  (** "client c holds an unexpired lease" *)
  Definition holds_live (s : state) (c : nat) : Prop :=
    exists h, c_held (st_cl s c) = Some h /\ is_expired (st_now s) (h_rec h) = false.
End Sched.

Arguments mkState {T} st_store st_now st_cl st_log.
Arguments st_store {T} s.
Arguments st_now {T} s.
Arguments st_cl {T} s c.
Arguments st_log {T} s.
Arguments upd {T} m c v.
Arguments exec {T} f teqb s l.
Arguments init {T} own ttl now0 s0.
Arguments reachable {T} f teqb i s.
Arguments run {T} f teqb s ls.
Arguments holds_live {T} s c.
