(** C20 — in-Coq evaluation of the extracted entry points on the histories that matter. *)
From Coq Require Import ZArith NArith Bool List.
From LS Require Import Base.Sx Lease.Store Lease.Client Lease.Sched Lease.Entry.
Import ListNotations.
Open Scope Z_scope.

(** ** The runner's entry points on the two histories that matter (in-Coq
    evaluation of exactly the definitions that are extracted) *)
Definition sxl (l : list Z) : sx := SL (map SA l).

(** F6 on the executable model: A acquire, A release, B acquire -> generation 1 twice *)
Example lease_run_f6 :
  lease_run (SL [SL [SL [SA 1; SA 1; sxl [0; 2]]; SL [SA 2; SA 1; sxl [0]]]; sxl [0; 0; 0; 1; 1]])
  = SL [SL [SL [SA 0; SA 0; sxl [0; 1; 1; 1]]; SL [SA 0; SA 2; sxl [0]]; SL [SA 1; SA 0; sxl [0; 1; 2; 1]]];
        sxl [1; 2; 1]].
Proof. vm_compute. reflexivity. Qed.

Example oracle_f6 :
  lease_gen_strict_ok (SL [SL [SL [SA 0; SA 0; sxl [0; 1; 1; 1]]; SL [SA 0; SA 2; sxl [0]]; SL [SA 1; SA 0; sxl [0; 1; 2; 1]]]]) = SA 5
  /\ lease_mutex_ok (SL [SL [SL [SA 0; SA 0; sxl [0; 1; 1; 1]]; SL [SA 0; SA 2; sxl [0]]; SL [SA 1; SA 0; sxl [0; 1; 2; 1]]]]) = SA 1.
Proof. split; vm_compute; reflexivity. Qed.

(** takeover of an expired lease: B (live) over A (born expired); A's renew is refused *)
Example lease_run_takeover :
  lease_run (SL [SL [SL [SA 1; SA 0; sxl [0; 1]]; SL [SA 2; SA 1; sxl [0]]]; sxl [0; 0; 1; 1; 0]])
  = SL [SL [SL [SA 0; SA 0; sxl [0; 1; 1; 0]]; SL [SA 1; SA 0; sxl [0; 2; 2; 1]]; SL [SA 0; SA 1; sxl [4]]];
        sxl [2; 2; 1]].
Proof. vm_compute. reflexivity. Qed.

(** the oracles reject what the property forbids *)
Example oracle_rejects :
  (* two live holders *)
  lease_mutex_ok (SL [SL [SL [SA 0; SA 0; sxl [0; 1; 1; 1]]; SL [SA 1; SA 0; sxl [0; 2; 2; 1]]]]) = SA 2 /\
  (* a taken-over client renews successfully *)
  lease_mutex_ok (SL [SL [SL [SA 0; SA 0; sxl [0; 1; 1; 0]]; SL [SA 1; SA 0; sxl [0; 2; 2; 0]]; SL [SA 0; SA 1; sxl [0; 1; 1; 0]]]]) = SA 3 /\
  (* takeover without a generation increase *)
  lease_mutex_ok (SL [SL [SL [SA 0; SA 0; sxl [0; 1; 1; 0]]; SL [SA 1; SA 0; sxl [0; 1; 2; 0]]]]) = SA 4 /\
  lease_gen_strict_ok (SL [SL [SL [SA 0; SA 0; sxl [0; 1; 1; 0]]; SL [SA 1; SA 0; sxl [0; 1; 2; 0]]]]) = SA 0.
Proof. repeat split; vm_compute; reflexivity. Qed.
