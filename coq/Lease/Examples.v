(** C20 — in-Coq evaluation of the extracted entry points on the histories that matter. *)
From Coq Require Import ZArith NArith Bool List.
From LS Require Import Base.Sx Lease.Store Lease.Client Lease.Sched Lease.Entry.
Import ListNotations.
Open Scope Z_scope.

(** ** The runner's entry points on the histories that matter (in-Coq
    evaluation of exactly the definitions that are extracted).  Times in ns. *)
Definition sxl (l : list Z) : sx := SL (map SA l).
Definition s10 : Z := 10000000000.   (* 10 s *)
Definition cl2 (p1 p2 : list Z) : sx := SL [SL [SA 1; SA s10; sxl p1]; SL [SA 2; SA s10; sxl p2]].
Definition tick (d : Z) : sx := SL [SA d].

(** F6 on the executable model: A acquire, A release, B acquire -> generation 1 twice *)
Example lease_run_f6 :
  lease_run (SL [cl2 [0; 2] [0]; sxl [0; 0; 0; 1; 1]])
  = SL [SL [SL [SA 0; SA 0; sxl [0; 1; 1; s10]; SA 0]; SL [SA 0; SA 2; sxl [0]; SA 0]; SL [SA 1; SA 0; sxl [0; 1; 2; s10]; SA 0]];
        sxl [1; 2; s10]].
Proof. vm_compute. reflexivity. Qed.

Example oracle_f6 :
  let evs := SL [SL [SL [SA 0; SA 0; sxl [0; 1; 1; s10]; SA 0]; SL [SA 0; SA 2; sxl [0]; SA 0]; SL [SA 1; SA 0; sxl [0; 1; 2; s10]; SA 0]]] in
  lease_gen_strict_ok evs = SA 5 /\ lease_mutex_ok evs = SA 1.
Proof. split; vm_compute; reflexivity. Qed.

(** 1 ns after expiry: B takes over (generation 2); A's pending renew is refused *)
Example lease_run_takeover_after_expiry :
  lease_run (SL [cl2 [0; 1] [0]; SL [SA 0; SA 0; tick (s10 + 1); SA 1; SA 1; SA 0]])
  = SL [SL [SL [SA 0; SA 0; sxl [0; 1; 1; s10]; SA 0];
            SL [SA 1; SA 0; sxl [0; 2; 2; 2 * s10 + 1]; SA (s10 + 1)];
            SL [SA 0; SA 1; sxl [4]; SA (s10 + 1)]];
        sxl [2; 2; 2 * s10 + 1]].
Proof. vm_compute. reflexivity. Qed.

(** exactly at ExpiresAt the lease is NOT expired (time.Now().After(ExpiresAt) is false):
    B is refused, A's renew goes through *)
Example lease_run_boundary_not_expired :
  lease_run (SL [cl2 [0; 1] [0]; SL [SA 0; SA 0; tick s10; SA 1; SA 1; SA 0]])
  = SL [SL [SL [SA 0; SA 0; sxl [0; 1; 1; s10]; SA 0];
            SL [SA 1; SA 0; sxl [1; 1; s10]; SA s10];
            SL [SA 0; SA 1; sxl [0; 1; 1; s10]; SA s10]];
        sxl [1; 1; s10]].
Proof. vm_compute. reflexivity. Qed.

(** the oracles reject what the property forbids *)
Example oracle_rejects :
  (* B acquires at 8 s while A's lease runs until 10 s: two unexpired holders at that instant *)
  lease_mutex_ok (SL [SL [SL [SA 0; SA 0; sxl [0; 1; 1; s10]; SA 0]; SL [SA 1; SA 0; sxl [0; 2; 2; 18000000000]; SA 8000000000]]]) = SA 2 /\
  (* ... and exactly at ExpiresAt A's lease is still unexpired *)
  lease_mutex_ok (SL [SL [SL [SA 0; SA 0; sxl [0; 1; 1; s10]; SA 0]; SL [SA 1; SA 0; sxl [0; 2; 2; 2 * s10]; SA s10]]]) = SA 2 /\
  (* 1 ns later it is fine *)
  lease_mutex_ok (SL [SL [SL [SA 0; SA 0; sxl [0; 1; 1; s10]; SA 0]; SL [SA 1; SA 0; sxl [0; 2; 2; 2 * s10 + 1]; SA (s10 + 1)]]]) = SA 1 /\
  (* a taken-over client renews successfully *)
  lease_mutex_ok (SL [SL [SL [SA 0; SA 0; sxl [0; 1; 1; s10]; SA 0]; SL [SA 1; SA 0; sxl [0; 2; 2; 5]; SA (s10 + 1)];
                          SL [SA 0; SA 1; sxl [0; 1; 1; 2 * s10 + 1]; SA (s10 + 1)]]]) = SA 3 /\
  (* takeover without a generation increase *)
  lease_mutex_ok (SL [SL [SL [SA 0; SA 0; sxl [0; 1; 1; s10]; SA 0]; SL [SA 1; SA 0; sxl [0; 1; 2; 2 * s10 + 1]; SA (s10 + 1)]]]) = SA 4 /\
  lease_gen_strict_ok (SL [SL [SL [SA 0; SA 0; sxl [0; 1; 1; s10]; SA 0]; SL [SA 1; SA 0; sxl [0; 1; 2; 2 * s10 + 1]; SA (s10 + 1)]]]) = SA 0.
Proof. repeat split; vm_compute; reflexivity. Qed.
