(** C20 — tie of the model's expiry test to the source: [Gen.Scalar.Lease_IsExpired]
    is regenerated from leaser.go (func (l *Lease) IsExpired) at the start of every
    check; if the source's comparison changes, this lemma stops checking.  The USE
    of the test inside AcquireLease (the takeover guard) is tied by the
    correspondence run: the boundary scope of the harness issues acquires with
    0 ns / 1 ns / ... of validity left on the current lease, on an exact clock. *)
From Coq Require Import ZArith.
From LS Require Gen.Scalar.
From LS Require Import Lease.Client.

Lemma is_expired_matches_source : forall (now : Z) (l : lease),
  Gen.Scalar.Lease_IsExpired (l_exp l) now = is_expired now l.
Proof. intros. reflexivity. Qed.
