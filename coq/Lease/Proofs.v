(** C20 — proofs about the lease protocol of s3/leaser.go, for ANY number of
    clients, any interleaving of their storage requests and clock reads, any
    clock ticks, any (also negative) TTLs, any left-over lock object.

    Assumptions, all explicit premises of the closed theorems:
    - [f_inj], [teqb_spec]: the ETag is an injective function of the object
      content and If-Match compares tags for equality;
    - conditional requests are atomic per key (built into [exec]);
    - one global monotone clock (built into [exec]: [LTick d] needs [0 <= d]);
    - for the revocation theorems only: owners are pairwise distinct ([own_inj]).
      Mutual exclusion itself does not need it. *)
From Coq Require Import ZArith NArith Bool List Arith Lia.
From LS Require Import Lease.Store Lease.Client Lease.Sched.
Import ListNotations.
Open Scope Z_scope.

Section LeaseProofs.
  Variable T : Type.
  Variable f : lease -> T.
  Variable teqb : T -> T -> bool.
  Hypothesis f_inj : forall a b, f a = f b -> a = b.
  Hypothesis teqb_spec : forall a b, teqb a b = true <-> a = b.

  Variable own : nat -> N.
  Variable ttl : nat -> Z.
  Variable now0 : Z.
  Variable s0 : store lease.

  Notation state := (state T).
  Notation client := (client T).
  Notation hlease := (hlease T).
  Notation exec := (exec f teqb).
  Notation run := (run f teqb).
  Notation init0 := (init (T:=T) own ttl now0 s0).
  Notation reach := (reachable f teqb init0).

  Definition live (now : Z) (h : hlease) : Prop := is_expired now (h_rec h) = false.

  Lemma expired_mono : forall now d e, 0 <= d -> is_expired now e = true -> is_expired (now + d) e = true.
  Proof. unfold is_expired; intros. apply Z.ltb_lt in H0. apply Z.ltb_lt. lia. Qed.

  Lemma live_antimono : forall now d h, 0 <= d -> live (now + d) h -> live now h.
  Proof. unfold live, is_expired; intros. apply Z.ltb_ge in H0. apply Z.ltb_ge. lia. Qed.

  (** ** The invariant *)

  (** what a client inside a call knows (its program counter carries data read earlier) *)
  Definition pc_inv (now : Z) (c : client) : Prop :=
    match c_pc c with
    | PAcqChk e t => t = f e
    | PAcqMk g (Some t) => exists e, t = f e /\ is_expired now e = true /\ g = l_gen e + 1
    | PAcqMk g None => g = 1
    | PAcqPut l (Some t) =>
        (exists e, t = f e /\ is_expired now e = true /\ l_gen l = l_gen e + 1) /\ l_owner l = c_owner c
    | PAcqPut l None => l_gen l = 1 /\ l_owner l = c_owner c
    | PRenMk h t => c_held c = Some h /\ h_etag h = Some t
    | PRenPut l t =>
        exists h, c_held c = Some h /\ h_etag h = Some t /\ l_owner l = c_owner c /\ l_gen l = l_gen (h_rec h)
    | PRelDel t => exists h, c_held c = Some h /\ h_etag h = Some t
    | _ => True
    end.

  Record Inv (s : state) : Prop := mkInv {
    (* J: an unexpired held lease is the store's current content *)
    inv_J : forall c h, c_held (st_cl s c) = Some h -> live (st_now s) h -> st_store s = Some (h_rec h);
    inv_tag : forall c h, c_held (st_cl s c) = Some h ->
                h_etag h = Some (f (h_rec h)) /\ l_owner (h_rec h) = c_owner (st_cl s c);
    (* an unexpired record is held by at most one client *)
    inv_uniq : forall c c' h h', c_held (st_cl s c) = Some h -> c_held (st_cl s c') = Some h' ->
                live (st_now s) h -> h_rec h = h_rec h' -> c = c';
    inv_pc : forall c, pc_inv (st_now s) (st_cl s c);
    inv_own : forall c, c_owner (st_cl s c) = own c
  }.

  Lemma upd_same : forall (m : nat -> client) c v, upd m c v c = v.
  Proof. intros; unfold upd. rewrite Nat.eqb_refl. reflexivity. Qed.

  Lemma upd_other : forall (m : nat -> client) c v c', c' <> c -> upd m c v c' = m c'.
  Proof. intros; unfold upd. apply Nat.eqb_neq in H. rewrite H. reflexivity. Qed.

  Lemma inv_init : Inv init0.
  Proof.
    constructor; simpl; intros; try discriminate; auto. exact I.
  Qed.

  (** a micro-step of client c that does not write and keeps what c holds *)
  Lemma frame_nowrite : forall s c cl' lg,
    Inv s ->
    c_held cl' = c_held (st_cl s c) ->
    c_owner cl' = c_owner (st_cl s c) ->
    pc_inv (st_now s) cl' ->
    Inv (mkState (st_store s) (st_now s) (upd (st_cl s) c cl') lg).
  Proof.
    intros s c cl' lg HI Hh Ho Hp.
    assert (Hheld : forall c1, c_held (upd (st_cl s) c cl' c1) = c_held (st_cl s c1)).
    { intro c1. destruct (Nat.eq_dec c1 c) as [->|N]; [rewrite upd_same; auto | rewrite upd_other; auto]. }
    assert (Hown : forall c1, c_owner (upd (st_cl s) c cl' c1) = c_owner (st_cl s c1)).
    { intro c1. destruct (Nat.eq_dec c1 c) as [->|N]; [rewrite upd_same; auto | rewrite upd_other; auto]. }
    constructor; simpl.
    - intros c1 h H1 H2. rewrite Hheld in H1. eapply inv_J; eauto.
    - intros c1 h H1. rewrite Hheld in H1. rewrite Hown. eapply inv_tag; eauto.
    - intros c1 c2 h h' H1 H2 H3 H4. rewrite Hheld in H1, H2. eapply inv_uniq; eauto.
    - intro c1. destruct (Nat.eq_dec c1 c) as [->|N]; [rewrite upd_same; auto | rewrite upd_other; auto].
      apply (inv_pc s HI).
    - intro c1. rewrite Hown. apply (inv_own s HI).
  Qed.

  (** a successful conditional write by client c, possible only when no OTHER
      client holds an unexpired lease; afterwards c holds exactly what it wrote
      (or nothing, after a delete) *)
  Lemma frame_write : forall s c cl' st' lg,
    Inv s ->
    (forall c2 h2, c2 <> c -> c_held (st_cl s c2) = Some h2 -> live (st_now s) h2 -> False) ->
    c_owner cl' = c_owner (st_cl s c) ->
    c_pc cl' = PIdle ->
    (c_held cl' = None \/
     exists l, c_held cl' = Some (mkH l (Some (f l))) /\ st' = Some l /\ l_owner l = c_owner (st_cl s c)) ->
    Inv (mkState st' (st_now s) (upd (st_cl s) c cl') lg).
  Proof.
    intros s c cl' st' lg HI Hex Ho Hpc Hnew.
    assert (Hown : forall c1, c_owner (upd (st_cl s) c cl' c1) = c_owner (st_cl s c1)).
    { intro c1. destruct (Nat.eq_dec c1 c) as [->|N]; [rewrite upd_same; auto | rewrite upd_other; auto]. }
    constructor; simpl.
    - intros c1 h H1 H2. destruct (Nat.eq_dec c1 c) as [->|N].
      + rewrite upd_same in H1. destruct Hnew as [Hn|[l [Hl [Hs _]]]]; [congruence|].
        rewrite Hl in H1. inversion H1; subst. reflexivity.
      + rewrite upd_other in H1 by auto. exfalso. eapply Hex; eauto.
    - intros c1 h H1. rewrite Hown. destruct (Nat.eq_dec c1 c) as [->|N].
      + rewrite upd_same in H1. destruct Hnew as [Hn|[l [Hl [Hs Hlo]]]]; [congruence|].
        rewrite Hl in H1. inversion H1; subst. simpl. auto.
      + rewrite upd_other in H1 by auto. eapply inv_tag; eauto.
    - intros c1 c2 h h' H1 H2 H3 H4.
      destruct (Nat.eq_dec c1 c) as [E1|N1]; destruct (Nat.eq_dec c2 c) as [E2|N2]; subst; auto.
      + rewrite upd_other in H2 by auto. exfalso. eapply (Hex c2 h'); eauto.
        unfold live in *. rewrite <- H4. exact H3.
      + rewrite upd_other in H1 by auto. exfalso. eapply (Hex c1 h); eauto.
      + rewrite upd_other in H1, H2 by auto. eapply inv_uniq; eauto.
    - intro c1. destruct (Nat.eq_dec c1 c) as [->|N].
      + rewrite upd_same. unfold pc_inv. rewrite Hpc. exact I.
      + rewrite upd_other by auto. apply (inv_pc s HI).
    - intro c1. rewrite Hown. apply (inv_own s HI).
  Qed.

  Lemma pc_inv_tick : forall now d c, 0 <= d -> pc_inv now c -> pc_inv (now + d) c.
  Proof.
    unfold pc_inv; intros now d c Hd H. destruct (c_pc c); auto.
    - destruct et; auto. destruct H as [e [? [? ?]]]. exists e; repeat split; auto using expired_mono.
    - destruct et; auto. destruct H as [[e [? [? ?]]] ?]. split; auto.
      exists e; repeat split; auto using expired_mono.
  Qed.

  (** no other client holds an unexpired lease when a write conditioned on the
      tag of an EXPIRED record succeeds *)
  Lemma excl_expired : forall s e,
    Inv s -> st_store s = Some e -> is_expired (st_now s) e = true ->
    forall c2 h2, c_held (st_cl s c2) = Some h2 -> live (st_now s) h2 -> False.
  Proof.
    intros s e HI Hs He c2 h2 H1 H2.
    pose proof (inv_J s HI c2 h2 H1 H2) as HJ. rewrite Hs in HJ. inversion HJ; subst.
    unfold live in H2. congruence.
  Qed.

  Lemma excl_empty : forall s,
    Inv s -> st_store s = None ->
    forall c2 h2, c_held (st_cl s c2) = Some h2 -> live (st_now s) h2 -> False.
  Proof.
    intros s HI Hs c2 h2 H1 H2.
    pose proof (inv_J s HI c2 h2 H1 H2) as HJ. congruence.
  Qed.

  (** ... or on the tag of the record c itself holds *)
  Lemma excl_own : forall s c h e,
    Inv s -> c_held (st_cl s c) = Some h -> st_store s = Some e -> h_etag h = Some (f e) ->
    forall c2 h2, c2 <> c -> c_held (st_cl s c2) = Some h2 -> live (st_now s) h2 -> False.
  Proof.
    intros s c h e HI Hh Hs Ht c2 h2 Hne H1 H2.
    destruct (inv_tag s HI c h Hh) as [Ht' _]. rewrite Ht in Ht'. inversion Ht' as [Hfe]. apply f_inj in Hfe.
    pose proof (inv_J s HI c2 h2 H1 H2) as HJ. rewrite Hs in HJ. inversion HJ as [He].
    apply Hne. eapply (inv_uniq s HI c2 c h2 h); eauto. congruence.
  Qed.

  Lemma inv_step : forall s l s' o, Inv s -> exec s l = Some (s', o) -> Inv s'.
  Proof.
    intros s l s' o HI H. destruct l as [d | c op | c]; simpl in H.
    - (* tick *)
      destruct (Z.leb 0 d) eqn:Ed; try discriminate. apply Z.leb_le in Ed. inversion H; subst; clear H.
      constructor; simpl.
      + intros c h H1 H2. eapply inv_J; eauto using live_antimono.
      + intros c h H1. eapply inv_tag; eauto.
      + intros c c' h h' H1 H2 H3 H4. eapply inv_uniq; eauto using live_antimono.
      + intro c. apply pc_inv_tick; auto. apply (inv_pc s HI).
      + apply (inv_own s HI).
    - (* call *)
      destruct (c_pc (st_cl s c)) eqn:Epc; try discriminate.
      destruct (ccall op (st_cl s c)) as [cl' r] eqn:Ec. inversion H; subst; clear H.
      apply frame_nowrite; auto; unfold ccall in Ec; destruct op.
      + inversion Ec; reflexivity.
      + destruct (c_held (st_cl s c)) as [h|] eqn:Eh; [destruct (h_etag h) eqn:Et|]; inversion Ec; subst; auto.
      + destruct (c_held (st_cl s c)) as [h|] eqn:Eh; [destruct (h_etag h) eqn:Et|]; inversion Ec; subst; auto.
      + inversion Ec; reflexivity.
      + destruct (c_held (st_cl s c)) as [h|] eqn:Eh; [destruct (h_etag h) eqn:Et|]; inversion Ec; subst; auto.
      + destruct (c_held (st_cl s c)) as [h|] eqn:Eh; [destruct (h_etag h) eqn:Et|]; inversion Ec; subst; auto.
      + inversion Ec; subst. unfold pc_inv; simpl. exact I.
      + destruct (c_held (st_cl s c)) as [h|] eqn:Eh; [destruct (h_etag h) eqn:Et|]; inversion Ec; subst.
        * unfold pc_inv; simpl. auto.
        * unfold pc_inv. rewrite Epc. exact I.
        * unfold pc_inv. rewrite Epc. exact I.
      + destruct (c_held (st_cl s c)) as [h|] eqn:Eh; [destruct (h_etag h) eqn:Et|]; inversion Ec; subst.
        * unfold pc_inv; simpl. eauto.
        * unfold pc_inv. rewrite Epc. exact I.
        * unfold pc_inv. rewrite Epc. exact I.
    - (* micro-step *)
      pose proof (inv_pc s HI c) as Hp. unfold pc_inv in Hp.
      unfold cstep in H.
      destruct (c_pc (st_cl s c)) eqn:Epc; try discriminate.
      + (* PAcqGet *)
        destruct (st_store s) as [e|] eqn:Es; simpl in H; inversion H; subst; clear H;
          rewrite <- Es; apply frame_nowrite; auto; unfold pc_inv; simpl; auto.
      + (* PAcqChk *)
        destruct (negb (is_expired (st_now s) e)) eqn:Ee; simpl in H; inversion H; subst; clear H;
          apply frame_nowrite; auto; unfold pc_inv; simpl; auto.
        exists e. apply negb_false_iff in Ee. auto.
      + (* PAcqMk *)
        simpl in H. inversion H; subst; clear H. apply frame_nowrite; auto. unfold pc_inv; simpl.
        destruct et; auto.
      + (* PAcqPut *)
        destruct (put_if f teqb (st_store s) match et with Some t => Match t | None => NoneMatch end l)
          as [st' [t'| |]] eqn:Ep; simpl in H; inversion H; subst; clear H.
        * apply (put_if_ok _ _ f teqb teqb_spec) in Ep. destruct Ep as [-> [-> Hc]].
          destruct et as [t|].
          -- destruct Hc as [e0 [Hs Ht]]. destruct Hp as [[e [Hte [Hex Hg]]] Hlo].
             assert (e0 = e) by (apply f_inj; congruence). subst e0.
             apply frame_write; auto.
             ++ intros c2 h2 _. eapply excl_expired; eauto.
             ++ right. exists l. auto.
          -- destruct Hp as [Hg Hlo]. apply frame_write; auto.
             ++ intros c2 h2 _. eapply excl_empty; eauto.
             ++ right. exists l. auto.
        * assert (st' = st_store s) by (eapply put_if_fail; eauto; congruence). subst st'.
          apply frame_nowrite; auto. unfold pc_inv; simpl; auto.
        * assert (st' = st_store s) by (eapply put_if_fail; eauto; congruence). subst st'.
          apply frame_nowrite; auto. unfold pc_inv; simpl; auto.
      + (* PAcqReget *)
        destruct (st_store s) as [e|] eqn:Es; simpl in H; inversion H; subst; clear H;
          rewrite <- Es; apply frame_nowrite; auto; unfold pc_inv; simpl; auto.
      + (* PRenMk *)
        simpl in H. inversion H; subst; clear H. apply frame_nowrite; auto. unfold pc_inv; simpl.
        destruct Hp as [Hh Ht]. exists h. auto.
      + (* PRenPut *)
        destruct (put_if f teqb (st_store s) (Match t) l) as [st' [t'| |]] eqn:Ep; simpl in H; inversion H; subst; clear H.
        * apply (put_if_ok _ _ f teqb teqb_spec) in Ep. destruct Ep as [-> [-> [e0 [Hs Ht]]]].
          destruct Hp as [h [Hh [Hht [Hlo Hg]]]]. subst t.
          apply frame_write; auto.
          -- eapply excl_own; eauto.
          -- right. exists l. auto.
        * assert (st' = st_store s) by (eapply put_if_fail; eauto; congruence). subst st'.
          apply frame_nowrite; auto. unfold pc_inv; simpl; auto.
        * assert (st' = st_store s) by (eapply put_if_fail; eauto; congruence). subst st'.
          apply frame_nowrite; auto. unfold pc_inv; simpl; auto.
      + (* PRelDel *)
        destruct (delete_if_match f teqb (st_store s) t) as [st' [| |]] eqn:Ed; simpl in H; inversion H; subst; clear H.
        * apply (delete_ok _ _ f teqb teqb_spec) in Ed. destruct Ed as [-> [e0 [Hs Ht]]].
          destruct Hp as [h [Hh Hht]]. subst t.
          apply frame_write; auto. eapply excl_own; eauto.
        * assert (st' = st_store s) by (eapply delete_fail; eauto; congruence). subst st'.
          apply frame_nowrite; auto. unfold pc_inv; simpl; auto.
        * assert (st' = st_store s) by (eapply delete_fail; eauto; congruence). subst st'.
          apply frame_nowrite; auto. unfold pc_inv; simpl; auto.
  Qed.

  Lemma inv_reachable : forall s, reach s -> Inv s.
  Proof. induction 1; eauto using inv_init, inv_step. Qed.

  (** ** mutex *)
  Theorem mutex : forall s c1 c2,
    reach s -> c1 <> c2 -> ~ (holds_live s c1 /\ holds_live s c2).
  Proof.
    intros s c1 c2 Hr Hne [[h1 [H1 L1]] [h2 [H2 L2]]].
    pose proof (inv_reachable s Hr) as HI.
    pose proof (inv_J s HI c1 h1 H1 L1) as J1.
    pose proof (inv_J s HI c2 h2 H2 L2) as J2.
    apply Hne. eapply (inv_uniq s HI c1 c2 h1 h2); eauto. congruence.
  Qed.

  (** the form of the property text: two clients with distinct owner strings *)
  Corollary mutex_distinct_owners : forall s c1 c2,
    reach s -> c_owner (st_cl s c1) <> c_owner (st_cl s c2) -> ~ (holds_live s c1 /\ holds_live s c2).
  Proof.
    intros s c1 c2 Hr Ho. apply mutex; auto. intro; subst; auto.
  Qed.

  (** ** a second acquire succeeds only after expiry or release *)

  (** the PutObject of an AcquireLease succeeds only if the lock object is absent
      (released / never written) or is a record that has expired; at that moment
      no client at all holds an unexpired lease *)
  Theorem second_acquire_needs_expiry_or_release : forall s c l et s' h,
    reach s -> c_pc (st_cl s c) = PAcqPut l et ->
    exec s (LStep c) = Some (s', Some (c, ROk h)) ->
    (st_store s = None \/ exists e, st_store s = Some e /\ is_expired (st_now s) e = true) /\
    (forall c2, ~ holds_live s c2).
  Proof.
    intros s c l et s' h Hr Epc H. pose proof (inv_reachable s Hr) as HI.
    pose proof (inv_pc s HI c) as Hp. unfold pc_inv in Hp. rewrite Epc in Hp.
    simpl in H. unfold cstep in H. rewrite Epc in H.
    destruct (put_if f teqb (st_store s) match et with Some t => Match t | None => NoneMatch end l)
      as [st' [t'| |]] eqn:Ep; simpl in H; inversion H; subst; clear H.
    apply (put_if_ok _ _ f teqb teqb_spec) in Ep. destruct Ep as [-> [-> Hc]].
    destruct et as [t|].
    - destruct Hc as [e0 [Hs Ht]]. destruct Hp as [[e [Hte [Hex Hg]]] Hlo].
      assert (e0 = e) by (apply f_inj; congruence). subst e0. split.
      + right. exists e. auto.
      + intros c2 [h2 [H1 H2]]. eapply excl_expired; eauto.
    - split; auto. intros c2 [h2 [H1 H2]]. eapply excl_empty; eauto.
  Qed.

  (** ** the generation on takeover *)

  (** an AcquireLease that succeeds over an existing record e writes generation
      e.Generation + 1 under its own owner, and is logged *)
  Theorem gen_increases_on_takeover : forall s c l et s' h e,
    reach s -> c_pc (st_cl s c) = PAcqPut l et -> st_store s = Some e ->
    exec s (LStep c) = Some (s', Some (c, ROk h)) ->
    l_gen (h_rec h) = l_gen e + 1 /\ l_gen e < l_gen (h_rec h) /\
    l_owner (h_rec h) = own c /\
    st_store s' = Some (h_rec h) /\
    st_log s' = (own c, l_gen (h_rec h)) :: st_log s.
  Proof.
    intros s c l et s' h e Hr Epc Hs H. pose proof (inv_reachable s Hr) as HI.
    pose proof (inv_pc s HI c) as Hp. unfold pc_inv in Hp. rewrite Epc in Hp.
    simpl in H. unfold cstep in H. rewrite Epc in H.
    destruct (put_if f teqb (st_store s) match et with Some t => Match t | None => NoneMatch end l)
      as [st' [t'| |]] eqn:Ep; simpl in H; inversion H; subst; clear H.
    apply (put_if_ok _ _ f teqb teqb_spec) in Ep. destruct Ep as [-> [-> Hc]].
    simpl. destruct et as [t|].
    - destruct Hc as [e0 [Hs0 Ht]]. destruct Hp as [[e1 [Hte [Hex Hg]]] Hlo].
      assert (e0 = e1) by (apply f_inj; congruence). subst e0.
      rewrite Hs in Hs0. inversion Hs0; subst e1.
      rewrite Hlo, (inv_own s HI c). repeat split; auto; lia.
    - congruence.
  Qed.

  (** ... and one that finds no object starts at generation 1 (the root of F6) *)
  Lemma gen_one_on_empty : forall s c l et s' h,
    reach s -> c_pc (st_cl s c) = PAcqPut l et -> st_store s = None ->
    exec s (LStep c) = Some (s', Some (c, ROk h)) ->
    l_gen (h_rec h) = 1.
  Proof.
    intros s c l et s' h Hr Epc Hs H. pose proof (inv_reachable s Hr) as HI.
    pose proof (inv_pc s HI c) as Hp. unfold pc_inv in Hp. rewrite Epc in Hp.
    simpl in H. unfold cstep in H. rewrite Epc in H.
    destruct (put_if f teqb (st_store s) match et with Some t => Match t | None => NoneMatch end l)
      as [st' [t'| |]] eqn:Ep; simpl in H; inversion H; subst; clear H.
    apply (put_if_ok _ _ f teqb teqb_spec) in Ep. destruct Ep as [-> [-> Hc]].
    simpl. destruct et as [t|].
    - destruct Hc as [e0 [Hs0 _]]. congruence.
    - tauto.
  Qed.

  (** ** revocation *)
  Section Revocation.
  Hypothesis own_inj : forall c c', own c = own c' -> c = c'.

  (** client c keeps a lease that is no longer the lock object's content *)
  Definition stale (s : state) (c : nat) : Prop :=
    exists h, c_held (st_cl s c) = Some h /\ st_store s <> Some (h_rec h).

  (** what a micro-step of client c can do to the rest of the system *)
  Lemma step_effect : forall s c s' o,
    Inv s -> exec s (LStep c) = Some (s', o) ->
    st_now s' = st_now s /\
    (forall c1, c1 <> c -> st_cl s' c1 = st_cl s c1) /\
    (st_store s' = st_store s \/ st_store s' = None \/
     exists l, st_store s' = Some l /\ l_owner l = own c) /\
    match o with Some (c1, _) => c1 = c | None => True end.
  Proof.
    intros s c s' o HI H. simpl in H.
    pose proof (inv_pc s HI c) as Hp. unfold pc_inv in Hp. rewrite <- (inv_own s HI c).
    assert (Hoth : forall cl' c1, c1 <> c -> upd (st_cl s) c cl' c1 = st_cl s c1) by (intros; apply upd_other; auto).
    unfold cstep in H.
    destruct (c_pc (st_cl s c)) eqn:Epc; try discriminate.
    - destruct (get f (st_store s)); simpl in H; inversion H; subst; simpl; repeat split; auto.
    - destruct (negb (is_expired (st_now s) e)); simpl in H; inversion H; subst; simpl; repeat split; auto.
    - simpl in H; inversion H; subst; simpl; repeat split; auto.
    - destruct (put_if f teqb (st_store s) match et with Some t => Match t | None => NoneMatch end l)
        as [st' [t'| |]] eqn:Ep; simpl in H; inversion H; subst; clear H; simpl.
      + apply (put_if_ok _ _ f teqb teqb_spec) in Ep. destruct Ep as [-> [-> Hc]].
        repeat split; auto. right; right. exists l. split; auto. destruct et; tauto.
      + assert (st' = st_store s) by (eapply put_if_fail; eauto; congruence). subst st'. repeat split; auto.
      + assert (st' = st_store s) by (eapply put_if_fail; eauto; congruence). subst st'. repeat split; auto.
    - destruct (get f (st_store s)); simpl in H; inversion H; subst; simpl; repeat split; auto.
    - simpl in H; inversion H; subst; simpl; repeat split; auto.
    - destruct (put_if f teqb (st_store s) (Match t) l) as [st' [t'| |]] eqn:Ep; simpl in H; inversion H; subst; clear H; simpl.
      + apply (put_if_ok _ _ f teqb teqb_spec) in Ep. destruct Ep as [-> [-> Hc]].
        repeat split; auto. right; right. exists l. split; auto. destruct Hp as [h [_ [_ [Hlo _]]]]. repeat split; auto.
      + assert (st' = st_store s) by (eapply put_if_fail; eauto; congruence). subst st'. repeat split; auto.
      + assert (st' = st_store s) by (eapply put_if_fail; eauto; congruence). subst st'. repeat split; auto.
    - destruct (delete_if_match f teqb (st_store s) t) as [st' [| |]] eqn:Ed; simpl in H; inversion H; subst; clear H; simpl.
      + apply (delete_ok _ _ f teqb teqb_spec) in Ed. destruct Ed as [-> _]. repeat split; auto.
      + assert (st' = st_store s) by (eapply delete_fail; eauto; congruence). subst st'. repeat split; auto.
      + assert (st' = st_store s) by (eapply delete_fail; eauto; congruence). subst st'. repeat split; auto.
  Qed.

  (** a successful write by ANOTHER client (takeover, or any renew / release of
      what it holds) makes c's lease stale *)
  Lemma takeover_makes_stale : forall s c c' h s' o,
    reach s -> c' <> c -> c_held (st_cl s c) = Some h ->
    exec s (LStep c') = Some (s', o) -> st_store s' <> st_store s -> stale s' c.
  Proof.
    intros s c c' h s' o Hr Hne Hh H Hch. pose proof (inv_reachable s Hr) as HI.
    destruct (step_effect s c' s' o HI H) as [_ [Hoth [Hst _]]].
    exists h. rewrite Hoth by auto. split; auto.
    destruct Hst as [E|[E|[l [E Hlo]]]]; [contradiction | congruence |].
    rewrite E. intro X. inversion X; subst l.
    destruct (inv_tag s HI c h Hh) as [_ Ho]. rewrite (inv_own s HI c) in Ho.
    apply Hne. apply own_inj. congruence.
  Qed.

  Definition not_by (c : nat) (l : label) : Prop :=
    match l with LTick _ => True | LCall c1 _ => c1 <> c | LStep c1 => c1 <> c end.

  (** nothing the others do (and no passing of time) makes it fresh again *)
  Lemma stale_stable : forall s c l s' o,
    reach s -> stale s c -> not_by c l -> exec s l = Some (s', o) ->
    stale s' c /\ st_cl s' c = st_cl s c /\ match o with Some (c1, _) => c1 <> c | None => True end.
  Proof.
    intros s c l s' o Hr [h [Hh Hs]] Hnb H. pose proof (inv_reachable s Hr) as HI.
    destruct l as [d | c1 op | c1]; simpl in Hnb.
    - simpl in H. destruct (Z.leb 0 d); inversion H; subst. split; [|split]; auto. exists h. auto.
    - simpl in H. destruct (c_pc (st_cl s c1)); try discriminate.
      destruct (ccall op (st_cl s c1)) as [cl' r]. inversion H; subst. simpl.
      split; [|split].
      + exists h. simpl. rewrite upd_other by auto. auto.
      + apply upd_other; auto.
      + destruct r; auto.
    - destruct (step_effect s c1 s' o HI H) as [_ [Hoth [Hst Ho]]].
      split; [|split].
      + exists h. rewrite Hoth by auto. split; auto.
        destruct Hst as [E|[E|[l [E Hlo]]]]; [congruence | congruence |].
        rewrite E. intro X. inversion X; subst l.
        destruct (inv_tag s HI c h Hh) as [_ Ho']. rewrite (inv_own s HI c) in Ho'.
        apply Hnb. apply own_inj. congruence.
      + apply Hoth; auto.
      + destruct o as [[c2 r]|]; auto. congruence.
  Qed.

  Definition failed (r : result T) : Prop := r = RNotHeld \/ r = ROther \/ r = RAlreadyReleased.

  (** the renew / release request of a client whose lease is stale is refused,
      with ErrLeaseNotHeld whenever a lock object exists, and changes nothing *)
  Lemma stale_renew_release_refused : forall s c s' o,
    reach s -> stale s c ->
    (exists l t, c_pc (st_cl s c) = PRenPut l t) \/ (exists t, c_pc (st_cl s c) = PRelDel t) ->
    exec s (LStep c) = Some (s', o) ->
    exists r, o = Some (c, r) /\ failed r /\ (st_store s <> None -> r = RNotHeld) /\
              st_store s' = st_store s /\ stale s' c /\ c_pc (st_cl s' c) = PIdle.
  Proof.
    intros s c s' o Hr [h [Hh Hs]] Hpc H. pose proof (inv_reachable s Hr) as HI.
    pose proof (inv_pc s HI c) as Hp. unfold pc_inv in Hp.
    destruct (inv_tag s HI c h Hh) as [Ht _].
    simpl in H. unfold cstep in H.
    destruct Hpc as [[l [t Epc]]|[t Epc]]; rewrite Epc in H, Hp.
    - destruct Hp as [h' [Hh' [Ht' _]]]. rewrite Hh in Hh'. inversion Hh'; subst h'.
      rewrite Ht in Ht'. inversion Ht'; subst t.
      destruct (st_store s) as [e|] eqn:Es.
      + rewrite (put_match_other_412 _ _ f teqb f_inj teqb_spec) in H by congruence.
        simpl in H. inversion H; subst; clear H. simpl. rewrite upd_same. simpl.
        exists RNotHeld. unfold failed. repeat split; auto.
        exists h. simpl. rewrite upd_same. simpl. auto.
      + simpl in H. inversion H; subst; clear H. simpl. rewrite upd_same. simpl.
        exists ROther. unfold failed. repeat split; auto; try congruence.
        exists h. simpl. rewrite upd_same. simpl. split; auto; congruence.
    - destruct Hp as [h' [Hh' Ht']]. rewrite Hh in Hh'. inversion Hh'; subst h'.
      rewrite Ht in Ht'. inversion Ht'; subst t.
      destruct (st_store s) as [e|] eqn:Es.
      + rewrite (delete_other_412 _ _ f teqb f_inj teqb_spec) in H by congruence.
        simpl in H. inversion H; subst; clear H. simpl. rewrite upd_same. simpl.
        exists RNotHeld. unfold failed. repeat split; auto.
        exists h. simpl. rewrite upd_same. simpl. auto.
      + simpl in H. inversion H; subst; clear H. simpl. rewrite upd_same. simpl.
        exists RAlreadyReleased. unfold failed. repeat split; auto; try congruence.
        exists h. simpl. rewrite upd_same. simpl. split; auto; congruence.
  Qed.

  (** c is idle or inside a renew / release (not inside an acquire) *)
  Definition not_acquiring (p : pc T) : Prop :=
    match p with PIdle | PRenMk _ _ | PRenPut _ _ | PRelDel _ => True | _ => False end.

  Lemma stale_own_step : forall s c l s' o,
    reach s -> stale s c -> not_acquiring (c_pc (st_cl s c)) ->
    (l = LStep c \/ l = LCall c OpRenew \/ l = LCall c OpRelease) ->
    exec s l = Some (s', o) ->
    stale s' c /\ not_acquiring (c_pc (st_cl s' c)) /\
    match o with Some (c1, r) => c1 = c /\ failed r | None => True end.
  Proof.
    intros s c l s' o Hr Hst Hna Hl H. pose proof (inv_reachable s Hr) as HI.
    destruct Hl as [->|Hl].
    - destruct (c_pc (st_cl s c)) eqn:Epc; simpl in Hna; try contradiction.
      + simpl in H. rewrite Epc in H. discriminate.
      + destruct Hst as [h0 [Hh Hs]].
        simpl in H. unfold cstep in H. rewrite Epc in H. simpl in H. inversion H; subst; clear H. simpl.
        rewrite upd_same. simpl. repeat split; auto. exists h0. simpl. rewrite upd_same. simpl. auto.
      + destruct (stale_renew_release_refused s c s' o Hr Hst) as [r [-> [Hf [_ [_ [Hst' Hpc']]]]]]; eauto.
        rewrite Hpc'. simpl. auto.
      + destruct (stale_renew_release_refused s c s' o Hr Hst) as [r [-> [Hf [_ [_ [Hst' Hpc']]]]]]; eauto.
        rewrite Hpc'. simpl. auto.
    - destruct Hst as [h [Hh Hs]]. destruct (inv_tag s HI c h Hh) as [Ht _].
      assert (exists p, not_acquiring p /\ exec s l = Some (mkState (st_store s) (st_now s) (upd (st_cl s) c (set_pc (st_cl s c) p)) (st_log s), None)) as [p [Hp E]].
      { destruct (c_pc (st_cl s c)) eqn:Epc;
          try (destruct Hl as [->| ->]; simpl in H; rewrite Epc in H; discriminate).
        destruct Hl as [->| ->]; simpl; rewrite Epc; unfold ccall; rewrite Hh, Ht.
        - exists (PRenMk h (f (h_rec h))). simpl; auto.
        - exists (PRelDel (f (h_rec h))). simpl; auto. }
      rewrite E in H. inversion H; subst; clear H. simpl. rewrite upd_same. simpl.
      repeat split; auto. exists h. simpl. rewrite upd_same. simpl. auto.
  Qed.

  (** An instance whose lease was taken over can no longer renew or release it:
      from a state in which c's lease is stale (see [takeover_makes_stale]),
      whatever the other clients and the clock do, as long as c itself does not
      call AcquireLease again, every RenewLease / ReleaseLease of c fails
      (ErrLeaseNotHeld; or, once the lock object has been deleted, the PutObject
      error / ErrLeaseAlreadyReleased). *)
  Theorem takeover_revokes : forall ls s c s' os,
    reach s -> stale s c -> not_acquiring (c_pc (st_cl s c)) ->
    ~ In (LCall c OpAcquire) ls ->
    run s ls = Some (s', os) ->
    (forall r, In (c, r) os -> failed r) /\ stale s' c.
  Proof.
    induction ls as [|l tl IH]; intros s c s' os Hr Hst Hna Hno H; simpl in H.
    - inversion H; subst. split; auto. intros r [].
    - destruct (exec s l) as [[s1 o]|] eqn:E; try discriminate.
      destruct (run s1 tl) as [[s2 os2]|] eqn:E2; try discriminate.
      inversion H; subst; clear H.
      assert (Hr1 : reach s1) by (eapply reach_step; eauto).
      assert (Hno' : ~ In (LCall c OpAcquire) tl) by (intro; apply Hno; right; auto).
      assert (Hcases : not_by c l \/ l = LStep c \/ l = LCall c OpRenew \/ l = LCall c OpRelease).
      { destruct l as [d|c1 op|c1]; simpl.
        - auto.
        - destruct (Nat.eq_dec c1 c) as [->|N]; auto. destruct op; auto. exfalso. apply Hno. left; auto.
        - destruct (Nat.eq_dec c1 c) as [->|N]; auto. }
      destruct Hcases as [Hnb|Hown].
      + destruct (stale_stable s c l s1 o Hr Hst Hnb E) as [Hst1 [Hcl Ho]].
        assert (Hna1 : not_acquiring (c_pc (st_cl s1 c))) by (rewrite Hcl; auto).
        destruct (IH s1 c s' os2 Hr1 Hst1 Hna1 Hno' E2) as [Hres Hst'].
        split; auto. intros r Hin. destruct o as [[c1 r1]|]; auto.
        destruct Hin as [X|Hin]; auto. inversion X; subst. contradiction.
      + destruct (stale_own_step s c l s1 o Hr Hst Hna Hown E) as [Hst1 [Hna1 Ho]].
        destruct (IH s1 c s' os2 Hr1 Hst1 Hna1 Hno' E2) as [Hres Hst'].
        split; auto. intros r Hin. destruct o as [[c1 r1]|]; auto.
        destruct Hin as [X|Hin]; auto. inversion X; subst. tauto.
  Qed.
  End Revocation.
End LeaseProofs.

(** ** F6: the generation does NOT strictly increase from one owner to the next *)

(** the property text's last clause, on the ghost log of successful acquires
    (newest first): whenever the owner changes, the generation goes up *)
Fixpoint gen_strict (lg : list (N * Z)) : Prop :=
  match lg with
  | (o2, g2) :: tl =>
      match tl with
      | (o1, g1) :: _ => (o1 <> o2 -> g1 < g2) /\ gen_strict tl
      | [] => True
      end
  | [] => True
  end.

Definition f6_owner (c : nat) : N := N.of_nat c + 1.

(** client 0: AcquireLease (3 micro-steps: GET 404, clock, PUT If-None-Match),
    ReleaseLease (DELETE If-Match); then client 1: AcquireLease *)
Definition f6_trace : list label :=
  [LCall 0 OpAcquire; LStep 0; LStep 0; LStep 0;
   LCall 0 OpRelease; LStep 0;
   LCall 1 OpAcquire; LStep 1; LStep 1; LStep 1].

Lemma run_app : forall T f teqb (a b : list label) (s : state T),
  run f teqb s (a ++ b) =
  match run f teqb s a with
  | Some (s1, o1) => match run f teqb s1 b with Some (s2, o2) => Some (s2, o1 ++ o2) | None => None end
  | None => None
  end.
Proof.
  induction a as [|l tl IH]; intros b s; simpl.
  - destruct (run f teqb s b) as [[s2 o2]|]; reflexivity.
  - destruct (exec f teqb s l) as [[s1 o]|]; auto. rewrite IH.
    destruct (run f teqb s1 tl) as [[s2 o2]|]; auto.
    destruct (run f teqb s2 b) as [[s3 o3]|]; auto. destruct o; reflexivity.
Qed.

Lemma run_single : forall T f teqb (l : label) (s : state T),
  run f teqb s [l] =
  match exec f teqb s l with
  | Some (s', o) => Some (s', match o with Some x => [x] | None => [] end)
  | None => None
  end.
Proof. intros. simpl. destruct (exec f teqb s l) as [[s' o]|]; reflexivity. Qed.

Section Refuted.
  Variable T : Type.
  Variable f : lease -> T.
  Variable teqb : T -> T -> bool.
  Hypothesis teqb_spec : forall a b, teqb a b = true <-> a = b.

  Lemma teqb_refl : forall a, teqb a a = true.
  Proof. intro a. apply teqb_spec. reflexivity. Qed.

  (** For every ETag function: A acquires generation 1, releases, B (another
      owner) acquires — generation 1 again. Confirmed on the real s3.Leaser by the
      harness (oracle lease_gen_strict_ok, known finding F6). *)
  Theorem gen_after_release_refuted :
    exists s os,
      run f teqb (init f6_owner (fun _ => 10) 0 None) f6_trace = Some (s, os) /\
      reachable f teqb (init f6_owner (fun _ => 10) 0 None) s /\
      (forall c c', f6_owner c = f6_owner c' -> c = c') /\
      st_log s = [(f6_owner 1%nat, 1); (f6_owner 0%nat, 1)] /\
      os = [(0%nat, ROk (mkH (mkLease 1 10 1) (Some (f (mkLease 1 10 1)))));
            (0%nat, RReleased);
            (1%nat, ROk (mkH (mkLease 1 10 2) (Some (f (mkLease 1 10 2)))))] /\
      ~ gen_strict (st_log s).
  Proof.
    assert (R : exists s os,
      run f teqb (init f6_owner (fun _ => 10) 0 None) f6_trace = Some (s, os) /\
      st_log s = [(f6_owner 1%nat, 1); (f6_owner 0%nat, 1)] /\
      os = [(0%nat, ROk (mkH (mkLease 1 10 1) (Some (f (mkLease 1 10 1)))));
            (0%nat, RReleased);
            (1%nat, ROk (mkH (mkLease 1 10 2) (Some (f (mkLease 1 10 2)))))]).
    { change f6_trace with (firstn 5 f6_trace ++ [LStep 0] ++ skipn 6 f6_trace).
      remember (run f teqb (init f6_owner (fun _ => 10) 0 None) (firstn 5 f6_trace)) as r1 eqn:E1.
      pose proof E1 as E1'. vm_compute in E1'.
      match type of E1' with _ = Some (?s, _) => set (s1 := s) in * end.
      remember (exec f teqb s1 (LStep 0)) as r2 eqn:E2.
      pose proof E2 as E2'. vm_compute in E2'. rewrite teqb_refl in E2'.
      match type of E2' with _ = Some (?s, _) => set (s2 := s) in * end.
      remember (run f teqb s2 (skipn 6 f6_trace)) as r3 eqn:E3.
      pose proof E3 as E3'. vm_compute in E3'.
      match type of E3' with _ = Some (?s, _) => set (s3 := s) in * end.
      rewrite run_app, <- E1, E1'. rewrite run_app. rewrite run_single, <- E2, E2'. rewrite <- E3, E3'.
      exists s3. eexists. split; [reflexivity|]. split; reflexivity. }
    destruct R as [s [os [Hrun [Hlog Hos]]]].
    exists s, os. repeat split; auto.
    - eapply run_reachable; [apply reach_init | exact Hrun].
    - unfold f6_owner. intros c c' H. lia.
    - rewrite Hlog. simpl. intros [H _]. unfold f6_owner in H. simpl in H.
      assert (1 < 1) by (apply H; discriminate). lia.
  Qed.
End Refuted.

(** ** Non-vacuity: the hypotheses of the theorems are satisfiable by concrete,
    non-trivial states (instance of the runner: tag = content, f = identity) *)
From LS Require Import Lease.Entry.

Lemma lease_eqb_spec : forall a b, lease_eqb a b = true <-> a = b.
Proof.
  intros [g1 e1 o1] [g2 e2 o2]. unfold lease_eqb; simpl. split.
  - intro H. apply andb_true_iff in H. destruct H as [H H3]. apply andb_true_iff in H. destruct H as [H1 H2].
    apply Z.eqb_eq in H1. apply Z.eqb_eq in H2. apply N.eqb_eq in H3. subst. reflexivity.
  - intro H. inversion H; subst. rewrite !Z.eqb_refl, N.eqb_refl. reflexivity.
Qed.

Lemma tag_of_inj : forall a b, tag_of a = tag_of b -> a = b.
Proof. auto. Qed.

(** clients 0 (TTL +100) and 1 (TTL -5: born expired). 1 acquires (generation 1,
    expired at once); 0 takes over (generation 2, live); 1 calls RenewLease and is
    about to send its PutObject If-Match with the stale tag *)
Definition ex_init := init (T:=tag) f6_owner (fun c => match c with O => 100 | _ => -5 end) 50 None.
Definition ex_trace : list label :=
  [LCall 1 OpAcquire; LStep 1; LStep 1; LStep 1;
   LTick 3;
   LCall 0 OpAcquire; LStep 0; LStep 0; LStep 0; LStep 0].
Definition ex_trace2 : list label := [LCall 1 OpRenew; LStep 1; LStep 1].

Definition ex_state : state tag :=
  match run tag_of lease_eqb ex_init ex_trace with Some (s, _) => s | None => ex_init end.

Lemma ex_state_reachable : reachable tag_of lease_eqb ex_init ex_state.
Proof.
  unfold ex_state. destruct (run tag_of lease_eqb ex_init ex_trace) as [[s os]|] eqn:E.
  - eapply run_reachable; [apply reach_init | exact E].
  - apply reach_init.
Qed.

(** [mutex] is not vacuous: a reachable state in which client 0 holds an
    unexpired lease (generation 2) while client 1 still keeps its expired
    generation-1 lease — and that lease is stale ([takeover_revokes]'s premise) *)
Example mutex_nonvacuous :
  holds_live ex_state 0 /\
  (exists h, c_held (st_cl ex_state 1) = Some h /\ l_gen (h_rec h) = 1 /\ is_expired (st_now ex_state) (h_rec h) = true) /\
  stale tag ex_state 1 /\ not_acquiring tag (c_pc (st_cl ex_state 1)) /\
  st_log ex_state = [(1%N, 2); (2%N, 1)].
Proof.
  split; [|split; [|split; [|split]]].
  - eexists. split; vm_compute; reflexivity.
  - eexists. split; [vm_compute; reflexivity|]. split; vm_compute; reflexivity.
  - eexists. split; [vm_compute; reflexivity|]. vm_compute. discriminate.
  - vm_compute. exact I.
  - vm_compute. reflexivity.
Qed.

(** [second_acquire_needs_expiry_or_release] / [gen_increases_on_takeover] are
    not vacuous: the takeover step of ex_trace is a successful PAcqPut over an
    existing record *)
Example takeover_step_exists :
  exists s s' l t h e,
    reachable tag_of lease_eqb ex_init s /\ c_pc (st_cl s 0) = PAcqPut l (Some t) /\ st_store s = Some e /\
    exec tag_of lease_eqb s (LStep 0) = Some (s', Some (0%nat, ROk h)) /\ l_gen (h_rec h) = 2.
Proof.
  destruct (run tag_of lease_eqb ex_init (firstn 9 ex_trace)) as [[s os]|] eqn:E; [|vm_compute in E; discriminate].
  exists s. assert (Hr : reachable tag_of lease_eqb ex_init s) by (eapply run_reachable; [apply reach_init | exact E]).
  vm_compute in E. inversion E; subst; clear E.
  do 5 eexists. split; [exact Hr|]. split; [vm_compute; reflexivity|]. split; [vm_compute; reflexivity|].
  split; vm_compute; reflexivity.
Qed.

(** [takeover_revokes] is not vacuous: the revoked client's RenewLease returns ErrLeaseNotHeld *)
Example revoked_renew_fails :
  exists s os, run tag_of lease_eqb ex_state ex_trace2 = Some (s, os) /\ os = [(1%nat, RNotHeld)].
Proof. vm_compute. eexists. eexists. split; reflexivity. Qed.
