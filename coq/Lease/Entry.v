(** [sx -> sx] entry points of the Lease layer (C20) for the correspondence runner.

    The runner instantiates the abstract ETag function with the identity on
    contents (injective), i.e. a tag is "the content it was computed from".

    Clock of a run: explicit.  It starts at 0 (nanoseconds) and moves only by
    the [tick] elements of the schedule — exactly as the implementation's clock
    does in the harness (a synctest bubble: time.Now() is frozen while code runs
    and jumps by the scheduler's sleeps).  TTLs are arbitrary integers (ns), so
    the remaining validity of a lease at the moment of any request is exact and
    boundary values (expired by 1 ns, exactly now, 1 ns left, ...) are reachable.
    Times leave the model relative to the start of the run. *)
From Coq Require Import List ZArith NArith Bool Arith.
From LS Require Import Base.Sx Lease.Store Lease.Client.
Import ListNotations.
Open Scope Z_scope.

Definition lease_eqb (a b : lease) : bool :=
  Z.eqb (l_gen a) (l_gen b) && Z.eqb (l_exp a) (l_exp b) && N.eqb (l_owner a) (l_owner b).

Definition tag := lease.
Definition tag_of (l : lease) : tag := l.

(** ** Running a schedule *)

(** a client with the rest of its program and the op it is currently in *)
Record rc := mkRc { rc_cl : client tag; rc_prog : list op; rc_cur : Z }.

Record rst := mkRst {
  r_store : store lease;
  r_now : Z;
  r_cls : list rc;
  r_events : list sx             (* newest first *)
}.

Definition op_code (o : op) : Z :=
  match o with OpAcquire => 0 | OpRenew => 1 | OpRelease => 2 end.

Definition op_of_code (z : Z) : op :=
  if Z.eqb z 0 then OpAcquire else if Z.eqb z 1 then OpRenew else OpRelease.

Definition sx_result (r : result tag) : sx :=
  match r with
  | ROk h => SL [SA 0; SA (l_gen (h_rec h)); sxN (l_owner (h_rec h)); SA (l_exp (h_rec h))]
  | RReleased => SL [SA 0]
  | RExists o e => SL [SA 1; sxN o; SA e]
  | RExistsEmpty => SL [SA 1; SA 0; SA 0]
  | RRequired => SL [SA 2]
  | RETagRequired => SL [SA 3]
  | RNotHeld => SL [SA 4]
  | RAlreadyReleased => SL [SA 5]
  | ROther => SL [SA 6]
  end.

Definition sx_store (s : store lease) : sx :=
  match s with
  | None => SL []
  | Some l => SL [SA (l_gen l); sxN (l_owner l); SA (l_exp l)]
  end.

Fixpoint set_nth {A} (i : nat) (v : A) (l : list A) : list A :=
  match l, i with
  | [], _ => []
  | _ :: tl, O => v :: tl
  | x :: tl, S i' => x :: set_nth i' v tl
  end.

(** a completed call: client, op, result, clock at completion *)
Definition event (i : nat) (opc : Z) (now : Z) (r : result tag) : sx :=
  SL [SA (Z.of_nat i); SA opc; sx_result r; SA now].

(** client i runs on by itself — entering calls, reading the clock — until its
    next storage request (where the harness parks it) or the end of its program *)
Fixpoint advance (fuel : nat) (i : nat) (st : rst) : rst :=
  match fuel with
  | O => st
  | S fuel' =>
      match nth_error (r_cls st) i with
      | None => st
      | Some c =>
          match c_pc (rc_cl c) with
          | PIdle =>
              match rc_prog c with
              | [] => st
              | o :: tl =>
                  let (cl', r) := ccall o (rc_cl c) in
                  let c' := mkRc cl' tl (op_code o) in
                  advance fuel' i
                    (mkRst (r_store st) (r_now st) (set_nth i c' (r_cls st))
                           (match r with
                            | Some r => event i (op_code o) (r_now st) r :: r_events st
                            | None => r_events st
                            end))
              end
          | p =>
              if is_request p then st
              else
                let o := cstep tag_of lease_eqb (r_now st) (r_store st) (rc_cl c) in
                let c' := mkRc (o_client o) (rc_prog c) (rc_cur c) in
                advance fuel' i
                  (mkRst (o_store o) (r_now st) (set_nth i c' (r_cls st))
                         (match o_result o with
                          | Some r => event i (rc_cur c) (r_now st) r :: r_events st
                          | None => r_events st
                          end))
          end
      end
  end.

Definition parked (c : rc) : bool := is_request (c_pc (rc_cl c)).

(** the scheduler releases the parked request of client i (a choice naming a
    client that is not parked is skipped) *)
Definition pick (fuel : nat) (i : nat) (st : rst) : rst :=
  match nth_error (r_cls st) i with
  | None => st
  | Some c =>
      if parked c then
        let o := cstep tag_of lease_eqb (r_now st) (r_store st) (rc_cl c) in
        let c' := mkRc (o_client o) (rc_prog c) (rc_cur c) in
        advance fuel i
          (mkRst (o_store o) (r_now st) (set_nth i c' (r_cls st))
                 (match o_result o with
                  | Some r => event i (rc_cur c) (r_now st) r :: r_events st
                  | None => r_events st
                  end))
      else st
  end.

Fixpoint first_parked (i : nat) (l : list rc) : option nat :=
  match l with
  | [] => None
  | c :: tl => if parked c then Some i else first_parked (S i) tl
  end.

(** after the schedule is used up: lowest-index parked client first *)
Fixpoint drain (fuel afuel : nat) (st : rst) : rst :=
  match fuel with
  | O => st
  | S fuel' =>
      match first_parked 0 (r_cls st) with
      | None => st
      | Some i => drain fuel' afuel (pick afuel i st)
      end
  end.

Fixpoint start_all (afuel : nat) (n : nat) (i : nat) (st : rst) : rst :=
  match n with
  | O => st
  | S n' => start_all afuel n' (S i) (advance afuel i st)
  end.

Definition mk_client (x : sx) : rc :=
  let own := asN (nthx 0 x) in
  let ttl := asZ (nthx 1 x) in
  mkRc (mkClient own ttl PIdle None) (map (fun z => op_of_code (asZ z)) (asL (nthx 2 x))) 0.

(** one element of a schedule: a number i = "execute the parked request of client i";
    a one-element list (d) = "the clock advances by d ns" (d < 0 is ignored: the clock is monotone) *)
Definition sched_step (afuel : nat) (st : rst) (x : sx) : rst :=
  match x with
  | SA z => pick afuel (Z.to_nat z) st
  | SL l =>
      let d := asZ (nth 0 l (SA 0)) in
      if Z.leb 0 d then mkRst (r_store st) (r_now st + d) (r_cls st) (r_events st) else st
  end.

(** input  [ clients ; schedule ]
      clients  = list of [owner(>=1); TTL in ns (any sign); program (0 acquire,1 renew,2 release)]
      schedule = list of: client index (whose parked request is executed next) | (d) clock tick of d ns
    output [ events ; store ]
      events = calls in order of completion: [client; op; result; time of completion]
        result: (0 gen owner expiresAt) acquire/renew ok | (0) release ok | (1 owner expiresAt) lease exists
                (1 0 0) lease exists (empty) | (2) lease required | (3) etag required | (4) not held
                (5) already released | (6) other error
      store  = () | (gen owner expiresAt)
    all times in ns since the start of the run *)
Definition lease_run (x : sx) : sx :=
  let cls := map mk_client (asL (nthx 0 x)) in
  let ops := fold_right (fun c n => (length (rc_prog c) + n)%nat) O cls in
  let afuel := (4 * ops + 4)%nat in
  let st0 := start_all afuel (length cls) 0 (mkRst None 0 cls []) in
  let st1 := fold_left (sched_step afuel) (asL (nthx 1 x)) st0 in
  let st2 := drain (3 * ops + 3) afuel st1 in
  SL [SL (rev (r_events st2)); sx_store (r_store st2)].

(** ** The property as a test on an observed trace (spec-level oracle)

    The oracle never looks at the model: it replays the implementation's own
    call results, in completion order, and keeps for every client the lease it
    holds (result of its last successful acquire/renew, dropped by a successful
    release), whether that lease was taken over, and the last record written.

    lease_mutex_ok   1 = ok
                     2 = a client acquired/renewed at an instant t at which another client holds a
                         lease that is not expired at t (ExpiresAt >= t, i.e. not [t.After(ExpiresAt)])
                     3 = a client whose lease was taken over renewed or released successfully
                     4 = an acquire over an existing record did not increase the generation
    lease_gen_strict_ok
                     1 = generation strictly increases from one owner to the next
                     5 = it fails, and only in the shape: holder released (no object left),
                         next acquirer with another owner starts again at generation 1   (F6)
                     0 = it fails in some other shape *)
Record oc := mkOc { oc_id : Z; oc_held : option (Z * Z) (* generation, ExpiresAt *); oc_revoked : bool }.

Record ost := mkOst {
  os_cls : list oc;
  os_cur : option (Z * Z);       (* record believed to be in the store: (client, generation) *)
  os_last : option (Z * Z);      (* last successful acquire: (owner, generation) *)
  os_bad : Z;                    (* first violation of mutex/revocation/takeover-generation, 0 = none *)
  os_f6 : bool;                  (* saw the F6 shape *)
  os_strict_other : bool         (* saw another failure of strict increase *)
}.

Fixpoint oc_get (c : Z) (l : list oc) : oc :=
  match l with
  | [] => mkOc c None false
  | x :: tl => if Z.eqb (oc_id x) c then x else oc_get c tl
  end.

Fixpoint oc_set (v : oc) (l : list oc) : list oc :=
  match l with
  | [] => [v]
  | x :: tl => if Z.eqb (oc_id x) (oc_id v) then v :: tl else x :: oc_set v tl
  end.

(** another client holds a lease that is unexpired at instant t (leaser.go: expired iff t.After(ExpiresAt)) *)
Definition other_live (c : Z) (t : Z) (l : list oc) : bool :=
  existsb (fun x => negb (Z.eqb (oc_id x) c) &&
                    match oc_held x with Some (_, e) => negb (Z.ltb e t) | None => false end) l.

(** every other client that holds something is now taken over *)
Definition revoke_others (c : Z) (l : list oc) : list oc :=
  map (fun x => if Z.eqb (oc_id x) c then x
                else match oc_held x with
                     | Some _ => mkOc (oc_id x) (oc_held x) true
                     | None => x
                     end) l.

Definition flag (s : ost) (code : Z) : ost :=
  mkOst (os_cls s) (os_cur s) (os_last s) (if Z.eqb (os_bad s) 0 then code else os_bad s) (os_f6 s) (os_strict_other s).

Definition ostep (s : ost) (ev : sx) : ost :=
  let c := asZ (nthx 0 ev) in
  let opc := asZ (nthx 1 ev) in
  let r := nthx 2 ev in
  let t := asZ (nthx 3 ev) in
  let ok := Z.eqb (asZ (nthx 0 r)) 0 in
  if negb ok then s else
  let me := oc_get c (os_cls s) in
  if Z.eqb opc 2 then
    (* release succeeded *)
    let s1 := if oc_revoked me then flag s 3 else s in
    mkOst (oc_set (mkOc c None false) (os_cls s1)) None (os_last s1) (os_bad s1) (os_f6 s1) (os_strict_other s1)
  else
    let g := asZ (nthx 1 r) in
    let owner := asZ (nthx 2 r) in
    let lv := asZ (nthx 3 r) in
    let s1 := if other_live c t (os_cls s) then flag s 2 else s in
    if Z.eqb opc 1 then
      (* renew succeeded *)
      let s2 := if oc_revoked me then flag s1 3 else s1 in
      mkOst (revoke_others c (oc_set (mkOc c (Some (g, lv)) false) (os_cls s2)))
            (Some (c, g)) (os_last s2) (os_bad s2) (os_f6 s2) (os_strict_other s2)
    else
      (* acquire succeeded *)
      let s2 := match os_cur s1 with
                | Some (_, g0) => if Z.ltb g0 g then s1 else flag s1 4
                | None => s1
                end in
      let strict_fail := match os_last s2 with
                         | Some (o0, g0) => negb (Z.eqb o0 owner) && negb (Z.ltb g0 g)
                         | None => false
                         end in
      let f6 := strict_fail && match os_cur s2 with None => Z.eqb g 1 | Some _ => false end in
      mkOst (revoke_others c (oc_set (mkOc c (Some (g, lv)) false) (os_cls s2)))
            (Some (c, g)) (Some (owner, g)) (os_bad s2)
            (os_f6 s2 || f6) (os_strict_other s2 || (strict_fail && negb f6)).

Definition orun (x : sx) : ost :=
  fold_left ostep (asL (nthx 0 x)) (mkOst [] None None 0 false false).

(** input [ events ]  (as produced by the implementation, same format as [lease_run]'s output) *)
Definition lease_mutex_ok (x : sx) : sx :=
  let s := orun x in
  SA (if Z.eqb (os_bad s) 0 then 1 else os_bad s).

Definition lease_gen_strict_ok (x : sx) : sx :=
  let s := orun x in
  SA (if os_strict_other s then 0 else if os_f6 s then 5 else 1).
