(** C20 — the object store seen by the leaser: ONE key (lock.json) holding an
    optional content, with S3's conditional requests.  Each request is atomic.

    - [get]                      GetObject            -> 200 (content, ETag) | 404 NoSuchKey
    - [put_if NoneMatch v]       PutObject If-None-Match:*   -> 200 ETag | 412
    - [put_if (Match t) v]       PutObject If-Match:t        -> 200 ETag | 412 | 404 (no object)
    - [delete_if_match t]        DeleteObject If-Match:t     -> 204 | 412 | 404 (no object)

    The ETag of an object is [f content]; S3 ETags of small single-part objects
    are the MD5 of the body, the harness' in-memory store uses the same.  What
    the proofs need of [f] is injectivity (stated as a Section hypothesis, so it
    is an explicit premise of every closed theorem). *)
From Coq Require Import Bool.

Section Store.
  Variable C : Type.                 (* object content *)
  Variable T : Type.                 (* ETag *)
  Variable f : C -> T.               (* ETag of a content *)
  Variable teqb : T -> T -> bool.    (* string comparison of ETags *)

  Definition store := option C.

  Inductive cond := NoneMatch | Match (t : T).

  Inductive get_resp := GetOk (c : C) (t : T) | Get404.
  Inductive put_resp := PutOk (t : T) | Put412 | Put404.
  Inductive del_resp := DelOk | Del412 | Del404.

  Definition get (s : store) : get_resp :=
    match s with
    | Some c => GetOk c (f c)
    | None => Get404
    end.

  Definition put_if (s : store) (cnd : cond) (v : C) : store * put_resp :=
    match cnd with
    | NoneMatch =>
        match s with
        | None => (Some v, PutOk (f v))
        | Some _ => (s, Put412)
        end
    | Match t =>
        match s with
        | None => (s, Put404)
        | Some c => if teqb t (f c) then (Some v, PutOk (f v)) else (s, Put412)
        end
    end.

  Definition delete_if_match (s : store) (t : T) : store * del_resp :=
    match s with
    | None => (s, Del404)
    | Some c => if teqb t (f c) then (None, DelOk) else (s, Del412)
    end.

  (** ** Characterisation of the successful conditional writes *)
  Hypothesis f_inj : forall a b, f a = f b -> a = b.
  Hypothesis teqb_spec : forall a b, teqb a b = true <-> a = b.

  Lemma put_if_ok : forall s cnd v s' t,
    put_if s cnd v = (s', PutOk t) ->
    s' = Some v /\ t = f v /\
    match cnd with
    | NoneMatch => s = None
    | Match t0 => exists c, s = Some c /\ t0 = f c
    end.
  Proof.
    intros s cnd v s' t H. unfold put_if in H.
    destruct cnd as [|t0]; destruct s as [c|]; try discriminate.
    - inversion H; auto.
    - destruct (teqb t0 (f c)) eqn:E; inversion H; subst.
      repeat split; auto. exists c. split; auto. apply teqb_spec; exact E.
  Qed.

  Lemma put_if_fail : forall s cnd v s' r,
    put_if s cnd v = (s', r) -> (forall t, r <> PutOk t) -> s' = s.
  Proof.
    intros s cnd v s' r H Hr. unfold put_if in H.
    destruct cnd as [|t0]; destruct s as [c|]; try (inversion H; reflexivity).
    - inversion H; subst. exfalso. eapply Hr; reflexivity.
    - destruct (teqb t0 (f c)); inversion H; subst; auto. exfalso; eapply Hr; reflexivity.
  Qed.

  Lemma delete_ok : forall s t s',
    delete_if_match s t = (s', DelOk) -> s' = None /\ exists c, s = Some c /\ t = f c.
  Proof.
    intros s t s' H. unfold delete_if_match in H. destruct s as [c|]; try discriminate.
    destruct (teqb t (f c)) eqn:E; inversion H; subst. split; auto.
    exists c; split; auto. apply teqb_spec; exact E.
  Qed.

  Lemma delete_fail : forall s t s' r,
    delete_if_match s t = (s', r) -> r <> DelOk -> s' = s.
  Proof.
    intros s t s' r H Hr. unfold delete_if_match in H. destruct s as [c|]; try (inversion H; reflexivity).
    destruct (teqb t (f c)); inversion H; subst; auto. congruence.
  Qed.

  (** a request made with the tag of a content other than the current one is refused *)
  Lemma put_match_other_412 : forall c c0 v, c0 <> c -> put_if (Some c) (Match (f c0)) v = (Some c, Put412).
  Proof.
    intros. simpl. destruct (teqb (f c0) (f c)) eqn:E; auto.
    apply teqb_spec in E. apply f_inj in E. contradiction.
  Qed.

  Lemma delete_other_412 : forall c c0, c0 <> c -> delete_if_match (Some c) (f c0) = (Some c, Del412).
  Proof.
    intros. simpl. destruct (teqb (f c0) (f c)) eqn:E; auto.
    apply teqb_spec in E. apply f_inj in E. contradiction.
  Qed.
End Store.

Arguments NoneMatch {T}.
Arguments Match {T} t.
Arguments GetOk {C T} c t.
Arguments Get404 {C T}.
Arguments PutOk {T} t.
Arguments Put412 {T}.
Arguments Put404 {T}.
Arguments get {C T} f s.
Arguments put_if {C T} f teqb s cnd v.
Arguments delete_if_match {C T} f teqb s t.
