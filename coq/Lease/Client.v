(** C20 — model of s3/leaser.go (AcquireLease, RenewLease, ReleaseLease) and of
    leaser.go (Lease, IsExpired), branch for branch, cut into micro-steps: one
    micro-step per storage request and one per read of the clock
    ([time.Now()]), so that a scheduler can interleave other clients and clock
    ticks between any two of them.

    Go source                                    model
    ------------------------------------------   ----------------------------------
    Lease{Generation,ExpiresAt,Owner} (JSON)     [lease]  (the object content)
    Lease.ETag (json:"-"), "" = none             [h_etag : option T]
    l.readLease                                  [get]  (404 -> nil, "", ErrNotExist)
    l.writeLease(lease, etag)                    [put_if] with NoneMatch if etag = "" else Match
    isPreconditionFailed                         [Put412] / [Del412]
    isNotExists || isNotFoundError               [Del404] / [Get404]
    any other storage error                      [Put404] on PutObject (-> "put lock file: ...")

    Generation is an int64 in Go; the model uses Z (an overflow would need 2^63
    takeovers).  ExpiresAt / time.Now() are points of one global clock in Z. *)
From Coq Require Import ZArith NArith Bool.
From LS Require Import Lease.Store.
Open Scope Z_scope.

Record lease := mkLease { l_gen : Z; l_exp : Z; l_owner : N }.

(** leaser.go:  func (l *Lease) IsExpired() bool { return time.Now().After(l.ExpiresAt) } *)
Definition is_expired (now : Z) (l : lease) : bool := Z.ltb (l_exp l) now.

Inductive op := OpAcquire | OpRenew | OpRelease.

Section Client.
  Variable T : Type.
  Variable f : lease -> T.
  Variable teqb : T -> T -> bool.

  (** the *Lease value a caller keeps: content + ETag *)
  Record hlease := mkH { h_rec : lease; h_etag : option T }.

  Inductive result :=
  | ROk (h : hlease)                  (* (lease, nil) of Acquire / Renew *)
  | RReleased                         (* nil of Release *)
  | RExists (owner : N) (exp : Z)     (* &LeaseExistsError{Owner, ExpiresAt} *)
  | RExistsEmpty                      (* &LeaseExistsError{} passed through from writeLease *)
  | RRequired                         (* ErrLeaseRequired *)
  | RETagRequired                     (* ErrLeaseETagRequired *)
  | RNotHeld                          (* litestream.ErrLeaseNotHeld *)
  | RAlreadyReleased                  (* ErrLeaseAlreadyReleased *)
  | ROther.                           (* fmt.Errorf("put lock file: %w", err) etc. *)

  (** where a client is inside a call *)
  Inductive pc :=
  | PIdle
  | PAcqGet                                 (* about to: readLease (GetObject) *)
  | PAcqChk (e : lease) (t : T)             (* existing != nil; about to: existing.IsExpired() (clock) *)
  | PAcqMk (g : Z) (et : option T)          (* generation chosen; about to: time.Now().Add(l.TTL) (clock) *)
  | PAcqPut (l : lease) (et : option T)     (* about to: writeLease (PutObject) *)
  | PAcqReget                               (* 412; about to: readLease (GetObject) *)
  | PRenMk (h : hlease) (t : T)             (* about to: time.Now().Add(l.TTL) (clock) *)
  | PRenPut (l : lease) (t : T)             (* about to: writeLease (PutObject If-Match) *)
  | PRelDel (t : T).                        (* about to: DeleteObject If-Match *)

  (** A client = one Leaser (Owner, TTL) plus its caller, which keeps the lease
      returned by its last successful acquire/renew ([c_held]) and drops it after
      a successful release; renew and release are called with that lease. *)
  Record client := mkClient { c_owner : N; c_ttl : Z; c_pc : pc; c_held : option hlease }.

  Definition set_pc (c : client) (p : pc) : client := mkClient (c_owner c) (c_ttl c) p (c_held c).
  Definition set_held (c : client) (h : option hlease) : client := mkClient (c_owner c) (c_ttl c) PIdle h.

  (** Entering a call: the tests made before the first clock read / request. *)
  Definition ccall (o : op) (c : client) : client * option result :=
    match o with
    | OpAcquire => (set_pc c PAcqGet, None)
    | OpRenew =>
        match c_held c with
        | None => (c, Some RRequired)                       (* lease == nil *)
        | Some h =>
            match h_etag h with
            | None => (c, Some RETagRequired)               (* lease.ETag == "" *)
            | Some t => (set_pc c (PRenMk h t), None)
            end
        end
    | OpRelease =>
        match c_held c with
        | None => (c, Some RRequired)
        | Some h =>
            match h_etag h with
            | None => (c, Some RETagRequired)
            | Some t => (set_pc c (PRelDel t), None)
            end
        end
    end.

  (** what a micro-step publishes besides the call's result: a successful
      acquire is logged as (owner, generation) — ghost, for the generation theorems *)
  Record outcome := mkOut {
    o_store : store lease;
    o_client : client;
    o_result : option result;
    o_acquired : option (N * Z) }.

  (** One micro-step of a client that is inside a call. [now] is the clock value
      read by the step (used only by the three clock-reading steps). *)
  Definition cstep (now : Z) (s : store lease) (c : client) : outcome :=
    match c_pc c with
    | PIdle => mkOut s c None None
    | PAcqGet =>
        (* existing, etag, err := l.readLease(ctx) ; ErrNotExist is not an error here *)
        match get f s with
        | Get404 =>
            (* existing == nil: the IsExpired test is short-circuited, generation = 1, etag = "" *)
            mkOut s (set_pc c (PAcqMk 1 None)) None None
        | GetOk e t => mkOut s (set_pc c (PAcqChk e t)) None None
        end
    | PAcqChk e t =>
        (* if existing != nil && !existing.IsExpired() { return LeaseExistsError{Owner, ExpiresAt} } *)
        if negb (is_expired now e)
        then mkOut s (set_pc c PIdle) (Some (RExists (l_owner e) (l_exp e))) None
        else (* generation = existing.Generation + 1 *)
          mkOut s (set_pc c (PAcqMk (l_gen e + 1) (Some t))) None None
    | PAcqMk g et =>
        (* newLease := &Lease{Generation: generation, ExpiresAt: time.Now().Add(l.TTL), Owner: l.Owner} *)
        mkOut s (set_pc c (PAcqPut (mkLease g (now + c_ttl c) (c_owner c)) et)) None None
    | PAcqPut l et =>
        (* writeLease: etag == "" -> If-None-Match:*  else If-Match:etag *)
        let cnd := match et with None => NoneMatch | Some t => Match t end in
        match put_if f teqb s cnd l with
        | (s', PutOk t') =>
            let h := mkH l (Some t') in
            mkOut s' (set_held c (Some h)) (Some (ROk h)) (Some (l_owner l, l_gen l))
        | (s', Put412) => mkOut s' (set_pc c PAcqReget) None None
        | (s', Put404) => mkOut s' (set_pc c PIdle) (Some ROther) None
        end
    | PAcqReget =>
        (* if current, _, readErr := l.readLease(ctx); readErr == nil && current != nil {...}; return nil, err *)
        match get f s with
        | GetOk e _ => mkOut s (set_pc c PIdle) (Some (RExists (l_owner e) (l_exp e))) None
        | Get404 => mkOut s (set_pc c PIdle) (Some RExistsEmpty) None
        end
    | PRenMk h t =>
        (* newLease := &Lease{Generation: lease.Generation, ExpiresAt: time.Now().Add(l.TTL), Owner: l.Owner} *)
        mkOut s (set_pc c (PRenPut (mkLease (l_gen (h_rec h)) (now + c_ttl c) (c_owner c)) t)) None None
    | PRenPut l t =>
        match put_if f teqb s (Match t) l with
        | (s', PutOk t') =>
            let h := mkH l (Some t') in
            mkOut s' (set_held c (Some h)) (Some (ROk h)) None
        | (s', Put412) => mkOut s' (set_pc c PIdle) (Some RNotHeld) None
        | (s', Put404) => mkOut s' (set_pc c PIdle) (Some ROther) None
        end
    | PRelDel t =>
        (* isNotExists || isNotFoundError is tested before isPreconditionFailed *)
        match delete_if_match f teqb s t with
        | (s', DelOk) => mkOut s' (set_held c None) (Some RReleased) None
        | (s', Del404) => mkOut s' (set_pc c PIdle) (Some RAlreadyReleased) None
        | (s', Del412) => mkOut s' (set_pc c PIdle) (Some RNotHeld) None
        end
    end.

  (** the steps that talk to the store (the ones the harness' scheduler parks) *)
  Definition is_request (p : pc) : bool :=
    match p with
    | PAcqGet | PAcqPut _ _ | PAcqReget | PRenPut _ _ | PRelDel _ => true
    | _ => false
    end.
End Client.

Arguments mkH {T} h_rec h_etag.
Arguments h_rec {T} h.
Arguments h_etag {T} h.
Arguments ROk {T} h.
Arguments RReleased {T}.
Arguments RExists {T} owner exp.
Arguments RExistsEmpty {T}.
Arguments RRequired {T}.
Arguments RETagRequired {T}.
Arguments RNotHeld {T}.
Arguments RAlreadyReleased {T}.
Arguments ROther {T}.
Arguments PIdle {T}.
Arguments PAcqGet {T}.
Arguments PAcqChk {T} e t.
Arguments PAcqMk {T} g et.
Arguments PAcqPut {T} l et.
Arguments PAcqReget {T}.
Arguments PRenMk {T} h t.
Arguments PRenPut {T} l t.
Arguments PRelDel {T} t.
Arguments mkClient {T} c_owner c_ttl c_pc c_held.
Arguments c_owner {T} c.
Arguments c_ttl {T} c.
Arguments c_pc {T} c.
Arguments c_held {T} c.
Arguments set_pc {T} c p.
Arguments set_held {T} c h.
Arguments ccall {T} o c.
Arguments mkOut {T} o_store o_client o_result o_acquired.
Arguments o_store {T} o.
Arguments o_client {T} o.
Arguments o_result {T} o.
Arguments o_acquired {T} o.
Arguments cstep {T} f teqb now s c.
Arguments is_request {T} p.
