(** [sx -> sx] entry points of the Policy layer (C13) for the correspondence runner. *)
From Coq Require Import List ZArith NArith Bool.
From LS Require Import Base.Sx Policy.Policy.
Import ListNotations.
Open Scope Z_scope.

Definition cfg_of (ps mn tr ci maxb : sx) : cfg := mkCfg (asZ ps) (asZ mn) (asZ tr) (asB ci) (asZ maxb).

(** ** scalar functions (function equality through the hook wrappers)
    input  [pageSize; TruncatePageN; walSize; pageN]
    output [exceedsTruncateThreshold(walSize); effectiveTruncatePageN; calcWALSize(uint32(pageSize), uint32(pageN))] *)
Definition policy_scalars (x : sx) : sx :=
  let c := cfg_of (nthx 0 x) (SA 0) (nthx 1 x) (SA 0) (SA 0) in
  SL [sxB (exceedsTruncateThreshold c (asZ (nthx 2 x)));
      SA (effectiveTruncatePageN c);
      SA (calcWALSize (u32 (c_ps c)) (u32 (asZ (nthx 3 x))))].

(** ** checkpointIfNeeded
    input  [pageSize; MinCheckpointPageN; TruncatePageN; CheckpointInterval>0; elapsed;
            origWALSize; newWALSize; lastSyncedWALOffset; truncatePassiveFailed; syncedSinceCheckpoint;
            outcomes]
           outcomes = [[kind; lastSyncedWALOffset after the call] ...] consumed by the successive
           checkpointWithExecutor calls; kind 0 skipped | 1 busy | 2 other error | 3 not restarted | 4 restarted
    output [PASSIVE checkpoints executed; TRUNCATE checkpoints executed; truncatePassiveFailed;
            syncedSinceCheckpoint; error returned]
    "executed" = reached execCheckpoint (the checkpoint counter of that mode moved): a PASSIVE
    attempt that is skipped or fails BUSY on its barrier transaction does not, a TRUNCATE attempt
    whose seq bump fails BUSY does. *)
Definition outcome_of (k : Z) : outcome :=
  if k =? 0 then OSkipped else if k =? 1 then OBusy else if k =? 2 then OErr
  else if k =? 3 then ONotRestarted else ORestarted.

Definition dst := (Z * list (Z * Z))%type.
Definition dck (_ : mode) (s : dst) : outcome * dst :=
  match snd s with
  | [] => (OSkipped, s)
  | (k, o) :: tl => (outcome_of k, (o, tl))
  end.

Definition executed (a : mode * outcome) : bool :=
  match a with
  | (Passive, (ONotRestarted | ORestarted)) => true
  | (Truncate, (OBusy | ONotRestarted | ORestarted | OErr)) => true
  | _ => false
  end.
Definition is_passive (a : mode * outcome) : bool := match fst a with Passive => true | Truncate => false end.
Definition count_exec (p : bool) (l : list (mode * outcome)) : Z :=
  Z.of_nat (length (filter (fun a => executed a && Bool.eqb (is_passive a) p) l)).

Definition policy_decide (x : sx) : sx :=
  let c := cfg_of (nthx 0 x) (nthx 1 x) (nthx 2 x) (nthx 3 x) (SA 0) in
  let outs := map (fun o => (asZ (nthx 0 o), asZ (nthx 1 o))) (asL (nthx 10 x)) in
  let d := checkpointIfNeeded dck fst c (asB (nthx 4 x)) (asZ (nthx 5 x)) (asZ (nthx 6 x))
                              (mkFlags (asB (nthx 8 x)) (asB (nthx 9 x))) (asZ (nthx 7 x), outs) in
  SL [SA (count_exec true (d_attempts d)); SA (count_exec false (d_attempts d));
      sxB (f_tpf (d_flags d)); sxB (f_ssc (d_flags d)); sxB (d_err d)].

(** ** one whole Sync on the abstract machine (nothing busy; with or without a pinned reader)
    input  [pageSize; Min; Trunc; ci>0; MaxSyncWALBytes; b;
            [synced frames; pending transactions (frames each); frame slots in the file;
             tpf; ssc; lastSyncedWALOffset; syncedToWALEnd; first]; elapsed; history tag (ignored);
            an application read transaction is pinned open (0/1)]
    output [ok; frames in the live generation; L0 files created; tpf; ssc; lastSyncedWALOffset;
            syncedToWALEnd; PASSIVE executed; TRUNCATE executed] *)
Definition policy_sync (x : sx) : sx :=
  let c := cfg_of (nthx 0 x) (nthx 1 x) (nthx 2 x) (nthx 3 x) (nthx 4 x) in
  let b := asZ (nthx 5 x) in
  let st := nthx 6 x in
  let s := mkAst (asZ (nthx 0 st)) (asZs (nthx 1 st)) (asZ (nthx 2 st))
                 (mkFlags (asB (nthx 3 st)) (asB (nthx 4 st))) (asZ (nthx 5 st)) (asB (nthx 6 st)) (asB (nthx 7 st)) in
  let el := asB (nthx 7 x) in
  match (if asB (nthx 9 x) then sync_pinned else sync) c b (fun _ => el) s with
  | None => SL [SA 0]
  | Some (s', nf, att) =>
      SL [SA 1; SA (live_frames s'); SA nf; sxB (f_tpf (a_fl s')); sxB (f_ssc (a_fl s'));
          SA (a_off s'); sxB (a_toend s'); SA (count_exec true att); SA (count_exec false att)]
  end.

(** ** spec oracles (the statements of Proofs.v as decidable tests on observations) *)

(** wal_bounded on an observation: the live generation, as counted by an
    independent WAL decoder after a successful Sync with no application
    transaction open, holds fewer than low_threshold + b frames.
    input  [Min; Trunc; b; frames observed]
    output 1 holds | 2 violated, but frames < MinCheckpointPageN + b and TruncatePageN < MinCheckpointPageN
             (the truncate test looks at the offset BEFORE the sync: Proofs.wal_bounded_refuted_trunc_below_min)
           | 0 violated otherwise *)
Definition policy_bounded_ok (x : sx) : sx :=
  let c := cfg_of (SA 4096) (nthx 0 x) (nthx 1 x) (SA 0) (SA 0) in
  let b := asZ (nthx 2 x) in
  let fr := asZ (nthx 3 x) in
  SA (if fr <? low_threshold c + b then 1
      else if trunc_enabled c && (utrunc c <? umin c) && (fr <? umin c + b) then 2
      else 0).

(** idle_silent on an observation: L0 file counts before the first and after each
    of k idle Syncs (application idle, no transaction open, database mtime
    rule constant over the phase).
    input  [Min; Trunc; b; MaxSyncWALBytes; pending application transactions at the start; counts;
            history tag (ignored); reader pinned during the phase (0/1);
            phase follows a transaction that spilled uncommitted frames into the WAL (0/1, ignored: label only)]
    output 1 holds: total new files <= cost + 1 (cost = pending transactions, or 1 for all of
             them when MaxSyncWALBytes <= 0) and no file after the first idle Sync that created none
           | 4 violated while an application read transaction was pinned open (no checkpoint can
             restart the WAL, every attempt appends the seq-bump frame: Proofs.idle_pinned_refuted)
           | 3 violated and some threshold is <= b (Proofs.idle_silent_refuted_threshold_le_b)
           | 0 violated otherwise *)
Fixpoint steady (l : list Z) : bool :=
  match l with
  | x :: ((y :: _) as tl) => if x =? y then forallb (Z.eqb x) tl else (x <? y) && steady tl
  | _ => true
  end.

Definition idle_cost (maxb : Z) (pend : Z) : Z := if maxb <=? 0 then Z.min pend 1 else pend.
Definition idle_K : Z := 1.

Definition policy_idle_ok (x : sx) : sx :=
  let c := cfg_of (SA 4096) (nthx 0 x) (nthx 1 x) (SA 0) (nthx 3 x) in
  let b := asZ (nthx 2 x) in
  let pend := asZ (nthx 4 x) in
  let counts := asZs (nthx 5 x) in
  let total := last counts 0 - hd 0 counts in
  SA (if (total <=? idle_cost (c_maxb c) pend + idle_K) && steady counts then 1
      else if asB (nthx 7 x) then 4
      else if low_threshold c <=? b then 3
      else 0).
