(** C13 — proofs about the checkpoint policy model (Policy.v).

    ASSUMED behaviour of SQLite and of the environment (Section hypotheses, all
    validated by the harness on every run):
    - [Hps]  0 < pageSize <= 65536 (SQLite's range), so no uint32/int64 cast wraps;
    - [Hb]   the seq bump commits b >= 1 frames (observed: exactly 1);
    - with no application transaction open and nothing busy, a PASSIVE or
      TRUNCATE checkpoint backfills the whole WAL and the next write (the seq bump)
      starts a new generation: this is [ck_free] of Policy.v;
    - with an application read transaction pinned, no checkpoint restarts the
      WAL and the seq bump is appended: [ck_pinned];
    - "time since mtime > CheckpointInterval" is an arbitrary input per iteration. *)
From Coq Require Import List ZArith Bool Lia.
From LS Require Import Policy.Policy.
Import ListNotations.
Open Scope Z_scope.

Ltac splits := repeat match goal with |- _ /\ _ => split end.

Section Proofs.
  Variable c : cfg.
  Variable b : Z.
  Hypothesis Hps : 0 < c_ps c <= 65536.
  Hypothesis Hb : 1 <= b.

  Notation fs := (fsz c).
  Notation wsz := (walsz c).

  Lemma u32_small z : 0 <= z < 4294967296 -> u32 z = z.
  Proof. intros; unfold u32; apply Z.mod_small; lia. Qed.

  Lemma u32_range z : 0 <= u32 z < 4294967296.
  Proof. unfold u32; apply Z.mod_pos_bound; lia. Qed.

  Lemma i64_small z : -9223372036854775808 <= z < 9223372036854775808 -> i64 z = z.
  Proof. intros; unfold i64; rewrite Z.mod_small; lia. Qed.

  Lemma fs_eq : fs = 24 + c_ps c.
  Proof.
    unfold fsz, frameSizeU32, WALFrameHeaderSize.
    rewrite (u32_small (c_ps c)) by lia. apply u32_small; lia.
  Qed.

  Lemma fs_pos : 0 < fs.
  Proof. rewrite fs_eq; lia. Qed.

  (** no cast wraps for SQLite page sizes *)
  Lemma calc_eq x : calcWALSize (u32 (c_ps c)) (u32 x) = 32 + fs * u32 x.
  Proof.
    unfold calcWALSize, WALHeaderSize. fold (fsz c).
    pose proof (u32_range x) as Hu. pose proof fs_eq as HF.
    remember (fsz c) as F eqn:EF. clear EF. remember (u32 x) as U eqn:EU. clear EU.
    assert (0 <= F * U) by (apply Z.mul_nonneg_nonneg; lia).
    assert (F * U <= 65560 * U) by (apply Z.mul_le_mono_nonneg_r; lia).
    rewrite (i64_small (F * U)) by lia. apply i64_small; lia.
  Qed.

  Lemma calc1_eq : calcWALSize (u32 (c_ps c)) 1 = 32 + fs.
  Proof. change 1 with (u32 1) at 1. rewrite calc_eq. replace (u32 1) with 1 by reflexivity. apply f_equal, Z.mul_1_r. Qed.

  Lemma wsz_eq n : wsz n = 32 + fs * n.
  Proof. reflexivity. Qed.

  Lemma calc_le_wsz x n : (calcWALSize (u32 (c_ps c)) (u32 x) <=? wsz n) = (u32 x <=? n).
  Proof.
    rewrite calc_eq, wsz_eq. pose proof fs_pos. remember (fsz c) as F eqn:EF; clear EF.
    destruct (u32 x <=? n) eqn:E; [apply Z.leb_le in E; apply Z.leb_le; nia|].
    apply Z.leb_gt in E; apply Z.leb_gt; nia.
  Qed.

  Lemma calc_le_0 x : (calcWALSize (u32 (c_ps c)) (u32 x) <=? 0) = false.
  Proof.
    rewrite calc_eq. pose proof (u32_range x). pose proof fs_pos. remember (fsz c) as F eqn:EF; clear EF.
    apply Z.leb_gt; nia.
  Qed.

  Lemma ps_nz : (c_ps c =? 0) = false.
  Proof. apply Z.eqb_neq; lia. Qed.

  Lemma exceeds_wsz n : exceedsTruncateThreshold c (wsz n) = trunc_enabled c && (utrunc c <=? n).
  Proof.
    unfold exceedsTruncateThreshold, trunc_enabled, utrunc. rewrite ps_nz, calc_le_wsz. simpl.
    rewrite andb_true_r. reflexivity.
  Qed.

  Lemma exceeds_0 : exceedsTruncateThreshold c 0 = false.
  Proof. unfold exceedsTruncateThreshold. rewrite calc_le_0. apply andb_false_r. Qed.

  (** ** well-formed machine states *)
  Definition ge1 (k : Z) : Prop := 1 <= k.
  Definition wf (s : ast) : Prop :=
    0 <= a_synced s /\ Forall ge1 (a_pend s) /\
    a_synced s + sumz (a_pend s) <= a_file s /\
    (a_off s = 0 \/ a_off s = wsz (a_synced s)).

  Lemma sumz_ge1 l : Forall ge1 l -> l <> [] -> 1 <= sumz l.
  Proof.
    induction 1; [congruence|]. intros _. simpl. unfold ge1 in H.
    destruct l; [simpl; lia|]. assert (1 <= sumz (z :: l)) by (apply IHForall; congruence). lia.
  Qed.

  Lemma sumz_nonneg l : Forall ge1 l -> 0 <= sumz l.
  Proof. induction 1; simpl; unfold ge1 in *; lia. Qed.

  Lemma sumz_app l1 l2 : sumz (l1 ++ l2) = sumz l1 + sumz l2.
  Proof. induction l1; simpl; lia. Qed.

  (** files needed to copy the pending transactions: one per transaction when a
      byte budget is set, one for all of them otherwise *)
  Definition cost (pend : list Z) : Z :=
    if c_maxb c <=? 0 then (match pend with [] => 0 | _ => 1 end) else Z.of_nat (length pend).

  Lemma cost_nil : cost [] = 0.
  Proof. unfold cost; destruct (c_maxb c <=? 0); reflexivity. Qed.

  Lemma cost_nonneg l : 0 <= cost l.
  Proof. unfold cost; destruct (c_maxb c <=? 0); [destruct l|]; lia. Qed.

  Lemma cost_pos l : l <> [] -> 1 <= cost l.
  Proof. unfold cost; destruct (c_maxb c <=? 0); destruct l; simpl; try congruence; lia. Qed.

  Lemma cost_le_length l : cost l <= Z.of_nat (length l).
  Proof. unfold cost; destruct (c_maxb c <=? 0); [destruct l; simpl; lia|lia]. Qed.

  Lemma take_chunk_spec maxb : forall pend acc k rest lim,
    Forall ge1 pend -> take_chunk c maxb acc pend = (k, rest, lim) ->
    k + sumz rest = acc + sumz pend /\ Forall ge1 rest /\
    (pend <> [] -> (length rest < length pend)%nat /\ acc + 1 <= k) /\
    (lim = false -> rest = []) /\ (maxb <= 0 -> rest = []).
  Proof.
    induction pend as [|k0 tl IH]; simpl; intros acc k rest lim HF E.
    - inversion E; subst. splits; auto; try congruence.
    - inversion HF as [|? ? H1 H2]; subst. unfold ge1 in H1.
      destruct ((0 <? maxb) && (maxb <=? (acc + k0) * fsz c)) eqn:C.
      + inversion E; subst. splits; auto; try (simpl; lia); try congruence.
        all: intros Hm; apply andb_true_iff in C; destruct C as [C _]; apply Z.ltb_lt in C; lia.
      + destruct (IH _ _ _ _ H2 E) as (A & B & Cc & D & F).
        split; [simpl; lia|]. split; [exact B|]. split; [|split; assumption].
        intros _. destruct tl as [|k1 tl'].
        * simpl in E. inversion E; subst. simpl. lia.
        * destruct Cc as [C1 C2]; [congruence|]. simpl in *. lia.
  Qed.

  Lemma copy_chunk_spec maxb s s1 sy lim nf :
    wf s -> copy_chunk c maxb s = (s1, sy, lim, nf) ->
    (a_pend s = [] /\ s1 = s /\ sy = false /\ lim = false /\ nf = 0) \/
    (a_pend s <> [] /\ sy = true /\ nf = 1 /\ wf s1 /\ a_off s1 = wsz (a_synced s1) /\
     a_file s1 = a_file s /\ a_fl s1 = a_fl s /\ a_toend s1 = (a_synced s1 =? a_file s1) /\
     (length (a_pend s1) < length (a_pend s))%nat /\ (lim = false -> a_pend s1 = []) /\
     (maxb <= 0 -> a_pend s1 = []) /\
     ((maxb = c_maxb c \/ maxb <= 0) -> cost (a_pend s1) + 1 <= cost (a_pend s))).
  Proof.
    intros (W1 & W2 & W3 & W4) E. unfold copy_chunk in E.
    destruct (a_pend s) as [|k0 tl] eqn:EP.
    - left. inversion E; subst; auto.
    - right. rewrite <- EP in *.
      destruct (take_chunk c (if a_first s then 0 else maxb) 0 (a_pend s)) as [[k rest] l] eqn:ET.
      inversion E; subst; clear E. simpl.
      destruct (take_chunk_spec _ _ _ _ _ _ W2 ET) as (A & B & Cc & D & F).
      assert (NE : a_pend s <> []) by (rewrite EP; congruence).
      destruct (Cc NE) as [C1 C2]. pose proof (sumz_nonneg _ B).
      splits; auto; try lia.
      + unfold wf; simpl. splits; auto; lia.
      + intros Hm. apply F. destruct (a_first s); lia.
      + intros Hm. unfold cost. destruct (c_maxb c <=? 0) eqn:EM.
        * apply Z.leb_le in EM. rewrite F by (destruct (a_first s); lia).
          destruct (a_pend s); [congruence|lia].
        * lia.
  Qed.

  (** ** the checkpoint executor of the free environment *)
  Definition ck_post (m : mode) (s : ast) : ast := fst (snd (ck_free c b m s)).
  Definition ck_nf (m : mode) (s : ast) : Z := snd (snd (ck_free c b m s)).

  Lemma ck_free'_eq m s nf : ck_free' c b m (s, nf) = (ORestarted, (ck_post m s, nf + ck_nf m s)).
  Proof.
    unfold ck_free', lift_ck, ck_post, ck_nf, ck_free. simpl.
    destruct (copy_chunk c 0 s) as [[[s1 sy] lim] n1]. reflexivity.
  Qed.

  (** the state right after a checkpoint that restarted the WAL *)
  Definition ckd (s : ast) : Prop :=
    a_synced s = b /\ a_pend s = [] /\ a_off s = wsz b /\ a_toend s = (b =? a_file s) /\ a_first s = false.

  Lemma ck_post_spec m s : wf s ->
    ckd (ck_post m s) /\ wf (ck_post m s) /\ 1 <= ck_nf m s <= cost (a_pend s) + 1 /\
    (a_pend s = [] -> ck_nf m s = 1).
  Proof.
    intros W. unfold ck_post, ck_nf, ck_free.
    destruct (copy_chunk c 0 s) as [[[s1 sy] lim] n1] eqn:EC. simpl.
    destruct (copy_chunk_spec _ _ _ _ _ _ W EC) as [(P & -> & _ & _ & ->)|(P & _ & -> & W1 & _ & _ & _ & _ & _ & _ & _ & Cst)].
    - unfold ckd, wf; simpl. pose proof (cost_nonneg (a_pend s)).
      splits; auto; try lia; try (destruct m; lia).
    - unfold ckd, wf; simpl. pose proof (cost_nonneg (a_pend s1)).
      assert (cost (a_pend s1) + 1 <= cost (a_pend s)) by (apply Cst; right; lia).
      splits; auto; try lia; try (destruct m; lia); try congruence.
  Qed.

  Arguments exceedsTruncateThreshold : simpl never.
  Arguments calcWALSize : simpl never.
  Arguments u32 : simpl never.
  Arguments walsz : simpl never.
  Arguments ck_post : simpl never.
  Arguments ck_nf : simpl never.

  (** ** checkpointIfNeeded in the free environment *)
  Definition f0_of (f : flags) (off : Z) : flags :=
    if negb (exceedsTruncateThreshold c off) then set_tpf false f else f.
  Definition min_trig (new : Z) : bool := calcWALSize (u32 (c_ps c)) (u32 (c_min c)) <=? new.
  Definition time_trig (f : flags) (el : bool) (new : Z) : bool :=
    (c_ci c && f_ssc f) && (el && (calcWALSize (u32 (c_ps c)) 1 <? new)).

  Lemma f0_ssc f off : f_ssc (f0_of f off) = f_ssc f.
  Proof. unfold f0_of; destruct (negb _); reflexivity. Qed.

  Lemma cin_free el orig new f s nf : wf s ->
    let d := checkpointIfNeeded (ck_free' c b) (fun sf => a_off (fst sf)) c el orig new f (s, nf) in
    (d_attempts d = [] /\ d_st d = (s, nf) /\ d_flags d = f0_of f (a_off s) /\
     exceedsTruncateThreshold c orig = false /\ min_trig new = false /\ time_trig f el new = false)
    \/
    (d_attempts d <> [] /\ ckd (fst (d_st d)) /\ wf (fst (d_st d)) /\ d_flags d = mkFlags false false /\
     (exceedsTruncateThreshold c orig = true \/ min_trig new = true \/ time_trig f el new = true) /\
     exists k, snd (d_st d) = nf + k /\ 1 <= k <= cost (a_pend s) + 2 /\
               (exceedsTruncateThreshold c (wsz b) = false -> k <= cost (a_pend s) + 1)).
  Proof.
    intros W d. subst d. unfold checkpointIfNeeded. rewrite ps_nz. cbn [fst].
    change (if negb (exceedsTruncateThreshold c (a_off s)) then set_tpf false f else f) with (f0_of f (a_off s)).
    unfold time_trig, min_trig. rewrite <- (f0_ssc f (a_off s)).
    remember (f0_of f (a_off s)) as f0 eqn:Ef0. clear Ef0.
    destruct (ck_post_spec Passive s W) as (CK1 & WF1 & N1 & _).
    destruct (ck_post_spec Truncate s W) as (CK2 & WF2 & N2 & _).
    destruct (ck_post_spec Truncate (ck_post Passive s) WF1) as (CK3 & WF3 & _ & N3).
    assert (O1 : a_off (ck_post Passive s) = wsz b) by (destruct CK1 as (_ & _ & O & _); exact O).
    assert (P1 : a_pend (ck_post Passive s) = []) by (destruct CK1 as (_ & P & _); exact P).
    specialize (N3 P1).
    destruct (exceedsTruncateThreshold c orig) eqn:Eo.
    - right. destruct (negb (f_tpf f0)) eqn:Et.
      + rewrite ck_free'_eq. cbn [ck_flags ck_restarted ck_attempted fst snd]. rewrite O1.
        destruct (negb (exceedsTruncateThreshold c (wsz b))) eqn:E1.
        * cbn. splits; auto; try congruence.
          exists (ck_nf Passive s). splits; auto; lia.
        * rewrite ck_free'_eq. cbn. splits; auto; try congruence.
          exists (ck_nf Passive s + ck_nf Truncate (ck_post Passive s)). splits; try lia.
          intros E2. rewrite E2 in E1. discriminate.
      + rewrite ck_free'_eq. cbn. splits; auto; try congruence.
        exists (ck_nf Truncate s). splits; auto; lia.
    - destruct (calcWALSize (u32 (c_ps c)) (u32 (c_min c)) <=? new) eqn:Em.
      + right. unfold passive_only. rewrite ck_free'_eq. cbn. splits; auto; try congruence.
        exists (ck_nf Passive s). splits; auto; lia.
      + destruct (c_ci c && f_ssc f0) eqn:Ec.
        * destruct (el && (calcWALSize (u32 (c_ps c)) 1 <? new)) eqn:Ee.
          -- right. unfold passive_only. rewrite ck_free'_eq. cbn. splits; auto; try congruence.
             exists (ck_nf Passive s). splits; auto; lia.
          -- left. cbn. splits; auto.
        * left. cbn. splits; auto.
  Qed.

  (** ** one iteration of the Sync loop, free environment *)
  Definition orig_of (s : ast) : Z := if a_off s =? 0 then wsz (a_file s) else a_off s.
  Definition fl1_of (sy : bool) (s1 : ast) : flags :=
    if sy then mkFlags (f_tpf (a_fl s1)) true else a_fl s1.

  Lemma sync_once_cases el s : wf s ->
    let r := sync_once c b el s in
    exists s1 nf,
      copy_chunk c (c_maxb c) s = (s1, o_synced r, o_limited r, nf) /\ o_toend r = a_toend s1 /\ wf s1 /\
      ((o_attempts r = [] /\ o_files r = nf /\
        a_synced (o_st r) = a_synced s1 /\ a_pend (o_st r) = a_pend s1 /\ a_file (o_st r) = a_file s1 /\
        a_off (o_st r) = a_off s1 /\ a_toend (o_st r) = a_toend s1 /\ a_first (o_st r) = a_first s1 /\
        (a_fl (o_st r) = fl1_of (o_synced r) s1 \/
         a_fl (o_st r) = f0_of (fl1_of (o_synced r) s1) (a_off s1)) /\
        (checkpoint_gate c (o_limited r) (o_toend r) (orig_of s) = false \/
         (exceedsTruncateThreshold c (orig_of s) = false /\ min_trig (a_off s1) = false /\
          time_trig (fl1_of (o_synced r) s1) el (a_off s1) = false)))
       \/
       (o_attempts r <> [] /\ checkpoint_gate c (o_limited r) (o_toend r) (orig_of s) = true /\
        ckd (o_st r) /\ wf (o_st r) /\ a_fl (o_st r) = mkFlags false false /\
        (exceedsTruncateThreshold c (orig_of s) = true \/ min_trig (a_off s1) = true \/
         time_trig (fl1_of (o_synced r) s1) el (a_off s1) = true) /\
        exists k, o_files r = nf + k /\ 1 <= k <= cost (a_pend s1) + 2 /\
                  (exceedsTruncateThreshold c (wsz b) = false -> k <= cost (a_pend s1) + 1))).
  Proof.
    intros W r. subst r. unfold sync_once, sync_once_with. fold (orig_of s).
    destruct (copy_chunk c (c_maxb c) s) as [[[s1 sy] lim] nf] eqn:EC.
    assert (W1 : wf s1).
    { destruct (copy_chunk_spec _ _ _ _ _ _ W EC) as [(_ & -> & _)|(_ & _ & _ & W1 & _)]; auto. }
    fold (fl1_of sy s1).
    destruct (checkpoint_gate c lim (a_toend s1) (orig_of s)) eqn:EG.
    - pose proof (cin_free el (orig_of s) (a_off s1) (fl1_of sy s1) s1 nf W1) as HD. cbv zeta in HD.
      remember (checkpointIfNeeded (ck_free' c b) (fun sf => a_off (fst sf)) c el (orig_of s) (a_off s1) (fl1_of sy s1) (s1, nf)) as d.
      cbn [o_st o_synced o_limited o_toend o_files o_attempts].
      exists s1, nf. splits; auto.
      destruct HD as [(A & B & C & D & E & F)|(A & B & C & D & E & F)].
      + left. rewrite B. cbn. splits; auto.
      + right. unfold ckd, wf in *. cbn. splits; try tauto.
    - cbn. exists s1, nf. splits; auto. left. splits; auto.
  Qed.

  (** ** the bound *)
  Definition Bnd (n : Z) : Prop := n < Z.max 1 (umin c) + b.
  Definition K0 (s : ast) : Prop := a_pend s = [] -> a_off s = 0 -> Bnd (a_synced s).
  Definition exit_of (r : once) : bool := sync_loop_exit (o_synced r) (o_limited r) (o_toend r).

  Lemma wsz_pos n : 0 <= n -> 32 <= wsz n.
  Proof. intros. rewrite wsz_eq. pose proof fs_pos. remember (fsz c) as F eqn:EF; clear EF. nia. Qed.

  Lemma min_trig_wsz n : min_trig (wsz n) = (umin c <=? n).
  Proof. unfold min_trig, umin. apply calc_le_wsz. Qed.

  Lemma min_trig_0 : min_trig 0 = false.
  Proof. unfold min_trig. apply calc_le_0. Qed.

  Lemma sync_once_bound el s : wf s -> K0 s ->
    let r := sync_once c b el s in
    wf (o_st r) /\ K0 (o_st r) /\
    (exit_of r = true -> a_pend (o_st r) = [] /\ Bnd (a_synced (o_st r))) /\
    (exit_of r = false -> (length (a_pend (o_st r)) < length (a_pend s))%nat).
  Proof.
    intros W HK r. destruct (sync_once_cases el s W) as (s1 & nf & EC & ET & W1 & Cases).
    fold r in EC, ET, Cases. unfold exit_of, sync_loop_exit.
    pose proof (copy_chunk_spec _ _ _ _ _ _ W EC) as CS.
    destruct Cases as [(A1 & A2 & A3 & A4 & A5 & A6 & A7 & A8 & A9 & A10)|(B1 & B2 & B3 & B4 & B5 & B6 & B7)].
    - assert (Wr : wf (o_st r)).
      { destruct W1 as (X1 & X2 & X3 & X4). unfold wf. rewrite A3, A4, A5, A6. auto. }
      destruct CS as [(P & -> & Sy & Li & Nf)|(P & Sy & Nf & _ & Off & Fi & Fl & Te & Len & LimR & _)].
      + (* nothing pending *)
        rewrite Sy, Li in *. cbn [negb orb] in *. splits; auto.
        * unfold K0. rewrite A3, A4, A6. exact HK.
        * intros _. split; [rewrite A4; exact P|].
          unfold checkpoint_gate in A10. cbn [negb orb] in A10.
          destruct A10 as [A10|(_ & Mt & _)]; [discriminate|].
          rewrite A3. destruct W as (X1 & _ & _ & [X4|X4]).
          -- apply HK; auto.
          -- rewrite X4, min_trig_wsz in Mt. apply Z.leb_gt in Mt. unfold Bnd. lia.
        * discriminate.
      + (* a chunk was copied *)
        rewrite Sy in *. cbn [negb orb] in *.
        assert (N1 : 0 <= a_synced s1) by (destruct W1; auto).
        splits; auto.
        * unfold K0. rewrite A6, Off. intros _ Z0. pose proof (wsz_pos _ N1). lia.
        * intros Ex.
          assert (PE : a_pend s1 = []).
          { destruct (o_limited r) eqn:EL; [|apply LimR; reflexivity].
            cbn [negb orb] in Ex. rewrite ET, Te in Ex. apply Z.eqb_eq in Ex.
            destruct W1 as (_ & X2 & X3 & _). destruct (a_pend s1) eqn:EP; auto.
            assert (1 <= sumz (z :: l)) by (apply sumz_ge1; [exact X2|congruence]). lia. }
          split; [rewrite A4; exact PE|].
          assert (G : checkpoint_gate c (o_limited r) (o_toend r) (orig_of s) = true).
          { unfold checkpoint_gate. destruct (o_limited r); cbn [negb orb] in *; [rewrite Ex; reflexivity|reflexivity]. }
          rewrite G in A10. destruct A10 as [A10|(_ & Mt & _)]; [discriminate|].
          rewrite Off, min_trig_wsz in Mt. apply Z.leb_gt in Mt. rewrite A3. unfold Bnd. lia.
        * intros _. rewrite A4. exact Len.
    - destruct B3 as (C1 & C2 & C3 & C4 & C5). splits; auto.
      + unfold K0. rewrite C3. intros _ Z0. pose proof (wsz_pos b). lia.
      + intros _. split; auto. rewrite C1. unfold Bnd. lia.
      + intros Ex. rewrite C2. simpl.
        destruct CS as [(P & -> & Sy & Li & Nf)|(P & _)].
        * rewrite Sy in Ex. discriminate.
        * destruct (a_pend s); [congruence|simpl; lia].
  Qed.

  Lemma sync_loop_unfold fuel el i s files att :
    sync_loop c b (Datatypes.S fuel) el i s files att =
    let r := sync_once c b (el i) s in
    if exit_of r then Some (o_st r, files + o_files r, att ++ o_attempts r)
    else sync_loop c b fuel el (Datatypes.S i) (o_st r) (files + o_files r) (att ++ o_attempts r).
  Proof. reflexivity. Qed.

  Lemma sync_loop_bound el : forall fuel i s files att,
    wf s -> K0 s -> (length (a_pend s) + 2 <= fuel)%nat ->
    exists s' nf att', sync_loop c b fuel el i s files att = Some (s', files + nf, att') /\
      wf s' /\ a_pend s' = [] /\ Bnd (a_synced s').
  Proof.
    induction fuel as [|fuel IH]; intros i s files att W HK Hf; [lia|].
    rewrite sync_loop_unfold. cbv zeta.
    destruct (sync_once_bound (el i) s W HK) as (Wr & Kr & Ex & Nx).
    destruct (exit_of (sync_once c b (el i) s)) eqn:EE.
    - destruct (Ex eq_refl) as [P Bd]. eexists _, _, _. splits; eauto.
    - specialize (Nx eq_refl).
      destruct (IH (Datatypes.S i) _ (files + o_files (sync_once c b (el i) s)) (att ++ o_attempts (sync_once c b (el i) s)) Wr Kr)
        as (s' & nf & att' & E & W' & P' & B'); [lia|].
      exists s', (o_files (sync_once c b (el i) s) + nf), att'. rewrite E. splits; auto. f_equal. f_equal. f_equal. lia.
  Qed.

  Lemma sync_bound el s : wf s -> K0 s ->
    exists s' nf att, sync c b el s = Some (s', nf, att) /\ wf s' /\ a_pend s' = [] /\ Bnd (a_synced s').
  Proof.
    intros W HK. unfold sync, sync_with. fold (sync_loop c b).
    destruct (sync_loop_bound el (sync_fuel s) 0%nat s 0 [] W HK) as (s' & nf & att & E & R); [unfold sync_fuel; lia|].
    exists s', nf, att. split; auto.
  Qed.

  (** ** histories *)
  Definition valid_step (st : step) : Prop := match st with Commit k => 1 <= k | _ => True end.
  Definition K (s : ast) : Prop := a_pend s = [] -> Bnd (a_synced s).
  Definition Inv (s : ast) : Prop := wf s /\ K s.

  Lemma K_K0 s : K s -> K0 s.
  Proof. unfold K, K0; auto. Qed.

  Lemma init_inv n0 : 1 <= n0 -> Inv (init n0).
  Proof.
    intros. unfold Inv, wf, K, init; simpl. splits; auto; try lia; try (intros; discriminate).
  Qed.

  Lemma step_inv st s : Inv s -> valid_step st ->
    exists s' nf, do_step c b st s = Some (s', nf) /\ Inv s'.
  Proof.
    intros [W HK] V. destruct st as [k|k|el|]; simpl.
    - eexists _, _. split; [reflexivity|]. destruct W as (W1 & W2 & W3 & W4). simpl in V.
      unfold Inv, wf, K, app_commit, live_frames; simpl. splits; auto.
      + apply Forall_app; split; auto.
      + rewrite sumz_app; simpl. lia.
      + intros E. apply app_eq_nil in E. destruct E; congruence.
    - eexists _, _. split; [reflexivity|]. destruct W as (W1 & W2 & W3 & W4).
      unfold Inv, wf, K, app_spill, live_frames; simpl. splits; auto. lia.
    - destruct (sync_bound el s W (K_K0 _ HK)) as (s' & nf & att & E & W' & P & Bd).
      rewrite E. eexists _, _. split; [reflexivity|]. split; auto. intros _; exact Bd.
    - eexists _, _. split; [reflexivity|]. destruct W as (W1 & W2 & W3 & W4).
      unfold Inv, wf, K, proc_restart; simpl. splits; auto.
  Qed.

  Lemma run_inv : forall h s, Inv s -> Forall valid_step h ->
    exists s' nf, run c b h s = Some (s', nf) /\ Inv s'.
  Proof.
    induction h as [|st tl IH]; intros s I V; simpl.
    - eexists _, _; split; [reflexivity|exact I].
    - inversion V; subst. destruct (step_inv st s I H1) as (s1 & n1 & E1 & I1). rewrite E1.
      destruct (IH s1 I1 H2) as (s2 & n2 & E2 & I2). rewrite E2. eexists _, _; split; [reflexivity|exact I2].
  Qed.

  Lemma reachable_inv_lemma n0 h : 1 <= n0 -> Forall valid_step h ->
    exists s nf, run c b h (init n0) = Some (s, nf) /\ Inv s.
  Proof. intros Hn V. exact (run_inv h _ (init_inv _ Hn) V). Qed.

  (** wal_bounded: after ANY history of application commits, syncs and process
      restarts, a Sync succeeds, leaves nothing pending and the live generation
      holds fewer than max(1, MinCheckpointPageN) + b frames. *)
  Lemma wal_bounded_lemma n0 h el : 1 <= n0 -> Forall valid_step h ->
    exists s nf s' nf' att,
      run c b h (init n0) = Some (s, nf) /\ sync c b el s = Some (s', nf', att) /\
      a_pend s' = [] /\ live_frames s' < Z.max 1 (umin c) + b.
  Proof.
    intros Hn V. destruct (run_inv h _ (init_inv _ Hn) V) as (s & nf & E & [W HK]).
    destruct (sync_bound el s W (K_K0 _ HK)) as (s' & nf' & att & E' & W' & P & Bd).
    exists s, nf, s', nf', att. splits; auto. unfold live_frames. rewrite P. simpl. unfold Bnd in Bd. lia.
  Qed.

  (** in terms of the lowest configured threshold, when the truncate threshold is
      not below the passive one (the shipped defaults: 1000 and 121359) *)
  Lemma wal_bounded_low_lemma n0 h el : 1 <= n0 -> Forall valid_step h ->
    1 <= umin c -> (trunc_enabled c = true -> umin c <= utrunc c) ->
    exists s nf s' nf' att,
      run c b h (init n0) = Some (s, nf) /\ sync c b el s = Some (s', nf', att) /\
      a_pend s' = [] /\ live_frames s' < low_threshold c + b.
  Proof.
    intros Hn V Hm Ht. destruct (wal_bounded_lemma n0 h el Hn V) as (s & nf & s' & nf' & att & A & B & C & D).
    exists s, nf, s', nf', att. splits; auto. unfold low_threshold. destruct (trunc_enabled c); [specialize (Ht eq_refl)|]; lia.
  Qed.

  (** truncate_not_starved: whatever the chunk limit did ([limited], not at the end
      of the file), a synced offset past the truncate threshold makes this very
      iteration checkpoint, and the live generation is back to the b bookkeeping frames. *)
  Lemma truncate_not_starved_lemma el s : wf s ->
    exceedsTruncateThreshold c (orig_of s) = true ->
    let r := sync_once c b el s in
    o_attempts r <> [] /\ live_frames (o_st r) = b.
  Proof.
    intros W He r. destruct (sync_once_cases el s W) as (s1 & nf & EC & ET & W1 & Cases). fold r in EC, ET, Cases.
    destruct Cases as [(A1 & A2 & A3 & A4 & A5 & A6 & A7 & A8 & A9 & A10)|(B1 & B2 & B3 & B4)].
    - exfalso. unfold checkpoint_gate in A10. rewrite He in A10. rewrite orb_true_r in A10.
      destruct A10 as [A10|(A10 & _)]; discriminate.
    - split; auto. destruct B3 as (C1 & C2 & _). unfold live_frames. rewrite C1, C2. simpl. lia.
  Qed.

  (** one Sync later the bound holds for the truncate threshold as well *)
  Lemma wal_bounded_caught_up_lemma el s : wf s -> a_pend s = [] -> a_off s <> 0 -> 1 <= low_threshold c ->
    exists s' nf att, sync c b el s = Some (s', nf, att) /\ a_pend s' = [] /\ live_frames s' < low_threshold c + b.
  Proof.
    intros W P Off Hl. unfold sync, sync_with. fold (sync_loop c b). unfold sync_fuel.
    rewrite sync_loop_unfold. cbv zeta.
    destruct (sync_once_cases (el 0%nat) s W) as (s1 & nf & EC & ET & W1 & Cases).
    remember (sync_once c b (el 0%nat) s) as r.
    destruct (copy_chunk_spec _ _ _ _ _ _ W EC) as [(_ & -> & Sy & Li & Nf)|(P' & _)]; [|congruence].
    assert (EX : exit_of r = true) by (unfold exit_of, sync_loop_exit; rewrite Sy; reflexivity).
    rewrite EX. eexists _, _, _. split; [reflexivity|].
    assert (OE : orig_of s = wsz (a_synced s)).
    { unfold orig_of. destruct W as (_ & _ & _ & [X|X]); [congruence|]. rewrite X.
      destruct (wsz (a_synced s) =? 0) eqn:E0; auto. apply Z.eqb_eq in E0. congruence. }
    assert (N0 : 0 <= a_synced s) by (destruct W; auto).
    destruct Cases as [(A1 & A2 & A3 & A4 & A5 & A6 & A7 & A8 & A9 & A10)|(B1 & B2 & B3 & B4)].
    - split; [rewrite A4; exact P|]. unfold live_frames. rewrite A3, A4, P. simpl.
      unfold checkpoint_gate in A10. rewrite Li in A10. cbn [negb orb] in A10.
      destruct A10 as [A10|(Ex & Mt & _)]; [discriminate|].
      rewrite OE, exceeds_wsz in Ex.
      destruct W as (_ & _ & _ & [X|X]); [congruence|]. rewrite X, min_trig_wsz in Mt. apply Z.leb_gt in Mt.
      unfold low_threshold in *. destruct (trunc_enabled c); simpl in Ex; [apply Z.leb_gt in Ex|]; lia.
    - destruct B3 as (C1 & C2 & _). split; auto. unfold live_frames. rewrite C1, C2. simpl. lia.
  Qed.

  (** ** idle silence *)
  Section Idle.
    (** every threshold is above the bookkeeping frames of one seq bump
        (MinCheckpointPageN > b, and TruncatePageN > b when enabled) *)
    Hypothesis Hbm : b < umin c.
    Hypothesis Hbt : trunc_enabled c = true -> b < utrunc c.

    Lemma exceeds_b : exceedsTruncateThreshold c (wsz b) = false.
    Proof.
      rewrite exceeds_wsz. destruct (trunc_enabled c); simpl; auto. apply Z.leb_gt. auto.
    Qed.

    (** the state a restarting checkpoint leaves: only the b bookkeeping frames, synced, flags clear *)
    Definition quietb (s : ast) : bool :=
      match a_pend s with
      | [] => (a_synced s =? b) && (a_off s =? wsz b) && negb (f_tpf (a_fl s)) && negb (f_ssc (a_fl s))
      | _ => false
      end.

    (** potential: files that idle syncs may still create *)
    Definition Phi (s : ast) : Z := cost (a_pend s) + (if quietb s then 0 else 1).

    Lemma quietb_true s : quietb s = true ->
      a_pend s = [] /\ a_synced s = b /\ a_off s = wsz b /\ a_fl s = mkFlags false false.
    Proof.
      unfold quietb. destruct (a_pend s); [|discriminate]. intros H.
      repeat (apply andb_true_iff in H; destruct H as [H ?]).
      apply Z.eqb_eq in H. apply Z.eqb_eq in H2. destruct (a_fl s) as [t ss]; simpl in *.
      destruct t, ss; simpl in *; try discriminate. auto.
    Qed.

    Lemma sync_once_pot el s : wf s ->
      let r := sync_once c b el s in
      o_files r + Phi (o_st r) <= Phi s /\
      (quietb s = true -> o_st r = s /\ o_files r = 0 /\ exit_of r = true /\ o_attempts r = []).
    Proof.
      intros W r. destruct (sync_once_cases el s W) as (s1 & nf & EC & ET & W1 & Cases).
      fold r in EC, ET, Cases.
      pose proof (copy_chunk_spec _ _ _ _ _ _ W EC) as CS.
      assert (QN : quietb s = true -> a_pend s = [] /\ exceedsTruncateThreshold c (orig_of s) = false /\
                   min_trig (a_off s) = false /\ forall e, time_trig (a_fl s) e (a_off s) = false).
      { intros Q. destruct (quietb_true _ Q) as (Q1 & Q2 & Q3 & Q4). pose proof (wsz_pos b).
        splits; auto.
        - unfold orig_of. rewrite Q3. destruct (wsz b =? 0) eqn:E0; [apply Z.eqb_eq in E0; lia|]. apply exceeds_b.
        - rewrite Q3, min_trig_wsz. apply Z.leb_gt. exact Hbm.
        - intros e. unfold time_trig. rewrite Q4. simpl. rewrite andb_false_r. reflexivity. }
      destruct Cases as [(A1 & A2 & A3 & A4 & A5 & A6 & A7 & A8 & A9 & A10)|(B1 & B2 & B3 & B4 & B5 & B6 & k & Bk1 & Bk2 & Bk3)].
      - destruct CS as [(P & -> & Sy & Li & Nf)|(P & Sy & Nf & _ & Off & Fi & Fl & Te & Len & LimR & _ & Cst)].
        + (* nothing pending, no checkpoint *)
          assert (QS : quietb s = true -> o_st r = s).
          { intros Q. destruct (quietb_true _ Q) as (Q1 & Q2 & Q3 & Q4).
            assert (FE : a_fl (o_st r) = a_fl s).
            { rewrite Sy in A9. unfold fl1_of, f0_of in A9. rewrite Q4 in *.
              destruct A9 as [A9|A9]; rewrite A9; auto. destruct (negb _); reflexivity. }
            destruct (o_st r), s; simpl in *; congruence. }
          split.
          * rewrite A2, Nf. unfold Phi at 2. destruct (quietb s) eqn:Q.
            -- rewrite (QS eq_refl). unfold Phi. rewrite Q. lia.
            -- unfold Phi. rewrite A4, P, cost_nil. destruct (quietb (o_st r)); lia.
          * intros Q. splits; auto; try lia. unfold exit_of, sync_loop_exit. rewrite Sy. reflexivity.
        + (* a chunk copied, no checkpoint *)
          assert (QF : quietb s = false) by (unfold quietb; destruct (a_pend s); [congruence|reflexivity]).
          split; [|rewrite QF; discriminate].
          rewrite A2, Nf. unfold Phi. rewrite QF, A4.
          assert (cost (a_pend s1) + 1 <= cost (a_pend s)) by (apply Cst; left; reflexivity).
          destruct (quietb (o_st r)); lia.
      - (* a checkpoint ran *)
        assert (QF : quietb s = false).
        { destruct (quietb s) eqn:Q; auto. destruct (QN eq_refl) as (P & E1 & E2 & E3). exfalso.
          destruct CS as [(_ & -> & Sy & _)|(P' & _)]; [|congruence].
          rewrite Sy in B6. unfold fl1_of in B6. rewrite E1, E2, E3 in B6. destruct B6 as [B6|[B6|B6]]; discriminate. }
        split; [|rewrite QF; discriminate].
        assert (QR : quietb (o_st r) = true).
        { destruct B3 as (C1 & C2 & C3 & _). unfold quietb. rewrite C2, C1, C3, B5. simpl. rewrite !Z.eqb_refl. reflexivity. }
        destruct B3 as (C1 & C2 & _). unfold Phi. rewrite QR, QF, C2, cost_nil, Bk1.
        specialize (Bk3 exceeds_b).
        destruct CS as [(P & -> & Sy & Li & Nf)|(P & Sy & Nf & _ & Off & Fi & Fl & Te & Len & LimR & _ & Cst)].
        + lia.
        + assert (cost (a_pend s1) + 1 <= cost (a_pend s)) by (apply Cst; left; reflexivity). lia.
    Qed.

    Lemma sync_loop_pot el : forall fuel i s files att s' tot att',
      wf s -> K0 s -> sync_loop c b fuel el i s files att = Some (s', tot, att') ->
      (tot - files) + Phi s' <= Phi s.
    Proof.
      induction fuel as [|fuel IH]; intros i s files att s' tot att' W HK E; [discriminate|].
      rewrite sync_loop_unfold in E. cbv zeta in E.
      destruct (sync_once_bound (el i) s W HK) as (Wr & Kr & _ & _).
      destruct (sync_once_pot (el i) s W) as [Pt _].
      destruct (exit_of (sync_once c b (el i) s)).
      - inversion E; subst. lia.
      - specialize (IH _ _ _ _ _ _ _ Wr Kr E). lia.
    Qed.

    Lemma sync_pot el s s' nf att : wf s -> K0 s -> sync c b el s = Some (s', nf, att) -> nf + Phi s' <= Phi s.
    Proof.
      intros W HK E. unfold sync, sync_with in E. fold (sync_loop c b) in E.
      pose proof (sync_loop_pot el _ _ _ _ _ _ _ _ W HK E). lia.
    Qed.

    Lemma Phi_nonneg s : 0 <= Phi s.
    Proof. unfold Phi. pose proof (cost_nonneg (a_pend s)). destruct (quietb s); lia. Qed.

    (** idle_silent: from any state of the invariant (in particular any reachable
        one), ANY number of further Syncs — whatever the mtime rule says each
        time — creates at most cost(pending) + 1 files in total. *)
    Lemma idle_silent_lemma : forall (els : list (nat -> bool)) s, Inv s ->
      exists s' nf, run c b (map (@Sync) els) s = Some (s', nf) /\ Inv s' /\ nf + Phi s' <= Phi s.
    Proof.
      induction els as [|el tl IH]; intros s I; simpl.
      - eexists _, _. split; [reflexivity|]. split; auto. lia.
      - destruct I as [W HK].
        destruct (sync_bound el s W (K_K0 _ HK)) as (s1 & n1 & att & E & W1 & P1 & B1).
        rewrite E. assert (I1 : Inv s1) by (split; auto; intros _; exact B1).
        destruct (IH s1 I1) as (s2 & n2 & E2 & I2 & Pt). rewrite E2.
        eexists _, _. split; [reflexivity|]. split; auto.
        pose proof (sync_pot el s s1 n1 att W (K_K0 _ HK) E). lia.
    Qed.

    Lemma idle_total_lemma (els : list (nat -> bool)) s : Inv s ->
      exists s' nf, run c b (map (@Sync) els) s = Some (s', nf) /\
        nf <= cost (a_pend s) + 1 /\ nf <= Z.of_nat (length (a_pend s)) + 1 /\
        (c_maxb c <= 0 -> nf <= 2) /\ (a_pend s = [] -> nf <= 1).
    Proof.
      intros I. destruct (idle_silent_lemma els s I) as (s' & nf & E & _ & Pt).
      exists s', nf. split; auto. pose proof (Phi_nonneg s').
      assert (Phi s <= cost (a_pend s) + 1) by (unfold Phi; destruct (quietb s); lia).
      pose proof (cost_le_length (a_pend s)). splits; try lia.
      - intros Hm. unfold cost in *. apply Z.leb_le in Hm. rewrite Hm in *. destruct (a_pend s); lia.
      - intros P. rewrite P, cost_nil in *. lia.
    Qed.

    (** ... and then none: the state left by a restarting checkpoint is a fixpoint of Sync *)
    Lemma quiet_fixpoint_lemma el s : wf s -> quietb s = true -> sync c b el s = Some (s, 0, []).
    Proof.
      intros W Q. unfold sync, sync_with. fold (sync_loop c b). unfold sync_fuel. rewrite sync_loop_unfold. cbv zeta.
      destruct (sync_once_pot (el 0%nat) s W) as [_ F]. destruct (F Q) as (A & B & C & D).
      rewrite C, A, B, D. reflexivity.
    Qed.

    (** a Sync during which a checkpoint ran ends in that fixpoint *)
    Lemma checkpoint_then_quiet_lemma el s : wf s ->
      let r := sync_once c b el s in o_attempts r <> [] -> quietb (o_st r) = true.
    Proof.
      intros W r NE. destruct (sync_once_cases el s W) as (s1 & nf & EC & ET & W1 & Cases). fold r in EC, ET, Cases.
      destruct Cases as [(A1 & _)|(B1 & B2 & (C1 & C2 & C3 & _) & B4 & B5 & _)]; [congruence|].
      unfold quietb. rewrite C2, C1, C3, B5. simpl. rewrite !Z.eqb_refl. reflexivity.
    Qed.

    Lemma idle_fixpoint_lemma el s : wf s ->
      (o_attempts (sync_once c b el s) <> [] -> quietb (o_st (sync_once c b el s)) = true) /\
      (quietb s = true -> forall el', sync c b el' s = Some (s, 0, [])).
    Proof.
      intros W. split.
      - exact (checkpoint_then_quiet_lemma el s W).
      - intros Q el'. exact (quiet_fixpoint_lemma el' s W Q).
    Qed.
  End Idle.
End Proofs.

(** * Refutations (the faithful model violates the property there) and examples *)

Definition c_dflt : cfg := mkCfg 4096 1000 0 true 0.          (* shipped defaults, CheckpointInterval > 0 *)
Definition c_min1 : cfg := mkCfg 4096 1 0 false 0.            (* MinCheckpointPageN = 1 *)
Definition c_trunc1 : cfg := mkCfg 4096 1000 1 false 0.       (* TruncatePageN = 1 *)
Definition c_tlow : cfg := mkCfg 4096 1000 3 false 0.         (* TruncatePageN = 3 < MinCheckpointPageN *)
Definition c_min2 : cfg := mkCfg 4096 2 0 false 0.

(** the state every restarting checkpoint leaves (b = 1) *)
Definition s_quiet (c : cfg) : ast := mkAst 1 [] 1 (mkFlags false false) (walsz c 1) true false.

(** wal_bounded at its literal strength — "fewer than the LOWEST threshold + b" —
    fails when TruncatePageN < MinCheckpointPageN: exceedsTruncateThreshold is
    evaluated on the offset before the sync, so the frames just synced are only
    truncated by the NEXT Sync.  History: first Sync; one transaction of 10 frames; Sync. *)
Lemma wal_bounded_refuted_trunc_below_min_lemma :
  exists c b h s nf, 1 <= low_threshold c /\ 1 <= b /\ Forall valid_step h /\
    run c b (h ++ [Sync (fun _ => true)]) (init 1) = Some (s, nf) /\
    a_pend s = [] /\ low_threshold c + b <= live_frames s.
Proof.
  exists c_tlow, 1, [Sync (fun _ => true); Commit 10]. eexists _, _.
  split; [vm_compute; congruence|]. split; [lia|]. split; [repeat constructor; simpl; lia|].
  split; [vm_compute; reflexivity|]. split; [reflexivity|]. vm_compute. congruence.
Qed.

(** idle_silent fails as soon as a threshold is <= b: the bookkeeping frame alone
    meets it, every idle Sync checkpoints again and writes a file — for every k,
    k idle syncs create k (MinCheckpointPageN = 1) or 2k (TruncatePageN = 1) files. *)
Lemma idle_min1_step el : sync c_min1 1 el (s_quiet c_min1) = Some (s_quiet c_min1, 1, [(Passive, ORestarted)]).
Proof. vm_compute. reflexivity. Qed.

Lemma idle_trunc1_step el : sync c_trunc1 1 el (s_quiet c_trunc1) =
  Some (s_quiet c_trunc1, 2, [(Passive, ORestarted); (Truncate, ORestarted)]).
Proof. vm_compute. reflexivity. Qed.

Lemma idle_silent_refuted_threshold_le_b_lemma : forall els : list (nat -> bool),
  run c_min1 1 (map (@Sync) els) (s_quiet c_min1) = Some (s_quiet c_min1, Z.of_nat (length els)) /\
  run c_trunc1 1 (map (@Sync) els) (s_quiet c_trunc1) = Some (s_quiet c_trunc1, 2 * Z.of_nat (length els)).
Proof.
  induction els as [|el tl [IH1 IH2]]; [split; reflexivity|].
  split; cbn [map run do_step].
  - rewrite idle_min1_step, IH1. f_equal. f_equal. simpl length. rewrite Nat2Z.inj_succ. lia.
  - rewrite idle_trunc1_step, IH2. f_equal. f_equal. simpl length. rewrite Nat2Z.inj_succ. lia.
Qed.

(** with an application read transaction pinned open (checkpoints cannot restart
    the WAL), an idle database above a threshold gets a new file on every Sync:
    each failed attempt appends the seq-bump frame, the next Sync replicates it. *)
Fixpoint run_pinned (c : cfg) (b : Z) (k : nat) (s : ast) (files : Z) : option (ast * Z) :=
  match k with
  | O => Some (s, files)
  | Datatypes.S k' =>
      match sync_pinned c b (fun _ => false) s with
      | Some (s', nf, _) => run_pinned c b k' s' (files + nf)
      | None => None
      end
  end.

Lemma idle_pinned_refuted_lemma :
  exists c b s s' nf, wf c s /\ a_pend s = [] /\ run_pinned c b 12 s 0 = Some (s', nf) /\ 3 < nf /\
    live_frames s < live_frames s'.
Proof.
  exists c_min2, 1, (mkAst 2 [] 2 (mkFlags false false) (walsz c_min2 2) true false). eexists _, _.
  split; [unfold wf; simpl; splits; try lia; auto|].
  split; [reflexivity|]. split; [vm_compute; reflexivity|]. split; vm_compute; reflexivity.
Qed.

(** hypotheses of the main theorems are satisfiable: the shipped configuration,
    a history with bursts above the threshold, then idle syncs *)
Example wal_bounded_example :
  exists s nf, run c_dflt 1 [Sync (fun _ => false); Commit 700; Commit 400; Sync (fun _ => false);
                             Commit 3; Sync (fun _ => true); ProcRestart; Commit 2; Sync (fun _ => false)]
                   (init 2) = Some (s, nf) /\ live_frames s = 3 /\ nf = 6.
Proof. eexists _, _. vm_compute. auto. Qed.

Example idle_silent_example :
  let s := mkAst 1 [3; 2] 40 (mkFlags true true) (walsz c_dflt 1) false false in
  Inv c_dflt 1 s /\ 1 < umin c_dflt /\ (trunc_enabled c_dflt = true -> 1 < utrunc c_dflt) /\
  run c_dflt 1 (map (@Sync) [fun _ => true; fun _ => true; fun _ => false; fun _ => true]) s
  = Some (mkAst 1 [] 40 (mkFlags false false) (walsz c_dflt 1) false false, 2).
Proof.
  cbv zeta. split; [|split; [vm_compute; reflexivity|split; [intros _; vm_compute; reflexivity|vm_compute; reflexivity]]].
  unfold Inv, wf, K; simpl. splits; try lia; auto; try (intros; discriminate).
  repeat constructor; unfold ge1; lia.
Qed.

Example truncate_not_starved_example :
  (* MaxSyncWALBytes = 1: every chunk is limited; 30 synced frames >= TruncatePageN = 20, stale slots behind *)
  let c := mkCfg 4096 1000 20 false 1 in
  let s := mkAst 30 [1; 1; 1] 100 (mkFlags false true) (walsz c 30) false false in
  let r := sync_once c 1 false s in
  o_limited r = true /\ o_toend r = false /\ o_attempts r = [(Passive, ORestarted)] /\ live_frames (o_st r) = 1.
Proof. vm_compute. auto. Qed.

(** a transaction that spilled 40 uncommitted frames behind a committed one and
    was rolled back: the next Sync copies the committed transaction (1 file, not
    at the end of the file), the idle Syncs after it create nothing *)
Example spill_rollback_idle_example :
  run c_dflt 1 [Sync (fun _ => false); Commit 2; Spill 40; Sync (fun _ => false);
                Sync (fun _ => false); Sync (fun _ => false); Sync (fun _ => false)] (init 2)
  = Some (mkAst 4 [] 44 (mkFlags false true) (walsz c_dflt 4) false false, 2).
Proof. vm_compute. reflexivity. Qed.
