(** C13 — checkpoint policy.  Model of db.go:

      calcWALSize, DB.effectiveTruncatePageN, DB.exceedsTruncateThreshold,
      DB.checkpointIfNeeded (with the flag bookkeeping of
      checkpointWithExecutor), the gate in syncLocked, the loop of DB.Sync,

    mirrored branch for branch (same tests, same order, same operators), and an
    abstract state machine of the live WAL generation on which the bounded-WAL
    and idle-silence theorems of Proofs.v are stated.

    All Go integers are [Z]; the casts the Go code performs are explicit:
    [u32] = conversion to uint32 (mod 2^32), [i64] = int64 wrap-around.
    Inputs ([int], [int64] fields) are assumed to lie in the int64 range. *)
From Coq Require Import List ZArith Bool Lia.
Import ListNotations.
Open Scope Z_scope.

(** * Scalars *)

Definition WALHeaderSize : Z := 32.
Definition WALFrameHeaderSize : Z := 24.
Definition DefaultTruncatePageN : Z := 121359.

Definition u32 (z : Z) : Z := z mod 4294967296.
Definition i64 (z : Z) : Z := (z + 9223372036854775808) mod 18446744073709551616 - 9223372036854775808.

(** [func calcWALSize(pageSize uint32, pageN uint32) int64 {
       return int64(WALHeaderSize) + (int64(WALFrameHeaderSize+pageSize) * int64(pageN)) }]
    [WALFrameHeaderSize+pageSize] is a uint32 addition; the product and the sum
    are int64 operations. *)
Definition frameSizeU32 (pageSize : Z) : Z := u32 (WALFrameHeaderSize + pageSize).
Definition calcWALSize (pageSize pageN : Z) : Z :=
  i64 (WALHeaderSize + i64 (frameSizeU32 pageSize * pageN)).

(** configuration: the DB fields the policy reads *)
Record cfg := mkCfg {
  c_ps : Z;        (* db.pageSize (int) *)
  c_min : Z;       (* db.MinCheckpointPageN (int) *)
  c_trunc : Z;     (* db.TruncatePageN (int) *)
  c_ci : bool;     (* db.CheckpointInterval > 0 *)
  c_maxb : Z       (* db.MaxSyncWALBytes *)
}.

(** [if db.TruncatePageN == 0 { return DefaultTruncatePageN }; return db.TruncatePageN] *)
Definition effectiveTruncatePageN (c : cfg) : Z :=
  if c_trunc c =? 0 then DefaultTruncatePageN else c_trunc c.

(** [truncatePageN > 0 && db.pageSize != 0 &&
     walSize >= calcWALSize(uint32(db.pageSize), uint32(truncatePageN))] *)
Definition exceedsTruncateThreshold (c : cfg) (walSize : Z) : bool :=
  let truncatePageN := effectiveTruncatePageN c in
  (0 <? truncatePageN) && negb (c_ps c =? 0) &&
  (calcWALSize (u32 (c_ps c)) (u32 truncatePageN) <=? walSize).

(** * checkpointIfNeeded *)

Inductive mode := Passive | Truncate.

(** what one call of checkpointWithExecutor did:
    - [OSkipped]       chkMu.TryLock failed: (false, nil), checkpointAttempted = false
    - [OBusy]          an SQLITE_BUSY error (barrier insert, or the seq bump after a TRUNCATE)
    - [OErr]           any other error
    - [ONotRestarted]  checkpoint and seq bump ran, WAL header unchanged: (false, nil)
    - [ORestarted]     WAL header changed: (true, nil) *)
Inductive outcome := OSkipped | OBusy | OErr | ONotRestarted | ORestarted.

Record flags := mkFlags { f_tpf : bool (* truncatePassiveFailed *); f_ssc : bool (* syncedSinceCheckpoint *) }.

(** flag bookkeeping inside checkpointWithExecutor, per outcome:
    header unchanged: [syncedSinceCheckpoint = false];
    header changed:   [truncatePassiveFailed = false] ... [syncedSinceCheckpoint = false];
    early returns (skip, errors) leave the flags alone. *)
Definition ck_flags (o : outcome) (f : flags) : flags :=
  match o with
  | OSkipped | OBusy | OErr => f
  | ONotRestarted => mkFlags (f_tpf f) false
  | ORestarted => mkFlags false false
  end.

Definition ck_restarted (o : outcome) : bool := match o with ORestarted => true | _ => false end.
Definition ck_is_err (o : outcome) : bool := match o with OBusy | OErr => true | _ => false end.
(** [exec.checkpointAttempted] after the call *)
Definition ck_attempted (o : outcome) : bool := match o with OSkipped => false | _ => true end.

Record decision (S : Type) := mkDec {
  d_attempts : list (mode * outcome);  (* checkpointWithExecutor calls, in order *)
  d_flags : flags;
  d_err : bool;                         (* checkpointIfNeeded returned a non-nil error *)
  d_st : S
}.
Arguments mkDec {S}. Arguments d_attempts {S}. Arguments d_flags {S}. Arguments d_err {S}. Arguments d_st {S}.

Section Decide.
  (** [S]: whatever the checkpoint executor acts on; [ck] = checkpointWithExecutor
      (its effect on everything except the two policy flags, which [ck_flags]
      models); [lastoff s] = exec.state.lastSyncedWALOffset. *)
  Variable S : Type.
  Variable ck : mode -> S -> outcome * S.
  Variable lastoff : S -> Z.

  Definition set_tpf (b : bool) (f : flags) : flags := mkFlags b (f_ssc f).

  (** the PASSIVE call shared by priorities 2 and 3:
      [if _, err := checkpoint(PASSIVE); err != nil { if busy { return nil }; return err }; return nil] *)
  Definition passive_only (f : flags) (s : S) : decision S :=
    let '(o, s1) := ck Passive s in
    mkDec [(Passive, o)] (ck_flags o f) (match o with OErr => true | _ => false end) s1.

  Definition checkpointIfNeeded (c : cfg) (elapsed : bool) (origWALSize newWALSize : Z)
             (f : flags) (s : S) : decision S :=
    if c_ps c =? 0 then mkDec [] f false s else
    let f := if negb (exceedsTruncateThreshold c (lastoff s)) then set_tpf false f else f in
    (* Priority 1 *)
    if exceedsTruncateThreshold c origWALSize then
      let truncate (pre : list (mode * outcome)) (f : flags) (s : S) : decision S :=
        let '(o, s2) := ck Truncate s in
        let f2 := ck_flags o f in
        let f2 := if ck_restarted o || negb (exceedsTruncateThreshold c (lastoff s2))
                  then set_tpf false f2 else f2 in
        mkDec (pre ++ [(Truncate, o)]) f2 (ck_is_err o) s2 in
      if negb (f_tpf f) then
        let '(o, s1) := ck Passive s in
        let f1 := ck_flags o f in
        match o with
        | OErr => mkDec [(Passive, o)] f1 true s1                       (* !busy: return err *)
        | OBusy => truncate [(Passive, o)] (set_tpf true f1) s1
        | ORestarted =>
            let f1 := set_tpf false f1 in
            if negb (exceedsTruncateThreshold c (lastoff s1))
            then mkDec [(Passive, o)] f1 false s1                        (* return nil *)
            else truncate [(Passive, o)] f1 s1
        | ONotRestarted | OSkipped =>
            let f1 := if ck_attempted o then set_tpf true f1 else f1 in
            truncate [(Passive, o)] f1 s1
        end
      else truncate [] f s
    (* Priority 2 *)
    else if calcWALSize (u32 (c_ps c)) (u32 (c_min c)) <=? newWALSize then
      passive_only f s
    (* Priority 3 *)
    else if c_ci c && f_ssc f then
      if elapsed && (calcWALSize (u32 (c_ps c)) 1 <? newWALSize) then passive_only f s
      else mkDec [] f false s
    else mkDec [] f false s.
End Decide.
Arguments checkpointIfNeeded {S}.

(** the test in syncLocked that decides whether checkpointIfNeeded runs:
    [!result.limited || result.syncedToWALEnd || db.exceedsTruncateThreshold(result.origWALSize)] *)
Definition checkpoint_gate (c : cfg) (limited toend : bool) (orig : Z) : bool :=
  negb limited || toend || exceedsTruncateThreshold c orig.

(** the exit test of the Sync loop: [!result.synced || !result.limited || result.syncedToWALEnd] *)
Definition sync_loop_exit (synced limited toend : bool) : bool :=
  negb synced || negb limited || toend.

(** the thresholds in frames, after the uint32 conversions of the Go code *)
Definition umin (c : cfg) : Z := u32 (c_min c).
Definition trunc_enabled (c : cfg) : bool := 0 <? effectiveTruncatePageN c.
Definition utrunc (c : cfg) : Z := u32 (effectiveTruncatePageN c).
(** the lowest configured checkpoint threshold, in frames *)
Definition low_threshold (c : cfg) : Z :=
  if trunc_enabled c then Z.min (umin c) (utrunc c) else umin c.

(** * The live WAL generation as a state machine

    Frames are counted, not stored.  The state is what the policy and the
    Sync loop can see of one database whose WAL only the application and
    litestream touch:
    - [a_synced]  frames of the live generation already written to L0 files
    - [a_pend]    committed, not yet synced application transactions of the
                  live generation, oldest first, each as its number of frames
    - [a_file]    frame slots physically present in the -wal file (stale frames
                  of older generations stay behind a PASSIVE restart; frames a
                  rolled-back transaction spilled stay behind the committed end)
    - [a_fl]      truncatePassiveFailed, syncedSinceCheckpoint
    - [a_off]     lastSyncedWALOffset (0 in a fresh process)
    - [a_toend]   syncedToWALEnd
    - [a_first]   no L0 file exists yet (pos.TXID = 0): the next sync is a
                  snapshot, which reads the whole WAL ([maxSyncWALBytes = 0]) *)
Record ast := mkAst {
  a_synced : Z;
  a_pend : list Z;
  a_file : Z;
  a_fl : flags;
  a_off : Z;
  a_toend : bool;
  a_first : bool
}.

Fixpoint sumz (l : list Z) : Z := match l with [] => 0 | x :: tl => x + sumz tl end.

Definition live_frames (s : ast) : Z := a_synced s + sumz (a_pend s).

Section Machine.
  Variable c : cfg.
  (** frames written by [bumpLitestreamSeq] *)
  Variable b : Z.

  Definition fsz : Z := frameSizeU32 (u32 (c_ps c)).
  Definition walsz (n : Z) : Z := WALHeaderSize + fsz * n.

  (** pageMap(maxBytes) on the pending transactions: after each commit frame
      [if maxBytes > 0 && r.Offset()+frameSize-startOffset >= maxBytes { limited = true; break }] *)
  Fixpoint take_chunk (maxb : Z) (acc : Z) (pend : list Z) : Z * list Z * bool :=
    match pend with
    | [] => (acc, [], false)
    | k :: tl =>
        let acc' := acc + k in
        if (0 <? maxb) && (maxb <=? acc' * fsz) then (acc', tl, true)
        else take_chunk maxb acc' tl
    end.

  (** verifyAndSync(maxSyncWALBytes) with nothing disturbing the WAL: copies one
      chunk of the pending transactions into ONE new L0 file, or skips
      ("no new wal pages", [sz == 0]).  Returns the state, the result fields
      (synced, limited) and the number of files created. *)
  Definition copy_chunk (maxb : Z) (s : ast) : ast * bool * bool * Z :=
    match a_pend s with
    | [] => (s, false, false, 0)          (* result.newWALSize = lastSyncedWALOffset, syncedToWALEnd kept *)
    | _ =>
        (* if info.snapshotting { maxSyncWALBytes = 0 } *)
        let maxb := if a_first s then 0 else maxb in
        let '(k, rest, limited) := take_chunk maxb 0 (a_pend s) in
        let n := a_synced s + k in
        (mkAst n rest (a_file s) (a_fl s) (walsz n) (n =? a_file s) false, true, limited, 1)
    end.

  (** checkpointWithExecutor, right after execCheckpoint succeeded:
      [if mode == CheckpointModeTruncate { exec.state.syncedToWALEnd = false }] *)
  Definition toend_after_exec (m : mode) (toend : bool) : bool :=
    match m with Truncate => false | Passive => toend end.

  (** checkpointWithExecutor(mode) when no application transaction is pinned
      and nothing is BUSY (ASSUMED SQLite behaviour, see [Proofs.v]):
      copy-before (and seal) sync everything that is pending; the checkpoint
      backfills the whole generation; the seq bump therefore restarts the WAL and
      the new generation consists of its [b] frames; the re-copy (PASSIVE) or the
      boundary snapshot (TRUNCATE) writes them to one more L0 file.  PASSIVE
      leaves the file length alone, TRUNCATE resets it. *)
  Definition ck_free (m : mode) (s : ast) : outcome * (ast * Z) :=
    let '(s1, _, _, nf) := copy_chunk 0 s in
    let file' := match m with Passive => Z.max (a_file s1) b | Truncate => b end in
    (* [syncedToWALEnd] is cleared by [toend_after_exec] right after the PRAGMA and then set
       again by applySyncResult of the re-copy / boundary snapshot, whose sync ends at
       offset walsz b in a file of file' slots *)
    (ORestarted, (mkAst b [] file' (a_fl s1) (walsz b) (b =? file') false, nf + 1)).

  (** the same call while an application read transaction is pinned open (ASSUMED
      SQLite behaviour): the checkpoint cannot backfill past the reader, so the
      seq bump does not restart the WAL but appends its [b] frames to the live
      generation, unsynced; a TRUNCATE attempt reports busy in its result row, not
      as an error, and ends the same way - except that [syncedToWALEnd] stays
      cleared, no sync result following on the not-restarted path. *)
  Definition ck_pinned (m : mode) (s : ast) : outcome * (ast * Z) :=
    let '(s1, _, _, nf) := copy_chunk 0 s in
    (ONotRestarted, (mkAst (a_synced s1) [b] (Z.max (a_file s1) (a_synced s1 + b)) (a_fl s1) (a_off s1)
                           (toend_after_exec m (a_toend s1)) (a_first s1), nf)).

  (** the executor state threaded through checkpointIfNeeded: machine state + files created *)
  Definition exec_t := mode -> ast * Z -> outcome * (ast * Z).
  Definition lift_ck (ck : mode -> ast -> outcome * (ast * Z)) : exec_t :=
    fun m sf => let '(o, (s', nf)) := ck m (fst sf) in (o, (s', snd sf + nf)).
  Definition ck_free' : exec_t := lift_ck ck_free.
  Definition ck_pinned' : exec_t := lift_ck ck_pinned.

  (** syncLocked: one iteration of the Sync loop *)
  Record once := mkOnce { o_st : ast; o_synced : bool; o_limited : bool; o_toend : bool; o_files : Z;
                          o_attempts : list (mode * outcome) }.

  Definition sync_once_with (ck : exec_t) (elapsed : bool) (s : ast) : once :=
    (* origWALSize := lastSyncedWALOffset; if 0, the file size *)
    let orig := if a_off s =? 0 then walsz (a_file s) else a_off s in
    let '(s1, synced, limited, nf) := copy_chunk (c_maxb c) s in
    (* if result.synced { syncedSinceCheckpoint = true } *)
    let fl1 := if synced then mkFlags (f_tpf (a_fl s1)) true else a_fl s1 in
    let toend := a_toend s1 in
    if checkpoint_gate c limited toend orig then
      let d := checkpointIfNeeded ck (fun sf => a_off (fst sf)) c elapsed orig (a_off s1) fl1 (s1, nf) in
      let s2 := fst (d_st d) in
      mkOnce (mkAst (a_synced s2) (a_pend s2) (a_file s2) (d_flags d) (a_off s2) (a_toend s2) (a_first s2))
             synced limited toend (snd (d_st d)) (d_attempts d)
    else
      mkOnce (mkAst (a_synced s1) (a_pend s1) (a_file s1) fl1 (a_off s1) (a_toend s1) (a_first s1))
             synced limited toend nf [].

  (** DB.Sync: [for { r := syncOnce(); if !r.synced || !r.limited || r.syncedToWALEnd { return } }].
      [el i] = "time since the database file's mtime exceeds CheckpointInterval"
      as seen by iteration [i]; the loop is given explicit fuel, [None] = out of fuel. *)
  Fixpoint sync_loop_with (ck : exec_t) (fuel : nat) (el : nat -> bool) (i : nat) (s : ast) (files : Z)
           (att : list (mode * outcome)) : option (ast * Z * list (mode * outcome)) :=
    match fuel with
    | O => None
    | Datatypes.S fuel' =>
        let r := sync_once_with ck (el i) s in
        if sync_loop_exit (o_synced r) (o_limited r) (o_toend r)
        then Some (o_st r, files + o_files r, att ++ o_attempts r)
        else sync_loop_with ck fuel' el (Datatypes.S i) (o_st r) (files + o_files r) (att ++ o_attempts r)
    end.

  Definition sync_fuel (s : ast) : nat :=
    Datatypes.S (Datatypes.S (length (a_pend s) + Z.to_nat (a_file s))).
  Definition sync_with (ck : exec_t) (el : nat -> bool) (s : ast) := sync_loop_with ck (sync_fuel s) el 0 s 0 [].

  Definition sync_once := sync_once_with ck_free'.
  Definition sync_loop := sync_loop_with ck_free'.
  (** no application transaction pinned, nothing busy *)
  Definition sync := sync_with ck_free'.
  (** an application read transaction pinned throughout *)
  Definition sync_pinned := sync_with ck_pinned'.

  (** steps of a history *)
  Inductive step :=
  | Commit (k : Z)                (* the application commits one transaction of k >= 1 frames *)
  | Spill (k : Z)                 (* a write transaction spilled k frames past the committed end of the
                                     WAL (valid salts and checksums, no commit record) and was rolled
                                     back - or is committed by a later [Commit] that counts them.
                                     Frames are seen by the policy only through the file length. *)
  | Sync (el : nat -> bool)       (* litestream Sync *)
  | ProcRestart.                  (* litestream process restarts: syncState is zeroed *)

  Definition app_commit (k : Z) (s : ast) : ast :=
    let live := live_frames s + k in
    mkAst (a_synced s) (a_pend s ++ [k]) (Z.max (a_file s) live) (a_fl s) (a_off s) (a_toend s) (a_first s).

  Definition app_spill (k : Z) (s : ast) : ast :=
    mkAst (a_synced s) (a_pend s) (Z.max (a_file s) (live_frames s + k)) (a_fl s) (a_off s) (a_toend s) (a_first s).

  Definition proc_restart (s : ast) : ast :=
    mkAst (a_synced s) (a_pend s) (a_file s) (mkFlags false false) 0 false (a_first s).

  (** one step; the Z is the number of L0 files it created; [None]: Sync ran out of fuel (never, see Proofs) *)
  Definition do_step (st : step) (s : ast) : option (ast * Z) :=
    match st with
    | Commit k => Some (app_commit k s, 0)
    | Spill k => Some (app_spill k s, 0)
    | Sync el => match sync el s with Some (s', nf, _) => Some (s', nf) | None => None end
    | ProcRestart => Some (proc_restart s, 0)
    end.

  Fixpoint run (h : list step) (s : ast) : option (ast * Z) :=
    match h with
    | [] => Some (s, 0)
    | st :: tl =>
        match do_step st s with
        | Some (s1, n1) => match run tl s1 with Some (s2, n2) => Some (s2, n1 + n2) | None => None end
        | None => None
        end
    end.

  (** a process that has just been started on a database whose WAL holds n0 >= 1
      committed frames (ensureWALExists), none of them synced *)
  Definition init (n0 : Z) : ast := mkAst 0 [n0] n0 (mkFlags false false) 0 false true.
End Machine.
