(** C12 — lock protocol of the daemon's operations (what is proved) — see Conc/Locks.v, Conc/Proofs.v *)
From Coq Require Import List Arith Bool.
From LS Require Import Conc.Locks Conc.Proofs Conc.Registry.
Import ListNotations.

Theorem exec_mutex : forall ps S t u th1 th2,
  checked ps -> reach (start ps) S ->
  nth_error (snd S) t = Some th1 -> nth_error (snd S) u = Some th2 ->
  in_exec_section (pg th1) = true -> in_exec_section (pg th2) = true -> t = u.
Proof. exact exec_mutex_thm. Qed.
Print Assumptions exec_mutex.

Theorem no_checkpoint_between_pos_and_rlock : forall ps S u S',
  checked ps -> reach (start ps) S -> step S u (EAct ACkpt) S' ->
  window (fst S) = None /\ viol (fst S') = false.
Proof. exact no_checkpoint_between_pos_and_rlock_thm. Qed.
Print Assumptions no_checkpoint_between_pos_and_rlock.

Theorem deadlock_free : forall ps S,
  checked ps -> reach (start ps) S -> nonfinal S ->
  exists t e S', step S t e S' /\ is_cancel e = false.
Proof. exact deadlock_free_thm. Qed.
Print Assumptions deadlock_free.

Theorem close_completes_and_releases : forall ps S,
  checked ps -> reach (start ps) S ->
  (always_does ARtxRelease p_close = true /\ always_does AHandlesClose p_close = true) /\
  (forall t S', step S t (EAct ACloseDone) S' ->
      rtx (fst S) = false /\ handles (fst S) = false /\ own (fst S) Exec = Some t) /\
  (forall t e S', step S t e S' -> total (snd S') < total (snd S)) /\
  (exists S', reach (start ps) S' /\ final S').
Proof. exact close_completes_and_releases_thm. Qed.
Print Assumptions close_completes_and_releases.

Theorem register_once : forall ps S,
  checked ps -> reach (start ps) S ->
  ndbs (fst S) <= 1 /\
  ((forall p, In p ps -> no_remove p = true) -> ndbs (fst S) = 1 \/ okret (fst S) = 0).
Proof. exact register_once_thm. Qed.
Print Assumptions register_once.

Theorem operations_obey_discipline : forallb (check h0 gh0) all_progs = true.
Proof. exact all_progs_checked. Qed.
Print Assumptions operations_obey_discipline.

Theorem close_stays_released_after_return_refuted :
  exists S, reach (start [p_close; p_sync]) S /\ final S /\
            rtx (fst S) = true /\ handles (fst S) = true.
Proof. exact close_stays_released_refuted. Qed.
Print Assumptions close_stays_released_after_return_refuted.

Theorem register_once_slice : forall sched l,
  NoDup (map fst l) -> NoDup (map fst (dbs (rrun sched (rinit l)))).
Proof. exact register_once_slice_thm. Qed.
Print Assumptions register_once_slice.

Theorem register_outcome_sound : forall s c,
  match take_pending c (pending s) with
  | Some ((p, i), _) =>
      let s' := rstep s (MSecond c) in
      (has_path p (dbs s) = true -> dbs s' = dbs s /\ In i (closed s') /\ outcomes s' = (c, 2) :: outcomes s) /\
      (has_path p (dbs s) = false -> In (p, i) (dbs s') /\ outcomes s' = (c, 0) :: outcomes s)
  | None => rstep s (MSecond c) = s
  end.
Proof. exact register_outcome_sound_thm. Qed.
Print Assumptions register_outcome_sound.

Theorem lts_traces_accepted : forall ps tr S,
  checked ps -> exec_trace (start ps) tr S ->
  mon_run init_state tr = Some (fst S) /\ viol (fst S) = false /\
  (final S -> trace_ok tr = true).
Proof. exact lts_traces_accepted_thm. Qed.
Print Assumptions lts_traces_accepted.

Theorem monitor_keeps_exclusion : forall s t e s' r u,
  mon_step s t e = Some s' -> own s r = Some u -> own s' r = Some u \/ (own s' r = None /\ u = t).
Proof. exact mon_step_excl. Qed.
Print Assumptions monitor_keeps_exclusion.
