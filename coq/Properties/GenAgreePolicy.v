(** Agreement between the regenerated scalar functions (Gen/Scalar.v) and the
    checkpoint-policy model (Policy/Policy.v).  Protects C13. *)
From Coq Require Import ZArith Bool.
From LS Require Import Gen.Consts Gen.Scalar Gen.AgreePolicy.
From LS Require Policy.Policy.
Local Open Scope Z_scope.

Theorem agree_policy_consts :
  WALHeaderSize = Policy.Policy.WALHeaderSize /\ WALFrameHeaderSize = Policy.Policy.WALFrameHeaderSize /\
  DefaultTruncatePageN = Policy.Policy.DefaultTruncatePageN.
Proof. exact gen_policy_consts. Qed.
Print Assumptions agree_policy_consts.

Theorem agree_policy_calcWALSize : forall ps n, 0 <= n < 4294967296 ->
  calcWALSize ps n = Policy.Policy.calcWALSize ps n.
Proof. exact gen_policy_calcWALSize_eq. Qed.
Print Assumptions agree_policy_calcWALSize.

Theorem agree_policy_effectiveTruncatePageN : forall c,
  DB_effectiveTruncatePageN (Policy.Policy.c_trunc c) = Policy.Policy.effectiveTruncatePageN c.
Proof. exact gen_policy_effectiveTruncatePageN_eq. Qed.
Print Assumptions agree_policy_effectiveTruncatePageN.

Theorem agree_policy_exceedsTruncateThreshold : forall c walSize,
  DB_exceedsTruncateThreshold (Policy.Policy.c_trunc c) (Policy.Policy.c_ps c) walSize =
  Policy.Policy.exceedsTruncateThreshold c walSize.
Proof. exact gen_policy_exceedsTruncateThreshold_eq. Qed.
Print Assumptions agree_policy_exceedsTruncateThreshold.
