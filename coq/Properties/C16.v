(** C16 - follow-mode restore converges and resumes correctly after being killed.
    Model: Follow/Follow.v (mirrors replica.go).  [h] is the primary's list of
    committed transactions (level-0 files), [wf_seg 0 h] says they are
    well-formed and growth-closed (C06), [covers h f lo hi] that replica file [f]
    is content-wise the compaction of TXIDs lo+1..hi. *)
From Coq Require Import List NArith Bool Sorted.
From LS Require Import Base.PMap Follow.Follow Follow.Sem Follow.Hist Follow.Algo Follow.Proofs Follow.Converge Follow.Resume Follow.Examples.

Theorem follow_step : forall (h : list txn), wf_seg 0 h ->
  forall rep : replica, (forall f, In f (rep_files rep) -> exists lo hi, covers h f lo hi) ->
  forall (t : nat) (s : image), (t <= length h)%nat -> img_wf s -> img_eq s (img_at h t) ->
  let r := apply_new_ltx_files rep (mkSt s nil) (N.of_nat t) in
  let st' := fst (fst r) in let new := snd (fst r) in let err := snd r in
  chain_ok (N.of_nat t) (s_applied st') = true /\
  Forall (fun f => In f (rep_files rep)) (s_applied st') /\
  (err = false ->
     exists t', new = N.of_nat t' /\ (t <= t' <= length h)%nat /\
                chain_end (N.of_nat t) (s_applied st') = new /\
                img_eq (s_img st') (img_at h t')).
Proof. exact Proofs.follow_step. Qed.
Print Assumptions follow_step.

Theorem apply_overlap : forall (h : list txn), wf_seg 0 h ->
  forall (f : ltxf) (lo hi t : nat), covers h f lo hi -> (lo <= t <= hi)%nat ->
  img_eq (apply_tx (img_at h t) (f_pages f) (f_commit f)) (img_at h hi).
Proof. exact Hist.apply_overlap. Qed.
Print Assumptions apply_overlap.

Theorem follow_idempotent : forall (h : list txn), wf_seg 0 h ->
  forall (t u : nat) (s : image) (fs : list ltxf),
  (t <= u)%nat -> partial_state h t u s -> fs <> nil -> chainP h t fs u ->
  img_eq (apply_all s fs) (img_at h u).
Proof. exact Hist.follow_idempotent. Qed.
Print Assumptions follow_idempotent.

Theorem follow_converges : forall rep : replica,
  (forall f, In f (rep_files rep) -> f_bad f = 0%N) ->
  (forall lv, In lv (firstn 9 rep) -> StronglySorted by_min lv) ->
  (forall f, In f (rep_level rep 0) -> (f_level f = 0 /\ f_min f <= f_max f)%N) ->
  (forall lv f, In lv (gap_levels_of rep) -> In f lv -> f_level f <> 0%N) ->
  (forall f, In f (rep_files rep) ->
     In f (rep_level rep 0) \/ exists lv, In lv (gap_levels_of rep) /\ In f lv) ->
  forall (t : nat) (U : N) (fs : list ltxf) (fo : follower),
  fo_last fo = N.of_nat t -> fo_sidecar fo = N.of_nat t ->
  Forall (fun f => In f (rep_files rep) /\ (f_level f = 0%N -> f_min f = f_max f)) fs ->
  chain_ok (N.of_nat t) fs = true -> chain_end (N.of_nat t) fs = U ->
  (forall f, In f (rep_files rep) -> (f_max f <= U)%N) ->
  exists n, fo_sidecar (follow_ticks n rep fo) = U.
Proof. exact Converge.follow_converges_chain. Qed.
Print Assumptions follow_converges.

Theorem follow_converges_bound : forall rep : replica,
  (forall f, In f (rep_files rep) -> f_bad f = 0%N) ->
  (forall lv, In lv (firstn 9 rep) -> StronglySorted by_min lv) ->
  (forall f, In f (rep_level rep 0) -> (f_level f = 0 /\ f_min f <= f_max f)%N) ->
  (forall lv f, In lv (gap_levels_of rep) -> In f lv -> f_level f <> 0%N) ->
  (forall f, In f (rep_files rep) ->
     In f (rep_level rep 0) \/ exists lv, In lv (gap_levels_of rep) /\ In f lv) ->
  forall (U : N) (m : nat) (fo : follower),
  fo_last fo = fo_sidecar fo -> (fo_sidecar fo <= U)%N -> N.to_nat (U - fo_sidecar fo)%N = m ->
  (forall f, In f (rep_files rep) -> (f_max f <= U)%N) ->
  (forall c, (fo_sidecar fo <= c < U)%N -> exists f, In f (rep_files rep) /\ usable c f = true) ->
  exists n, (n <= m)%nat /\ fo_sidecar (follow_ticks n rep fo) = U /\ fo_last (follow_ticks n rep fo) = U.
Proof. exact Converge.follow_converges. Qed.
Print Assumptions follow_converges_bound.

Theorem sidecar_never_ahead : forall (h : list txn), wf_seg 0 h ->
  forall rep : replica, (forall f, In f (rep_files rep) -> exists lo hi, covers h f lo hi) ->
  forall fo : follower, fo_inv h fo ->
  let fo' := fst (follow_tick rep fo) in
  fo_inv h fo' /\ (fo_sidecar fo <= fo_sidecar fo')%N.
Proof. exact Proofs.sidecar_never_ahead. Qed.
Print Assumptions sidecar_never_ahead.

Theorem sidecar_state_repairable : forall (h : list txn), wf_seg 0 h ->
  forall (fo : follower) (fs : list ltxf) (k : nat),
  fo_inv h fo -> fo_sidecar fo = N.of_nat k -> fs <> nil -> chainP h k fs (latest h) ->
  img_eq (apply_all (fo_img fo) fs) (img_at h (latest h)).
Proof. exact Proofs.inv_repairable. Qed.
Print Assumptions sidecar_state_repairable.

Theorem kill_keeps_sidecar_invariant : forall (h : list txn), wf_seg 0 h ->
  forall (fo : follower) (f : ltxf) (lo hi : nat) (written : list (N * N)) (truncated : bool),
  fo_inv h fo -> covers h f lo hi -> (fo_sidecar fo <= N.of_nat hi)%N ->
  (forall kv, In kv written -> In kv (f_pages f)) ->
  fo_inv h (mkFo (partial_apply (fo_img fo) f written truncated) (fo_last fo) (fo_sidecar fo)).
Proof. exact Proofs.kill_keeps_inv. Qed.
Print Assumptions kill_keeps_sidecar_invariant.

Theorem resume_accepted : forall (sidecar : N) (snaps : list (N * N)) (rep : replica),
  sidecar <> 0%N ->
  (forall smin smax tl, rev snaps = (smin, smax) :: tl ->
     (smin <= sidecar)%N /\ ((sidecar <= smax)%N \/ exists f, In f (rep_files rep) /\ (sidecar <= f_max f)%N)) ->
  resume_check true sidecar snaps rep = Resume sidecar.
Proof. exact Resume.resume_accepted. Qed.
Print Assumptions resume_accepted.

Theorem resume_refused_beyond_replica : forall (sidecar : N) (snaps : list (N * N)) (rep : replica) smin smax tl,
  rev snaps = (smin, smax) :: tl -> (smin <= sidecar)%N -> (smax < sidecar)%N ->
  (forall f, In f (rep_files rep) -> (f_max f < sidecar)%N) ->
  resume_check true sidecar snaps rep = RefuseAhead.
Proof. exact Resume.resume_refused_beyond_replica. Qed.
Print Assumptions resume_refused_beyond_replica.

Theorem initial_restore_kill_safe : forall (integrity : bool) (partials : list image) (target : image) (t : N)
  (od0 : outdir) (k : nat),
  od_db od0 = None ->
  let od := run_rsteps od0 (firstn k (initial_restore true integrity partials target t)) in
  match od_db od with
  | None => forall snaps rep, restart_decision od snaps rep = Fresh
  | Some im => im = target /\ od_side od = t
  end.
Proof. exact Resume.initial_restore_kill_safe. Qed.
Print Assumptions initial_restore_kill_safe.

Theorem initial_restore_kill_resumable : forall (h : list txn) (integrity : bool) (partials : list image)
  (t' : nat) (od0 : outdir) (k : nat),
  (t' <= length h)%nat -> od_db od0 = None ->
  let od := run_rsteps od0 (firstn k (initial_restore true integrity partials (img_at h t') (N.of_nat t'))) in
  match od_db od with
  | None => forall snaps rep, restart_decision od snaps rep = Fresh
  | Some im => fo_inv h (mkFo im (od_side od) (od_side od))
  end.
Proof. exact Resume.initial_restore_kill_resumable. Qed.
Print Assumptions initial_restore_kill_resumable.

Theorem resume_old_rule_refuted :
  exists (snaps : list (N * N)) (sidecar : N) (rep : replica),
    resume_check_old true sidecar snaps = RefuseAhead /\
    resume_check true sidecar snaps rep = Resume sidecar.
Proof. exact Resume.resume_old_rule_refuted. Qed.
Print Assumptions resume_old_rule_refuted.

Theorem initial_restore_old_order_refuted : forall target t snaps rep,
  let od := run_rsteps (mkOd None None 0%N) (firstn 2 (initial_restore false false nil target t)) in
  od_db od = Some target /\ od_side od = 0%N /\ restart_decision od snaps rep = RefuseNoTxid.
Proof. exact Resume.initial_restore_old_order_refuted. Qed.
Print Assumptions initial_restore_old_order_refuted.

Theorem failed_apply_stops_poll : forall (rep : replica) (fo : follower),
  let r := follow_tick rep fo in
  existsb fails (snd r) = true ->
  fo_last (fst r) = fo_last fo /\ fo_sidecar (fst r) = fo_sidecar fo /\
  exists pre f, snd r = (pre ++ f :: nil)%list /\ fails f = true /\
                forallb (fun g => negb (fails g)) pre = true.
Proof. exact Proofs.failed_apply_stops_poll. Qed.
Print Assumptions failed_apply_stops_poll.

Theorem poll_advances_only_over_applied : forall (rep : replica) (s : image) (after : N),
  let r := apply_new_ltx_files rep (mkSt s nil) after in
  snd r = false ->
  forallb (fun g => negb (fails g)) (s_applied (fst (fst r))) = true /\
  chain_ok after (s_applied (fst (fst r))) = true /\
  snd (fst r) = chain_end after (s_applied (fst (fst r))).
Proof. exact Proofs.poll_advances_only_over_applied. Qed.
Print Assumptions poll_advances_only_over_applied.
