(** C04 — When continuity with the WAL cannot be proven, litestream re-snapshots.

    Model: Db/Verify.v mirrors verifyWithExecutor / lastPageMatch /
    detectFullCheckpoint branch for branch (after the two repairs made in /repo:
    the in-memory cursor is reset by Close, and ResetLocalState re-establishes the
    replica baseline).  Proved about the decision, for all WAL byte strings,
    last-file headers and flags:
    - the first sync is a snapshot from the WAL header;
    - an incremental answer is given ONLY on one of three pieces of evidence
      ([verify_incremental_evidence]); with a fresh in-memory state (new process,
      or a DB object re-opened after Close) evidence (A) is unavailable, so a WAL
      shorter than the cursor always forces a snapshot
      ([verify_truncated_without_flag_snapshots]), and so does an overwritten
      frame before the cursor ([verify_overwritten_prev_frame_snapshots]);
    F2 (repaired in /repo, "fix: snapshot when the WAL was restarted while the
    database was not being replicated"): evidence (C) was not sufficient in a
    session that had not synced yet — when the application restarted the WAL with
    a generation shorter than the old cursor while litestream was away, committed
    frames it had appended to the old generation beyond the cursor were intact in
    the file, verify continued from the new header and they were never replicated
    ([c04_restart_shorter_refuted], byte-exact witness, now a statement about
    [verify_gen false]).  With the repair evidence (C) additionally needs
    lastSyncedWALOffset <> 0, and [verify_fresh_session_salt_change_snapshots]
    holds for every WAL.
    The other disturbances (replaced database file, removed or reset local state,
    database behind replica) are decided by the harness scenarios with the
    restore-equals-source and replica-advances oracles. *)
From Coq Require Import List NArith Bool.
From LS Require Import Base.Bytes Base.PMap Wal.Reader Db.Verify Db.Sync Db.Proofs Db.Witness.
Import ListNotations.
Open Scope N_scope.

Theorem verify_first_sync_snapshots : forall ps last st lo wal fd,
  verify ps 0 last st lo wal fd = VOk (mkInfo WALHeaderSize 0 0 0 true false).
Proof. exact Proofs.verify_first_sync. Qed.
Print Assumptions verify_first_sync_snapshots.

Theorem verify_incremental_evidence : forall ps pos last st lo w fd info,
  verify ps pos last st lo (Some w) fd = VOk info -> i_snap info = false ->
  let off := l_off last + l_size last in
  let wsz := N.of_nat (length w) in
  let saltMatch := N.eqb (be32 w 16) (l_s1 last) && N.eqb (be32 w 20) (l_s2 last) in
  let fsz := ps + WALFrameHeaderSize in
  pos <> 0 /\
  ((wsz < off /\ st = true /\ i_offset info = WALHeaderSize /\ i_clear info = true)
   \/ (off <= wsz /\ saltMatch = true /\ i_offset info = off /\
       (off = WALHeaderSize \/ off - fsz = WALHeaderSize \/
        exists d, fd = Some d /\
          last_page_match last (be32 w (N.to_nat (off - fsz))) (be32 w (N.to_nat (off - fsz) + 8))
                          (be32 w (N.to_nat (off - fsz) + 12)) d = true))
   \/ (off <= wsz /\ saltMatch = false /\ lo <> 0 /\ i_offset info = WALHeaderSize /\
       i_s1 info = be32 w 16 /\ i_s2 info = be32 w 20 /\
       (exists d, fd = Some d /\
          last_page_match last (be32 w (N.to_nat (off - fsz))) (be32 w (N.to_nat (off - fsz) + 8))
                          (be32 w (N.to_nat (off - fsz) + 12)) d = true) /\
       detect_full_checkpoint w (be32 w 16) (be32 w 20) (l_s1 last) (l_s2 last) = Some false)).
Proof. exact Proofs.verify_incremental_evidence_lemma. Qed.
Print Assumptions verify_incremental_evidence.

Theorem verify_truncated_without_flag_snapshots : forall ps pos last w fd,
  pos <> 0 -> N.of_nat (length w) < l_off last + l_size last ->
  forall lo, exists info, verify ps pos last false lo (Some w) fd = VOk info /\ i_snap info = true.
Proof. exact Proofs.verify_truncated_without_flag_snapshots_lemma. Qed.
Print Assumptions verify_truncated_without_flag_snapshots.

Theorem verify_overwritten_prev_frame_snapshots : forall ps pos last st lo w d info,
  verify ps pos last st lo (Some w) (Some d) = VOk info ->
  let off := l_off last + l_size last in
  let fsz := ps + WALFrameHeaderSize in
  off <= N.of_nat (length w) -> WALHeaderSize < off - fsz ->
  last_page_match last (be32 w (N.to_nat (off - fsz))) (be32 w (N.to_nat (off - fsz) + 8))
                  (be32 w (N.to_nat (off - fsz) + 12)) d = false ->
  i_snap info = true.
Proof. exact Proofs.verify_overwritten_prev_frame_snapshots_lemma. Qed.
Print Assumptions verify_overwritten_prev_frame_snapshots.

(** F2 repaired (fix commit in /repo): with a fresh in-memory state - nothing synced
    since this DB object was opened, lastSyncedWALOffset = 0 - a changed header salt
    never lets verify continue incrementally, whatever the WAL holds. *)
Theorem verify_fresh_session_salt_change_snapshots : forall ps pos last st w fd info,
  verify ps pos last st 0 (Some w) fd = VOk info ->
  (N.eqb (be32 w 16) (l_s1 last) && N.eqb (be32 w 20) (l_s2 last)) = false ->
  l_off last + l_size last <= N.of_nat (length w) ->
  i_snap info = true.
Proof. exact Proofs.verify_fresh_session_salt_change_snapshots_lemma. Qed.
Print Assumptions verify_fresh_session_salt_change_snapshots.

(** F2 as it was BEFORE that repair ([verify_gen false] = the decision without the
    fresh-session rule): incremental answer while a committed transaction of the previous
    generation lies, intact and never copied, beyond the cursor *)
Theorem c04_restart_shorter_refuted :
  exists ps pos last w fd info r,
    verify_gen false ps pos last false 0 (Some w) fd = VOk info /\ i_snap info = false /\
    i_offset info = WALHeaderSize /\
    new_reader_with_offset w (l_off last + l_size last) (l_s1 last) (l_s2 last) = OffOk r /\
    pr_map (page_map (wal_frames ps w) r 0) <> [].
Proof. exact Witness.c04_restart_shorter_refuted_lemma. Qed.
Print Assumptions c04_restart_shorter_refuted.

(** * Whole histories with sessions (Db/Machine.v): Close / Open / kill at any point,
      any application activity while litestream is closed

    The machine of C01 (Properties/C01.v) with the steps [LsClose] (read
    transaction released, syncState zeroed: acbcc3c), [LsKill] (the same at any
    control state, without the final sync) and [LsOpen] (read transaction
    re-acquired at the then-current mxFrame / mark 0, syncState stays zero);
    while litestream is closed the environment steps are not constrained by any
    mark.  [verify] has the fresh-session rule of commit 3b58009 (fourth flag)
    and the truncated-WAL rule depends on syncedToWALEnd, which a new session
    starts without.  Deleting the -wal file when the last connection closes is
    not modelled.

    [acked_sync_restores_sessions]: for /repo HEAD (all five flags true) every
    acknowledgement of every session restores exactly the source, for every
    history satisfying [steps_window], which now excludes one interleaving
    only (plus the error exit [LsBumpFail]), REFUTED below with its history:
    - [kill_ok] (F20, model-level, not reproduced on the implementation): the
      death of the process between a post-checkpoint copy that ran over a WAL
      restarted under uncopied frames (the F16 interleaving) and the boundary
      snapshot that follows it ([kill_after_lost_post_copy_refuted]).
    Histories without kill need no side condition (Properties/C01.v).
    Repaired defects as refutations of the earlier rules: F2
    ([reopen_restart_shorter_refuted], freshrule = false) and F18
    ([reopen_catchup_restart_refuted], reachrule = false: the rule of 3b58009
    stopped applying after the first budgeted chunk of a re-opened session). *)
From Coq Require Import Arith.
From LS Require Db.Machine Db.MachineProofs.

Theorem acked_sync_restores_sessions :
  forall (data : Type) (zero : data) (lock : N)
         (s0 : Machine.state data) (ls : list (Machine.label data)) (s : Machine.state data),
  Machine.init_ok data zero lock s0 ->
  Machine.run data lock true true true true true s0 ls = Some s ->
  Machine.steps_ok data lock true true true true true s0 ls ->
  Machine.steps_window data lock true true true true true s0 ls ->
  forall n im b, In (n, im, b) (Machine.acks data s) ->
  Image.img_eq data (Image.restore data zero lock (firstn n (Machine.l0 data s))) im.
Proof. exact MachineProofs.acked_sync_restores_head. Qed.
Print Assumptions acked_sync_restores_sessions.

(** F2, repaired by 3b58009: litestream closed; the application appends a frame,
    checkpoints, restarts the WAL with a generation shorter than the cursor;
    re-open; without the fresh-session rule the sync continues from the new
    header and the next acknowledgement misses the frame *)
Theorem reopen_restart_shorter_refuted :
  exists (s0 : Machine.state N) ls s n im b,
    Machine.init_ok N 0%N 1000%N s0 /\ Machine.run N 1000%N true true true false true s0 ls = Some s /\
    Machine.steps_ok N 1000%N true true true false true s0 ls /\
    In (n, im, b) (Machine.acks N s) /\
    ~ Image.img_eq N (Image.restore N 0%N 1000%N (firstn n (Machine.l0 N s))) im.
Proof. exact MachineProofs.reopen_restart_shorter_refuted. Qed.
Print Assumptions reopen_restart_shorter_refuted.

(** F18, repaired by c55c7c6: the fresh-session rule of 3b58009 alone *)
Theorem reopen_catchup_restart_refuted :
  exists (s0 : Machine.state N) ls s n im b,
    Machine.init_ok N 0%N 1000%N s0 /\ Machine.run N 1000%N true true true true false s0 ls = Some s /\
    Machine.steps_ok N 1000%N true true true true false s0 ls /\
    In (n, im, b) (Machine.acks N s) /\
    ~ Image.img_eq N (Image.restore N 0%N 1000%N (firstn n (Machine.l0 N s))) im.
Proof. exact MachineProofs.reopen_catchup_restart_refuted. Qed.
Print Assumptions reopen_catchup_restart_refuted.

(** /repo HEAD without [steps_window]: the one excluded interleaving (F20) *)
Theorem kill_after_lost_post_copy_refuted :
  exists (s0 : Machine.state N) ls s n im b,
    Machine.init_ok N 0%N 1000%N s0 /\ Machine.run N 1000%N true true true true true s0 ls = Some s /\
    Machine.steps_ok N 1000%N true true true true true s0 ls /\
    In (n, im, b) (Machine.acks N s) /\
    ~ Image.img_eq N (Image.restore N 0%N 1000%N (firstn n (Machine.l0 N s))) im.
Proof. exact MachineProofs.kill_after_lost_post_copy_refuted. Qed.
Print Assumptions kill_after_lost_post_copy_refuted.

(** * /repo HEAD with commit 20b75a5: the process may die at ANY instant

    [kill_ok] is no longer needed: with the copy after a FULL/RESTART checkpoint run as a
    session that has not reached the end of the WAL ([LsPostSync]), a lost cursor never
    sits under level-0 files carrying the live salts ([lost_never_looks_continuous]), so
    whatever instant the process dies at, the next process finds other salts in its last
    file and the fresh-session rule snapshots.  F20 was reproduced on the implementation
    first (a kill injected at the trace point after that copy:
    [OPEN S W W SW LR+ INJX=5 INJP=pt.ckpt.postcopy KILLP=pt.ckpt.postcopied CK-FULL OPEN S SW])
    and the refutation above stays as the theorem about the earlier copy ([LsSync] in that
    control state).  [steps_head]: the run uses the steps of /repo HEAD; no condition on
    the interleaving, on where kills happen, or on which calls fail where. *)
From LS Require Db.MachineFaults.

Theorem acked_sync_restores_sessions_any_kill :
  forall (data : Type) (zero : data) (lock : N)
         (s0 : Machine.state data) (ls : list (Machine.label data)) (s : Machine.state data),
  Machine.init_ok data zero lock s0 ->
  Machine.run data lock true true true true true s0 ls = Some s ->
  Machine.steps_ok data lock true true true true true s0 ls ->
  Machine.steps_head data lock true true true true true s0 ls ->
  forall n im b, In (n, im, b) (Machine.acks data s) ->
  Image.img_eq data (Image.restore data zero lock (firstn n (Machine.l0 data s))) im.
Proof. exact MachineFaults.acked_sync_restores_faults. Qed.
Print Assumptions acked_sync_restores_sessions_any_kill.

Theorem lost_never_looks_continuous :
  forall (data : Type) (zero : data) (lock : N)
         (s0 : Machine.state data) (ls : list (Machine.label data)) (s : Machine.state data),
  Machine.init_ok data zero lock s0 ->
  Machine.run data lock true true true true true s0 ls = Some s ->
  Machine.steps_ok data lock true true true true true s0 ls ->
  Machine.steps_head data lock true true true true true s0 ls ->
  Machine.cur data s = Machine.Lost ->
  Machine.l0 data s = [] \/ (Machine.cgen data s < Machine.gen data s)%nat.
Proof. exact MachineFaults.lost_never_looks_continuous. Qed.
Print Assumptions lost_never_looks_continuous.

(** non-vacuity: the F20 history with the repaired copy — kill included — satisfies the
    hypotheses and restores the source *)
Example kill_history_restores :
  option_map (fun s => (length (Machine.l0 N s), Machine.cur N s,
                        map (fun a => (fst (fst a), snd a)) (Machine.acks N s),
                        map (fst (Image.restore N 0%N 1000%N (Machine.l0 N s))) [1; 2]%N,
                        map (fst (Machine.committed N s)) [1; 2]%N))
             (Machine.run N 1000%N true true true true true MachineProofs.ex_init MachineFaults.kill_fixed_steps)
  = Some (2%nat, Machine.AtLive 1%nat, [(2%nat, true); (1%nat, true)], [99; 55]%N, [99; 55]%N)
  /\ Machine.steps_ok N 1000%N true true true true true MachineProofs.ex_init MachineFaults.kill_fixed_steps
  /\ Machine.steps_head N 1000%N true true true true true MachineProofs.ex_init MachineFaults.kill_fixed_steps.
Proof.
  split; [vm_compute; reflexivity|]. split; [exact MachineFaults.kill_fixed_ok|exact MachineFaults.kill_fixed_head].
Qed.

(** non-vacuity: the F2 history under /repo HEAD satisfies the hypotheses and
    restores the source ([MachineProofs.sess_run]) *)
Example sessions_example :
  forall s, Machine.run N 1000%N true true true true true MachineProofs.ex_init MachineProofs.sess_steps = Some s ->
  forall n im b, In (n, im, b) (Machine.acks N s) ->
  Image.img_eq N (Image.restore N 0%N 1000%N (firstn n (Machine.l0 N s))) im.
Proof.
  intros s E. eapply MachineProofs.acked_sync_restores_head;
    [exact MachineProofs.ex_init_ok|exact E|exact MachineProofs.sess_steps_ok|exact MachineProofs.sess_steps_window].
Qed.

(** * The machine's control flow is the control flow of the current source

    (regenerated skeleton of checkpointWithExecutor and execCheckpoint, see Properties/C01.v and
    Db/Skeleton.v: the whole-history theorems of this file are about the same machine) *)
From LS Require Gen.Skeleton Db.Skeleton.

Theorem checkpoint_skeleton_agrees :
  Gen.Skeleton.skel_checkpointWithExecutor = Db.Skeleton.expected_checkpointWithExecutor
  /\ Gen.Skeleton.skel_execCheckpoint = Db.Skeleton.expected_execCheckpoint.
Proof. split; reflexivity. Qed.
Print Assumptions checkpoint_skeleton_agrees.

(** the decision procedure itself, regenerated from db.go on every run: the order of its tests, the
    calls that decide continuity, every assignment to the result and to the sync state, the guards on
    syncedToWALEnd / reachedWALEnd / the cursor position (reading guide in Db/Skeleton.v) *)
Theorem verify_skeleton_agrees :
  Gen.Skeleton.skel_verifyWithExecutor = Db.Skeleton.expected_verifyWithExecutor.
Proof. reflexivity. Qed.
Print Assumptions verify_skeleton_agrees.

Theorem sync_state_reset_sites_agree :
  Gen.Skeleton.sync_state_reset_sites = Db.Skeleton.expected_sync_state_reset_sites.
Proof. reflexivity. Qed.
Print Assumptions sync_state_reset_sites_agree.

(** * Refinement of the byte-level decision to the machine's (Db/VerifyRefine.v)

    [Db.Verify.verify] — the byte-level model of verifyWithExecutor that is compared with db.go
    on every observed sync step — takes on EVERY input the decision of [Machine.verify], the
    function the whole-history theorems above are about, on every machine state that abstracts
    the input: the -wal file is a 32-byte header plus whole frames, salts become generation
    ids through a map injective on the salts that occur, byte offsets become frame counts.
    The last hypothesis is the assumption about SQLite under which the machine models
    lastPageMatch by its salt comparison: a slot in front of the cursor that carries the last
    file's salts is the frame that file copied.  (Before this theorem the two functions were
    only compared on observed states: entry machine_verify_agrees, still evaluated on every
    run.) *)
From LS Require Db.MachineEntry Db.VerifyRefine.

Theorem verify_refines_machine :
  forall (data : Type) (ps : N) (hd : list N) (frames : list (list N))
         (gam : N * N -> nat) (ids : list (N * N)) (pos : N) (last : Verify.l0hdr)
         (toEnd : bool) (reachedN : N) (fdig : option N) (s : Machine.state data),
    let w := hd ++ concat frames in
    length hd = 32%nat ->
    Forall (fun f => length f = N.to_nat (Reader.frame_size ps)) frames ->
    (forall p q, In p ids -> In q ids -> gam p = gam q -> p = q) ->
    In (Bytes.be32 w 16, Bytes.be32 w 20) ids ->
    In (Verify.l_s1 last, Verify.l_s2 last) ids ->
    Forall (fun f => In (VerifyRefine.fsalts f) ids) frames ->
    map fst (Machine.phys data s) = map (fun f => gam (VerifyRefine.fsalts f)) frames ->
    Machine.gen data s = gam (Bytes.be32 w 16, Bytes.be32 w 20) ->
    Machine.cgen data s = gam (Verify.l_s1 last, Verify.l_s2 last) ->
    N.eqb pos 0 = match Machine.l0 data s with nil => true | _ :: _ => false end ->
    (Verify.l_off last + Verify.l_size last =
     32 + Reader.frame_size ps * N.of_nat (Machine.cfo data s))%N ->
    Machine.flag data s = toEnd ->
    Machine.reached data s = negb (N.eqb reachedN 0) ->
    (forall r, Reader.read_header w = Reader.HdrOk r -> Reader.r_ps r = ps) ->
    (forall f fd,
        nth_error frames (Machine.cfo data s - 1) = Some f ->
        VerifyRefine.fsalts f = (Verify.l_s1 last, Verify.l_s2 last) -> fdig = Some fd ->
        existsb (fun pd => N.eqb (Bytes.be32 f 0) (fst pd) && N.eqb fd (snd pd))
                (Verify.l_pages last) = true) ->
    forall info,
      Verify.verify ps pos last toEnd reachedN (Some w) fdig = Verify.VOk info ->
      MachineEntry.verify_code pos last info =
      MachineEntry.vans_code (Machine.verify data true true s).
Proof. exact VerifyRefine.verify_refines_machine_lemma. Qed.
Print Assumptions verify_refines_machine.

(** the abstraction the entry machine_verify_agrees computes meets the injectivity hypothesis *)
Theorem verify_refinement_entry_abstraction_injective :
  forall (ids : list (N * N)) p q,
    In p ids -> In q ids -> MachineEntry.gen_id ids p = MachineEntry.gen_id ids q -> p = q.
Proof. exact VerifyRefine.gen_id_injective. Qed.
Print Assumptions verify_refinement_entry_abstraction_injective.

(** after any reset of the sync state (Close/Open, a new process, ResetLocalState since a3c8cc9 —
    entry machine_reset compares the implementation's state after every reset of the harness with the
    zero state) the only incremental answer is "same generation, from the cursor, frame in front of the
    cursor recognised", whatever baseline the level-0 chain was cut back to *)
Theorem verify_after_reset_incremental_only_same_generation : forall ps pos last w fd info,
  verify ps pos last false 0 (Some w) fd = VOk info -> i_snap info = false ->
  let off := l_off last + l_size last in
  let fsz := ps + WALFrameHeaderSize in
  off <= N.of_nat (length w) /\
  N.eqb (be32 w 16) (l_s1 last) && N.eqb (be32 w 20) (l_s2 last) = true /\
  i_offset info = off /\
  (off = WALHeaderSize \/ off - fsz = WALHeaderSize \/
   exists d, fd = Some d /\
     last_page_match last (be32 w (N.to_nat (off - fsz))) (be32 w (N.to_nat (off - fsz) + 8))
                     (be32 w (N.to_nat (off - fsz) + 12)) d = true).
Proof. exact VerifyRefine.verify_fresh_incremental_only_same_generation_lemma. Qed.
Print Assumptions verify_after_reset_incremental_only_same_generation.
