(** C14 — Litestream never alters the application's data in the source database.

    [Gen.Stmts] / [Gen.FsSites] are regenerated from /repo by tools/gen at the
    start of every check: the sweeps below are about the statements and file
    sites of the CURRENT source.  The exported DB.Checkpoint(ctx, mode) takes a
    caller-supplied string; mode ∈ {PASSIVE, FULL, RESTART, TRUNCATE} is the
    stated precondition on external callers ([external_modes_safe]).
    Assumed, not proved: SQLite implements the recognised statements as
    documented (validated against a real SQLite by the statement replay and the
    differential replay of the correspondence run). *)
From Coq Require Import String List Bool ZArith.
From LS Require Import Gen.Stmts Gen.FsSites Gen.TxSites Stmts.Model Stmts.Proofs Stmts.Lock.
Import ListNotations.

(** every SQL text reaching a database handle in package litestream and
    cmd/litestream — each template with every constant reaching its hole — is
    one of the recognised statements *)
Theorem all_stmts_safe : forallb (stmt_safe hole holes) stmts = true.
Proof. exact all_stmts_safe_lemma. Qed.
Print Assumptions all_stmts_safe.

Theorem external_modes_safe : forallb (template_external_safe hole external_sites) stmts = true.
Proof. exact external_modes_safe_lemma. Qed.
Print Assumptions external_modes_safe.

(** connection strings carry only busy_timeout and wal_autocheckpoint(0) *)
Theorem all_dsns_safe : forallb dsn_ok dsns = true.
Proof. exact all_dsns_safe_lemma. Qed.
Print Assumptions all_dsns_safe.

(** executing any recognised statement on ANY abstract database leaves every
    table not named _litestream_* and every schema entry of user objects
    unchanged; the journal mode stays wal (becomes wal for journal_mode=wal) *)
Theorem safe_preserves_user_view : forall c d,
  user_tables (exec_class c d) = user_tables d /\
  user_schema (exec_class c d) = user_schema d /\
  (journal d = JWal \/ c = CJournalWal -> journal (exec_class c d) = JWal).
Proof. exact safe_preserves_user_view_lemma. Qed.
Print Assumptions safe_preserves_user_view.

(** ... and so does every sequence of them, of any length *)
Theorem safe_run_preserves_user_view : forall cs d,
  user_tables (exec_all cs d) = user_tables d /\
  user_schema (exec_all cs d) = user_schema d /\
  (journal d = JWal -> journal (exec_all cs d) = JWal).
Proof. exact safe_run_preserves_user_view_lemma. Qed.
Print Assumptions safe_run_preserves_user_view.

Theorem init_sequence_wal : forall cs d, journal (exec_all (CJournalWal :: cs) d) = JWal.
Proof. exact init_sequence_wal_lemma. Qed.
Print Assumptions init_sequence_wal.

(** regenerated from the source: every BeginTx result is guarded by a deferred
    rollback (or stored in an owning field / an already guarded variable) with
    no unguarded early return in between; no transaction variable is cleared
    without a rollback; no transaction is committed.  This discharges, for the
    current source, the placement of the deferred rollbacks assumed by the
    control-flow model of [lock_always_rolled_back]. *)
Theorem tx_release_discipline :
  forallb tx_site_ok tx_sites = true /\ nil_list tx_nil_without_release = true /\ nil_list tx_commits = true.
Proof. exact tx_release_discipline_lemma. Qed.
Print Assumptions tx_release_discipline.

(** checkpointWithExecutor, any mode, any outcome of each of its 23 fallible
    steps, any lock table: nothing is left open, the committed content of
    _litestream_lock is unchanged, every insert is rolled back before return,
    nothing is committed *)
Theorem lock_always_rolled_back : forall mode o n,
  let s' := checkpoint_with_executor mode o (mkSt n [] []) in
  open s' = [] /\ committed s' = n /\ inserts_rolled_back (trace s') = true /\ no_commit (trace s') = true.
Proof. exact lock_always_rolled_back_lemma. Qed.
Print Assumptions lock_always_rolled_back.

Theorem lock_empty_at_every_quiescent_point : forall calls,
  Forall (fun n => n = 0) (run_calls calls 0).
Proof. exact lock_empty_at_every_quiescent_point_lemma. Qed.
Print Assumptions lock_empty_at_every_quiescent_point.

(** the database file and its WAL are only ever opened read-only by
    litestream's own file calls; every other written name is a ".tmp" sibling
    that is renamed into place, except the declared in-place writers
    ([Model.in_place_sites]: follow mode, hydrator, VFS temp/buffer files) *)
Theorem db_file_readonly : forallb site_ok sites = true.
Proof. exact db_file_readonly_lemma. Qed.
Print Assumptions db_file_readonly.
