(** C02 — Every replicated TXID is one consistent committed state; TXIDs are monotone.

    Proved: whatever the byte budget (MaxSyncWALBytes), whatever the WAL bytes and
    whatever the reader position, the page map one sync turns into an LTX file is
    the latest-version-per-page of a run of WHOLE transactions (a prefix of the
    valid frames ending at a commit frame), trimmed to that commit's size; a
    limited read stops exactly after a commit frame; frames of open or rolled-back
    transactions never enter it (with C09's pagemap_uncommitted_tail_ignored).
    Views compose ([view_compose]), so a TXID built from consecutive chunks is the
    committed state at its last commit frame, and later TXIDs are later states.
    REFUTED (F9, known finding): a level-9 snapshot bounded in the WAL at an
    earlier position is not that position's state once the database file has
    been backfilled beyond it.
    PARTIAL: TXID allocation (pos+1, atomic rename) and gapless level 0 are
    checked on the implementation (every listed TXID restored twice and compared),
    not stated as theorems. *)
From Coq Require Import List NArith Bool.
From LS Require Import Base.Bytes Base.PMap Wal.Reader Wal.Proofs Db.Image Db.Proofs.
Require LS.Db.Bridge.
Import ListNotations.
Open Scope N_scope.

Theorem chunk_cut_at_commit : forall fs r maxb,
  let vp := ls_valid_prefix (r_bo r) (r_s1 r) (r_s2 r) (r_c1 r, r_c2 r)
                            (skipn (N.to_nat (r_frameN r)) fs) in
  let p := page_map fs r maxb in
  exists n,
    (n <= length vp)%nat /\
    let chunk := firstn (fst (mxr (firstn n vp))) vp in
    (pr_limited p = true -> fst (mxr (firstn n vp)) = n /\ (0 < n)%nat) /\
    (forall pg, pm_get pg (pr_map p) =
       if N.leb pg (snd (mxr (firstn n vp))) then
         option_map (off_of (foff r) (frame_size (r_ps r))) (lastr pg chunk)
       else None) /\
    (pr_map p <> [] -> pr_commit p = snd (mxr (firstn n vp))).
Proof. exact Proofs.chunk_cut_at_commit_lemma. Qed.
Print Assumptions chunk_cut_at_commit.

(** ... and the page IMAGES sync reads at those offsets (24-byte frame header
    skipped) are the abstract chunk's pages [Image.chunk_page] — the bridge from
    the byte-level reader to the abstract file semantics used by
    [sync_incremental_correct]: the last image of each page within the chunk of
    whole transactions, nothing above the chunk's final commit size. *)
Theorem sync_pages_are_chunk_pages : forall fs r maxb,
  let vf := LS.Db.Bridge.ls_valid_frames (r_bo r) (r_s1 r) (r_s2 r) (r_c1 r, r_c2 r)
                            (skipn (N.to_nat (r_frameN r)) fs) in
  let p := page_map fs r maxb in
  exists n,
    (n <= length vf)%nat /\
    let chunk := firstn (fst (mxr (map LS.Db.Bridge.key_of (firstn n vf)))) vf in
    (pr_limited p = true -> fst (mxr (map LS.Db.Bridge.key_of (firstn n vf))) = n /\ (0 < n)%nat) /\
    (pr_map p <> [] ->
       pr_commit p = last_commit (list N) 0 (map LS.Db.Bridge.frame_of_bytes chunk)) /\
    (forall pg,
       option_map (LS.Db.Bridge.data_at fs (r_ps r)) (pm_get pg (pr_map p)) =
       chunk_page (list N) (map LS.Db.Bridge.frame_of_bytes chunk) (snd (mxr (map LS.Db.Bridge.key_of (firstn n vf)))) pg).
Proof. exact LS.Db.Bridge.sync_pages_are_chunk_pages_lemma. Qed.
Print Assumptions sync_pages_are_chunk_pages.

(** the committed state after two consecutive chunks is the state after the first, advanced by the second *)
Theorem view_compose : forall (data : Type) im (a b : list (frame data)) pg,
  fst (view data (view data im a) b) pg = fst (view data im (a ++ b)) pg /\
  snd (view data (view data im a) b) = snd (view data im (a ++ b)).
Proof. exact Image.view_compose_lemma. Qed.
Print Assumptions view_compose.

Theorem snapshot_between_chunks_refuted : forall (data : Type) (zero : data) (d1 d2 : data),
  d1 <> d2 ->
  exists lock dbf dbsize wal k j any,
    (k < j)%nat /\
    let bounded := firstn k wal in
    ~ img_eq data (apply data zero lock any (ltx_snapshot data lock (backfill data dbf wal j) dbsize bounded))
             (view data (dbf, dbsize) bounded).
Proof. exact Image.snapshot_bounded_before_backfill_refuted. Qed.
Print Assumptions snapshot_between_chunks_refuted.

(** * Snapshots over whole histories (Db/Machine.v, Db/MachineSnap.v)

    The machine of C01/C04 with the steps [LsSnapPos] (snapshotPosition under
    the executor: position := number of level-0 files, walEndOffset :=
    snapshotWALEndOffset; chkMu read-locked, so litestream's own checkpoints
    are skipped until the read) and [LsSnapRead] (content := database file as
    it is + the live generation's frames up to walEndOffset), with arbitrary
    environment steps and syncs in between, in any session, for any of the
    control flows, and — since the continuation session — with EVERY error exit
    of the checkpoint protocol ([LsFail], any control state; [LsBumpFail] is the
    earlier special case), the death of the process at any instant ([LsKill]),
    the strict post-checkpoint copy ([LsPostSync]) and checkpoint PRAGMAs that
    come back busy ([LsCkpt] below the end, [LsCkptBusy]): the invariant step
    [MachineSnap.sinv_step] covers all labels.

    [snapshot_matches_position]: the content of every snapshot read equals the
    restore of the level-0 chain at the position it advertises, for histories
    satisfying [steps_snap].  For /repo HEAD ([LsSnapPos true], [LsSnapRead
    true]) that is two side conditions at the two snapshot steps, each REFUTED
    below when dropped:
    - the advertised position lies in the live WAL generation and no generation
      was lost under it ([snapshot_position_not_live_refuted]: a position in
      another generation reads the database file only, which is wrong when the
      file is ahead; before snapshotWALEndOffset compared salts also F9b,
      [snapshot_after_failed_bump_refuted]);
    - the database file is not backfilled beyond the position (F9,
      [snapshot_between_chunks_after_offline_backfill_refuted]).
    A WAL restart between capturing the position and the end of the read makes
    the read fail (482a715, a637c7e: no snapshot is produced); for the reader
    before those commits ([LsSnapRead false]) it is a third side condition and
    F19 ([snapshot_restart_between_refuted]). *)
From Coq Require Import Arith.
From LS Require Db.Machine Db.MachineSnapProofs Db.MachineProofs.

Theorem snapshot_matches_position :
  forall (data : Type) (zero : data) (lock : N) (midcheck postcopy recheck freshrule reachrule : bool)
         (s0 : Machine.state data) (ls : list (Machine.label data)) (s : Machine.state data),
  Machine.init_ok data zero lock s0 ->
  Machine.run data lock midcheck postcopy recheck freshrule reachrule s0 ls = Some s ->
  Machine.steps_ok data lock midcheck postcopy recheck freshrule reachrule s0 ls ->
  Machine.steps_snap data lock midcheck postcopy recheck freshrule reachrule s0 ls ->
  forall p im, In (p, im) (Machine.snaps data s) ->
  Image.img_eq data (Image.restore data zero lock (firstn p (Machine.l0 data s))) im.
Proof. exact MachineSnapProofs.snapshot_matches_position_lemma. Qed.
Print Assumptions snapshot_matches_position.

Theorem snapshot_position_not_live_refuted :
  exists (s0 : Machine.state N) ls s p im,
    Machine.init_ok N 0%N 1000%N s0 /\ Machine.run N 1000%N true true true true true s0 ls = Some s /\
    Machine.steps_ok N 1000%N true true true true true s0 ls /\
    In (p, im) (Machine.snaps N s) /\
    ~ Image.img_eq N (Image.restore N 0%N 1000%N (firstn p (Machine.l0 N s))) im.
Proof. exact MachineSnapProofs.snapshot_position_not_live_refuted. Qed.
Print Assumptions snapshot_position_not_live_refuted.

Theorem snapshot_restart_between_refuted :
  exists (s0 : Machine.state N) ls s p im,
    Machine.init_ok N 0%N 1000%N s0 /\ Machine.run N 1000%N true true true true true s0 ls = Some s /\
    Machine.steps_ok N 1000%N true true true true true s0 ls /\
    In (p, im) (Machine.snaps N s) /\
    ~ Image.img_eq N (Image.restore N 0%N 1000%N (firstn p (Machine.l0 N s))) im.
Proof. exact MachineSnapProofs.snapshot_restart_between_refuted. Qed.
Print Assumptions snapshot_restart_between_refuted.

(** F9 *)
Theorem snapshot_between_chunks_after_offline_backfill_refuted :
  exists (s0 : Machine.state N) ls s p im,
    Machine.init_ok N 0%N 1000%N s0 /\ Machine.run N 1000%N true true true true true s0 ls = Some s /\
    Machine.steps_ok N 1000%N true true true true true s0 ls /\
    In (p, im) (Machine.snaps N s) /\
    ~ Image.img_eq N (Image.restore N 0%N 1000%N (firstn p (Machine.l0 N s))) im.
Proof. exact MachineSnapProofs.snapshot_between_chunks_after_offline_backfill_refuted. Qed.
Print Assumptions snapshot_between_chunks_after_offline_backfill_refuted.

(** F9b (snapshotWALEndOffset before it compared salts: [LsSnapPos false]) *)
Theorem snapshot_after_failed_bump_refuted :
  exists (s0 : Machine.state N) ls s p im,
    Machine.init_ok N 0%N 1000%N s0 /\ Machine.run N 1000%N true true true true true s0 ls = Some s /\
    Machine.steps_ok N 1000%N true true true true true s0 ls /\
    In (p, im) (Machine.snaps N s) /\
    ~ Image.img_eq N (Image.restore N 0%N 1000%N (firstn p (Machine.l0 N s))) im.
Proof. exact MachineSnapProofs.snapshot_after_failed_bump_refuted. Qed.
Print Assumptions snapshot_after_failed_bump_refuted.

(** non-vacuity: [MachineSnapProofs.snap_run] - a snapshot whose read comes after
    an application commit, a partial application checkpoint and a further sync *)
Example snapshot_example :
  forall s, Machine.run N 1000%N true true true true true MachineProofs.ex_init MachineSnapProofs.snap_steps = Some s ->
  forall p im, In (p, im) (Machine.snaps N s) ->
  Image.img_eq N (Image.restore N 0%N 1000%N (firstn p (Machine.l0 N s))) im.
Proof.
  intros s E. eapply MachineSnapProofs.snapshot_matches_position_lemma;
    [exact MachineProofs.ex_init_ok|exact E|exact MachineSnapProofs.snap_steps_ok|exact MachineSnapProofs.snap_steps_snap].
Qed.

(** * The machine's control flow is the control flow of the current source

    (regenerated skeleton of checkpointWithExecutor and execCheckpoint, see Properties/C01.v and
    Db/Skeleton.v: the whole-history theorems of this file are about the same machine) *)
From LS Require Gen.Skeleton Db.Skeleton.

Theorem checkpoint_skeleton_agrees :
  Gen.Skeleton.skel_checkpointWithExecutor = Db.Skeleton.expected_checkpointWithExecutor
  /\ Gen.Skeleton.skel_execCheckpoint = Db.Skeleton.expected_execCheckpoint.
Proof. split; reflexivity. Qed.
Print Assumptions checkpoint_skeleton_agrees.

(** * The read phase of a snapshot against a WAL that can be restarted under it (Db/SnapRead.v)

    Between building the page map and reading the pages any sequence of writer steps may happen
    (litestream's read mark 0 does not stop a restart).  The header comparison of /repo commit 482a715 is
    sufficient for every such sequence; comparing only the LAST frame of the range is not (seed C02f;
    the scripts snapshot-during-restart are this witness on the real code). *)
From LS Require Db.SnapRead.

Theorem snapshot_header_recheck_sound : forall (data : Type) (ss : list (SnapRead.wstep data)) (w : SnapRead.wal data) (n : nat),
  SnapRead.wf data w -> (n <= SnapRead.live data w)%nat ->
  SnapRead.hdr data (SnapRead.run data w ss) = SnapRead.hdr data w ->
  firstn n (SnapRead.slots data (SnapRead.run data w ss)) = firstn n (SnapRead.slots data w) /\
  (n <= SnapRead.live data (SnapRead.run data w ss))%nat.
Proof. exact SnapRead.header_recheck_sound_lemma. Qed.
Print Assumptions snapshot_header_recheck_sound.

Theorem snapshot_last_frame_recheck_refuted :
  exists (w : SnapRead.wal nat) (ss : list (SnapRead.wstep nat)) (n : nat),
    SnapRead.wf nat w /\ (n <= SnapRead.live nat w)%nat /\
    SnapRead.last_frame_check nat w (SnapRead.run nat w ss) n = true /\
    firstn n (SnapRead.slots nat (SnapRead.run nat w ss)) <> firstn n (SnapRead.slots nat w).
Proof. exact SnapRead.last_frame_recheck_refuted_lemma. Qed.
Print Assumptions snapshot_last_frame_recheck_refuted.

(** the read phase as regenerated from db.go on every run (reading guide in Db/Skeleton.v) *)
From LS Require Gen.Skeleton Db.Skeleton.
Theorem snapshot_reader_skeleton_agrees :
  Gen.Skeleton.skel_snapshotReader = Db.Skeleton.expected_snapshotReader.
Proof. reflexivity. Qed.
Print Assumptions snapshot_reader_skeleton_agrees.
