(** C07 — Retention never deletes what the latest restore needs.
    Model: Store/Ops.v (DB.EnforceSnapshotRetention, Compactor.EnforceRetentionByTXID,
    DB.EnforceL0RetentionByTime, Store.EnforceSnapshotRetention's cascade, Compactor.Compact,
    Store.CompactDB, DB.Snapshot, with the position cache and RetentionEnabled).
    Planner: Plan/Planner.v (CalcRestorePlan), proved sound and complete for C08.
    [hist_ok] restricts histories only in this: levels are in range (1..8, snapshot level 9
    for CompactDB) and a DIRECT call of EnforceRetentionByTXID uses a floor not above the
    newest snapshot's MaxTXID (Store.EnforceSnapshotRetention's cascade always does; without
    it the property is false: [retention_arbitrary_floor_refuted]).  File stamps, thresholds,
    scheduling times and the order of operations are arbitrary. *)
From Coq Require Import List NArith.
From LS Require Import Plan.Planner Plan.Spec Store.Files Store.Ops Store.Inv Store.RetentionProofs Store.PlanProofs Store.Proofs.
Import ListNotations.
Open Scope N_scope.

(** RInv (iii)-(v) [RetentionProofs.RInv] holds after every step and (i) the planner returns a
    plan that ends at the newest L0 TXID *)
Theorem retention_safe : forall ret nlv ops,
  nlv <= 8 -> hist_ok (init_state ret nlv) ops ->
  let st := run (init_state ret nlv) ops in
  RInv st /\
  (0 < st_pos st -> exists p, calc_restore_plan (listing_of (st_rep st)) 0 0 = POk p /\ chain_end p = st_pos st).
Proof. exact Proofs.retention_safe. Qed.
Print Assumptions retention_safe.

(** (ii) if a snapshot ever existed one still does *)
Theorem snapshot_survives : forall ret nlv ops1 ops2,
  nlv <= 8 -> hist_ok (init_state ret nlv) (ops1 ++ ops2) ->
  st_rep (run (init_state ret nlv) ops1) SnapshotLevel <> [] ->
  st_rep (run (init_state ret nlv) (ops1 ++ ops2)) SnapshotLevel <> [].
Proof. exact Proofs.snapshot_survives. Qed.
Print Assumptions snapshot_survives.

(** (iii) the surviving L0 files are one run of single-TXID files ending at the newest;
    (v) every deleted L0 TXID is covered by a surviving L1 file or lies at or below the
    newest snapshot's MaxTXID *)
Theorem l0_run_and_cover : forall st, RInv st ->
  exists a, runP a (st_rep st 0) /\ a + N.of_nat (length (st_rep st 0)) = st_pos st /\
            (st_pos st = 0 \/ st_rep st 0 <> []) /\
            forall k, 1 <= k <= a ->
              (exists f, In f (st_rep st 1) /\ s_min f <= k <= s_max f) \/ k <= snapS st.
Proof. exact Proofs.l0_run_and_cover. Qed.
Print Assumptions l0_run_and_cover.

(** (iv): L1 contiguous above the newest snapshot; all levels sorted, non-overlapping, within
    1..pos, max(L) <= max(L-1).  PARTIAL: contiguity above the floor is not proved for levels >= 2
    (see Store/Proofs.v); (i)-(iii) and (v) do not depend on it. *)
Theorem retention_levels_partial : forall st, RInv st ->
  chainP (snapS st) 0 (st_rep st 1) /\
  forall L, 1 <= L <= 8 ->
    incrP 0 (st_rep st L) /\ (forall f, In f (st_rep st L) -> s_max f <= st_pos st) /\
    lmax (st_rep st L) <= lmax (st_rep st (L - 1)).
Proof. exact Proofs.retention_levels_partial. Qed.
Print Assumptions retention_levels_partial.

(** (i) for any state satisfying the invariant *)
Theorem rinv_latest_restorable : forall st, RInv st -> 0 < st_pos st ->
  exists p, calc_restore_plan (listing_of (st_rep st)) 0 0 = POk p /\ chain_end p = st_pos st.
Proof. exact PlanProofs.rinv_plan. Qed.
Print Assumptions rinv_latest_restorable.

(** boundary of [hist_ok]: a direct TXID retention above every snapshot breaks the property *)
Theorem retention_arbitrary_floor_refuted :
  exists ops, let st := run (init_state true 1) ops in
    0 < st_pos st /\ calc_restore_plan (listing_of (st_rep st)) 0 0 = PErr ETxNotAvailable.
Proof. exact Proofs.retention_arbitrary_floor_refuted. Qed.
Print Assumptions retention_arbitrary_floor_refuted.
