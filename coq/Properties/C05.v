(** C05 — Transient storage failures never leave gaps or false acknowledgements. *)
From Coq Require Import List NArith Bool.
From LS Require Import Faults.Upload Faults.Proofs.
Import ListNotations.
Local Open Scope N_scope.

(** Whenever sync (any batch limit) or the bounded retry returns nil — under ANY
    fault schedule, from any state reachable by any history — the position has
    reached the local max and every local level-0 TXID at or below it (and not
    below the retention floor) is stored remotely. *)
Theorem no_false_ack : forall fl st, reach fl st ->
  (forall maxf s, let r := sync maxf st s in
     s_err r = E_NIL ->
     maxl (u_local st) <= u_pos (s_st r) /\
     forall t, In t (u_local st) -> fl <= t -> t <= u_pos (s_st r) -> In t (u_remote (s_st r))) /\
  (forall attempts s, let r := sync_retry attempts st s [] E_CLIENT in
     s_err r = E_NIL ->
     maxl (u_local st) <= u_pos (s_st r) /\
     forall t, In t (u_local st) -> fl <= t -> t <= u_pos (s_st r) -> In t (u_remote (s_st r))).
Proof. exact Proofs.no_false_ack. Qed.
Print Assumptions no_false_ack.

(** In every reachable state and after every single client call of any sync or
    retry, the remote level-0 TXIDs form one contiguous run up to their max. *)
Theorem l0_gapless : forall fl st, reach fl st ->
  gapless (u_remote st) /\
  (forall maxf s, Forall (fun c => gapless (c_after c)) (s_trace (sync maxf st s))) /\
  (forall attempts s, Forall (fun c => gapless (c_after c)) (s_trace (sync_retry attempts st s [] E_CLIENT))).
Proof. exact Proofs.l0_gapless. Qed.
Print Assumptions l0_gapless.

(** A cached (non-zero) position equals the remote max. *)
Theorem pos_truthful : forall fl st, reach fl st -> u_pos st <> 0 -> u_pos st = maxl (u_remote st).
Proof. exact Proofs.pos_truthful. Qed.
Print Assumptions pos_truthful.

(** After the last fault, one sync makes the replica hold exactly the TXIDs
    from the retention floor up to the local max. *)
Theorem catch_up : forall fl st, reach fl st ->
  maxl (u_local st) <> 0 ->
  (forall t, maxl (u_remote st) < t <= maxl (u_local st) -> In t (u_local st)) ->
  let r := sync 0 st [] in
  s_err r = E_NIL /\
  u_pos (s_st r) = N.max (maxl (u_remote st)) (maxl (u_local st)) /\
  (forall t, In t (u_remote (s_st r)) <-> fl <= t <= N.max (maxl (u_remote st)) (maxl (u_local st))).
Proof. exact Proofs.catch_up. Qed.
Print Assumptions catch_up.
