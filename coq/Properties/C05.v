(** C05 — Transient storage failures never leave gaps or false acknowledgements. *)
From Coq Require Import List NArith Bool.
From LS Require Import Faults.Resumable Faults.Upload Faults.Compact Faults.Behind Faults.UProofs Faults.Proofs.
Import ListNotations.
Local Open Scope N_scope.

(** Whenever sync (any batch limit) or the bounded retry returns nil — under ANY
    fault schedule, from any state reachable by any history — the position has
    reached the local max and every local level-0 TXID at or below it (and not
    below the retention floor) is stored remotely. *)
Theorem no_false_ack : forall fl st, reach fl st ->
  (forall maxf s, let r := sync maxf st s in
     s_err r = E_NIL ->
     maxl (u_local st) <= u_pos (s_st r) /\
     forall t, In t (u_local st) -> fl <= t -> t <= u_pos (s_st r) -> In t (u_remote (s_st r))) /\
  (forall attempts s, let r := sync_retry attempts st s [] E_CLIENT in
     s_err r = E_NIL ->
     maxl (u_local st) <= u_pos (s_st r) /\
     forall t, In t (u_local st) -> fl <= t -> t <= u_pos (s_st r) -> In t (u_remote (s_st r))).
Proof. exact Proofs.no_false_ack. Qed.
Print Assumptions no_false_ack.

(** In every reachable state and after every single client call of any sync or
    retry, the remote level-0 TXIDs form one contiguous run up to their max. *)
Theorem l0_gapless : forall fl st, reach fl st ->
  gapless (u_remote st) /\
  (forall maxf s, Forall (fun c => gapless (c_after c)) (s_trace (sync maxf st s))) /\
  (forall attempts s, Forall (fun c => gapless (c_after c)) (s_trace (sync_retry attempts st s [] E_CLIENT))).
Proof. exact Proofs.l0_gapless. Qed.
Print Assumptions l0_gapless.

(** A cached (non-zero) position equals the remote max. *)
(** A snapshot (level 9) is uploaded independently of the level-0 files and may be AHEAD of
    the replica's level 0; whatever snapshots appear and whenever (in particular right
    before a fault makes Replica.sync recompute its position), every sync returns the same
    error class, position and client calls and leaves the same level-0 set as without them
    ([HSnap] steps change nothing the upload path reads).  Seed C05d: calcPos taking the
    maximum over levels 0 and 9. *)
Theorem snapshots_never_move_the_position : forall hs st,
  hist_run st (filter (fun h => negb (is_snap h)) hs) = hist_run st hs.
Proof. exact Proofs.snapshots_ignored. Qed.
Print Assumptions snapshots_never_move_the_position.

Theorem pos_truthful : forall fl st, reach fl st -> u_pos st <> 0 -> u_pos st = maxl (u_remote st).
Proof. exact Proofs.pos_truthful. Qed.
Print Assumptions pos_truthful.

(** After the last fault, one sync makes the replica hold exactly the TXIDs
    from the retention floor up to the local max. *)
Theorem catch_up : forall fl st, reach fl st ->
  maxl (u_local st) <> 0 ->
  (forall t, maxl (u_remote st) < t <= maxl (u_local st) -> In t (u_local st)) ->
  let r := sync 0 st [] in
  s_err r = E_NIL /\
  u_pos (s_st r) = N.max (maxl (u_remote st)) (maxl (u_local st)) /\
  (forall t, In t (u_remote (s_st r)) <-> fl <= t <= N.max (maxl (u_remote st)) (maxl (u_local st))).
Proof. exact Proofs.catch_up. Qed.
Print Assumptions catch_up.

(** The compaction pipe, for every schedule of source-read faults (any number,
    below or beyond the resumable reader's budget, not-exist, premature EOF) and
    every outcome of the write call: nothing but the complete merge of completely
    read, verified sources is ever published under the destination name; an
    error leaves the cache untouched (and the level too, unless the write took
    effect and then failed — with the complete object); a failed source read
    makes the writer close with the error and publishes nothing.  The merge, the
    input verification and the bytes written before a failure are abstract. *)
Theorem compact_no_partial_publish : forall (B : Type) (merge : list (list B) -> list B)
    (verified : list B -> bool) (partial : list (option (list B)) -> list B)
    (stored : csrc -> list B) (chunk : nat) srcs wo st,
  Forall (fun s => (0 < length (stored s))%nat) srcs ->
  let '(r, st') := compact merge verified partial stored chunk srcs wo st in
  let mn := span_min srcs in
  let mx := span_max srcs in
  (forall f, In f (c_dst st') ->
     In f (c_dst st) \/
     (f = mkCF mn mx (merge (map stored srcs)) /\ all_read_ok verified stored chunk srcs /\ (wo = Ok \/ wo = FailAfter))) /\
  (r = COk -> In (mkCF mn mx (merge (map stored srcs))) (c_dst st') /\ c_cache st' = Some (mn, mx) /\ wo = Ok) /\
  (r <> COk -> c_cache st' = c_cache st /\ (c_dst st' = c_dst st \/ wo = FailAfter)) /\
  ((exists s, In s srcs /\ (cs_open_fail s = true \/ src_read stored chunk s = None \/
                           exists d, src_read stored chunk s = Some d /\ verified d = false)) ->
     r <> COk /\ c_dst st' = c_dst st /\ c_cache st' = c_cache st).
Proof. exact Proofs.compact_no_partial_publish. Qed.
Print Assumptions compact_no_partial_publish.

(** Histories that start with a (re)open in ANY local state (in step, meta
    directory lost, older database file, newest local file lost): an acknowledged
    SyncAndWait — under any fault schedule, including faults on the calls made by
    init's checkDatabaseBehindReplica — means local and remote positions are
    EQUAL, all local files above the retention floor are stored, the remote
    level 0 is one run after every client call.  [sized]: whether the replica's
    listing reports object sizes. *)
Theorem ack_means_in_sync : forall sized fl b s la, breach sized fl b ->
  maxl (local_after_init sized b s) <= maxl la ->
  let '(b', o) := sync_wait sized b s la in
  so_err o = E_NIL ->
  so_pos o = maxl (u_remote (b_u b')) /\ maxl (u_remote (b_u b')) = maxl la /\ u_local (b_u b') = la /\
  (forall t, In t la -> fl <= t -> In t (u_remote (b_u b'))) /\
  gapless (u_remote (b_u b')) /\ Forall (fun c => gapless (c_after c)) (so_trace o).
Proof. exact Proofs.ack_means_in_sync. Qed.
Print Assumptions ack_means_in_sync.

(** A failed first client call of init (the level-0 listing) always surfaces as
    an error of SyncAndWait and leaves init to be retried. *)
Theorem init_listing_error_propagates : forall sized b s la o0,
  b_init b = false -> b_corrupt b = false ->
  s = o0 :: nil \/ (exists tl, s = o0 :: tl) -> o0 <> Ok ->
  so_err (snd (sync_wait sized b s la)) = E_CLIENT /\ b_init (fst (sync_wait sized b s la)) = false.
Proof. exact Proofs.init_listing_error_propagates. Qed.
Print Assumptions init_listing_error_propagates.

(** With sizes in the listing (fix 086c0cc) a short read of the fetched baseline
    file is an error: nothing is published locally and init is retried. *)
Theorem baseline_short_read_is_error : forall b k tl la,
  b_init b = false -> b_corrupt b = false ->
  maxl (u_remote (b_u b)) <> 0 -> maxl (u_local (b_u b)) < maxl (u_remote (b_u b)) ->
  let r := sync_wait true b (Ok :: ShortRead k :: tl) la in
  so_err (snd r) = E_CLIENT /\ b_init (fst r) = false /\ b_corrupt (fst r) = false /\ u_local (b_u (fst r)) = [].
Proof. exact Proofs.baseline_short_read_is_error. Qed.
Print Assumptions baseline_short_read_is_error.

(** ... so the "corrupt local baseline" state is unreachable, for every history
    and every fault schedule. *)
Theorem never_corrupt : forall fl b, breach true fl b -> b_corrupt b = false.
Proof. exact Proofs.never_corrupt. Qed.
Print Assumptions never_corrupt.

(** Once faults have stopped, the next SyncAndWait after a (re)open succeeds —
    after EVERY history of fault schedules, with no exception. *)
Theorem catch_up_after_reopen : forall fl b la, breach true fl b ->
  maxl la <> 0 ->
  (forall t, maxl (u_remote (b_u b)) < t <= maxl la -> In t la) ->
  so_err (snd (sync_wait true b [] la)) = E_NIL.
Proof. exact Proofs.catch_up_after_reopen. Qed.
Print Assumptions catch_up_after_reopen.

(** The repaired defect (fixed by 086c0cc), as a statement about a client whose
    listing reports Size 0 (no length check = the behaviour before the fix): a
    short read of the baseline is published locally and every later SyncAndWait
    fails, faults or not. *)
Theorem catch_up_after_short_baseline_read_refuted :
  exists fl b, breach false fl b /\
    forall la, so_err (snd (sync_wait false b [] la)) <> E_NIL /\ fst (sync_wait false b [] la) = b.
Proof. exact BProofs.catch_up_after_short_baseline_read_refuted. Qed.
Print Assumptions catch_up_after_short_baseline_read_refuted.
