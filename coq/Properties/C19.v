(** C19 — Legacy 0.3.x backups restore to the right state or fail.
    Statements only; proofs are in V3/Proofs.v. *)
From Coq Require Import List NArith Bool Sorted.
From LS Require Import V3.Restore V3.Spec V3.Proofs.
Import ListNotations.
Open Scope N_scope.

(** an accepted plan: consecutive WAL indices from the snapshot's, each file an
    offset-contiguous prefix starting with its own 0-offset segment, all eligible
    segments used in order *)
Theorem v3_plan_contiguous : forall (si : N) (segs : list seg) (plan : list walfile),
  apply_segs si segs = inr plan ->
  map fst plan = seqN si (length plan) /\ Forall wal_ok plan /\ flat_map snd plan = segs.
Proof. exact v3_plan_contiguous_thm. Qed.
Print Assumptions v3_plan_contiguous.

Theorem v3_restore_plan_contiguous : forall l T s plan,
  restore_v3 l T = V3Ok s plan ->
  map fst plan = seqN (sn_idx s) (length plan) /\ Forall wal_ok plan /\
  flat_map snd plan = filter_segs (segs_of l (sn_gen s)) (sn_idx s) T.
Proof. exact restore_v3_plan_contiguous. Qed.
Print Assumptions v3_restore_plan_contiguous.

Theorem v3_index_gap_errors : forall (si : N) (pre : list seg) (s : seg) (post : list seg),
  sg_off s = 0 -> sg_idx s <> si + starts pre ->
  exists e, apply_segs si (pre ++ s :: post) = inl e.
Proof. exact v3_index_gap_errors_thm. Qed.
Print Assumptions v3_index_gap_errors.

Theorem v3_offset_gap_errors : forall (si : N) (pre : list seg) (s : seg) (post : list seg),
  sg_off s <> 0 -> sg_off s <> run_bytes pre 0 ->
  exists e, apply_segs si (pre ++ s :: post) = inl e.
Proof. exact v3_offset_gap_errors_thm. Qed.
Print Assumptions v3_offset_gap_errors.

Theorem v3_best_snapshot : forall (l : layout) (T : N),
  match best_snapshot l T with
  | Some s => In s (collect l) /\ eligibleP T s /\
              forall s', In s' (collect l) -> eligibleP T s' -> sn_created s' <= sn_created s
  | None => forall s', In s' (collect l) -> ~ eligibleP T s'
  end.
Proof. exact v3_best_snapshot_thm. Qed.
Print Assumptions v3_best_snapshot.

Theorem v3_restore_uses_best_snapshot : forall l T,
  match restore_v3 l T with
  | V3NoSnapshots => best_snapshot l T = None
  | V3Err s _ | V3Ok s _ => best_snapshot l T = Some s
  end.
Proof. exact restore_v3_snapshot. Qed.
Print Assumptions v3_restore_uses_best_snapshot.

(** no spurious failure: gap-free eligible segments are accepted *)
Theorem v3_gap_free_accepted : forall truelen si segs,
  gap_free truelen segs None si = true -> exists plan, apply_segs si segs = inr plan.
Proof. exact v3_gap_free_restores. Qed.
Print Assumptions v3_gap_free_accepted.

(** (since 842e1af) the files of an accepted plan are index-uniform; a continuation of another index fails *)
Theorem v3_plan_uniform : forall (si : N) (segs : list seg) (plan : list walfile),
  apply_segs si segs = inr plan -> forallb file_uniform plan = true.
Proof. exact v3_plan_uniform_thm. Qed.
Print Assumptions v3_plan_uniform.

Theorem v3_foreign_continuation_errors : forall (si : N) (pre : list seg) (s : seg) (post : list seg),
  sg_off s <> 0 -> sg_idx s + 1 <> si + starts pre ->
  exists e, apply_segs si (pre ++ s :: post) = inl e.
Proof. exact v3_foreign_continuation_errors_thm. Qed.
Print Assumptions v3_foreign_continuation_errors.

(** "accepted => gap-free" holds under the one side condition the listing cannot establish
    (non-final WAL files have their true length) ... *)
Theorem v3_accepted_gap_free_partial : forall truelen si segs plan,
  apply_segs si segs = inr plan ->
  nonfinal_complete truelen plan ->
  gap_free truelen segs None si = true.
Proof. exact v3_ok_gap_free_partial. Qed.
Print Assumptions v3_accepted_gap_free_partial.

(** ... and is false without it: F8 (trailing segment of a non-final index lost) *)
Theorem v3_trailing_segment_loss_refuted :
  exists (full lost : layout) (truelen : N -> N) (s : snap) (plan : list walfile),
    gap_free truelen (filter (seg_eligible (sn_idx s) 0) (segs_of full (sn_gen s))) None (sn_idx s) = true /\
    (exists plan0, restore_v3 full 0 = V3Ok s plan0) /\
    lost = [mkGen (g_snaps (nth 0 full (mkGen [] [])))
                  (filter (fun x => negb ((sg_idx x =? 0) && (sg_off x =? 100))) (g_segs (nth 0 full (mkGen [] []))))] /\
    gap_free truelen (filter (seg_eligible (sn_idx s) 0) (segs_of lost (sn_gen s))) None (sn_idx s) = false /\
    restore_v3 lost 0 = V3Ok s plan /\ map fst plan = [0; 1].
Proof. exact v3_trailing_segment_loss_refuted_thm. Qed.
Print Assumptions v3_trailing_segment_loss_refuted.

Theorem v3_arbitration : forall (l : layout) (x : ltxside) (T : N),
  Forall (fun t => 0 < t) (v3_times l) -> Forall (fun t => 0 < t) (ltx_times x) ->
  StronglySorted N.le (lx_snaps x) ->
  (v3_times l = [] -> should_use_v3 l x T = false) /\
  (v3_times l <> [] -> ltx_times x = [] -> should_use_v3 l x T = true) /\
  (v3_times l <> [] -> ltx_times x <> [] -> T = 0 ->
     (should_use_v3 l x T = true <-> exists t, In t (v3_times l) /\ forall t', In t' (ltx_times x) -> t' < t)) /\
  (v3_times l <> [] -> ltx_times x <> [] -> T <> 0 ->
     (should_use_v3 l x T = true <->
      exists s, In s (collect l) /\ sn_created s <= T /\
                forall c, In c (lx_snaps x) -> c < T -> c < sn_created s)).
Proof. exact v3_arbitration_thm. Qed.
Print Assumptions v3_arbitration.

(** the arbitration picks the format holding the more recent eligible backup (Spec.arb_spec) *)
Theorem v3_arbitration_spec : forall (l : layout) (x : ltxside) (T : N),
  Forall (fun t => 0 < t) (v3_times l) -> Forall (fun t => 0 < t) (ltx_times x) ->
  StronglySorted N.le (lx_snaps x) ->
  should_use_v3 l x T = arb_spec l x T.
Proof. exact v3_arbitration_spec_thm. Qed.
Print Assumptions v3_arbitration_spec.

(** * Downloads that fail on the legacy path (V3/Faults.v): the segment loop of applyWALSegmentsV3
      with the bytes it writes.  Tie to the code: harness v3 injects a read error after k bytes of the
      stream of every object of the fault-free plan and cuts the stored objects short at many
      offsets; entry v3_fault_ok demands an error with nothing at the output path or the fault-free
      database. *)
From LS Require V3.Faults.

Theorem v3_read_error_fails : forall si (segs : list (seg * Faults.dl)),
  Exists (fun p => Faults.d_err (snd p) = true) segs ->
  exists e, Faults.apply_segs_dl si segs = inl e.
Proof. exact Faults.v3_read_error_fails_lemma. Qed.
Print Assumptions v3_read_error_fails.

Theorem v3_complete_downloads_follow_plan : forall si (segs : list (seg * Faults.dl)),
  List.forallb Faults.complete segs = true ->
  Faults.erase (Faults.apply_segs_dl si segs) = apply_segs si (map fst segs).
Proof. exact Faults.v3_complete_downloads_follow_plan_lemma. Qed.
Print Assumptions v3_complete_downloads_follow_plan.

Theorem v3_short_download_before_continuation_errors :
  forall (pre : list (seg * Faults.dl)) (s : seg) (d : Faults.dl) (s' : seg) (d' : Faults.dl)
         (post : list (seg * Faults.dl)) expected offset cur done expected' offset' cur' done',
  (forall rest, Faults.apply_dl (pre ++ (s, d) :: rest) expected offset cur done =
                Faults.apply_dl ((s, d) :: rest) expected' offset' cur' done') ->
  Faults.d_err d = false -> (Faults.dlen d < sg_size s)%N ->
  N.eqb (sg_off s) 0 = true -> N.eqb (sg_idx s) expected' = true ->
  sg_off s' = sg_size s -> sg_off s' <> 0%N ->
  Faults.apply_dl (pre ++ (s, d) :: (s', d') :: post) expected offset cur done = inl ErrSegment.
Proof. exact Faults.v3_short_download_before_continuation_errors_lemma. Qed.
Print Assumptions v3_short_download_before_continuation_errors.

(** the loop alone does not notice a cleanly ended short stream at the END of the listing (the
    decompressed stream has no length of its own); on the real code the LZ4 frame reader of the
    replica client rejects every cut of a stored object (checked by the harness) *)
Theorem v3_short_last_download_accepted_by_loop :
  exists si (segs : list (seg * Faults.dl)) plan,
    Faults.apply_segs_dl si segs = inr plan /\ List.forallb Faults.complete segs = false /\
    Forall (fun p => Faults.d_err (snd p) = false) segs.
Proof. exact Faults.v3_short_last_download_accepted_lemma. Qed.
Print Assumptions v3_short_last_download_accepted_by_loop.
