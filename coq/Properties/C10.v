(** C10 — Restore fails loudly rather than produce a wrong or partial database. *)
From Coq Require Import List NArith Arith Bool.
From LS Require Import Faults.Resumable Faults.Restore Faults.Proofs.
Import ListNotations.

(** For EVERY outcome schedule of the underlying storage and every sequence of
    buffer sizes, what ResumableReader hands to its caller is a prefix of the
    stored object; EOF with a known size means at least [size] bytes, i.e. the
    whole object when [size] is its length. *)
Theorem rr_prefix : forall (A : Type) (file : list A) (size : nat) (opened : bool)
    (sched : list outcome) (plens : list nat) calls st,
  rr_calls file size plens (rr_init opened) sched = (calls, st) ->
  concat (map fst calls) = firstn (r_off st) file /\ r_off st <= length file /\
  (forall pre c post, calls = pre ++ c :: post -> snd c = EEOF -> 0 < size ->
     let d := concat (map fst (pre ++ [c])) in
     d = firstn (length d) file /\ size <= length d /\ (size = length file -> d = file)).
Proof. exact Proofs.rr_prefix. Qed.
Print Assumptions rr_prefix.

(** More than [rr_budget] (= 3) failed attempts: a sticky error, every later
    Read returns no bytes and that error; never a silent short stream. *)
Theorem rr_budget : forall (A : Type) (file : list A) (size : nat) (opened : bool)
    (sched : list outcome) (plens : list nat) calls st,
  rr_calls file size plens (rr_init opened) sched = (calls, st) ->
  (r_err st = Some EMax <-> Resumable.rr_budget < r_retry st) /\
  (r_err st = None \/ r_err st = Some EMax) /\
  (forall pre c post, calls = pre ++ c :: post -> snd c = EMax ->
     Forall (fun c' => c' = ([], EMax)) post) /\
  Forall (fun c => snd c <> EFuel) calls.
Proof. exact Proofs.rr_budget. Qed.
Print Assumptions rr_budget.

(** Restore = Ok img: the output did not exist, every plan file had at least a
    header's size, was read to EOF through its resumable reader (the bytes are
    the stored object when the listed size is its length), passed the decoder's
    structure and CRC check, the chain starts at TXID 1 and is contiguous, and
    img is the decoded merge of exactly those bytes; a requested integrity check
    passed.  CRC-64 [H], the split into hashed body / trailer checksum, the
    parser and the page merge are abstract parameters. *)
Theorem restore_ok_implies_verified : forall (B : Type) (H : list B -> N) (body : list B -> list B)
    (cks : list B -> N) (parse_ok : list B -> bool) (hdr_min hdr_max : list B -> N)
    (image : list (list B) -> list B) (stored : pinfo -> option (list B))
    (sched : pinfo -> list outcome) (chunk : nat)
    out_exists plan integ integ_res cancelled img ops,
  restore H body cks parse_ok hdr_min hdr_max image stored sched chunk out_exists plan integ integ_res cancelled = (ROk img, ops) ->
  out_exists = false /\
  exists fs bs, plan = Some fs /\ fs <> [] /\
    Forall (fun f => ltx_header_size <= p_size f) fs /\
    Forall2 (fetched stored) fs bs /\
    Forall (fun d => verified H body cks parse_ok d = true) bs /\
    chain_ok hdr_min hdr_max bs = true /\
    img = image bs /\
    (integ = true -> integ_res img = IOk).
Proof. exact Proofs.restore_ok_implies_verified. Qed.
Print Assumptions restore_ok_implies_verified.

(** A damaged plan file that the hash tells apart from the original (per-pair
    hypothesis [H (body b') <> H (body b)], or damage to the checksum field
    itself) makes Restore fail. *)
Theorem restore_corruption : forall (B : Type) (H : list B -> N) (body : list B -> list B)
    (cks : list B -> N) (parse_ok : list B -> bool) (hdr_min hdr_max : list B -> N)
    (image : list (list B) -> list B) (stored : pinfo -> option (list B))
    (sched : pinfo -> list outcome) (chunk : nat)
    plan fs integ integ_res cancelled f b b',
  plan = Some fs -> In f fs -> verified H body cks parse_ok b = true ->
  stored f = Some b' -> p_size f = length b' ->
  (cks b' = cks b /\ H (body b') <> H (body b)) \/ (body b' = body b /\ cks b' <> cks b) ->
  exists e ops, restore H body cks parse_ok hdr_min hdr_max image stored sched chunk false plan integ integ_res cancelled = (RErr e, ops).
Proof. exact Proofs.restore_corruption. Qed.
Print Assumptions restore_corruption.

(** A missing plan file, or one whose stored bytes fail the decoder's check, makes Restore fail. *)
Theorem restore_detects : forall (B : Type) (H : list B -> N) (body : list B -> list B)
    (cks : list B -> N) (parse_ok : list B -> bool) (hdr_min hdr_max : list B -> N)
    (image : list (list B) -> list B) (stored : pinfo -> option (list B))
    (sched : pinfo -> list outcome) (chunk : nat)
    plan fs integ integ_res cancelled f,
  plan = Some fs -> In f fs ->
  (stored f = None \/ exists b', stored f = Some b' /\ p_size f = length b' /\ verified H body cks parse_ok b' = false) ->
  exists e ops, restore H body cks parse_ok hdr_min hdr_max image stored sched chunk false plan integ integ_res cancelled = (RErr e, ops).
Proof. exact Proofs.restore_detects. Qed.
Print Assumptions restore_detects.

(** Output discipline, for all inputs, read-fault schedules, all three outcomes
    of the integrity check (ok / corruption reported as rows / the statement
    itself fails) and a cancelled or live context. *)
Theorem restore_output_discipline : forall (B : Type) (H : list B -> N) (body : list B -> list B)
    (cks : list B -> N) (parse_ok : list B -> bool) (hdr_min hdr_max : list B -> N)
    (image : list (list B) -> list B) (stored : pinfo -> option (list B))
    (sched : pinfo -> list outcome) (chunk : nat)
    out_exists plan integ (integ_res : list B -> ires) cancelled,
  let '(res, ops) := restore H body cks parse_ok hdr_min hdr_max image stored sched chunk out_exists plan integ integ_res cancelled in
  let fsf := fs_run (fs_init out_exists) ops in
  f_bad fsf = false /\ ~ In OpenOutForWrite ops /\
  (out_exists = true -> ops = [StatOut] /\ (exists e, res = RErr e) /\ f_out fsf = Some false) /\
  (out_exists = false ->
     match res with
     | ROk _ => f_out fsf = Some true /\ f_tmp fsf = TAbsent
     | RErr _ => f_tmp fsf = TAbsent /\
                 (cancelled = false -> f_out fsf = None /\ f_side fsf = false) /\
                 (f_out fsf = None \/ f_out fsf = Some true)
     end) /\
  obs_ok out_exists cancelled (match res with ROk _ => 0%N | RErr _ => 1%N end)
         (match f_out fsf with Some _ => true | None => false end)
         (match f_tmp fsf with TAbsent => false | _ => true end)
         (match f_out fsf with Some true => true | _ => false end)
         (match f_out fsf with Some false => true | _ => false end)
         (f_side fsf) = true.
Proof. exact Proofs.restore_output_discipline. Qed.
Print Assumptions restore_output_discipline.

(** Whichever way the integrity check fails (rows or statement error), with a
    live context the output, -shm and -wal are removed. *)
Theorem restore_integrity_failure_removes_output : forall (B : Type) (H : list B -> N) (body : list B -> list B)
    (cks : list B -> N) (parse_ok : list B -> bool) (hdr_min hdr_max : list B -> N)
    (image : list (list B) -> list B) (stored : pinfo -> option (list B))
    (sched : pinfo -> list outcome) (chunk : nat)
    out_exists plan integ (integ_res : list B -> ires) ops,
  restore H body cks parse_ok hdr_min hdr_max image stored sched chunk out_exists plan integ integ_res false = (RErr R_INTEG, ops) ->
  let fsf := fs_run (fs_init out_exists) ops in
  In RemoveOut ops /\ In RemoveShm ops /\ In RemoveWal ops /\
  f_out fsf = None /\ f_tmp fsf = TAbsent /\ f_side fsf = false.
Proof. exact Proofs.restore_integrity_failure_removes_output. Qed.
Print Assumptions restore_integrity_failure_removes_output.

(** Finding F7 (known finding C10/ltx-decoder-close-panics-...): the decoder's
    Close panics instead of returning an error exactly when fewer than 8 bytes
    follow the page-block end marker. *)
Theorem decoder_close_never_panics_refuted :
  exists remaining, decoder_close_hashed_len remaining = None.
Proof. exact ResProofs.decoder_close_never_panics_refuted. Qed.
Print Assumptions decoder_close_never_panics_refuted.

Theorem decoder_close_panic_window : forall remaining,
  decoder_close_hashed_len remaining = None <-> remaining < ltx_checksum_size.
Proof. exact ResProofs.decoder_close_panic_window. Qed.
Print Assumptions decoder_close_panic_window.

(** ---- Codec layer: the LTX byte layout (coq/Codec/Format.v, Codec.v) --------
    [encode] / [decode] model ltx.Encoder / ltx.Decoder on bytes.  LZ4
    ([compress], [decompress], old-format [frame_decode]) and
    [cks] = ChecksumFlag|CRC-64 are parameters; the only fact assumed about them
    is the LZ4 round trip, and only where stated. *)
From LS Require Import Codec.Format Codec.Codec.
From LS Require Codec.RoundTrip Codec.TruncProofs Codec.Proofs.

(** Round trip on bytes: every file the encoder accepts decodes to itself —
    any number of pages, every page size. *)
Theorem decode_encode : forall (compress : list N -> list N) (decompress : list N -> list N -> option (list N))
    (frame_decode : nat -> list N -> option (list N * nat)) (cks : list N -> N),
  (forall d buf, length buf = length d -> decompress (compress d) buf = Some d) ->
  forall f, wf compress cks f -> decode decompress frame_decode cks (encode compress cks f) = DOk f.
Proof. exact LS.Codec.RoundTrip.decode_encode. Qed.
Print Assumptions decode_encode.

(** Every proper prefix of an encoded file is rejected: with an error, except
    for the 8 lengths right after the zero page header, where Decoder.Close
    panics — finding F7 (C10/ltx-decoder-close-panics-...) stated on bytes. *)
Theorem truncation_detected : forall (compress : list N -> list N) (decompress : list N -> list N -> option (list N))
    (frame_decode : nat -> list N -> option (list N * nat)) (cks : list N -> N),
  (forall d buf, length buf = length d -> decompress (compress d) buf = Some d) ->
  forall f (k : nat), wf compress cks f -> (k < length (encode compress cks f))%nat ->
  if (Nat.leb (end_off compress f) k) && (Nat.ltb k (end_off compress f + 8)%nat)
  then decode decompress frame_decode cks (firstn k (encode compress cks f)) = DPanic
  else exists e, decode decompress frame_decode cks (firstn k (encode compress cks f)) = DErr e.
Proof. exact LS.Codec.TruncProofs.truncation_detected. Qed.
Print Assumptions truncation_detected.

(** Damage modulo the hash, with NO assumption on LZ4: whatever bytes the decoder
    is given instead of [encode f] — a single changed byte or anything else —
    it returns an error, panics, or returns exactly [f], unless the checksum of
    a hashed stream DIFFERENT from [stream f] equals the 8 bytes it is compared
    with (per-input hypothesis).  The stream holds the UNCOMPRESSED page data:
    a flip inside a compressed block that LZ4 decodes to the same bytes leaves
    stream and file unchanged, anything else changes the stream
    (Codec/Proofs.v frame_step_any_block). *)
Theorem flip_detected_modulo_hash : forall (compress : list N -> list N) (decompress : list N -> list N -> option (list N))
    (frame_decode : nat -> list N -> option (list N * nat)) (cks : list N -> N) f b',
  wf compress cks f ->
  (forall t', LS.Codec.Proofs.parse_only decompress frame_decode b' = DOk t' ->
     LS.Codec.Proofs.tstream t' <> stream compress f -> cks (LS.Codec.Proofs.tstream t') <> t_fcks t') ->
  decode decompress frame_decode cks b' = DOk f \/
  (exists e, decode decompress frame_decode cks b' = DErr e) \/
  decode decompress frame_decode cks b' = DPanic.
Proof. exact LS.Codec.Proofs.flip_detected_modulo_hash. Qed.
Print Assumptions flip_detected_modulo_hash.

(** Faults/Restore.v's abstract [H], [body], [cks], [parse_ok] instantiated by the codec:
    [verified] holds exactly for the inputs the byte-level decoder accepts. *)
Theorem codec_instantiates_restore : forall (decompress : list N -> list N -> option (list N))
    (frame_decode : nat -> list N -> option (list N * nat)) (cks : list N -> N) b,
  verified cks (LS.Codec.Proofs.codec_body decompress frame_decode)
           (LS.Codec.Proofs.codec_fcks decompress frame_decode)
           (LS.Codec.Proofs.codec_parse_ok decompress frame_decode cks) b = true <->
  exists t, decode_full decompress frame_decode cks b = DOk t.
Proof. exact LS.Codec.Proofs.codec_instantiates_restore. Qed.
Print Assumptions codec_instantiates_restore.

(** * Staging files start empty (regenerated site list [Gen.FsSites])

    [restore_output_discipline] models the creation of <output>.tmp as os.Create.  This
    sweep ties that to the CURRENT source: every site that opens a staging path tmp(...)
    for writing creates it with os.Create or passes O_TRUNC, so a longer file left under
    that name by a killed earlier run cannot leave its tail in what is renamed into place. *)
From LS Require Gen.FsSites Stmts.Model Stmts.Proofs.

Theorem staging_files_start_empty :
  forallb Stmts.Model.staging_open_ok Gen.FsSites.sites = true.
Proof. exact Stmts.Proofs.staging_files_start_empty_lemma. Qed.
Print Assumptions staging_files_start_empty.

(** * The legacy (v0.3.x) restore path under download faults (V3/Faults.v; tie: harness v3 -faultonly,
      oracle v3_fault_ok): a read error in any segment download makes applyWALSegmentsV3 fail, so
      RestoreV3 returns the error and its deferred removal of the staging file leaves nothing at the
      output path; with complete downloads the loop is exactly the planner C19's theorems are about. *)
From LS Require V3.Restore V3.Faults.

Theorem legacy_read_error_fails : forall si (segs : list (Restore.seg * Faults.dl)),
  Exists (fun p => Faults.d_err (snd p) = true) segs ->
  exists e, Faults.apply_segs_dl si segs = inl e.
Proof. exact Faults.v3_read_error_fails_lemma. Qed.
Print Assumptions legacy_read_error_fails.

Theorem legacy_complete_downloads_follow_plan : forall si (segs : list (Restore.seg * Faults.dl)),
  List.forallb Faults.complete segs = true ->
  Faults.erase (Faults.apply_segs_dl si segs) = Restore.apply_segs si (map fst segs).
Proof. exact Faults.v3_complete_downloads_follow_plan_lemma. Qed.
Print Assumptions legacy_complete_downloads_follow_plan.
