(** C01 — An acknowledged sync restores to exactly the source database.

    What is proved here (Db/Image.v), for every page-content type, every list of
    committed WAL frames, every chunking of it, every database file:
    - SQLite's view of "database file + committed frames" ([view]) is unchanged
      by checkpoint backfill ([backfill_preserves_view]);
    - one incremental sync file (WAL pages + growth fill) applied to the
      previous image yields the view after the chunk ([sync_incremental_correct]),
      under the explicit growth hypothesis the growth fill relies on;
    - a snapshot file yields the view whatever came before, also when the
      database file has meanwhile been backfilled from the very frames read
      ([sync_snapshot_correct], [sync_snapshot_correct_backfilled]);
    - by induction over any number of syncs of one WAL generation, restoring the
      level-0 chain (snapshot, then incremental files) equals SQLite's view of
      everything copied ([acked_sync_restores_partial]).
    PARTIAL: the statement over whole histories — checkpoints by litestream
    (copy/seal/checkpoint/bump/re-copy), WAL restarts, Close/Open — is not closed
    as one theorem; those steps are tied to the code by the per-step
    correspondence (Db/Verify.v, Db/Sync.v vs db.go on every observed sync) and
    by the restore-equals-source oracle at every acknowledged instant.  That
    chunks are whole transactions is C02's [chunk_cut_at_commit]; that the page
    map is SQLite's recovery is C09. *)
From Coq Require Import List NArith Bool.
From LS Require Import Db.Image.
Import ListNotations.
Open Scope N_scope.

Theorem backfill_preserves_view : forall (data : Type) d sz (fs : list (frame data)) j pg,
  fst (view data (backfill data d fs j, sz) fs) pg = fst (view data (d, sz) fs) pg.
Proof. exact Image.backfill_preserves_view. Qed.
Print Assumptions backfill_preserves_view.

Theorem sync_incremental_correct : forall (data : Type) (zero : data) lock base synced chunk dbf,
  let before := view data base synced in
  let after := view data base (synced ++ chunk) in
  (forall pg, snd before < pg -> pg <= snd after -> pg <> lock ->
              last_data data pg chunk = None -> dbf pg = fst after pg) ->
  fst after lock = zero ->
  img_eq data (apply data zero lock before (ltx_incremental data lock dbf (snd before) chunk)) after.
Proof. exact Image.sync_incremental_correct. Qed.
Print Assumptions sync_incremental_correct.

Theorem sync_snapshot_correct : forall (data : Type) (zero : data) lock dbf dbsize wal any,
  let after := view data (dbf, dbsize) wal in
  fst after lock = zero ->
  img_eq data (apply data zero lock any (ltx_snapshot data lock dbf dbsize wal)) after.
Proof. exact Image.sync_snapshot_correct. Qed.
Print Assumptions sync_snapshot_correct.

Theorem sync_snapshot_correct_backfilled : forall (data : Type) (zero : data) lock dbf dbsize wal j any,
  let after := view data (dbf, dbsize) wal in
  fst after lock = zero ->
  img_eq data (apply data zero lock any (ltx_snapshot data lock (backfill data dbf wal j) dbsize wal)) after.
Proof. exact Image.sync_snapshot_correct_backfilled. Qed.
Print Assumptions sync_snapshot_correct_backfilled.

(** restoring the chain written by any number of syncs over one WAL generation *)
Theorem acked_sync_restores_partial : forall (data : Type) (zero : data) lock dbf dbsize first chunks,
  (forall done chunk rest, chunks = done ++ chunk :: rest ->
     let synced := first ++ concat done in
     let before := view data (dbf, dbsize) synced in
     let after := view data (dbf, dbsize) (synced ++ chunk) in
     (forall pg, snd before < pg -> pg <= snd after -> pg <> lock ->
                 last_data data pg chunk = None -> dbf pg = fst after pg) /\
     fst after lock = zero) ->
  fst (view data (dbf, dbsize) first) lock = zero ->
  let files :=
    ltx_snapshot data lock dbf dbsize first ::
    (fix go (synced : list (frame data)) (cs : list (list (frame data))) : list (ltx data) :=
       match cs with
       | [] => []
       | c :: tl => ltx_incremental data lock dbf (snd (view data (dbf, dbsize) synced)) c :: go (synced ++ c) tl
       end) first chunks in
  img_eq data (restore data zero lock files) (view data (dbf, dbsize) (first ++ concat chunks)).
Proof. exact Image.chain_restores. Qed.
Print Assumptions acked_sync_restores_partial.

(** non-vacuity: two syncs (snapshot of one transaction, then an incremental
    chunk that grows the database by a page it writes) over a 2-page database *)
Example chain_example :
  let dbf := fun pg : N => pg * 10 in
  let first := [mkF N 1 2 11] in
  let chunk := [mkF N 3 0 33; mkF N 2 3 22] in
  fst (restore N 0 1000
         [ltx_snapshot N 1000 dbf 2 first;
          ltx_incremental N 1000 dbf 2 chunk]) 3 = 33
  /\ snd (view N (dbf, 2) (first ++ chunk)) = 3.
Proof. vm_compute. split; reflexivity. Qed.
