(** C01 — An acknowledged sync restores to exactly the source database.

    What is proved here (Db/Image.v), for every page-content type, every list of
    committed WAL frames, every chunking of it, every database file:
    - SQLite's view of "database file + committed frames" ([view]) is unchanged
      by checkpoint backfill ([backfill_preserves_view]);
    - one incremental sync file (WAL pages + growth fill) applied to the
      previous image yields the view after the chunk ([sync_incremental_correct]),
      under the explicit growth hypothesis the growth fill relies on;
    - a snapshot file yields the view whatever came before, also when the
      database file has meanwhile been backfilled from the very frames read
      ([sync_snapshot_correct], [sync_snapshot_correct_backfilled]);
    - by induction over any number of syncs of one WAL generation, restoring the
      level-0 chain (snapshot, then incremental files) equals SQLite's view of
      everything copied ([acked_sync_restores_partial]).
    PARTIAL: the statement over whole histories — checkpoints by litestream
    (copy/seal/checkpoint/bump/re-copy), WAL restarts, Close/Open — is not closed
    as one theorem; those steps are tied to the code by the per-step
    correspondence (Db/Verify.v, Db/Sync.v vs db.go on every observed sync) and
    by the restore-equals-source oracle at every acknowledged instant.  That
    chunks are whole transactions is C02's [chunk_cut_at_commit]; that the page
    map is SQLite's recovery is C09.
    The machine-level whole-history theorem now exists (end of this file,
    Db/Machine.v + Db/MachineProofs.v; the post-PRAGMA decisions of the machine
    are compared with db.go by the [machine_ck] entry of Db/MachineEntry.v):
    [acked_sync_restores] holds, with NO side condition, for every finite
    interleaving of application commits/checkpoints with litestream's syncs and
    its checkpoint protocol in all four modes (one DB object, Open ... Close, no
    error exits), for checkpointWithExecutor as it stands in /repo after commits
    80a5b27, 6edd82b and bb88a29.  It assumes only the per-commit environment
    rules [tx_ok] (last frame is the commit frame, the lock page is never
    written, a growing transaction writes every new page) and the wal.c locking
    rules built into the step guards.  The control flows before each of the
    three commits are REFUTED with explicit histories (F14, F15, F16, all
    confirmed on the implementation): [full_checkpoint_window_refuted],
    [full_checkpoint_post_pragma_window_refuted],
    [full_checkpoint_post_copy_window_refuted].
    This file states it for histories with any number of Close / Open but
    without the death of the process and without the error exit of the bump
    ([nokill_label]); kill is Properties/C04.v ([acked_sync_restores_sessions]). *)
From Coq Require Import List NArith Bool.
From LS Require Import Db.Image.
Import ListNotations.
Open Scope N_scope.

Theorem backfill_preserves_view : forall (data : Type) d sz (fs : list (frame data)) j pg,
  fst (view data (backfill data d fs j, sz) fs) pg = fst (view data (d, sz) fs) pg.
Proof. exact Image.backfill_preserves_view. Qed.
Print Assumptions backfill_preserves_view.

Theorem sync_incremental_correct : forall (data : Type) (zero : data) lock base synced chunk dbf,
  let before := view data base synced in
  let after := view data base (synced ++ chunk) in
  (forall pg, snd before < pg -> pg <= snd after -> pg <> lock ->
              last_data data pg chunk = None -> dbf pg = fst after pg) ->
  fst after lock = zero ->
  img_eq data (apply data zero lock before (ltx_incremental data lock dbf (snd before) chunk)) after.
Proof. exact Image.sync_incremental_correct. Qed.
Print Assumptions sync_incremental_correct.

Theorem sync_snapshot_correct : forall (data : Type) (zero : data) lock dbf dbsize wal any,
  let after := view data (dbf, dbsize) wal in
  fst after lock = zero ->
  img_eq data (apply data zero lock any (ltx_snapshot data lock dbf dbsize wal)) after.
Proof. exact Image.sync_snapshot_correct. Qed.
Print Assumptions sync_snapshot_correct.

Theorem sync_snapshot_correct_backfilled : forall (data : Type) (zero : data) lock dbf dbsize wal j any,
  let after := view data (dbf, dbsize) wal in
  fst after lock = zero ->
  img_eq data (apply data zero lock any (ltx_snapshot data lock (backfill data dbf wal j) dbsize wal)) after.
Proof. exact Image.sync_snapshot_correct_backfilled. Qed.
Print Assumptions sync_snapshot_correct_backfilled.

(** restoring the chain written by any number of syncs over one WAL generation *)
Theorem acked_sync_restores_partial : forall (data : Type) (zero : data) lock dbf dbsize first chunks,
  (forall done chunk rest, chunks = done ++ chunk :: rest ->
     let synced := first ++ concat done in
     let before := view data (dbf, dbsize) synced in
     let after := view data (dbf, dbsize) (synced ++ chunk) in
     (forall pg, snd before < pg -> pg <= snd after -> pg <> lock ->
                 last_data data pg chunk = None -> dbf pg = fst after pg) /\
     fst after lock = zero) ->
  fst (view data (dbf, dbsize) first) lock = zero ->
  let files :=
    ltx_snapshot data lock dbf dbsize first ::
    (fix go (synced : list (frame data)) (cs : list (list (frame data))) : list (ltx data) :=
       match cs with
       | [] => []
       | c :: tl => ltx_incremental data lock dbf (snd (view data (dbf, dbsize) synced)) c :: go (synced ++ c) tl
       end) first chunks in
  img_eq data (restore data zero lock files) (view data (dbf, dbsize) (first ++ concat chunks)).
Proof. exact Image.chain_restores. Qed.
Print Assumptions acked_sync_restores_partial.

(** non-vacuity: two syncs (snapshot of one transaction, then an incremental
    chunk that grows the database by a page it writes) over a 2-page database *)
Example chain_example :
  let dbf := fun pg : N => pg * 10 in
  let first := [mkF N 1 2 11] in
  let chunk := [mkF N 3 0 33; mkF N 2 3 22] in
  fst (restore N 0 1000
         [ltx_snapshot N 1000 dbf 2 first;
          ltx_incremental N 1000 dbf 2 chunk]) 3 = 33
  /\ snd (view N (dbf, 2) (first ++ chunk)) = 3.
Proof. vm_compute. split; reflexivity. Qed.

(** * Whole histories (Db/Machine.v): SQLite as environment + litestream, any interleaving *)
From Coq Require Import Arith.
From LS Require Import Db.Machine Db.MachineProofs.

(** [acks s] is the ghost log of acknowledgements: (number of level-0 files,
    committed image, "nothing was lost") at each instant a sync returned nil with
    the cursor at the end of the live WAL generation ([ack_records_committed]).
    The three booleans of [step]/[run]/[steps_ok] select the control flow of
    checkpointWithExecutor: [midcheck] = /repo commit 80a5b27 (header re-read
    after a FULL/RESTART PRAGMA), [postcopy] = 6edd82b (copy after that re-read),
    [recheck] = bb88a29 (header re-read after that copy); the fourth and
    fifth, [freshrule] = 3b58009 and [reachrule] = c55c7c6, matter only across
    sessions (Properties/C04.v).  All five [true] is /repo HEAD.
    [nokill_label] excludes the labels [LsKill] and [LsBumpFail]. *)
Theorem acked_sync_restores :
  forall (data : Type) (zero : data) (lock : N) (s0 : state data) (ls : list (label data)) (s : state data),
  init_ok data zero lock s0 ->
  run data lock true true true true true s0 ls = Some s ->
  steps_ok data lock true true true true true s0 ls ->
  forallb (nokill_label data) ls = true ->
  forall n im b, In (n, im, b) (acks data s) ->
  img_eq data (restore data zero lock (firstn n (l0 data s))) im.
Proof. exact MachineProofs.acked_sync_restores_nokill. Qed.
Print Assumptions acked_sync_restores.

(** * Error exits and process death as steps (Db/MachineFaults.v)

    [LsFail true]: ANY error exit of checkpointWithExecutor, from any control state (a busy
    barrier, bump or boundary lock, a cancelled context, an I/O error), with the deferred
    rollbacks, the deferred re-acquisition of the read lock and — /repo commit a1345df —
    syncedToWALEnd / reachedWALEnd cleared when the read lock had been released in that call;
    [LsKill]: the death of the process at any instant; [LsPostSync]: the copy after a
    FULL/RESTART checkpoint as /repo commit 20b75a5 runs it.  [steps_head] only says that the
    run uses these steps of /repo HEAD ([LsFail true], not [LsFail false] / [LsBumpFail];
    [LsPostSync], not the earlier [LsSync] in that control state): NO side condition on the
    interleaving is left.  Both commits repair defects this theorem's proof attempt
    produced and the harness then reproduced: F21 ([error_exit_after_release_refuted]) and
    F20 (Properties/C04.v, [kill_after_lost_post_copy_refuted]). *)
From LS Require Db.MachineFaults.

Theorem acked_sync_restores_any_error_exit_any_kill :
  forall (data : Type) (zero : data) (lock : N) (s0 : state data) (ls : list (label data)) (s : state data),
  init_ok data zero lock s0 ->
  run data lock true true true true true s0 ls = Some s ->
  steps_ok data lock true true true true true s0 ls ->
  steps_head data lock true true true true true s0 ls ->
  forall n im b, In (n, im, b) (acks data s) ->
  img_eq data (restore data zero lock (firstn n (l0 data s))) im.
Proof. exact MachineFaults.acked_sync_restores_faults. Qed.
Print Assumptions acked_sync_restores_any_error_exit_any_kill.

(** F21: the error exit before commit a1345df ([LsFail false]); reproduced on the
    implementation with
    [OPEN S W SW REOPEN W W ACK-PASSIVE OPEN S SW INJ1=3 INJW=pt.ckpt.bump CK-FULL WT- S SW] *)
Theorem error_exit_after_release_refuted :
  exists (s0 : state N) ls s n im b,
    init_ok N 0%N 1000%N s0 /\ run N 1000%N true true true true true s0 ls = Some s /\
    steps_ok N 1000%N true true true true true s0 ls /\
    In (n, im, b) (acks N s) /\
    ~ img_eq N (restore N 0%N 1000%N (firstn n (l0 N s))) im.
Proof. exact MachineFaults.error_exit_after_release_refuted. Qed.
Print Assumptions error_exit_after_release_refuted.

(** non-vacuity: the same history with [LsFail true] satisfies every hypothesis of
    the theorem, contains an error exit after the PRAGMA and two acknowledgements *)
Example error_exit_history_restores :
  option_map (fun s => (length (l0 N s), cur N s, map (fun a => (fst (fst a), snd a)) (acks N s),
                        map (fst (restore N 0%N 1000%N (l0 N s))) [1; 2]%N,
                        map (fst (committed N s)) [1; 2]%N))
             (run N 1000%N true true true true true MachineProofs.ex_init (MachineFaults.fail_steps true))
  = Some (2%nat, AtLive 1%nat, [(2%nat, true); (1%nat, true)], [99; 55]%N, [99; 55]%N)
  /\ steps_ok N 1000%N true true true true true MachineProofs.ex_init (MachineFaults.fail_steps true)
  /\ steps_head N 1000%N true true true true true MachineProofs.ex_init (MachineFaults.fail_steps true).
Proof.
  split; [vm_compute; reflexivity|]. split; [exact MachineFaults.fail_steps_ok|exact MachineFaults.fail_steps_head].
Qed.

(** with the re-read of bb88a29 the one of 80a5b27 is not needed for C01 (it
    still avoids a level-0 file copied from a restarted WAL before the snapshot) *)
Theorem acked_sync_restores_first_read_redundant :
  forall (data : Type) (zero : data) (lock : N) (s0 : state data) (ls : list (label data)) (s : state data),
  init_ok data zero lock s0 ->
  run data lock false true true true true s0 ls = Some s ->
  steps_ok data lock false true true true true s0 ls ->
  forallb (nokill_label data) ls = true ->
  forall n im b, In (n, im, b) (acks data s) ->
  img_eq data (restore data zero lock (firstn n (l0 data s))) im.
Proof. exact MachineProofs.acked_sync_restores_first_read_redundant. Qed.
Print Assumptions acked_sync_restores_first_read_redundant.

Theorem ack_records_committed :
  forall (data : Type) (lock : N) (midcheck postcopy recheck freshrule reachrule : bool) (s s' : state data),
  step data lock midcheck postcopy recheck freshrule reachrule s (LsAck data) = Some s' ->
  exists b, acks data s' = (length (l0 data s), committed data s, b) :: acks data s /\
            l0 data s' = l0 data s /\ cgen data s = gen data s /\
            cfo data s = flen data (txs data s).
Proof. exact MachineProofs.ack_records_committed. Qed.
Print Assumptions ack_records_committed.

(** any control flow: acknowledgements taken while no generation was reset
    under unreplicated transactions *)
Theorem acked_sync_restores_unless_lost :
  forall (data : Type) (zero : data) (lock : N) (midcheck postcopy recheck freshrule reachrule : bool)
         (s0 : state data) (ls : list (label data)) (s : state data),
  init_ok data zero lock s0 ->
  run data lock midcheck postcopy recheck freshrule reachrule s0 ls = Some s ->
  steps_ok data lock midcheck postcopy recheck freshrule reachrule s0 ls ->
  forall n im, In (n, im, true) (acks data s) ->
  img_eq data (restore data zero lock (firstn n (l0 data s))) im.
Proof. exact MachineProofs.acked_sync_restores_unless_lost. Qed.
Print Assumptions acked_sync_restores_unless_lost.

(** DInv (1)+(2) at every reachable state *)
Theorem dinv_reachable :
  forall (data : Type) (zero : data) (lock : N) (midcheck postcopy recheck freshrule reachrule : bool)
         (s0 : state data) (ls : list (label data)) (s : state data),
  init_ok data zero lock s0 -> run data lock midcheck postcopy recheck freshrule reachrule s0 ls = Some s ->
  steps_ok data lock midcheck postcopy recheck freshrule reachrule s0 ls ->
  match cur data s with
  | AtLive c =>
      cgen data s = gen data s /\ cfo data s = flen data (firstn c (txs data s)) /\
      img_eq data (restore data zero lock (l0 data s))
             (view data (base data s, bsize data s) (concat (firstn c (txs data s))))
  | AtBase => img_eq data (restore data zero lock (l0 data s)) (base data s, bsize data s)
  | Lost => True
  end.
Proof. exact MachineProofs.dinv_reachable. Qed.
Print Assumptions dinv_reachable.

(** the read mark, the PASSIVE barrier, the unconditional TRUNCATE snapshot and,
    for FULL/RESTART, the header re-reads around the post-checkpoint copy keep
    the cursor from being lost outside control states that end in a boundary
    snapshot *)
Theorem pinned_never_lost :
  forall (data : Type) (zero : data) (lock : N) (s0 : state data) (ls : list (label data)) (s : state data),
  init_ok data zero lock s0 -> run data lock true true true true true s0 ls = Some s ->
  steps_ok data lock true true true true true s0 ls ->
  steps_window data lock true true true true true s0 ls ->
  cur data s = Lost ->
  l0 data s = [] \/ MachineSafe.pendingb (pc data s) = true \/ MachineSafe.freshlostb data s = true \/
  MachineSafe.lost_okb true (pc data s) (gen data s) = true.
Proof.
  intros data zero lock. exact (MachineProofs.pinned_never_lost data zero lock true true (or_introl eq_refl)).
Qed.
Print Assumptions pinned_never_lost.

Theorem verify_sound_pinned :
  forall (data : Type) (zero : data) (lock : N) (freshrule reachrule : bool) (s : state data) (k : nat),
  MachineInv.inv data zero lock s -> cur data s <> Lost ->
  match verify data freshrule reachrule s with
  | VSnap => True
  | VIncrAt => exists c, cur data s = AtLive c /\ idx data (txs data s) (cfo data s) = Some c /\
                         MachineProofs.continuity data zero lock s c k
  | VIncrHdr _ => cur data s = AtBase /\ MachineProofs.continuity data zero lock s 0 k
  end.
Proof. exact MachineProofs.verify_sound_pinned. Qed.
Print Assumptions verify_sound_pinned.

(** F14, repaired by 80a5b27: the control flow before it (scenarios ckpt-window:FULL|RESTART) *)
Theorem full_checkpoint_window_refuted :
  exists (s0 : state N) ls s n im b,
    init_ok N 0%N 1000%N s0 /\ run N 1000%N false false false true true s0 ls = Some s /\
    steps_ok N 1000%N false false false true true s0 ls /\
    In (n, im, b) (acks N s) /\
    ~ img_eq N (restore N 0%N 1000%N (firstn n (l0 N s))) im.
Proof. exact MachineProofs.full_checkpoint_window_refuted. Qed.
Print Assumptions full_checkpoint_window_refuted.

(** F15, repaired by 6edd82b (scenarios ckpt-post-pragma-window:FULL|RESTART) *)
Theorem full_checkpoint_post_pragma_window_refuted :
  exists (s0 : state N) ls s n im b,
    init_ok N 0%N 1000%N s0 /\ run N 1000%N true false false true true s0 ls = Some s /\
    steps_ok N 1000%N true false false true true s0 ls /\
    In (n, im, b) (acks N s) /\
    ~ img_eq N (restore N 0%N 1000%N (firstn n (l0 N s))) im.
Proof. exact MachineProofs.full_checkpoint_post_pragma_window_refuted. Qed.
Print Assumptions full_checkpoint_post_pragma_window_refuted.

(** F16, repaired by bb88a29 (scenarios ckpt-post-copy-window:FULL|RESTART) *)
Theorem full_checkpoint_post_copy_window_refuted :
  exists (s0 : state N) ls s n im b,
    init_ok N 0%N 1000%N s0 /\ run N 1000%N true true false true true s0 ls = Some s /\
    steps_ok N 1000%N true true false true true s0 ls /\
    In (n, im, b) (acks N s) /\
    ~ img_eq N (restore N 0%N 1000%N (firstn n (l0 N s))) im.
Proof. exact MachineProofs.full_checkpoint_post_copy_window_refuted. Qed.
Print Assumptions full_checkpoint_post_copy_window_refuted.

(** non-vacuity: Db/MachineProofs.v [ex_run] (two generations, PASSIVE checkpoint,
    application commit before the barrier), [ex2_run] (TRUNCATE), [fixed_run],
    [fixed2_run], [fixed3_run] (the F14, F15, F16 histories, FULL, under /repo HEAD) *)
Example machine_example :
  forall s, run N 1000%N true true true true true ex_init ex_steps = Some s ->
  forall n im b, In (n, im, b) (acks N s) ->
  img_eq N (restore N 0%N 1000%N (firstn n (l0 N s))) im.
Proof.
  intros s E. eapply MachineProofs.acked_sync_restores_nokill; [exact ex_init_ok|exact E|exact ex_steps_ok|reflexivity].
Qed.

Example machine_example_full :
  forall s, run N 1000%N true true true true true ex_init fixed3_steps = Some s ->
  forall n im b, In (n, im, b) (acks N s) ->
  img_eq N (restore N 0%N 1000%N (firstn n (l0 N s))) im.
Proof.
  intros s E. eapply MachineProofs.acked_sync_restores_nokill; [exact ex_init_ok|exact E|exact fixed3_steps_ok|reflexivity].
Qed.

(** * The machine's control flow is the control flow of the current source (regenerated skeleton)

    [Gen.Skeleton] is printed from db.go on every run by tools/gen/skeleton.go: the protocol calls,
    the assignments to the sync state, the tests of the checkpoint mode, the deferred functions,
    the error exits and the returns of checkpointWithExecutor and execCheckpoint in source order
    (independent of the names of locals, of operand order, of logging / diagnostics / trace points
    and of guards that are not mode tests).  [Db.Skeleton] is that structure as the machine's
    steps were written against it, with the step each part stands for.  A call moved across
    another one, a dropped or moved `defer` (e.g. the flag clearing of a1345df installed after
    execCheckpoint instead of before it), a new error exit between two steps or a changed mode
    test breaks this obligation before any history is run. *)
From LS Require Gen.Skeleton Db.Skeleton.

Theorem checkpoint_skeleton_agrees :
  Gen.Skeleton.skel_checkpointWithExecutor = Db.Skeleton.expected_checkpointWithExecutor.
Proof. reflexivity. Qed.
Print Assumptions checkpoint_skeleton_agrees.

Theorem exec_checkpoint_skeleton_agrees :
  Gen.Skeleton.skel_execCheckpoint = Db.Skeleton.expected_execCheckpoint.
Proof. reflexivity. Qed.
Print Assumptions exec_checkpoint_skeleton_agrees.

(** the decision procedure itself, regenerated from db.go on every run: the order of its tests, the
    calls that decide continuity, every assignment to the result and to the sync state, the guards on
    syncedToWALEnd / reachedWALEnd / the cursor position (reading guide in Db/Skeleton.v) *)
Theorem verify_skeleton_agrees :
  Gen.Skeleton.skel_verifyWithExecutor = Db.Skeleton.expected_verifyWithExecutor.
Proof. reflexivity. Qed.
Print Assumptions verify_skeleton_agrees.

(** * Refinement of the byte-level decision to the machine's (Db/VerifyRefine.v)

    [Db.Verify.verify] — the byte-level model of verifyWithExecutor that is compared with db.go
    on every observed sync step — takes on EVERY input the decision of [Machine.verify], the
    function the whole-history theorems above are about, on every machine state that abstracts
    the input: the -wal file is a 32-byte header plus whole frames, salts become generation
    ids through a map injective on the salts that occur, byte offsets become frame counts.
    The last hypothesis is the assumption about SQLite under which the machine models
    lastPageMatch by its salt comparison: a slot in front of the cursor that carries the last
    file's salts is the frame that file copied.  (Before this theorem the two functions were
    only compared on observed states: entry machine_verify_agrees, still evaluated on every
    run.) *)
From LS Require Db.MachineEntry Db.VerifyRefine.

Theorem verify_refines_machine :
  forall (data : Type) (ps : N) (hd : list N) (frames : list (list N))
         (gam : N * N -> nat) (ids : list (N * N)) (pos : N) (last : Verify.l0hdr)
         (toEnd : bool) (reachedN : N) (fdig : option N) (s : Machine.state data),
    let w := hd ++ concat frames in
    length hd = 32%nat ->
    Forall (fun f => length f = N.to_nat (Reader.frame_size ps)) frames ->
    (forall p q, In p ids -> In q ids -> gam p = gam q -> p = q) ->
    In (Bytes.be32 w 16, Bytes.be32 w 20) ids ->
    In (Verify.l_s1 last, Verify.l_s2 last) ids ->
    Forall (fun f => In (VerifyRefine.fsalts f) ids) frames ->
    map fst (Machine.phys data s) = map (fun f => gam (VerifyRefine.fsalts f)) frames ->
    Machine.gen data s = gam (Bytes.be32 w 16, Bytes.be32 w 20) ->
    Machine.cgen data s = gam (Verify.l_s1 last, Verify.l_s2 last) ->
    N.eqb pos 0 = match Machine.l0 data s with nil => true | _ :: _ => false end ->
    (Verify.l_off last + Verify.l_size last =
     32 + Reader.frame_size ps * N.of_nat (Machine.cfo data s))%N ->
    Machine.flag data s = toEnd ->
    Machine.reached data s = negb (N.eqb reachedN 0) ->
    (forall r, Reader.read_header w = Reader.HdrOk r -> Reader.r_ps r = ps) ->
    (forall f fd,
        nth_error frames (Machine.cfo data s - 1) = Some f ->
        VerifyRefine.fsalts f = (Verify.l_s1 last, Verify.l_s2 last) -> fdig = Some fd ->
        existsb (fun pd => N.eqb (Bytes.be32 f 0) (fst pd) && N.eqb fd (snd pd))
                (Verify.l_pages last) = true) ->
    forall info,
      Verify.verify ps pos last toEnd reachedN (Some w) fdig = Verify.VOk info ->
      MachineEntry.verify_code pos last info =
      MachineEntry.vans_code (Machine.verify data true true s).
Proof. exact VerifyRefine.verify_refines_machine_lemma. Qed.
Print Assumptions verify_refines_machine.

(** the abstraction the entry machine_verify_agrees computes meets the injectivity hypothesis *)
Theorem verify_refinement_entry_abstraction_injective :
  forall (ids : list (N * N)) p q,
    In p ids -> In q ids -> MachineEntry.gen_id ids p = MachineEntry.gen_id ids q -> p = q.
Proof. exact VerifyRefine.gen_id_injective. Qed.
Print Assumptions verify_refinement_entry_abstraction_injective.
