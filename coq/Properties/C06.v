(** C06 — Compaction never changes what is restored (file-level part; the
    store-level invariant [levels_contiguous] lives in the Store layer). *)
From Coq Require Import List NArith.
From LS Require Import Base.PMap Ltx.File Ltx.Snapshot Ltx.Apply Ltx.Compact Ltx.SnapshotProofs Ltx.Proofs.
Import ListNotations.
Open Scope N_scope.

(** for every base image and every well-formed, growth-closed list of inputs:
    the compacted file applied to the base = the inputs applied in order (same
    pages, same size); it carries the newest input's timestamp and commit and
    the range first.min..last.max *)
Theorem compact_equiv : forall first rest d c,
  let fs := first :: rest in
  let lock := lockPgno (f_ps first) in
  Forall (wf_file lock) fs -> gc_chain lock (isz d) fs -> img_get d lock = zero_page ->
  compact fs = Ok c ->
  img_eq (apply d c) (apply_all d fs) /\
  f_ts c = f_ts (last fs first) /\ f_commit c = f_commit (last fs first) /\
  f_min c = f_min first /\ f_max c = f_max (last fs first) /\ f_ps c = f_ps first.
Proof. exact Proofs.compact_equiv. Qed.
Print Assumptions compact_equiv.

(** the premise [wf_file] is what the real encoder guarantees of every file it wrote *)
Theorem encoder_output_wf : forall f, encode_ok f = true -> wf_file (lockPgno (f_ps f)) f.
Proof. exact Proofs.encode_ok_wf. Qed.
Print Assumptions encoder_output_wf.

(** under strict TXID contiguity the output range is exactly the union of the input ranges *)
Theorem compact_covers_union : forall fs prevMax t,
  fs <> [] -> txid_chain prevMax fs ->
  (prevMax + 1 <= t <= fold_left (fun _ f => f_max f) fs prevMax <->
   exists f, In f fs /\ f_min f <= t <= f_max f).
Proof. exact Proofs.txid_chain_union. Qed.
Print Assumptions compact_covers_union.

Theorem compact_needs_growth_closed_refuted :
  exists d first rest c,
    let fs := first :: rest in
    let lock := lockPgno (f_ps first) in
    Forall (wf_file lock) fs /\ img_get d lock = zero_page /\
    compact fs = Ok c /\ ~ img_eq (apply d c) (apply_all d fs).
Proof. exact Proofs.compact_needs_growth_closed_refuted. Qed.
Print Assumptions compact_needs_growth_closed_refuted.

Theorem compact_assoc_partial : forall lock pieces cs c c' d,
  Forall2 (compacts1 lock) pieces cs ->
  Forall (wf_file lock) (concat pieces) -> gc_chain lock (isz d) (concat pieces) ->
  img_get d lock = zero_page ->
  compact cs = Ok c -> compact (concat pieces) = Ok c' ->
  img_eq (apply d c) (apply d c') /\ f_commit c = f_commit c'.
Proof. exact Proofs.compact_assoc_partial. Qed.
Print Assumptions compact_assoc_partial.

(** growth-closedness and well-formedness are preserved by compaction *)
Theorem compaction_preserves_growth_closed : forall lock prev piece c,
  compacts1 lock piece c -> Forall (wf_file lock) piece -> gc_chain lock prev piece ->
  wf_file lock c /\ growth_closed lock prev c /\ f_commit c = final_commit prev piece /\
  lockPgno (f_ps c) = lock.
Proof. exact Proofs.compacts1_props. Qed.
Print Assumptions compaction_preserves_growth_closed.

Theorem plan_independent : forall lock l0s pieces1 cs1 pieces2 cs2 r1 r2,
  concat pieces1 = l0s -> concat pieces2 = l0s ->
  Forall2 (compacts1 lock) pieces1 cs1 -> Forall2 (compacts1 lock) pieces2 cs2 ->
  Forall (wf_file lock) l0s -> gc_chain lock 0 l0s ->
  restore cs1 = Ok r1 -> restore cs2 = Ok r2 ->
  img_eq r1 r2.
Proof. exact Proofs.plan_independent. Qed.
Print Assumptions plan_independent.

Theorem snapshot_equiv : forall first rest c r,
  let fs := first :: rest in
  let lock := lockPgno (f_ps first) in
  Forall (wf_file lock) fs -> gc_chain lock 0 fs ->
  compact fs = Ok c -> decode_db c = Ok r ->
  img_eq r (apply_all img_empty fs).
Proof. exact Proofs.snapshot_equiv. Qed.
Print Assumptions snapshot_equiv.

(** the model's fuel is always sufficient *)
Theorem compact_never_out_of_fuel : forall fs,
  Forall (fun f => sorted_gt 0 (f_pages f)) fs -> compact fs <> Err E_FUEL.
Proof. exact Proofs.compact_fuel. Qed.
Print Assumptions compact_never_out_of_fuel.

(** store level (Store/Ops.v: sync-upload, Compactor.Compact with its position cache,
    Store.CompactDB's guards, DB.Snapshot): over ALL retention-free histories, for any level
    layout, [LC] holds after every step — all L0 files 1..pos are present; every level 1..8 is
    an exact chain from TXID 1 (sorted, non-overlapping, next.min = prev.max+1: each new file
    started where the previous one of its level ended); every file of level L ends where a
    file of level L-1 ends. *)
Require LS.Store.CompactProofs.
Theorem levels_contiguous : forall ret nlv ops,
  Forall LS.Store.CompactProofs.op_nr ops ->
  LS.Store.CompactProofs.LC (LS.Store.Ops.run (LS.Store.Ops.init_state ret nlv) ops).
Proof. exact LS.Store.CompactProofs.levels_contiguous. Qed.
Print Assumptions levels_contiguous.
