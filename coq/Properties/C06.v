(** C06 (file level) — provisional until Ltx/Proofs.v lands *)
From Coq Require Import List NArith.
From LS Require Import Ltx.File Ltx.Compact.
Import ListNotations.

Theorem compact_no_input : compact [] = Err E_NO_INPUT.
Proof. reflexivity. Qed.
Print Assumptions compact_no_input.
