(** Agreement between the parts regenerated from the Go source (Gen/Consts.v,
    Gen/Scalar.v — rewritten by tools/gen at the start of every check) and the
    hand-written model functions of the layers that use them.  Compiled by
    every check: a changed operator or constant in the source breaks a theorem
    here.  Protects: C08 (restoreCandidateBetter, SnapshotLevel), C06/C17
    (ltx.IsContiguous, ltx.LockPgno, PENDING_BYTE), C20 (Lease.IsExpired), C09
    (WALHeaderSize, WALFrameHeaderSize, calcWALSize), C05/C10
    (resumableReaderMaxRetries, ltx.HeaderSize). *)
From Coq Require Import ZArith NArith Bool.
From LS Require Import Gen.Consts Gen.Scalar Gen.Agree.
From LS Require Plan.Planner Ltx.File Ltx.Snapshot Lease.Client Wal.Reader Faults.Resumable Faults.Restore.
Local Open Scope Z_scope.

Theorem agree_constants :
  WALHeaderSize = Z.of_N Wal.Reader.WALHeaderSize /\
  WALFrameHeaderSize = Z.of_N Wal.Reader.WALFrameHeaderSize /\
  SnapshotLevel = Z.of_N Plan.Planner.SnapshotLevel /\
  internal_resumableReaderMaxRetries = Z.of_nat Faults.Resumable.rr_budget /\
  ltx_PENDING_BYTE = Z.of_N Ltx.Snapshot.pending_byte /\
  ltx_HeaderSize = Z.of_nat Faults.Restore.ltx_header_size /\
  (ltx_HeaderSize = 100 /\ ltx_PageHeaderSize = 6 /\ ltx_TrailerSize = 16) /\
  (DefaultMinCheckpointPageN = 1000 /\ DefaultTruncatePageN = 121359 /\ DefaultMaxSyncWALBytes = 67108864).
Proof.
  exact (conj gen_WALHeaderSize_eq (conj gen_WALFrameHeaderSize_eq (conj gen_SnapshotLevel_eq
        (conj gen_resumableReaderMaxRetries_eq (conj gen_PENDING_BYTE_eq (conj gen_ltx_HeaderSize_eq
        (conj gen_ltx_layout gen_default_thresholds))))))).
Qed.
Print Assumptions agree_constants.

Theorem agree_restoreCandidateBetter : forall curr next : Plan.Planner.file,
  restoreCandidateBetter
    (Z.of_N (Plan.Planner.f_created curr)) (Z.of_N (Plan.Planner.f_level curr))
    (Z.of_N (Plan.Planner.f_max curr)) (Z.of_N (Plan.Planner.f_min curr))
    (Z.of_N (Plan.Planner.f_created next)) (Z.of_N (Plan.Planner.f_level next))
    (Z.of_N (Plan.Planner.f_max next)) (Z.of_N (Plan.Planner.f_min next))
  = Plan.Planner.restore_candidate_better curr next.
Proof. exact gen_restoreCandidateBetter_eq. Qed.
Print Assumptions agree_restoreCandidateBetter.

Theorem agree_LockPgno : forall ps : N, (ps < 4294967296)%N ->
  ltx_LockPgno (Z.of_N ps) = Z.of_N (Ltx.Snapshot.lockPgno ps).
Proof. exact gen_LockPgno_eq. Qed.
Print Assumptions agree_LockPgno.

Theorem agree_IsContiguous : forall prevMax mn mx : N,
  (prevMax < 18446744073709551615)%N ->
  ltx_IsContiguous (Z.of_N prevMax) (Z.of_N mn) (Z.of_N mx) = Ltx.File.is_contiguous prevMax mn mx.
Proof. exact gen_IsContiguous_eq. Qed.
Print Assumptions agree_IsContiguous.

Theorem agree_IsExpired : forall now (l : Lease.Client.lease),
  Lease_IsExpired (Lease.Client.l_exp l) now = Lease.Client.is_expired now l.
Proof. exact gen_IsExpired_eq. Qed.
Print Assumptions agree_IsExpired.

Theorem agree_calcWALSize : forall ps n : N, (ps <= 65536)%N -> (n < 4294967296)%N ->
  calcWALSize (Z.of_N ps) (Z.of_N n) =
  Z.of_N (Wal.Reader.WALHeaderSize + n * Wal.Reader.frame_size ps).
Proof. exact gen_calcWALSize_eq. Qed.
Print Assumptions agree_calcWALSize.

Theorem agree_effectiveTruncatePageN : forall t,
  DB_effectiveTruncatePageN t = if t =? 0 then DefaultTruncatePageN else t.
Proof. exact gen_effectiveTruncatePageN_spec. Qed.
Print Assumptions agree_effectiveTruncatePageN.
