(** C20 — at most one instance holds an unexpired replica lease.

    Every theorem quantifies over: the ETag type [T], the ETag function [f]
    (assumed injective) and its comparison [teqb] (assumed to decide equality) —
    the modelled S3 conditional store; the owners [own], TTLs [ttl] (any sign),
    start of the clock [now0] and a possibly left-over lock object [s0]; and
    every state reachable by any interleaving of clock ticks, calls and
    micro-steps (one storage request or clock read) of any number of clients. *)
From Coq Require Import ZArith NArith List.
From LS Require Import Lease.Store Lease.Client Lease.Sched Lease.Proofs Lease.Examples Lease.GenTie.
From LS Require Gen.Scalar.
Import ListNotations.
Open Scope Z_scope.

(** No two distinct clients both hold an unexpired lease. *)
Theorem mutex :
  forall (T : Type) (f : lease -> T) (teqb : T -> T -> bool),
    (forall a b : lease, f a = f b -> a = b) ->
    (forall a b : T, teqb a b = true <-> a = b) ->
    forall (own : nat -> N) (ttl : nat -> Z) (now0 : Z) (s0 : store lease) (s : state T) (c1 c2 : nat),
      reachable f teqb (init own ttl now0 s0) s ->
      c1 <> c2 -> ~ (holds_live s c1 /\ holds_live s c2).
Proof. exact Proofs.mutex. Qed.
Print Assumptions mutex.

(** In the words of the property: two clients with distinct owner strings. *)
Theorem mutex_distinct_owners :
  forall (T : Type) (f : lease -> T) (teqb : T -> T -> bool),
    (forall a b : lease, f a = f b -> a = b) ->
    (forall a b : T, teqb a b = true <-> a = b) ->
    forall (own : nat -> N) (ttl : nat -> Z) (now0 : Z) (s0 : store lease) (s : state T) (c1 c2 : nat),
      reachable f teqb (init own ttl now0 s0) s ->
      c_owner (st_cl s c1) <> c_owner (st_cl s c2) -> ~ (holds_live s c1 /\ holds_live s c2).
Proof. exact Proofs.mutex_distinct_owners. Qed.
Print Assumptions mutex_distinct_owners.

(** A second acquire succeeds only after the current lease has expired or been
    released; at that moment nobody holds an unexpired lease. *)
Theorem second_acquire_needs_expiry_or_release :
  forall (T : Type) (f : lease -> T) (teqb : T -> T -> bool),
    (forall a b : lease, f a = f b -> a = b) ->
    (forall a b : T, teqb a b = true <-> a = b) ->
    forall (own : nat -> N) (ttl : nat -> Z) (now0 : Z) (s0 : store lease)
           (s : state T) (c : nat) (l : lease) (et : option T) (s' : state T) (h : hlease T),
      reachable f teqb (init own ttl now0 s0) s ->
      c_pc (st_cl s c) = PAcqPut l et ->
      exec f teqb s (LStep c) = Some (s', Some (c, ROk h)) ->
      (st_store s = None \/ (exists e : lease, st_store s = Some e /\ is_expired (st_now s) e = true)) /\
      (forall c2 : nat, ~ holds_live s c2).
Proof. exact Proofs.second_acquire_needs_expiry_or_release. Qed.
Print Assumptions second_acquire_needs_expiry_or_release.

(** A successful write by another client makes the old holder's lease stale ... *)
Theorem takeover_makes_stale :
  forall (T : Type) (f : lease -> T) (teqb : T -> T -> bool),
    (forall a b : lease, f a = f b -> a = b) ->
    (forall a b : T, teqb a b = true <-> a = b) ->
    forall (own : nat -> N) (ttl : nat -> Z) (now0 : Z) (s0 : store lease),
      (forall c c' : nat, own c = own c' -> c = c') ->
      forall (s : state T) (c c' : nat) (h : hlease T) (s' : state T) (o : obs T),
        reachable f teqb (init own ttl now0 s0) s ->
        c' <> c ->
        c_held (st_cl s c) = Some h ->
        exec f teqb s (LStep c') = Some (s', o) -> st_store s' <> st_store s -> stale T s' c.
Proof. exact Proofs.takeover_makes_stale. Qed.
Print Assumptions takeover_makes_stale.

(** ... and from then on, whatever the others and the clock do, every renew and
    release of the old holder fails (until it acquires again). *)
Theorem takeover_revokes :
  forall (T : Type) (f : lease -> T) (teqb : T -> T -> bool),
    (forall a b : lease, f a = f b -> a = b) ->
    (forall a b : T, teqb a b = true <-> a = b) ->
    forall (own : nat -> N) (ttl : nat -> Z) (now0 : Z) (s0 : store lease),
      (forall c c' : nat, own c = own c' -> c = c') ->
      forall (ls : list label) (s : state T) (c : nat) (s' : state T) (os : list (nat * result T)),
        reachable f teqb (init own ttl now0 s0) s ->
        stale T s c ->
        not_acquiring T (c_pc (st_cl s c)) ->
        ~ In (LCall c OpAcquire) ls ->
        run f teqb s ls = Some (s', os) ->
        (forall r : result T, In (c, r) os -> failed T r) /\ stale T s' c.
Proof. exact Proofs.takeover_revokes. Qed.
Print Assumptions takeover_revokes.

(** The refused request itself: ErrLeaseNotHeld whenever a lock object exists. *)
Theorem stale_renew_release_refused :
  forall (T : Type) (f : lease -> T) (teqb : T -> T -> bool),
    (forall a b : lease, f a = f b -> a = b) ->
    (forall a b : T, teqb a b = true <-> a = b) ->
    forall (own : nat -> N) (ttl : nat -> Z) (now0 : Z) (s0 : store lease)
           (s : state T) (c : nat) (s' : state T) (o : obs T),
      reachable f teqb (init own ttl now0 s0) s ->
      stale T s c ->
      (exists (l : lease) (t : T), c_pc (st_cl s c) = PRenPut l t) \/
      (exists t : T, c_pc (st_cl s c) = PRelDel t) ->
      exec f teqb s (LStep c) = Some (s', o) ->
      exists r : result T,
        o = Some (c, r) /\ failed T r /\ (st_store s <> None -> r = RNotHeld) /\
        st_store s' = st_store s /\ stale T s' c /\ c_pc (st_cl s' c) = PIdle.
Proof. exact Proofs.stale_renew_release_refused. Qed.
Print Assumptions stale_renew_release_refused.

(** On takeover the generation is the old one plus one. *)
Theorem gen_increases_on_takeover :
  forall (T : Type) (f : lease -> T) (teqb : T -> T -> bool),
    (forall a b : lease, f a = f b -> a = b) ->
    (forall a b : T, teqb a b = true <-> a = b) ->
    forall (own : nat -> N) (ttl : nat -> Z) (now0 : Z) (s0 : store lease)
           (s : state T) (c : nat) (l : lease) (et : option T) (s' : state T) (h : hlease T) (e : lease),
      reachable f teqb (init own ttl now0 s0) s ->
      c_pc (st_cl s c) = PAcqPut l et ->
      st_store s = Some e ->
      exec f teqb s (LStep c) = Some (s', Some (c, ROk h)) ->
      l_gen (h_rec h) = l_gen e + 1 /\
      l_gen e < l_gen (h_rec h) /\
      l_owner (h_rec h) = own c /\
      st_store s' = Some (h_rec h) /\ st_log s' = (own c, l_gen (h_rec h)) :: st_log s.
Proof. exact Proofs.gen_increases_on_takeover. Qed.
Print Assumptions gen_increases_on_takeover.

(** F6 — the last clause of the property is FALSE of the code: across a release
    the next owner starts again at generation 1. *)
Theorem gen_after_release_refuted :
  forall (T : Type) (f : lease -> T) (teqb : T -> T -> bool),
    (forall a b : T, teqb a b = true <-> a = b) ->
    exists (s : state T) (os : list (nat * result T)),
      run f teqb (init f6_owner (fun _ => 10) 0 None) f6_trace = Some (s, os) /\
      reachable f teqb (init f6_owner (fun _ => 10) 0 None) s /\
      (forall c c' : nat, f6_owner c = f6_owner c' -> c = c') /\
      st_log s = [(f6_owner 1%nat, 1); (f6_owner 0%nat, 1)] /\
      os = [(0%nat, ROk (mkH (mkLease 1 10 1) (Some (f (mkLease 1 10 1)))));
            (0%nat, RReleased);
            (1%nat, ROk (mkH (mkLease 1 10 2) (Some (f (mkLease 1 10 2)))))] /\
      ~ gen_strict (st_log s).
Proof. exact Proofs.gen_after_release_refuted. Qed.
Print Assumptions gen_after_release_refuted.

(** The model's expiry test is the one regenerated from leaser.go (Lease.IsExpired). *)
Theorem is_expired_matches_source :
  forall (now : Z) (l : lease), Gen.Scalar.Lease_IsExpired (l_exp l) now = is_expired now l.
Proof. exact GenTie.is_expired_matches_source. Qed.
Print Assumptions is_expired_matches_source.
