(** C15 — Timestamp restore never returns data from after the requested time.
    Planner: Plan/Planner.v (CalcRestorePlan; the timestamp filter is [f_created f <? ts] on the
    snapshot scan and on every level cursor), facts from Plan/Proofs.v (C08).
    Store: Store/Ops.v — an L0 file is stamped at its sync, a compacted file carries its newest
    input's header timestamp, a snapshot is stamped when taken; the file client reports the
    header timestamp as CreatedAt (checked on every file by the correspondence run).
    Hypothesis of the store-level statements: the clock read by sync / snapshot never goes back
    ([hist_clock]; millisecond ties are allowed and handled by the strict [<]). *)
From Coq Require Import List NArith.
From LS Require Import Plan.Planner Plan.Spec Plan.Proofs Store.Files Store.Ops Store.Spec Store.TimeProofs.
Import ListNotations.
Open Scope N_scope.

(** no file of the plan was created at or after T *)
Theorem ts_no_future : forall fs tgt ts p,
  calc_restore_plan fs tgt ts = POk p -> ts <> 0 -> forall f, In f p -> f_created f < ts.
Proof. exact Proofs.ts_no_future. Qed.
Print Assumptions ts_no_future.

(** a later T never yields an earlier state, and never fails where an earlier T succeeded *)
Theorem ts_monotone : forall fs t1 t2 p1,
  wf_listing fs -> sorted_listing fs -> t1 <> 0 -> t1 <= t2 ->
  calc_restore_plan fs 0 t1 = POk p1 ->
  exists p2, calc_restore_plan fs 0 t2 = POk p2 /\ chain_end p1 <= chain_end p2.
Proof. exact Proofs.ts_monotone. Qed.
Print Assumptions ts_monotone.

(** for any replica in which all L0 files 1..pos are present, L0 stamps are non-decreasing in
    TXID and every higher-level file is stamped no earlier than the L0 file of its MaxTXID
    ([ts_hyp]): the plan for T ends exactly at [expected_end] = max {k | stamp k < T}
    ([expected_end_is_last_before]), and fails with ErrTxNotAvailable when there is none *)
Theorem ts_exact_for_listing : forall pos r T, ts_hyp pos r -> T <> 0 ->
  (0 < expected_end (r 0) T ->
     exists p, calc_restore_plan (listing_of r) 0 T = POk p /\ chain_end p = expected_end (r 0) T) /\
  (expected_end (r 0) T = 0 -> calc_restore_plan (listing_of r) 0 T = PErr ETxNotAvailable).
Proof. exact TimeProofs.ts_exact. Qed.
Print Assumptions ts_exact_for_listing.

(** [ts_hyp] is an invariant of every retention-free history of Store/Ops.v
    {sync, Compact L, Store.CompactDB L, Snapshot} under a monotone clock *)
Theorem ts_hyp_invariant : forall ret nlv ops,
  hist_clock 0 ops -> let st := run (init_state ret nlv) ops in ts_hyp (st_pos st) (st_rep st).
Proof. exact TimeProofs.ts_hyp_invariant. Qed.
Print Assumptions ts_hyp_invariant.

Theorem ts_exact_when_l0_present : forall ret nlv ops T,
  hist_clock 0 ops -> T <> 0 ->
  let st := run (init_state ret nlv) ops in
  let e := expected_end (st_rep st 0) T in
  (0 < e -> exists p, calc_restore_plan (listing_of (st_rep st)) 0 T = POk p /\ chain_end p = e) /\
  (e = 0 -> calc_restore_plan (listing_of (st_rep st)) 0 T = PErr ETxNotAvailable).
Proof. exact TimeProofs.ts_exact_when_l0_present. Qed.
Print Assumptions ts_exact_when_l0_present.

Theorem expected_end_is_last_before : forall l T,
  (forall f, In f l -> s_created f < T -> s_max f <= expected_end l T) /\
  (expected_end l T = 0 \/ exists f, In f l /\ s_created f < T /\ s_max f = expected_end l T).
Proof. exact TimeProofs.expected_end_spec. Qed.
Print Assumptions expected_end_is_last_before.

(** T at or before every stamp: ErrTxNotAvailable, never newer data *)
Theorem ts_before_first_fails : forall fs T,
  wf_listing fs -> sorted_listing fs -> T <> 0 ->
  (forall f, In f (all_files fs) -> T <= f_created f) ->
  calc_restore_plan fs 0 T = PErr ETxNotAvailable.
Proof. exact TimeProofs.ts_before_first_fails. Qed.
Print Assumptions ts_before_first_fails.
