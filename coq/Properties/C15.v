(** C15 — Timestamp restore never returns data from after the requested time.
    Planner facts are those of Plan/Proofs.v (C08); the store-level statements
    are in Store/TimeProofs.v. *)
From Coq Require Import List NArith.
From LS Require Import Plan.Planner Plan.Spec Plan.Proofs.
Open Scope N_scope.

Theorem ts_no_future : forall fs tgt ts p,
  calc_restore_plan fs tgt ts = POk p -> ts <> 0 -> forall f, In f p -> f_created f < ts.
Proof. exact Proofs.ts_no_future. Qed.
Print Assumptions ts_no_future.

Theorem ts_monotone : forall fs t1 t2 p1,
  wf_listing fs -> sorted_listing fs -> t1 <> 0 -> t1 <= t2 ->
  calc_restore_plan fs 0 t1 = POk p1 ->
  exists p2, calc_restore_plan fs 0 t2 = POk p2 /\ chain_end p1 <= chain_end p2.
Proof. exact Proofs.ts_monotone. Qed.
Print Assumptions ts_monotone.
