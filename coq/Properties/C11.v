(** C11 — files are flushed before they are published, and published before acknowledged *)
From Coq Require Import List NArith Bool.
From LS Require Import Fs.Model Fs.Monitor Fs.Publish Fs.Proofs Fs.ProtoProofs Fs.CoverProofs Fs.ExactProofs Fs.V3Proofs.
Import ListNotations.
Open Scope N_scope.

Theorem monitor_sound : forall t,
  publish_ok t = true ->
  forall t1 t2, t = t1 ++ t2 ->
  forall s', crash (run t1 fs_empty) s' ->
    (forall p, strictb p = true ->
       svol s' p = None \/ complete_after (run t1 fs_empty) s' p) /\
    (forall p, In p (acked t1) ->
       (exists ino, svol s' p = Some ino) /\
       (strictb p = true -> complete_after (run t1 fs_empty) s' p)).
Proof. exact Proofs.monitor_sound. Qed.
Print Assumptions monitor_sound.

Theorem monitor_sound_files : forall l t,
  run_ok t (m_of_files l) = true ->
  forall t1 t2, t = t1 ++ t2 ->
  forall s', crash (mfs (mrun t1 (m_of_files l))) s' ->
    (forall p, strictb p = true ->
       svol s' p = None \/ complete_after (mfs (mrun t1 (m_of_files l))) s' p) /\
    (forall p, In p (fold_left ack_upd t1 []) ->
       (exists ino, svol s' p = Some ino) /\
       (strictb p = true -> complete_after (mfs (mrun t1 (m_of_files l))) s' p)).
Proof. exact Proofs.monitor_sound_files. Qed.
Print Assumptions monitor_sound_files.

Theorem published_content_stable : forall t m ino,
  Inv m -> run_ok t m = true -> mpub m ino = true ->
  ivol (sino (mfs (mrun t m)) ino) = ivol (sino (mfs m) ino).
Proof. exact Proofs.published_content_stable_run. Qed.
Print Assumptions published_content_stable.

Theorem protocol_ok : forall m,
  Inv m ->
  forall fd dfd dir nm nm' ws,
  stage_ready m (mkPath dir nm' CTmp) ->
  (forall txid, run_ok (local_l0 fd dfd dir nm nm' txid ws) m = true) /\
  (forall level mn mx, run_ok (replica_write fd dfd dir nm nm' level mn mx ws) m = true) /\
  run_ok (restore_output fd dfd dir nm nm' ws) m = true /\
  (forall len, run_ok (txid_sidecar fd dfd dir nm nm' len) m = true) /\
  (forall txid, run_ok (baseline_fetch fd dfd dir nm nm' txid ws) m = true).
Proof. exact ProtoProofs.protocol_ok. Qed.
Print Assumptions protocol_ok.

Theorem acked_txids_stay_covered : forall t,
  publish_ok t = true ->
  forall t1 t2, t = t1 ++ t2 ->
  forall s', crash (run t1 fs_empty) s' ->
  forall p tr l a b, In p (ever_acked t1) -> pcls p = CLtx tr l a b ->
  forall n, a <= n -> n <= b ->
  exists q tq lq aq bq,
    pcls q = CLtx tq lq aq bq /\ compat tq tr /\ aq <= n /\ n <= bq /\
    complete_after (run t1 fs_empty) s' q.
Proof. exact CoverProofs.acked_txids_stay_covered. Qed.
Print Assumptions acked_txids_stay_covered.

(** the legacy v0.3.x restore (RestoreV3): snapshot download flushed before the
    rename, optional SQLite checkpoint phase, directory fsync, for all sizes *)
Theorem restore_v3_ok : forall m fd fd2 dfd dir nm nm' ws ckpt,
  Inv m -> stage_ready m (mkPath dir nm' CTmp) ->
  run_ok (restore_v3 fd fd2 dfd dir nm nm' ws ckpt) m = true.
Proof. exact V3Proofs.restore_v3_ok. Qed.
Print Assumptions restore_v3_ok.

(** content, not only presence: a name acknowledged and not renamed over /
    unlinked since resolves, after a power failure, to exactly the inode
    acknowledged last (a file it replaced cannot reappear), complete *)
Theorem acked_content_exact : forall t,
  publish_ok t = true ->
  forall t1 t2, t = t1 ++ t2 ->
  forall s', crash (run t1 fs_empty) s' ->
  forall p a, In (p, a) (exact_acked t1) ->
    svol s' p = Some a /\
    (strictb p = true -> ivol (sino s' a) = ivol (sino (run t1 fs_empty) a)).
Proof. exact ExactProofs.acked_content_exact. Qed.
Print Assumptions acked_content_exact.

(** directories are objects: an fsync through a descriptor opened on an earlier
    directory object at the same path (before rmdir / mkdir) changes nothing *)
Theorem stale_dir_fsync_noop : forall s fd d g,
  sfd s fd = Some (FDir d g) -> g <> sgen s d -> step s (Fsync fd) = s.
Proof. exact ProtoProofs.stale_dir_fsync_noop. Qed.
Print Assumptions stale_dir_fsync_noop.

(** finding F10 (fixed in /repo by b0f06c5): the fetched-baseline sequence as the code issued it before the fix *)
Theorem baseline_fetch_prefix_refuted : forall fd dir nm nm' txid ws,
  let t := baseline_fetch_prefix fd dir nm nm' txid ws in
  let final := mkPath dir nm (CLtx 0 0 txid txid) in
  publish_ok t = false /\
  In final (acked t) /\
  exists s', crash (run t fs_empty) s' /\ svol s' final = None.
Proof. exact ProtoProofs.baseline_fetch_prefix_refuted. Qed.
Print Assumptions baseline_fetch_prefix_refuted.
