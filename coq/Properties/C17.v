(** C17 — Databases crossing the 1 GiB lock page.  All statements are for every
    commit size; page sizes are the eight valid ones (finite sweep). *)
From Coq Require Import List NArith Bool.
From LS Require Import Base.PMap Ltx.File Ltx.Snapshot Ltx.Apply Ltx.Compact Ltx.SnapshotProofs Ltx.Proofs.
Import ListNotations.
Open Scope N_scope.

(** the lock page of each page size, and that it starts at byte 2^30 *)
Theorem lock_page_values :
  map lockPgno page_sizes = [2097153; 1048577; 524289; 262145; 131073; 65537; 32769; 16385] /\
  forall ps, In ps page_sizes -> (lockPgno ps - 1) * ps = pending_byte /\ 2 <= lockPgno ps.
Proof. split; [exact lock_values|]. intros ps H. split; [exact (lock_offset ps H)|exact (lock_ge_2 ps H)]. Qed.
Print Assumptions lock_page_values.

(** writeLTXFromDB emits exactly [1..commit] minus the lock page, in order *)
Theorem snapshot_pgnos : forall ps commit,
  db_pgnos (lockPgno ps) commit = filter (not_lock (lockPgno ps)) (upto commit) /\
  forall p, In p (db_pgnos (lockPgno ps) commit) <-> 1 <= p <= commit /\ p <> lockPgno ps.
Proof. intros. split; [apply db_pgnos_spec|apply db_pgnos_In]. Qed.
Print Assumptions snapshot_pgnos.

(** and each of those pages is encoded from its own source: the WAL frame of the
    page map, else the database file at (pgno-1)*pageSize *)
Theorem snapshot_content : forall ps commit pm pg,
  pm_get pg (db_content ps commit pm) =
  if (1 <=? pg) && (pg <=? commit) && negb (pg =? lockPgno ps) then Some (db_source ps pm pg) else None.
Proof. exact db_content_spec. Qed.
Print Assumptions snapshot_content.

(** the growth fill of writeLTXFromWAL never emits the lock page; the lock page
    reaches the encoder only if the WAL page map holds it; every file is
    growth-closed and sorted *)
Theorem growth_pgnos : forall lock prev commit keys,
  ~ In lock (growth_fill lock prev commit keys) /\
  (In lock (wal_pgnos lock prev commit keys) <-> In lock keys) /\
  (forall p, prev < p <= commit -> p <> lock -> In p (wal_pgnos lock prev commit keys)) /\
  sortedN (wal_pgnos lock prev commit keys).
Proof.
  intros. split; [apply growth_fill_no_lock|]. split; [apply wal_pgnos_lock|].
  split; [intros p; apply wal_pgnos_growth_closed|apply wal_pgnos_sorted].
Qed.
Print Assumptions growth_pgnos.

(** the incremental sync after ANY growth succeeds: for every previous commit
    (below, at — exactly 1 GiB — or above the lock page), every commit and every
    page map SQLite can produce (distinct pages in 1..commit, never the lock
    page), the encoder accepts what writeLTXFromWAL feeds it *)
Theorem incremental_sync_accepted : forall lock prev commit keys,
  NoDup keys -> (forall k, In k keys -> 1 <= k <= commit /\ k <> lock) ->
  enc_run false lock commit 0 (wal_pgnos lock prev commit keys) = None.
Proof. exact wal_encoder_accepts. Qed.
Print Assumptions incremental_sync_accepted.

(** the encoder accepts writeLTXFromDB's sequence for every valid page size and
    every commit, in snapshot files (including the lock-1 -> lock+1 step) and in
    full images written with a TXID > 1; any sequence containing the lock page
    is rejected *)
Theorem encoder_accepts : forall ps commit,
  In ps page_sizes ->
  enc_run true (lockPgno ps) commit 0 (db_pgnos (lockPgno ps) commit) = None /\
  enc_run false (lockPgno ps) commit 0 (db_pgnos (lockPgno ps) commit) = None /\
  forall s prev l, In (lockPgno ps) l -> enc_run s (lockPgno ps) commit prev l <> None.
Proof.
  intros ps commit H. pose proof (lock_ge_2 ps H) as L.
  split; [apply (enc_accepts_db_snapshot _ commit commit L); apply N.le_refl|].
  split; [apply (enc_accepts_db_incremental _ commit commit L); apply N.le_refl|].
  intros s prev l. apply enc_rejects_lock.
Qed.
Print Assumptions encoder_accepts.

(** DecodeDatabaseTo: Commit pages; every page but the lock page is the file's
    page; the lock page inside the database is empty and never comes from the file *)
Theorem decode_lock_zero : forall f d,
  decode_db f = Ok d ->
  isz d = f_commit f /\
  (forall p, 1 <= p <= f_commit f -> p <> lockPgno (f_ps f) -> pm_get p (f_pages f) = Some (img_get d p)) /\
  img_get d (lockPgno (f_ps f)) = zero_page /\
  pm_get (lockPgno (f_ps f)) (f_pages f) = None /\
  (forall p, f_commit f < p -> pm_get p (f_pages f) = None).
Proof. exact decode_db_spec. Qed.
Print Assumptions decode_lock_zero.

Theorem compact_never_adds_lock : forall first rest c,
  let fs := first :: rest in
  Forall (fun f => sorted_gt 0 (f_pages f)) fs ->
  compact fs = Ok c ->
  pm_get (lockPgno (f_ps first)) (f_pages c) = None /\
  forall p, pm_get p (f_pages c) <> None -> exists f, In f fs /\ pm_get p (f_pages f) <> None.
Proof. exact Proofs.compact_never_adds_lock. Qed.
Print Assumptions compact_never_adds_lock.

(** hypotheses are satisfiable: a 64 KiB-page database three pages past the lock page *)
Example c17_example :
  to_ranges (db_pgnos (lockPgno 65536) 16388) = [(1, 16384); (16386, 16388)] /\
  to_ranges (wal_pgnos (lockPgno 65536) 16383 16388 [3; 16387]) = [(3, 3); (16384, 16384); (16386, 16388)].
Proof. split; vm_compute; reflexivity. Qed.
