(** C13 — Checkpoint policy keeps the WAL bounded and an idle database silent.

    Model: Policy/Policy.v (db.go: calcWALSize, exceedsTruncateThreshold,
    effectiveTruncatePageN, checkpointIfNeeded with the flag bookkeeping of
    checkpointWithExecutor, the gate of syncLocked, the Sync loop) and the
    live-WAL-generation state machine.  Every statement quantifies over ALL
    configurations (c : cfg) with an SQLite page size, ALL histories / ALL
    numbers of idle syncs and ALL answers of the mtime rule.  Explicit premises
    = assumed environment: page size in SQLite's range; the seq bump writes
    b >= 1 frames; a checkpoint with no application transaction open and nothing
    busy backfills everything, so the seq bump starts a new generation (built
    into [sync] through Policy.ck_free; validated by the harness entry
    policy_sync on every run). *)
From Coq Require Import List ZArith Bool.
From LS Require Import Policy.Policy Policy.Proofs.
Import ListNotations.
Open Scope Z_scope.

(** After ANY history of application commits, Syncs and process restarts, a Sync
    succeeds, leaves nothing pending and the live generation holds fewer than
    max(1, MinCheckpointPageN) + b frames. *)
Theorem wal_bounded : forall c b, 0 < c_ps c <= 65536 -> 1 <= b ->
  forall n0 h el, 1 <= n0 -> Forall valid_step h ->
  exists s nf s' nf' att,
    run c b h (init n0) = Some (s, nf) /\ sync c b el s = Some (s', nf', att) /\
    a_pend s' = [] /\ live_frames s' < Z.max 1 (umin c) + b.
Proof. exact wal_bounded_lemma. Qed.
Print Assumptions wal_bounded.

(** The bound in terms of the lowest configured threshold, for every
    configuration whose truncate threshold is not below the passive one. *)
Theorem wal_bounded_lowest_threshold : forall c b, 0 < c_ps c <= 65536 -> 1 <= b ->
  forall n0 h el, 1 <= n0 -> Forall valid_step h ->
  1 <= umin c -> (trunc_enabled c = true -> umin c <= utrunc c) ->
  exists s nf s' nf' att,
    run c b h (init n0) = Some (s, nf) /\ sync c b el s = Some (s', nf', att) /\
    a_pend s' = [] /\ live_frames s' < low_threshold c + b.
Proof. exact wal_bounded_low_lemma. Qed.
Print Assumptions wal_bounded_lowest_threshold.

(** ... and for the remaining configurations (TruncatePageN < MinCheckpointPageN)
    the literal bound is violated by one Sync (finding), ... *)
Theorem wal_bounded_refuted_trunc_below_min :
  exists c b h s nf, 1 <= low_threshold c /\ 1 <= b /\ Forall valid_step h /\
    run c b (h ++ [Sync (fun _ => true)]) (init 1) = Some (s, nf) /\
    a_pend s = [] /\ low_threshold c + b <= live_frames s.
Proof. exact wal_bounded_refuted_trunc_below_min_lemma. Qed.
Print Assumptions wal_bounded_refuted_trunc_below_min.

(** ... and restored by the next one: a Sync that starts caught up ends below
    the lowest threshold + b, for every configuration. *)
Theorem wal_bounded_one_sync_later : forall c b, 0 < c_ps c <= 65536 -> 1 <= b ->
  forall el s, wf c s -> a_pend s = [] -> a_off s <> 0 -> 1 <= low_threshold c ->
  exists s' nf att, sync c b el s = Some (s', nf, att) /\ a_pend s' = [] /\ live_frames s' < low_threshold c + b.
Proof. exact wal_bounded_caught_up_lemma. Qed.
Print Assumptions wal_bounded_one_sync_later.

(** A limited chunk still reaches the truncate check: whatever [limited] and
    [syncedToWALEnd] are, an offset past the truncate threshold makes this very
    iteration checkpoint, leaving only the b bookkeeping frames. *)
Theorem truncate_not_starved : forall c b, 0 < c_ps c <= 65536 -> 1 <= b ->
  forall el s, wf c s ->
  exceedsTruncateThreshold c (orig_of c s) = true ->
  let r := sync_once c b el s in
  o_attempts r <> [] /\ live_frames (o_st r) = b.
Proof. exact truncate_not_starved_lemma. Qed.
Print Assumptions truncate_not_starved.

(** idle_silent, K: when every threshold exceeds the b bookkeeping frames, then
    from any state of the invariant (every reachable state is one: [run_inv]) any
    number of further Syncs creates at most cost(pending) + 1 files in total:
    <= 2 when MaxSyncWALBytes = 0 (one for everything pending, one written by
    the checkpoint), <= 1 from a caught-up state, never more than one per
    pending transaction + 1. *)
Theorem idle_silent : forall c b, 0 < c_ps c <= 65536 -> 1 <= b ->
  b < umin c -> (trunc_enabled c = true -> b < utrunc c) ->
  forall (els : list (nat -> bool)) s, Inv c b s ->
  exists s' nf, run c b (map (@Sync) els) s = Some (s', nf) /\
    nf <= cost c (a_pend s) + 1 /\ nf <= Z.of_nat (length (a_pend s)) + 1 /\
    (c_maxb c <= 0 -> nf <= 2) /\ (a_pend s = [] -> nf <= 1).
Proof. exact idle_total_lemma. Qed.
Print Assumptions idle_silent.

Theorem reachable_states_satisfy_inv : forall c b, 0 < c_ps c <= 65536 -> 1 <= b ->
  forall n0 h, 1 <= n0 -> Forall valid_step h ->
  exists s nf, run c b h (init n0) = Some (s, nf) /\ Inv c b s.
Proof. exact reachable_inv_lemma. Qed.
Print Assumptions reachable_states_satisfy_inv.

(** "... and then none": a Sync in which a checkpoint ran ends in a state that is
    a fixpoint of Sync (no file, no checkpoint, same state), whatever the mtime rule says. *)
Theorem idle_fixpoint : forall c b, 0 < c_ps c <= 65536 -> 1 <= b ->
  b < umin c -> (trunc_enabled c = true -> b < utrunc c) ->
  forall el s, wf c s ->
  (o_attempts (sync_once c b el s) <> [] -> quietb c b (o_st (sync_once c b el s)) = true) /\
  (quietb c b s = true -> forall el', sync c b el' s = Some (s, 0, [])).
Proof. exact idle_fixpoint_lemma. Qed.
Print Assumptions idle_fixpoint.

(** Without that premise idle silence fails (finding): with MinCheckpointPageN = 1
    (resp. TruncatePageN = 1) k idle Syncs create k (resp. 2k) files, for every k. *)
Theorem idle_silent_refuted_threshold_le_b : forall els : list (nat -> bool),
  run c_min1 1 (map (@Sync) els) (s_quiet c_min1) = Some (s_quiet c_min1, Z.of_nat (length els)) /\
  run c_trunc1 1 (map (@Sync) els) (s_quiet c_trunc1) = Some (s_quiet c_trunc1, 2 * Z.of_nat (length els)).
Proof. exact idle_silent_refuted_threshold_le_b_lemma. Qed.
Print Assumptions idle_silent_refuted_threshold_le_b.

(** With an application read transaction pinned open it fails as well (finding):
    12 idle Syncs, more than 3 files, and the WAL grows. *)
Theorem idle_pinned_refuted :
  exists c b s s' nf, wf c s /\ a_pend s = [] /\ run_pinned c b 12 s 0 = Some (s', nf) /\ 3 < nf /\
    live_frames s < live_frames s'.
Proof. exact idle_pinned_refuted_lemma. Qed.
Print Assumptions idle_pinned_refuted.

(** * The loop of DB.Sync and the policy gate of syncLocked are those of the current source

    The policy model evaluates checkpointIfNeeded once per chunk that is not limited, or that
    reached the end of the WAL, or that exceeds the truncate threshold, and DB.Sync keeps
    draining while a chunk was limited and did not reach the end ([Gen.Skeleton], regenerated
    from db.go by tools/gen/skeleton.go; [Db.Skeleton] is the structure the model was written
    against).  A new exit from the loop (seed C13d) or a changed gate breaks this obligation. *)
From LS Require Gen.Skeleton Db.Skeleton.

Theorem sync_loop_skeleton_agrees :
  Gen.Skeleton.skel_Sync = Db.Skeleton.expected_Sync.
Proof. reflexivity. Qed.
Print Assumptions sync_loop_skeleton_agrees.

Theorem sync_locked_skeleton_agrees :
  Gen.Skeleton.skel_syncLocked = Db.Skeleton.expected_syncLocked.
Proof. reflexivity. Qed.
Print Assumptions sync_locked_skeleton_agrees.
