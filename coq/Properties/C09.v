(** C09 — placeholder until Wal/Proofs.v lands; see below *)
From LS Require Import Wal.Reader Wal.Sqlite.
