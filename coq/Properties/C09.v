(** C09 — Only frames SQLite itself treats as committed are ever replicated.

    Model: Wal/Reader.v (wal_reader.go).  Specification: Wal/Sqlite.v (wal.c).
    Every statement quantifies over ALL byte strings [w] (no bound on length or
    number of frames).  The input class of the property excludes (a) page sizes
    SQLite itself rejects and (b) salt- and checksum-valid frames carrying page
    number 0 (SQLite stops there, litestream reads on and the LTX encoder then
    rejects page 0); both guards are explicit hypotheses. *)
From Coq Require Import List NArith Bool.
From LS Require Import Base.Bytes Base.PMap Wal.Reader Wal.Sqlite Wal.Proofs Wal.Examples.
Import ListNotations.
Open Scope N_scope.

(** PageMap over the whole file returns exactly SQLite's recovered view: page
    [pg] is mapped iff SQLite would serve it from the WAL (latest frame at or
    before the last valid commit frame, and pg <= committed database size), to
    that frame's offset; the commit value is SQLite's database size. *)
Theorem pagemap_is_sqlite_recovery : forall w r,
  read_header w = HdrOk r -> is_pow2_in_range (r_ps r) = true ->
  no_pgno0 (ls_valid_prefix (r_bo r) (r_s1 r) (r_s2 r) (r_c1 r, r_c2 r) (wal_frames (r_ps r) w)) ->
  exists s, sq_recover w = Some s /\
    let p := page_map (wal_frames (r_ps r) w) r 0 in
    (forall pg, pm_get pg (pr_map p) = option_map (frame_offset (r_ps r)) (sq_visible s pg)) /\
    (pr_map p <> [] -> pr_commit p = sq_nPage s) /\
    (pr_map p = [] -> pr_commit p = 0 /\ pr_end p = 0) /\
    pr_limited p = false.
Proof. exact pagemap_is_sqlite_recovery_lemma. Qed.
Print Assumptions pagemap_is_sqlite_recovery.

(** Nothing at or after the first invalid frame — indeed nothing after the last
    valid commit frame — is in the map; the returned end offset never passes
    that commit frame, covers every mapped frame, and equals the end of the
    commit frame whenever that frame's own page is within the database size
    (always so for WALs SQLite wrote; otherwise the end is smaller and the next
    sync re-reads, never skips).  For any reader position. *)
Theorem pagemap_nothing_after_invalid : forall fs r,
  let fsz := frame_size (r_ps r) in
  let vp := ls_valid_prefix (r_bo r) (r_s1 r) (r_s2 r) (r_c1 r, r_c2 r)
                            (skipn (N.to_nat (r_frameN r)) fs) in
  let p := page_map fs r 0 in
  let mx := fst (mxr vp) in
  pr_map p <> [] ->
  pr_end p <= off_of (foff r) fsz mx /\
  off_of (foff r) fsz mx <= off_of (foff r) fsz (length vp) /\
  (forall pg off, pm_get pg (pr_map p) = Some off -> off + fsz <= pr_end p) /\
  (forall pre pgl, firstn mx vp = pre ++ [(pgl, snd (mxr vp))] -> pgl <= snd (mxr vp) ->
     pr_end p = off_of (foff r) fsz mx).
Proof. exact pagemap_end_bounds_lemma. Qed.
Print Assumptions pagemap_nothing_after_invalid.

(** Appending any frames without a commit marker (valid or garbage) changes nothing. *)
Theorem pagemap_uncommitted_tail_ignored : forall fs tail r,
  Forall (fun f => be32 f 4 = 0) tail ->
  (N.to_nat (r_frameN r) <= length fs)%nat ->
  let p := page_map fs r 0 in
  let p' := page_map (fs ++ tail) r 0 in
  pr_map p' = pr_map p /\ pr_end p' = pr_end p /\ pr_commit p' = pr_commit p /\
  pr_limited p' = pr_limited p.
Proof. exact pagemap_uncommitted_tail_ignored_lemma. Qed.
Print Assumptions pagemap_uncommitted_tail_ignored.

(** litestream reads a header only if SQLite accepts it (same fields), and
    conversely except for page sizes SQLite does not support. *)
Theorem header_accept_eq_sqlite : forall w bo ps s1 s2 c1 c2,
  sq_read_header w = SqHdrOk bo ps s1 s2 c1 c2 ->
  read_header w = HdrOk (mkRd 0 bo ps (be32 w 12) s1 s2 c1 c2).
Proof. exact header_sqlite_to_reader. Qed.
Print Assumptions header_accept_eq_sqlite.

Theorem header_reject_eq_sqlite : forall w,
  sq_read_header w = SqHdrIgnored \/ sq_read_header w = SqHdrCantOpen ->
  (exists r, read_header w = HdrOk r /\ is_pow2_in_range (r_ps r) = false)
  \/ read_header w = HdrEOF \/ read_header w = HdrErr.
Proof. exact header_reject. Qed.
Print Assumptions header_reject_eq_sqlite.

(** Resuming at the end of frame k (k >= 1) of a chain that verifies from the
    header yields exactly the state of the sequential reader after k frames —
    same position, salts and running checksum — hence every later read, page
    map and end offset coincide with the sequential ones. *)
Theorem resume_equiv : forall w r0 k rk,
  read_header w = HdrOk r0 ->
  seq_read r0 (wal_frames (r_ps r0) w) (S k) = Some rk ->
  new_reader_with_offset w (WALHeaderSize + N.of_nat (S k) * frame_size (r_ps r0))
                         (r_s1 r0) (r_s2 r0) = OffOk rk.
Proof. exact resume_equiv_lemma. Qed.
Print Assumptions resume_equiv.
