(** C08 — Restore plans are valid chains and are found whenever one exists.
    Model: Plan/Planner.v ([calc_restore_plan] = CalcRestorePlan with its
    per-level cursors); spec: Plan/Spec.v ([valid_chain]).  All statements are
    for every listing (any number of files and levels' contents), every target
    TXID and every timestamp.  Hypotheses: [wf_listing] (1 <= min <= max, level-9
    files start at 1) and, for completeness, [sorted_listing] (each level is
    listed in (min,max) order, as every client's iterator does). *)
From Coq Require Import List NArith.
From LS Require Import Plan.Planner Plan.Spec Plan.Proofs Plan.OracleProofs.
Open Scope N_scope.

Theorem plan_sound : forall fs tgt ts p,
  wf_listing fs -> calc_restore_plan fs tgt ts = POk p -> valid_chain (all_files fs) tgt ts p.
Proof. exact Proofs.plan_sound. Qed.
Print Assumptions plan_sound.

Theorem plan_complete : forall fs tgt ts,
  wf_listing fs -> sorted_listing fs -> (tgt = 0 \/ ts = 0) ->
  (exists q, valid_chain (all_files fs) tgt ts q) ->
  (exists p, calc_restore_plan fs tgt ts = POk p) \/
  (tgt = 0 /\ ts = 0 /\ calc_restore_plan fs tgt ts = PErr EGap).
Proof. exact Proofs.plan_complete. Qed.
Print Assumptions plan_complete.

Theorem plan_end_max : forall fs tgt ts p q,
  wf_listing fs -> sorted_listing fs ->
  calc_restore_plan fs tgt ts = POk p -> valid_chain (all_files fs) tgt ts q ->
  chain_end q <= chain_end p.
Proof. exact Proofs.plan_end_max. Qed.
Print Assumptions plan_end_max.

Theorem plan_latest_reaches_everything : forall fs p,
  wf_listing fs -> sorted_listing fs -> calc_restore_plan fs 0 0 = POk p ->
  forall f, In f (all_files fs) -> f_max f <= chain_end p.
Proof. exact Proofs.plan_latest_reaches_everything. Qed.
Print Assumptions plan_latest_reaches_everything.

Theorem plan_gap_iff : forall fs,
  wf_listing fs -> sorted_listing fs ->
  (calc_restore_plan fs 0 0 = PErr EGap <->
   exists q, valid_chain (all_files fs) 0 0 q /\
             (forall q', valid_chain (all_files fs) 0 0 q' -> chain_end q' <= chain_end q) /\
             exists f, In f (all_files fs) /\ chain_end q + 1 < f_min f).
Proof. exact Proofs.plan_gap_iff. Qed.
Print Assumptions plan_gap_iff.

Theorem plan_fuel : forall fs tgt ts, calc_restore_plan fs tgt ts <> PErr EFuel.
Proof. exact Proofs.plan_fuel. Qed.
Print Assumptions plan_fuel.

Theorem ts_no_future : forall fs tgt ts p,
  calc_restore_plan fs tgt ts = POk p -> ts <> 0 -> forall f, In f p -> f_created f < ts.
Proof. exact Proofs.ts_no_future. Qed.
Print Assumptions ts_no_future.

Theorem ts_monotone : forall fs t1 t2 p1,
  wf_listing fs -> sorted_listing fs -> t1 <> 0 -> t1 <= t2 ->
  calc_restore_plan fs 0 t1 = POk p1 ->
  exists p2, calc_restore_plan fs 0 t2 = POk p2 /\ chain_end p1 <= chain_end p2.
Proof. exact Proofs.ts_monotone. Qed.
Print Assumptions ts_monotone.

Theorem plan_notavail_iff : forall fs tgt ts,
  wf_listing fs -> sorted_listing fs -> (tgt = 0 \/ ts = 0) ->
  (calc_restore_plan fs tgt ts = PErr ETxNotAvailable <-> ~ exists q, valid_chain (all_files fs) tgt ts q).
Proof. exact Proofs.plan_notavail_iff. Qed.
Print Assumptions plan_notavail_iff.

(** the two spec oracles of the correspondence run decide the spec's propositions *)
Theorem oracle_valid_chain_is_spec : forall fs tgt ts p,
  valid_chainb fs tgt ts p = true <-> valid_chain fs tgt ts p.
Proof. exact OracleProofs.valid_chainb_spec. Qed.
Print Assumptions oracle_valid_chain_is_spec.

Theorem oracle_chain_exists_is_spec : forall fs tgt ts,
  chain_existsb fs tgt ts = true <-> exists q, valid_chain fs tgt ts q.
Proof. exact OracleProofs.chain_existsb_spec. Qed.
Print Assumptions oracle_chain_exists_is_spec.

Theorem oracle_reach_max_is_spec : forall fs ts,
  let r := maxN (reach_set fs ts) in
  (r = 0 \/ exists q, valid_chain fs 0 ts q /\ chain_end q = r) /\
  forall q, valid_chain fs 0 ts q -> chain_end q <= r.
Proof. exact OracleProofs.reach_max_spec. Qed.
Print Assumptions oracle_reach_max_is_spec.

(** documented boundary of [wf_listing]: a level-9 file not starting at 1 *)
Theorem plan_nonmin1_snapshot_refuted :
  exists fs p, calc_restore_plan fs 0 0 = POk p /\ ~ valid_chain (all_files fs) 0 0 p.
Proof. exact Proofs.plan_nonmin1_snapshot_refuted. Qed.
Print Assumptions plan_nonmin1_snapshot_refuted.
