(** C18 — a VFS read replica serves the same pages as a full restore.

    Open time: proved for every growth-closed plan (page contents and commit);
    the FileSize half holds when no file of the plan has a larger commit than
    the last one and is refuted otherwise.
    Polling: the unrestricted statement is refuted (three witnesses: partial
    shrink F4, stale L1 F5, L1 below a grown L0); the positive theorem is proved
    on the domain (M) no shrinking commit after the file's L1 position, (R) first
    consumed L1 file's commit not below the position reached through L0, (S) L1,
    if consumed, ends at or beyond the position reached through L0. *)
From Coq Require Import List NArith Bool.
From LS Require Import Base.PMap Vfs.Index Vfs.Poll Vfs.Restore Vfs.Domain Vfs.World
                       Vfs.OpenProofs Vfs.PollProofs Vfs.TimeTravel Vfs.TimeTravelProofs Vfs.Hydration Vfs.HydrationProofs.
Import ListNotations.
Open Scope N_scope.

Theorem vfs_open_refines_restore : forall lockp fs,
  gc_chain lockp 0 fs ->
  let v := vfs_open_model fs in
  let img := restore_plan fs in
  fst img = last_commit fs 0 /\
  v_commit v = fst img /\
  (forall p, 1 <= p <= fst img -> p <> lockp ->
     exists e, read_lookup v p = Some e /\ pm_get p (snd img) = Some e) /\
  (open_size_domain fs = true -> fst img <> lockp -> file_size_pages v = fst img).
Proof. exact open_refines_restore. Qed.
Print Assumptions vfs_open_refines_restore.

Theorem vfs_open_filesize_after_shrink_refuted :
  exists lockp fs,
    gc_chain lockp 0 fs /\ fst (restore_plan fs) <> lockp /\
    file_size_pages (vfs_open_model fs) <> fst (restore_plan fs).
Proof. exact open_filesize_after_shrink_refuted. Qed.
Print Assumptions vfs_open_filesize_after_shrink_refuted.

(** the intended theorem [vfs_poll_refines_restore], on the domain where it holds *)
Theorem vfs_poll_refines_restore_on_domain : forall lockp w v l0 l1 v',
  gc_world lockp w ->
  Forall (is_compaction w) l0 -> Forall (is_compaction w) l1 ->
  good lockp w v ->
  let p0 := polled (ltx_files l0 (v_pos v + 1)) (v_pos v) in
  let m0 := last_max p0 (v_pos v) in
  let p1 := polled (ltx_files l1 (v_max1 v + 1)) (v_max1 v) in
  mono_from w (v_max1 v) ->
  match p1 with [] => True | g :: _ => cm w m0 <= f_commit g end ->
  (p1 = [] \/ m0 <= last_max p1 (v_max1 v)) ->
  poll v l0 l1 = Some v' ->
  good lockp w v' /\
  (cm w (v_pos v') <> lockp -> file_size_pages v' = cm w (v_pos v')).
Proof. exact poll_refines_restore_on_domain. Qed.
Print Assumptions vfs_poll_refines_restore_on_domain.

(** [vfs_poll_refines_restore] without the domain is false *)
Theorem vfs_poll_refines_restore_refuted :
  ~ (forall lockp w v l0 l1 v',
        gc_world lockp w -> Forall (is_compaction w) l0 -> Forall (is_compaction w) l1 ->
        good lockp w v -> poll v l0 l1 = Some v' -> good lockp w v').
Proof. exact poll_refines_restore_unrestricted_refuted. Qed.
Print Assumptions vfs_poll_refines_restore_refuted.

Theorem vfs_poll_partial_shrink_refuted :
  exists lockp w v l0 l1 v',
    gc_world lockp w /\ Forall (is_compaction w) l0 /\ Forall (is_compaction w) l1 /\
    good lockp w v /\ l1 = [] /\
    poll v l0 l1 = Some v' /\
    (1 <= 2 <= cm w (v_pos v') /\ 2 <> lockp /\ read_lookup v' 2 = None) /\
    file_size_pages v' <> cm w (v_pos v') /\
    ~ idx_good lockp w (v_pos v') (v_index v').
Proof. exact poll_partial_shrink_refuted. Qed.
Print Assumptions vfs_poll_partial_shrink_refuted.

Theorem vfs_poll_l1_over_l0_refuted :
  exists lockp w v l0 l1 v',
    gc_world lockp w /\ Forall (is_compaction w) l0 /\ Forall (is_compaction w) l1 /\
    good lockp w v /\ mono_from w (v_max1 v) /\
    poll v l0 l1 = Some v' /\ v_pos v' = 3 /\
    read_lookup v' 2 = Some (mkElem 1 2 2) /\ pg w 3 2 = true /\
    file_size_pages v' = cm w (v_pos v') /\
    ~ idx_good lockp w (v_pos v') (v_index v').
Proof. exact poll_l1_over_l0_refuted. Qed.
Print Assumptions vfs_poll_l1_over_l0_refuted.

Theorem vfs_poll_l1_false_shrink_refuted :
  exists lockp w v l0 l1 v',
    gc_world lockp w /\ Forall (is_compaction w) l0 /\ Forall (is_compaction w) l1 /\
    good lockp w v /\ mono_from w (v_max1 v) /\
    poll v l0 l1 = Some v' /\ v_pos v' = 3 /\ v_max1 v' = 3 /\
    (1 <= 3 <= cm w (v_pos v') /\ 3 <> lockp /\ read_lookup v' 3 = None) /\
    ~ idx_good lockp w (v_pos v') (v_index v').
Proof. exact poll_l1_false_shrink_refuted. Qed.
Print Assumptions vfs_poll_l1_false_shrink_refuted.

(** a poll applied through the pending index by Unlock equals the poll applied directly *)
Theorem vfs_poll_pending_equiv : forall v l0 l1 vs vu,
  v_lock v = LockNone -> v_pending v = [] -> v_pending_replace v = false ->
  poll (mkVfs (v_index v) (v_pending v) (v_pending_replace v) (v_pos v) (v_max1 v) (v_commit v) LockShared) l0 l1 = Some vs ->
  poll v l0 l1 = Some vu ->
  exists vs', unlock vs LockNone = Some vs' /\
    (forall p, pm_get p (v_index vs') = pm_get p (v_index vu)) /\
    v_pending vs' = v_pending vu /\ v_pending_replace vs' = v_pending_replace vu /\
    v_pos vs' = v_pos vu /\ v_max1 vs' = v_max1 vu /\ v_commit vs' = v_commit vu /\ v_lock vs' = v_lock vu.
Proof. exact poll_locked_then_unlock. Qed.
Print Assumptions vfs_poll_pending_equiv.

(** last clause of C18: a time-travel view equals the timestamp restore for that
    time, from any state (pending index staged under a read lock included) and
    under every later interleaving of Lock / Unlock / Poll *)
Theorem vfs_timetravel_view_is_timestamp_restore : forall lockp s plan ops s1,
  gc_chain lockp 0 plan ->
  tstep s (OSetTarget plan) = Some s1 ->
  forallb lock_unlock_or_poll ops = true ->
  t_target (trun s1 ops) = true /\ serves_restore_of lockp plan (t_v (trun s1 ops)).
Proof. exact timetravel_view_is_timestamp_restore. Qed.
Print Assumptions vfs_timetravel_view_is_timestamp_restore.

Theorem vfs_reset_view_is_latest_restore : forall lockp s plan ops s1,
  gc_chain lockp 0 plan ->
  tstep s (OReset plan) = Some s1 ->
  forallb lock_or_unlock ops = true ->
  t_target (trun s1 ops) = false /\ serves_restore_of lockp plan (t_v (trun s1 ops)).
Proof. exact reset_view_is_latest_restore. Qed.
Print Assumptions vfs_reset_view_is_latest_restore.

(** hydration: the hydrated file holds the versions the index serves, on every
    schedule that does not call ResetTime while hydrated reads are on *)
Theorem vfs_hydrated_image_agrees_with_index : forall ops s,
  HInv s -> safe s ops -> HInv (hrun s ops).
Proof. exact hydrated_image_agrees_with_index. Qed.
Print Assumptions vfs_hydrated_image_agrees_with_index.

Theorem vfs_hydrated_read_is_index_read : forall s ops p e,
  HInv s -> safe s ops ->
  let s' := hrun s ops in
  N.ltb (v_lock (t_v (h_t s'))) LockShared = true ->
  read_lookup (t_v (h_t s')) p = Some e -> hread s' p = Some e.
Proof. exact hydrated_read_is_index_read. Qed.
Print Assumptions vfs_hydrated_read_is_index_read.

Theorem vfs_reset_while_hydrated_refuted :
  exists s plan s',
    HInv s /\ h_on s = true /\ hstep s (HOp (OReset plan)) = Some s' /\
    v_pos (t_v (h_t s')) = 2 /\
    read_lookup (t_v (h_t s')) 1 = Some (mkElem 0 2 2) /\
    hread s' 1 = Some (mkElem 0 1 1) /\ ~ HInv s'.
Proof. exact reset_while_hydrated_refuted. Qed.
Print Assumptions vfs_reset_while_hydrated_refuted.
