(** C03 — killing litestream at any instant loses nothing acknowledged *)
From Coq Require Import List NArith Bool.
From LS Require Import Fs.Model Fs.Monitor Fs.Publish Fs.Proofs Fs.ProtoProofs.
Import ListNotations.
Open Scope N_scope.

Theorem kill_anywhere : forall s0 fd dfd dir nm nm' ws k,
  wf s0 ->
  let tmp := mkPath dir nm' CTmp in
  let good (t : list syscall) (final : path) :=
    let s := kill (run (firstn k t) s0) in
    (read s final = read s0 final \/ read s final = Some (fresh_content tmp s0 ++ wlog 0 ws)) /\
    (forall q, q <> tmp -> q <> final -> read s q = read s0 q) in
  (forall txid, good (local_l0 fd dfd dir nm nm' txid ws) (mkPath dir nm (CLtx 0 0 txid txid))) /\
  (forall level mn mx, good (replica_write fd dfd dir nm nm' level mn mx ws) (mkPath dir nm (CLtx 1 level mn mx))) /\
  good (restore_output fd dfd dir nm nm' ws) (mkPath dir nm (CFinal false)) /\
  (forall txid, good (baseline_fetch_prefix fd dir nm nm' txid ws) (mkPath dir nm (CLtx 0 0 txid txid))) /\
  (forall txid, good (baseline_fetch fd dfd dir nm nm' txid ws) (mkPath dir nm (CLtx 0 0 txid txid))).
Proof. exact ProtoProofs.kill_anywhere. Qed.
Print Assumptions kill_anywhere.

Theorem kill_anywhere_sidecar : forall s0 fd dfd dir nm nm' len k,
  wf s0 ->
  let tmp := mkPath dir nm' CTmp in
  let final := mkPath dir nm (CFinal false) in
  let s := kill (run (firstn k (txid_sidecar fd dfd dir nm nm' len)) s0) in
  (read s final = read s0 final \/ read s final = Some (fresh_content tmp s0 ++ [W 0 len])) /\
  (forall q, q <> tmp -> q <> final -> read s q = read s0 q).
Proof. exact ProtoProofs.kill_anywhere_sidecar. Qed.
Print Assumptions kill_anywhere_sidecar.

Theorem kill_anywhere_gen : forall s0 fd tmp final ws tail k,
  wf s0 -> tmp <> final -> Forall harmless tail ->
  let t := stage fd tmp ws ++ Rename tmp final :: tail in
  let s := kill (run (firstn k t) s0) in
  (read s final = read s0 final \/
   read s final = Some (fresh_content tmp s0 ++ wlog 0 ws)) /\
  (forall q, q <> tmp -> q <> final -> read s q = read s0 q).
Proof. exact ProtoProofs.kill_anywhere_gen. Qed.
Print Assumptions kill_anywhere_gen.

Theorem wf_reachable : forall t, wf (run t fs_empty).
Proof. exact ProtoProofs.wf_reachable. Qed.
Print Assumptions wf_reachable.

Theorem kill_sound : forall t,
  publish_ok t = true ->
  forall t1 t2, t = t1 ++ t2 ->
  let m := mrun t1 m_init in
  let s := kill (mfs m) in
  (forall p ino, strictb p = true -> svol s p = Some ino ->
       mpub m ino = true /\ idirty (sino s ino) = false /\
       forall t3 t4, t2 = t3 ++ t4 -> ivol (sino (mfs (mrun t3 m)) ino) = ivol (sino s ino)) /\
  (forall p, In p (acked t1) -> exists ino, svol s p = Some ino).
Proof. exact Proofs.kill_sound. Qed.
Print Assumptions kill_sound.
