(** [sx -> sx] entry point tying the checkpoint control flow of Db/Machine.v to
    db.go:checkpointWithExecutor by trace conformance: the decisions taken
    after the PRAGMA ([Machine.mid_restarted], [Machine.ck_decide] — the very
    functions the step function uses in [LsUnlock] and [LsCmpHdr]) are
    recomputed from what the harness observes of one litestream Checkpoint call
    and compared with the branch the implementation took. *)
From Coq Require Import List NArith ZArith Bool.
From LS Require Import Base.Sx Base.Bytes Wal.Reader Db.Image Db.Machine Db.Verify.
Import ListNotations.
Open Scope N_scope.

Definition dec_mode (n : N) : mode :=
  match n with 0 => Passive | 1 => Full | 2 => Restart | _ => Truncate end.

Definition ckdec_code (d : ckdec) : N :=
  match d with DNotRestarted => 0 | DRecopy => 1 | DBoundary => 2 end.

(** the decisions of the control flow from the observed quantities: [hdr],
    [mid], [post], [oth] = salts of the -wal header before the call, right after
    the PRAGMA (read lock re-acquired), just before the bump (after the copy of
    commit 6edd82b, if made: what the re-read of commit bb88a29 sees), after the
    bump; generations are compared only for equality, so [hdr] is generation 0.
    Result: (is the copy after the checkpoint made?, branch after the bump) *)
Definition ck_observed (midcheck postcopy recheck : bool) (m : mode)
           (hdr mid post oth : N * N) (pre wn : N) : bool * ckdec :=
  let same (a b : N * N) := N.eqb (fst a) (fst b) && N.eqb (snd a) (snd b) in
  let gmid := if same hdr mid then O else 1%nat in
  let gpost := if same hdr post then O else 1%nat in
  let goth := if same hdr oth then O else 1%nat in
  let rb := mid_restarted midcheck m O gmid in
  let copied := needs_post postcopy m rb in
  let rb' := if copied then post_rb recheck O gpost else rb in
  (copied, ck_decide m O goth (if N.leb wn pre then 1%nat else O) 1%nat rb').

Definition run_ck (midcheck postcopy recheck : bool) (x : sx) : sx :=
  let m := dec_mode (asN (nthx 0 x)) in
  let hdr := (asN (nthx 1 x), asN (nthx 2 x)) in
  let mid := (asN (nthx 3 x), asN (nthx 4 x)) in
  let post := (asN (nthx 5 x), asN (nthx 6 x)) in
  let oth := (asN (nthx 7 x), asN (nthx 8 x)) in
  let r := ck_observed midcheck postcopy recheck m hdr mid post oth (asN (nthx 9 x)) (asN (nthx 10 x)) in
  SL [sxN (ckdec_code (snd r)); sxB (fst r)].

(** input  [mode; hdr_s1; hdr_s2; mid_s1; mid_s2; post_s1; post_s2; oth_s1; oth_s2; pre; wn]
            mode: 0 PASSIVE, 1 FULL, 2 RESTART, 3 TRUNCATE;
            pre = preCheckpointFrameN, wn = walFrameN (second column of the PRAGMA's row)
    output [d; c]  d = 0: header unchanged, return; 1: re-copy through verify; 2: boundary snapshot;
                   c = 1 iff a verifyAndSync runs between the PRAGMA and the bump
    /repo HEAD = all three repairs *)
Definition machine_ck (x : sx) : sx := run_ck true true true x.

(** the same computation for the earlier control flows (not entries) *)
Definition machine_ck_no_recheck (x : sx) : sx := run_ck true true false x.
Definition machine_ck_no_postcopy (x : sx) : sx := run_ck true false false x.
Definition machine_ck_unfixed (x : sx) : sx := run_ck false false false x.

(** the three scenario shapes (FULL):
    ckpt-window: header changed before the PRAGMA returned, again by the bump, walFrameN 1 <= pre 2;
    ckpt-post-pragma-window: header unchanged until the bump, walFrameN 2 <= pre 2;
    ckpt-post-copy-window: header unchanged at the re-read after the PRAGMA, changed
    before the bump (during the copy), bump appended, walFrameN 2 <= pre 2 *)
Example machine_ck_window :
  let w1 := SL [sxN 1; sxN 10; sxN 7; sxN 11; sxN 8; sxN 11; sxN 8; sxN 12; sxN 9; sxN 2; sxN 1] in
  let w2 := SL [sxN 1; sxN 10; sxN 7; sxN 10; sxN 7; sxN 10; sxN 7; sxN 11; sxN 9; sxN 2; sxN 2] in
  let w3 := SL [sxN 1; sxN 10; sxN 7; sxN 10; sxN 7; sxN 11; sxN 8; sxN 11; sxN 8; sxN 2; sxN 2] in
  machine_ck w1 = SL [sxN 2; sxN 0] /\ machine_ck_unfixed w1 = SL [sxN 1; sxN 0] /\
  machine_ck w2 = SL [sxN 1; sxN 1] /\ machine_ck_no_postcopy w2 = SL [sxN 1; sxN 0] /\
  machine_ck w3 = SL [sxN 2; sxN 1] /\ machine_ck_no_recheck w3 = SL [sxN 1; sxN 1].
Proof. vm_compute. repeat split; reflexivity. Qed.

(** the entry is the machine's own step function: [LsUnlock]/[LsSync] at [PMid]
    are enabled according to [needs_post], [LsUnlock] at [PPost] computes
    [post_rb], [LsCmpHdr] branches by [ck_decide] *)
Lemma machine_ck_is_step (data : Type) (lock : N) (midcheck postcopy recheck freshrule reachrule : bool) (s : state data)
      (m : mode) (hg pre wn : nat) (rb : bool) :
  pc data s = PBumped m hg pre wn rb ->
  step data lock midcheck postcopy recheck freshrule reachrule s (LsCmpHdr data) =
  Some (set_pc data s (match ck_decide m hg (gen data s) pre wn rb with
                       | DNotRestarted => Idle | DRecopy => PRecopy | DBoundary => PBoundary end)).
Proof.
  intros E. cbn. rewrite E. destruct (ck_decide m hg (gen data s) pre wn rb); reflexivity.
Qed.

Lemma machine_post_is_step (data : Type) (lock : N) (midcheck postcopy recheck freshrule reachrule : bool) (s : state data)
      (m : mode) (hg pre wn : nat) (rb : bool) :
  pc data s = PMid m hg pre wn rb ->
  (needs_post postcopy m rb = true -> step data lock midcheck postcopy recheck freshrule reachrule s (LsUnlock data) = None) /\
  (needs_post postcopy m rb = false -> forall k, step data lock midcheck postcopy recheck freshrule reachrule s (LsSync data k) = None).
Proof.
  intros E. split; intros A; [|intros k]; cbn; rewrite E, A; reflexivity.
Qed.

Lemma machine_recheck_is_step (data : Type) (lock : N) (midcheck postcopy recheck freshrule reachrule : bool) (s : state data)
      (m : mode) (hg pre wn : nat) :
  pc data s = PPost m hg pre wn ->
  step data lock midcheck postcopy recheck freshrule reachrule s (LsUnlock data) =
  Some (set_pc data s (PUnlocked m hg pre wn (post_rb recheck hg (gen data s)))).
Proof. intros E. cbn. rewrite E. reflexivity. Qed.

(** * Error exits: what a failed Checkpoint call leaves behind ([Machine.fail_st])

    input  [syncedToWALEnd before; reachedWALEnd before; lastSyncedWALOffset before (frames);
            released]   released = 1 iff the call had released the read lock (it got as far as
                        execCheckpoint's PRAGMA) before it failed; the harness emits the case only
                        when no copy of the call had changed the sync state before the failure
    output [syncedToWALEnd after; reachedWALEnd after; lastSyncedWALOffset after (frames);
            read transaction held after the call]
    The machine's own error-exit step on a state with that sync state, in the control state
    [PReleased] (read lock released, mark None) resp. [PCopied] (mark held): the flags are cleared
    iff [fail_clears], the offset is kept, the read lock is held again. *)
Definition fail_observed (clear : bool) (x : sx) : sx :=
  let e := asB (nthx 0 x) in
  let r := asB (nthx 1 x) in
  let off := N.to_nat (asN (nthx 2 x)) in
  let released := asB (nthx 3 x) in
  let s0 : state N :=
    mkSt N (fun _ => 0) 1 0 [[mkF N 1 1 0]] 0 1 [(O, mkF N 1 1 0)]
         (if released then None else Some 1%nat) false true [] 0 0 0
         (mkSess e off false None r)
         (if released then PReleased Full O O else PCopied Full O) Lost [] [] in
  let s1 := fail_st N s0 clear in
  SL [sxB (flag N s1); sxB (reached N s1); sxN (N.of_nat (lastoff N s1));
      sxB (match ls_mark N s1 with Some _ => true | None => false end)].

(** /repo HEAD (commit a1345df) *)
Definition machine_fail (x : sx) : sx := fail_observed true x.

Example machine_fail_examples :
  machine_fail (SL [sxB true; sxB true; sxN 5; sxB true]) = SL [sxB false; sxB false; sxN 5; sxB true] /\
  machine_fail (SL [sxB true; sxB true; sxN 5; sxB false]) = SL [sxB true; sxB true; sxN 5; sxB true] /\
  fail_observed false (SL [sxB true; sxB true; sxN 5; sxB true]) = SL [sxB true; sxB true; sxN 5; sxB true].
Proof. vm_compute. repeat split; reflexivity. Qed.

(** the entry is the machine's own step *)
Lemma machine_fail_is_step (data : Type) (lock : N) (midcheck postcopy recheck freshrule reachrule : bool)
      (s : state data) (c : bool) :
  in_call (pc data s) = true -> opened data s = true ->
  step data lock midcheck postcopy recheck freshrule reachrule s (LsFail data c) = Some (fail_st data s c).
Proof. intros A B. cbn. rewrite A, B. reflexivity. Qed.

(** * The sync state after a sync that wrote a level-0 file ([Machine.write_file])

    applySyncResult: lastSyncedWALOffset = WALOffset + WALSize of the new file, syncedToWALEnd =
    (that offset = size of the -wal file), reachedWALEnd sticky.  The entry is the machine's own
    [write_file] on a state with as many slots as the -wal file has frames.
    input  [syncedToWALEnd before; reachedWALEnd before; frame slots in the -wal file (stale tail
            included); (WALOffset + WALSize - 32) / frame size of the file just written]
    output [syncedToWALEnd; reachedWALEnd; lastSyncedWALOffset (frames)] after the step *)
Definition machine_sync_state (x : sx) : sx :=
  let nfr := N.to_nat (asN (nthx 2 x)) in
  let newcfo := N.to_nat (asN (nthx 3 x)) in
  let s0 : state N :=
    mkSt N (fun _ => 0) 1 0 [] 0 1 (repeat (O, mkF N 1 1 0) nfr) (Some 1%nat) false true [] 0 0 0
         (mkSess (asB (nthx 0 x)) 0 false None (asB (nthx 1 x))) Idle Lost [] [] in
  let s1 := write_file N s0 (mkLtx N (fun _ => None) 1) newcfo Lost in
  SL [sxB (flag N s1); sxB (reached N s1); sxN (N.of_nat (lastoff N s1))].

Example machine_sync_state_examples :
  machine_sync_state (SL [sxB false; sxB false; sxN 5; sxN 5]) = SL [sxB true; sxB true; sxN 5] /\
  machine_sync_state (SL [sxB true; sxB true; sxN 5; sxN 3]) = SL [sxB false; sxB true; sxN 3] /\
  machine_sync_state (SL [sxB false; sxB false; sxN 5; sxN 3]) = SL [sxB false; sxB false; sxN 3].
Proof. vm_compute. repeat split; reflexivity. Qed.

(** * The sync state after a run-time ResetLocalState (/repo commit a3c8cc9)

    The reset removes the local level-0 files and re-fetches the replica's newest one; the level-0
    chain may be cut back, which is not a step of the machine (its chain only grows).  What the
    theorems need from the reset is that verify then runs with the sync state of a fresh session —
    [verify_truncated_without_flag_snapshots] and [verify_fresh_session_salt_change_snapshots] (C04)
    then say that a WAL that was truncated or restarted since the baseline is snapshotted.  The entry
    compares the implementation's sync state after every ResetLocalState of the harness with the
    session state the machine gives a closed database ([Machine.set_closed]: the state a1345df /
    acbcc3c clear to).
    input  [syncedToWALEnd before; reachedWALEnd before; lastSyncedWALOffset before (frames)]
    output [syncedToWALEnd; reachedWALEnd; lastSyncedWALOffset (frames)] after the reset *)
Definition machine_reset (x : sx) : sx :=
  let s0 : state N :=
    mkSt N (fun _ => 0) 1 0 [[mkF N 1 1 0]] 0 1 [(O, mkF N 1 1 0)] (Some 1%nat) false true [] 0 0 0
         (mkSess (asB (nthx 0 x)) (N.to_nat (asN (nthx 2 x))) false None (asB (nthx 1 x))) Idle Lost [] [] in
  let s1 := set_closed N s0 in
  SL [sxB (flag N s1); sxB (reached N s1); sxN (N.of_nat (lastoff N s1))].

Example machine_reset_example :
  machine_reset (SL [sxB true; sxB true; sxN 7]) = SL [sxB false; sxB false; sxN 0].
Proof. vm_compute. reflexivity. Qed.

(** * [Machine.verify] against the byte-level model of verifyWithExecutor on observed states

    The byte-level model [Db.Verify.verify] is compared with db.go on every observed sync step
    (entry db_sync_step).  The theorems of Db/Machine*.v are about [Machine.verify], its
    abstraction (salts -> generations, byte offsets -> frame counts, lastPageMatch -> its salt
    comparison).  This entry evaluates BOTH on the same observed input — the machine's state is
    abstracted from the bytes inside Coq — and answers 1 iff they take the same decision
    (snapshot / incremental from the cursor / incremental from the header of a new generation,
    with the same clearing of syncedToWALEnd).  Input as db_sync_step; cases whose WAL is not a
    header plus whole frames, or on which the byte-level model reports an error, answer 1. *)
Definition gen_id (ids : list (N * N)) (p : N * N) : nat :=
  (fix go (l : list (N * N)) (i : nat) : nat :=
     match l with
     | [] => i
     | q :: tl => if pair_eqb p q then i else go tl (S i)
     end) ids O.

Definition slot_salts (ps : N) (w : list N) : list (N * N) :=
  map (fun f => (be32 f 8, be32 f 12)) (wal_frames ps w).

Definition vans_code (v : vans) : N :=
  match v with VSnap => 0 | VIncrAt => 1 | VIncrHdr false => 2 | VIncrHdr true => 3 end.

(** the decision of the byte-level model as a code of [vans_code]: 0 snapshot, 1 incremental
    from the cursor, 2 / 3 incremental from the header of a new generation (3: syncedToWALEnd
    is cleared) *)
Definition verify_code (pos : N) (last : l0hdr) (info : sinfo) : N :=
  if N.eqb pos 0 then 0
  else if i_snap info then 0
  else if N.eqb (i_offset info) (l_off last + l_size last)
          && pair_eqb (i_s1 info, i_s2 info) (l_s1 last, l_s2 last) then 1
  else if i_clear info then 3 else 2.

Definition machine_verify_agrees (x : sx) : sx :=
  let ps := asN (nthx 0 x) in
  let pos := asN (nthx 3 x) in
  let lastx := nthx 4 x in
  let l_off := asN (nthx 0 lastx) in
  let l_size := asN (nthx 1 lastx) in
  let ls := (asN (nthx 2 lastx), asN (nthx 3 lastx)) in
  let last := mkL0 l_off l_size (fst ls) (snd ls) (asN (nthx 4 lastx))
                   (map (fun p => (asN (nthx 0 p), asN (nthx 1 p))) (asL (nthx 5 lastx))) in
  let toEnd := asB (nthx 5 x) in
  let present := asB (nthx 6 x) in
  let w := asNs (nthx 7 x) in
  let fdig := if asB (nthx 8 x) then Some (asN (nthx 9 x)) else None in
  let reachedN := asN (nthx 10 x) in
  let fsz := frame_size ps in
  let wsz := N.of_nat (length w) in
  if negb present || N.ltb wsz 32 || negb (N.eqb ((wsz - 32) mod fsz) 0) then sxN 1 else
  match verify ps pos last toEnd reachedN (Some w) fdig with
  | VErr => sxN 1
  | VOk info =>
      let cursor := l_off + l_size in
      let byte_code : N := verify_code pos last info in
      let hs := (be32 w 16, be32 w 20) in
      let slots := slot_salts ps w in
      let ids := hs :: ls :: slots in
      let phys := map (fun p => (gen_id ids p, mkF N 1 1 0)) slots in
      let s : state N :=
        mkSt N (fun _ => 0) 1 (gen_id ids hs) [] 0 1 phys (Some 1%nat) false true
             (if N.eqb pos 0 then [] else [mkLtx N (fun _ => None) 1])
             (gen_id ids ls) (N.to_nat ((cursor - 32) / fsz)) 0
             (mkSess toEnd 0 false None (negb (N.eqb reachedN 0))) Idle Lost [] [] in
      sxB (N.eqb (vans_code (Machine.verify N true true s)) byte_code)
  end.
