(** [sx -> sx] entry point tying the checkpoint control flow of Db/Machine.v to
    db.go:checkpointWithExecutor by trace conformance: the decisions taken
    after the PRAGMA ([Machine.mid_restarted], [Machine.ck_decide] — the very
    functions the step function uses in [LsUnlock] and [LsCmpHdr]) are
    recomputed from what the harness observes of one litestream Checkpoint call
    and compared with the branch the implementation took. *)
From Coq Require Import List NArith ZArith Bool.
From LS Require Import Base.Sx Db.Machine.
Import ListNotations.
Open Scope N_scope.

Definition dec_mode (n : N) : mode :=
  match n with 0 => Passive | 1 => Full | 2 => Restart | _ => Truncate end.

Definition ckdec_code (d : ckdec) : N :=
  match d with DNotRestarted => 0 | DRecopy => 1 | DBoundary => 2 end.

(** the decision of the fixed control flow from the observed quantities:
    [hdr], [mid], [oth] = salts of the -wal header before the call, right after
    the PRAGMA (read lock re-acquired), after the bump; generations are
    compared only for equality, so [hdr] is generation 0 *)
Definition ck_observed_decision (midcheck : bool) (m : mode)
           (hdr mid oth : N * N) (pre wn : N) : ckdec :=
  let same (a b : N * N) := N.eqb (fst a) (fst b) && N.eqb (snd a) (snd b) in
  let gmid := if same hdr mid then O else 1%nat in
  let goth := if same hdr oth then O else 1%nat in
  let rb := mid_restarted midcheck m O gmid in
  ck_decide m O goth (if N.leb wn pre then 1%nat else O) 1%nat rb.

(** input  [mode; hdr_s1; hdr_s2; mid_s1; mid_s2; oth_s1; oth_s2; pre; wn]
            mode: 0 PASSIVE, 1 FULL, 2 RESTART, 3 TRUNCATE;
            pre = preCheckpointFrameN, wn = walFrameN (second column of the PRAGMA's row)
    output [d]  0: header unchanged, return; 1: re-copy through verify; 2: boundary snapshot *)
Definition machine_ck (x : sx) : sx :=
  let m := dec_mode (asN (nthx 0 x)) in
  let hdr := (asN (nthx 1 x), asN (nthx 2 x)) in
  let mid := (asN (nthx 3 x), asN (nthx 4 x)) in
  let oth := (asN (nthx 5 x), asN (nthx 6 x)) in
  SL [sxN (ckdec_code (ck_observed_decision true m hdr mid oth (asN (nthx 7 x)) (asN (nthx 8 x))))].

(** the same computation for the control flow before /repo commit 80a5b27 (not an entry) *)
Definition machine_ck_unfixed (x : sx) : sx :=
  let m := dec_mode (asN (nthx 0 x)) in
  let hdr := (asN (nthx 1 x), asN (nthx 2 x)) in
  let mid := (asN (nthx 3 x), asN (nthx 4 x)) in
  let oth := (asN (nthx 5 x), asN (nthx 6 x)) in
  SL [sxN (ckdec_code (ck_observed_decision false m hdr mid oth (asN (nthx 7 x)) (asN (nthx 8 x))))].

(** the ckpt-window scenario: FULL, header changed before the PRAGMA returned
    (salt1 + 1), changed again by the bump (salt1 + 2), walFrameN 1 <= pre 2 *)
Example machine_ck_window :
  machine_ck (SL [sxN 1; sxN 10; sxN 7; sxN 11; sxN 8; sxN 12; sxN 9; sxN 2; sxN 1]) = SL [sxN 2] /\
  machine_ck_unfixed (SL [sxN 1; sxN 10; sxN 7; sxN 11; sxN 8; sxN 12; sxN 9; sxN 2; sxN 1]) = SL [sxN 1].
Proof. vm_compute. split; reflexivity. Qed.

(** the entry is the machine's own step: with the generations as the entry
    abstracts them, [LsUnlock] computes [rb] and [LsCmpHdr] branches exactly as
    [ck_observed_decision] says *)
Lemma machine_ck_is_step (data : Type) (lock : N) (midcheck : bool) (s : state data)
      (m : mode) (hg pre wn : nat) (rb : bool) :
  pc data s = PBumped m hg pre wn rb ->
  step data lock midcheck s (LsCmpHdr data) =
  Some (set_pc data s (match ck_decide m hg (gen data s) pre wn rb with
                       | DNotRestarted => Idle | DRecopy => PRecopy | DBoundary => PBoundary end)).
Proof.
  intros E. cbn. rewrite E. destruct (ck_decide m hg (gen data s) pre wn rb); reflexivity.
Qed.
