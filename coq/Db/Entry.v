(** [sx -> sx] entry points of the Db layer. *)
From Coq Require Import List NArith ZArith Bool.
From LS Require Import Base.Sx Base.Bytes Base.PMap Wal.Reader Db.Verify Db.Sync.
Import ListNotations.
Open Scope N_scope.

Definition dec_l0 (x : sx) : l0hdr :=
  mkL0 (asN (nthx 0 x)) (asN (nthx 1 x)) (asN (nthx 2 x)) (asN (nthx 3 x)) (asN (nthx 4 x))
       (map (fun p => (asN (nthx 0 p), asN (nthx 1 p))) (asL (nthx 5 x))).

(** input  [ps; maxSyncWALBytes; dbpages; pos; last L0 (off size s1 s2 commit ((pg dig)...));
            syncedToWALEnd; walPresent; wal; fdigPresent; fdig; reachedWALEnd (0/1)]
    output [0] no file (skip) | [1; off; size; s1; s2; commit; pgnos] | [2] error *)
Definition db_sync_step (x : sx) : sx :=
  let ps := asN (nthx 0 x) in
  let maxb := asN (nthx 1 x) in
  let dbpages := asN (nthx 2 x) in
  let pos := asN (nthx 3 x) in
  let last := dec_l0 (nthx 4 x) in
  let toEnd := asB (nthx 5 x) in
  let wal := if asB (nthx 6 x) then Some (asNs (nthx 7 x)) else None in
  let fdig := if asB (nthx 8 x) then Some (asN (nthx 9 x)) else None in
  let lastOff := asN (nthx 10 x) in
  match verify ps pos last toEnd lastOff wal fdig with
  | VErr => SL [sxN 2]
  | VOk info =>
      match wal with
      | None => SL [sxN 2]
      | Some w =>
          match sync ps maxb dbpages info w with
          | SErr => SL [sxN 2]
          | SSkip => SL [sxN 0]
          | SFile o => SL [sxN 1; sxN (o_off o); sxN (o_size o); sxN (o_s1 o); sxN (o_s2 o);
                           sxN (o_commit o); sxNs (o_pgnos o)]
          end
      end
  end.
