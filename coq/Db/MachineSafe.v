(** DInv for Db/Machine.v, part 2 (control flow with [postcopy = true] and
    [midcheck = true] or [recheck = true]; /repo HEAD has all three): the ghost
    cursor is never [Lost] outside control states that are certain to end in a
    boundary snapshot.  This is where G1/G2
    (litestream's read mark and its write-lock barrier constrain WAL restarts),
    the unconditional TRUNCATE snapshot, and for FULL/RESTART the header re-read
    after the PRAGMA and the copy that follows it are used.  The only side
    condition is [window_ok]. *)
From Coq Require Import List NArith Bool Lia Arith.
From LS Require Import Db.Image Db.Machine Db.MachineLemmas Db.MachineInv.
Import ListNotations.
Open Scope nat_scope.

Section Safe.
Variable data : Type.
Variable zero : data.
Variable lock : N.
(** [recheck]: the header re-read after the post-checkpoint copy (commit
    bb88a29); [window_ok] is trivial when it is [true].  The proofs cover every
    combination in which at least one of the two header re-reads is made. *)
Variable midcheck : bool.
Variable recheck : bool.
Hypothesis Hmr : midcheck = true \/ recheck = true.

Local Notation state := (state data).
Local Notation inv := (inv data zero lock).
Local Notation step := (step data lock midcheck true recheck true true).
Local Notation verify := (verify data true true).
Local Notation do_sync := (do_sync data lock true true).

(** everything of the live generation is replicated (or nothing was ever replicated) *)
Definition at_end (s : state) : Prop :=
  l0 data s = [] \/ cur data s = AtLive (length (txs data s)) \/
  (cur data s = AtBase /\ txs data s = []).

(** control states that end in the unconditional boundary snapshot *)
Definition pendingb (p : pcT) : bool :=
  match p with
  | PBoundary | PBoundLocked => true
  | _ => false
  end.
Definition truncb (m : mode) : bool := match m with Truncate => true | _ => false end.
(** PASSIVE: between the sealed copy and the rollback of the barrier *)
Definition sealedb (p : pcT) : bool :=
  match p with
  | PSealed _ | PReleased Passive _ _ | PCkpted Passive _ _ _ | PMid Passive _ _ _ _ => true
  | _ => false
  end.
Definition lockedb (p : pcT) : bool :=
  match p with PLocked _ => true | _ => false end.
Definition relb (p : pcT) : bool :=
  match p with PReleased _ _ _ | PCkpted _ _ _ _ => true | _ => false end.
(** (a TRUNCATE PRAGMA may come back busy without resetting the WAL: nothing is known about
    the generation after it) *)
Definition post_truncb (p : pcT) : bool := false.
Definition hg_of (p : pcT) : option nat :=
  match p with
  | PHdr _ hg | PCopied _ hg | PLocked hg | PSealed hg | PReleased _ hg _
  | PCkpted _ hg _ _ | PMid _ hg _ _ _ | PPost _ hg _ _ | PUnlocked _ hg _ _ _ | PBumped _ hg _ _ _ => Some hg
  | _ => None
  end.
Definition closedb (p : pcT) : bool := match p with Closed => true | _ => false end.
Definition rb_of (p : pcT) : bool :=
  match p with PMid _ _ _ _ rb | PUnlocked _ _ _ _ rb | PBumped _ _ _ _ rb => rb | _ => false end.

(** FULL/RESTART states in which a WAL reset is harmless: either the header
    re-read is still to come (it will see the reset), or it has already decided
    for the boundary snapshot *)
Definition frfreeb (p : pcT) : bool :=
  match p with
  | PReleased m _ _ | PCkpted m _ _ _ => frb m || truncb m
  | PMid m _ _ _ rb | PUnlocked m _ _ _ rb => (frb m && rb) || truncb m
  | PBumped m _ _ _ rb => frb m && rb
  | _ => false
  end.
(** where a lost cursor is harmless for FULL/RESTART *)
Definition lost_okb (p : pcT) (g : nat) : bool :=
  match p with
  | PReleased m hg _ | PCkpted m hg _ _ => (frb m || truncb m) && (hg <? g)
  | PMid m hg _ _ rb => (frb m || truncb m) && (hg <? g) && (rb || recheck || truncb m)
  | PPost _ hg _ _ => recheck && (hg <? g)
  | PUnlocked m hg _ _ rb | PBumped m hg _ _ rb => (frb m || truncb m) && (hg <? g) && (rb || truncb m)
  | _ => false
  end.
(** the copy of commit 6edd82b is due ([Machine.post_pending] with [postcopy = true]) *)
Definition postpendb (p : pcT) : bool := post_pending true p.
Definition ispostb (p : pcT) : bool := match p with PPost _ _ _ _ => true | _ => false end.
Definition post_mode (p : pcT) : option mode := match p with PPost m _ _ _ => Some m | _ => None end.
(** a WAL reset in this control state is harmless *)
Definition freeb (p : pcT) : bool := frfreeb p || (recheck && (postpendb p || ispostb p)).

(** a session re-opened over existing level-0 files still holds the read mark it
    took at Open, is outside the checkpoint protocol and has not yet reached the
    end of the WAL: nothing is known about where its cursor stands *)
Definition weakb (s : state) : bool := idleish (pc data s) && openmark data s && negb (reached data s).
(** a lost cursor that the fresh-session rule (3b58009, c55c7c6) turns into a snapshot *)
Definition freshlostb (s : state) : bool :=
  idleish (pc data s) && negb (reached data s) && negb (cgen data s =? gen data s).

Record safe (s : state) : Prop := mkSafe {
  s_K : wlock data s = false -> mark_low (ls_mark data s) = true ->
        backfilled data s = length (txs data s) ->
        at_end s \/ pendingb (pc data s) = true \/ opened data s = false \/
        freeb (pc data s) = true \/ postpendb (pc data s) || weakb s = true;
  s_S : sealedb (pc data s) = true -> wlock data s = true /\ at_end s;
  s_W : lockedb (pc data s) = true -> wlock data s = true;
  s_L : cur data s = Lost ->
        l0 data s = [] \/ pendingb (pc data s) = true \/ freshlostb s = true \/
        lost_okb (pc data s) (gen data s) = true;
  s_T : forall hg, hg_of (pc data s) = Some hg ->
        hg <= gen data s /\ (post_truncb (pc data s) = true -> hg < gen data s) /\
        (rb_of (pc data s) = true -> hg < gen data s);
  s_O : opened data s = false ->
        reached data s = false /\ ls_mark data s = None /\ wlock data s = false;
  s_N : ls_mark data s = None ->
        opened data s = false \/ relb (pc data s) = true;
  s_P : opened data s = false -> pc data s = Idle;
  s_F : forall m, post_mode (pc data s) = Some m -> frb m = true;
  s_Q : ispostb (pc data s) = true -> forall hg, hg_of (pc data s) = Some hg -> gen data s = hg ->
        wlock data s = false -> mark_low (ls_mark data s) = true ->
        backfilled data s = length (txs data s) -> at_end s;
  s_G : cgen data s <= gen data s;
  s_Z : reached data s = false -> flag data s = false }.

Lemma flen_firstn_le (ts : list (tx data)) c : flen data (firstn c ts) <= flen data ts.
Proof.
  rewrite <- (firstn_skipn c ts) at 2. rewrite flen_app. lia.
Qed.

Lemma flen_firstn_lt (ts : list (tx data)) c :
  Forall (fun t => t <> []) ts -> c < length ts -> flen data (firstn c ts) < flen data ts.
Proof.
  intros Hne Hc. pose proof (flen_firstn_le ts c) as Hle.
  destruct (Nat.eq_dec (flen data (firstn c ts)) (flen data ts)) as [E|E]; [|lia].
  pose proof (flen_firstn_full data ts c Hne (Nat.lt_le_incl _ _ Hc) E). lia.
Qed.

(** ** verifyAndSync *)

Lemma do_sync_frame s k s' :
  do_sync s k = Some s' ->
  txs data s' = txs data s /\ backfilled data s' = backfilled data s /\
  ls_mark data s' = ls_mark data s /\ wlock data s' = wlock data s /\
  pc data s' = pc data s /\ opened data s' = opened data s /\ gen data s' = gen data s /\
  opened data s = true /\ (l0 data s <> [] -> l0 data s' <> []).
Proof.
  unfold do_sync. destruct (opened data s) eqn:Eo; cbn [negb]; [|discriminate].
  destruct (phys data s); [discriminate|].
  assert (G : forall c k cl nc, incr_st data lock s c k cl nc = Some s' ->
              txs data s' = txs data s /\ backfilled data s' = backfilled data s /\
              ls_mark data s' = ls_mark data s /\ wlock data s' = wlock data s /\
              pc data s' = pc data s /\ opened data s' = true /\ gen data s' = gen data s /\
              true = true /\ (l0 data s <> [] -> l0 data s' <> [])).
  { intros c k0 cl nc. unfold incr_st.
    destruct (negb (c + k0 <=? length (txs data s))); [discriminate|].
    destruct (toend data s && negb (c + k0 =? length (txs data s))); [discriminate|].
    destruct (k0 =? 0).
    - intros E. inversion E; subst. destruct cl; cbn; rewrite ?Eo; repeat split; auto.
    - intros E. inversion E; subst. cbn. rewrite Eo. repeat split; auto.
      intros _ E2. destruct (l0 data s); discriminate. }
  destruct (verify s).
  - intros E. inversion E; subst. cbn. rewrite Eo. repeat split; auto.
    intros _ E2. destruct (l0 data s); discriminate.
  - destruct (idx data (txs data s) (cfo data s)); [|discriminate]. apply G.
  - apply G.
Qed.


Lemma do_sync_l0 s k s' : do_sync s k = Some s' -> l0 data s' <> [].
Proof.
  intros E. destruct (do_sync_frame _ _ _ E) as [_ [_ [_ [_ [_ [_ [_ [_ F]]]]]]]].
  revert E. unfold do_sync. destruct (negb (opened data s)); [discriminate|].
  destruct (phys data s); [discriminate|].
  destruct (verify s) as [| |cl] eqn:Ev.
  - intros E. inversion E; subst. cbn. intros A. destruct (l0 data s); discriminate.
  - intros _. apply F. apply (verify_incrat _ _ _ _ Ev).
  - intros _. apply F. apply (verify_incrhdr _ _ _ _ _ Ev).
Qed.

Lemma do_sync_cur s k s' :
  inv s -> do_sync s k = Some s' ->
  (at_end s -> at_end s') /\
  (cur data s' = Lost -> cur data s = Lost /\ verify s <> VSnap) /\
  (toend data s = true -> (cur data s = Lost -> verify s = VSnap) ->
   cur data s' = AtLive (length (txs data s))).
Proof.
  intros H. unfold do_sync, at_end.
  destruct (opened data s); cbn [negb]; [|discriminate].
  destruct (phys data s) as [|p0 pr] eqn:Ep; [discriminate|].
  assert (Hne : txs data s <> []).
  { intros E. pose proof (i_hdr _ _ _ _ H E) as E2. rewrite Ep in E2. discriminate. }
  assert (Hnonempty : Forall (fun t => t <> []) (txs data s))
    by (eapply txs_ok_nonempty; apply (i_txs _ _ _ _ H)).
  pose proof (i_cur _ _ _ _ H) as Hc. unfold cur_inv in Hc.
  destruct (verify s) as [| |cl] eqn:Ev.
  - intros E. inversion E; subst. cbn.
    split; [auto|]. split; [discriminate|auto].
  - destruct (verify_incrat _ _ _ _ Ev) as [Hl Hg].
    destruct (idx data (txs data s) (cfo data s)) as [c|] eqn:Ei; [|discriminate].
    assert (Hlive : forall c', cur data s = AtLive c' -> c' = c).
    { intros c' Ec. rewrite Ec in Hc. destruct Hc as [Hle [_ [Hcfo _]]].
      rewrite Hcfo in Ei. rewrite idx_flen in Ei by assumption. congruence. }
    assert (Hnb : cur data s <> AtBase).
    { intros Ec. rewrite Ec in Hc. destruct Hc as [Hlt _]. lia. }
    unfold incr_st.
    destruct (c + k <=? length (txs data s)) eqn:Ele; cbn [negb]; [|discriminate].
    apply Nat.leb_le in Ele.
    destruct (toend data s) eqn:Ew; cbn [andb].
    + destruct (c + k =? length (txs data s)) eqn:Eend; cbn [negb]; [|discriminate].
      apply Nat.eqb_eq in Eend.
      destruct (k =? 0) eqn:Ek.
      * apply Nat.eqb_eq in Ek. intros E. inversion E; subst s'. clear E.
        split; [auto|]. split; [intros A0; split; [exact A0|discriminate]|]. intros _ HL.
        destruct (cur data s) as [c'| |] eqn:Ec.
        -- rewrite (Hlive c' eq_refl). f_equal. lia.
        -- contradiction.
        -- specialize (HL eq_refl). discriminate.
      * apply Nat.eqb_neq in Ek. intros E. inversion E; subst s'. clear E.
        cbn.
        destruct (cur data s) as [c'| |] eqn:Ec.
        -- split; [intros _; right; left; f_equal; exact Eend|].
           split; [discriminate|]. intros _ _. f_equal. exact Eend.
        -- contradiction.
        -- split; [intros [A|[A|[A _]]]; [contradiction|discriminate|discriminate]|].
           split; [intros A0; split; [exact A0|discriminate]|]. intros _ HL. specialize (HL eq_refl). discriminate.
    + destruct (k =? 0) eqn:Ek.
      * intros E. inversion E; subst s'. clear E.
        split; [auto|]. split; [intros A0; split; [exact A0|discriminate]|]. intros A. discriminate.
      * apply Nat.eqb_neq in Ek. intros E. inversion E; subst s'. clear E.
        cbn.
        destruct (cur data s) as [c'| |] eqn:Ec.
        -- split.
           ++ intros [A|[A|[A _]]]; [contradiction| |discriminate].
              inversion A. pose proof (Hlive c' eq_refl). lia.
           ++ split; [discriminate|]. intros A. discriminate.
        -- contradiction.
        -- split; [intros [A|[A|[A _]]]; [contradiction|discriminate|discriminate]|].
           split; [intros A0; split; [exact A0|discriminate]|]. intros A. discriminate.
  - destruct (verify_incrhdr _ _ _ _ _ Ev) as [Hl Hg].
    assert (Hnl : forall c', cur data s <> AtLive c').
    { intros c' Ec. rewrite Ec in Hc. destruct Hc as [Hle [Hgg [Hcfo _]]].
      destruct Hg as [Hg|Hg]; [|contradiction].
      pose proof (flen_firstn_le (txs data s) c'). pose proof (i_phys _ _ _ _ H). lia. }
    unfold incr_st. cbn [plus].
    destruct (k <=? length (txs data s)) eqn:Ele; cbn [negb]; [|discriminate].
    apply Nat.leb_le in Ele.
    destruct (toend data s) eqn:Ew; cbn [andb].
    + destruct (k =? length (txs data s)) eqn:Eend; cbn [negb]; [|discriminate].
      apply Nat.eqb_eq in Eend.
      destruct (k =? 0) eqn:Ek.
      * apply Nat.eqb_eq in Ek. exfalso. apply Hne. apply length_zero_iff_nil. lia.
      * intros E. inversion E; subst s'. clear E. cbn.
        destruct (cur data s) as [c'| |] eqn:Ec.
        -- exfalso. eapply Hnl; eauto.
        -- split; [intros _; right; left; f_equal; exact Eend|].
           split; [discriminate|]. intros _ _. f_equal. exact Eend.
        -- split; [intros [A|[A|[A _]]]; [contradiction|discriminate|discriminate]|].
           split; [intros A0; split; [exact A0|discriminate]|]. intros _ HL. specialize (HL eq_refl). discriminate.
    + destruct (k =? 0) eqn:Ek.
      * intros E. inversion E; subst s'. clear E.
        assert (Hsame : at_end s -> at_end (if cl then set_flag data s false else s))
          by (destruct cl; auto).
        assert (Hcur : cur data (if cl then set_flag data s false else s) = cur data s)
          by (destruct cl; reflexivity).
        split; [exact Hsame|]. rewrite Hcur. split; [intros A0; split; [exact A0|discriminate]|]. intros A. discriminate.
      * intros E. inversion E; subst s'. clear E. cbn.
        destruct (cur data s) as [c'| |] eqn:Ec.
        -- exfalso. eapply Hnl; eauto.
        -- split; [intros [A|[A|[_ A]]]; [contradiction|discriminate|contradiction]|].
           split; [discriminate|]. intros A. discriminate.
        -- split; [intros [A|[A|[A _]]]; [contradiction|discriminate|discriminate]|].
           split; [intros A0; split; [exact A0|discriminate]|]. intros A. discriminate.
Qed.

(** ** commits *)


(** ** commits *)

Lemma do_commit_facts s t r s' :
  inv s -> safe s -> do_commit data s t r = Some s' ->
  wlock data s = false /\ wlock data s' = false /\
  backfilled data s' < length (txs data s') /\
  ls_mark data s' = ls_mark data s /\ pc data s' = pc data s /\
  opened data s' = opened data s /\ l0 data s' = l0 data s /\
  ss data s' = ss data s /\ cgen data s' = cgen data s /\
  ((r = false /\ gen data s' = gen data s /\ cur data s' = cur data s) \/
   (r = true /\ gen data s' = S (gen data s) /\
    (cur data s' = Lost ->
     l0 data s = [] \/ pendingb (pc data s) = true \/ opened data s = false \/
     freeb (pc data s) = true \/ postpendb (pc data s) = true \/
     (weakb s = true /\ cur_reset (cur data s) (length (txs data s)) = Lost /\ 0 < length (txs data s))))).
Proof.
  intros H Hs. unfold do_commit.
  destruct (wlock data s) eqn:Ew; [discriminate|].
  pose proof (i_bf _ _ _ _ H) as Hbf.
  destruct r.
  - destruct (reset_enabled data s && (0 <? length (txs data s))) eqn:Eg; [|discriminate].
    apply andb_prop in Eg. destruct Eg as [Een Epos].
    apply Nat.ltb_lt in Epos.
    unfold reset_enabled in Een. rewrite Ew in Een. cbn [negb andb] in Een.
    apply andb_prop in Een. destruct Een as [Eml Ebf]. apply Nat.eqb_eq in Ebf.
    intros E. inversion E; subst s'. clear E. cbn.
    repeat split; auto.
    right. split; [reflexivity|]. split; [reflexivity|]. intros HL.
    destruct (s_K _ Hs Ew Eml Ebf) as [A|[A|[A|[A|A]]]]; auto 6.
    + destruct A as [A|[A|[_ A]]].
      * left. exact A.
      * rewrite A in HL. cbn in HL. rewrite Nat.eqb_refl in HL. discriminate.
      * rewrite A in Epos. cbn in Epos. lia.
    + apply orb_prop in A. destruct A as [A|A]; auto 8.
  - intros E. inversion E; subst s'. clear E. cbn. rewrite app_length. cbn.
    repeat split; auto; try lia.
Qed.

(** ** facts about control states *)

Lemma lost_ok_intro p g :
  freeb p = true -> (forall hg, hg_of p = Some hg -> hg < g) -> lost_okb p g = true.
Proof.
  intros Hd Hh. unfold freeb, postpendb in Hd.
  destruct p as [| | | | |m ? ?|m ? ? ?|m ? ? ? rb|m ? ? ?|m ? ? ? rb|m ? ? ? rb| | | |];
    cbn -[Nat.ltb] in *; rewrite ?andb_false_r in Hd; try discriminate;
    specialize (Hh _ eq_refl); apply Nat.ltb_lt in Hh; rewrite Hh;
    unfold needs_post in *;
    try destruct m; try destruct rb; destruct recheck; cbn in *; try discriminate; reflexivity.
Qed.

Lemma lost_ok_hg p g : lost_okb p g = true -> exists hg, hg_of p = Some hg /\ hg < g.
Proof.
  destruct p; cbn -[Nat.ltb]; try discriminate; intros A.
  - apply andb_prop in A. destruct A as [_ A]. apply Nat.ltb_lt in A. eauto.
  - apply andb_prop in A. destruct A as [_ A]. apply Nat.ltb_lt in A. eauto.
  - apply andb_prop in A. destruct A as [A _]. apply andb_prop in A. destruct A as [_ A].
    apply Nat.ltb_lt in A. eauto.
  - apply andb_prop in A. destruct A as [_ A]. apply Nat.ltb_lt in A. eauto.
  - apply andb_prop in A. destruct A as [A _]. apply andb_prop in A. destruct A as [_ A].
    apply Nat.ltb_lt in A. eauto.
  - apply andb_prop in A. destruct A as [A _]. apply andb_prop in A. destruct A as [_ A].
    apply Nat.ltb_lt in A. eauto.
Qed.

Lemma cur_reset_lost_live (s : state) :
  inv s -> cur_reset (cur data s) (length (txs data s)) = Lost -> 0 < length (txs data s) ->
  cur data s = Lost \/ cgen data s <> gen data s \/ cfo data s <> flen data (txs data s).
Proof.
  intros H A Hpos. pose proof (i_cur _ _ _ _ H) as Hc. unfold cur_inv in Hc.
  destruct (cur data s) as [c| |] eqn:Ec; cbn in A.
  - destruct (c =? length (txs data s)) eqn:Ecl; [discriminate|]. apply Nat.eqb_neq in Ecl.
    destruct Hc as [Hle [_ [Hcfo _]]]. right. right. rewrite Hcfo. intros B.
    apply Ecl. eapply flen_firstn_full; eauto. eapply txs_ok_nonempty. apply (i_txs _ _ _ _ H).
  - destruct Hc as [Hlt _]. right. left. lia.
  - left. reflexivity.
Qed.

(** ** a commit that leaves the control state alone *)
Lemma safe_commit_same s t r s1 :
  inv s -> safe s ->
  (r = true -> recheck = true \/ postpendb (pc data s) = false) ->
  do_commit data s t r = Some s1 -> safe s1.
Proof.
  intros H Hs Hwin E.
  destruct (do_commit_facts _ _ _ _ H Hs E) as [Hw [Hw' [Hbf [Hm [Hpc [Ho [Hl0 [Hss [Hcg Hd]]]]]]]]].
  pose proof Hs as [K S W L T O N P F Q G Z].
  assert (Hgen : gen data s <= gen data s1) by (destruct Hd as [[_ [A _]]|[_ [A _]]]; lia).
  assert (Hlo : reached data s1 = reached data s) by (unfold reached; rewrite Hss; reflexivity).
  assert (Hfl : flag data s1 = flag data s) by (unfold flag; rewrite Hss; reflexivity).
  assert (Hom : openmark data s1 = openmark data s) by (unfold openmark; rewrite Hss; reflexivity).
  constructor; rewrite ?Hpc, ?Hm, ?Ho, ?Hl0, ?Hlo, ?Hfl, ?Hcg.
  - intros _ _ A. lia.
  - intros A. destruct (S A) as [A2 _]. congruence.
  - intros A. pose proof (W A). congruence.
  - intros A. unfold freshlostb. rewrite Hpc, Hlo, Hcg.
    destruct Hd as [[_ [B1 B2]]|[Br [B1 B2]]].
    + rewrite B1. apply L. congruence.
    + assert (Hlt : forall hg, hg_of (pc data s) = Some hg -> hg < gen data s1).
      { intros hg Hh. destruct (T hg Hh) as [T1 _]. lia. }
      assert (Hne : (cgen data s =? gen data s1) = false) by (apply Nat.eqb_neq; lia).
      pose proof (Hwin Br) as Hw1.
      destruct (B2 A) as [D|[D|[D|[D|[D|[D1 [D2 D3]]]]]]]; auto.
      * (* closed *)
        right. right. left. destruct (O D) as [O1 _]. rewrite (P D), O1, Hne. reflexivity.
      * right. right. right. apply lost_ok_intro; assumption.
      * destruct Hw1 as [Hr|Hn]; [|congruence].
        right. right. right. apply lost_ok_intro; [|assumption].
        unfold freeb. rewrite Hr, D. cbn. apply orb_true_r.
      * (* a re-opened session that has not reached the WAL end: the fresh-session rule saves it *)
        unfold weakb in D1. apply andb_prop in D1. destruct D1 as [D1 Dr].
        apply andb_prop in D1. destruct D1 as [Di _].
        right. right. left. rewrite Di, Dr, Hne. reflexivity.
  - intros hg A. destruct (T hg A) as [T1 [T2 T3]].
    split; [lia|]. split; intros B; [specialize (T2 B)|specialize (T3 B)]; lia.
  - intros A. destruct (O A) as [O1 [O2 O3]]. auto.
  - exact N.
  - exact P.
  - exact F.
  - intros _ hg _ _ _ _ A. lia.
  - lia.
  - exact Z.
Qed.

(** ** environment steps *)

Lemma window_reset_facts s :
  (recheck || negb (post_pending true (pc data s))) && (true || negb (catching_up data s)) = true ->
  recheck = true \/ postpendb (pc data s) = false.
Proof.
  intros A. apply andb_prop in A. destruct A as [A _].
  apply orb_prop in A. destruct A as [A|A]; [left; exact A|right]. apply negb_true_iff in A. exact A.
Qed.

Lemma safe_AppCommit s t r s' :
  inv s -> safe s -> window_ok data true recheck true s (AppCommit data t r) = true ->
  step s (AppCommit data t r) = Some s' -> safe s'.
Proof.
  intros H Hs Hwin E. cbn in E. apply (safe_commit_same s t r s' H Hs); [|exact E].
  intros Hr. subst r. cbn in Hwin. apply window_reset_facts. exact Hwin.
Qed.

Lemma safe_AppCkpt s j sz s' :
  inv s -> safe s -> step s (AppCkpt data j sz) = Some s' -> safe s'.
Proof.
  intros H Hs E. cbn in E.
  destruct (ckpt_allowed data s j) eqn:Ea; [|discriminate]. inversion E; subst s'. clear E.
  pose proof Hs as [K S W L T O N P F Q G Z].
  unfold ckpt_allowed in Ea. apply andb_prop in Ea. destruct Ea as [_ Ea].
  constructor; cbn; try assumption.
  - intros Hw Hml Hj.
    destruct (ls_mark data s) as [[|m]|] eqn:Em; cbn in Hml; try discriminate.
    + apply Nat.eqb_eq in Ea. apply K; auto. congruence.
    + destruct (N eq_refl) as [A|A].
      * right. right. left. exact A.
      * destruct (pc data s) as [| | | | |m0 ? ?|m0 ? ? ?| | | | | | | |]; try discriminate;
          destruct m0; cbn in *; auto 6;
          destruct (S eq_refl) as [B _]; congruence.
  - intros Hi hg Hh Hg Hw Hml Hj.
    destruct (ls_mark data s) as [[|m]|] eqn:Em; cbn in Hml; try discriminate.
    + apply Nat.eqb_eq in Ea. apply (Q Hi hg Hh Hg Hw); [reflexivity|congruence].
    + exfalso. destruct (N eq_refl) as [A|A].
      * specialize (P A). rewrite P in Hi. discriminate.
      * destruct (pc data s); discriminate.
Qed.

Lemma safe_AppTruncate s s' :
  inv s -> safe s -> window_ok data true recheck true s (AppTruncate data) = true ->
  step s (AppTruncate data) = Some s' -> safe s'.
Proof.
  intros H Hs Hwin E. cbn in E.
  destruct (reset_enabled data s) eqn:Een; [|discriminate]. inversion E; subst s'. clear E.
  pose proof Hs as [K S W L T O N P F Q G Z].
  cbn in Hwin. pose proof (window_reset_facts s Hwin) as Hw1.
  unfold reset_enabled in Een. apply andb_prop in Een. destruct Een as [Een Ebf].
  apply andb_prop in Een. destruct Een as [Ew Eml].
  apply negb_true_iff in Ew. apply Nat.eqb_eq in Ebf.
  assert (Hne : (cgen data s =? Datatypes.S (gen data s)) = false) by (apply Nat.eqb_neq; lia).
  assert (Hlt : forall hg, hg_of (pc data s) = Some hg -> hg < Datatypes.S (gen data s)).
  { intros hg Hh. destruct (T hg Hh) as [T1 _]. lia. }
  assert (Hcases : at_end (reset_st data s true) \/ pendingb (pc data s) = true \/
                   (opened data s = false) \/ freeb (pc data s) = true \/ weakb s = true).
  { destruct (K Ew Eml Ebf) as [A|[A|[A|[A|A]]]]; auto.
    - left. unfold at_end. cbn. destruct A as [A|[A|[A B]]].
      + left. exact A.
      + right. right. rewrite A. cbn. rewrite Nat.eqb_refl. auto.
      + right. right. rewrite A, B. cbn. auto.
    - apply orb_prop in A. destruct A as [A|A]; [|auto 6].
      destruct Hw1 as [B|B]; [|congruence].
      right. right. right. left. unfold freeb. rewrite B, A. cbn. apply orb_true_r. }
  constructor; cbn; try assumption.
  - intros _ _ _. destruct Hcases as [A|[A|[A|[A|A]]]]; auto 6.
    right. right. right. right. change (weakb (reset_st data s true)) with (weakb s). rewrite A. apply orb_true_r.
  - intros A. destruct (S A) as [A2 _]. congruence.
  - intros HL. unfold freshlostb. cbn. change (reached data (reset_st data s true)) with (reached data s).
    destruct Hcases as [A|[A|[A|[A|A]]]]; auto.
    + unfold at_end in A. cbn in A. destruct A as [A|[A|[A _]]]; [left; exact A| |]; congruence.
    + right. right. left. destruct (O A) as [O1 _]. rewrite (P A), O1, Hne. reflexivity.
    + right. right. right. apply lost_ok_intro; assumption.
    + unfold weakb in A. apply andb_prop in A. destruct A as [A Dr].
      apply andb_prop in A. destruct A as [Di _].
      right. right. left. rewrite Di, Dr, Hne. reflexivity.
  - intros hg A. destruct (T hg A) as [T1 [T2 T3]].
    split; [lia|]. split; intros B; [specialize (T2 B)|specialize (T3 B)]; lia.
  - intros _ hg A B. destruct (T hg A) as [T1 _]. lia.
  - lia.
Qed.

(** ** litestream steps *)

Ltac triv :=
  try assumption; try discriminate; try reflexivity;
  try solve [intros; congruence];
  try solve [intros; discriminate].

Ltac prep :=
  unfold weakb, freshlostb, lastoff, flag, openmark, reached in *;
  cbn in *;
  repeat match goal with E : pc _ _ = _ |- _ => progress (rewrite E in * ) end;
  cbn in *.

Ltac fin2 :=
  triv;
  try solve [intros; lia];
  try solve [let A := fresh in let B := fresh in let C := fresh in intros A B C;
             match goal with K : _ -> _ -> _ -> _ \/ _ |- _ =>
               destruct (K A B C) as [?|[?|[?|[?|?]]]]; auto 8; discriminate end];
  try solve [let A := fresh in intros A;
             match goal with L : _ = Lost -> _ |- _ =>
               destruct (L A) as [?|[?|[?|?]]]; auto 8; discriminate end];
  try solve [let A := fresh in intros A;
             match goal with N : _ = None -> _ |- _ =>
               destruct (N A) as [?|?]; auto; discriminate end];
  try solve [let hg := fresh in let A := fresh in intros hg A; inversion A; subst;
             match goal with T : forall h, _ = Some h -> _ |- _ =>
               destruct (T _ eq_refl) as [? [? ?]]; repeat split; intros; try discriminate; try lia; auto end];
  try solve [let A := fresh in intros A;
             match goal with P : _ = false -> _ = Idle |- _ =>
               specialize (P A); first [congruence | discriminate] end].

(** the fresh-session rule of commit 3b58009 *)
Lemma fresh_verify_snap s :
  reached data s = false -> flag data s = false -> cgen data s <> gen data s -> verify s = VSnap.
Proof.
  intros Hl Hf Hg. unfold Machine.verify. destruct (l0 data s); [reflexivity|].
  rewrite Hf, Hl. apply Nat.eqb_neq in Hg. rewrite Hg.
  destruct (length (phys data s) <? cfo data s); [reflexivity|].
  destruct (cfo data s =? 0); [reflexivity|]. destruct (cfo data s =? 1); [reflexivity|].
  destruct (tag_at data (phys data s) (cfo data s - 1)); [|reflexivity].
  destruct (negb (n =? cgen data s)); reflexivity.
Qed.

Lemma lost_sync_snap s :
  safe s -> pendingb (pc data s) = false -> lost_okb (pc data s) (gen data s) = false ->
  cur data s = Lost -> verify s = VSnap.
Proof.
  intros Hs Hp Hl A. pose proof Hs as [K S W L T O N P F Q G Z].
  destruct (L A) as [B|[B|[B|B]]]; try congruence.
  - unfold Machine.verify. rewrite B. reflexivity.
  - unfold freshlostb in B. apply andb_prop in B. destruct B as [B B3].
    apply andb_prop in B. destruct B as [_ B2]. apply negb_true_iff in B2.
    apply negb_true_iff in B3. apply Nat.eqb_neq in B3.
    apply fresh_verify_snap; auto.
Qed.

Lemma do_sync_sess s k s1 :
  do_sync s k = Some s1 -> (reached data s = false -> flag data s = false) -> cgen data s <= gen data s ->
  openmark data s1 = openmark data s /\ (reached data s1 = false -> flag data s1 = false) /\
  cgen data s1 <= gen data s1 /\
  (reached data s1 = true -> reached data s = true \/ (cfo data s1 = length (phys data s) /\ cgen data s1 = gen data s1)) /\
  (reached data s = true -> reached data s1 = true).
Proof.
  intros E Z G. revert E. unfold Machine.do_sync.
  destruct (negb (opened data s)); [discriminate|].
  destruct (phys data s) as [|p0 pr] eqn:Ep; [discriminate|].
  assert (Hw : forall x n c, let s' := write_file data s x n c in
              openmark data s' = openmark data s /\ (reached data s' = false -> flag data s' = false) /\
              cgen data s' <= gen data s' /\
              (reached data s' = true -> reached data s = true \/ (cfo data s' = length (p0 :: pr) /\ cgen data s' = gen data s')) /\
              (reached data s = true -> reached data s' = true)).
  { intros x n c. cbn. unfold reached, flag, openmark. cbn. split; [reflexivity|]. split.
    - intros A. apply orb_false_iff in A. tauto.
    - split; [lia|]. split.
      + intros A. apply orb_prop in A. destruct A as [A|A]; [left; exact A|right].
        apply Nat.eqb_eq in A. rewrite Ep in A. split; [exact A|reflexivity].
      + intros A. rewrite A. reflexivity. }
  assert (Gi : forall c k0 cl nc, incr_st data lock s c k0 cl nc = Some s1 ->
              openmark data s1 = openmark data s /\ (reached data s1 = false -> flag data s1 = false) /\
              cgen data s1 <= gen data s1 /\
              (reached data s1 = true -> reached data s = true \/ (cfo data s1 = length (p0 :: pr) /\ cgen data s1 = gen data s1)) /\
              (reached data s = true -> reached data s1 = true)).
  { intros c k0 cl nc. unfold incr_st.
    destruct (negb (c + k0 <=? length (txs data s))); [discriminate|].
    destruct (toend data s && negb (c + k0 =? length (txs data s))); [discriminate|].
    destruct (k0 =? 0).
    - intros E. inversion E; subst. destruct cl; [|auto 10].
      unfold set_flag, reached, flag, openmark. cbn. auto 10.
    - intros E. inversion E; subst. apply Hw. }
  destruct (verify s).
  - intros E. inversion E; subst. apply Hw.
  - destruct (idx data (txs data s) (cfo data s)); [apply Gi|discriminate].
  - apply Gi.
Qed.

Lemma safe_sync_gen s k s1 p :
  inv s -> safe s -> do_sync s k = Some s1 ->
  ((pc data s = Idle /\ p = Idle) \/ (exists m hg, pc data s = PHdr m hg /\ p = PCopied m hg) \/
   (exists hg, pc data s = PLocked hg /\ p = PSealed hg) \/ (pc data s = PRecopy /\ p = Idle)) ->
  safe (set_pc data s1 p).
Proof.
  intros H Hs Ed Hp. pose proof Hs as [K S W L T O N P F Q G Z].
  destruct (do_sync_frame _ _ _ Ed) as [F1 [F2 [F3 [F4 [F5 [F6 [F7 [F8 F9]]]]]]]].
  destruct (do_sync_cur _ _ _ H Ed) as [C1 [C2 C3]].
  destruct (do_sync_sess _ _ _ Ed Z G) as [M1 [M2 [M3 [M4 M5]]]].
  pose proof (inv_do_sync _ _ _ _ _ _ _ _ H Ed) as H1.
  assert (Hcls : pendingb (pc data s) = false /\
                 freeb (pc data s) = false /\ postpendb (pc data s) = false /\
                 lost_okb (pc data s) (gen data s) = false /\ relb (pc data s) = false).
  { destruct Hp as [[Hp _]|[[m [hg [Hp _]]]|[[hg [Hp _]]|[Hp _]]]];
      rewrite Hp; unfold freeb; cbn -[Nat.ltb]; rewrite ?andb_false_r; auto 10. }
  destruct Hcls as [Q1 [Q3 [Q4 [Q5 Q6]]]].
  assert (Hsnap : cur data s = Lost -> verify s = VSnap) by (apply lost_sync_snap; assumption).
  assert (HL1 : cur data s1 <> Lost).
  { intros A. destruct (C2 A) as [B1 B2]. apply B2. apply Hsnap. exact B1. }
  assert (Hend : toend data s = true -> at_end (set_pc data s1 p)).
  { intros A. unfold at_end. cbn. right. left. rewrite F1. apply C3; assumption. }
  constructor; cbn; rewrite ?F1, ?F2, ?F3, ?F4, ?F6, ?F7.
  - intros Hw Hml Hbf.
    destruct (K Hw Hml Hbf) as [A|[A|[A|[A|A]]]]; try congruence.
    + left. unfold at_end in *. cbn. apply C1. exact A.
    + rewrite Q4 in A. cbn in A.
      destruct Hp as [[Hp Hq]|[[m [hg [Hp Hq]]]|[[hg [Hp Hq]]|[Hp Hq]]]]; subst p.
      * unfold weakb in A. rewrite Hp in A. cbn [idleish andb] in A.
        apply andb_prop in A. destruct A as [Aom Ar]. apply negb_true_iff in Ar.
        destruct (reached data s1) eqn:Er1.
        -- (* this very sync reached the end of the WAL file: the cursor is at the end *)
           destruct (M4 eq_refl) as [B|[B1 B2]]; [congruence|]. left.
           pose proof (i_cur _ _ _ _ H1) as Hc1. unfold cur_inv in Hc1.
           unfold at_end. cbn. right. left.
           destruct (cur data s1) as [c1| |] eqn:Ec1; [| |contradiction].
           ++ destruct Hc1 as [Hle1 [_ [Hcfo1 _]]]. rewrite F1 in *.
              f_equal. eapply flen_firstn_full; [eapply txs_ok_nonempty; apply (i_txs _ _ _ _ H)|exact Hle1|].
              pose proof (flen_firstn_le (txs data s) c1). pose proof (i_phys _ _ _ _ H). lia.
           ++ destruct Hc1 as [Hlt _]. lia.
        -- right. right. right. right.
           change (weakb (set_pc data s1 Idle)) with (openmark data s1 && negb (reached data s1)).
           rewrite M1, Aom, Er1. reflexivity.
      * left. apply Hend. unfold toend. rewrite Hp. cbn. apply orb_true_r.
      * unfold weakb in A. rewrite Hp in A. discriminate.
      * unfold weakb in A. rewrite Hp in A. discriminate.
  - intros A.
    destruct Hp as [[Hp Hq]|[[m [hg [Hp Hq]]]|[[hg [Hp Hq]]|[Hp Hq]]]]; subst p; try discriminate.
    assert (Hw : wlock data s = true) by (apply W; rewrite Hp; reflexivity).
    split; [exact Hw|]. apply Hend. unfold toend. rewrite Hw. reflexivity.
  - intros A.
    destruct Hp as [[Hp Hq]|[[m [hg [Hp Hq]]]|[[hg [Hp Hq]]|[Hp Hq]]]]; subst p; discriminate.
  - intros A. contradiction.
  - intros hg A.
    destruct Hp as [[Hp Hq]|[[m [hg' [Hp Hq]]]|[[hg' [Hp Hq]]|[Hp Hq]]]]; subst p; try discriminate;
      cbn in A; inversion A; subst; destruct (T hg) as [T1 _]; try (rewrite Hp; reflexivity);
      (split; [exact T1|split; discriminate]).
  - rewrite F8. discriminate.
  - intros A. destruct (N A) as [B|B]; congruence.
  - rewrite F8. discriminate.
  - intros m A.
    destruct Hp as [[Hp Hq]|[[m' [hg' [Hp Hq]]]|[[hg' [Hp Hq]]|[Hp Hq]]]]; subst p; discriminate.
  - intros A.
    destruct Hp as [[Hp Hq]|[[m' [hg' [Hp Hq]]]|[[hg' [Hp Hq]]|[Hp Hq]]]]; subst p; discriminate.
  - rewrite <- F7. exact M3.
  - exact M2.
Qed.

(** the copy of commit 6edd82b *)
Lemma safe_postcopy s k s1 m hg pre wn :
  inv s -> safe s -> do_sync s k = Some s1 ->
  pc data s = PMid m hg pre wn false -> frb m = true ->
  safe (set_pc data s1 (PPost m hg pre wn)).
Proof.
  intros H Hs Ed Epc Hf. pose proof Hs as [K S W L T O N P F Q G Z].
  destruct (do_sync_frame _ _ _ Ed) as [F1 [F2 [F3 [F4 [F5 [F6 [F7 [F8 F9]]]]]]]].
  destruct (do_sync_cur _ _ _ H Ed) as [C1 [C2 C3]].
  destruct (do_sync_sess _ _ _ Ed Z G) as [M1 [M2 [M3 [M4 M5]]]].
  rewrite Epc in *.
  destruct (T hg eq_refl) as [T1 _].
  assert (Hpend : pendingb (PMid m hg pre wn false) = false) by (destruct m; try discriminate; reflexivity).
  assert (Ht : truncb m = false) by (destruct m; try discriminate; reflexivity).
  assert (Hlost : cur data s = Lost -> verify s = VSnap \/ (recheck = true /\ hg < gen data s)).
  { intros A. destruct (L A) as [B|[B|[B|B]]]; [|congruence|unfold freshlostb in B; rewrite Epc in B; discriminate|].
    - left. unfold Machine.verify. rewrite B. reflexivity.
    - right. cbn -[Nat.ltb] in B. rewrite Hf, Ht in B. cbn -[Nat.ltb] in B. rewrite orb_false_r in B.
      apply andb_prop in B. destruct B as [B1 B2]. apply Nat.ltb_lt in B1. auto. }
  assert (Htoend : toend data s = true) by (unfold toend; rewrite Epc; cbn; apply orb_true_r).
  assert (Hend : (recheck = false \/ gen data s = hg) -> at_end (set_pc data s1 (PPost m hg pre wn))).
  { intros Hc. unfold at_end. cbn. right. left. rewrite F1. apply C3; [exact Htoend|].
    intros A. destruct (Hlost A) as [B|[B1 B2]]; [exact B|]. destruct Hc; [congruence|lia]. }
  constructor; cbn -[Nat.ltb]; rewrite ?F1, ?F2, ?F3, ?F4, ?F6, ?F7.
  - intros _ _ _. destruct recheck eqn:Er.
    + right. right. right. left. unfold freeb. cbn. reflexivity.
    + left. apply Hend. auto.
  - discriminate.
  - discriminate.
  - intros A. destruct (C2 A) as [B1 B2]. destruct (Hlost B1) as [B|[B3 B4]]; [contradiction|].
    right. right. right. rewrite B3. apply Nat.ltb_lt. exact B4.
  - intros hg' A. inversion A; subst hg'. split; [exact T1|split; discriminate].
  - rewrite F8. discriminate.
  - intros A. destruct (N A) as [B|B]; try discriminate. congruence.
  - rewrite F8. discriminate.
  - intros m' A. inversion A; subst. exact Hf.
  - intros _ hg' A B _ _ _. inversion A; subst hg'. apply Hend. auto.
  - rewrite <- F7. exact M3.
  - exact M2.
Qed.

Lemma set_pc_self (s : state) : set_pc data s (pc data s) = s.
Proof. destruct s. reflexivity. Qed.

Lemma safe_LsSync s k s' :
  inv s -> safe s -> step s (LsSync data k) = Some s' -> safe s'.
Proof.
  intros H Hs E. cbn in E.
  destruct (pc data s) as [|m hg|m hg|hg|hg| | |m hg pre wn rb| | | | | | |] eqn:Epc; try discriminate.
  - destruct (do_sync_frame _ _ _ E) as [_ [_ [_ [_ [F5 _]]]]]. rewrite Epc in F5.
    rewrite <- (set_pc_self s'). rewrite F5. eapply safe_sync_gen; eauto.
  - destruct (do_sync s k) eqn:Ed; [|discriminate]. inversion E; subst s'.
    eapply safe_sync_gen; eauto. right. left. eauto.
  - destruct (do_sync s k) eqn:Ed; [|discriminate]. inversion E; subst s'.
    eapply safe_sync_gen; eauto. right. right. left. eauto.
  - destruct (needs_post true m rb) eqn:En; [|discriminate].
    destruct (do_sync s k) eqn:Ed; [|discriminate]. inversion E; subst s'.
    unfold needs_post in En. cbn in En. apply andb_prop in En. destruct En as [Hf Hr].
    apply negb_true_iff in Hr. subst rb.
    eapply safe_postcopy; eauto.
  - destruct (do_sync s k) eqn:Ed; [|discriminate]. inversion E; subst s'.
    eapply safe_sync_gen; eauto.
Qed.

Lemma safe_LsOpen s s' : inv s -> safe s -> step s (LsOpen data) = Some s' -> safe s'.
Proof.
  intros H Hs E. cbn in E. pose proof Hs as [K S W L T O N P F Q G Z].
  destruct (opened data s) eqn:Eo; [discriminate|]. destruct (pc data s) eqn:Epc; try discriminate.
  inversion E; subst s'. clear E.
  constructor; unfold freshlostb, weakb, lastoff, flag, openmark, reached in *; cbn; rewrite ?Epc in *; cbn in *; triv.
  - intros _ _ _. unfold at_end. cbn. destruct (l0 data s); [left; left; reflexivity|]. right. right. right. right.
    destruct (O eq_refl) as [O1 _]. unfold reached. cbn. rewrite O1. reflexivity.
  - unfold acquire. destruct (backfilled data s =? length (txs data s)); discriminate.
Qed.

Lemma safe_LsAck s s' : inv s -> safe s -> step s (LsAck data) = Some s' -> safe s'.
Proof.
  intros H Hs E. cbn in E. pose proof Hs as [K S W L T O N P F Q G Z].
  destruct (pc data s) eqn:Epc; try discriminate. destruct (l0 data s) eqn:El; [discriminate|].
  destruct ((cgen data s =? gen data s) && (cfo data s =? flen data (txs data s))); [|discriminate].
  inversion E; subst s'. clear E.
  constructor; cbn; rewrite ?Epc, ?El in *; assumption.
Qed.

Lemma safe_LsCkStart s m s' : inv s -> safe s -> step s (LsCkStart data m) = Some s' -> safe s'.
Proof.
  intros H Hs E. cbn in E. pose proof Hs as [K S W L T O N P F Q G Z].
  destruct (pc data s) eqn:Epc; try discriminate. destruct (phys data s); [discriminate|].
  destruct (snap data s); [discriminate|].
  destruct (opened data s) eqn:Eo; [|discriminate]. inversion E; subst s'. clear E.
  constructor; prep; fin2.
  intros hg A. inversion A; subst. split; [lia|split; discriminate].
Qed.

Lemma safe_LsLockWrite s s' : inv s -> safe s -> step s (LsLockWrite data) = Some s' -> safe s'.
Proof.
  intros H Hs E. cbn in E. pose proof Hs as [K S W L T O N P F Q G Z].
  destruct (pc data s) as [| |m0 hg0| | | | | | | | | |p|p|] eqn:Epc; try discriminate.
  - destruct m0; try discriminate. inversion E; subst s'. clear E.
    constructor; prep; fin2.
  - inversion E; subst s'. clear E.
    constructor; prep; fin2.
Qed.

Lemma safe_LsRelease s s' : inv s -> safe s -> step s (LsRelease data) = Some s' -> safe s'.
Proof.
  intros H Hs E. cbn in E. pose proof Hs as [K S W L T O N P F Q G Z].
  destruct (pc data s) as [| |m0 hg0| |hg0| | | | | | | | | |] eqn:Epc; try discriminate.
  - destruct (mode_eqb m0 Passive) eqn:Em; [discriminate|]. inversion E; subst s'. clear E.
    destruct m0; try discriminate; constructor; prep; fin2.
  - inversion E; subst s'. clear E.
    constructor; prep; fin2.
    intros A. destruct (S eq_refl). congruence.
Qed.

Lemma safe_LsCkpt s j sz s' : inv s -> safe s -> step s (LsCkpt data j sz) = Some s' -> safe s'.
Proof.
  intros H Hs E. cbn in E. pose proof Hs as [K S W L T O N P F Q G Z].
  destruct (pc data s) as [| | | | |m0 hg0 pre0| | | | | | | | |] eqn:Epc; try discriminate.
  destruct (ls_mark data s) eqn:Em; [discriminate|].
  destruct m0.
  - destruct ((backfilled data s <=? j) && (j <=? length (txs data s))); [|discriminate].
    inversion E; subst s'. clear E. destruct (S eq_refl) as [S1 S2].
    constructor; prep; rewrite ?Em in *; fin2.
  - destruct ((backfilled data s <=? j) && (j <=? length (txs data s))); [|discriminate].
    inversion E; subst s'. clear E.
    constructor; prep; rewrite ?Em in *; fin2.
  - destruct ((backfilled data s <=? j) && (j <=? length (txs data s))); [|discriminate].
    inversion E; subst s'. clear E.
    constructor; prep; rewrite ?Em in *; fin2.
  - destruct (j =? length (txs data s)) eqn:Ej; [|discriminate]. apply Nat.eqb_eq in Ej.
    inversion E; subst s'. clear E.
    constructor; prep; rewrite ?Em in *; fin2.
    (* whatever was committed since the copy is checkpointed and truncated unseen: the header
       comparison after the bump finds another generation *)
    intros _. right. right. right. apply Nat.leb_le. destruct (T _ eq_refl) as [T1 _]. exact T1.
Qed.

(** TRUNCATE that comes back busy: a partial backfill, no reset *)
Lemma safe_LsCkptBusy s j sz s' : inv s -> safe s -> step s (LsCkptBusy data j sz) = Some s' -> safe s'.
Proof.
  intros H Hs E. cbn in E. pose proof Hs as [K S W L T O N P F Q G Z].
  destruct (pc data s) as [| | | | |m0 hg0 pre0| | | | | | | | |] eqn:Epc; try discriminate.
  destruct m0; try discriminate.
  destruct (ls_mark data s) eqn:Em; [discriminate|].
  destruct ((backfilled data s <=? j) && (j <=? length (txs data s))); [|discriminate].
  inversion E; subst s'. clear E.
  constructor; prep; rewrite ?Em in *; fin2.
Qed.

Lemma safe_LsReacquire s s' : inv s -> safe s -> step s (LsReacquire data) = Some s' -> safe s'.
Proof.
  intros H Hs E. cbn in E. pose proof Hs as [K S W L T O N P F Q G Z].
  destruct (pc data s) as [| | | | | |m0 hg0 pre0 wn0| | | | | | | |] eqn:Epc; try discriminate.
  destruct (ls_mark data s) eqn:Em; [discriminate|].
  inversion E; subst s'. clear E.
  destruct m0; constructor; prep; fin2.
  intros A. destruct (S eq_refl). congruence.
Qed.

(** the header re-read of commit 80a5b27 *)
Lemma safe_mid_fr s m hg pre wn n :
  inv s -> safe s -> pc data s = PCkpted m hg pre wn -> frb m = true -> ls_mark data s = Some n ->
  safe (set_pc data s (PMid m hg pre wn (mid_restarted midcheck m hg (gen data s)))).
Proof.
  intros H Hs Epc Hf Em. pose proof Hs as [K S W L T O N P F Q G Z]. rewrite Epc in *.
  destruct (T hg eq_refl) as [T1 _].
  assert (Hpend : pendingb (PCkpted m hg pre wn) = false) by (destruct m; try discriminate; reflexivity).
  assert (Hpend' : forall rb, pendingb (PMid m hg pre wn rb) = false) by (destruct m; try discriminate; reflexivity).
  assert (Hptr : forall rb, post_truncb (PMid m hg pre wn rb) = false) by (destruct m; try discriminate; reflexivity).
  unfold mid_restarted. rewrite Hf, andb_true_r.
  set (rb := midcheck && negb (hg =? gen data s)).
  assert (Hrb : rb = true -> hg < gen data s).
  { unfold rb. intros A. apply andb_prop in A. destruct A as [_ A].
    apply negb_true_iff in A. apply Nat.eqb_neq in A. lia. }
  assert (Hlost : hg < gen data s -> rb = true \/ recheck = true).
  { intros A. destruct Hmr as [B|B]; [left|right; exact B].
    unfold rb. rewrite B. cbn. apply negb_true_iff. apply Nat.eqb_neq. lia. }
  constructor; cbn -[Nat.ltb]; rewrite ?Hf, ?Hpend', ?Hptr; cbn -[Nat.ltb]; triv.
  - intros _ _ _. destruct rb eqn:Er.
    + right. right. right. left. unfold freeb. cbn. rewrite Hf. reflexivity.
    + right. right. right. right. unfold postpendb, post_pending, needs_post. rewrite Hf. reflexivity.
  - intros A. destruct (L A) as [B|[B|[B|B]]]; [auto|congruence|unfold freshlostb in B; rewrite Epc in B; discriminate|].
    right. right. right. cbn -[Nat.ltb] in B. rewrite Hf in B. cbn -[Nat.ltb] in B.
    rewrite B. apply Nat.ltb_lt in B. cbn. destruct (Hlost B) as [C|C]; rewrite C; [reflexivity|].
    rewrite orb_true_r. reflexivity.
  - intros hg' A. inversion A; subst hg'. split; [exact T1|]. split; [destruct m; discriminate|exact Hrb].
  - intros A. specialize (P A). discriminate.
Qed.

Lemma safe_LsMid s s' : inv s -> safe s -> step s (LsMid data) = Some s' -> safe s'.
Proof.
  intros H Hs E. cbn in E. pose proof Hs as [K S W L T O N P F Q G Z].
  destruct (pc data s) as [| | | | | |m0 hg0 pre0 wn0| | | | | | | |] eqn:Epc; try discriminate.
  destruct (ls_mark data s) eqn:Em; [|discriminate].
  inversion E; subst s'. clear E.
  destruct m0.
  - unfold mid_restarted. cbn [frb]. rewrite andb_false_r. cbn [andb].
    destruct (S eq_refl) as [S1 S2]. constructor; prep; fin2.
  - eapply safe_mid_fr; eauto.
  - eapply safe_mid_fr; eauto.
  - unfold mid_restarted. cbn [frb]. rewrite andb_false_r. cbn [andb].
    constructor; prep; fin2.
    intros A. destruct (L A) as [B|[B|[B|B]]]; auto; try discriminate.
    right. right. right. rewrite B. rewrite orb_true_r. reflexivity.
Qed.

Lemma safe_unlock_post s m hg pre wn :
  inv s -> safe s -> pc data s = PPost m hg pre wn ->
  safe (set_pc data s (PUnlocked m hg pre wn (post_rb recheck hg (gen data s)))).
Proof.
  intros H Hs Epc. pose proof Hs as [K S W L T O N P F Q G Z]. rewrite Epc in *.
  destruct (T hg eq_refl) as [T1 _]. pose proof (F m eq_refl) as Hf.
  unfold post_rb. destruct (recheck && negb (hg =? gen data s)) eqn:Erb.
  - apply andb_prop in Erb. destruct Erb as [Er Eg]. apply negb_true_iff in Eg. apply Nat.eqb_neq in Eg.
    constructor; cbn -[Nat.ltb]; rewrite ?Hf; cbn -[Nat.ltb]; triv.
    all: try solve [intros _ _ _; right; right; right; left; unfold freeb; cbn; rewrite Hf; reflexivity].
    all: try solve [intros A; destruct (L A) as [B|[B|[B|B]]];
                    [left; exact B|cbn in B; discriminate|unfold freshlostb in B; rewrite Epc in B; discriminate|];
                    right; right; right; cbn -[Nat.ltb] in B; apply andb_prop in B; destruct B as [_ B];
                    rewrite B; reflexivity].
    all: try solve [intros hg' A; inversion A; subst; split; [exact T1|]; split; [destruct m; discriminate|]; intros _; lia].
    all: try solve [intros A; destruct (N A) as [B|B]; auto; discriminate].
    all: try solve [intros A; specialize (P A); discriminate].
  - assert (Hc : recheck = false \/ gen data s = hg).
    { destruct recheck; [right|left; reflexivity]. cbn in Erb. apply negb_false_iff in Erb.
      apply Nat.eqb_eq in Erb. congruence. }
    constructor; cbn -[Nat.ltb]; rewrite ?Hf; cbn -[Nat.ltb]; triv.
    all: try solve [intros A B C; left; destruct Hc as [Hc|Hc];
                    [destruct (K A B C) as [D|[D|[D|[D|D]]]];
                     [exact D|cbn in D; discriminate|specialize (P D); discriminate
                     |unfold freeb in D; rewrite Hc in D; cbn in D; discriminate
                     |unfold weakb in D; rewrite Epc in D; cbn in D; discriminate]
                    |apply (Q eq_refl hg eq_refl Hc A B C)]].
    all: try solve [intros A; destruct (L A) as [B|[B|[B|B]]];
                    [left; exact B|cbn in B; discriminate|unfold freshlostb in B; rewrite Epc in B; discriminate|];
                    exfalso; cbn -[Nat.ltb] in B; apply andb_prop in B; destruct B as [B1 B2];
                    apply Nat.ltb_lt in B2; destruct Hc; [congruence|lia]].
    all: try solve [intros hg' A; inversion A; subst; split; [exact T1|]; split; [destruct m; discriminate|discriminate]].
    all: try solve [intros A; destruct (N A) as [B|B]; auto; discriminate].
    all: try solve [intros A; specialize (P A); discriminate].
Qed.

Lemma safe_LsUnlock s s' : inv s -> safe s -> step s (LsUnlock data) = Some s' -> safe s'.
Proof.
  intros H Hs E. cbn in E. pose proof Hs as [K S W L T O N P F Q G Z].
  destruct (pc data s) as [| | | | | | |m0 hg0 pre0 wn0 rb0|m1 hg1 pre1 wn1| | | | | |] eqn:Epc; try discriminate.
  - destruct (needs_post true m0 rb0) eqn:En; [discriminate|].
    inversion E; subst s'. clear E.
    unfold needs_post in En. cbn [andb] in En.
    destruct m0; cbn in En.
    + destruct (S eq_refl) as [S1 S2]. constructor; prep; fin2.
    + apply negb_false_iff in En. subst rb0. constructor; prep; fin2.
    + apply negb_false_iff in En. subst rb0. constructor; prep; fin2.
    + constructor; prep; fin2.
      intros A. destruct (L A) as [B|[B|[B|B]]]; auto; try discriminate.
      right. right. right. apply andb_prop in B. destruct B as [B _]. rewrite B.
      rewrite orb_true_r. reflexivity.
  - inversion E; subst s'. clear E. apply safe_unlock_post; assumption.
Qed.

(** (the bump has just committed a frame: the WAL is not completely backfilled) *)
Lemma safe_bump_pc s1 m hg pre wn rb :
  safe s1 -> pc data s1 = PUnlocked m hg pre wn rb ->
  backfilled data s1 < length (txs data s1) ->
  safe (set_pc data s1 (PBumped m hg pre wn rb)).
Proof.
  intros Hs Epc Hbf. pose proof Hs as [K S W L T O N P F Q G Z]. rewrite Epc in *.
  constructor; cbn -[Nat.ltb] in *; try assumption; triv.
  all: try solve [intros A; specialize (P A); discriminate].
  - intros A B C. lia.
  - intros A. destruct (L A) as [D|[D|[D|D]]]; auto 6.
    unfold freshlostb in D. rewrite Epc in D. cbn in D. discriminate.
Qed.

Lemma safe_LsBump s t r s' :
  inv s -> safe s -> step s (LsBump data t r) = Some s' -> safe s'.
Proof.
  intros H Hs E. cbn in E.
  destruct (pc data s) as [| | | | | | | | |m0 hg0 pre0 wn0 rb0| | | | |] eqn:Epc; try discriminate.
  destruct (do_commit data s t r) as [s1|] eqn:Ed; [|discriminate].
  inversion E; subst s'. clear E.
  assert (Hs1 : safe s1).
  { apply (safe_commit_same s t r s1 H Hs); [|exact Ed]. intros _. right. rewrite Epc. reflexivity. }
  destruct (do_commit_facts _ _ _ _ H Hs Ed) as [_ [_ [Hbf [_ [Hpc _]]]]].
  apply safe_bump_pc; [exact Hs1|congruence|exact Hbf].
Qed.

Lemma safe_cmp_plain s m hg pre wn rb p :
  safe s -> pc data s = PBumped m hg pre wn rb -> (p = Idle \/ p = PRecopy) ->
  (wlock data s = false -> mark_low (ls_mark data s) = true ->
   backfilled data s = length (txs data s) -> at_end s) ->
  (cur data s = Lost -> l0 data s = []) ->
  safe (set_pc data s p).
Proof.
  intros Hs Epc Hp HK HL. pose proof Hs as [K S W L T O N P F Q G Z]. rewrite Epc in *.
  destruct Hp; subst p; constructor; cbn in *; triv; auto.
  all: try solve [intros A; destruct (N A) as [B|B]; auto; discriminate].
  all: try solve [intros A; specialize (P A); discriminate].
Qed.

Lemma safe_cmp_boundary s m hg pre wn rb :
  safe s -> pc data s = PBumped m hg pre wn rb -> safe (set_pc data s PBoundary).
Proof.
  intros Hs Epc. pose proof Hs as [K S W L T O N P F Q G Z]. rewrite Epc in *.
  constructor; cbn in *; triv; auto.
  all: try solve [intros A; destruct (N A) as [B|B]; auto; discriminate].
  all: try solve [intros A; specialize (P A); discriminate].
Qed.

Lemma safe_LsCmpHdr s s' : inv s -> safe s -> step s (LsCmpHdr data) = Some s' -> safe s'.
Proof.
  intros H Hs E. cbn in E. pose proof Hs as [K S W L T O N P F Q G Z].
  destruct (pc data s) as [| | | | | | | | | |m hg pre wn rb| | | |] eqn:Epc; try discriminate.
  destruct (T hg eq_refl) as [T1 [T2 T3]].
  assert (Hfree : freeb (PBumped m hg pre wn rb) = true -> frb m = true /\ rb = true).
  { unfold freeb. cbn. rewrite andb_false_r, orb_false_r. intros A. apply andb_prop in A. exact A. }
  assert (Hlok : forall g, lost_okb (PBumped m hg pre wn rb) g = true ->
                 (truncb m = true \/ (frb m = true /\ rb = true)) /\ hg < g).
  { intros g A. cbn -[Nat.ltb] in A. apply andb_prop in A. destruct A as [A A3].
    apply andb_prop in A. destruct A as [A1 A2]. apply Nat.ltb_lt in A2. split; [|exact A2].
    destruct (truncb m) eqn:Et; [left; reflexivity|right].
    rewrite orb_false_r in A1, A3. auto. }
  unfold ck_decide in E.
  destruct (hg =? gen data s) eqn:Eg.
  - (* header unchanged *)
    apply Nat.eqb_eq in Eg. inversion E; subst s'. clear E.
    eapply safe_cmp_plain; eauto.
    + intros A B C. destruct (K A B C) as [D|[D|[D|[D|D]]]];
        [exact D|discriminate D|specialize (P D); discriminate|
         |unfold weakb in D; rewrite Epc in D; cbn in D; discriminate].
      exfalso. destruct (Hfree D) as [_ D2]. specialize (T3 D2). lia.
    + intros A. destruct (L A) as [D|[D|[D|D]]];
        [exact D|discriminate D|unfold freshlostb in D; rewrite Epc in D; cbn in D; discriminate|].
      exfalso. destruct (Hlok _ D) as [_ D3]. lia.
  - assert (Hplain : truncb m = false -> rb = false \/ frb m = false ->
                     safe (set_pc data s PRecopy) \/ pendingb (PBumped m hg pre wn rb) = true).
    { intros Hnt Hc. destruct (pendingb (PBumped m hg pre wn rb)) eqn:Ep; [auto|]. left.
      eapply safe_cmp_plain; eauto.
      - intros A B C. destruct (K A B C) as [D|[D|[D|[D|D]]]];
          [exact D|discriminate|specialize (P D); discriminate|
           |unfold weakb in D; rewrite Epc in D; cbn in D; discriminate].
        exfalso. destruct (Hfree D) as [D1 D2]. destruct Hc; congruence.
      - intros A. destruct (L A) as [D|[D|[D|D]]];
          [exact D|discriminate|unfold freshlostb in D; rewrite Epc in D; cbn in D; discriminate|].
        exfalso. destruct (Hlok _ D) as [[Dt|[D1 D2]] _]; [congruence|]. destruct Hc; congruence. }
    destruct m.
    + inversion E; subst s'. clear E. destruct Hplain as [A|A]; [reflexivity|right; reflexivity|exact A|discriminate].
    + destruct (negb rb && (wn <=? pre)) eqn:Ec.
      * apply andb_prop in Ec. destruct Ec as [Erb _]. apply negb_true_iff in Erb.
        inversion E; subst s'. clear E. destruct Hplain as [A|A]; [reflexivity|left; exact Erb|exact A|discriminate].
      * inversion E; subst s'. clear E. eapply safe_cmp_boundary; eauto.
    + destruct (negb rb && (wn <=? pre)) eqn:Ec.
      * apply andb_prop in Ec. destruct Ec as [Erb _]. apply negb_true_iff in Erb.
        inversion E; subst s'. clear E. destruct Hplain as [A|A]; [reflexivity|left; exact Erb|exact A|discriminate].
      * inversion E; subst s'. clear E. eapply safe_cmp_boundary; eauto.
    + inversion E; subst s'. clear E. eapply safe_cmp_boundary; eauto.
Qed.

Lemma safe_LsBoundarySnap s s' : inv s -> safe s -> step s (LsBoundarySnap data) = Some s' -> safe s'.
Proof.
  intros H Hs E. cbn in E. pose proof Hs as [K S W L T O N P F Q G Z].
  destruct (pc data s) eqn:Epc; try discriminate. destruct (phys data s) eqn:Ep; [discriminate|].
  destruct (opened data s) eqn:Eo; [|discriminate].
  inversion E; subst s'. clear E.
  constructor; cbn; rewrite ?Eo; triv.
  all: try solve [intros A; destruct (N A) as [B|B]; auto; discriminate].
  all: try solve [intros A; specialize (P A); congruence].
  all: try solve [intros _ _ _; left; unfold at_end; cbn; auto].
  all: try solve [unfold reached, flag; cbn; intros A; apply orb_false_iff in A; tauto].
Qed.

(** Close, or the death of the process: the next session starts from the files *)
Lemma safe_closed s :
  safe s -> (cur data s = Lost -> l0 data s = [] \/ cgen data s <> gen data s) ->
  safe (set_closed data s).
Proof.
  intros Hs HJ. pose proof Hs as [K S W L T O N P F Q G Z].
  constructor; unfold freshlostb, weakb, lastoff, flag, openmark, reached; cbn; triv; auto 6.
  intros A. destruct (HJ A) as [B|B]; [left; exact B|].
  right. right. left. apply negb_true_iff. apply Nat.eqb_neq. exact B.
Qed.

Lemma safe_LsClose s s' : inv s -> safe s -> step s (LsClose data) = Some s' -> safe s'.
Proof.
  intros H Hs E. cbn in E. pose proof Hs as [K S W L T O N P F Q G Z].
  destruct (pc data s) eqn:Epc; try discriminate. destruct (opened data s) eqn:Eo; [|discriminate].
  inversion E; subst s'. clear E. apply safe_closed; [exact Hs|].
  intros A. destruct (L A) as [B|[B|[B|B]]]; [left; exact B|discriminate| |discriminate].
  right. unfold freshlostb in B. apply andb_prop in B. destruct B as [_ B].
  apply negb_true_iff in B. apply Nat.eqb_neq. exact B.
Qed.

Lemma safe_LsKill s s' :
  inv s -> safe s -> window_ok data true recheck true s (LsKill data) = true ->
  step s (LsKill data) = Some s' -> safe s'.
Proof.
  intros H Hs Hwin E. cbn in E. destruct (opened data s); [|discriminate].
  inversion E; subst s'. clear E. apply safe_closed; [exact Hs|].
  intros A. cbn in Hwin. unfold kill_ok in Hwin. rewrite A in Hwin.
  destruct (l0 data s); [left; reflexivity|right].
  apply negb_true_iff in Hwin. apply Nat.eqb_neq. exact Hwin.
Qed.

(** snapshots touch neither the environment nor the cursor *)
Lemma safe_snap_frame s x : safe s -> safe (set_snap data s x).
Proof.
  intros Hs. pose proof Hs as [K S W L T O N P F Q G Z].
  constructor; unfold freshlostb, weakb, lastoff, flag, openmark, reached in *; cbn; assumption.
Qed.
Lemma safe_add_snap s x : safe s -> safe (add_snap data s x).
Proof.
  intros Hs. pose proof Hs as [K S W L T O N P F Q G Z].
  constructor; unfold freshlostb, weakb, lastoff, flag, openmark, reached in *; cbn; assumption.
Qed.

Lemma safe_LsSnapPos s g s' : safe s -> step s (LsSnapPos data g) = Some s' -> safe s'.
Proof.
  intros Hs E. cbn in E. destruct (pc data s); try discriminate. destruct (l0 data s); [discriminate|].
  destruct (snap data s); [discriminate|]. destruct (opened data s); [|discriminate].
  inversion E; subst. apply safe_snap_frame. exact Hs.
Qed.

Lemma safe_LsSnapRead s chk s' : safe s -> step s (LsSnapRead data chk) = Some s' -> safe s'.
Proof.
  intros Hs E. cbn in E. destruct (snap data s) as [[[[p we] sc] sg]|]; [|discriminate].
  destruct (phys data s); [discriminate|]. destruct (opened data s); [|discriminate].
  match type of E with (if ?c then _ else _) = _ => destruct c end.
  { inversion E; subst. apply safe_snap_frame. exact Hs. }
  destruct (snap_idx data (txs data s) we); [|discriminate].
  inversion E; subst. apply safe_add_snap, safe_snap_frame. exact Hs.
Qed.

(** the copy after a FULL/RESTART checkpoint as commit 20b75a5 runs it *)
Lemma safe_strict s :
  safe s -> idleish (pc data s) = false -> safe (strict_ss data s).
Proof.
  intros Hs Hi. pose proof Hs as [K S W L T O N P F Q G Z].
  constructor; unfold strict_ss, freshlostb, weakb, lastoff, flag, openmark, reached in *; cbn in *;
    rewrite ?Hi in *; cbn in *; try assumption.
  - intros A. destruct (O A) as [_ [O2 O3]]. auto.
  - reflexivity.
Qed.

Lemma safe_merge s r :
  safe s -> idleish (pc data s) = false -> opened data s = true -> safe (merge_reached data s r).
Proof.
  intros Hs Hi Ho. pose proof Hs as [K S W L T O N P F Q G Z].
  constructor; unfold merge_reached, freshlostb, weakb, lastoff, flag, openmark, reached in *; cbn in *;
    rewrite ?Hi in *; cbn in *; try assumption.
  all: try solve [intros A; congruence].
  all: try solve [intros A; apply orb_false_iff in A; destruct A as [A _]; apply Z; exact A].
Qed.

Lemma safe_LsPostSync s k s' :
  inv s -> safe s -> step s (LsPostSync data k) = Some s' -> safe s'.
Proof.
  intros H Hs E. cbn in E.
  destruct (pc data s) as [| | | | | | |m hg pre wn rb| | | | | | |] eqn:Epc; try discriminate.
  destruct (needs_post true m rb) eqn:En; [|discriminate].
  destruct (do_sync (strict_ss data s) k) as [s1|] eqn:Ed; [|discriminate]. inversion E; subst s'. clear E.
  unfold needs_post in En. cbn in En. apply andb_prop in En. destruct En as [Hf Hr].
  apply negb_true_iff in Hr. subst rb.
  assert (Hi : idleish (pc data s) = false) by (rewrite Epc; reflexivity).
  assert (H1 : inv (strict_ss data s)) by (unfold strict_ss; apply inv_set_ss; exact H).
  assert (Hs1 : safe (strict_ss data s)) by (apply safe_strict; assumption).
  pose proof (safe_postcopy (strict_ss data s) k s1 m hg pre wn H1 Hs1 Ed Epc Hf) as Hp.
  destruct (do_sync_frame _ _ _ Ed) as [_ [_ [_ [_ [_ [F6 [_ [F8 _]]]]]]]].
  change (set_pc data (merge_reached data s1 (reached data s)) (PPost m hg pre wn))
    with (merge_reached data (set_pc data s1 (PPost m hg pre wn)) (reached data s)).
  apply safe_merge; [exact Hp|reflexivity|].
  cbn. rewrite F6. exact F8.
Qed.

(** ** every step preserves [safe] (control flow with both fixes) *)
Theorem safe_step s l s' :
  inv s -> safe s -> window_ok data true recheck true s l = true ->
  step s l = Some s' -> safe s'.
Proof.
  intros H Hs Hwin E. destruct l.
  - eapply safe_AppCommit; eauto.
  - eapply safe_AppCkpt; eauto.
  - eapply safe_AppTruncate; eauto.
  - eapply safe_LsOpen; eauto.
  - eapply safe_LsSync; eauto.
  - eapply safe_LsAck; eauto.
  - eapply safe_LsCkStart; eauto.
  - eapply safe_LsLockWrite; eauto.
  - eapply safe_LsRelease; eauto.
  - eapply safe_LsCkpt; eauto.
  - eapply safe_LsReacquire; eauto.
  - eapply safe_LsMid; eauto.
  - eapply safe_LsUnlock; eauto.
  - eapply safe_LsBump; eauto.
  - eapply safe_LsCmpHdr; eauto.
  - eapply safe_LsBoundarySnap; eauto.
  - eapply safe_LsClose; eauto.
  - eapply safe_LsKill; eauto.
  - eapply safe_LsSnapPos; eauto.
  - eapply safe_LsSnapRead; eauto.
  - cbn in Hwin. discriminate.
  - eapply safe_LsPostSync; eauto.
  - eapply safe_LsCkptBusy; eauto.
  - cbn in Hwin. discriminate.
Qed.

Lemma init_safe s : init_ok data zero lock s -> safe s.
Proof.
  intros [H1 [H2 [H3 [H4 [H5 [H6 [H7 [H8 [H9 [H10 [H11 [H12 [H13 [H14 H15]]]]]]]]]]]]]].
  constructor; unfold freshlostb, weakb, lastoff, flag, openmark, reached; rewrite ?H10, ?H13; cbn; triv; auto.
  all: try solve [intros _ _ _; left; left; exact H9].
  all: try solve [intros _; left; exact H9].
  all: try solve [intros _; auto].
  all: try solve [rewrite H12 in *; lia].
Qed.

End Safe.
