(** Proofs about the Db layer: the commit-boundary cut of budgeted WAL reads
    (C02), facts about the verify decision (C04), and the link between the
    byte-level page map (Wal layer) and the abstract chunk semantics of Db/Image.v. *)
From Coq Require Import List NArith ZArith Bool Lia.
From LS Require Import Base.Bytes Base.PMap Wal.Reader Wal.Sqlite Wal.Proofs Db.Verify Db.Sync.
Import ListNotations.
Open Scope N_scope.

(* ------------------------------------------------------------------------- *)
(** * A budgeted read stops only at commit frames *)

Lemma pm_loop_prefix fs : forall r m tx commit start maxb,
  exists n lim r',
    (n <= length (ls_valid_prefix (r_bo r) (r_s1 r) (r_s2 r) (r_c1 r, r_c2 r) fs))%nat /\
    pm_loop fs r m tx commit start maxb =
      (fst (absorb (foff r) (frame_size (r_ps r))
              (firstn n (ls_valid_prefix (r_bo r) (r_s1 r) (r_s2 r) (r_c1 r, r_c2 r) fs)) m tx commit),
       snd (absorb (foff r) (frame_size (r_ps r))
              (firstn n (ls_valid_prefix (r_bo r) (r_s1 r) (r_s2 r) (r_c1 r, r_c2 r) fs)) m tx commit),
       lim, r') /\
    (lim = true ->
       exists pre pg c,
         firstn n (ls_valid_prefix (r_bo r) (r_s1 r) (r_s2 r) (r_c1 r, r_c2 r) fs) = pre ++ [(pg, c)] /\ c <> 0) /\
    (lim = false -> n = length (ls_valid_prefix (r_bo r) (r_s1 r) (r_s2 r) (r_c1 r, r_c2 r) fs)).
Proof.
  induction fs as [|f tl IH]; intros r m tx commit start maxb; cbn [pm_loop ls_valid_prefix].
  - exists 0%nat, false, r. cbn. repeat split; try reflexivity; try lia; try discriminate.
  - rewrite read_frame_verify.
    destruct (ls_decode_frame (r_bo r) (r_s1 r) (r_s2 r) (r_c1 r, r_c2 r) f) as [[[pg c] ck]|] eqn:D.
    + rewrite rd_offset_next.
      assert (Hnext : forall m0 tx0 c0,
        exists n lim r',
          (n <= length (ls_valid_prefix (r_bo r) (r_s1 r) (r_s2 r) ck tl))%nat /\
          pm_loop tl (rd_next r ck) m0 tx0 c0 start maxb =
            (fst (absorb (foff r + frame_size (r_ps r)) (frame_size (r_ps r))
                    (firstn n (ls_valid_prefix (r_bo r) (r_s1 r) (r_s2 r) ck tl)) m0 tx0 c0),
             snd (absorb (foff r + frame_size (r_ps r)) (frame_size (r_ps r))
                    (firstn n (ls_valid_prefix (r_bo r) (r_s1 r) (r_s2 r) ck tl)) m0 tx0 c0),
             lim, r') /\
          (lim = true -> exists pre pg' c',
              firstn n (ls_valid_prefix (r_bo r) (r_s1 r) (r_s2 r) ck tl) = pre ++ [(pg', c')] /\ c' <> 0) /\
          (lim = false -> n = length (ls_valid_prefix (r_bo r) (r_s1 r) (r_s2 r) ck tl))).
      { intros m0 tx0 c0. destruct (IH (rd_next r ck) m0 tx0 c0 start maxb) as (n & lim & r' & H1 & H2 & H3 & H4).
        rewrite foff_next in H2. cbn [rd_next r_bo r_s1 r_s2 r_c1 r_c2 r_ps] in *.
        destruct ck as [k1 k2]. cbn [fst snd] in *.
        exists n, lim, r'. repeat split; assumption. }
      destruct (N.eqb c 0) eqn:Ec; cbn [negb].
      * (* not a commit frame: continue *)
        destruct (Hnext m (pm_set pg (foff r) tx) commit) as (n & lim & r' & H1 & H2 & H3 & H4).
        exists (S n), lim, r'. cbn [length firstn absorb]. rewrite Ec.
        split; [lia|]. split; [exact H2|]. split.
        -- intros Hl. destruct (H3 Hl) as (pre & pg' & c' & E & Hc).
           exists ((pg, c) :: pre), pg', c'. rewrite E. split; [reflexivity|exact Hc].
        -- intros Hl. rewrite (H4 Hl). reflexivity.
      * (* commit frame *)
        destruct (N.ltb 0 maxb && N.leb maxb (foff r + frame_size (r_ps r) - start)) eqn:Elim.
        -- exists 1%nat, true, (rd_next r ck). cbn [length firstn absorb]. rewrite Ec.
           split; [lia|]. split; [reflexivity|]. split.
           ++ intros _. exists [], pg, c. split; [reflexivity|]. apply N.eqb_neq. exact Ec.
           ++ discriminate.
        -- destruct (Hnext (pm_union m (pm_set pg (foff r) tx)) [] c) as (n & lim & r' & H1 & H2 & H3 & H4).
           exists (S n), lim, r'. cbn [length firstn absorb]. rewrite Ec.
           split; [lia|]. split; [exact H2|]. split.
           ++ intros Hl. destruct (H3 Hl) as (pre & pg' & c' & E & Hc).
              exists ((pg, c) :: pre), pg', c'. rewrite E. split; [reflexivity|exact Hc].
           ++ intros Hl. rewrite (H4 Hl). reflexivity.
    + exists 0%nat, false, r. cbn. repeat split; try reflexivity; try lia; try discriminate.
Qed.

(** all frames of a prefix that ends with a commit frame are "committed": [mxr] counts them all *)
Lemma mxr_prefix_commit pre pg c : c <> 0 -> fst (mxr (pre ++ [(pg, c)])) = length (pre ++ [(pg, c)]).
Proof.
  intros Hc. induction pre as [|[p0 c0] tl IH]; cbn [app mxr length].
  - apply N.eqb_neq in Hc. rewrite Hc. reflexivity.
  - destruct (mxr (tl ++ [(pg, c)])) as [k np] eqn:M. cbn [fst] in IH.
    rewrite app_length in IH. cbn in IH.
    destruct k; [lia|]. cbn [fst]. rewrite IH. rewrite app_length. cbn. lia.
Qed.

(** C02: whatever the byte budget, the page map of one sync is the
    latest-version-per-page of a run of WHOLE transactions: a prefix of the valid
    frames after the reader's position that is empty or ends with a commit frame,
    trimmed to that frame's database size.  In particular no frame of an open
    (uncommitted or rolled back) transaction and no partial transaction is ever
    included, and a limited read stops exactly after a commit frame. *)
Theorem chunk_cut_at_commit_lemma fs r maxb :
  let vp := ls_valid_prefix (r_bo r) (r_s1 r) (r_s2 r) (r_c1 r, r_c2 r)
                            (skipn (N.to_nat (r_frameN r)) fs) in
  let p := page_map fs r maxb in
  exists n,
    (n <= length vp)%nat /\
    let chunk := firstn (fst (mxr (firstn n vp))) vp in
    (pr_limited p = true -> fst (mxr (firstn n vp)) = n /\ (0 < n)%nat) /\
    (forall pg, pm_get pg (pr_map p) =
       if N.leb pg (snd (mxr (firstn n vp))) then
         option_map (off_of (foff r) (frame_size (r_ps r))) (lastr pg chunk)
       else None) /\
    (pr_map p <> [] -> pr_commit p = snd (mxr (firstn n vp))).
Proof.
  cbn zeta. unfold page_map.
  set (rest := skipn (N.to_nat (r_frameN r)) fs).
  destruct (pm_loop_prefix rest r [] [] 0 (WALHeaderSize + r_frameN r * frame_size (r_ps r)) maxb)
    as (n & lim & r' & Hn & Heq & Hlim & Hnl).
  rewrite Heq. clear Heq.
  set (vp := ls_valid_prefix (r_bo r) (r_s1 r) (r_s2 r) (r_c1 r, r_c2 r) rest) in *.
  exists n. split; [exact Hn|].
  set (pre := firstn n vp) in *.
  destruct (absorb_spec pre (foff r) (frame_size (r_ps r)) [] [] 0) as [A0 A1].
  assert (Hchunk : firstn (fst (mxr pre)) vp = firstn (fst (mxr pre)) pre).
  { unfold pre. rewrite firstn_firstn. f_equal.
    pose proof (mxr_le_length (firstn n vp)) as H. rewrite firstn_length in H. lia. }
  rewrite Hchunk.
  assert (Hget : forall pg,
     pm_get pg (pm_filter (fun pg0 _ => N.leb pg0 (snd (absorb (foff r) (frame_size (r_ps r)) pre [] [] 0)))
                          (fst (absorb (foff r) (frame_size (r_ps r)) pre [] [] 0))) =
     if N.leb pg (snd (mxr pre)) then
       option_map (off_of (foff r) (frame_size (r_ps r))) (lastr pg (firstn (fst (mxr pre)) pre))
     else None).
  { intros pg. rewrite pm_get_filter_key.
    destruct (fst (mxr pre)) eqn:K.
    - rewrite (A0 eq_refl). cbn [fst snd pm_get firstn lastr option_map].
      rewrite (mxr_zero pre K). destruct (N.leb pg 0); reflexivity.
    - destruct (A1 ltac:(lia)) as [Hc Hm]. rewrite Hc, Hm. cbn [pm_get].
      destruct (N.leb pg (snd (mxr pre))); [|reflexivity].
      destruct (lastr pg (firstn (S n0) pre)); reflexivity. }
  set (m' := pm_filter _ _) in *.
  assert (Hcommit : m' <> [] -> snd (absorb (foff r) (frame_size (r_ps r)) pre [] [] 0) = snd (mxr pre)).
  { intros Hne. destruct (fst (mxr pre)) eqn:K.
    - exfalso. apply Hne. unfold m'. rewrite (A0 eq_refl). reflexivity.
    - destruct (A1 ltac:(lia)) as [Hc _]. exact Hc. }
  assert (Hl : lim = true -> fst (mxr pre) = n /\ (0 < n)%nat).
  { intros E. destruct (Hlim E) as (pre0 & pg & c & Ep & Hc).
    rewrite Ep. rewrite (mxr_prefix_commit pre0 pg c Hc).
    assert (length pre = n) by (unfold pre; rewrite firstn_length; lia).
    rewrite <- Ep. rewrite H. split; [reflexivity|].
    rewrite <- H, Ep, app_length. cbn. lia. }
  destruct m' as [|kv m''] eqn:Em; cbn [pr_map pr_commit pr_limited].
  - split; [exact Hl|]. split; [exact Hget|]. intros C; exfalso; apply C; reflexivity.
  - split; [exact Hl|]. split; [exact Hget|]. intros _. apply Hcommit. discriminate.
Qed.

(* ------------------------------------------------------------------------- *)
(** * The verify decision *)

(** the first sync (no level-0 file yet) is always a snapshot read from the WAL header *)
Lemma verify_first_sync ps last st lo wal fd :
  verify ps 0 last st lo wal fd = VOk (mkInfo WALHeaderSize 0 0 0 true false).
Proof. reflexivity. Qed.

(** Whenever verify answers "continue incrementally" it has one of three pieces
    of evidence, and nothing else makes it do so:
    (A) the WAL is shorter than the cursor AND the in-memory flag says the last
        sync of THIS open session ended exactly at the end of the WAL;
    (B) header salts equal the last file's salts and the cursor is at the header,
        at the first frame, or the frame before the cursor is still the frame
        whose page is in the last file;
    (C) header salts differ, that frame is still intact, and the file shows no
        salts other than the header's and the last file's before the first
        frame of the last file's generation. *)
Theorem verify_incremental_evidence_lemma ps pos last st lo w fd info :
  verify ps pos last st lo (Some w) fd = VOk info -> i_snap info = false ->
  let off := l_off last + l_size last in
  let wsz := N.of_nat (length w) in
  let saltMatch := N.eqb (be32 w 16) (l_s1 last) && N.eqb (be32 w 20) (l_s2 last) in
  let fsz := ps + WALFrameHeaderSize in
  pos <> 0 /\
  ((wsz < off /\ st = true /\ i_offset info = WALHeaderSize /\ i_clear info = true)
   \/ (off <= wsz /\ saltMatch = true /\ i_offset info = off /\
       (off = WALHeaderSize \/ off - fsz = WALHeaderSize \/
        exists d, fd = Some d /\
          last_page_match last (be32 w (N.to_nat (off - fsz))) (be32 w (N.to_nat (off - fsz) + 8))
                          (be32 w (N.to_nat (off - fsz) + 12)) d = true))
   \/ (off <= wsz /\ saltMatch = false /\ lo <> 0 /\ i_offset info = WALHeaderSize /\
       i_s1 info = be32 w 16 /\ i_s2 info = be32 w 20 /\
       (exists d, fd = Some d /\
          last_page_match last (be32 w (N.to_nat (off - fsz))) (be32 w (N.to_nat (off - fsz) + 8))
                          (be32 w (N.to_nat (off - fsz) + 12)) d = true) /\
       detect_full_checkpoint w (be32 w 16) (be32 w 20) (l_s1 last) (l_s2 last) = Some false)).
Proof.
  unfold verify, verify_gen. cbn zeta.
  destruct (N.eqb pos 0) eqn:Ep; [intros [= <-]; discriminate|].
  apply N.eqb_neq in Ep. intros H Hs. split; [exact Ep|].
  destruct (N.ltb (N.of_nat (length w)) (l_off last + l_size last)) eqn:Et.
  - apply N.ltb_lt in Et. destruct st.
    + destruct (N.ltb (N.of_nat (length w)) WALHeaderSize); [discriminate|].
      injection H as <-. left. cbn. split; [exact Et|]. auto.
    + injection H as <-. discriminate.
  - apply N.ltb_ge in Et.
    destruct (N.ltb (N.of_nat (length w)) WALHeaderSize); [discriminate|].
    set (sm := N.eqb (be32 w 16) (l_s1 last) && N.eqb (be32 w 20) (l_s2 last)) in *.
    destruct (N.eqb (l_off last + l_size last) WALHeaderSize) eqn:E32.
    + apply N.eqb_eq in E32. destruct sm eqn:Esm; injection H as <-; [|discriminate].
      right. left. cbn. split; [exact Et|]. split; [reflexivity|]. split; [reflexivity|]. left. exact E32.
    + destruct (N.ltb (l_off last + l_size last) (ps + WALFrameHeaderSize)); [discriminate|].
      destruct (N.eqb (l_off last + l_size last - (ps + WALFrameHeaderSize)) WALHeaderSize) eqn:Ep32.
      * apply N.eqb_eq in Ep32. destruct sm eqn:Esm; injection H as <-; [|discriminate].
        right. left. cbn. split; [exact Et|]. split; [reflexivity|]. split; [reflexivity|]. right. left. exact Ep32.
      * destruct (N.ltb (l_off last + l_size last - (ps + WALFrameHeaderSize)) WALHeaderSize); [discriminate|].
        destruct fd as [d|]; [|discriminate].
        destruct (last_page_match last _ _ _ d) eqn:Elpm; cbn [negb] in H.
        2:{ injection H as <-. discriminate. }
        destruct sm eqn:Esm; cbn [negb] in H.
        -- injection H as <-. right. left. cbn. split; [exact Et|]. split; [reflexivity|]. split; [reflexivity|].
           right. right. exists d. split; [reflexivity|exact Elpm].
        -- cbn [andb] in H. destruct (N.eqb lo 0) eqn:Elo; [injection H as <-; discriminate|].
           apply N.eqb_neq in Elo.
           destruct (detect_full_checkpoint w _ _ _ _) as [[|]|] eqn:Ed; try discriminate.
           ++ injection H as <-. discriminate.
           ++ injection H as <-. right. right. cbn. split; [exact Et|]. split; [reflexivity|].
              split; [exact Elo|]. split; [reflexivity|]. split; [reflexivity|]. split; [reflexivity|].
              split; [exists d; split; [reflexivity|exact Elpm]|reflexivity].
Qed.

(** Without the in-memory flag a WAL shorter than the cursor always forces a snapshot *)
Theorem verify_truncated_without_flag_snapshots_lemma ps pos last w fd :
  pos <> 0 -> N.of_nat (length w) < l_off last + l_size last ->
  forall lo, exists info, verify ps pos last false lo (Some w) fd = VOk info /\ i_snap info = true.
Proof.
  intros Hp Hlt lo. unfold verify, verify_gen. apply N.eqb_neq in Hp. rewrite Hp.
  apply N.ltb_lt in Hlt. rewrite Hlt. eexists. split; reflexivity.
Qed.

(** A changed header salt with the frame before the cursor overwritten forces a snapshot *)
Theorem verify_overwritten_prev_frame_snapshots_lemma ps pos last st lo w d info :
  verify ps pos last st lo (Some w) (Some d) = VOk info ->
  let off := l_off last + l_size last in
  let fsz := ps + WALFrameHeaderSize in
  off <= N.of_nat (length w) -> WALHeaderSize < off - fsz ->
  last_page_match last (be32 w (N.to_nat (off - fsz))) (be32 w (N.to_nat (off - fsz) + 8))
                  (be32 w (N.to_nat (off - fsz) + 12)) d = false ->
  i_snap info = true.
Proof.
  cbn zeta. intros H Hle Hgt Hl.
  destruct (i_snap info) eqn:Es; [reflexivity|exfalso].
  destruct (verify_incremental_evidence_lemma _ _ _ _ _ _ _ _ H Es) as [_ [A|[B|C]]]; cbn zeta in *.
  - lia.
  - destruct B as (_ & _ & _ & [E|[E|(d' & [= <-] & E)]]); try lia. congruence.
  - destruct C as (_ & _ & _ & _ & _ & _ & (d' & [= <-] & E) & _). congruence.
Qed.

(** F2 repaired: in a session that has not synced yet (fresh in-memory state: new
    process, or a DB object re-opened after Close) a changed header salt NEVER lets
    verify continue incrementally - whatever the WAL holds. *)
Theorem verify_fresh_session_salt_change_snapshots_lemma ps pos last st w fd info :
  verify ps pos last st 0 (Some w) fd = VOk info ->
  (N.eqb (be32 w 16) (l_s1 last) && N.eqb (be32 w 20) (l_s2 last)) = false ->
  l_off last + l_size last <= N.of_nat (length w) ->
  i_snap info = true.
Proof.
  intros H Hsm Hle.
  destruct (i_snap info) eqn:Es; [reflexivity|exfalso].
  destruct (verify_incremental_evidence_lemma _ _ _ _ _ _ _ _ H Es) as [_ [A|[B|C]]]; cbn zeta in *.
  - lia.
  - destruct B as (_ & E & _). congruence.
  - destruct C as (_ & _ & E & _). apply E. reflexivity.
Qed.
