(** The control-flow skeletons the whole-history machine (Db/Machine.v) was written against.

    [Gen/Skeleton.v] is regenerated from db.go on every run (tools/gen/skeleton.go: the calls,
    assignments to the sync state, guards, deferred functions, error exits and returns of
    checkpointWithExecutor, execCheckpoint, Sync and syncLocked in source order, nothing else);
    the lists below are the same structure as it stood when the machine's steps were written
    and proved about, annotated with the step each part stands for.  [Properties/C01.v] states
    their equality: a call moved across another one, a dropped or moved `defer`, a new error
    exit between two steps, a changed mode test or a changed assignment to the sync state breaks
    that obligation before any history is run.

    Reading guide (checkpointWithExecutor):
      TryLock .. applySyncResult            LsCkStart; LsSync at [PHdr] ("copy before checkpoint")
      if PASSIVE { BeginTx; defer rollback; INSERT; verifyAndSync }
                                            LsLockWrite ([PCopied Passive] -> [PLocked]); LsSync at [PLocked] -> [PSealed]
      defer { on-error { clear both flags } }   the [clear] of [LsFail]: installed BEFORE execCheckpoint,
                                            i.e. it covers exactly the control states of [fail_clears]
                                            ([PReleased] and everything after it)   (/repo a1345df)
      execCheckpoint                        LsRelease; LsCkpt / LsCkptBusy; LsReacquire   (skel_execCheckpoint:
                                            release, defer acquire, PRAGMA, acquire)
      if TRUNCATE { syncedToWALEnd = false }    the [set_flag _ false] of LsCkpt / LsCkptBusy   (/repo 67a6f3f)
      if not PASSIVE and not TRUNCATE { readWALHeader; rb := header changed;
         if !rb { clear both flags; verifyAndSync; apply; restore reachedWALEnd; readWALHeader; rb := ... } }
                                            LsMid ([mid_restarted]); LsPostSync ([strict_ss], [merge_reached];
                                            /repo 6edd82b + 20b75a5); LsUnlock at [PPost] ([post_rb], /repo bb88a29)
      if barrierTx != nil { rollback }      LsUnlock at [PMid Passive]
      bumpLitestreamSeq                     LsBump (its error exit was [LsBumpFail], now [LsFail])
      readWALHeader; if equal { return }    LsCmpHdr: [DNotRestarted]
      if PASSIVE { verifyAndSync ... }      [DRecopy] (Passive); LsSync at [PRecopy]
      if not TRUNCATE and !rb and walFrameN <= pre { verifyAndSync ... }    [DRecopy] (FULL / RESTART)
      BeginTx; defer rollback; INSERT; db.sync (snapshot); rollback         [DBoundary]: LsLockWrite at [PBoundary];
                                            LsBoundarySnap
    Every "on-error { return false,err }" is an [LsFail] exit of the control state it follows. *)
From Coq Require Import String List.
Import ListNotations.
Open Scope string_scope.

Definition expected_checkpointWithExecutor : list string := [
  "call db.chkMu.TryLock";
  "if _ {";
  "return";
  "}";
  "defer {";
  "call db.chkMu.Unlock";
  "}";
  "call readWALHeader";
  "on-error {";
  "return error";
  "}";
  "call db.verifyAndSyncWithExecutor";
  "on-error {";
  "return error";
  "}";
  "call exec.applySyncResult";
  "if mode==Passive {";
  "call db.db.BeginTx";
  "on-error {";
  "return error";
  "}";
  "defer {";
  "if _ {";
  "call rollback";
  "}";
  "}";
  "exec INSERT INTO _litestream_lock (id) VALUES (1);";
  "on-error {";
  "return error";
  "}";
  "call db.verifyAndSyncWithExecutor";
  "on-error {";
  "return error";
  "}";
  "call exec.applySyncResult";
  "}";
  "defer {";
  "on-error {";
  "set exec.state.syncedToWALEnd = false";
  "set exec.state.reachedWALEnd = false";
  "}";
  "}";
  "call db.execCheckpoint";
  "on-error {";
  "return error";
  "}";
  "if mode==Truncate {";
  "set exec.state.syncedToWALEnd = false";
  "}";
  "if mode!=Passive&mode!=Truncate {";
  "call readWALHeader";
  "on-error {";
  "return error";
  "}";
  "call bytes.Equal";
  "if _ {";
  "set exec.state.reachedWALEnd = false";
  "set exec.state.syncedToWALEnd = false";
  "call db.verifyAndSyncWithExecutor";
  "on-error {";
  "return error";
  "}";
  "call exec.applySyncResult";
  "set exec.state.reachedWALEnd = expr";
  "call readWALHeader";
  "on-error {";
  "return error";
  "}";
  "call bytes.Equal";
  "}";
  "}";
  "if _ {";
  "call rollback";
  "on-error {";
  "return error";
  "}";
  "}";
  "call db.bumpLitestreamSeq";
  "on-error {";
  "return error";
  "}";
  "call readWALHeader";
  "if _ {";
  "return error";
  "} else {";
  "call bytes.Equal";
  "if _ {";
  "set exec.state.syncedSinceCheckpoint = false";
  "return";
  "}";
  "}";
  "set exec.state.truncatePassiveFailed = false";
  "if mode==Passive {";
  "call db.verifyAndSyncWithExecutor";
  "on-error {";
  "return error";
  "}";
  "call exec.applySyncResult";
  "set exec.state.syncedSinceCheckpoint = false";
  "return";
  "}";
  "if mode!=Truncate {";
  "call db.verifyAndSyncWithExecutor";
  "on-error {";
  "return error";
  "}";
  "call exec.applySyncResult";
  "set exec.state.syncedSinceCheckpoint = false";
  "return";
  "}";
  "call db.db.BeginTx";
  "on-error {";
  "return error";
  "}";
  "defer {";
  "call rollback";
  "}";
  "exec INSERT INTO _litestream_lock (id) VALUES (1);";
  "on-error {";
  "return error";
  "}";
  "call db.sync";
  "on-error {";
  "return error";
  "}";
  "call exec.applySyncResult";
  "call rollback";
  "on-error {";
  "return error";
  "}";
  "set exec.state.syncedSinceCheckpoint = false";
  "return"
].

Definition expected_execCheckpoint : list string := [
  "if _ {";
  "return";
  "}";
  "call db.releaseReadLock";
  "on-error {";
  "return error";
  "}";
  "defer {";
  "call db.acquireReadLock";
  "}";
  "call db.db.QueryRowContext";
  "on-error {";
  "return error";
  "}";
  "call db.acquireReadLock";
  "on-error {";
  "return error";
  "}";
  "return"
].

Definition expected_Sync : list string := [
  "loop {";
  "on-error {";
  "return error";
  "}";
  "call db.syncOnce";
  "if _ {";
  "return error";
  "} else {";
  "if !result.limited || !result.synced || result.syncedToWALEnd {";
  "return";
  "}";
  "}";
  "}"
].

Definition expected_syncLocked : list string := [
  "call db.newSyncExecutor";
  "if _ {";
  "return error";
  "} else {";
  "if _ {";
  "return";
  "}";
  "}";
  "defer {";
  "call db.applySyncExecutor";
  "}";
  "call db.ensureWALExists";
  "on-error {";
  "return error";
  "}";
  "call db.verifyAndSyncWithExecutor";
  "on-error {";
  "return error";
  "}";
  "call exec.applySyncResult";
  "if result.synced {";
  "set exec.state.syncedSinceCheckpoint = true";
  "}";
  "call db.exceedsTruncateThreshold";
  "if !result.limited || db.exceedsTruncateThreshold(result.origWALSize) || result.syncedToWALEnd {";
  "call db.checkpointIfNeeded";
  "on-error {";
  "return error";
  "}";
  "}";
  "return"
].

(** verifyWithExecutor, as [Db/Verify.v] ([verify_gen]) and [Machine.verify] were written against it.
    Reading guide: "if 0==exec.pos.TXID" = the first-sync exit ([pos = 0] / [l0 = []]); the block after
    "call os.Stat" = the WAL is shorter than the cursor: with [exec.state.syncedToWALEnd] the
    incremental answer from the new header that CLEARS the flag ([VIncrHdr true]), else the snapshot;
    "if WALHeaderSize==info.offset" and the next "if _" (prevWALOffset == WALHeaderSize) = the two
    cursor-at-the-start cases decided by the salt comparison alone; "call db.lastPageMatch" = the
    frame in front of the cursor; then the salt-mismatch block: [info.offset = WALHeaderSize] with the
    live salts, "if !exec.state.reachedWALEnd" = the fresh-session rule (c55c7c6: snapshot), and only
    after it "call db.detectFullCheckpoint" ([detect_full]); the last assignment is the plain
    incremental answer.  Guards that mention locals (saltMatch, lastPageMatch, detected, the file size)
    are "if _": their VALUES are compared on every observed sync step (entry db_sync_step). *)
Definition expected_verifyWithExecutor : list string := [
  "set info.snapshotting = true";
  "if 0==exec.pos.TXID {";
  "set info.offset = WALHeaderSize";
  "return";
  "}";
  "call os.Open";
  "on-error {";
  "return error";
  "}";
  "on-error {";
  "return";
  "}";
  "set info.offset = expr";
  "set info.salt1 = expr";
  "set info.salt2 = expr";
  "set info.prevCommit = expr";
  "call os.Stat";
  "if _ {";
  "return error";
  "} else {";
  "if _ {";
  "set exec.state.truncatePassiveFailed = false";
  "if exec.state.syncedToWALEnd {";
  "call readWALHeader";
  "on-error {";
  "return error";
  "}";
  "set info.offset = WALHeaderSize";
  "set info.salt1 = expr";
  "set info.salt2 = expr";
  "set info.snapshotting = false";
  "set info.clearSyncedToWALEnd = true";
  "return";
  "}";
  "return";
  "}";
  "}";
  "call readWALHeader";
  "on-error {";
  "return error";
  "}";
  "if _ {";
  "set exec.state.truncatePassiveFailed = false";
  "}";
  "if WALHeaderSize==info.offset {";
  "if _ {";
  "set info.snapshotting = false";
  "return";
  "}";
  "return";
  "}";
  "if _ {";
  "if _ {";
  "set info.snapshotting = false";
  "return";
  "}";
  "return";
  "} else {";
  "if _ {";
  "return error";
  "}";
  "}";
  "call db.lastPageMatch";
  "if _ {";
  "return error";
  "} else {";
  "if _ {";
  "return";
  "}";
  "}";
  "if _ {";
  "set info.offset = WALHeaderSize";
  "set info.salt1 = expr";
  "set info.salt2 = expr";
  "if !exec.state.reachedWALEnd {";
  "return";
  "}";
  "call db.detectFullCheckpoint";
  "if _ {";
  "return error";
  "} else {";
  "if _ {";
  "} else {";
  "set info.snapshotting = false";
  "}";
  "}";
  "return";
  "}";
  "set info.snapshotting = false";
  "return"
].


(** the points at which the in-memory sync state is reset to that of a fresh session: the end of a
    session (acbcc3c) and the run-time reset of the local state (a3c8cc9).  [Machine.set_closed] /
    entry machine_reset give the state; the theorems about a fresh session
    ([verify_after_reset_incremental_only_same_generation], ...) apply after each of them. *)
Definition expected_sync_state_reset_sites : list string := ["Close"; "ResetLocalState"].

(** snapshotReader, the streaming goroutine of a snapshot, as [Db/SnapRead.v] and the snapshot steps of
    the machine were written against it: open the WAL, compare its salts with the ones the bound was
    measured in (a637c7e: first "if _" failure exit), build the page map up to the bound, encode the
    header, stream the pages ([db.writeLTXFromDB]) and ONLY THEN read the WAL header again and fail when
    its salts changed (482a715: "call readWALHeader" followed by two failure exits) - the order
    [SnapRead.header_recheck_sound] needs.  ".CloseWithError" is the failure exit of the stream. *)
Definition expected_snapshotReader : list string := [
  "on-error {";
  "return error";
  "}";
  "go {";
  "call os.Open";
  "on-error {";
  "call .CloseWithError";
  "return";
  "}";
  "call NewWALReader";
  "on-error {";
  "call .CloseWithError";
  "return";
  "}";
  "if _ {";
  "call .CloseWithError";
  "return";
  "}";
  "if _ {";
  "call .pageMap";
  "on-error {";
  "call .CloseWithError";
  "return";
  "}";
  "}";
  "if _ {";
  "call .CloseWithError";
  "return";
  "}";
  "call snapshotHeaderWALRange";
  "call ltx.NewEncoder";
  "on-error {";
  "call .CloseWithError";
  "return";
  "}";
  "call .EncodeHeader";
  "on-error {";
  "call .CloseWithError";
  "return";
  "}";
  "call db.writeLTXFromDB";
  "on-error {";
  "call .CloseWithError";
  "return";
  "}";
  "if _ {";
  "call readWALHeader";
  "if _ {";
  "call .CloseWithError";
  "return";
  "} else {";
  "if _ {";
  "call .CloseWithError";
  "return";
  "}";
  "}";
  "}";
  "on-error {";
  "call .CloseWithError";
  "return";
  "}";
  "}";
  "return"
].

