(** Bridge between the byte-level WAL reader (Wal/Reader.v, what db.go's sync
    really calls) and the abstract chunk semantics of Db/Image.v: the page data
    that sync reads at the offsets of the page map are exactly the abstract
    chunk's pages ([Image.chunk_page]) for the run of whole transactions that
    C02's [chunk_cut_at_commit] identifies.  Page contents are the byte lists. *)
From Coq Require Import List NArith ZArith Bool Lia.
From LS Require Import Base.Bytes Base.PMap Wal.Reader Wal.Sqlite Wal.Proofs Db.Image Db.Proofs.
Import ListNotations.
Open Scope N_scope.

Definition frame_of_bytes (f : list N) : frame (list N) :=
  mkF (list N) (be32 f 0) (be32 f 4) (skipn 24 f).

(** the byte frames of litestream's valid prefix (parallel to [ls_valid_prefix]) *)
Fixpoint ls_valid_frames (bo : bool) (s1 s2 : N) (ck : N * N) (fs : list (list N)) : list (list N) :=
  match fs with
  | [] => []
  | f :: tl =>
      match ls_decode_frame bo s1 s2 ck f with
      | None => []
      | Some (_, _, ck') => f :: ls_valid_frames bo s1 s2 ck' tl
      end
  end.

Definition key_of (f : list N) : N * N := (be32 f 0, be32 f 4).

Lemma valid_frames_keys bo s1 s2 fs : forall ck,
  map key_of (ls_valid_frames bo s1 s2 ck fs) = ls_valid_prefix bo s1 s2 ck fs.
Proof.
  induction fs as [|f tl IH]; intros ck; cbn [ls_valid_frames ls_valid_prefix map]; [reflexivity|].
  destruct (ls_decode_frame bo s1 s2 ck f) as [[[pg c] ck']|] eqn:D; [|reflexivity].
  cbn [map]. rewrite IH. f_equal.
  unfold ls_decode_frame in D.
  destruct (negb _) in D; [discriminate|]. destruct (negb _) in D; [discriminate|].
  injection D as <- <- _. reflexivity.
Qed.

(** the valid frames are a prefix of the file's frames *)
Lemma valid_frames_prefix bo s1 s2 fs : forall ck,
  exists rest, fs = ls_valid_frames bo s1 s2 ck fs ++ rest.
Proof.
  induction fs as [|f tl IH]; intros ck; cbn [ls_valid_frames].
  - exists []. reflexivity.
  - destruct (ls_decode_frame bo s1 s2 ck f) as [[[pg c] ck']|].
    + destruct (IH ck') as [rest E]. exists rest. cbn [app]. rewrite <- E. reflexivity.
    + exists (f :: tl). reflexivity.
Qed.

(** [last_data] over abstract frames = data of the frame [lastr] points at *)
Lemma last_data_lastr pg (l : list (list N)) :
  last_data (list N) pg (map frame_of_bytes l) =
  option_map (fun i => skipn 24 (nth i l [])) (lastr pg (map key_of l)).
Proof.
  induction l as [|f tl IH]; [reflexivity|].
  change (map key_of (f :: tl)) with ((be32 f 0, be32 f 4) :: map key_of tl).
  change (map frame_of_bytes (f :: tl)) with (frame_of_bytes f :: map frame_of_bytes tl).
  cbn [last_data lastr]. rewrite IH.
  destruct (lastr pg (map key_of tl)) as [j|]; cbn [option_map]; [reflexivity|].
  cbn [frame_of_bytes f_pg f_data]. destruct (N.eqb (be32 f 0) pg); reflexivity.
Qed.

Lemma last_commit_mxr (l : list (list N)) c0 :
  (0 < fst (mxr (map key_of l)))%nat ->
  last_commit (list N) c0 (map frame_of_bytes (firstn (fst (mxr (map key_of l))) l)) = snd (mxr (map key_of l)).
Proof.
  revert c0. induction l as [|f tl IH]; intros c0; [cbn; lia|].
  change (map key_of (f :: tl)) with ((be32 f 0, be32 f 4) :: map key_of tl).
  cbn [mxr].
  destruct (mxr (map key_of tl)) as [k np] eqn:M. cbn [fst snd] in IH.
  destruct k as [|k'].
  - destruct (N.eqb (be32 f 4) 0) eqn:E; cbn [fst snd]; [lia|]. intros _.
    cbn [firstn map last_commit frame_of_bytes f_commit]. rewrite E. reflexivity.
  - cbn [fst snd]. intros _. rewrite firstn_cons. cbn [map last_commit frame_of_bytes f_commit].
    apply IH. lia.
Qed.

Lemma lastr_lt pg l : forall i, lastr pg l = Some i -> (i < length l)%nat.
Proof.
  induction l as [|[p c] tl IH]; intros i; cbn [lastr length]; [discriminate|].
  destruct (lastr pg tl) as [j|].
  - intros [= <-]. specialize (IH j eq_refl). lia.
  - destruct (N.eqb p pg); [intros [= <-]; lia|discriminate].
Qed.

Lemma nth_firstn_lt' {A} (l : list A) d : forall k i, (i < k)%nat -> nth i (firstn k l) d = nth i l d.
Proof.
  induction l as [|x tl IH]; intros k i Hi; [rewrite firstn_nil; reflexivity|].
  destruct k as [|k]; [lia|]. destruct i as [|i]; cbn [firstn nth]; [reflexivity|]. apply IH. lia.
Qed.

(** data read by sync at a page-map offset: the page image of the file frame there *)
Definition data_at (fs : list (list N)) (ps off : N) : list N :=
  skipn 24 (nth (N.to_nat ((off - WALHeaderSize) / frame_size ps)) fs []).

(** The pages sync encodes from the WAL are the abstract chunk's pages. *)
Theorem sync_pages_are_chunk_pages_lemma fs r maxb :
  let vf := ls_valid_frames (r_bo r) (r_s1 r) (r_s2 r) (r_c1 r, r_c2 r)
                            (skipn (N.to_nat (r_frameN r)) fs) in
  let p := page_map fs r maxb in
  exists n,
    (n <= length vf)%nat /\
    let chunk := firstn (fst (mxr (map key_of (firstn n vf)))) vf in
    (pr_limited p = true -> fst (mxr (map key_of (firstn n vf))) = n /\ (0 < n)%nat) /\
    (pr_map p <> [] ->
       pr_commit p = last_commit (list N) 0 (map frame_of_bytes chunk)) /\
    (forall pg,
       option_map (data_at fs (r_ps r)) (pm_get pg (pr_map p)) =
       if N.leb pg (snd (mxr (map key_of (firstn n vf)))) then last_data (list N) pg (map frame_of_bytes chunk) else None).
Proof.
  cbn zeta.
  pose proof (chunk_cut_at_commit_lemma fs r maxb) as H. cbn zeta in H.
  rewrite <- (valid_frames_keys (r_bo r) (r_s1 r) (r_s2 r) (skipn (N.to_nat (r_frameN r)) fs) (r_c1 r, r_c2 r)) in H.
  remember (ls_valid_frames (r_bo r) (r_s1 r) (r_s2 r) (r_c1 r, r_c2 r) (skipn (N.to_nat (r_frameN r)) fs)) as vf eqn:Evf.
  remember (page_map fs r maxb) as p eqn:Ep.
  destruct H as (n & Hn & Hlim & Hget & Hcom).
  rewrite map_length in Hn.
  exists n. cbn zeta. rewrite <- !(firstn_map key_of). split; [exact Hn|]. split; [exact Hlim|].
  remember (fst (mxr (firstn n (map key_of vf)))) as k eqn:Ek.
  assert (Hk : (k <= n)%nat).
  { subst k. pose proof (mxr_le_length (firstn n (map key_of vf))) as H.
    rewrite firstn_length in H. lia. }
  assert (Hchunk : firstn k vf = firstn k (firstn n vf)).
  { rewrite firstn_firstn. f_equal. lia. }
  assert (Hkeys : firstn k (map key_of vf) = map key_of (firstn k (firstn n vf))).
  { rewrite <- Hchunk. apply firstn_map. }
  split.
  - intros Hne. rewrite (Hcom Hne). rewrite Hchunk.
    destruct k as [|k0] eqn:K.
    + exfalso. apply Hne.
      destruct (pr_map p) as [|[pg0 o0] tl] eqn:E; [reflexivity|].
      specialize (Hget pg0). cbn [pm_get] in Hget. rewrite N.eqb_refl in Hget.
      cbn [firstn lastr option_map] in Hget.
      destruct (N.leb pg0 _) in Hget; discriminate.
    + rewrite Ek. rewrite (firstn_map key_of). symmetry.
      rewrite <- (firstn_map key_of). rewrite <- Ek.
      pose proof (last_commit_mxr (firstn n vf) 0) as LC.
      rewrite <- (firstn_map key_of) in LC. rewrite <- Ek in LC. apply LC. lia.
  - intros pg. rewrite Hget. clear Hget Hcom.
    destruct (N.leb pg (snd (mxr (firstn n (map key_of vf))))); [|reflexivity].
    rewrite Hchunk, last_data_lastr, <- Hkeys.
    destruct (lastr pg (firstn k (map key_of vf))) as [i|] eqn:L; cbn [option_map]; [|reflexivity].
    f_equal. unfold data_at.
    assert (Hi : (i < k)%nat).
    { apply lastr_lt in L. rewrite firstn_length in L. lia. }
    unfold off_of, foff.
    replace (WALHeaderSize + r_frameN r * frame_size (r_ps r) + N.of_nat i * frame_size (r_ps r) - WALHeaderSize)
      with ((r_frameN r + N.of_nat i) * frame_size (r_ps r)) by (rewrite N.mul_add_distr_r; lia).
    rewrite N.div_mul by (unfold frame_size, WALFrameHeaderSize; lia).
    rewrite N2Nat.inj_add, Nat2N.id.
    destruct (valid_frames_prefix (r_bo r) (r_s1 r) (r_s2 r) (skipn (N.to_nat (r_frameN r)) fs) (r_c1 r, r_c2 r)) as [tail Etail].
    rewrite <- Evf in Etail.
    assert (Hnth : nth (N.to_nat (r_frameN r) + i) fs [] = nth i (skipn (N.to_nat (r_frameN r)) fs) []).
    { rewrite <- (firstn_skipn (N.to_nat (r_frameN r)) fs) at 1.
      destruct (Nat.le_gt_cases (length fs) (N.to_nat (r_frameN r))) as [Hle|Hgt].
      - rewrite skipn_all2 by exact Hle. rewrite app_nil_r.
        rewrite nth_overflow; [destruct i; reflexivity|].
        rewrite firstn_length. lia.
      - rewrite app_nth2; rewrite firstn_length; [|lia].
        f_equal. lia. }
    rewrite Hnth, Etail.
    rewrite app_nth1 by lia.
    rewrite !nth_firstn_lt' by lia. reflexivity.
Qed.
