(** Witnesses for the C04 findings at the level of the byte-exact verify model.

    F2 (known finding): the application appended a committed transaction A to the
    WAL generation litestream had been reading (beyond litestream's cursor),
    checkpointed, and restarted the WAL with a generation SHORTER than the old
    cursor.  The file then holds: new header, new frame 0, stale old frame 1 (the
    last frame litestream copied) and stale old frame 2 = A.  A fresh process
    sees the frame before its cursor intact, only known salts, and continues
    incrementally from the new header: A is never replicated. *)
From Coq Require Import List NArith Bool.
From LS Require Import Base.Bytes Base.PMap Wal.Reader Db.Verify Db.Sync.
Import ListNotations.
Open Scope N_scope.

Definition f2_wal : list N := concat [
  [55];
  [127];
  [6];
  [130];
  [0];
  [45];
  [226];
  [24];
  [0; 0];
  [2];
  [0; 0; 0; 0];
  [1];
  [0; 0; 0];
  [101];
  [0; 0];
  [3];
  [231];
  [58];
  [203];
  [3];
  [19];
  [218];
  [167];
  [218];
  [184];
  [0; 0; 0];
  [2];
  [0; 0; 0];
  [2];
  [0; 0; 0];
  [101];
  [0; 0];
  [3];
  [231];
  [111];
  [207];
  [184];
  [161];
  [43];
  [253];
  [62];
  [239];
  repeat 51 512;
  [0; 0; 0];
  [2];
  [0; 0; 0];
  [2];
  [0; 0; 0];
  [100];
  [0; 0; 0];
  [200];
  [24];
  [4];
  [139];
  [149];
  [5];
  [77];
  [139];
  [32];
  repeat 34 512;
  [0; 0; 0];
  [2];
  [0; 0; 0];
  [2];
  [0; 0; 0];
  [100];
  [0; 0; 0];
  [200];
  [255];
  [225];
  [80];
  [212];
  [115];
  [25];
  [119];
  [143];
  repeat 170 512 ].

(** last level-0 file: copied frame 1 (offset 568, size 536) of the generation with salts (100,200) *)
Definition f2_last : l0hdr := mkL0 568 536 100 200 2 [(2, 7)].

Lemma f2_verify_continues_incrementally :
  verify_gen false 512 2 f2_last false 0 (Some f2_wal) (Some 7) = VOk (mkInfo 32 101 999 2 false false).
Proof. vm_compute. reflexivity. Qed.

(** ... and with the fresh-session rule (the repair) the same input is a snapshot *)
Lemma f2_verify_now_snapshots :
  verify 512 2 f2_last false 0 (Some f2_wal) (Some 7) = VOk (mkInfo 32 101 999 2 true false).
Proof. vm_compute. reflexivity. Qed.

Lemma f2_unsynced_committed_frame_of_old_generation :
  exists r, new_reader_with_offset f2_wal (l_off f2_last + l_size f2_last) (l_s1 f2_last) (l_s2 f2_last) = OffOk r /\
            pr_map (page_map (wal_frames 512 f2_wal) r 0) = [(2, 1104)] /\
            pr_commit (page_map (wal_frames 512 f2_wal) r 0) = 2.
Proof. eexists. vm_compute. repeat split; reflexivity. Qed.

(** and the sync that follows copies only the new generation's frame *)
Lemma f2_sync_copies_new_generation_only :
  exists o, sync 512 0 2 (mkInfo 32 101 999 2 false false) f2_wal = SFile o /\
            o_off o = 32 /\ o_size o = 536 /\ o_pgnos o = [2] /\ o_s1 o = 101.
Proof. eexists. vm_compute. repeat split; reflexivity. Qed.

Lemma c04_restart_shorter_refuted_lemma :
  exists ps pos last w fd info r,
    verify_gen false ps pos last false 0 (Some w) fd = VOk info /\ i_snap info = false /\
    i_offset info = WALHeaderSize /\
    new_reader_with_offset w (l_off last + l_size last) (l_s1 last) (l_s2 last) = OffOk r /\
    pr_map (page_map (wal_frames ps w) r 0) <> [].
Proof.
  exists 512, 2, f2_last, f2_wal, (Some 7), (mkInfo 32 101 999 2 false false).
  destruct f2_unsynced_committed_frame_of_old_generation as [r [H1 [H2 _]]].
  exists r. split; [exact f2_verify_continues_incrementally|].
  split; [reflexivity|]. split; [reflexivity|]. split; [exact H1|]. rewrite H2. discriminate.
Qed.
