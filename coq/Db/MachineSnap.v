(** Snapshots of Db/Machine.v (C02 / C06 snapshot clause): the content read by a
    snapshot is the restore of the level-0 chain at the position it advertises,
    under the three side conditions of [Machine.snap_ok]. *)
From Coq Require Import List NArith Bool Lia Arith.
From LS Require Import Db.Image Db.Machine Db.MachineLemmas Db.MachineInv.
Import ListNotations.
Open Scope nat_scope.

Section Snap.
Variable data : Type.
Variable zero : data.
Variable lock : N.
Variable midcheck : bool.
Variable postcopy : bool.
Variable recheck : bool.
Variable freshrule : bool.
Variable reachrule : bool.

Local Notation state := (state data).
Local Notation inv := (inv data zero lock).
Local Notation step := (step data lock midcheck postcopy recheck freshrule reachrule).
Local Notation restoreL := (restore data zero lock).

Record sinv (s : state) : Prop := mkSinv {
  n_off : lastoff data s = 0 \/ lastoff data s = cfo data s;
  n_pos : forall c, cur data s = AtLive c -> 0 < c;
  n_pend : forall p we sc sg, snap data s = Some (p, we, sc, sg) ->
           p <= length (l0 data s) /\ sg <= gen data s /\ 0 < we /\
           (sg = gen data s ->
            0 < sc /\ sc <= length (txs data s) /\ we = flen data (firstn sc (txs data s)) /\
            img_eq data (restoreL (firstn p (l0 data s)))
                   (view data (base data s, bsize data s) (concat (firstn sc (txs data s)))));
  n_done : forall p im, In (p, im) (snaps data s) ->
           p <= length (l0 data s) /\ img_eq data (restoreL (firstn p (l0 data s))) im }.

Definition score (s : state) :=
  (l0 data s, txs data s, gen data s, base data s, bsize data s, cur data s,
   lastoff data s, cfo data s, snap data s, snaps data s).

Lemma sinv_score s s' : score s = score s' -> sinv s -> sinv s'.
Proof.
  unfold score. intros E. inversion E as [[E1 E2 E3 E4 E5 E6 E7 E8 E9 E10]]. clear E.
  intros [A B C D]. constructor; rewrite <- ?E1, <- ?E2, <- ?E3, <- ?E4, <- ?E5, <- ?E6, <- ?E7, <- ?E8, <- ?E9, <- ?E10; assumption.
Qed.

(** ** list facts *)

Lemma flen_firstn_mono (ts : list (tx data)) a b : a <= b -> flen data (firstn a ts) <= flen data (firstn b ts).
Proof.
  intros H. replace b with (a + (b - a)) by lia.
  unfold flen. rewrite <- concat_firstn_skipn. rewrite app_length. lia.
Qed.

Lemma concat_split (ts : list (tx data)) c : concat ts = concat (firstn c ts) ++ concat (skipn c ts).
Proof. rewrite <- concat_app, firstn_skipn. reflexivity. Qed.

(** the database file, backfilled up to [j] transactions, read under the first
    [sc >= j] transactions of the WAL, is the base read under them *)
Lemma dbfile_under_prefix (b : N -> data) (ts : list (tx data)) j sc sz pg :
  j <= sc ->
  fst (view data (backfill data b (concat ts) (flen data (firstn j ts)), sz) (concat (firstn sc ts))) pg =
  fst (view data (b, sz) (concat (firstn sc ts))) pg.
Proof.
  intros Hj.
  assert (E : forall q, backfill data b (concat ts) (flen data (firstn j ts)) q =
                        backfill data b (concat (firstn sc ts)) (flen data (firstn j ts)) q).
  { intros q. unfold backfill. rewrite (concat_split ts sc).
    rewrite firstn_app_le; [reflexivity|]. apply flen_firstn_mono. exact Hj. }
  unfold view. cbn [fst]. rewrite E.
  pose proof (backfill_preserves_view data b sz (concat (firstn sc ts)) (flen data (firstn j ts)) pg) as P.
  unfold view in P. cbn [fst] in P. exact P.
Qed.

(** ** the steps *)

Lemma sinv_reset s trunc : sinv s -> sinv (reset_st data s trunc).
Proof.
  intros [A B C D]. constructor; cbn; try assumption.
  - intros c Ec. exfalso. destruct (cur data s) as [c'| |]; cbn in Ec.
    + destruct (c' =? length (txs data s)); discriminate.
    + destruct (length (txs data s) =? 0); discriminate.
    + discriminate.
  - intros p we sc sg Es. destruct (C p we sc sg Es) as [C1 [C2 [C0 _]]].
    split; [exact C1|]. split; [lia|]. split; [exact C0|]. intros E. exfalso. lia.
Qed.

Lemma sinv_append s t : inv s -> sinv s -> sinv (append_st data s t).
Proof.
  intros H [A B C D]. constructor; cbn; try assumption.
  intros p we sc sg Es. destruct (C p we sc sg Es) as [C1 [C2 [C0 C3]]].
  split; [exact C1|]. split; [exact C2|]. split; [exact C0|]. intros E. destruct (C3 E) as [X1 [X2 [X3 X4]]].
  rewrite firstn_app_le by exact X2. rewrite app_length. split; [exact X1|]. split; [lia|]. split; assumption.
Qed.

Lemma sinv_do_commit s t r s' : inv s -> sinv s -> do_commit data s t r = Some s' -> sinv s'.
Proof.
  intros H Hn. unfold do_commit. destruct (wlock data s); [discriminate|]. destruct r.
  - destruct (reset_enabled data s && (0 <? length (txs data s))); [|discriminate].
    intros E. inversion E; subst.
    pose proof (sinv_reset s false Hn) as [A B C D].
    constructor; cbn in *; try assumption.
    intros p we sc sg Es. destruct (C p we sc sg Es) as [C1 [C2 [C0 C3]]].
    split; [exact C1|]. split; [exact C2|]. split; [exact C0|]. intros E2. exfalso. lia.
  - intros E. inversion E; subst. apply sinv_append; assumption.
Qed.

Lemma firstn_snoc_le {A} (l : list A) x p : p <= length l -> firstn p (l ++ [x]) = firstn p l.
Proof. intros H. apply firstn_app_le. exact H. Qed.

Lemma sinv_write s x n c :
  inv s -> sinv s -> (forall c', c = AtLive c' -> 0 < c') ->
  sinv (write_file data s x n c).
Proof.
  intros H [A B C D] Hc. constructor; unfold lastoff, snap in *; cbn.
  - right. reflexivity.
  - exact Hc.
  - intros p we sc sg Es. destruct (C p we sc sg Es) as [C1 [C2 [C0 C3]]].
    rewrite app_length. split; [lia|]. split; [exact C2|]. split; [exact C0|]. intros E.
    rewrite firstn_snoc_le by exact C1. apply C3. exact E.
  - intros p im Hin. destruct (D p im Hin) as [D1 D2]. rewrite app_length. split; [lia|].
    rewrite firstn_snoc_le by exact D1. exact D2.
Qed.

Lemma sinv_do_sync s k s' : inv s -> sinv s -> do_sync data lock freshrule reachrule s k = Some s' -> sinv s'.
Proof.
  intros H Hn. unfold do_sync. destruct (negb (opened data s)); [discriminate|].
  destruct (phys data s) as [|p0 pr] eqn:Ep; [discriminate|].
  assert (Hne : txs data s <> []).
  { intros E. pose proof (i_hdr _ _ _ _ H E) as E2. rewrite Ep in E2. discriminate. }
  assert (G : forall c k0 cl nc, (k0 <> 0 -> forall c', nc = AtLive c' -> 0 < c') ->
              incr_st data lock s c k0 cl nc = Some s' -> sinv s').
  { intros c k0 cl nc Hnc. unfold incr_st.
    destruct (negb (c + k0 <=? length (txs data s))); [discriminate|].
    destruct (toend data s && negb (c + k0 =? length (txs data s))); [discriminate|].
    destruct (k0 =? 0) eqn:Ek.
    - intros E. inversion E; subst. destruct cl; [|exact Hn].
      eapply sinv_score; [|exact Hn]. reflexivity.
    - apply Nat.eqb_neq in Ek. intros E. inversion E; subst. apply sinv_write; auto. }
  destruct (verify data freshrule reachrule s).
  - intros E. inversion E; subst. apply sinv_write; auto.
    intros c' Ec. inversion Ec; subst. destruct (txs data s); [contradiction|cbn; lia].
  - destruct (idx data (txs data s) (cfo data s)) as [c|]; [|discriminate]. apply G.
    intros Hk c' Ec. destruct (cur data s); inversion Ec; subst. lia.
  - apply G. intros Hk c' Ec. destruct (cur data s); inversion Ec; subst. lia.
Qed.

(** the snapshot read itself *)
Lemma snap_read_correct s p we sc sg c :
  inv s -> sinv s -> snap data s = Some (p, we, sc, sg) ->
  sg = gen data s -> backfilled data s <= sc ->
  snap_idx data (txs data s) we = Some c ->
  img_eq data (restoreL (firstn p (l0 data s)))
         (view data (dbfile data s, fsize data s) (concat (firstn c (txs data s)))).
Proof.
  intros H [A B C D] Es Eg Hb Ei.
  destruct (C p we sc sg Es) as [C1 [C2 [C0 C3]]]. destruct (C3 Eg) as [X1 [X2 [X3 X4]]].
  assert (Hnonempty : Forall (fun t => t <> []) (txs data s))
    by (eapply txs_ok_nonempty; apply (i_txs _ _ _ _ H)).
  assert (Ec : c = sc).
  { unfold snap_idx in Ei. rewrite X3 in Ei. rewrite idx_flen in Ei by assumption. congruence. }
  subst c. eapply img_eq_trans; [exact X4|].
  assert (Hw : firstn sc (txs data s) <> []).
  { destruct (txs data s) as [|t r]; [cbn in X2; lia|]. destruct sc; [lia|]. discriminate. }
  split.
  - cbn [view snd]. eapply txs_commit_indep; [exact Hw|].
    apply txs_ok_firstn. apply (i_txs _ _ _ _ H).
  - intros pg _ _. unfold dbfile. symmetry.
    etransitivity; [apply dbfile_under_prefix; exact Hb|reflexivity].
Qed.

Theorem sinv_step s l s' :
  inv s -> sinv s -> snap_ok data s l = true -> step s l = Some s' -> sinv s'.
Proof.
  intros H Hn Hok E.
  assert (Same : score s = score s' -> sinv s') by (intros A; eapply sinv_score; eauto).
  destruct l; cbn [Machine.step] in E.
  - eapply sinv_do_commit; eauto.
  - destruct (ckpt_allowed data s j); [|discriminate]. inversion E; subst. apply Same. reflexivity.
  - destruct (reset_enabled data s); [|discriminate]. inversion E; subst. apply sinv_reset; assumption.
  - destruct (opened data s); [discriminate|]. destruct (pc data s); try discriminate.
    inversion E; subst. apply Same. reflexivity.
  - destruct (pc data s); try discriminate.
    + eapply sinv_do_sync; eauto.
    + destruct (do_sync data lock freshrule reachrule s k) eqn:Ed; [|discriminate]. inversion E; subst.
      eapply sinv_score; [|eapply sinv_do_sync; eauto]. reflexivity.
    + destruct (do_sync data lock freshrule reachrule s k) eqn:Ed; [|discriminate]. inversion E; subst.
      eapply sinv_score; [|eapply sinv_do_sync; eauto]. reflexivity.
    + destruct (needs_post postcopy m rb); [|discriminate].
      destruct (do_sync data lock freshrule reachrule s k) eqn:Ed; [|discriminate]. inversion E; subst.
      eapply sinv_score; [|eapply sinv_do_sync; eauto]. reflexivity.
    + destruct (do_sync data lock freshrule reachrule s k) eqn:Ed; [|discriminate]. inversion E; subst.
      eapply sinv_score; [|eapply sinv_do_sync; eauto]. reflexivity.
  - destruct (pc data s); try discriminate. destruct (l0 data s); [discriminate|].
    destruct ((cgen data s =? gen data s) && (cfo data s =? flen data (txs data s))); [|discriminate].
    inversion E; subst. apply Same. reflexivity.
  - destruct (pc data s); try discriminate. destruct (phys data s); [discriminate|].
    destruct (snap data s); [discriminate|].
    destruct (opened data s); [|discriminate]. inversion E; subst. apply Same. reflexivity.
  - destruct (pc data s) as [| |m0 ?| | | | | | | | | | | | ]; try discriminate.
    + destruct m0; try discriminate. inversion E; subst. apply Same. reflexivity.
    + inversion E; subst. apply Same. reflexivity.
  - destruct (pc data s) as [| |m0 ?| | | | | | | | | | | | ]; try discriminate.
    + destruct (mode_eqb m0 Passive); [discriminate|]. inversion E; subst. apply Same. reflexivity.
    + inversion E; subst. apply Same. reflexivity.
  - destruct (pc data s) as [| | | | |m0 ? ?| | | | | | | | | ]; try discriminate.
    destruct (ls_mark data s); [discriminate|].
    destruct m0;
      match type of E with (if ?c then _ else _) = _ => destruct c; [|discriminate] end;
      inversion E; subst; try (apply Same; reflexivity).
    eapply sinv_score; [|apply (sinv_reset (set_backfill data s j sz) true)].
    + reflexivity.
    + eapply sinv_score; [|exact Hn]. reflexivity.
  - destruct (pc data s); try discriminate. destruct (ls_mark data s); [discriminate|].
    inversion E; subst. apply Same. reflexivity.
  - destruct (pc data s); try discriminate. destruct (ls_mark data s); [|discriminate].
    inversion E; subst. apply Same. reflexivity.
  - destruct (pc data s); try discriminate.
    + destruct (needs_post postcopy m rb); [discriminate|]. inversion E; subst. apply Same. reflexivity.
    + inversion E; subst. apply Same. reflexivity.
  - destruct (pc data s); try discriminate.
    destruct (do_commit data s t restart) eqn:Ed; [|discriminate]. inversion E; subst.
    eapply sinv_score; [|eapply sinv_do_commit; eauto]. reflexivity.
  - destruct (pc data s) as [| | | | | | | | | |m0 hg0 pre0 wn0 rb0| | | |]; try discriminate.
    destruct (ck_decide m0 hg0 (gen data s) pre0 wn0 rb0); inversion E; subst; apply Same; reflexivity.
  - destruct (pc data s); try discriminate. destruct (phys data s) eqn:Ep; [discriminate|].
    destruct (opened data s); [|discriminate]. inversion E; subst.
    eapply sinv_score;
      [|apply (sinv_write s (ltx_snapshot data lock (dbfile data s) (fsize data s) (concat (txs data s)))
                          (flen data (txs data s)) (AtLive (length (txs data s))) H Hn)]; [reflexivity|].
    intros c' Ec. inversion Ec; subst.
    destruct (txs data s) eqn:Et; [|cbn; lia].
    pose proof (i_hdr _ _ _ _ H Et) as E2. rewrite Ep in E2. discriminate.
  - (* LsClose *)
    destruct (pc data s); try discriminate. destruct (opened data s); [|discriminate].
    inversion E; subst. destruct Hn as [A B C D].
    constructor; unfold lastoff, snap; cbn; auto. intros p we sc sg Es. discriminate.
  - (* LsKill *)
    destruct (opened data s); [|discriminate]. inversion E; subst. destruct Hn as [A B C D].
    constructor; unfold lastoff, snap; cbn; auto. intros p we sc sg Es. discriminate.
  - (* LsSnapPos *)
    destruct (pc data s); try discriminate. destruct (l0 data s) as [|x xs] eqn:El; [discriminate|].
    destruct (snap data s) eqn:Esn; [discriminate|]. destruct (opened data s); [|discriminate].
    inversion E; subst. clear E. cbn in Hok.
    destruct (cur data s) as [c| |] eqn:Ec; try discriminate.
    pose proof (i_cur _ _ _ _ H) as Hc. unfold cur_inv in Hc. rewrite Ec in Hc.
    destruct Hc as [Hle [Hg [Hcfo [Hl Himg]]]].
    destruct Hn as [A B C D]. pose proof (B c Ec) as Hpos.
    constructor; unfold lastoff, snap in *; cbn; try assumption.
    intros p we sc sg Es. inversion Es; subst. clear Es. rewrite El.
    assert (Hwe : snap_wal_end data s guard = flen data (firstn sc (txs data s))).
    { unfold snap_wal_end.
      assert (Hphys : phys data s <> []).
      { intros Ep. pose proof (i_phys _ _ _ _ H) as Hp. rewrite Ep in Hp. cbn in Hp.
        assert (Ht : txs data s = []).
        { apply flen_zero_nil; [eapply txs_ok_nonempty; apply (i_txs _ _ _ _ H)|lia]. }
        rewrite Ht in Hle. cbn in Hle. lia. }
      destruct (phys data s); [contradiction|].
      rewrite Hg, Nat.eqb_refl. cbn [negb]. rewrite andb_false_r.
      unfold lastoff. destruct A as [A|A]; rewrite A; [change (0 <? 0) with false; exact Hcfo|].
      destruct (0 <? cfo data s); exact Hcfo. }
    assert (Hwepos : 0 < flen data (firstn sc (txs data s))).
    { destruct (txs data s) as [|t0 r0] eqn:Et; [cbn in Hle; lia|]. destruct sc as [|sc']; [lia|].
      cbn [firstn]. unfold flen. cbn [concat]. rewrite app_length.
      assert (t0 <> []).
      { pose proof (txs_ok_nonempty data lock _ _ (i_txs _ _ _ _ H)) as Hne. rewrite Et in Hne.
        inversion Hne; assumption. }
      destruct t0; [contradiction|cbn; lia]. }
    split; [reflexivity|]. split; [lia|]. split; [rewrite Hwe; exact Hwepos|]. intros _.
    split; [exact Hpos|]. split; [exact Hle|]. split; [exact Hwe|].
    change (S (length xs)) with (length (x :: xs)). rewrite firstn_all. rewrite <- El. exact Himg.
  - (* LsSnapRead *)
    destruct (snap data s) as [[[[p we] sc] sg]|] eqn:Es; [|discriminate].
    destruct (phys data s); [discriminate|]. destruct (opened data s); [|discriminate].
    cbn in Hok. unfold snap in Hok, Es. rewrite Es in Hok.
    apply andb_prop in Hok. destruct Hok as [Hg Hb]. apply Nat.leb_le in Hb.
    destruct (chk && (0 <? we) && negb (sg =? gen data s)) eqn:Echk.
    { (* the guards of 482a715 / a637c7e fire: no snapshot is produced *)
      inversion E; subst. clear E. destruct Hn as [A B C D].
      constructor; unfold lastoff, snap; cbn; try assumption.
      intros p' we' sc' sg' X. discriminate. }
    destruct (snap_idx data (txs data s) we) as [c|] eqn:Ei; [|discriminate].
    inversion E; subst. clear E.
    assert (Hgen : sg = gen data s).
    { destruct (sg =? gen data s) eqn:Eg; [apply Nat.eqb_eq; exact Eg|exfalso].
      rewrite orb_false_r in Hg. subst chk. cbn [andb negb] in Echk. rewrite andb_true_r in Echk.
      apply Nat.ltb_ge in Echk. assert (we = 0) by lia. subst we.
      (* a bound of zero frames: the position was not in the live generation *)
      destruct Hn as [A B C D]. destruct (C p 0 sc sg Es) as [_ [_ [C0 _]]]. lia. }
    pose proof (snap_read_correct s p we sc sg c H Hn Es Hgen Hb Ei) as Hc.
    destruct Hn as [A B C D].
    constructor; unfold lastoff, snap; cbn; try assumption.
    + intros p' we' sc' sg' X. discriminate.
    + intros p' im [X|X]; [|apply D; exact X]. inversion X as [[Xp Xi]]. rewrite <- Xp.
      destruct (C p we sc sg Es) as [C1 _]. split; [exact C1|exact Hc].
  - (* LsBumpFail *)
    destruct (pc data s); try discriminate. inversion E; subst. apply Same. reflexivity.
  - (* LsPostSync *)
    destruct (pc data s); try discriminate.
    destruct (needs_post postcopy m rb); [|discriminate].
    destruct (do_sync data lock freshrule reachrule (strict_ss data s) k) eqn:Ed; [|discriminate].
    inversion E; subst.
    eapply sinv_score; [|eapply sinv_do_sync; [| |exact Ed]].
    + reflexivity.
    + unfold strict_ss. apply inv_set_ss. exact H.
    + eapply sinv_score; [|exact Hn]. reflexivity.
  - (* LsCkptBusy *)
    destruct (pc data s) as [| | | | |m0 ? ?| | | | | | | | | ]; try discriminate.
    destruct m0; try discriminate. destruct (ls_mark data s); [discriminate|].
    match type of E with (if ?c then _ else _) = _ => destruct c; [|discriminate] end.
    inversion E; subst. apply Same. reflexivity.
  - (* LsFail *)
    destruct (in_call (pc data s) && opened data s); [|discriminate]. inversion E; subst.
    apply Same. unfold fail_st.
    destruct (ls_mark data s); destruct (clear && fail_clears (pc data s)); reflexivity.
Qed.

Lemma init_sinv s : init_ok data zero lock s -> sinv s.
Proof.
  intros [_ [_ [_ [_ [_ [_ [_ [_ [H9 [_ [_ [H12 [H13 [_ H15]]]]]]]]]]]]]].
  constructor; unfold lastoff, snap; rewrite ?H13; cbn.
  - left. reflexivity.
  - intros c Ec. congruence.
  - intros p we sc sg E. discriminate.
  - rewrite H15. intros p im [].
Qed.

End Snap.
