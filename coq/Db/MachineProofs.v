(** Whole-history theorems for the machine of Db/Machine.v: the derived
    environment guarantees G1-G4, verify_sound_pinned, and acked_sync_restores
    by induction over arbitrary step lists; a concrete two-generation history;
    and the FULL/RESTART window witness. *)
From Coq Require Import List NArith Bool Lia Arith.
From LS Require Import Db.Image Db.Machine Db.MachineLemmas Db.MachineInv Db.MachineSafe.
Import ListNotations.
Open Scope nat_scope.

Section Main.
Variable data : Type.
Variable zero : data.
Variable lock : N.
Variable midcheck : bool.
Variable postcopy : bool.
Variable recheck : bool.
Variable freshrule : bool.
Variable reachrule : bool.

Local Notation state := (state data).
Local Notation inv := (inv data zero lock).
Local Notation step := (step data lock midcheck postcopy recheck freshrule reachrule).
Local Notation run := (run data lock midcheck postcopy recheck freshrule reachrule).
Local Notation steps_ok := (steps_ok data lock midcheck postcopy recheck freshrule reachrule).
Local Notation restoreL := (restore data zero lock).

(** * G1-G4 (DESIGN.md Appendix A.2), derived from the step rules *)

(** G1a: while litestream holds a mark > 0 nobody can restart or truncate the WAL *)
Lemma g1_mark_blocks_reset s m : ls_mark data s = Some (S m) -> reset_enabled data s = false.
Proof. intros E. unfold reset_enabled. rewrite E. cbn. rewrite andb_false_r. reflexivity. Qed.

(** G1b: ... and backfill stays at or below the mark *)
Lemma g1_backfill_below_mark s m j sz s' :
  ls_mark data s = Some (S m) -> step s (AppCkpt data j sz) = Some s' -> backfilled data s' <= S m.
Proof.
  intros E. cbn. unfold ckpt_allowed. rewrite E.
  destruct (backfilled data s <=? j); cbn; [|discriminate].
  destruct (j <=? length (txs data s)); cbn; [|discriminate].
  destruct (j <=? S m) eqn:Ej; [|discriminate]. intros H. inversion H; subst. cbn.
  apply Nat.leb_le. exact Ej.
Qed.

(** G1c: while it holds mark 0 nothing is backfilled at all *)
Lemma g1_mark0_blocks_backfill s j sz s' :
  ls_mark data s = Some 0 -> step s (AppCkpt data j sz) = Some s' -> backfilled data s' = backfilled data s.
Proof.
  intros E. cbn. unfold ckpt_allowed. rewrite E.
  destruct (backfilled data s <=? j); cbn; [|discriminate].
  destruct (j <=? length (txs data s)); cbn; [|discriminate].
  destruct (j =? backfilled data s) eqn:Ej; [|discriminate]. intros H. inversion H; subst. cbn.
  apply Nat.eqb_eq. exact Ej.
Qed.

(** G2: while litestream holds the write lock nobody commits or truncates *)
Lemma g2_write_lock_freezes s :
  wlock data s = true ->
  (forall t r, step s (AppCommit data t r) = None) /\ step s (AppTruncate data) = None.
Proof.
  intros E. split.
  - intros t r. cbn. unfold do_commit. rewrite E. reflexivity.
  - cbn. unfold reset_enabled. rewrite E. reflexivity.
Qed.

(** G3: committed transactions of a generation are immutable while it lives;
    G4: a new generation carries a generation number never used before *)
Lemma g3_g4_env_step s l s' :
  (match l with AppCommit _ _ _ | AppCkpt _ _ _ | AppTruncate _ => True | _ => False end) ->
  step s l = Some s' ->
  (gen data s' = gen data s /\ exists ext, txs data s' = txs data s ++ ext) \/
  (gen data s' = S (gen data s)).
Proof.
  intros Hl E. destruct l; try contradiction; cbn in E.
  - unfold do_commit in E. destruct (wlock data s); [discriminate|]. destruct restart.
    + destruct (reset_enabled data s && (0 <? length (txs data s))); [|discriminate].
      inversion E; subst. right. reflexivity.
    + inversion E; subst. left. cbn. eauto.
  - destruct (ckpt_allowed data s j); [|discriminate]. inversion E; subst. left. cbn.
    split; [reflexivity|]. exists []. rewrite app_nil_r. reflexivity.
  - destruct (reset_enabled data s); [|discriminate]. inversion E; subst. right. reflexivity.
Qed.

(** * verify is sound while nothing was lost *)

(** the precondition of Image.sync_incremental_correct for the chunk of [k]
    transactions after transaction [c] *)
Definition continuity (s : state) (c k : nat) : Prop :=
  let synced := concat (firstn c (txs data s)) in
  let chunk := concat (firstn k (skipn c (txs data s))) in
  let before := view data (base data s, bsize data s) synced in
  let after := view data (base data s, bsize data s) (synced ++ chunk) in
  img_eq data (restoreL (l0 data s)) before /\
  cprev data s = snd before /\
  (forall pg, (snd before < pg)%N -> (pg <= snd after)%N -> pg <> lock ->
              last_data data pg chunk = None -> dbfile data s pg = fst after pg) /\
  fst after lock = zero.

Lemma continuity_of_truth s c k :
  inv s -> l0 data s <> [] ->
  img_eq data (restoreL (l0 data s))
         (view data (base data s, bsize data s) (concat (firstn c (txs data s)))) ->
  continuity s c k.
Proof.
  intros H Hl Himg. unfold continuity. cbn zeta.
  split; [exact Himg|]. split.
  { rewrite (i_prev _ _ _ _ H Hl). destruct Himg as [Hs _]. exact Hs. }
  split.
  - intros pg Hp1 Hp2 Hp3 Hp4. exfalso.
    assert (Hchunk : txs_ok data lock (snd (view data (base data s, bsize data s) (concat (firstn c (txs data s)))))
                            (firstn k (skipn c (txs data s)))).
    { cbn [view snd]. apply txs_ok_chunk. apply (i_txs _ _ _ _ H). }
    eapply (grow_chunk data lock _ _ Hchunk pg); eauto.
    cbn [view snd] in *. rewrite last_commit_app in Hp2. exact Hp2.
  - rewrite concat_firstn_skipn. eapply view_lock_zero; [apply (i_lock _ _ _ _ H)|].
    apply txs_ok_firstn. apply (i_txs _ _ _ _ H).
Qed.

(** If no generation was reset under unreplicated transactions (which [safe]
    derives from litestream's read mark and write-lock barrier), then every
    incremental answer of verify comes with the continuity that
    sync_incremental_correct needs, for every chunk length. *)
Theorem verify_sound_pinned s k :
  inv s -> cur data s <> Lost ->
  match verify data freshrule reachrule s with
  | VSnap => True
  | VIncrAt => exists c, cur data s = AtLive c /\ idx data (txs data s) (cfo data s) = Some c /\
                         continuity s c k
  | VIncrHdr _ => cur data s = AtBase /\ continuity s 0 k
  end.
Proof.
  intros H Hnl. pose proof (i_cur _ _ _ _ H) as Hc. unfold cur_inv in Hc.
  destruct (verify data freshrule reachrule s) as [| |cl] eqn:Ev; [exact I| |].
  - destruct (verify_incrat _ _ _ _ Ev) as [Hl Hg].
    destruct (cur data s) as [c| |] eqn:Ec; [| |contradiction].
    + destruct Hc as [Hle [_ [Hcfo [_ Himg]]]]. exists c. split; [reflexivity|]. split.
      * rewrite Hcfo. apply idx_flen; [|assumption].
        eapply txs_ok_nonempty. apply (i_txs _ _ _ _ H).
      * apply continuity_of_truth; assumption.
    + destruct Hc as [Hlt _]. lia.
  - destruct (verify_incrhdr _ _ _ _ _ Ev) as [Hl Hg].
    destruct (cur data s) as [c| |] eqn:Ec; [| |contradiction].
    + exfalso. destruct Hc as [Hle [Hgg [Hcfo _]]]. destruct Hg as [Hg|Hg]; [|contradiction].
      pose proof (flen_firstn_le data (txs data s) c). pose proof (i_phys _ _ _ _ H). lia.
    + destruct Hc as [_ [_ Himg]]. split; [reflexivity|].
      apply continuity_of_truth; [assumption|assumption|].
      cbn [firstn concat]. eapply img_eq_trans; [exact Himg|apply view_nil_eq].
Qed.

(** * Induction over step lists *)

Lemma run_inv ls : forall s s', inv s -> run s ls = Some s' -> steps_ok s ls -> inv s'.
Proof.
  induction ls as [|l r IH]; intros s s' H E Hok; cbn in *.
  - inversion E; subst. exact H.
  - destruct Hok as [Hl Hr]. destruct (step s l) as [s1|] eqn:Es; [|discriminate].
    eapply IH; [|exact E|exact Hr]. eapply inv_step; eauto.
Qed.

Definition acks_true (s : state) : Prop :=
  forall n im b, In (n, im, b) (acks data s) -> b = true.

Lemma do_sync_acks s k s' : do_sync data lock freshrule reachrule s k = Some s' -> acks data s' = acks data s.
Proof.
  unfold do_sync. destruct (negb (opened data s)); [discriminate|].
  destruct (phys data s); [discriminate|].
  assert (G : forall c k cl nc, incr_st data lock s c k cl nc = Some s' -> acks data s' = acks data s).
  { intros c k0 cl nc. unfold incr_st.
    destruct (negb (c + k0 <=? length (txs data s))); [discriminate|].
    destruct (toend data s && negb (c + k0 =? length (txs data s))); [discriminate|].
    destruct (k0 =? 0); intros E; inversion E; subst; [destruct cl|]; reflexivity. }
  destruct (verify data freshrule reachrule s).
  - intros E. inversion E; subst. reflexivity.
  - destruct (idx data (txs data s) (cfo data s)); [apply G|discriminate].
  - apply G.
Qed.

Lemma do_commit_acks s t r s' : do_commit data s t r = Some s' -> acks data s' = acks data s.
Proof.
  unfold do_commit. destruct (wlock data s); [discriminate|]. destruct r.
  - destruct (reset_enabled data s && (0 <? length (txs data s))); [|discriminate].
    intros E. inversion E; subst. reflexivity.
  - intros E. inversion E; subst. reflexivity.
Qed.

Lemma init_acks_true s : init_ok data zero lock s -> acks_true s.
Proof.
  intros [_ [_ [_ [_ [_ [_ [_ [_ [_ [_ [H _]]]]]]]]]]] n im b. rewrite H. intros [].
Qed.

(** ** DInv at every reachable state, for every history and every checkpoint mode *)
Theorem dinv_reachable s0 ls s :
  init_ok data zero lock s0 -> run s0 ls = Some s -> steps_ok s0 ls ->
  match cur data s with
  | AtLive c =>
      cgen data s = gen data s /\ cfo data s = flen data (firstn c (txs data s)) /\
      img_eq data (restoreL (l0 data s))
             (view data (base data s, bsize data s) (concat (firstn c (txs data s))))
  | AtBase => img_eq data (restoreL (l0 data s)) (base data s, bsize data s)
  | Lost => True
  end.
Proof.
  intros Hi E Hok. pose proof (run_inv ls s0 s (init_inv _ _ _ _ Hi) E Hok) as H.
  pose proof (i_cur _ _ _ _ H) as Hc. unfold cur_inv in Hc.
  destruct (cur data s); [|tauto|exact I]. tauto.
Qed.

(** ** any mode: an acknowledgement taken while nothing was lost restores exactly *)
Theorem acked_sync_restores_unless_lost s0 ls s :
  init_ok data zero lock s0 -> run s0 ls = Some s -> steps_ok s0 ls ->
  forall n im, In (n, im, true) (acks data s) ->
  img_eq data (restoreL (firstn n (l0 data s))) im.
Proof.
  intros Hi E Hok n im Hin.
  pose proof (run_inv ls s0 s (init_inv _ _ _ _ Hi) E Hok) as H.
  apply (i_acks _ _ _ _ H). exact Hin.
Qed.

(** every acknowledgement records the committed image of its instant: the
    acknowledgement step itself *)
Lemma ack_records_committed s s' :
  step s (LsAck data) = Some s' ->
  exists b, acks data s' = (length (l0 data s), committed data s, b) :: acks data s /\
            l0 data s' = l0 data s /\ cgen data s = gen data s /\ cfo data s = flen data (txs data s).
Proof.
  cbn. destruct (pc data s); try discriminate. destruct (l0 data s) eqn:El; [discriminate|].
  destruct ((cgen data s =? gen data s) && (cfo data s =? flen data (txs data s))) eqn:Eg; [|discriminate].
  apply andb_prop in Eg. destruct Eg as [E1 E2]. apply Nat.eqb_eq in E1, E2.
  intros E. inversion E; subst. cbn. rewrite El. eauto.
Qed.

(** * A decidable form of [tx_ok] for examples *)

Fixpoint rng (n : nat) (lo : N) : list N :=
  match n with O => [] | S n' => lo :: rng n' (lo + 1)%N end.

Lemma In_rng n : forall lo pg, (lo <= pg)%N -> (pg < lo + N.of_nat n)%N -> In pg (rng n lo).
Proof.
  induction n as [|n IH]; intros lo pg H1 H2.
  - cbn in H2. lia.
  - cbn [rng]. destruct (N.eq_dec lo pg) as [E|E]; [left; exact E|right].
    apply IH; lia.
Qed.

Definition tx_okb (sz : N) (t : tx data) : bool :=
  match rev t with
  | [] => false
  | f :: _ => negb (N.eqb (f_commit data f) 0)
  end &&
  forallb (fun f => negb (N.eqb (f_pg data f) lock)) t &&
  forallb (fun pg => N.eqb pg lock ||
                     match last_data data pg t with Some _ => true | None => false end)
          (rng (N.to_nat (last_commit data sz t - sz)) (sz + 1)%N).

Lemma tx_okb_sound sz t : tx_okb sz t = true -> tx_ok data lock sz t.
Proof.
  unfold tx_okb. intros H. apply andb_prop in H. destruct H as [H H3].
  apply andb_prop in H. destruct H as [H1 H2].
  split; [|split].
  - destruct (rev t) as [|f r] eqn:Er; [discriminate|].
    exists (rev r), f. split.
    + rewrite <- (rev_involutive t). rewrite Er. reflexivity.
    + apply negb_true_iff in H1. apply N.eqb_neq. exact H1.
  - apply Forall_forall. intros f Hf. rewrite forallb_forall in H2.
    specialize (H2 f Hf). apply negb_true_iff in H2. apply N.eqb_neq. exact H2.
  - intros pg Hp1 Hp2 Hp3. rewrite forallb_forall in H3.
    assert (Hin : In pg (rng (N.to_nat (last_commit data sz t - sz)) (sz + 1)%N)).
    { apply In_rng; [lia|]. rewrite N2Nat.id. lia. }
    specialize (H3 pg Hin). apply orb_prop in H3. destruct H3 as [A|A].
    + apply N.eqb_eq in A. contradiction.
    + destruct (last_data data pg t); [discriminate|discriminate].
Qed.

End Main.

(** * The repaired control flow ([postcopy = true], and [midcheck = true] or
      [recheck = true]; /repo HEAD has all three): every checkpoint mode *)
Section Fixed.
Variable data : Type.
Variable zero : data.
Variable lock : N.
Variable midcheck : bool.
Variable recheck : bool.
Hypothesis Hmr : midcheck = true \/ recheck = true.

Local Notation state := (state data).
Local Notation inv := (inv data zero lock).
Local Notation safe := (safe data recheck).
Local Notation step := (step data lock midcheck true recheck true true).
Local Notation run := (run data lock midcheck true recheck true true).
Local Notation steps_ok := (steps_ok data lock midcheck true recheck true true).
Local Notation steps_window := (steps_window data lock midcheck true recheck true true).
Local Notation restoreL := (restore data zero lock).
Local Notation acks_true := (acks_true data).

Lemma step_acks_true s l s' : safe s -> acks_true s -> step s l = Some s' -> acks_true s'.
Proof.
  intros Hs Ha E.
  assert (Same : acks data s' = acks data s -> acks_true s').
  { intros Eq n im b. rewrite Eq. apply Ha. }
  destruct l; cbn [Machine.step] in E.
  - apply Same. eapply do_commit_acks; eauto.
  - destruct (ckpt_allowed data s j); [|discriminate]. inversion E; subst. apply Same. reflexivity.
  - destruct (reset_enabled data s); [|discriminate]. inversion E; subst. apply Same. reflexivity.
  - destruct (opened data s); [discriminate|]. destruct (pc data s); try discriminate.
    inversion E; subst. apply Same. reflexivity.
  - destruct (pc data s); try discriminate.
    + apply Same. eapply do_sync_acks; eauto.
    + destruct (do_sync data lock true true s k) eqn:Ed; [|discriminate]. inversion E; subst.
      apply Same. cbn. eapply do_sync_acks; eauto.
    + destruct (do_sync data lock true true s k) eqn:Ed; [|discriminate]. inversion E; subst.
      apply Same. cbn. eapply do_sync_acks; eauto.
    + destruct (needs_post true m rb); [|discriminate].
      destruct (do_sync data lock true true s k) eqn:Ed; [|discriminate]. inversion E; subst.
      apply Same. cbn. eapply do_sync_acks; eauto.
    + destruct (do_sync data lock true true s k) eqn:Ed; [|discriminate]. inversion E; subst.
      apply Same. cbn. eapply do_sync_acks; eauto.
  - destruct (pc data s) eqn:Epc; try discriminate. destruct (l0 data s) eqn:El; [discriminate|].
    destruct ((cgen data s =? gen data s) && (cfo data s =? flen data (txs data s))) eqn:Eg; [|discriminate].
    apply andb_prop in Eg. destruct Eg as [Eg1 _].
    inversion E; subst. intros n im b [A|A]; [|eapply Ha; eauto].
    inversion A; subst. destruct (cur data s) eqn:Ec; try reflexivity.
    exfalso. destruct (s_L _ _ _ Hs Ec) as [B|[B|[B|B]]].
    + rewrite El in B. discriminate.
    + rewrite Epc in B. discriminate.
    + unfold freshlostb in B. rewrite Eg1 in B. cbn in B. rewrite andb_false_r in B. discriminate.
    + rewrite Epc in B. discriminate.
  - destruct (pc data s); try discriminate. destruct (phys data s); [discriminate|].
    destruct (snap data s); [discriminate|].
    destruct (opened data s); [|discriminate]. inversion E; subst. apply Same. reflexivity.
  - destruct (pc data s) as [| |m0 ?| | | | | | | | | | | | ]; try discriminate.
    + destruct m0; try discriminate. inversion E; subst. apply Same. reflexivity.
    + inversion E; subst. apply Same. reflexivity.
  - destruct (pc data s) as [| |m0 ?| | | | | | | | | | | | ]; try discriminate.
    + destruct (mode_eqb m0 Passive); [discriminate|]. inversion E; subst. apply Same. reflexivity.
    + inversion E; subst. apply Same. reflexivity.
  - destruct (pc data s) as [| | | | |m0 ? ?| | | | | | | | | ]; try discriminate.
    destruct (ls_mark data s); [discriminate|].
    destruct m0;
      match type of E with (if ?c then _ else _) = _ => destruct c; [|discriminate] end;
      inversion E; subst; apply Same; reflexivity.
  - destruct (pc data s); try discriminate. destruct (ls_mark data s); [discriminate|].
    inversion E; subst. apply Same. reflexivity.
  - destruct (pc data s); try discriminate. destruct (ls_mark data s); [|discriminate].
    inversion E; subst. apply Same. reflexivity.
  - destruct (pc data s); try discriminate.
    + destruct (needs_post true m rb); [discriminate|]. inversion E; subst. apply Same. reflexivity.
    + inversion E; subst. apply Same. reflexivity.
  - destruct (pc data s); try discriminate.
    destruct (do_commit data s t restart) eqn:Ed; [|discriminate]. inversion E; subst.
    apply Same. cbn. eapply do_commit_acks; eauto.
  - destruct (pc data s) as [| | | | | | | | | |m0 hg0 pre0 wn0 rb0| | | |]; try discriminate.
    destruct (ck_decide m0 hg0 (gen data s) pre0 wn0 rb0); inversion E; subst; apply Same; reflexivity.
  - destruct (pc data s); try discriminate. destruct (phys data s); [discriminate|].
    destruct (opened data s); [|discriminate].
    inversion E; subst. apply Same. reflexivity.
  - destruct (pc data s); try discriminate. destruct (opened data s); [|discriminate].
    inversion E; subst. apply Same. reflexivity.
  - destruct (opened data s); [|discriminate]. inversion E; subst. apply Same. reflexivity.
  - destruct (pc data s); try discriminate. destruct (l0 data s); [discriminate|].
    destruct (snap data s); [discriminate|]. destruct (opened data s); [|discriminate].
    inversion E; subst. apply Same. reflexivity.
  - destruct (snap data s) as [[[[p we] sc] sg]|]; [|discriminate]. destruct (phys data s); [discriminate|].
    destruct (opened data s); [|discriminate].
    match type of E with (if ?c then _ else _) = _ => destruct c end.
    { inversion E; subst. apply Same. reflexivity. }
    destruct (snap_idx data (txs data s) we); [|discriminate].
    inversion E; subst. apply Same. reflexivity.
  - destruct (pc data s); try discriminate. inversion E; subst. apply Same. reflexivity.
  - destruct (pc data s); try discriminate.
    destruct (needs_post true m rb); [|discriminate].
    destruct (do_sync data lock true true (strict_ss data s) k) eqn:Ed; [|discriminate]. inversion E; subst.
    apply Same. cbn. erewrite do_sync_acks; [|exact Ed]. reflexivity.
  - destruct (pc data s) as [| | | | |m0 ? ?| | | | | | | | | ]; try discriminate.
    destruct m0; try discriminate. destruct (ls_mark data s); [discriminate|].
    match type of E with (if ?c then _ else _) = _ => destruct c; [|discriminate] end.
    inversion E; subst. apply Same. reflexivity.
  - destruct (in_call (pc data s) && opened data s); [|discriminate]. inversion E; subst.
    apply Same. unfold fail_st.
    destruct (ls_mark data s); destruct (clear && fail_clears (pc data s)); reflexivity.
Qed.

Lemma run_safe ls : forall s s',
  inv s -> safe s -> acks_true s ->
  run s ls = Some s' -> steps_ok s ls -> steps_window s ls ->
  inv s' /\ safe s' /\ acks_true s'.
Proof.
  induction ls as [|l r IH]; intros s s' H Hs Ha E Hok Hpt; cbn in *.
  - inversion E; subst. auto.
  - destruct Hok as [Hl Hr]. destruct Hpt as [Hp1 Hp2].
    destruct (step s l) as [s1|] eqn:Es; [|discriminate].
    eapply IH; [| | |exact E|exact Hr|exact Hp2].
    + eapply inv_step; eauto.
    + eapply safe_step; eauto.
    + eapply step_acks_true; eauto.
Qed.


(** ** nothing is ever lost outside control states that end in a boundary snapshot *)
Theorem pinned_never_lost s0 ls s :
  init_ok data zero lock s0 -> run s0 ls = Some s -> steps_ok s0 ls -> steps_window s0 ls ->
  cur data s = Lost ->
  l0 data s = [] \/ pendingb (pc data s) = true \/ freshlostb data s = true \/
  lost_okb recheck (pc data s) (gen data s) = true.
Proof.
  intros Hi E Hok Hpt.
  destruct (run_safe ls s0 s (init_inv _ _ _ _ Hi) (init_safe _ _ _ _ _ Hi) (init_acks_true _ _ _ _ Hi) E Hok Hpt)
    as [_ [Hs _]].
  apply (s_L _ _ _ Hs).
Qed.

(** ** C01, whole histories, all four checkpoint modes *)
Theorem acked_sync_restores_lemma s0 ls s :
  init_ok data zero lock s0 -> run s0 ls = Some s -> steps_ok s0 ls -> steps_window s0 ls ->
  forall n im b, In (n, im, b) (acks data s) ->
  img_eq data (restoreL (firstn n (l0 data s))) im.
Proof.
  intros Hi E Hok Hpt n im b Hin.
  destruct (run_safe ls s0 s (init_inv _ _ _ _ Hi) (init_safe _ _ _ _ _ Hi) (init_acks_true _ _ _ _ Hi) E Hok Hpt)
    as [H [_ Ha]].
  rewrite (Ha n im b Hin) in Hin. apply (i_acks _ _ _ _ H). exact Hin.
Qed.

End Fixed.

(** * /repo HEAD: the only side conditions left are about the death of the process
      ([kill_ok]) and the error exit [LsBumpFail] *)

Definition nokill_label (data : Type) (l : label data) : bool :=
  match l with LsKill _ | LsBumpFail _ | LsFail _ _ => false | _ => true end.

Lemma steps_window_nokill (data : Type) (lock : N) (midcheck : bool) ls : forall (s : state data),
  forallb (nokill_label data) ls = true -> steps_window data lock midcheck true true true true s ls.
Proof.
  induction ls as [|l r IH]; intros s Hl; cbn [Machine.steps_window]; [exact I|].
  cbn in Hl. apply andb_prop in Hl. destruct Hl as [Hl1 Hl2].
  split.
  - destruct l; try reflexivity; try discriminate. destruct restart; reflexivity.
  - destruct (step data lock midcheck true true true true s l); [apply IH; exact Hl2|exact I].
Qed.

(** ** C01 / C04 for /repo HEAD, any number of sessions: all four checkpoint
       modes, Close / Open / kill, every interleaving; [steps_window] = no kill
       where [kill_ok] fails (and no [LsBumpFail]) *)
Theorem acked_sync_restores_head (data : Type) (zero : data) (lock : N) s0 ls s :
  init_ok data zero lock s0 -> run data lock true true true true true s0 ls = Some s ->
  steps_ok data lock true true true true true s0 ls ->
  steps_window data lock true true true true true s0 ls ->
  forall n im b, In (n, im, b) (acks data s) ->
  img_eq data (restore data zero lock (firstn n (l0 data s))) im.
Proof.
  intros Hi E Hok Hw. eapply (acked_sync_restores_lemma data zero lock true true (or_introl eq_refl)); eauto.
Qed.

(** ** without kill (and without the error exit): no side condition at all,
       whatever the number of Close / Open *)
Theorem acked_sync_restores_nokill (data : Type) (zero : data) (lock : N) s0 ls s :
  init_ok data zero lock s0 -> run data lock true true true true true s0 ls = Some s ->
  steps_ok data lock true true true true true s0 ls ->
  forallb (nokill_label data) ls = true ->
  forall n im b, In (n, im, b) (acks data s) ->
  img_eq data (restore data zero lock (firstn n (l0 data s))) im.
Proof.
  intros Hi E Hok Hl. eapply acked_sync_restores_head; eauto. apply steps_window_nokill. exact Hl.
Qed.

(** with the re-read of bb88a29 the first one (commit 80a5b27) is no longer needed for C01 *)
Theorem acked_sync_restores_first_read_redundant (data : Type) (zero : data) (lock : N) s0 ls s :
  init_ok data zero lock s0 -> run data lock false true true true true s0 ls = Some s ->
  steps_ok data lock false true true true true s0 ls ->
  forallb (nokill_label data) ls = true ->
  forall n im b, In (n, im, b) (acks data s) ->
  img_eq data (restore data zero lock (firstn n (l0 data s))) im.
Proof.
  intros Hi E Hok Hl. eapply (acked_sync_restores_lemma data zero lock false true (or_intror eq_refl)); eauto.
  apply steps_window_nokill. exact Hl.
Qed.

(** * Non-vacuity: two generations, a PASSIVE checkpoint, an application commit
      between "copy before" and the barrier *)

Definition ex_base : N -> N := fun pg => if N.eqb pg 1000 then 0%N else (pg * 10)%N.

Definition ex_init : state N :=
  mkSt N ex_base 2%N 0 [] 0 2%N [] None false false [] 0 0 0%N (mkSess false 0 false None false) Idle Lost [] [].

Definition F (p c d : N) : frame N := mkF N p c d.

Definition ex_t1 : tx N := [F 1 2 11].
Definition ex_t2 : tx N := [F 3 0 33; F 2 3 22].
Definition ex_t3 : tx N := [F 1 3 12].
Definition ex_t4 : tx N := [F 2 3 23].
Definition ex_t5 : tx N := [F 4 4 44].

Definition ex_steps : list (label N) :=
  [ AppCommit N ex_t1 false;       (* ensureWALExists / first write *)
    LsOpen N;                      (* read mark 1 *)
    LsSync N 0;                    (* first sync: snapshot *)
    AppCommit N ex_t2 false;       (* grows the database to 3 pages *)
    LsSync N 1;                    (* incremental *)
    LsAck N;
    LsCkStart N Passive;
    LsSync N 0;                    (* copy before checkpoint: nothing new *)
    AppCommit N ex_t3 false;       (* application commit before the barrier *)
    LsLockWrite N;
    LsSync N 1;                    (* sealed copy *)
    LsRelease N;
    LsCkpt N 3 3%N;                (* PASSIVE backfills everything *)
    LsReacquire N;                 (* mark 0 *)
    LsMid N;
    LsUnlock N;
    LsBump N ex_t4 true;           (* the bump restarts the WAL: generation 1 *)
    LsCmpHdr N;
    LsSync N 1;                    (* evidence (C): incremental from the new header *)
    AppCommit N ex_t5 false;
    LsSync N 1;
    LsAck N ].

Example ex_init_ok : init_ok N 0%N 1000%N ex_init.
Proof. unfold init_ok. cbn. repeat split; auto. Qed.

Example ex_steps_ok : steps_ok N 1000%N true true true true true ex_init ex_steps.
Proof.
  cbn [ex_steps Machine.steps_ok].
  repeat (split; [first [exact I | apply tx_okb_sound; vm_compute; reflexivity]|]; vm_compute Machine.step; cbv iota beta).
  exact I.
Qed.

Example ex_pt : forallb (nokill_label N) ex_steps = true.
Proof. reflexivity. Qed.

(** the run exists, ends in generation 1 with five level-0 files and two
    acknowledgements, and the restored image is the 4-page database *)
Example ex_run :
  option_map (fun s => (length (l0 N s), gen N s, pc N s, cur N s,
                        map (fun a => fst (fst a)) (acks N s),
                        snd (restore N 0%N 1000%N (l0 N s)),
                        map (fst (restore N 0%N 1000%N (l0 N s))) [1; 2; 3; 4]%N,
                        map (fst (committed N s)) [1; 2; 3; 4]%N))
             (run N 1000%N true true true true true ex_init ex_steps)
  = Some (5, 1, Idle, AtLive 2, [5; 2], 4%N, [12; 23; 33; 44]%N, [12; 23; 33; 44]%N).
Proof. vm_compute. reflexivity. Qed.

Example ex_theorem_applies :
  forall s, run N 1000%N true true true true true ex_init ex_steps = Some s ->
  forall n im b, In (n, im, b) (acks N s) ->
  img_eq N (restore N 0%N 1000%N (firstn n (l0 N s))) im.
Proof.
  intros s E. eapply acked_sync_restores_nokill; [exact ex_init_ok|exact E|exact ex_steps_ok|exact ex_pt].
Qed.

(** a TRUNCATE checkpoint with application commits on both sides of the release
    of the read transaction: the unconditional boundary snapshot picks them up *)
Definition ex2_steps : list (label N) :=
  [ AppCommit N ex_t1 false;
    AppCommit N [F 2 2 21] false;
    LsOpen N;
    LsSync N 0;                    (* snapshot *)
    LsAck N;
    LsCkStart N Truncate;
    LsSync N 0;                    (* copy before checkpoint *)
    AppCommit N [F 3 3 31] false;  (* before the read transaction is released *)
    LsRelease N;
    AppCommit N [F 1 3 13] false;  (* after it *)
    LsCkpt N 4 3%N;                (* TRUNCATE: backfill all, empty the -wal file: generation 1 *)
    LsReacquire N;
    LsMid N;
    LsUnlock N;
    LsBump N [F 2 3 24] false;     (* first frame of the new file *)
    LsCmpHdr N;                    (* header changed, mode TRUNCATE: boundary snapshot *)
    LsLockWrite N;
    LsBoundarySnap N;
    LsAck N ].

Example ex2_steps_ok : steps_ok N 1000%N true true true true true ex_init ex2_steps.
Proof.
  cbn [ex2_steps Machine.steps_ok].
  repeat (split; [first [exact I | apply tx_okb_sound; vm_compute; reflexivity]|]; vm_compute Machine.step; cbv iota beta).
  exact I.
Qed.

Example ex2_run :
  option_map (fun s => (length (l0 N s), gen N s, pc N s, cur N s,
                        map (fun a => (fst (fst a), snd a)) (acks N s),
                        snd (restore N 0%N 1000%N (l0 N s)),
                        map (fst (restore N 0%N 1000%N (l0 N s))) [1; 2; 3]%N,
                        map (fst (committed N s)) [1; 2; 3]%N))
             (run N 1000%N true true true true true ex_init ex2_steps)
  = Some (2, 1, Idle, AtLive 1, [(2, true); (1, true)], 3%N, [13; 24; 31]%N, [13; 24; 31]%N).
Proof. vm_compute. reflexivity. Qed.

(** * FULL / RESTART through the public Checkpoint API: the frame-count rule is
      not enough.  Litestream holds read mark 0 (it opened a database whose WAL
      was completely backfilled), which does not prevent a WAL restart.  Between
      "copy before checkpoint" and the PRAGMA the application commits one frame:
      the WAL restarts (generation 1).  Litestream's FULL checkpoint backfills
      that frame, the bump restarts the WAL again (generation 2) and overwrites
      it; walFrameN (1) <= preCheckpointFrameN (2), verify finds the frame before
      the cursor intact with the old salts and no unknown salts, continues
      incrementally from the new header, and the application's commit is never
      replicated although the following sync is acknowledged.  (The same happens
      with a read mark > 0 when the application checkpoints and commits after
      litestream released its read transaction.) *)

Definition bad_steps : list (label N) :=
  [ AppCommit N [F 1 2 11] false;
    AppCommit N [F 2 2 21] false;
    AppCkpt N 2 2%N;               (* WAL completely backfilled before litestream opens *)
    LsOpen N;                      (* read mark 0 *)
    LsSync N 0;                    (* snapshot, cursor at frame 2 *)
    LsAck N;
    LsCkStart N Full;
    LsSync N 0;                    (* copy before checkpoint: nothing new *)
    AppCommit N [F 1 2 99] true;   (* application commit restarts the WAL: generation 1 *)
    LsRelease N;                   (* read transaction rolled back, pre = 2 *)
    LsCkpt N 1 2%N;                (* FULL: walFrameN = 1 *)
    LsReacquire N;
    LsMid N;
    LsUnlock N;
    LsBump N [F 2 2 22] true;      (* restarts the WAL again: generation 2 *)
    LsCmpHdr N;                    (* 1 <= 2: re-copy instead of boundary snapshot *)
    LsSync N 1;                    (* incremental from the new header *)
    LsAck N ].

Theorem full_checkpoint_window_refuted :
  exists (s0 : state N) ls s n im b,
    init_ok N 0%N 1000%N s0 /\ run N 1000%N false false false true true s0 ls = Some s /\ steps_ok N 1000%N false false false true true s0 ls /\
    In (n, im, b) (acks N s) /\
    ~ img_eq N (restore N 0%N 1000%N (firstn n (l0 N s))) im.
Proof.
  destruct (run N 1000%N false false false true true ex_init bad_steps) as [s|] eqn:E; [|vm_compute in E; discriminate].
  exists ex_init, bad_steps, s.
  assert (Hs : option_map (fun s => (map (fun a => fst (fst a)) (acks N s), length (l0 N s)))
                          (run N 1000%N false false false true true ex_init bad_steps) = Some ([2; 1], 2)).
  { vm_compute. reflexivity. }
  rewrite E in Hs. cbn in Hs. inversion Hs as [[Ha Hl]]. clear Hs.
  destruct (acks N s) as [|[[n im] b] r] eqn:Ea; [discriminate|].
  exists n, im, b.
  split; [exact ex_init_ok|]. split; [exact E|]. split.
  - cbn [bad_steps Machine.steps_ok].
    repeat (split; [first [exact I | apply tx_okb_sound; vm_compute; reflexivity]|]; vm_compute Machine.step; cbv iota beta).
    exact I.
  - split; [left; reflexivity|].
    intros [_ Hp].
    assert (Hv : option_map (fun s => match acks N s with
                                      | (n, im, _) :: _ =>
                                          (snd (restore N 0%N 1000%N (firstn n (l0 N s))),
                                           fst (restore N 0%N 1000%N (firstn n (l0 N s))) 1%N, fst im 1%N)
                                      | [] => (0%N, 0%N, 0%N)
                                      end)
                            (run N 1000%N false false false true true ex_init bad_steps) = Some (2%N, 11%N, 99%N)).
    { vm_compute. reflexivity. }
    rewrite E in Hv. cbn [option_map] in Hv. rewrite Ea in Hv. inversion Hv as [[H1 H2 H3]].
    specialize (Hp 1%N). rewrite H1, H2, H3 in Hp.
    assert (11 = 99)%N by (apply Hp; lia). discriminate.
Qed.

(** the same history under the fixed control flow (both fixes): the header re-read after the
    PRAGMA sees generation 1, the boundary snapshot is taken, the
    acknowledgement restores the application's commit *)
Definition fixed_steps : list (label N) :=
  firstn 16 bad_steps ++ [LsLockWrite N; LsBoundarySnap N; LsAck N].

Example fixed_steps_ok : steps_ok N 1000%N true true true true true ex_init fixed_steps.
Proof.
  cbn [fixed_steps bad_steps firstn app Machine.steps_ok].
  repeat (split; [first [exact I | apply tx_okb_sound; vm_compute; reflexivity]|]; vm_compute Machine.step; cbv iota beta).
  exact I.
Qed.

Example fixed_steps_window : steps_window N 1000%N true true true true true ex_init fixed_steps.
Proof.
  cbn [fixed_steps bad_steps firstn app Machine.steps_window].
  repeat (split; [reflexivity|]; vm_compute Machine.step; cbv iota beta).
  exact I.
Qed.

Example fixed_run :
  option_map (fun s => (length (l0 N s), gen N s, pc N s, cur N s,
                        map (fun a => (fst (fst a), snd a)) (acks N s),
                        map (fst (restore N 0%N 1000%N (l0 N s))) [1; 2]%N,
                        map (fst (committed N s)) [1; 2]%N))
             (run N 1000%N true true true true true ex_init fixed_steps)
  = Some (2, 2, Idle, AtLive 1, [(2, true); (1, true)], [99; 22]%N, [99; 22]%N).
Proof. vm_compute. reflexivity. Qed.

(** and the old re-copy step is no longer enabled there *)
Example fixed_no_recopy : run N 1000%N true true true true true ex_init bad_steps = None.
Proof. vm_compute. reflexivity. Qed.

(** * The window commit 80a5b27 alone leaves open (postcopy = false): FULL/RESTART, between the
      PRAGMA's return and the re-acquisition of the read transaction.  An
      application reader holding mark 2 keeps the application's commit from
      restarting the WAL (it is appended as frame 3), the reader ends, the
      application checkpoints (complete backfill), litestream re-acquires mark
      0; the header is unchanged (restartedBeforeCheckpoint = false), the bump
      restarts the WAL, walFrameN (2) <= preCheckpointFrameN (2), verify sees
      frame 2 intact with the old salts and no unknown salt and continues from
      the new header: frame 3 is never replicated. *)
Definition bad2_steps : list (label N) :=
  [ AppCommit N [F 1 2 11] false;
    AppCommit N [F 2 2 21] false;
    LsOpen N;                      (* read mark 2 *)
    LsSync N 0;                    (* snapshot, cursor at frame 2 *)
    LsAck N;
    LsCkStart N Full;
    LsSync N 0;                    (* copy before checkpoint: nothing new *)
    LsRelease N;                   (* pre = 2 *)
    LsCkpt N 2 2%N;                (* FULL: walFrameN = 2 *)
    AppCommit N [F 1 2 99] false;  (* appended: an application reader blocks the restart *)
    AppCkpt N 3 2%N;               (* application checkpoint completes the backfill *)
    LsReacquire N;                 (* mark 0 *)
    LsMid N;
    LsUnlock N;                    (* header unchanged *)
    LsBump N [F 2 2 22] true;      (* restarts the WAL: generation 1 *)
    LsCmpHdr N;                    (* 2 <= 2: re-copy *)
    LsSync N 1;                    (* incremental from the new header *)
    LsAck N ].

Theorem full_checkpoint_post_pragma_window_refuted :
  exists (s0 : state N) ls s n im b,
    init_ok N 0%N 1000%N s0 /\ run N 1000%N true false false true true s0 ls = Some s /\ steps_ok N 1000%N true false false true true s0 ls /\
    In (n, im, b) (acks N s) /\
    ~ img_eq N (restore N 0%N 1000%N (firstn n (l0 N s))) im.
Proof.
  destruct (run N 1000%N true false false true true ex_init bad2_steps) as [s|] eqn:E; [|vm_compute in E; discriminate].
  exists ex_init, bad2_steps, s.
  assert (Hs : option_map (fun s => (map (fun a => fst (fst a)) (acks N s), length (l0 N s)))
                          (run N 1000%N true false false true true ex_init bad2_steps) = Some ([2; 1], 2)).
  { vm_compute. reflexivity. }
  rewrite E in Hs. cbn in Hs. inversion Hs as [[Ha Hl]]. clear Hs.
  destruct (acks N s) as [|[[n im] b] r] eqn:Ea; [discriminate|].
  exists n, im, b.
  split; [exact ex_init_ok|]. split; [exact E|]. split.
  - cbn [bad2_steps Machine.steps_ok].
    repeat (split; [first [exact I | apply tx_okb_sound; vm_compute; reflexivity]|]; vm_compute Machine.step; cbv iota beta).
    exact I.
  - split; [left; reflexivity|].
    intros [_ Hp].
    assert (Hv : option_map (fun s => match acks N s with
                                      | (n, im, _) :: _ =>
                                          (snd (restore N 0%N 1000%N (firstn n (l0 N s))),
                                           fst (restore N 0%N 1000%N (firstn n (l0 N s))) 1%N, fst im 1%N)
                                      | [] => (0%N, 0%N, 0%N)
                                      end)
                            (run N 1000%N true false false true true ex_init bad2_steps) = Some (2%N, 11%N, 99%N)).
    { vm_compute. reflexivity. }
    rewrite E in Hv. cbn [option_map] in Hv. rewrite Ea in Hv. inversion Hv as [[H1 H2 H3]].
    specialize (Hp 1%N). rewrite H1, H2, H3 in Hp.
    assert (11 = 99)%N by (apply Hp; lia). discriminate.
Qed.

(** the same history with commit 6edd82b as well: the header is unchanged after
    the PRAGMA, the additional copy replicates frame 3 before the bump restarts
    the WAL, and the acknowledgement restores it *)
Definition fixed2_steps : list (label N) :=
  firstn 13 bad2_steps ++
  [ LsSync N 1;                    (* the copy after the checkpoint: frame 3 *)
    LsUnlock N;
    LsBump N [F 2 2 22] true;      (* restarts the WAL: generation 1 *)
    LsCmpHdr N;                    (* 2 <= 2: re-copy *)
    LsSync N 1;                    (* evidence (C), now sound: incremental from the new header *)
    LsAck N ].

Example fixed2_steps_ok : steps_ok N 1000%N true true true true true ex_init fixed2_steps.
Proof.
  cbn [fixed2_steps bad2_steps firstn app Machine.steps_ok].
  repeat (split; [first [exact I | apply tx_okb_sound; vm_compute; reflexivity]|]; vm_compute Machine.step; cbv iota beta).
  exact I.
Qed.

Example fixed2_steps_window : steps_window N 1000%N true true true true true ex_init fixed2_steps.
Proof.
  cbn [fixed2_steps bad2_steps firstn app Machine.steps_window].
  repeat (split; [reflexivity|]; vm_compute Machine.step; cbv iota beta).
  exact I.
Qed.

Example fixed2_run :
  option_map (fun s => (length (l0 N s), gen N s, pc N s, cur N s,
                        map (fun a => (fst (fst a), snd a)) (acks N s),
                        map (fst (restore N 0%N 1000%N (l0 N s))) [1; 2]%N,
                        map (fst (committed N s)) [1; 2]%N))
             (run N 1000%N true true true true true ex_init fixed2_steps)
  = Some (3, 1, Idle, AtLive 1, [(3, true); (1, true)], [99; 22]%N, [99; 22]%N).
Proof. vm_compute. reflexivity. Qed.

(** * The window commits 80a5b27 + 6edd82b leave open (recheck = false, [window_ok]): FULL/RESTART, between the
      header re-read after the PRAGMA and the header read of the copy that
      follows it.  As before an appended and backfilled frame 3 sits behind
      litestream's re-acquired mark 0 and the re-read finds the header
      unchanged; now a second application commit restarts the WAL before the
      copy reads the header: the copy sees frame 2 intact with the old salts and
      no unknown salt, continues from the new header (evidence (C)), the bump is
      appended, walFrameN (2) <= preCheckpointFrameN (2) selects the re-copy:
      frame 3 is never replicated. *)
Definition bad3_steps : list (label N) :=
  firstn 13 bad2_steps ++
  [ AppCommit N [F 2 2 55] true;   (* restarts the WAL between the re-read and the copy *)
    LsSync N 1;                    (* the copy after the checkpoint: incremental from the new header *)
    LsUnlock N;
    LsBump N [F 2 2 22] false;     (* appended *)
    LsCmpHdr N;                    (* header changed, not before the re-read, 2 <= 2: re-copy *)
    LsSync N 1;
    LsAck N ].

Theorem full_checkpoint_post_copy_window_refuted :
  exists (s0 : state N) ls s n im b,
    init_ok N 0%N 1000%N s0 /\ run N 1000%N true true false true true s0 ls = Some s /\ steps_ok N 1000%N true true false true true s0 ls /\
    In (n, im, b) (acks N s) /\
    ~ img_eq N (restore N 0%N 1000%N (firstn n (l0 N s))) im.
Proof.
  destruct (run N 1000%N true true false true true ex_init bad3_steps) as [s|] eqn:E; [|vm_compute in E; discriminate].
  exists ex_init, bad3_steps, s.
  assert (Hs : option_map (fun s => map (fun a => fst (fst a)) (acks N s))
                          (run N 1000%N true true false true true ex_init bad3_steps) = Some [3; 1]).
  { vm_compute. reflexivity. }
  rewrite E in Hs. cbn in Hs. inversion Hs as [Ha]. clear Hs.
  destruct (acks N s) as [|[[n im] b] r] eqn:Ea; [discriminate|].
  exists n, im, b.
  split; [exact ex_init_ok|]. split; [exact E|]. split.
  - cbn [bad3_steps bad2_steps firstn app Machine.steps_ok].
    repeat (split; [first [exact I | apply tx_okb_sound; vm_compute; reflexivity]|]; vm_compute Machine.step; cbv iota beta).
    exact I.
  - split; [left; reflexivity|].
    intros [_ Hp].
    assert (Hv : option_map (fun s => match acks N s with
                                      | (n, im, _) :: _ =>
                                          (snd (restore N 0%N 1000%N (firstn n (l0 N s))),
                                           fst (restore N 0%N 1000%N (firstn n (l0 N s))) 1%N, fst im 1%N)
                                      | [] => (0%N, 0%N, 0%N)
                                      end)
                            (run N 1000%N true true false true true ex_init bad3_steps) = Some (2%N, 11%N, 99%N)).
    { vm_compute. reflexivity. }
    rewrite E in Hv. cbn [option_map] in Hv. rewrite Ea in Hv. inversion Hv as [[H1 H2 H3]].
    specialize (Hp 1%N). rewrite H1, H2, H3 in Hp.
    assert (11 = 99)%N by (apply Hp; lia). discriminate.
Qed.

(** the same history with the re-read after the copy (commit bb88a29): it sees the new
    generation, the boundary snapshot is taken, the acknowledgement restores
    frame 3's page *)
Definition fixed3_steps : list (label N) :=
  firstn 13 bad2_steps ++
  [ AppCommit N [F 2 2 55] true;
    LsSync N 1;
    LsUnlock N;                    (* re-read: header changed *)
    LsBump N [F 2 2 22] false;
    LsCmpHdr N;                    (* boundary snapshot *)
    LsLockWrite N;
    LsBoundarySnap N;
    LsAck N ].

Example fixed3_steps_ok : steps_ok N 1000%N true true true true true ex_init fixed3_steps.
Proof.
  cbn [fixed3_steps bad2_steps firstn app Machine.steps_ok].
  repeat (split; [first [exact I | apply tx_okb_sound; vm_compute; reflexivity]|]; vm_compute Machine.step; cbv iota beta).
  exact I.
Qed.

Example fixed3_run :
  option_map (fun s => (gen N s, pc N s, cur N s,
                        map (fun a => snd a) (acks N s),
                        map (fst (restore N 0%N 1000%N (l0 N s))) [1; 2]%N,
                        map (fst (committed N s)) [1; 2]%N))
             (run N 1000%N true true true true true ex_init fixed3_steps)
  = Some (1, Idle, AtLive 2, [true; true], [99; 22]%N, [99; 22]%N).
Proof. vm_compute. reflexivity. Qed.

(** * Sessions: Close / Open / kill (C04) *)

(** while litestream is closed the application appends a frame, checkpoints, and
    restarts the WAL with a generation shorter than the cursor (F2); the
    re-opened session has synced nothing yet, the fresh-session rule of commit
    3b58009 answers snapshot, the acknowledgement restores the source *)
Definition sess_steps : list (label N) :=
  [ AppCommit N [F 1 2 11] false;
    AppCommit N [F 2 2 21] false;
    LsOpen N;
    LsSync N 0;                    (* snapshot, cursor at frame 2 *)
    LsAck N;
    LsClose N;
    AppCommit N [F 1 2 99] false;  (* frame 3, never seen by litestream *)
    AppCkpt N 3 2%N;
    AppCommit N [F 2 2 55] true;   (* restarts the WAL: one frame, shorter than the cursor *)
    LsOpen N;
    LsSync N 1;
    LsAck N ].

Example sess_steps_ok : steps_ok N 1000%N true true true true true ex_init sess_steps.
Proof.
  cbn [sess_steps Machine.steps_ok].
  repeat (split; [first [exact I | apply tx_okb_sound; vm_compute; reflexivity]|]; vm_compute Machine.step; cbv iota beta).
  exact I.
Qed.

Example sess_steps_window : steps_window N 1000%N true true true true true ex_init sess_steps.
Proof.
  cbn [sess_steps Machine.steps_window].
  repeat (split; [reflexivity|]; vm_compute Machine.step; cbv iota beta).
  exact I.
Qed.

Example sess_run :
  option_map (fun s => (length (l0 N s), gen N s, cur N s,
                        map (fun a => (fst (fst a), snd a)) (acks N s),
                        map (fst (restore N 0%N 1000%N (l0 N s))) [1; 2]%N,
                        map (fst (committed N s)) [1; 2]%N))
             (run N 1000%N true true true true true ex_init sess_steps)
  = Some (2, 1, AtLive 1, [(2, true); (1, true)], [99; 55]%N, [99; 55]%N).
Proof. vm_compute. reflexivity. Qed.

Ltac refute_run E steps :=
  match type of E with run N 1000%N ?a ?b ?c ?d ?e ex_init steps = Some ?s =>
    let Hv := fresh "Hv" in
    assert (Hv : option_map (fun s => match acks N s with
                                      | (n, im, _) :: _ =>
                                          (snd (restore N 0%N 1000%N (firstn n (l0 N s))),
                                           fst (restore N 0%N 1000%N (firstn n (l0 N s))) 1%N, fst im 1%N)
                                      | [] => (0%N, 0%N, 0%N)
                                      end)
                            (run N 1000%N a b c d e ex_init steps) = Some (2%N, 11%N, 99%N))
      by (vm_compute; reflexivity);
    rewrite E in Hv; cbn [option_map] in Hv
  end.

(** F2, repaired by 3b58009: without the fresh-session rule the same history
    continues incrementally from the new header and frame 3 is never replicated *)
Theorem reopen_restart_shorter_refuted :
  exists (s0 : state N) ls s n im b,
    init_ok N 0%N 1000%N s0 /\ run N 1000%N true true true false true s0 ls = Some s /\
    steps_ok N 1000%N true true true false true s0 ls /\
    In (n, im, b) (acks N s) /\
    ~ img_eq N (restore N 0%N 1000%N (firstn n (l0 N s))) im.
Proof.
  destruct (run N 1000%N true true true false true ex_init sess_steps) as [s|] eqn:E; [|vm_compute in E; discriminate].
  exists ex_init, sess_steps, s.
  refute_run E sess_steps.
  destruct (acks N s) as [|[[n im] b] r] eqn:Ea; [discriminate|].
  exists n, im, b.
  split; [exact ex_init_ok|]. split; [exact E|]. split.
  - cbn [sess_steps Machine.steps_ok].
    repeat (split; [first [exact I | apply tx_okb_sound; vm_compute; reflexivity]|]; vm_compute Machine.step; cbv iota beta).
    exact I.
  - split; [left; reflexivity|]. intros [_ Hp]. inversion Hv as [[H1 H2 H3]].
    specialize (Hp 1%N). rewrite H1, H2, H3 in Hp.
    assert (11 = 99)%N by (apply Hp; lia). discriminate.
Qed.

(** [kill_ok]: the F16 interleaving (a commit restarts the WAL between the header
    re-read and the copy after a FULL checkpoint, over a frame litestream has
    not copied) followed by the death of the process before the boundary
    snapshot that the second re-read forces: the last level-0 file carries the
    live salts, the next process continues incrementally, frame 3 is lost *)
Definition kill_steps : list (label N) :=
  firstn 13 bad2_steps ++
  [ AppCommit N [F 2 2 55] true;   (* restarts the WAL between the re-read and the copy *)
    LsSync N 1;                    (* the copy after the checkpoint: incremental from the new header *)
    LsKill N;                      (* before the re-read / boundary snapshot *)
    LsOpen N;
    LsSync N 0;                    (* salts match, nothing new *)
    LsAck N ].

Theorem kill_after_lost_post_copy_refuted :
  exists (s0 : state N) ls s n im b,
    init_ok N 0%N 1000%N s0 /\ run N 1000%N true true true true true s0 ls = Some s /\
    steps_ok N 1000%N true true true true true s0 ls /\
    In (n, im, b) (acks N s) /\
    ~ img_eq N (restore N 0%N 1000%N (firstn n (l0 N s))) im.
Proof.
  destruct (run N 1000%N true true true true true ex_init kill_steps) as [s|] eqn:E; [|vm_compute in E; discriminate].
  exists ex_init, kill_steps, s.
  refute_run E kill_steps.
  destruct (acks N s) as [|[[n im] b] r] eqn:Ea; [discriminate|].
  exists n, im, b.
  split; [exact ex_init_ok|]. split; [exact E|]. split.
  - cbn [kill_steps bad2_steps firstn app Machine.steps_ok].
    repeat (split; [first [exact I | apply tx_okb_sound; vm_compute; reflexivity]|]; vm_compute Machine.step; cbv iota beta).
    exact I.
  - split; [left; reflexivity|]. intros [_ Hp]. inversion Hv as [[H1 H2 H3]].
    specialize (Hp 1%N). rewrite H1, H2, H3 in Hp.
    assert (11 = 99)%N by (apply Hp; lia). discriminate.
Qed.

(** [catching_up]: litestream is closed while the application commits two
    transactions and checkpoints them completely; the re-opened session takes
    read mark 0, copies the first of them in one budgeted chunk (MaxSyncWALBytes
    > 0), and before the next chunk a commit restarts the WAL (mark 0 does not
    prevent it): the second transaction is gone from the WAL, the fresh-session
    rule of 3b58009 (lastSyncedWALOffset = 0, [reachrule = false]) no longer
    applies, evidence (C) continues from the new header.  F18, repaired by
    c55c7c6 (reachedWALEnd) *)
Definition catchup_steps : list (label N) :=
  [ AppCommit N [F 1 2 11] false;
    AppCommit N [F 2 2 21] false;
    LsOpen N;
    LsSync N 0;                    (* snapshot, cursor at frame 2 *)
    LsAck N;
    LsClose N;
    AppCommit N [F 2 2 31] false;  (* frame 3 *)
    AppCommit N [F 1 2 99] false;  (* frame 4 *)
    AppCkpt N 4 2%N;               (* complete backfill while litestream is closed *)
    LsOpen N;                      (* read mark 0 *)
    LsSync N 1;                    (* first chunk: frame 3 *)
    AppCommit N [F 2 2 55] true;   (* restarts the WAL over frame 4 *)
    LsSync N 1;                    (* incremental from the new header *)
    LsAck N ].

Theorem reopen_catchup_restart_refuted :
  exists (s0 : state N) ls s n im b,
    init_ok N 0%N 1000%N s0 /\ run N 1000%N true true true true false s0 ls = Some s /\
    steps_ok N 1000%N true true true true false s0 ls /\
    In (n, im, b) (acks N s) /\
    ~ img_eq N (restore N 0%N 1000%N (firstn n (l0 N s))) im.
Proof.
  destruct (run N 1000%N true true true true false ex_init catchup_steps) as [s|] eqn:E; [|vm_compute in E; discriminate].
  exists ex_init, catchup_steps, s.
  refute_run E catchup_steps.
  destruct (acks N s) as [|[[n im] b] r] eqn:Ea; [discriminate|].
  exists n, im, b.
  split; [exact ex_init_ok|]. split; [exact E|]. split.
  - cbn [catchup_steps Machine.steps_ok].
    repeat (split; [first [exact I | apply tx_okb_sound; vm_compute; reflexivity]|]; vm_compute Machine.step; cbv iota beta).
    exact I.
  - split; [left; reflexivity|]. intros [_ Hp]. inversion Hv as [[H1 H2 H3]].
    specialize (Hp 1%N). rewrite H1, H2, H3 in Hp.
    assert (11 = 99)%N by (apply Hp; lia). discriminate.
Qed.

(** the same history under /repo HEAD: the session has not reached the end of the
    WAL yet (reachedWALEnd = false), the changed salts mean snapshot *)
Example catchup_fixed_ok : steps_ok N 1000%N true true true true true ex_init catchup_steps.
Proof.
  cbn [catchup_steps Machine.steps_ok].
  repeat (split; [first [exact I | apply tx_okb_sound; vm_compute; reflexivity]|]; vm_compute Machine.step; cbv iota beta).
  exact I.
Qed.

Example catchup_fixed_run :
  option_map (fun s => (length (l0 N s), cur N s,
                        map (fun a => (fst (fst a), snd a)) (acks N s),
                        map (fst (restore N 0%N 1000%N (l0 N s))) [1; 2]%N,
                        map (fst (committed N s)) [1; 2]%N))
             (run N 1000%N true true true true true ex_init catchup_steps)
  = Some (3, AtLive 1, [(3, true); (1, true)], [99; 55]%N, [99; 55]%N).
Proof. vm_compute. reflexivity. Qed.
