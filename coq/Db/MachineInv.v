(** DInv for Db/Machine.v, part 1: whatever the interleaving and whatever the
    checkpoint modes, as long as the ghost cursor is not [Lost] the level-0
    files restore to SQLite's view at the cursor; acknowledgements taken while
    the cursor is not [Lost] restore to the committed image. *)
From Coq Require Import List NArith Bool Lia Arith.
From LS Require Import Db.Image Db.Machine Db.MachineLemmas.
Import ListNotations.
Open Scope nat_scope.

Section Inv.
Variable data : Type.
Variable zero : data.
Variable lock : N.
Variable midcheck : bool.
Variable postcopy : bool.
Variable recheck : bool.
Variable freshrule : bool.
Variable reachrule : bool.

Local Notation state := (state data).
Local Notation restoreL := (restore data zero lock).
Local Notation txs_ok := (txs_ok data lock).
Local Notation tx_ok := (tx_ok data lock).
Local Notation step := (step data lock midcheck postcopy recheck freshrule reachrule).
Local Notation label_ok := (label_ok data lock).

Ltac simp := cbn -[restore flen apply ltx_snapshot ltx_incremental view dbfile firstn skipn].

Definition cur_inv (s : state) : Prop :=
  match cur data s with
  | AtLive c =>
      c <= length (txs data s) /\ cgen data s = gen data s /\
      cfo data s = flen data (firstn c (txs data s)) /\ l0 data s <> [] /\
      img_eq data (restoreL (l0 data s))
             (view data (base data s, bsize data s) (concat (firstn c (txs data s))))
  | AtBase =>
      cgen data s < gen data s /\ l0 data s <> [] /\
      img_eq data (restoreL (l0 data s)) (base data s, bsize data s)
  | Lost => True
  end.

Record inv (s : state) : Prop := mkInv {
  i_txs : txs_ok (bsize data s) (txs data s);
  i_lock : base data s lock = zero;
  i_bf : backfilled data s <= length (txs data s);
  i_phys : flen data (txs data s) <= length (phys data s);
  i_hdr : txs data s = [] -> phys data s = [];
  i_prev : l0 data s <> [] -> cprev data s = snd (restoreL (l0 data s));
  i_cur : cur_inv s;
  i_acks : forall n im, In (n, im, true) (acks data s) ->
             n <= length (l0 data s) /\ img_eq data (restoreL (firstn n (l0 data s))) im }.

(** the fields the invariant reads *)
Definition core (s : state) :=
  (base data s, bsize data s, gen data s, txs data s, backfilled data s, phys data s,
   l0 data s, cgen data s, cfo data s, cprev data s, cur data s, acks data s).

Lemma inv_core s s' : core s = core s' -> inv s -> inv s'.
Proof.
  destruct s, s'. unfold core. cbn. intros H. inversion H; subst. clear H.
  intros [H1 H2 H3 H4 H5 H6 H7 H8]. constructor; cbn in *; assumption.
Qed.

Lemma inv_set_pc s p : inv s -> inv (set_pc data s p).
Proof. apply inv_core. reflexivity. Qed.
Lemma inv_set_mark s m : inv s -> inv (set_mark data s m).
Proof. apply inv_core. reflexivity. Qed.
Lemma inv_set_wlock s w : inv s -> inv (set_wlock data s w).
Proof. apply inv_core. reflexivity. Qed.
Lemma inv_set_opened s : inv s -> inv (set_opened data s).
Proof. apply inv_core. reflexivity. Qed.
Lemma inv_set_ss s x : inv s -> inv (set_ss data s x).
Proof. apply inv_core. reflexivity. Qed.
Lemma inv_set_openmark s b : inv s -> inv (set_openmark data s b).
Proof. apply inv_core. reflexivity. Qed.
Lemma inv_set_snap s x : inv s -> inv (set_snap data s x).
Proof. apply inv_core. reflexivity. Qed.
Lemma inv_add_snap s x : inv s -> inv (add_snap data s x).
Proof. apply inv_core. reflexivity. Qed.
Lemma inv_set_closed s : inv s -> inv (set_closed data s).
Proof. apply inv_core. reflexivity. Qed.
Lemma inv_set_flag s b : inv s -> inv (set_flag data s b).
Proof. apply inv_core. reflexivity. Qed.

Lemma inv_set_backfill s j sz : j <= length (txs data s) -> inv s -> inv (set_backfill data s j sz).
Proof.
  intros Hj [H1 H2 H3 H4 H5 H6 H7 H8]. constructor; cbn; try assumption.
Qed.

Lemma committed_lock s : inv s -> fst (committed data s) lock = zero.
Proof. intros H. unfold committed. eapply view_lock_zero; [apply (i_lock _ H)|apply (i_txs _ H)]. Qed.

(** ** acknowledgement *)
Lemma inv_add_ack s :
  inv s -> cgen data s = gen data s -> cfo data s = flen data (txs data s) ->
  inv (add_ack data s).
Proof.
  intros H Hg Hc. pose proof H as [H1 H2 H3 H4 H5 H6 H7 H8].
  constructor; cbn; try assumption.
  intros n im [E|Hin]; [|apply H8; exact Hin].
  inversion E; subst. clear E. split; [lia|].
  rewrite firstn_all. unfold cur_inv in H7.
  destruct (cur data s) as [c| |] eqn:Ec; try discriminate.
  - destruct H7 as [Hle [_ [Hcfo [_ Himg]]]].
    assert (c = length (txs data s)).
    { eapply flen_firstn_full; [eapply txs_ok_nonempty; eauto|assumption|congruence]. }
    subst c. rewrite firstn_all in Himg. exact Himg.
  - destruct H7 as [Hlt _]. lia.
Qed.

(** ** environment: a new generation *)
Lemma cur_inv_reset s trunc :
  inv s -> cur_inv (reset_st data s trunc).
Proof.
  intros H. unfold cur_inv. cbn.
  pose proof (i_cur _ H) as Hc. unfold cur_inv in Hc.
  destruct (cur data s) as [c| |]; cbn; [| |exact I].
  - destruct (c =? length (txs data s)) eqn:E; [|exact I].
    apply Nat.eqb_eq in E. subst c. destruct Hc as [_ [Hg [_ [Hl Himg]]]].
    rewrite firstn_all in Himg. split; [lia|]. split; [assumption|].
    eapply img_eq_trans; [exact Himg|]. apply view_pair_eq.
  - destruct (length (txs data s) =? 0) eqn:E; [|exact I].
    apply Nat.eqb_eq in E. apply length_zero_iff_nil in E.
    destruct Hc as [Hg [Hl Himg]]. split; [lia|]. split; [assumption|].
    unfold committed. rewrite E. cbn [concat].
    eapply img_eq_trans; [exact Himg|].
    eapply img_eq_trans; [apply view_nil_eq|apply view_pair_eq].
Qed.

Lemma inv_reset_trunc s : inv s -> inv (reset_st data s true).
Proof.
  intros H. pose proof H as [H1 H2 H3 H4 H5 H6 H7 H8].
  constructor; try (cbn; solve [assumption|exact I|lia|auto]).
  - cbn. apply committed_lock. exact H.
  - apply cur_inv_reset. exact H.
Qed.

(** a commit that restarts the WAL *)
Lemma inv_reset_append s t :
  inv s -> tx_ok (snd (committed data s)) t ->
  inv (append_st data (reset_st data s false) t).
Proof.
  intros H Ht. pose proof H as [H1 H2 H3 H4 H5 H6 H7 H8].
  constructor; try (cbn; solve [assumption|lia]).
  - cbn. split; [exact Ht|exact I].
  - cbn. apply committed_lock. exact H.
  - cbn. unfold flen. cbn. rewrite app_nil_r. unfold overwrite. cbn.
    rewrite app_length. unfold tag. rewrite map_length. lia.
  - cbn. intros E. destruct t; discriminate.
  - pose proof (cur_inv_reset s false H) as Hc. unfold cur_inv in *. cbn in *.
    destruct (cur_reset (cur data s) (length (txs data s))) as [c| |] eqn:Ec; [|exact Hc|exact I].
    exfalso. destruct (cur data s) as [c'| |]; cbn in Ec.
    + destruct (c' =? length (txs data s)); discriminate.
    + destruct (length (txs data s) =? 0); discriminate.
    + discriminate.
Qed.

(** a commit appended to the live generation *)
Lemma inv_append s t :
  inv s -> tx_ok (snd (committed data s)) t -> inv (append_st data s t).
Proof.
  intros H Ht. pose proof H as [H1 H2 H3 H4 H5 H6 H7 H8].
  constructor; try (cbn; solve [assumption]).
  - cbn. apply txs_ok_app. split; [exact H1|]. cbn. split; [exact Ht|exact I].
  - cbn. rewrite app_length. cbn. lia.
  - cbn -[flen]. rewrite flen_app. unfold flen at 2. cbn [concat]. rewrite app_nil_r.
    pose proof (length_overwrite data (phys data s) (flen data (txs data s)) (tag data (gen data s) t) H4) as L.
    unfold tag in L at 1. rewrite map_length in L. exact L.
  - cbn. intros E. destruct (txs data s); discriminate.
  - unfold cur_inv in *. cbn. destruct (cur data s) as [c| |]; [|exact H7|exact I].
    destruct H7 as [Hle [Hg [Hcfo [Hl Himg]]]].
    rewrite firstn_app_le by assumption.
    split; [rewrite app_length; lia|]. split; [assumption|]. split; [assumption|]. split; assumption.
Qed.

Lemma inv_do_commit s t r s' :
  inv s -> tx_ok (snd (committed data s)) t -> do_commit data s t r = Some s' -> inv s'.
Proof.
  intros H Ht. unfold do_commit.
  destruct (wlock data s); [discriminate|].
  destruct r.
  - destruct (reset_enabled data s && (0 <? length (txs data s))); [|discriminate].
    intros E. inversion E; subst. apply inv_reset_append; assumption.
  - intros E. inversion E; subst. apply inv_append; assumption.
Qed.

(** ** litestream: writing a file *)

Lemma acks_after_write (s : state) x :
  (forall n im, In (n, im, true) (acks data s) ->
      n <= length (l0 data s) /\ img_eq data (restoreL (firstn n (l0 data s))) im) ->
  forall n im, In (n, im, true) (acks data s) ->
      n <= length (l0 data s ++ [x]) /\ img_eq data (restoreL (firstn n (l0 data s ++ [x]))) im.
Proof.
  intros H n im Hin. destruct (H n im Hin) as [Hn Hi].
  rewrite app_length. split; [lia|]. rewrite firstn_app_le by assumption. exact Hi.
Qed.

Lemma inv_snapshot s :
  inv s -> phys data s <> [] -> inv (snapshot_st data lock s).
Proof.
  intros H Hp. pose proof H as [H1 H2 H3 H4 H5 H6 H7 H8].
  assert (Hne : txs data s <> []) by (intros E; apply Hp; apply H5; exact E).
  pose proof (sync_snapshot_correct_backfilled data zero lock (base data s) (fsize data s)
                (concat (txs data s)) (flen data (firstn (backfilled data s) (txs data s)))
                (restoreL (l0 data s))) as S.
  cbn zeta in S.
  assert (Hl : fst (view data (base data s, fsize data s) (concat (txs data s))) lock = zero)
    by (eapply view_lock_zero; eauto).
  specialize (S Hl).
  constructor; try (cbn; solve [assumption]).
  - simp. intros _. rewrite restore_snoc. reflexivity.
  - unfold cur_inv. simp. rewrite firstn_all.
    repeat split; try reflexivity.
    + intros E. destruct (l0 data s); discriminate.
    + rewrite restore_snoc. destruct S as [S1 S2]. cbn [snd view] in *. unfold dbfile.
      rewrite S1. eapply txs_commit_indep; eauto.
    + rewrite restore_snoc. intros pg Hp1 Hp2.
      destruct S as [S1 S2]. unfold dbfile in *. rewrite (S2 pg Hp1 Hp2). reflexivity.
  - simp. apply acks_after_write. exact H8.
Qed.

Lemma inv_incr s c k clear newcur s' :
  inv s -> incr_st data lock s c k clear newcur = Some s' ->
  (k <> 0 ->
   match newcur with
   | AtLive c2 => c2 = c + k /\ l0 data s <> [] /\
                  img_eq data (restoreL (l0 data s))
                         (view data (base data s, bsize data s) (concat (firstn c (txs data s))))
   | AtBase => False
   | Lost => True
   end) ->
  inv s'.
Proof.
  intros H E Hnew. pose proof H as [H1 H2 H3 H4 H5 H6 H7 H8].
  unfold incr_st in E.
  destruct (c + k <=? length (txs data s)) eqn:Ele; cbn [negb] in E; [|discriminate].
  apply Nat.leb_le in Ele.
  destruct (toend data s && negb (c + k =? length (txs data s))); [discriminate|].
  destruct (k =? 0) eqn:Ek.
  - inversion E; subst. destruct clear; [apply inv_set_flag|]; exact H.
  - apply Nat.eqb_neq in Ek. specialize (Hnew Ek). inversion E; subst; clear E.
    constructor; try (cbn; solve [assumption]).
    + simp. intros _. rewrite restore_snoc. reflexivity.
    + unfold cur_inv. simp. destruct newcur as [c2| |]; [|contradiction|exact I].
      destruct Hnew as [E2 [Hl Himg]]. subst c2.
      repeat split; try assumption; try reflexivity.
      * intros E. destruct (l0 data s); discriminate.
      * (* size *)
        rewrite restore_snoc. cbn [apply snd ltx_incremental x_commit].
        rewrite (H6 Hl). destruct Himg as [Hs _]. rewrite Hs.
        cbn [view snd]. rewrite <- last_commit_app. rewrite concat_firstn_skipn. reflexivity.
      * (* pages *)
        rewrite restore_snoc.
        set (synced := concat (firstn c (txs data s))) in *.
        set (chunk := concat (firstn k (skipn c (txs data s)))).
        pose proof (sync_incremental_correct data zero lock (base data s, bsize data s) synced chunk
                      (dbfile data s)) as S.
        cbn zeta in S.
        assert (Hchunk : txs_ok (snd (view data (base data s, bsize data s) synced))
                                (firstn k (skipn c (txs data s)))).
        { cbn [view snd]. apply txs_ok_chunk. exact H1. }
        assert (Hcat : synced ++ chunk = concat (firstn (c + k) (txs data s)))
          by (apply concat_firstn_skipn).
        assert (Hg : forall pg,
                   (snd (view data (base data s, bsize data s) synced) < pg)%N ->
                   (pg <= snd (view data (base data s, bsize data s) (synced ++ chunk)))%N ->
                   pg <> lock -> last_data data pg chunk = None ->
                   dbfile data s pg = fst (view data (base data s, bsize data s) (synced ++ chunk)) pg).
        { intros pg Hp1 Hp2 Hp3 Hp4. exfalso.
          eapply (grow_chunk data lock _ _ Hchunk pg); eauto.
          cbn [view snd] in *. rewrite last_commit_app in Hp2. exact Hp2. }
        assert (Hlk : fst (view data (base data s, bsize data s) (synced ++ chunk)) lock = zero).
        { rewrite Hcat. eapply view_lock_zero; [exact H2|]. apply txs_ok_firstn. exact H1. }
        specialize (S Hg Hlk).
        rewrite Hcat in S.
        assert (Hpc : cprev data s = snd (view data (base data s, bsize data s) synced)).
        { rewrite (H6 Hl). destruct Himg as [Hs _]. exact Hs. }
        rewrite Hpc.
        pose proof (apply_img_eq data zero lock _ _
                      (ltx_incremental data lock (dbfile data s)
                         (snd (view data (base data s, bsize data s) synced)) chunk) Himg) as A.
        pose proof (img_eq_trans data _ _ _ A S) as [T1 T2].
        intros pg Hq1 Hq2. apply T2; assumption.
    + simp. apply acks_after_write. exact H8.
Qed.

Lemma verify_incrat s : verify data freshrule reachrule s = VIncrAt -> l0 data s <> [] /\ cgen data s = gen data s.
Proof.
  unfold verify. destruct (l0 data s) eqn:El; [discriminate|].
  intros H. split; [discriminate|].
  destruct (length (phys data s) <? cfo data s).
  { destruct (flag data s); discriminate. }
  destruct (cgen data s =? gen data s) eqn:Eg; [apply Nat.eqb_eq in Eg; exact Eg|exfalso].
  destruct (cfo data s =? 0); [discriminate|].
  destruct (cfo data s =? 1); [discriminate|].
  destruct (tag_at data (phys data s) (cfo data s - 1)); [|discriminate].
  destruct (negb (n =? cgen data s)); [discriminate|]. cbn in H.
  destruct (freshrule && (if reachrule then negb (reached data s) else lastoff data s =? 0)); [discriminate|].
  destruct (detect_full data (phys data s) (gen data s) (cgen data s)); discriminate.
Qed.

Lemma verify_incrhdr s cl :
  verify data freshrule reachrule s = VIncrHdr cl ->
  l0 data s <> [] /\ (length (phys data s) < cfo data s \/ cgen data s <> gen data s).
Proof.
  unfold verify. destruct (l0 data s) eqn:El; [discriminate|].
  intros H. split; [discriminate|].
  destruct (length (phys data s) <? cfo data s) eqn:Et.
  { left. apply Nat.ltb_lt. exact Et. }
  right.
  destruct (cgen data s =? gen data s) eqn:Eg; [exfalso|apply Nat.eqb_neq; exact Eg].
  destruct (cfo data s =? 0); [discriminate|].
  destruct (cfo data s =? 1); [discriminate|].
  destruct (tag_at data (phys data s) (cfo data s - 1)); [|discriminate].
  destruct (negb (n =? cgen data s)); discriminate.
Qed.

Lemma inv_do_sync s k s' : inv s -> do_sync data lock freshrule reachrule s k = Some s' -> inv s'.
Proof.
  intros H. unfold do_sync.
  destruct (opened data s); cbn [negb]; [|discriminate].
  destruct (phys data s) as [|p0 pr] eqn:Ep; [discriminate|].
  assert (Hp : phys data s <> []) by (rewrite Ep; discriminate).
  destruct (verify data freshrule reachrule s) as [| |cl] eqn:Ev.
  - intros E. inversion E; subst. apply inv_snapshot; assumption.
  - destruct (idx data (txs data s) (cfo data s)) as [c|] eqn:Ei; [|discriminate].
    intros E. eapply inv_incr; [exact H|exact E|].
    intros Hk. pose proof (i_cur _ H) as Hc. unfold cur_inv in Hc.
    destruct (cur data s) as [c'| |]; [|exact I|exact I].
    destruct Hc as [Hle [Hg [Hcfo [Hl Himg]]]].
    assert (c = c').
    { rewrite Hcfo in Ei. rewrite idx_flen in Ei; [congruence| |assumption].
      eapply txs_ok_nonempty. apply (i_txs _ H). }
    subst c'. auto.
  - intros E. eapply inv_incr; [exact H|exact E|].
    intros Hk. pose proof (i_cur _ H) as Hc. unfold cur_inv in Hc.
    destruct (cur data s) as [c'| |]; [exact I| |exact I].
    destruct Hc as [Hg [Hl Himg]]. split; [reflexivity|]. split; [assumption|].
    cbn [firstn concat]. eapply img_eq_trans; [exact Himg|apply view_nil_eq].
Qed.

Lemma inv_fail_st s c : inv s -> inv (fail_st data s c).
Proof.
  intros H. unfold fail_st.
  assert (H2 : inv (match ls_mark data s with
                    | None => set_mark data (set_wlock data (set_pc data s Idle) false) (acquire data s)
                    | Some _ => set_wlock data (set_pc data s Idle) false
                    end)).
  { destruct (ls_mark data s); [|apply inv_set_mark]; apply inv_set_wlock, inv_set_pc; exact H. }
  destruct (c && fail_clears (pc data s)); [apply inv_set_ss|]; exact H2.
Qed.

(** ** every step preserves the invariant *)
Theorem inv_step s l s' : inv s -> label_ok s l -> step s l = Some s' -> inv s'.
Proof.
  intros H Hok E. destruct l; cbn [Machine.step] in E; cbn [Machine.label_ok] in Hok.
  - eapply inv_do_commit; eauto.
  - destruct (ckpt_allowed data s j) eqn:Ea; [|discriminate]. inversion E; subst.
    apply inv_set_backfill; [|exact H].
    unfold ckpt_allowed in Ea. apply andb_prop in Ea. destruct Ea as [Ea _].
    apply andb_prop in Ea. destruct Ea as [_ Ea]. apply Nat.leb_le. exact Ea.
  - destruct (reset_enabled data s); [|discriminate]. inversion E; subst.
    apply inv_reset_trunc. exact H.
  - destruct (opened data s); [discriminate|]. destruct (pc data s); try discriminate.
    inversion E; subst. apply inv_set_openmark, inv_set_mark, inv_set_opened. exact H.
  - destruct (pc data s); try discriminate.
    + eapply inv_do_sync; eauto.
    + destruct (do_sync data lock freshrule reachrule s k) eqn:Ed; [|discriminate]. inversion E; subst.
      apply inv_set_pc. eapply inv_do_sync; eauto.
    + destruct (do_sync data lock freshrule reachrule s k) eqn:Ed; [|discriminate]. inversion E; subst.
      apply inv_set_pc. eapply inv_do_sync; eauto.
    + destruct (needs_post postcopy m rb); [|discriminate].
      destruct (do_sync data lock freshrule reachrule s k) eqn:Ed; [|discriminate]. inversion E; subst.
      apply inv_set_pc. eapply inv_do_sync; eauto.
    + destruct (do_sync data lock freshrule reachrule s k) eqn:Ed; [|discriminate]. inversion E; subst.
      apply inv_set_pc. eapply inv_do_sync; eauto.
  - destruct (pc data s); try discriminate. destruct (l0 data s) eqn:El; [discriminate|].
    destruct ((cgen data s =? gen data s) && (cfo data s =? flen data (txs data s))) eqn:Eg; [|discriminate].
    inversion E; subst. apply andb_prop in Eg. destruct Eg as [E1 E2].
    apply Nat.eqb_eq in E1, E2. apply inv_add_ack; assumption.
  - destruct (pc data s); try discriminate. destruct (phys data s); [discriminate|].
    destruct (snap data s); [discriminate|].
    destruct (opened data s); [|discriminate]. inversion E; subst. apply inv_set_pc. exact H.
  - destruct (pc data s) as [| |m0 hg0| | | | | | | | | | | |]; try discriminate.
    + destruct m0; try discriminate. inversion E; subst. apply inv_set_wlock, inv_set_pc. exact H.
    + inversion E; subst. apply inv_set_wlock, inv_set_pc. exact H.
  - destruct (pc data s) as [| |m0 hg0| |hg0| | | | | | | | | |]; try discriminate.
    + destruct (mode_eqb m0 Passive); [discriminate|]. inversion E; subst.
      apply inv_set_openmark, inv_set_mark, inv_set_pc. exact H.
    + inversion E; subst. apply inv_set_openmark, inv_set_mark, inv_set_pc. exact H.
  - destruct (pc data s) as [| | | | |m0 hg0 pre0| | | | | | | | |]; try discriminate.
    destruct (ls_mark data s); [discriminate|].
    destruct m0.
    + destruct ((backfilled data s <=? j) && (j <=? length (txs data s))) eqn:Ej; [|discriminate].
      inversion E; subst. apply inv_set_pc, inv_set_backfill; [|exact H].
      apply andb_prop in Ej. destruct Ej as [_ Ej]. apply Nat.leb_le. exact Ej.
    + destruct ((backfilled data s <=? j) && (j <=? length (txs data s))) eqn:Ej; [|discriminate].
      inversion E; subst. apply inv_set_pc, inv_set_backfill; [|exact H].
      apply andb_prop in Ej. destruct Ej as [_ Ej]. apply Nat.leb_le. exact Ej.
    + destruct ((backfilled data s <=? j) && (j <=? length (txs data s))) eqn:Ej; [|discriminate].
      inversion E; subst. apply inv_set_pc, inv_set_backfill; [|exact H].
      apply andb_prop in Ej. destruct Ej as [_ Ej]. apply Nat.leb_le. exact Ej.
    + destruct (j =? length (txs data s)) eqn:Ej; [|discriminate]. apply Nat.eqb_eq in Ej.
      inversion E; subst. apply inv_set_flag, inv_set_pc, inv_reset_trunc, inv_set_backfill; [lia|exact H].
  - destruct (pc data s); try discriminate. destruct (ls_mark data s); [discriminate|].
    inversion E; subst. apply inv_set_openmark, inv_set_mark. exact H.
  - destruct (pc data s); try discriminate. destruct (ls_mark data s); [|discriminate].
    inversion E; subst. apply inv_set_pc. exact H.
  - destruct (pc data s); try discriminate.
    + destruct (needs_post postcopy m rb); [discriminate|].
      inversion E; subst. apply inv_set_wlock, inv_set_pc. exact H.
    + inversion E; subst. apply inv_set_pc. exact H.
  - destruct (pc data s); try discriminate.
    destruct (do_commit data s t restart) eqn:Ed; [|discriminate]. inversion E; subst.
    apply inv_set_pc. eapply inv_do_commit; eauto.
  - destruct (pc data s) as [| | | | | | | | | |m0 hg0 pre0 wn0 rb0| | | |]; try discriminate.
    destruct (ck_decide m0 hg0 (gen data s) pre0 wn0 rb0); inversion E; subst; apply inv_set_pc; exact H.
  - destruct (pc data s); try discriminate. destruct (phys data s) eqn:Ep; [discriminate|].
    destruct (opened data s); [|discriminate].
    inversion E; subst. apply inv_set_wlock, inv_set_pc, inv_snapshot; [exact H|].
    rewrite Ep. discriminate.
  - destruct (pc data s); try discriminate. destruct (opened data s); [|discriminate].
    inversion E; subst. apply inv_set_closed. exact H.
  - destruct (opened data s); [|discriminate]. inversion E; subst. apply inv_set_closed. exact H.
  - destruct (pc data s); try discriminate. destruct (l0 data s); [discriminate|].
    destruct (snap data s); [discriminate|]. destruct (opened data s); [|discriminate].
    inversion E; subst. apply inv_set_snap. exact H.
  - destruct (snap data s) as [[[[p we] sc] sg]|]; [|discriminate]. destruct (phys data s); [discriminate|].
    destruct (opened data s); [|discriminate].
    match type of E with (if ?c then _ else _) = _ => destruct c end.
    { inversion E; subst. apply inv_set_snap. exact H. }
    destruct (snap_idx data (txs data s) we); [|discriminate].
    inversion E; subst. apply inv_add_snap, inv_set_snap. exact H.
  - destruct (pc data s); try discriminate. inversion E; subst. apply inv_set_pc. exact H.
  - (* LsPostSync *)
    destruct (pc data s); try discriminate.
    destruct (needs_post postcopy m rb); [|discriminate].
    destruct (do_sync data lock freshrule reachrule (strict_ss data s) k) eqn:Ed; [|discriminate].
    inversion E; subst. apply inv_set_pc. unfold merge_reached. apply inv_set_ss.
    eapply inv_do_sync; [|exact Ed]. unfold strict_ss. apply inv_set_ss. exact H.
  - (* LsCkptBusy *)
    destruct (pc data s) as [| | | | |m0 hg0 pre0| | | | | | | | |]; try discriminate.
    destruct m0; try discriminate. destruct (ls_mark data s); [discriminate|].
    destruct ((backfilled data s <=? j) && (j <=? length (txs data s))) eqn:Ej; [|discriminate].
    inversion E; subst. apply inv_set_flag, inv_set_pc, inv_set_backfill; [|exact H].
    apply andb_prop in Ej. destruct Ej as [_ Ej]. apply Nat.leb_le. exact Ej.
  - (* LsFail *)
    destruct (in_call (pc data s) && opened data s); [|discriminate]. inversion E; subst.
    apply inv_fail_st. exact H.
Qed.

Lemma init_inv s : init_ok data zero lock s -> inv s.
Proof.
  intros [H1 [H2 [H3 [H4 [H5 [H6 [H7 [H8 [H9 [H10 [H11 [H12 [H13 [H14 H15]]]]]]]]]]]]]].
  constructor; try assumption.
  - intros Hl. contradiction.
  - unfold cur_inv. rewrite H12. exact I.
  - rewrite H11. intros n im [].
Qed.

End Inv.
