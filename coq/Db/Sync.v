(** Model of /repo/db.go: sync (reader choice, page map, size, skip rule, header
    fields, page-number list of writeLTXFromDB / writeLTXFromWAL, new cursor). *)
From Coq Require Import List NArith ZArith Bool Lia.
From LS Require Import Base.Bytes Base.PMap Wal.Reader Db.Verify.
Import ListNotations.
Open Scope N_scope.

Definition pending_byte : N := 1073741824.
Definition lock_pgno (ps : N) : N := pending_byte / ps + 1.

(** page numbers lo..hi (inclusive) without the lock page *)
Fixpoint range_from (n : nat) (lo : N) : list N :=
  match n with O => [] | S n' => lo :: range_from n' (lo + 1) end.
Definition range_incl (lo hi : N) : list N :=
  if N.ltb hi lo then [] else range_from (N.to_nat (hi - lo + 1)) lo.

Fixpoint ins_sorted (k : N) (l : list N) : list N :=
  match l with
  | [] => [k]
  | h :: t => if N.ltb k h then k :: l else if N.eqb k h then l else h :: ins_sorted k t
  end.

(** writeLTXFromDB: 1..commit without the lock page *)
Definition db_pgnos (ps commit : N) : list N :=
  filter (fun p => negb (N.eqb p (lock_pgno ps))) (range_incl 1 commit).

(** writeLTXFromWAL: keys of the page map plus the growth pages prevCommit+1..commit
    that are neither the lock page nor in the map, sorted *)
Definition wal_pgnos (ps prevCommit commit : N) (m : pmap N) : list N :=
  let growth :=
    if N.ltb prevCommit commit then
      filter (fun p => negb (N.eqb p (lock_pgno ps)) && negb (existsb (N.eqb p) (pm_keys m)))
             (range_incl (prevCommit + 1) commit)
    else [] in
  fold_right ins_sorted [] (pm_keys m ++ growth).

Record l0out := mkOut {
  o_off : N; o_size : N; o_s1 : N; o_s2 : N; o_commit : N; o_pgnos : list N;
  o_snap : bool;
  o_newOffset : N;          (* lastSyncedWALOffset afterwards *)
  o_toEnd : bool;           (* syncedToWALEnd afterwards *)
  o_limited : bool }.

Inductive sres := SFile (o : l0out) | SSkip | SErr.

(** [dbpages]: size of the database file in pages *)
Definition sync (ps maxBytes dbpages : N) (info : sinfo) (w : list N) : sres :=
  let open_full := match read_header w with HdrOk r => Some (WALHeaderSize, r) | _ => None end in
  let ord :=
    if N.eqb (i_offset info) WALHeaderSize then open_full
    else match new_reader_with_offset w (i_offset info) (i_s1 info) (i_s2 info) with
         | OffOk r => Some (i_offset info, r)
         | OffPrevMismatch => open_full
         | OffErr => None
         end in
  match ord with
  | None => SErr
  | Some (off, r) =>
      let maxb := if i_snap info then 0 else maxBytes in
      let p := page_map (wal_frames (r_ps r) w) r maxb in
      let commit := if N.ltb 0 (pr_commit p) then pr_commit p else dbpages in
      if N.ltb 0 (pr_end p) && N.ltb (pr_end p) off then SErr (* assert sz >= 0 *) else
      let sz := if N.ltb 0 (pr_end p) then pr_end p - off else 0 in
      if negb (i_snap info) && N.eqb sz 0 then SSkip else
      let pgnos := if i_snap info then db_pgnos ps commit
                   else wal_pgnos ps (i_prevCommit info) commit (pr_map p) in
      SFile (mkOut off sz (r_s1 r) (r_s2 r) commit pgnos (i_snap info)
                   (off + sz) (N.eqb (off + sz) (N.of_nat (length w))) (pr_limited p))
  end.
