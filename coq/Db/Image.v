(** The abstract theory behind C01/C02: database images, SQLite's view of
    "database file + committed WAL frames", the LTX files litestream builds from
    a WAL chunk (incremental with growth fill, or full snapshot), and what
    applying them yields.  Page contents are an abstract type. *)
From Coq Require Import List NArith Bool Lia.
Import ListNotations.
Open Scope N_scope.

Section Image.
Variable data : Type.
Variable zero : data.

Record frame := mkF { f_pg : N; f_commit : N; f_data : data }.

(** content function and size in pages; only pages 1..size are meaningful *)
Definition image : Type := (N -> data) * N.
Definition img_eq (a b : image) : Prop :=
  snd a = snd b /\ forall pg, 1 <= pg -> pg <= snd a -> fst a pg = fst b pg.

(** data of the last frame of [fs] holding page [pg] *)
Fixpoint last_data (pg : N) (fs : list frame) : option data :=
  match fs with
  | [] => None
  | f :: tl =>
      match last_data pg tl with
      | Some d => Some d
      | None => if N.eqb (f_pg f) pg then Some (f_data f) else None
      end
  end.

(** database size after the committed frames [fs], starting from size [c0] *)
Fixpoint last_commit (c0 : N) (fs : list frame) : N :=
  match fs with
  | [] => c0
  | f :: tl => last_commit (if N.eqb (f_commit f) 0 then c0 else f_commit f) tl
  end.

(** SQLite's view: a page is read from the latest WAL frame holding it, else
    from the database file; the size is the last commit frame's (walFindFrame +
    the header's nPage).  [fs] must end at a commit boundary. *)
Definition view (im : image) (fs : list frame) : image :=
  (fun pg => match last_data pg fs with Some d => d | None => fst im pg end,
   last_commit (snd im) fs).

Lemma last_data_app pg a b :
  last_data pg (a ++ b) =
  match last_data pg b with Some d => Some d | None => last_data pg a end.
Proof.
  induction a as [|f tl IH]; cbn [app last_data].
  - destruct (last_data pg b); reflexivity.
  - rewrite IH. destruct (last_data pg b); reflexivity.
Qed.

Lemma last_commit_app c0 a b : last_commit c0 (a ++ b) = last_commit (last_commit c0 a) b.
Proof. revert c0. induction a as [|f tl IH]; intros c0; cbn [app last_commit]; [reflexivity|apply IH]. Qed.

(** views compose: reading a second chunk on top of the first is reading both *)
Lemma view_app_fst im a b pg : fst (view (view im a) b) pg = fst (view im (a ++ b)) pg.
Proof.
  unfold view. cbn [fst snd]. rewrite last_data_app. destruct (last_data pg b); reflexivity.
Qed.
Lemma view_app_snd im a b : snd (view (view im a) b) = snd (view im (a ++ b)).
Proof. unfold view. cbn [fst snd]. symmetry. apply last_commit_app. Qed.

Lemma view_compose_lemma im a b pg :
  fst (view (view im a) b) pg = fst (view im (a ++ b)) pg /\
  snd (view (view im a) b) = snd (view im (a ++ b)).
Proof. split; [apply view_app_fst|apply view_app_snd]. Qed.

(** * Checkpointing (backfill) does not change the view *)

(** the database file after the first [j] frames have been copied into it *)
Definition backfill (d : N -> data) (fs : list frame) (j : nat) : N -> data :=
  fun pg => match last_data pg (firstn j fs) with Some x => x | None => d pg end.

Lemma last_data_firstn_none pg fs j :
  last_data pg fs = None -> last_data pg (firstn j fs) = None.
Proof.
  revert j. induction fs as [|f tl IH]; intros j; destruct j; cbn [firstn last_data]; try reflexivity.
  destruct (last_data pg tl) eqn:E; [discriminate|].
  destruct (N.eqb (f_pg f) pg) eqn:E2; [discriminate|]. intros _.
  rewrite (IH j eq_refl). reflexivity.
Qed.

Theorem backfill_preserves_view d sz fs j pg :
  fst (view (backfill d fs j, sz) fs) pg = fst (view (d, sz) fs) pg.
Proof.
  unfold view, backfill. cbn [fst].
  destruct (last_data pg fs) eqn:E; [reflexivity|].
  rewrite (last_data_firstn_none _ _ j E). reflexivity.
Qed.

(** * LTX files built from a WAL chunk *)

(** an LTX file: page lookup, commit (new size) *)
Record ltx := mkLtx { x_page : N -> option data; x_commit : N }.

(** ltx application (Decoder / applyLTXFile / Compactor semantics): the new size
    is the file's commit; a page comes from the file if present, else from the
    old image if within its size, else zero; the lock page is always zero *)
Definition apply (lock : N) (im : image) (x : ltx) : image :=
  (fun pg => if N.eqb pg lock then zero else
             match x_page x pg with
             | Some d => d
             | None => if N.leb pg (snd im) then fst im pg else zero
             end,
   x_commit x).

(** the chunk's page map, as wal_reader.go:pageMap returns it (C09): latest
    frame per page, trimmed to the chunk's final commit *)
Definition chunk_page (chunk : list frame) (commit pg : N) : option data :=
  if N.leb pg commit then last_data pg chunk else None.

(** writeLTXFromWAL: WAL pages plus growth pages prevCommit+1..commit read from
    the database file [dbf], never the lock page *)
Definition ltx_incremental (lock : N) (dbf : N -> data) (prevCommit : N) (chunk : list frame) : ltx :=
  let commit := last_commit prevCommit chunk in
  mkLtx (fun pg =>
           match chunk_page chunk commit pg with
           | Some d => Some d
           | None => if N.ltb prevCommit pg && N.leb pg commit && negb (N.eqb pg lock)
                     then Some (dbf pg) else None
           end) commit.

(** writeLTXFromDB: every page 1..commit except the lock page, from the WAL map else the database file *)
Definition ltx_snapshot (lock : N) (dbf : N -> data) (dbsize : N) (wal : list frame) : ltx :=
  let commit := last_commit dbsize wal in
  mkLtx (fun pg =>
           if N.leb 1 pg && N.leb pg commit && negb (N.eqb pg lock) then
             match chunk_page wal commit pg with Some d => Some d | None => Some (dbf pg) end
           else None) commit.

(** an image whose lock page is zero (SQLite never stores anything there) *)
Definition lock_zero (lock : N) (im : image) : Prop := fst im lock = zero.

(** ** One incremental sync step is correct

    [base]: the database file when the live WAL generation started, [synced]:
    the committed frames already replicated, [chunk]: the committed frames this
    sync copies (C09/C02: always whole transactions), [dbf]: the database file
    as litestream reads it now.  The growth hypothesis says what the growth fill
    needs: a page that the chunk grows the database over without writing it
    holds, in the database file, what SQLite's view holds. *)
Theorem sync_incremental_correct lock base synced chunk dbf :
  let before := view base synced in
  let after := view base (synced ++ chunk) in
  (forall pg, snd before < pg -> pg <= snd after -> pg <> lock ->
              last_data pg chunk = None -> dbf pg = fst after pg) ->
  fst after lock = zero ->
  img_eq (apply lock before (ltx_incremental lock dbf (snd before) chunk)) after.
Proof.
  cbn zeta. intros Hgrow Hlock.
  set (before := view base synced). set (after := view base (synced ++ chunk)).
  assert (Hsz : last_commit (snd before) chunk = snd after).
  { unfold before, after, view. cbn [snd]. symmetry. apply last_commit_app. }
  split.
  - cbn [apply snd ltx_incremental x_commit]. exact Hsz.
  - intros pg H1 Hle. cbn [apply snd fst ltx_incremental x_commit x_page] in *.
    rewrite Hsz in *.
    destruct (N.eqb pg lock) eqn:El.
    + apply N.eqb_eq in El. subst pg. symmetry. exact Hlock.
    + unfold chunk_page. apply N.leb_le in Hle. rewrite Hle.
      assert (Hafter : fst after pg = match last_data pg chunk with Some d => d | None => fst before pg end).
      { unfold after, before, view. cbn [fst]. rewrite last_data_app.
        destruct (last_data pg chunk); reflexivity. }
      destruct (last_data pg chunk) eqn:Ec.
      * rewrite Hafter. reflexivity.
      * cbn [negb andb]. destruct (N.ltb (snd before) pg) eqn:Eg; cbn [andb].
        -- apply N.ltb_lt in Eg. apply N.eqb_neq in El.
           apply Hgrow; try assumption. apply N.leb_le. exact Hle.
        -- apply N.ltb_ge in Eg. apply N.leb_le in Eg. rewrite Eg. rewrite Hafter. reflexivity.
Qed.

(** ** A snapshot step is correct whatever came before, provided the WAL is read
    from its start and the database file is the generation's base *)
Theorem sync_snapshot_correct lock dbf dbsize wal any :
  let after := view (dbf, dbsize) wal in
  fst after lock = zero ->
  img_eq (apply lock any (ltx_snapshot lock dbf dbsize wal)) after.
Proof.
  cbn zeta. intros Hlock. split.
  - reflexivity.
  - intros pg H1 Hle. cbn [apply snd fst ltx_snapshot x_commit x_page view] in *.
    destruct (N.eqb pg lock) eqn:El.
    + apply N.eqb_eq in El. subst pg. symmetry. exact Hlock.
    + apply N.leb_le in H1, Hle. rewrite H1, Hle. cbn [andb negb].
      unfold chunk_page. rewrite Hle. destruct (last_data pg wal); reflexivity.
Qed.

(** the same holds when the database file has meanwhile been backfilled from the
    very frames being read (litestream's read mark allows backfill only up to
    frames it will overlay anyway) *)
Corollary sync_snapshot_correct_backfilled lock dbf dbsize wal j any :
  let after := view (dbf, dbsize) wal in
  fst after lock = zero ->
  img_eq (apply lock any (ltx_snapshot lock (backfill dbf wal j) dbsize wal)) after.
Proof.
  cbn zeta. intros Hlock.
  pose proof (sync_snapshot_correct lock (backfill dbf wal j) dbsize wal any) as H.
  cbn zeta in H.
  assert (Hl : fst (view (backfill dbf wal j, dbsize) wal) lock = zero)
    by (rewrite backfill_preserves_view; exact Hlock).
  destruct (H Hl) as [H1 H2]. split; [exact H1|].
  intros pg Hp1 Hp2. rewrite (H2 pg Hp1 Hp2). apply backfill_preserves_view.
Qed.

(** ** F9: a snapshot bounded at an earlier position is wrong once the database
    file has been backfilled beyond that position *)
Theorem snapshot_bounded_before_backfill_refuted (d1 d2 : data) :
  d1 <> d2 ->
  exists lock dbf dbsize wal k j any,
    (k < j)%nat /\
    let bounded := firstn k wal in
    ~ img_eq (apply lock any (ltx_snapshot lock (backfill dbf wal j) dbsize bounded))
             (view (dbf, dbsize) bounded).
Proof.
  intros Hd.
  exists 1000, (fun _ => d1), 2,
         [mkF 1 2 d1; mkF 2 2 d2], 1%nat, 2%nat, (fun _ => d1, 0).
  split; [lia|]. cbn zeta. intros [_ H].
  specialize (H 2 ltac:(lia) ltac:(cbn; lia)).
  cbn in H. apply Hd. symmetry. exact H.
Qed.

(** * Chains: restoring the level-0 files of a sequence of syncs *)

(** one sync record: the chunk it copied and the LTX file it wrote *)
Definition restore (lock : N) (files : list ltx) : image :=
  fold_left (apply lock) files (fun _ => zero, 0).

Lemma apply_img_eq lock a b x : img_eq a b -> img_eq (apply lock a x) (apply lock b x).
Proof.
  intros [Hs Hp]. split; [reflexivity|].
  intros pg H1 H2. cbn [apply fst snd] in *.
  destruct (N.eqb pg lock); [reflexivity|].
  destruct (x_page x pg); [reflexivity|].
  rewrite <- Hs. destruct (N.leb pg (snd a)) eqn:E; [|reflexivity].
  apply N.leb_le in E. apply Hp; assumption.
Qed.

Lemma img_eq_trans a b c : img_eq a b -> img_eq b c -> img_eq a c.
Proof.
  intros [H1 H2] [H3 H4]. split; [congruence|].
  intros pg Hp Hq. rewrite H2 by assumption. apply H4; [assumption|]. rewrite <- H1. assumption.
Qed.

Lemma img_eq_refl a : img_eq a a.
Proof. split; [reflexivity|auto]. Qed.

(** a chain of syncs over one WAL generation: a snapshot of the first chunk
    followed by incremental files for consecutive chunks restores to SQLite's
    view of everything copied (induction over the number of syncs) *)
Theorem chain_restores lock dbf dbsize first chunks :
  (forall done chunk rest, chunks = done ++ chunk :: rest ->
     let synced := first ++ concat done in
     let before := view (dbf, dbsize) synced in
     let after := view (dbf, dbsize) (synced ++ chunk) in
     (forall pg, snd before < pg -> pg <= snd after -> pg <> lock ->
                 last_data pg chunk = None -> dbf pg = fst after pg) /\
     fst after lock = zero) ->
  fst (view (dbf, dbsize) first) lock = zero ->
  let files :=
    ltx_snapshot lock dbf dbsize first ::
    (fix go (synced : list frame) (cs : list (list frame)) : list ltx :=
       match cs with
       | [] => []
       | c :: tl => ltx_incremental lock dbf (snd (view (dbf, dbsize) synced)) c :: go (synced ++ c) tl
       end) first chunks in
  img_eq (restore lock files) (view (dbf, dbsize) (first ++ concat chunks)).
Proof.
  intros Hall Hfirst. cbn zeta. unfold restore. cbn [fold_left].
  pose proof (sync_snapshot_correct lock dbf dbsize first (fun _ => zero, 0) Hfirst) as H0.
  cbn zeta in H0.
  set (start := apply lock (fun _ : N => zero, 0) (ltx_snapshot lock dbf dbsize first)) in *.
  clearbody start.
  assert (G : forall done cs cur,
            chunks = done ++ cs ->
            img_eq cur (view (dbf, dbsize) (first ++ concat done)) ->
            img_eq (fold_left (apply lock)
                      ((fix go (synced : list frame) (cs : list (list frame)) : list ltx :=
                          match cs with
                          | [] => []
                          | c :: tl => ltx_incremental lock dbf (snd (view (dbf, dbsize) synced)) c :: go (synced ++ c) tl
                          end) (first ++ concat done) cs) cur)
                   (view (dbf, dbsize) (first ++ concat (done ++ cs)))).
  { intros done cs. revert done. induction cs as [|c tl IH]; intros done cur Hc Hcur.
    - cbn [fold_left]. rewrite app_nil_r. exact Hcur.
    - cbn [fold_left].
      destruct (Hall done c tl Hc) as [Hg Hl]. cbn zeta in Hg, Hl.
      pose proof (sync_incremental_correct lock (dbf, dbsize) (first ++ concat done) c dbf Hg Hl) as Hs.
      cbn zeta in Hs.
      assert (Hstep : img_eq (apply lock cur (ltx_incremental lock dbf (snd (view (dbf, dbsize) (first ++ concat done))) c))
                             (view (dbf, dbsize) ((first ++ concat done) ++ c))).
      { eapply img_eq_trans; [apply apply_img_eq; exact Hcur|exact Hs]. }
      specialize (IH (done ++ [c])
                     (apply lock cur (ltx_incremental lock dbf (snd (view (dbf, dbsize) (first ++ concat done))) c))).
      rewrite concat_app in IH. cbn [concat] in IH. rewrite app_nil_r in IH.
      rewrite <- !app_assoc in IH. cbn [app] in IH.
      rewrite <- app_assoc in Hstep.
      specialize (IH Hc Hstep).
      rewrite <- app_assoc. exact IH. }
  specialize (G [] chunks start eq_refl).
  cbn [concat app] in G. rewrite app_nil_r in G. apply G. exact H0.
Qed.

End Image.
