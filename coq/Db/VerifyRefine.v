(** Refinement: the byte-level model of verifyWithExecutor ([Db.Verify.verify], the function
    compared with db.go on every observed sync step) takes, on EVERY input, the decision of
    the abstract [Machine.verify] — the function the whole-history theorems of Db/Machine*.v
    are about — on any machine state that abstracts that input.

    The abstraction relation ([Section Refine]'s hypotheses): the -wal file is a 32-byte
    header followed by whole frames; salts are mapped to generation ids by a function that
    is injective on the salts that occur (header, last level-0 file, frame slots); byte
    offsets are frame counts; the flags are the flags.  One hypothesis is an assumption
    about SQLite, not about litestream ([H_lpm]): a frame slot in front of the cursor that
    carries the salts of the last level-0 file IS the frame that file copied (SQLite never
    rewrites a frame of a generation without changing the salts), so lastPageMatch's
    content comparison succeeds exactly when its salt comparison does; the machine models
    lastPageMatch by the salt comparison alone.

    Until this file the two were only compared on observed states (entry
    machine_verify_agrees, still evaluated on every run; [gen_id_injective] shows that the
    abstraction the entry computes satisfies the injectivity hypothesis). *)
From Coq Require Import List NArith ZArith Bool Lia Arith.
From LS Require Import Base.Sx Base.Bytes Base.PMap Wal.Reader Db.Image Db.Machine Db.Verify Db.MachineEntry.
Import ListNotations.

(** * uniform concatenations *)
Lemma length_concat_uniform (n : nat) (fr : list (list N)) :
  Forall (fun f => length f = n) fr -> length (concat fr) = (n * length fr)%nat.
Proof.
  induction 1 as [|f tl Hf _ IH]; cbn [concat length]; [lia|].
  rewrite app_length, IH, Hf. lia.
Qed.

Lemma nth_concat_uniform (n : nat) (fr : list (list N)) : forall k j d,
  Forall (fun f => length f = n) fr -> (j < n)%nat ->
  nth (n * k + j) (concat fr) d = nth j (nth k fr []) d.
Proof.
  induction fr as [|f tl IH]; intros k j d HF Hj.
  - cbn [concat]. destruct k; destruct j; cbn; try reflexivity; destruct (n * _ + _)%nat; reflexivity.
  - inversion HF as [|? ? Hf HF']; subst. cbn [concat]. destruct k as [|k].
    + rewrite Nat.mul_0_r, Nat.add_0_l. cbn [nth]. apply app_nth1. lia.
    + replace (length f * S k + j)%nat with (length f + (length f * k + j))%nat by lia.
      rewrite app_nth2_plus. cbn [nth]. apply IH; assumption.
Qed.

Lemma be32_app_l (a b : list N) (j : nat) : (j + 3 < length a)%nat -> be32 (a ++ b) j = be32 a j.
Proof.
  intros H. unfold be32, nthb. rewrite !app_nth1 by lia. reflexivity.
Qed.

Lemma be32_frame (n : nat) (hd : list N) (fr : list (list N)) (k j : nat) :
  Forall (fun f => length f = n) fr -> (j + 3 < n)%nat ->
  be32 (hd ++ concat fr) (length hd + n * k + j) = be32 (nth k fr []) j.
Proof.
  intros HF Hj. unfold be32, nthb.
  replace (length hd + n * k + j + 1)%nat with (length hd + (n * k + (j + 1)))%nat by lia.
  replace (length hd + n * k + j + 2)%nat with (length hd + (n * k + (j + 2)))%nat by lia.
  replace (length hd + n * k + j + 3)%nat with (length hd + (n * k + (j + 3)))%nat by lia.
  replace (length hd + n * k + j)%nat with (length hd + (n * k + j))%nat by lia.
  rewrite !app_nth2_plus.
  rewrite !(nth_concat_uniform n fr) by (assumption || lia). reflexivity.
Qed.

(** * salts as generation ids *)
Definition fsalts (f : list N) : N * N := (be32 f 8, be32 f 12).

Lemma pair_eqb_eq p q : pair_eqb p q = true <-> p = q.
Proof.
  unfold pair_eqb. destruct p as [a b], q as [c d]. cbn [fst snd].
  rewrite andb_true_iff, !N.eqb_eq. split; [intros [-> ->]; reflexivity | intros E; inversion E; auto].
Qed.

(** [su]: [Machine.salts_until] on the list of generation ids *)
Fixpoint su (p : list nat) (until : nat) : list nat :=
  match p with
  | [] => []
  | g :: tl => if Nat.eqb g until then [g] else g :: su tl until
  end.

Lemma salts_until_su (data : Type) (p : list (nat * frame data)) u :
  salts_until data p u = su (map fst p) u.
Proof.
  induction p as [|[g x] tl IH]; cbn [salts_until su map fst]; [reflexivity|].
  destruct (Nat.eqb g u); [reflexivity|]. rewrite IH. reflexivity.
Qed.

Lemma existsb_dedup_step (U : N * N -> bool) (acc : list (N * N)) (p : N * N) :
  existsb U (if existsb (pair_eqb p) acc then acc else acc ++ [p]) = existsb U acc || U p.
Proof.
  destruct (existsb (pair_eqb p) acc) eqn:E.
  - destruct (U p) eqn:Up; [|rewrite orb_false_r; reflexivity].
    rewrite orb_true_r. apply existsb_exists in E. destruct E as [q [Hq Eq]].
    apply pair_eqb_eq in Eq. subst q. apply existsb_exists. exists p. auto.
  - rewrite existsb_app. cbn [existsb]. rewrite orb_false_r. reflexivity.
Qed.

Lemma option_map_nth_error {A B} (f : A -> B) (l : list A) : forall i,
  option_map f (nth_error l i) = nth_error (map f l) i.
Proof. induction l as [|x tl IH]; intros [|i]; cbn; auto. Qed.

Section Refine.
Variable data : Type.
Variable ps : N.
Variables (hd : list N) (frames : list (list N)).
Variable gam : N * N -> nat.
Variable ids : list (N * N).
Variables (pos : N) (last : l0hdr) (toEnd : bool) (reachedN : N) (fdig : option N).
Variable s : state data.

Let fszN : N := frame_size ps.
Let fsz : nat := N.to_nat fszN.
Let w : list N := hd ++ concat frames.
Let hs : N * N := (be32 w 16, be32 w 20).
Let ls : N * N := (l_s1 last, l_s2 last).

Hypothesis H_hd : length hd = 32%nat.
Hypothesis H_fr : Forall (fun f => length f = fsz) frames.
Hypothesis H_inj : forall p q, In p ids -> In q ids -> gam p = gam q -> p = q.
Hypothesis H_hs : In hs ids.
Hypothesis H_ls : In ls ids.
Hypothesis H_fs : Forall (fun f => In (fsalts f) ids) frames.
(** the machine state abstracts the bytes *)
Hypothesis H_phys : map fst (phys data s) = map (fun f => gam (fsalts f)) frames.
Hypothesis H_gen : gen data s = gam hs.
Hypothesis H_cgen : cgen data s = gam ls.
Hypothesis H_pos : N.eqb pos 0 = match l0 data s with [] => true | _ :: _ => false end.
Hypothesis H_cfo : (l_off last + l_size last = 32 + fszN * N.of_nat (cfo data s))%N.
Hypothesis H_flag : flag data s = toEnd.
Hypothesis H_reached : reached data s = negb (N.eqb reachedN 0).
(** the page size of the header is the page size in use (else detectFullCheckpoint walks
    the file with another stride; the reader rejects such a file before) *)
Hypothesis H_ps : forall r, read_header w = HdrOk r -> r_ps r = ps.
(** SQLite: a slot in front of the cursor with the last file's salts is the copied frame *)
Hypothesis H_lpm : forall f fd,
  nth_error frames (cfo data s - 1) = Some f -> fsalts f = ls -> fdig = Some fd ->
  existsb (fun pd => N.eqb (be32 f 0) (fst pd) && N.eqb fd (snd pd)) (l_pages last) = true.

Lemma fsz_ge : (24 <= fsz)%nat.
Proof. unfold fsz, fszN, frame_size, WALFrameHeaderSize. lia. Qed.

Lemma fszN_nat : fszN = N.of_nat fsz.
Proof. unfold fsz. rewrite N2Nat.id. reflexivity. Qed.

Lemma len_phys : length (phys data s) = length frames.
Proof.
  transitivity (length (map fst (phys data s))); [symmetry; apply map_length|].
  rewrite H_phys. apply map_length.
Qed.

Lemma len_w : N.of_nat (length w) = (32 + fszN * N.of_nat (length frames))%N.
Proof.
  unfold w. rewrite app_length, H_hd, (length_concat_uniform fsz) by exact H_fr.
  rewrite fszN_nat. lia.
Qed.

Lemma gam_eqb p q : In p ids -> In q ids -> pair_eqb p q = Nat.eqb (gam p) (gam q).
Proof.
  intros Hp Hq. destruct (pair_eqb p q) eqn:E.
  - apply pair_eqb_eq in E. subst q. symmetry. apply Nat.eqb_refl.
  - symmetry. apply Nat.eqb_neq. intros G. apply (H_inj p q Hp Hq) in G.
    apply pair_eqb_eq in G. congruence.
Qed.

Lemma salt_match :
  (N.eqb (be32 w 16) (l_s1 last) && N.eqb (be32 w 20) (l_s2 last)) = Nat.eqb (cgen data s) (gen data s).
Proof.
  change (pair_eqb hs ls = Nat.eqb (cgen data s) (gen data s)).
  rewrite (gam_eqb hs ls H_hs H_ls), H_gen, H_cgen. apply Nat.eqb_sym.
Qed.

(** detectFullCheckpoint = Machine.detect_full *)
Definition unk (p : N * N) : bool := negb (pair_eqb p hs) && negb (pair_eqb p ls).
Definition unk' (g : nat) : bool := negb (Nat.eqb g (gam hs)) && negb (Nat.eqb g (gam ls)).

Lemma unk_gam p : In p ids -> unk p = unk' (gam p).
Proof.
  intros Hp. unfold unk, unk'. rewrite (gam_eqb p hs Hp H_hs), (gam_eqb p ls Hp H_ls). reflexivity.
Qed.

Lemma salts_loop_su : forall (fr : list (list N)) (fuel : nat) (acc : list (N * N)),
  Forall (fun f => length f = fsz) fr -> Forall (fun f => In (fsalts f) ids) fr ->
  (length fr < fuel)%nat ->
  existsb unk (salts_loop fuel fsz (concat fr) (fst ls) (snd ls) acc) =
  existsb unk acc || existsb unk' (su (map (fun f => gam (fsalts f)) fr) (gam ls)).
Proof.
  induction fr as [|f tl IH]; intros fuel acc HF HI Hfu.
  - cbn [concat map su existsb]. rewrite orb_false_r.
    destruct fuel; cbn [salts_loop]; reflexivity.
  - inversion HF as [|? ? Hf HF']; subst. inversion HI as [|? ? Hi HI']; subst.
    destruct fuel as [|fu]; [cbn in Hfu; lia|].
    cbn [concat salts_loop].
    pose proof fsz_ge as G.
    replace (Nat.ltb (length (f ++ concat tl)) 24) with false
      by (symmetry; apply Nat.ltb_ge; rewrite app_length; lia).
    rewrite !(be32_app_l f) by lia.
    change (be32 f 8, be32 f 12) with (fsalts f).
    change (N.eqb (be32 f 8) (fst ls) && N.eqb (be32 f 12) (snd ls)) with (pair_eqb (fsalts f) ls).
    rewrite (gam_eqb (fsalts f) ls Hi H_ls).
    cbn [map su].
    destruct (Nat.eqb (gam (fsalts f)) (gam ls)) eqn:E.
    + rewrite existsb_dedup_step. cbn [existsb]. rewrite orb_false_r, (unk_gam _ Hi). reflexivity.
    + replace (skipn fsz (f ++ concat tl)) with (concat tl)
        by (rewrite <- Hf, skipn_app, skipn_all, Nat.sub_diag; reflexivity).
      rewrite IH by (try assumption; cbn in Hfu; lia).
      rewrite existsb_dedup_step. cbn [existsb]. rewrite (unk_gam _ Hi), orb_assoc. reflexivity.
Qed.

Lemma detect_full_refines b :
  detect_full_checkpoint w (be32 w 16) (be32 w 20) (l_s1 last) (l_s2 last) = Some b ->
  b = detect_full data (phys data s) (gen data s) (cgen data s).
Proof.
  unfold detect_full_checkpoint. destruct (read_header w) as [r| |] eqn:ER; try discriminate.
  intros E. injection E as <-. rewrite (H_ps r eq_refl).
  unfold frame_salts_until, detect_full. rewrite salts_until_su, H_phys, H_gen, H_cgen.
  replace (skipn 32 w) with (concat frames)
    by (unfold w; rewrite <- H_hd, skipn_app, skipn_all, Nat.sub_diag; reflexivity).
  change (N.to_nat (frame_size ps)) with fsz.
  pose proof (salts_loop_su frames (length w) [] H_fr H_fs) as L.
  cbn [existsb orb] in L. unfold unk, unk', ls, hs in L. cbn [fst snd] in L.
  apply L. unfold w. rewrite app_length, H_hd, (length_concat_uniform fsz) by exact H_fr.
  pose proof fsz_ge. nia.
Qed.

Theorem verify_refines_machine_lemma info :
  Verify.verify ps pos last toEnd reachedN (Some w) fdig = VOk info ->
  verify_code pos last info = vans_code (Machine.verify data true true s).
Proof.
  unfold Verify.verify, verify_gen, Machine.verify, verify_code.
  rewrite H_pos. destruct (l0 data s) as [|x0 l0']; [intros E; injection E as <-; reflexivity|].
  pose proof len_w as LW. pose proof len_phys as LP. pose proof fsz_ge as G. pose proof fszN_nat as FN.
  set (off := (l_off last + l_size last)%N) in *.
  set (c := cfo data s) in *.
  change (ps + WALFrameHeaderSize)%N with fszN.
  (* wsz < off *)
  replace (N.ltb (N.of_nat (length w)) off) with (Nat.ltb (length (phys data s)) c)
    by (rewrite LW, H_cfo, LP; destruct (Nat.ltb_spec (length frames) c); symmetry;
        [apply N.ltb_lt | apply N.ltb_ge]; nia).
  destruct (Nat.ltb_spec (length (phys data s)) c) as [Hlt|Hge].
  { rewrite H_flag. destruct toEnd.
    - destruct (N.ltb (N.of_nat (length w)) WALHeaderSize); [discriminate|].
      intros E; injection E as <-. cbn [i_snap i_offset i_clear i_s1 i_s2].
      replace (N.eqb WALHeaderSize off) with false; [reflexivity|].
      symmetry. apply N.eqb_neq. unfold WALHeaderSize. rewrite H_cfo. nia.
    - intros E; injection E as <-. reflexivity. }
  destruct (N.ltb (N.of_nat (length w)) WALHeaderSize); [discriminate|].
  rewrite salt_match.
  (* off = 32 *)
  replace (N.eqb off WALHeaderSize) with (Nat.eqb c 0)
    by (unfold WALHeaderSize; rewrite H_cfo; destruct (Nat.eqb_spec c 0); symmetry;
        [apply N.eqb_eq | apply N.eqb_neq]; nia).
  destruct (Nat.eqb_spec c 0) as [C0|C0].
  { destruct (Nat.eqb (cgen data s) (gen data s)); intros E; injection E as <-;
      cbn [i_snap i_offset i_clear i_s1 i_s2]; [|reflexivity].
    rewrite N.eqb_refl. unfold pair_eqb. cbn [fst snd]. rewrite !N.eqb_refl. reflexivity. }
  replace (N.ltb off fszN) with false
    by (symmetry; apply N.ltb_ge; rewrite H_cfo; nia).
  replace (N.eqb (off - fszN) WALHeaderSize) with (Nat.eqb c 1)
    by (unfold WALHeaderSize; rewrite H_cfo; destruct (Nat.eqb_spec c 1); symmetry;
        [apply N.eqb_eq | apply N.eqb_neq]; nia).
  destruct (Nat.eqb_spec c 1) as [C1|C1].
  { destruct (Nat.eqb (cgen data s) (gen data s)); intros E; injection E as <-;
      cbn [i_snap i_offset i_clear i_s1 i_s2]; [|reflexivity].
    rewrite N.eqb_refl. unfold pair_eqb. cbn [fst snd]. rewrite !N.eqb_refl. reflexivity. }
  replace (N.ltb (off - fszN) WALHeaderSize) with false
    by (symmetry; apply N.ltb_ge; unfold WALHeaderSize; rewrite H_cfo; nia).
  destruct fdig as [fd|] eqn:EFD; [|discriminate].
  (* the frame in front of the cursor *)
  assert (CI : (c - 1 < length frames)%nat) by lia.
  destruct (nth_error frames (c - 1)) as [f|] eqn:EF; [|apply nth_error_None in EF; lia].
  assert (NF : nth (c - 1) frames [] = f) by (apply nth_error_nth; exact EF).
  assert (IDX : N.to_nat (off - fszN) = (length hd + fsz * (c - 1) + 0)%nat)
    by (rewrite H_cfo, H_hd; nia).
  assert (B0 : be32 w (N.to_nat (off - fszN)) = be32 f 0)
    by (rewrite IDX; unfold w; rewrite (be32_frame fsz) by (assumption || lia); rewrite NF; reflexivity).
  assert (B8 : be32 w (N.to_nat (off - fszN) + 8) = be32 f 8).
  { replace (N.to_nat (off - fszN) + 8)%nat with (length hd + fsz * (c - 1) + 8)%nat by lia.
    unfold w; rewrite (be32_frame fsz) by (assumption || lia); rewrite NF; reflexivity. }
  assert (B12 : be32 w (N.to_nat (off - fszN) + 12) = be32 f 12).
  { replace (N.to_nat (off - fszN) + 12)%nat with (length hd + fsz * (c - 1) + 12)%nat by lia.
    unfold w; rewrite (be32_frame fsz) by (assumption || lia); rewrite NF; reflexivity. }
  rewrite B0, B8, B12.
  assert (FI : In (fsalts f) ids).
  { rewrite Forall_forall in H_fs. apply H_fs. eapply nth_error_In; exact EF. }
  assert (TAG : tag_at data (phys data s) (c - 1) = Some (gam (fsalts f))).
  { unfold tag_at. rewrite option_map_nth_error, H_phys.
    rewrite (map_nth_error _ _ _ EF). reflexivity. }
  rewrite TAG.
  (* lastPageMatch = the salt comparison *)
  assert (LPM : last_page_match last (be32 f 0) (be32 f 8) (be32 f 12) fd =
                Nat.eqb (gam (fsalts f)) (cgen data s)).
  { unfold last_page_match.
    change (N.eqb (be32 f 8) (l_s1 last) && N.eqb (be32 f 12) (l_s2 last)) with (pair_eqb (fsalts f) ls).
    rewrite (gam_eqb _ _ FI H_ls), H_cgen.
    destruct (Nat.eqb_spec (gam (fsalts f)) (gam ls)) as [Eg|Eg]; cbn [negb]; [|reflexivity].
    apply (H_inj _ _ FI H_ls) in Eg. apply (H_lpm f fd); auto. }
  rewrite LPM.
  destruct (Nat.eqb (gam (fsalts f)) (cgen data s)); cbn [negb];
    [|intros E; injection E as <-; reflexivity].
  destruct (Nat.eqb (cgen data s) (gen data s)) eqn:SM; cbn [negb].
  { intros E; injection E as <-. cbn [i_snap i_offset i_clear i_s1 i_s2].
    rewrite N.eqb_refl. unfold pair_eqb. cbn [fst snd]. rewrite !N.eqb_refl. reflexivity. }
  cbn [andb]. rewrite H_reached, negb_involutive.
  destruct (N.eqb reachedN 0); [intros E; injection E as <-; reflexivity|].
  destruct (detect_full_checkpoint w (be32 w 16) (be32 w 20) (l_s1 last) (l_s2 last)) as [b|] eqn:ED;
    [|discriminate].
  apply detect_full_refines in ED. rewrite <- ED.
  destruct b; intros E; injection E as <-; cbn [i_snap i_offset i_clear i_s1 i_s2]; [reflexivity|].
  (* incremental from the header: not the cursor with the last file's salts *)
  replace (pair_eqb (be32 w 16, be32 w 20) (l_s1 last, l_s2 last)) with false.
  - rewrite andb_false_r. reflexivity.
  - symmetry. change (pair_eqb hs ls = false). rewrite (gam_eqb hs ls H_hs H_ls), <- H_gen, <- H_cgen.
    rewrite Nat.eqb_sym. exact SM.
Qed.

End Refine.

(** the abstraction computed by the entry machine_verify_agrees is injective on its id list *)
Lemma gen_id_go_ge (p : N * N) : forall l i,
  (i <= (fix go (l : list (N * N)) (i : nat) : nat :=
           match l with [] => i | q :: tl => if pair_eqb p q then i else go tl (S i) end) l i)%nat.
Proof.
  induction l as [|q tl IH]; intros i; [lia|]. destruct (pair_eqb p q); [lia|].
  specialize (IH (S i)). lia.
Qed.

Lemma gen_id_injective (ids : list (N * N)) p q :
  In p ids -> In q ids -> gen_id ids p = gen_id ids q -> p = q.
Proof.
  unfold gen_id. generalize O.
  induction ids as [|x tl IH]; intros i Hp Hq E; [destruct Hp|].
  destruct (pair_eqb p x) eqn:Ep; destruct (pair_eqb q x) eqn:Eq.
  - apply pair_eqb_eq in Ep, Eq. congruence.
  - pose proof (gen_id_go_ge q tl (S i)). lia.
  - pose proof (gen_id_go_ge p tl (S i)). lia.
  - destruct Hp as [Hp|Hp]; [subst x; rewrite (proj2 (pair_eqb_eq p p) eq_refl) in Ep; discriminate|].
    destruct Hq as [Hq|Hq]; [subst x; rewrite (proj2 (pair_eqb_eq q q) eq_refl) in Eq; discriminate|].
    apply (IH (S i)); assumption.
Qed.

(** * Non-vacuity: the hypotheses are met by the byte-exact WAL of Db/Witness.v (a restarted WAL:
    new header, one frame of the new generation, two stale frames of the old one, the cursor
    after the first stale frame) and a machine state with three slots of generations 0, 1, 1;
    the session has reached the WAL end before, so both sides continue incrementally from the
    new header (code 2) *)
From LS Require Import Db.Witness.

Definition ex_hd : list N := firstn 32 f2_wal.
Definition ex_frames : list (list N) := wal_frames 512 f2_wal.
Definition ex_ids : list (N * N) := [(101, 999); (100, 200)]%N.
Definition ex_state : state N :=
  mkSt N (fun _ => 0%N) 1 0 [] 0 1
       [(0%nat, mkF N 1 1 0%N); (1%nat, mkF N 1 1 0%N); (1%nat, mkF N 1 1 0%N)]
       (Some 1%nat) false true [mkLtx N (fun _ => None) 1] 1 2 0
       (mkSess false 0 false None true) Idle Lost [] [].

Lemma ex_wal_split : f2_wal = ex_hd ++ concat ex_frames.
Proof. vm_compute. reflexivity. Qed.

Example verify_refines_machine_nonvacuous :
  exists info,
    Verify.verify 512 2 f2_last false 1 (Some (ex_hd ++ concat ex_frames)) (Some 7%N) = VOk info /\
    verify_code 2 f2_last info = vans_code (Machine.verify N true true ex_state) /\
    verify_code 2 f2_last info = 2%N.
Proof.
  exists (mkInfo 32 101 999 2 false false).
  assert (E : Verify.verify 512 2 f2_last false 1 (Some (ex_hd ++ concat ex_frames)) (Some 7%N)
              = VOk (mkInfo 32 101 999 2 false false)) by (vm_compute; reflexivity).
  split; [exact E|]. split; [|vm_compute; reflexivity].
  apply (verify_refines_machine_lemma N 512 ex_hd ex_frames (gen_id ex_ids) ex_ids 2 f2_last false 1
                                      (Some 7%N) ex_state); try exact E.
  - vm_compute. reflexivity.
  - vm_compute. repeat constructor.
  - intros p q. apply gen_id_injective.
  - vm_compute. auto.
  - vm_compute. auto.
  - unfold ex_frames. vm_compute. repeat (apply Forall_cons; [auto|]). apply Forall_nil.
  - vm_compute. reflexivity.
  - vm_compute. reflexivity.
  - vm_compute. reflexivity.
  - vm_compute. reflexivity.
  - vm_compute. reflexivity.
  - reflexivity.
  - reflexivity.
  - rewrite <- ex_wal_split. intros r. vm_compute. intros H. injection H as <-. reflexivity.
  - intros f fd Hn _ Hd. injection Hd as <-.
    assert (F : nth_error ex_frames 1 = Some f) by exact Hn.
    vm_compute in F. injection F as <-. vm_compute. reflexivity.
Qed.

(** * After a reset (Close/Open, a new process, or ResetLocalState since /repo a3c8cc9) the sync state
      is zero.  Then the ONLY incremental answer verify can give is "same generation, from the cursor,
      with the frame in front of the cursor recognised" — whatever baseline the level-0 chain was cut
      back to: a truncated or restarted WAL is always snapshotted. *)
From LS Require Import Db.Proofs.

Theorem verify_fresh_incremental_only_same_generation_lemma : forall ps pos last w fd info,
  Verify.verify ps pos last false 0 (Some w) fd = VOk info -> i_snap info = false ->
  let off := (l_off last + l_size last)%N in
  let fsz := (ps + WALFrameHeaderSize)%N in
  (off <= N.of_nat (length w))%N /\
  N.eqb (be32 w 16) (l_s1 last) && N.eqb (be32 w 20) (l_s2 last) = true /\
  i_offset info = off /\
  (off = WALHeaderSize \/ (off - fsz)%N = WALHeaderSize \/
   exists d, fd = Some d /\
     last_page_match last (be32 w (N.to_nat (off - fsz))) (be32 w (N.to_nat (off - fsz) + 8))
                     (be32 w (N.to_nat (off - fsz) + 12)) d = true).
Proof.
  intros ps pos last w fd info H Hs.
  destruct (verify_incremental_evidence_lemma ps pos last false 0 w fd info H Hs) as [_ [A|[B|C]]].
  - destruct A as [_ [A _]]. discriminate.
  - destruct B as [B1 [B2 [B3 B4]]]. repeat split; assumption.
  - destruct C as [_ [_ [C _]]]. exfalso. apply C. reflexivity.
Qed.
