(** An abstract small-step machine of SQLite-as-environment + litestream, for the
    whole-history form of C01 (see DESIGN.md Appendix A).

    It is an ABSTRACTION of the byte-level model Db/Verify.v + Db/Sync.v (which
    is what is compared with db.go on every harness run): salts become a
    generation counter (G4: distinct generations carry distinct salts), WAL
    bytes become a list of slots tagged with the generation that wrote them,
    byte offsets become frame counts ([off = WALHeaderSize] is [cfo = 0],
    [prevWALOffset = WALHeaderSize] is [cfo = 1]).  The decision structure of
    verifyWithExecutor is kept test for test.

    What is abstracted, and why it is sound for the statement proved:
    - litestream only ever sees whole committed transactions (C02
      chunk_cut_at_commit, C09 pagemap_uncommitted_tail_ignored), so the live
      generation is a list of transactions and every position (cursor, read
      marks = mxFrame values, nBackfill) is a transaction index;
    - lastPageMatch is reduced to its salt comparison: a slot that still carries
      the cursor generation's salts holds the very frame litestream copied
      (G3 + G4), whose page is in the last level-0 file, so the page comparison
      cannot fail there; consequently every snapshot exit of verify leads to a
      full WAL read (offset = header, or PrevFrameMismatch fallback in sync);
    - application readers are not tracked: every backfill target and every
      "restart or append" choice that some configuration of application readers
      would produce is allowed (over-approximation);
    - error exits of checkpointWithExecutor ARE steps ([LsFail], any control state: a
      busy barrier / bump / boundary lock, a cancelled context, an I/O error), as is the
      death of the process ([LsKill]); a checkpoint PRAGMA may come back busy with a
      partial backfill ([LsCkpt] with j below the end for PASSIVE / FULL / RESTART,
      [LsCkptBusy] for TRUNCATE: no reset).  Not steps: a failing sync outside the
      checkpoint protocol (it changes nothing), a failing re-acquisition of the read
      lock (litestream would run without its read transaction until the next
      checkpoint), a failing rollback.

    The step function takes [midcheck : bool]: [true] is checkpointWithExecutor
    as fixed by /repo commit 80a5b27 (header re-read after a FULL/RESTART
    PRAGMA, [restartedBeforeCheckpoint]), [false] the control flow before it.
    [postcopy : bool] likewise for /repo commit 6edd82b (one more copy after a
    FULL/RESTART PRAGMA when the header is unchanged) and [recheck : bool] for
    /repo commit bb88a29 (header read once more after that copy); /repo HEAD is
    [true true true], the three defects these commits repaired (F14, F15, F16)
    are the [..._refuted] theorems about [false false false], [true false
    false], [true true false].  Two more flags concern sessions (Close / Open /
    kill): [freshrule] = 3b58009 and [reachrule] = c55c7c6 (F2, F18); the
    snapshot steps carry their own variants as label arguments ([LsSnapPos
    guard] = 5f481c7, [LsSnapRead chk] = 482a715 + a637c7e; F9b, F19).  The post-PRAGMA decisions are the separate
    functions [mid_restarted], [needs_post], [post_rb] and [ck_decide], which
    Db/MachineEntry.v exposes for trace conformance with db.go.

    SQLite's locking as the environment steps enforce it (wal.c): while
    litestream holds read mark m > 0, no checkpoint backfills past m and nobody
    restarts or truncates the WAL; while it holds mark 0, no checkpoint
    backfills anything (WAL_READ_LOCK(0) is needed exclusively) but a writer MAY
    restart a completely backfilled WAL; while it holds no mark, anything goes;
    while it holds the write lock, nobody commits or truncates. *)
From Coq Require Import List NArith Bool Lia Arith.
From LS Require Import Db.Image.
Import ListNotations.
Open Scope nat_scope.

Section Machine.
Variable data : Type.
Variable zero : data.
Variable lock : N.
(** [midcheck = true]: checkpointWithExecutor as fixed by /repo commit 80a5b27 (the
    WAL header is read again right after a FULL/RESTART checkpoint);
    [midcheck = false]: the control flow before that fix. *)
Variable midcheck : bool.
(** [postcopy = true]: additionally /repo commit 6edd82b (after a FULL/RESTART
    checkpoint whose header re-read found the header unchanged, the WAL is copied
    once more before the bump); [postcopy = false]: without it. *)
Variable postcopy : bool.
(** [recheck = true]: additionally /repo commit bb88a29 (after that copy the
    header is read once more and a difference also forces the boundary snapshot);
    [recheck = false]: without it.  /repo HEAD is [true true true]. *)
Variable recheck : bool.
(** [freshrule = true]: /repo commit 3b58009 (until something has been synced in the
    current open session, a changed header salt means snapshot);
    [freshrule = false]: without it. *)
Variable freshrule : bool.
(** [reachrule = true]: /repo commit c55c7c6 (the fresh-session rule applies until a
    sync of the session has reached the end of the WAL file, sticky flag
    reachedWALEnd); [reachrule = false]: the rule of 3b58009 (until something has
    been synced, lastSyncedWALOffset = 0).  /repo HEAD is [true] for all five. *)
Variable reachrule : bool.

Definition tx : Type := list (frame data).
Definition flen (ts : list tx) : nat := length (concat ts).
Definition slot : Type := (nat * frame data)%type.

Inductive mode := Passive | Full | Restart | Truncate.

Definition mode_eqb (a b : mode) : bool :=
  match a, b with
  | Passive, Passive | Full, Full | Restart, Restart | Truncate, Truncate => true
  | _, _ => false
  end.

(** control state of checkpointWithExecutor; [hg] = generation of the WAL header
    read at its start ([hdr]), [pre] = preCheckpointFrameN, [wn] = walFrameN *)
Inductive pcT :=
| Idle
| PHdr (m : mode) (hg : nat)                 (* header read, before "copy before checkpoint" *)
| PCopied (m : mode) (hg : nat)              (* copied *)
| PLocked (hg : nat)                         (* PASSIVE: barrier transaction holds the write lock *)
| PSealed (hg : nat)                         (* PASSIVE: sealed copy done under the write lock *)
| PReleased (m : mode) (hg pre : nat)        (* execCheckpoint: read transaction rolled back *)
| PCkpted (m : mode) (hg pre wn : nat)       (* PRAGMA wal_checkpoint returned; read lock re-acquired when ls_mark <> None *)
| PMid (m : mode) (hg pre wn : nat) (rb : bool)       (* FULL/RESTART: header read again, [rb] = restartedBeforeCheckpoint *)
| PPost (m : mode) (hg pre wn : nat)                  (* FULL/RESTART: the copy after the checkpoint is done *)
| PUnlocked (m : mode) (hg pre wn : nat) (rb : bool)  (* barrier rolled back; [rb] final *)
| PBumped (m : mode) (hg pre wn : nat) (rb : bool)    (* bumpLitestreamSeq committed *)
| PRecopy                                    (* header changed: verifyAndSync once more *)
| PBoundary                                  (* header changed: boundary snapshot chosen *)
| PBoundLocked                               (* write lock taken for the boundary snapshot *)
| Closed.

(** ghost: where the replicated prefix stands relative to the live generation *)
Inductive curT :=
| AtLive (c : nat)   (* cursor generation is live; [c] transactions of it are replicated *)
| AtBase             (* the generation was reset exactly when everything was replicated *)
| Lost.              (* a generation was reset while it held unreplicated transactions *)

(** the in-memory syncState of one open session (zero after Open / in a new
    process), plus one ghost bit *)
Record sess := mkSess {
  s_end : bool;        (* syncedToWALEnd *)
  s_off : nat;         (* lastSyncedWALOffset as a frame count; 0 = nothing synced in this session *)
  s_openmark : bool;   (* ghost: the read mark now held was taken by Open over existing level-0 files *)
  s_snap : option (nat * nat * nat * nat);
                       (* a snapshot in progress (chkMu read-locked): advertised position
                          (number of level-0 files), walEndOffset as a frame count, and two
                          transactions replicated at that position (ghost) and the generation
                          then (a637c7e: the salts of the WAL the bound was measured in) *)
  s_reached : bool }.  (* reachedWALEnd: a sync of this session ended exactly at the end of the -wal file *)

Record state := mkSt {
  (* SQLite / file system *)
  base : N -> data;          (* database file when the live generation started *)
  bsize : N;
  gen : nat;                 (* stands for the salts of the live generation *)
  txs : list tx;             (* committed transactions of the live generation *)
  backfilled : nat;          (* nBackfill, as a transaction index *)
  fsize : N;                 (* size of the database file in pages (unconstrained) *)
  phys : list slot;          (* every frame slot of the -wal file, stale tail included *)
  ls_mark : option nat;      (* litestream's read transaction: None / Some mark *)
  wlock : bool;              (* litestream holds SQLite's write lock *)
  (* litestream *)
  opened : bool;
  l0 : list (ltx data);      (* level-0 files, oldest first *)
  cgen : nat;                (* salts in the header of the last level-0 file *)
  cfo : nat;                 (* (WALOffset + WALSize - 32) / frame size of that header *)
  cprev : N;                 (* Commit of that header *)
  ss : sess;                 (* syncState *)
  pc : pcT;
  (* ghost *)
  cur : curT;
  acks : list (nat * image data * bool);
  snaps : list (nat * image data) }.  (* ghost: (advertised position, content) of every snapshot read *)

Definition flag (s : state) : bool := s_end (ss s).
Definition lastoff (s : state) : nat := s_off (ss s).
Definition openmark (s : state) : bool := s_openmark (ss s).
Definition snap (s : state) : option (nat * nat * nat * nat) := s_snap (ss s).
Definition reached (s : state) : bool := s_reached (ss s).

Definition committed (s : state) : image data := view data (base s, bsize s) (concat (txs s)).
(** the database file as litestream reads it *)
Definition dbfile (s : state) : N -> data :=
  backfill data (base s) (concat (txs s)) (flen (firstn (backfilled s) (txs s))).

(** * Environment rules *)

(** What one committed transaction looks like (pager.c pagerWalFrames, wal.c
    sqlite3WalFrames): at least one frame, the last one is the commit frame,
    the pending-byte page is never written, and a transaction that grows the
    database writes every new page (they are allocated dirty) —
    [grow_writes_new_pages]. *)
Definition grow_writes_new_pages (sz : N) (t : tx) : Prop :=
  forall pg, (sz < pg)%N -> (pg <= last_commit data sz t)%N -> pg <> lock ->
             last_data data pg t <> None.

Definition tx_ok (sz : N) (t : tx) : Prop :=
  (exists a f, t = a ++ [f] /\ f_commit data f <> 0%N) /\
  Forall (fun f => f_pg data f <> lock) t /\
  grow_writes_new_pages sz t.

Fixpoint txs_ok (sz : N) (ts : list tx) : Prop :=
  match ts with
  | [] => True
  | t :: r => tx_ok sz t /\ txs_ok (last_commit data sz t) r
  end.

Definition tag (g : nat) (t : tx) : list slot := map (fun f => (g, f)) t.
Definition overwrite (p : list slot) (n : nat) (new : list slot) : list slot :=
  firstn n p ++ new ++ skipn (n + length new) p.

Definition mark_low (m : option nat) : bool :=
  match m with None => true | Some O => true | Some (S _) => false end.

(** walRestartLog / walRestartHdr: allowed when the WAL is completely
    backfilled and no reader holds a mark > 0 (wal.c walRestartLog: the writer
    itself reads at mark 0, nBackfill = mxFrame > 0, exclusive lock on
    WAL_READ_LOCK(1..)).  A holder of mark 0 does not prevent it. *)
Definition reset_enabled (s : state) : bool :=
  negb (wlock s) && mark_low (ls_mark s) && (backfilled s =? length (txs s)).

Definition cur_reset (c : curT) (len : nat) : curT :=
  match c with
  | AtLive k => if k =? len then AtBase else Lost
  | AtBase => if len =? 0 then AtBase else Lost
  | Lost => Lost
  end.

(** a new, empty generation over the checkpointed image; [trunc]: the -wal file is emptied *)
Definition reset_st (s : state) (trunc : bool) : state :=
  mkSt (fst (committed s)) (snd (committed s)) (S (gen s)) [] 0 (fsize s)
       (if trunc then [] else phys s) (ls_mark s) (wlock s)
       (opened s) (l0 s) (cgen s) (cfo s) (cprev s) (ss s) (pc s)
       (cur_reset (cur s) (length (txs s))) (acks s) (snaps s).

(** sqlite3WalFrames: the frames go after mxFrame, over whatever was there *)
Definition append_st (s : state) (t : tx) : state :=
  mkSt (base s) (bsize s) (gen s) (txs s ++ [t]) (backfilled s) (fsize s)
       (overwrite (phys s) (flen (txs s)) (tag (gen s) t)) (ls_mark s) (wlock s)
       (opened s) (l0 s) (cgen s) (cfo s) (cprev s) (ss s) (pc s) (cur s) (acks s) (snaps s).

(** a commit by anybody; [restart] is SQLite's choice, constrained by
    [reset_enabled] and mxFrame > 0 *)
Definition do_commit (s : state) (t : tx) (restart : bool) : option state :=
  if wlock s then None else
  if restart then
    if reset_enabled s && (0 <? length (txs s)) then Some (append_st (reset_st s false) t) else None
  else Some (append_st s t).

Definition set_pc (s : state) (p : pcT) : state :=
  mkSt (base s) (bsize s) (gen s) (txs s) (backfilled s) (fsize s) (phys s) (ls_mark s) (wlock s)
       (opened s) (l0 s) (cgen s) (cfo s) (cprev s) (ss s) p (cur s) (acks s) (snaps s).
Definition set_mark (s : state) (m : option nat) : state :=
  mkSt (base s) (bsize s) (gen s) (txs s) (backfilled s) (fsize s) (phys s) m (wlock s)
       (opened s) (l0 s) (cgen s) (cfo s) (cprev s) (ss s) (pc s) (cur s) (acks s) (snaps s).
Definition set_wlock (s : state) (w : bool) : state :=
  mkSt (base s) (bsize s) (gen s) (txs s) (backfilled s) (fsize s) (phys s) (ls_mark s) w
       (opened s) (l0 s) (cgen s) (cfo s) (cprev s) (ss s) (pc s) (cur s) (acks s) (snaps s).
Definition set_opened (s : state) : state :=
  mkSt (base s) (bsize s) (gen s) (txs s) (backfilled s) (fsize s) (phys s) (ls_mark s) (wlock s)
       true (l0 s) (cgen s) (cfo s) (cprev s) (ss s) (pc s) (cur s) (acks s) (snaps s).
Definition set_ss (s : state) (x : sess) : state :=
  mkSt (base s) (bsize s) (gen s) (txs s) (backfilled s) (fsize s) (phys s) (ls_mark s) (wlock s)
       (opened s) (l0 s) (cgen s) (cfo s) (cprev s) x (pc s) (cur s) (acks s) (snaps s).
Definition set_flag (s : state) (b : bool) : state := set_ss s (mkSess b (lastoff s) (openmark s) (snap s) (reached s)).
Definition set_openmark (s : state) (b : bool) : state := set_ss s (mkSess (flag s) (lastoff s) b (snap s) (reached s)).
Definition set_snap (s : state) (x : option (nat * nat * nat * nat)) : state :=
  set_ss s (mkSess (flag s) (lastoff s) (openmark s) x (reached s)).
Definition set_closed (s : state) : state :=
  mkSt (base s) (bsize s) (gen s) (txs s) (backfilled s) (fsize s) (phys s) None false
       false (l0 s) (cgen s) (cfo s) (cprev s) (mkSess false 0 false None false) Idle (cur s) (acks s) (snaps s).
(** walCheckpoint: pages of frames up to [j] copied into the database file *)
Definition set_backfill (s : state) (j : nat) (sz : N) : state :=
  mkSt (base s) (bsize s) (gen s) (txs s) j sz (phys s) (ls_mark s) (wlock s)
       (opened s) (l0 s) (cgen s) (cfo s) (cprev s) (ss s) (pc s) (cur s) (acks s) (snaps s).
Definition add_ack (s : state) : state :=
  mkSt (base s) (bsize s) (gen s) (txs s) (backfilled s) (fsize s) (phys s) (ls_mark s) (wlock s)
       (opened s) (l0 s) (cgen s) (cfo s) (cprev s) (ss s) (pc s) (cur s)
       ((length (l0 s), committed s, match cur s with Lost => false | _ => true end) :: acks s) (snaps s).

(** walTryBeginRead: mark 0 when the WAL is completely backfilled, else mxFrame *)
Definition acquire (s : state) : option nat :=
  if backfilled s =? length (txs s) then Some 0 else Some (length (txs s)).

(** walCheckpoint's mxSafeFrame as far as litestream's own mark constrains it:
    nothing while it holds mark 0 (backfilling needs WAL_READ_LOCK(0)
    exclusively), at most its mark otherwise (G1) *)
Definition ckpt_allowed (s : state) (j : nat) : bool :=
  (backfilled s <=? j) && (j <=? length (txs s)) &&
  match ls_mark s with
  | None => true
  | Some O => j =? backfilled s
  | Some m => j <=? m
  end.

(** * Litestream: verify *)

Inductive vans :=
| VSnap                      (* info.snapshotting *)
| VIncrAt                    (* incremental from the cursor offset *)
| VIncrHdr (clear : bool).   (* incremental from the header of a new generation *)

Definition tag_at (p : list slot) (i : nat) : option nat := option_map fst (nth_error p i).

(** WALReader.FrameSaltsUntil: salts of the slots from the start up to and
    including the first one carrying [until] *)
Fixpoint salts_until (p : list slot) (until : nat) : list nat :=
  match p with
  | [] => []
  | (g, _) :: tl => if g =? until then [g] else g :: salts_until tl until
  end.

(** detectFullCheckpoint with knownSalts = [header; last file] *)
Definition detect_full (p : list slot) (hg lg : nat) : bool :=
  existsb (fun g => negb (g =? hg) && negb (g =? lg)) (salts_until p lg).

(** verifyWithExecutor, same order of tests as Db/Verify.v *)
Definition verify (s : state) : vans :=
  match l0 s with
  | [] => VSnap                                              (* pos.TXID = 0 *)
  | _ :: _ =>
    let off := cfo s in
    let wsz := length (phys s) in
    if wsz <? off then                                       (* info.offset > fi.Size() *)
      (if flag s then VIncrHdr true else VSnap)
    else
    let saltMatch := cgen s =? gen s in
    if off =? 0 then (if saltMatch then VIncrAt else VSnap)  (* info.offset = WALHeaderSize *)
    else if off =? 1 then (if saltMatch then VIncrAt else VSnap) (* prevWALOffset = WALHeaderSize *)
    else
    match tag_at (phys s) (off - 1) with
    | None => VSnap
    | Some g =>
        if negb (g =? cgen s) then VSnap                     (* lastPageMatch: salts differ *)
        else if negb saltMatch then
          (* 3b58009: nothing synced yet in this session: "wal restarted while not replicating" *)
          (if freshrule && (if reachrule then negb (reached s) else lastoff s =? 0) then VSnap
           else if detect_full (phys s) (gen s) (cgen s) then VSnap else VIncrHdr false)
        else VIncrAt
    end
  end.

(** transaction index of a frame offset *)
Fixpoint idx (ts : list tx) (n : nat) : option nat :=
  match n with
  | O => Some O
  | S _ =>
      match ts with
      | [] => None
      | t :: r => if length t <=? n then option_map S (idx r (n - length t)) else None
      end
  end.

(** * Litestream: sync (one LTX file or a skip) *)

Definition write_file (s : state) (x : ltx data) (newcfo : nat) (c : curT) : state :=
  mkSt (base s) (bsize s) (gen s) (txs s) (backfilled s) (fsize s) (phys s) (ls_mark s) (wlock s)
       (opened s) (l0 s ++ [x]) (gen s) newcfo (x_commit data x)
       (mkSess (newcfo =? length (phys s))   (* syncedToWALEnd = (finalOffset = walSize) *)
               newcfo                         (* lastSyncedWALOffset = finalOffset *)
               (openmark s) (snap s)
               (reached s || (newcfo =? length (phys s))))
       (pc s) c (acks s) (snaps s).

(** writeLTXFromDB over the whole live generation *)
Definition snapshot_st (s : state) : state :=
  write_file s (ltx_snapshot data lock (dbfile s) (fsize s) (concat (txs s)))
             (flen (txs s)) (AtLive (length (txs s))).

Definition is_idle (p : pcT) : bool := match p with Idle => true | _ => false end.
(** every verifyAndSync inside checkpointWithExecutor is unbudgeted
    (maxSyncWALBytes = 0): its page map reaches the end of the committed frames
    at the instant it reads; a commit landing during the read is a commit after
    the step.  Only the Sync loop (control state Idle) reads budgeted chunks. *)
Definition toend (s : state) : bool := wlock s || negb (is_idle (pc s)).

(** writeLTXFromWAL of [k] whole transactions starting at transaction [c] *)
Definition incr_st (s : state) (c k : nat) (clear : bool) (newcur : curT) : option state :=
  if negb (c + k <=? length (txs s)) then None else
  if toend s && negb (c + k =? length (txs s)) then None else
  if k =? 0 then Some (if clear then set_flag s false else s)    (* sz = 0: skip *)
  else
    let chunk := concat (firstn k (skipn c (txs s))) in
    Some (write_file s (ltx_incremental data lock (dbfile s) (cprev s) chunk)
                     (flen (firstn (c + k) (txs s))) newcur).

(** verifyAndSyncWithExecutor *)
Definition do_sync (s : state) (k : nat) : option state :=
  if negb (opened s) then None else
  match phys s with
  | [] => None                       (* no WAL header: error *)
  | _ :: _ =>
    match verify s with
    | VSnap => Some (snapshot_st s)
    | VIncrAt =>
        match idx (txs s) (cfo s) with
        | None => None
        | Some c => incr_st s c k false
                            (match cur s with AtLive _ => AtLive (c + k) | _ => Lost end)
        end
    | VIncrHdr clear =>
        incr_st s 0 k clear (match cur s with AtBase => AtLive k | _ => Lost end)
    end
  end.

(** * Snapshots *)

(** snapshotWALEndOffset: header when the WAL is missing or (guarded) carries
    other salts than the last level-0 file; else the cached
    lastSyncedWALOffset if any, else the end offset recorded in that file *)
Definition snap_wal_end (s : state) (guard : bool) : nat :=
  match phys s with
  | [] => 0
  | _ :: _ =>
      if guard && negb (cgen s =? gen s) then 0
      else if 0 <? lastoff s then lastoff s else cfo s
  end.

(** pageMap(maxBytes): whole transactions up to the bound; a bound inside a
    transaction makes the read exceed it (error); a bound beyond the committed
    frames reads them all *)
Definition snap_idx (ts : list tx) (we : nat) : option nat :=
  match idx ts we with
  | Some c => Some c
  | None => if flen ts <? we then Some (length ts) else None
  end.

Definition add_snap (s : state) (x : nat * image data) : state :=
  mkSt (base s) (bsize s) (gen s) (txs s) (backfilled s) (fsize s) (phys s) (ls_mark s) (wlock s)
       (opened s) (l0 s) (cgen s) (cfo s) (cprev s) (ss s) (pc s) (cur s) (acks s) (x :: snaps s).

(** * The decisions of checkpointWithExecutor after the PRAGMA *)

Definition frb (m : mode) : bool := match m with Full | Restart => true | _ => false end.

(** restartedBeforeCheckpoint: for FULL and RESTART only, header read right
    after execCheckpoint compared with the header read before the copy *)
Definition mid_restarted (m : mode) (hg g : nat) : bool :=
  midcheck && frb m && negb (hg =? g).

(** the copy of commit 6edd82b is due *)
Definition needs_post (m : mode) (rb : bool) : bool := postcopy && frb m && negb rb.
Definition post_pending (p : pcT) : bool :=
  match p with PMid m _ _ _ rb => needs_post m rb | _ => false end.

(** restartedBeforeCheckpoint after the copy: the header read of commit bb88a29 *)
Definition post_rb (hg g : nat) : bool := recheck && negb (hg =? g).

Inductive ckdec := DNotRestarted | DRecopy | DBoundary.

(** [g]: generation of the header read after the bump ([other]) *)
Definition ck_decide (m : mode) (hg g pre wn : nat) (rb : bool) : ckdec :=
  if hg =? g then DNotRestarted                                     (* bytes.Equal(hdr, other) *)
  else match m with
       | Passive => DRecopy
       | Truncate => DBoundary
       | _ => if negb rb && (wn <=? pre) then DRecopy else DBoundary
       end.

(** the copy after a FULL/RESTART checkpoint of /repo commit 20b75a5: its verify runs on a sync
    state with reachedWALEnd and syncedToWALEnd cleared ... *)
Definition strict_ss (s : state) : state :=
  set_ss s (mkSess false (lastoff s) (openmark s) (snap s) false).
(** ... and reachedWALEnd is restored afterwards *)
Definition merge_reached (s : state) (r : bool) : state :=
  set_ss s (mkSess (flag s) (lastoff s) (openmark s) (snap s) (reached s || r)).

(** control states in which the read lock has been released by this call (the deferred
    function of commit a1345df is installed right before execCheckpoint) *)
Definition fail_clears (p : pcT) : bool :=
  match p with
  | PReleased _ _ _ | PCkpted _ _ _ _ | PMid _ _ _ _ _ | PPost _ _ _ _ | PUnlocked _ _ _ _ _
  | PBumped _ _ _ _ _ | PRecopy | PBoundary | PBoundLocked => true
  | _ => false
  end.
Definition in_call (p : pcT) : bool := match p with Idle | Closed => false | _ => true end.

(** an error exit: write lock released (deferred rollbacks), read lock re-taken if it was
    released (execCheckpoint's deferred acquireReadLock), control back to the caller; with
    [clear] the sync state is that of a session that has not reached the end of the WAL
    ([s_openmark] is a ghost: the read mark now held protects no known cursor) *)
Definition fail_st (s : state) (clear : bool) : state :=
  let s1 := set_wlock (set_pc s Idle) false in
  let s2 := match ls_mark s with None => set_mark s1 (acquire s) | Some _ => s1 end in
  if clear && fail_clears (pc s)
  then set_ss s2 (mkSess false (lastoff s) true (snap s) false)
  else s2.

(** * Steps *)

Inductive label :=
| AppCommit (t : tx) (restart : bool)   (* any commit, including ensureWALExists' *)
| AppCkpt (j : nat) (sz : N)            (* PASSIVE/FULL/RESTART by the application *)
| AppTruncate                           (* TRUNCATE by the application, after its backfill *)
| LsOpen                                (* init: acquireReadLock *)
| LsSync (k : nat)                      (* verifyAndSync, in whatever place the control state allows *)
| LsAck                                 (* SyncAndWait / Close's sync returned nil at the end of the WAL *)
| LsCkStart (m : mode)
| LsLockWrite
| LsRelease
| LsCkpt (j : nat) (sz : N)
| LsReacquire
| LsMid
| LsUnlock
| LsBump (t : tx) (restart : bool)
| LsCmpHdr
| LsBoundarySnap
| LsClose
| LsKill
| LsSnapPos (guard : bool)   (* snapshotPosition under the executor; [guard = false]: snapshotWALEndOffset
                                before it compared the salts of the last level-0 file with the WAL header *)
| LsSnapRead (chk : bool)    (* snapshotReader's goroutine: database file + WAL up to walEndOffset;
                                [chk = true]: 482a715 + a637c7e, the read fails when the WAL it opens,
                                or the WAL at the end of the read, is not the generation the bound was
                                measured in; [chk = false]: before those commits *)
| LsBumpFail                 (* the one error exit modelled: bumpLitestreamSeq fails (SQLITE_BUSY), the
                                checkpoint call returns, the executor's state is applied as it is *)
| LsPostSync (k : nat)       (* the copy that follows a FULL/RESTART checkpoint as /repo commit 20b75a5 runs
                                it: with reachedWALEnd and syncedToWALEnd cleared for its verify (a WAL other
                                than the one synced so far is snapshotted, not followed), reachedWALEnd
                                restored afterwards.  [LsSync] in the same control state is that copy before
                                the commit *)
| LsCkptBusy (j : nat) (sz : N)
                             (* PRAGMA wal_checkpoint(TRUNCATE) that comes back busy (a reader the busy
                                handler gave up on): whatever could be backfilled is, the WAL is NOT reset;
                                the PRAGMA reports it in its result row, which execCheckpoint does not read.
                                (FULL / RESTART: [LsCkpt] with j below the end) *)
| LsFail (clear : bool).     (* ANY error exit of checkpointWithExecutor (SQLITE_BUSY at the barrier, the bump
                                or the boundary lock, a cancelled context, an I/O error): the deferred
                                rollbacks release the write lock, execCheckpoint's deferred acquireReadLock
                                re-takes the read lock if it was released, the executor's state is applied
                                as it is.  [clear = true]: /repo commit a1345df, a call that fails after the
                                read lock was released clears syncedToWALEnd and reachedWALEnd;
                                [clear = false]: before that commit *)

Definition step (s : state) (l : label) : option state :=
  match l with
  | AppCommit t r => do_commit s t r
  | AppCkpt j sz => if ckpt_allowed s j then Some (set_backfill s j sz) else None
  | AppTruncate =>
      (* wal.c walCheckpoint, TRUNCATE: needs the writer lock, complete backfill, no mark > 0 *)
      if reset_enabled s then Some (reset_st s true) else None
  | LsOpen =>
      match opened s, pc s with
      | false, Idle =>
          Some (set_openmark (set_mark (set_opened s) (acquire s))
                             (match l0 s with [] => false | _ :: _ => true end))
      | _, _ => None
      end
  | LsSync k =>
      match pc s with
      | Idle => do_sync s k
      | PHdr m hg => option_map (fun s' => set_pc s' (PCopied m hg)) (do_sync s k)
      | PLocked hg => option_map (fun s' => set_pc s' (PSealed hg)) (do_sync s k)
      | PRecopy => option_map (fun s' => set_pc s' Idle) (do_sync s k)
      | PMid m hg pre wn rb =>
          if needs_post m rb
          then option_map (fun s' => set_pc s' (PPost m hg pre wn)) (do_sync s k)
          else None
      | _ => None
      end
  | LsAck =>
      match pc s, l0 s with
      | Idle, _ :: _ =>
          if (cgen s =? gen s) && (cfo s =? flen (txs s)) then Some (add_ack s) else None
      | _, _ => None
      end
  | LsCkStart m =>
      match pc s, phys s with
      | Idle, _ :: _ =>
          (* chkMu.TryLock fails while a snapshot holds the read side: the checkpoint is skipped *)
          match snap s with
          | None => if opened s then Some (set_pc s (PHdr m (gen s))) else None
          | Some _ => None
          end
      | _, _ => None
      end
  | LsLockWrite =>
      match pc s with
      | PCopied Passive hg => Some (set_wlock (set_pc s (PLocked hg)) true)
      | PBoundary => Some (set_wlock (set_pc s PBoundLocked) true)
      | _ => None
      end
  | LsRelease =>
      match pc s with
      | PSealed hg => Some (set_openmark (set_mark (set_pc s (PReleased Passive hg (lastoff s))) None) false)
      | PCopied m hg =>
          if mode_eqb m Passive then None
          else Some (set_openmark (set_mark (set_pc s (PReleased m hg (lastoff s))) None) false)
      | _ => None
      end
  | LsCkpt j sz =>
      match pc s, ls_mark s with
      | PReleased m hg pre, None =>
          match m with
          | Passive =>
              if (backfilled s <=? j) && (j <=? length (txs s))
              then Some (set_pc (set_backfill s j sz) (PCkpted m hg pre (flen (txs s)))) else None
          | Full | Restart =>
              (* the PRAGMA reports SQLITE_BUSY in its result row, which execCheckpoint does not
                 read: a reader or a writer the busy handler gave up on leaves a partial backfill *)
              if (backfilled s <=? j) && (j <=? length (txs s))
              then Some (set_pc (set_backfill s j sz) (PCkpted m hg pre (flen (txs s)))) else None
          | Truncate =>
              (* /repo commit 67a6f3f: syncedToWALEnd is cleared once the TRUNCATE PRAGMA has run *)
              if j =? length (txs s)
              then Some (set_flag (set_pc (reset_st (set_backfill s j sz) true) (PCkpted m hg pre 0)) false)
              else None
          end
      | _, _ => None
      end
  | LsCkptBusy j sz =>
      match pc s, ls_mark s with
      | PReleased Truncate hg pre, None =>
          if (backfilled s <=? j) && (j <=? length (txs s))
          then Some (set_flag (set_pc (set_backfill s j sz) (PCkpted Truncate hg pre (flen (txs s)))) false)
          else None
      | _, _ => None
      end
  | LsReacquire =>
      match pc s, ls_mark s with
      | PCkpted _ _ _ _, None => Some (set_openmark (set_mark s (acquire s)) false)
      | _, _ => None
      end
  | LsMid =>
      (* execCheckpoint has returned (read lock held again); FULL/RESTART read the header *)
      match pc s, ls_mark s with
      | PCkpted m hg pre wn, Some _ => Some (set_pc s (PMid m hg pre wn (mid_restarted m hg (gen s))))
      | _, _ => None
      end
  | LsUnlock =>
      match pc s with
      | PMid m hg pre wn rb =>
          if needs_post m rb then None
          else Some (set_wlock (set_pc s (PUnlocked m hg pre wn rb)) false)
      | PPost m hg pre wn =>
          (* restartedBeforeCheckpoint is recomputed from a header read after the copy;
             no barrier to roll back in these modes *)
          Some (set_pc s (PUnlocked m hg pre wn (post_rb hg (gen s))))
      | _ => None
      end
  | LsBump t r =>
      match pc s with
      | PUnlocked m hg pre wn rb => option_map (fun s' => set_pc s' (PBumped m hg pre wn rb)) (do_commit s t r)
      | _ => None
      end
  | LsCmpHdr =>
      match pc s with
      | PBumped m hg pre wn rb =>
          match ck_decide m hg (gen s) pre wn rb with
          | DNotRestarted => Some (set_pc s Idle)
          | DRecopy => Some (set_pc s PRecopy)
          | DBoundary => Some (set_pc s PBoundary)
          end
      | _ => None
      end
  | LsBoundarySnap =>
      match pc s, phys s with
      | PBoundLocked, _ :: _ =>
          if opened s then Some (set_wlock (set_pc (snapshot_st s) Idle) false) else None
      | _, _ => None
      end
  | LsClose =>
      (* the final sync and upload are ordinary steps before it; the read
         transaction is rolled back and syncState zeroed (acbcc3c) *)
      match pc s with
      | Idle => if opened s then Some (set_closed s) else None
      | _ => None
      end
  | LsKill =>
      (* the process dies anywhere: every lock it held is gone, the next process starts from the files *)
      if opened s then Some (set_closed s) else None
  | LsSnapPos g =>
      match pc s, l0 s, snap s with
      | Idle, _ :: _, None =>
          if opened s then
            Some (set_snap s (Some (length (l0 s), snap_wal_end s g,
                                    match cur s with AtLive c => c | _ => 0 end, gen s)))
          else None
      | _, _, _ => None
      end
  | LsSnapRead chk =>
      match snap s, phys s with
      | Some (p, we, _, sg), _ :: _ =>
          if opened s then
            if chk && (0 <? we) && negb (sg =? gen s)
            then Some (set_snap s None)       (* "wal restarted before snapshot": no snapshot is produced *)
            else
            match snap_idx (txs s) we with
            | Some c =>
                Some (add_snap (set_snap s None)
                               (p, view data (dbfile s, fsize s) (concat (firstn c (txs s)))))
            | None => None        (* "snapshot wal read exceeded bound" *)
            end
          else None
      | _, _ => None
      end
  | LsBumpFail =>
      match pc s with
      | PUnlocked _ _ _ _ _ => Some (set_pc s Idle)
      | _ => None
      end
  | LsPostSync k =>
      match pc s with
      | PMid m hg pre wn rb =>
          if needs_post m rb
          then option_map (fun s' => set_pc (merge_reached s' (reached s)) (PPost m hg pre wn))
                          (do_sync (strict_ss s) k)
          else None
      | _ => None
      end
  | LsFail c => if in_call (pc s) && opened s then Some (fail_st s c) else None
  end.

(** snapshot_matches_position needs three facts the code does not establish by
    itself; each is a side condition here and a refuted lemma when dropped:
    the advertised position lies in the live WAL generation and is not lost
    ([LsSnapPos]); the database file has not been backfilled beyond the
    position ([LsSnapRead], second conjunct - F9); and, only for the reader
    before commits 482a715 / a637c7e ([chk = false]), no WAL restart between
    capturing the position and reading ([LsSnapRead], first conjunct). *)
Definition snap_ok (s : state) (l : label) : bool :=
  match l with
  | LsSnapPos _ => match cur s with AtLive _ => true | _ => false end
  | LsSnapRead chk =>
      match snap s with
      | Some (_, _, sc, sg) => (chk || (sg =? gen s)) && (backfilled s <=? sc)
      | None => true
      end
  | _ => true
  end.

(** the environment hypotheses attached to a step *)
Definition label_ok (s : state) (l : label) : Prop :=
  match l with
  | AppCommit t _ | LsBump t _ => tx_ok (snd (committed s)) t
  | _ => True
  end.

(** The one window the twice-fixed FULL/RESTART protocol leaves open: between the
    header re-read ([LsMid], header unchanged) and the header read of the copy
    that follows it ([LsSync] at [PMid]).  Litestream may hold mark 0 there
    behind a transaction it has not copied (appended and backfilled while its
    read transaction was released); a commit that restarts the WAL in that
    instant is not seen by the re-read, the copy continues from the new header
    on evidence (C).  [window_ok] excludes exactly such a restart; with
    [recheck] (commit bb88a29) it excludes nothing. *)
Definition idleish (p : pcT) : bool := match p with Idle | PHdr _ _ => true | _ => false end.

(** A session that re-opened over existing level-0 files and took read mark 0 (the
    WAL was completely backfilled while litestream was closed) is catching up
    in budgeted chunks: it has synced something ([lastoff > 0], the fresh-session
    rule no longer applies) but its cursor is not at the end of the live
    generation, and its mark 0 does not keep a commit from restarting the WAL
    over the frames it has not copied yet.  Only the fresh-session rule of
    3b58009 ([reachrule = false]) has this window; with the sticky
    reachedWALEnd flag of c55c7c6 the session stays "fresh" until it has reached
    the end of the WAL. *)
Definition catching_up (s : state) : bool :=
  openmark s && idleish (pc s) && (0 <? lastoff s) && (0 <? length (txs s)) &&
  negb ((cgen s =? gen s) && (cfo s =? flen (txs s))).

(** A process killed after the copy that follows a FULL/RESTART checkpoint ran
    over a WAL restarted under frames it had not copied (the F16 window) and
    before the boundary snapshot that the header re-read then forces: the last
    level-0 file carries the live salts but the chain misses frames. *)
Definition kill_ok (s : state) : bool :=
  match cur s, l0 s with
  | Lost, _ :: _ => negb (cgen s =? gen s)
  | _, _ => true
  end.

Definition window_ok (s : state) (l : label) : bool :=
  match l with
  | AppCommit _ true | AppTruncate =>
      (recheck || negb (post_pending (pc s))) && (reachrule || negb (catching_up s))
  | LsKill => kill_ok s
  | LsBumpFail => false     (* error exits are outside the C01 / C04 theorems of Db/MachineProofs.v ... *)
  | LsFail _ => false       (* ... and inside those of Db/MachineFaults.v *)
  | _ => true
  end.

(** /repo HEAD (commits a1345df and 20b75a5 included): the copy after a FULL/RESTART
    checkpoint is [LsPostSync], error exits are [LsFail true].  No other side condition:
    kill anywhere, any error exit, any interleaving. *)
Definition head_label (s : state) (l : label) : bool :=
  match l with
  | LsSync _ => negb (post_pending (pc s))
  | LsBumpFail => false
  | LsFail c => c
  | _ => true
  end.

Fixpoint run (s : state) (ls : list label) : option state :=
  match ls with
  | [] => Some s
  | l :: r => match step s l with Some s' => run s' r | None => None end
  end.

Fixpoint steps_ok (s : state) (ls : list label) : Prop :=
  match ls with
  | [] => True
  | l :: r => label_ok s l /\ match step s l with Some s' => steps_ok s' r | None => True end
  end.

Fixpoint steps_window (s : state) (ls : list label) : Prop :=
  match ls with
  | [] => True
  | l :: r => window_ok s l = true /\ match step s l with Some s' => steps_window s' r | None => True end
  end.

Fixpoint steps_head (s : state) (ls : list label) : Prop :=
  match ls with
  | [] => True
  | l :: r => head_label s l = true /\ match step s l with Some s' => steps_head s' r | None => True end
  end.

Fixpoint steps_snap (s : state) (ls : list label) : Prop :=
  match ls with
  | [] => True
  | l :: r => snap_ok s l = true /\ match step s l with Some s' => steps_snap s' r | None => True end
  end.

(** any database with any WAL, before litestream opens it *)
Definition init_ok (s : state) : Prop :=
  txs_ok (bsize s) (txs s) /\ base s lock = zero /\
  backfilled s <= length (txs s) /\ flen (txs s) <= length (phys s) /\
  (txs s = [] -> phys s = []) /\
  ls_mark s = None /\ wlock s = false /\ opened s = false /\ l0 s = [] /\
  pc s = Idle /\ acks s = [] /\ cur s = Lost /\ ss s = mkSess false 0 false None false /\
  cgen s <= gen s /\ snaps s = [].

Definition mode_pt (m : mode) : bool := match m with Passive | Truncate => true | _ => false end.
(** histories in which litestream issues only the checkpoint modes
    checkpointIfNeeded uses *)
Definition label_pt (l : label) : bool :=
  match l with LsCkStart m => mode_pt m | _ => true end.

End Machine.
