(** DInv for Db/Machine.v, part 3: error exits and process death without side
    conditions, for the control flow of /repo HEAD (commits a1345df and 20b75a5
    included).

    [LsFail true] is ANY error exit of checkpointWithExecutor, from any control
    state; [LsKill] is the death of the process at any instant; [LsPostSync] is the
    copy that follows a FULL/RESTART checkpoint as commit 20b75a5 runs it.  The
    invariant [safe] of Db/MachineSafe.v is kept as it is and three clauses are
    added ([safe2]):

    - [f_LG]: a lost cursor never sits under level-0 files that carry the live
      salts.  This is what makes a kill harmless (the next process finds other
      salts in its last file and the fresh-session rule snapshots) and what makes
      an error exit harmless once it clears reachedWALEnd (same rule).  It is
      FALSE for the copy before 20b75a5 ([LsSync] at [PMid]): the copy follows a
      restarted WAL from its new header and leaves exactly such a file until the
      header re-read that follows it — [kill_after_lost_post_copy_refuted], F20.
    - [f_WF]: litestream holds SQLite's write lock only between the barrier insert
      and its rollback, or for the boundary snapshot.
    - [f_KL]: while the PASSIVE barrier holds the write lock before the sealing
      copy, a WAL that could be restarted is a WAL that is completely replicated. *)
From Coq Require Import List NArith Bool Lia Arith.
From LS Require Import Db.Image Db.Machine Db.MachineLemmas Db.MachineInv Db.MachineSafe Db.MachineProofs.
Import ListNotations.
Open Scope nat_scope.

Section Faults.
Variable data : Type.
Variable zero : data.
Variable lock : N.

Local Notation state := (state data).
Local Notation inv := (inv data zero lock).
Local Notation safe := (safe data true).
Local Notation step := (step data lock true true true true true).
Local Notation run := (run data lock true true true true true).
Local Notation steps_ok := (steps_ok data lock true true true true true).
Local Notation steps_head := (steps_head data lock true true true true true).
Local Notation do_sync := (do_sync data lock true true).
Local Notation verify := (verify data true true).
Local Notation restoreL := (restore data zero lock).
Local Notation Hmr := (or_introl eq_refl : true = true \/ true = true).

Definition wl_okb (p : pcT) : bool :=
  lockedb p || sealedb p || match p with PBoundLocked => true | _ => false end.

Record safe2 (s : state) : Prop := mkSafe2 {
  f_safe : safe s;
  f_LG : cur data s = Lost -> l0 data s = [] \/ cgen data s < gen data s;
  f_WF : wlock data s = true -> wl_okb (pc data s) = true;
  f_KL : lockedb (pc data s) = true -> mark_low (ls_mark data s) = true ->
         backfilled data s = length (txs data s) -> at_end data s }.

(** ** what a step may touch *)

(** the fields [f_LG] reads *)
Definition lg_core (s : state) := (cur data s, l0 data s, cgen data s, gen data s).

Lemma lg_same s s' :
  lg_core s = lg_core s' ->
  (cur data s = Lost -> l0 data s = [] \/ cgen data s < gen data s) ->
  (cur data s' = Lost -> l0 data s' = [] \/ cgen data s' < gen data s').
Proof.
  unfold lg_core. intros E. injection E as E1 E2 E3 E4. rewrite <- E1, <- E2, <- E3, <- E4. auto.
Qed.

Lemma lg_reset (s s' : state) :
  cgen data s <= gen data s -> cgen data s' = cgen data s -> gen data s' = S (gen data s) ->
  (cur data s' = Lost -> l0 data s' = [] \/ cgen data s' < gen data s').
Proof. intros. right. lia. Qed.

Lemma fail_st_lg s c : lg_core (fail_st data s c) = lg_core s.
Proof.
  unfold fail_st. destruct (ls_mark data s); destruct (c && fail_clears (pc data s)); reflexivity.
Qed.

(** a sync in a control state where a lost cursor means a snapshot *)
Lemma lg_do_sync s k s1 :
  inv s -> (cur data s = Lost -> verify s = VSnap) -> do_sync s k = Some s1 ->
  cur data s1 <> Lost.
Proof.
  intros H Hv Ed A. destruct (do_sync_cur _ _ _ _ _ _ H Ed) as [_ [C2 _]].
  destruct (C2 A) as [B1 B2]. apply B2. apply Hv. exact B1.
Qed.

Lemma strict_verify_snap s :
  (cur data s = Lost -> l0 data s = [] \/ cgen data s < gen data s) ->
  cur data (strict_ss data s) = Lost -> verify (strict_ss data s) = VSnap.
Proof.
  intros LG A. change (cur data (strict_ss data s)) with (cur data s) in A.
  destruct (LG A) as [B|B].
  - unfold Machine.verify. change (l0 data (strict_ss data s)) with (l0 data s). rewrite B. reflexivity.
  - apply fresh_verify_snap; try reflexivity.
    change (cgen data (strict_ss data s)) with (cgen data s).
    change (gen data (strict_ss data s)) with (gen data s). lia.
Qed.

(** ** [f_LG] *)
Lemma LG_step s l s' :
  inv s -> safe2 s -> head_label data true s l = true -> step s l = Some s' ->
  (cur data s' = Lost -> l0 data s' = [] \/ cgen data s' < gen data s').
Proof.
  intros H [Hs LG WF KL] Hh E.
  pose proof (s_G _ _ _ Hs) as G.
  assert (Same : lg_core s = lg_core s' ->
                 (cur data s' = Lost -> l0 data s' = [] \/ cgen data s' < gen data s'))
    by (intros A; eapply lg_same; eauto).
  assert (Commit : forall t r s1, do_commit data s t r = Some s1 ->
                   (cur data s1 = Lost -> l0 data s1 = [] \/ cgen data s1 < gen data s1)).
  { intros t r s1 Ed. destruct (do_commit_facts _ _ _ _ _ _ _ _ H Hs Ed)
      as [_ [_ [_ [_ [_ [_ [Hl0 [_ [Hcg Hd]]]]]]]]].
    destruct Hd as [[_ [Hg Hc]]|[_ [Hg _]]].
    - rewrite Hl0, Hcg, Hg, Hc. exact LG.
    - intros _. right. lia. }
  assert (Sync : forall k s1, do_sync s k = Some s1 ->
                 pendingb (pc data s) = false -> lost_okb true (pc data s) (gen data s) = false ->
                 cur data s1 <> Lost).
  { intros k s1 Ed Hp Hl. eapply lg_do_sync; eauto. intros A. eapply lost_sync_snap; eauto. }
  destruct l; cbn [Machine.step] in E.
  - (* AppCommit *) eapply Commit; eauto.
  - destruct (ckpt_allowed data s j); [|discriminate]. inversion E; subst. apply Same. reflexivity.
  - destruct (reset_enabled data s); [|discriminate]. inversion E; subst.
    apply (lg_reset s); [exact G|reflexivity|reflexivity].
  - destruct (opened data s); [discriminate|]. destruct (pc data s); try discriminate.
    inversion E; subst. apply Same. reflexivity.
  - (* LsSync *)
    destruct (pc data s) as [|m hg|m hg|hg|hg| | |m hg pre wn rb| | | | | | |] eqn:Epc; try discriminate.
    + intros A. exfalso. eapply Sync; eauto; rewrite Epc; reflexivity.
    + destruct (do_sync s k) as [s1|] eqn:Ed; [|discriminate]. inversion E; subst.
      intros A. exfalso. eapply (Sync k s1); eauto; rewrite Epc; reflexivity.
    + destruct (do_sync s k) as [s1|] eqn:Ed; [|discriminate]. inversion E; subst.
      intros A. exfalso. eapply (Sync k s1); eauto; rewrite Epc; reflexivity.
    + (* the copy before 20b75a5 is not a step of /repo HEAD *)
      cbn in Hh. rewrite Epc in Hh. cbn in Hh.
      destruct (needs_post true m rb); [discriminate|discriminate].
    + destruct (do_sync s k) as [s1|] eqn:Ed; [|discriminate]. inversion E; subst.
      intros A. exfalso. eapply (Sync k s1); eauto; rewrite Epc; reflexivity.
  - destruct (pc data s); try discriminate. destruct (l0 data s) eqn:El; [discriminate|].
    destruct ((cgen data s =? gen data s) && (cfo data s =? flen data (txs data s))); [|discriminate].
    inversion E; subst. apply Same. unfold lg_core. cbn. rewrite El. reflexivity.
  - destruct (pc data s); try discriminate. destruct (phys data s); [discriminate|].
    destruct (snap data s); [discriminate|].
    destruct (opened data s); [|discriminate]. inversion E; subst. apply Same. reflexivity.
  - destruct (pc data s) as [| |m0 ?| | | | | | | | | | | | ]; try discriminate.
    + destruct m0; try discriminate. inversion E; subst. apply Same. reflexivity.
    + inversion E; subst. apply Same. reflexivity.
  - destruct (pc data s) as [| |m0 ?| | | | | | | | | | | | ]; try discriminate.
    + destruct (mode_eqb m0 Passive); [discriminate|]. inversion E; subst. apply Same. reflexivity.
    + inversion E; subst. apply Same. reflexivity.
  - (* LsCkpt *)
    destruct (pc data s) as [| | | | |m0 ? ?| | | | | | | | | ]; try discriminate.
    destruct (ls_mark data s); [discriminate|].
    destruct m0;
      match type of E with (if ?c then _ else _) = _ => destruct c; [|discriminate] end;
      inversion E; subst; try (apply Same; reflexivity).
    apply (lg_reset s); [exact G|reflexivity|reflexivity].
  - destruct (pc data s); try discriminate. destruct (ls_mark data s); [discriminate|].
    inversion E; subst. apply Same. reflexivity.
  - destruct (pc data s); try discriminate. destruct (ls_mark data s); [|discriminate].
    inversion E; subst. apply Same. reflexivity.
  - destruct (pc data s); try discriminate.
    + destruct (needs_post true m rb); [discriminate|]. inversion E; subst. apply Same. reflexivity.
    + inversion E; subst. apply Same. reflexivity.
  - (* LsBump *)
    destruct (pc data s); try discriminate.
    destruct (do_commit data s t restart) as [s1|] eqn:Ed; [|discriminate]. inversion E; subst.
    change (cur data (set_pc data s1 (PBumped m hg pre wn rb))) with (cur data s1).
    change (l0 data (set_pc data s1 (PBumped m hg pre wn rb))) with (l0 data s1).
    change (cgen data (set_pc data s1 (PBumped m hg pre wn rb))) with (cgen data s1).
    change (gen data (set_pc data s1 (PBumped m hg pre wn rb))) with (gen data s1).
    eapply Commit; eauto.
  - destruct (pc data s) as [| | | | | | | | | |m0 hg0 pre0 wn0 rb0| | | |]; try discriminate.
    destruct (ck_decide m0 hg0 (gen data s) pre0 wn0 rb0); inversion E; subst; apply Same; reflexivity.
  - (* LsBoundarySnap *)
    destruct (pc data s); try discriminate. destruct (phys data s); [discriminate|].
    destruct (opened data s); [|discriminate]. inversion E; subst. cbn. discriminate.
  - destruct (pc data s); try discriminate. destruct (opened data s); [|discriminate].
    inversion E; subst. apply Same. reflexivity.
  - destruct (opened data s); [|discriminate]. inversion E; subst. apply Same. reflexivity.
  - destruct (pc data s); try discriminate. destruct (l0 data s) eqn:El; [discriminate|].
    destruct (snap data s); [discriminate|]. destruct (opened data s); [|discriminate].
    inversion E; subst. apply Same. unfold lg_core. cbn. rewrite El. reflexivity.
  - destruct (snap data s) as [[[[p we] sc] sg]|]; [|discriminate]. destruct (phys data s); [discriminate|].
    destruct (opened data s); [|discriminate].
    match type of E with (if ?c then _ else _) = _ => destruct c end.
    { inversion E; subst. apply Same. reflexivity. }
    destruct (snap_idx data (txs data s) we); [|discriminate].
    inversion E; subst. apply Same. reflexivity.
  - cbn in Hh. discriminate.
  - (* LsPostSync: a lost cursor makes the strict copy a snapshot *)
    destruct (pc data s); try discriminate.
    destruct (needs_post true m rb); [|discriminate].
    destruct (do_sync (strict_ss data s) k) as [s1|] eqn:Ed; [|discriminate]. inversion E; subst.
    intros A. exfalso.
    assert (H1 : inv (strict_ss data s)) by (unfold strict_ss; apply inv_set_ss; exact H).
    eapply (lg_do_sync (strict_ss data s) k s1 H1); [|exact Ed|exact A].
    apply strict_verify_snap. exact LG.
  - (* LsCkptBusy *)
    destruct (pc data s) as [| | | | |m0 ? ?| | | | | | | | | ]; try discriminate.
    destruct m0; try discriminate. destruct (ls_mark data s); [discriminate|].
    match type of E with (if ?c then _ else _) = _ => destruct c; [|discriminate] end.
    inversion E; subst. apply Same. reflexivity.
  - (* LsFail *)
    destruct (in_call (pc data s) && opened data s); [|discriminate]. inversion E; subst.
    apply Same. symmetry. apply fail_st_lg.
Qed.

(** ** [f_WF] *)
Ltac wf_fin WF Epc :=
  cbn; rewrite ?Epc in *; cbn in *;
  first [exact WF | reflexivity | discriminate
        | (let A := fresh "A" in intros A; first [discriminate A | specialize (WF A); cbn in WF;
                                                  first [discriminate | exact WF | reflexivity]])].

Lemma WF_step s l s' :
  inv s -> safe2 s -> step s l = Some s' ->
  (wlock data s' = true -> wl_okb (pc data s') = true).
Proof.
  intros H [Hs LG WF KL] E.
  assert (Commit : forall t r s1, do_commit data s t r = Some s1 -> wlock data s1 = false /\ pc data s1 = pc data s).
  { intros t r s1 Ed. destruct (do_commit_facts _ _ _ _ _ _ _ _ H Hs Ed) as [_ [A [_ [_ [B _]]]]]. auto. }
  destruct (pc data s) eqn:Epc; destruct l; cbn [Machine.step] in E; rewrite ?Epc in E; try discriminate;
    repeat match type of E with
           | (if ?c then _ else _) = Some _ => destruct c eqn:?; try discriminate
           | match ?c with _ => _ end = Some _ => destruct c eqn:?; try discriminate
           | option_map _ ?c = Some _ => destruct c eqn:?; try discriminate; cbn [option_map] in E
           end;
    try (inversion E; subst s'; clear E);
    try solve [wf_fin WF Epc];
    try solve [match goal with Ed : do_commit data s _ _ = Some ?s1 |- _ =>
                 destruct (Commit _ _ _ Ed) as [C1 C2]; cbn; rewrite ?C1; discriminate end];
    try solve [match goal with Ed : Machine.do_sync _ _ _ _ _ _ = Some ?s1 |- _ =>
                 destruct (do_sync_frame _ _ _ _ _ Ed) as [_ [_ [_ [F4 [F5 _]]]]];
                 cbn in F4, F5; cbn; rewrite ?F4, ?F5; wf_fin WF Epc end];
    try solve [unfold fail_st; destruct (ls_mark data s); destruct (clear && fail_clears _); cbn; discriminate];
    try solve [match goal with Ed : Machine.do_sync _ _ _ _ _ _ = Some ?s1, En : needs_post true ?m ?rb = true |- _ =>
                 destruct (do_sync_frame _ _ _ _ _ Ed) as [_ [_ [_ [F4 _]]]];
                 cbn in F4; cbn; rewrite ?F4; intros A; specialize (WF A);
                 unfold needs_post in En; destruct m; cbn in *; discriminate end].
Qed.

(** ** [f_KL] *)
Lemma KL_step s l s' :
  inv s -> safe2 s -> step s l = Some s' ->
  (lockedb (pc data s') = true -> mark_low (ls_mark data s') = true ->
   backfilled data s' = length (txs data s') -> at_end data s').
Proof.
  intros H [Hs LG WF KL] E.
  pose proof Hs as [K S W L T O N P F Q G Z].
  destruct (pc data s) eqn:Epc; destruct l; cbn [Machine.step] in E; rewrite ?Epc in E; try discriminate;
    repeat match type of E with
           | (if ?c then _ else _) = Some _ => destruct c eqn:?; try discriminate
           | match ?c with _ => _ end = Some _ => destruct c eqn:?; try discriminate
           | option_map _ ?c = Some _ => destruct c eqn:?; try discriminate; cbn [option_map] in E
           end;
    try (inversion E; subst s'; clear E);
    try solve [cbn; rewrite ?Epc; cbn; discriminate];
    try solve [unfold fail_st; destruct (ls_mark data s); destruct (clear && fail_clears _); cbn; discriminate];
    try solve [match goal with Ed : do_commit data s _ _ = Some ?s1 |- _ =>
                 destruct (do_commit_facts _ _ _ _ _ _ _ _ H Hs Ed) as [C0 [_ [_ [_ [C2 _]]]]];
                 cbn; rewrite ?C2, ?Epc; cbn; try discriminate;
                 exfalso; rewrite (W eq_refl) in C0; discriminate end];
    try solve [match goal with Ed : Machine.do_sync _ _ _ _ _ _ = Some ?s1 |- _ =>
                 destruct (do_sync_frame _ _ _ _ _ Ed) as [_ [_ [_ [_ [F5 _]]]]];
                 cbn in F5; cbn; rewrite ?F5, ?Epc; cbn; discriminate end].
  - (* the barrier insert: PCopied Passive -> PLocked *)
    intros _ A B. cbn in A, B. change (at_end data s).
    assert (Hw : wlock data s = false).
    { destruct (wlock data s) eqn:Ew; [|reflexivity]. specialize (WF eq_refl). discriminate. }
    destruct (K Hw A B) as [D|[D|[D|[D|D]]]]; cbn in D; try discriminate.
    + exact D.
    + specialize (P D). discriminate.
    + unfold weakb in D. rewrite Epc in D. cbn in D. discriminate.
  - (* an application checkpoint while the barrier holds the write lock *)
    intros _ A B. cbn in A, B. change (at_end data s).
    match goal with Ha : ckpt_allowed data s j = true |- _ =>
      unfold ckpt_allowed in Ha; apply andb_prop in Ha; destruct Ha as [_ Ha] end.
    destruct (ls_mark data s) as [[|m]|] eqn:Em; cbn in A; try discriminate.
    + match goal with Ha : (j =? backfilled data s) = true |- _ => apply Nat.eqb_eq in Ha end.
      apply KL; [reflexivity|reflexivity|congruence].
    + destruct (N eq_refl) as [D|D]; [specialize (P D); discriminate|discriminate].
  - (* TRUNCATE by the application needs the write lock *)
    exfalso. match goal with Ha : reset_enabled data s = true |- _ =>
      unfold reset_enabled in Ha; rewrite (W eq_refl) in Ha; discriminate end.
  - intros A B C. change (at_end data s). apply KL; [reflexivity|exact B|exact C].
  - intros A B C. change (at_end data s). apply KL; [reflexivity|exact B|exact C].
Qed.

(** ** an error exit with the clearing of commit a1345df keeps [safe] *)
Lemma acquire_some (s : state) : exists m, acquire data s = Some m.
Proof. unfold acquire. destruct (backfilled data s =? length (txs data s)); eauto. Qed.

Lemma safe_LsFail s s' :
  inv s -> safe2 s -> step s (LsFail data true) = Some s' -> safe s'.
Proof.
  intros H [Hs LG WF KL] E. cbn [Machine.step] in E.
  destruct (in_call (pc data s) && opened data s) eqn:Eg; [|discriminate]. inversion E; subst s'. clear E.
  apply andb_prop in Eg. destruct Eg as [Ec Eo].
  pose proof Hs as [K S W L T O N P F Q G Z].
  destruct (acquire_some s) as [am Eam].
  unfold fail_st. cbn [andb].
  destruct (fail_clears (pc data s)) eqn:Efc.
  - (* the read lock had been released in this call: the session is "fresh" again *)
    constructor; unfold freshlostb, weakb, lastoff, flag, openmark, reached;
      destruct (ls_mark data s) eqn:Em; cbn in *; rewrite ?Eo; try discriminate; try reflexivity; try exact G.
    all: try solve [intros _ _ _; right; right; right; right; reflexivity].
    all: try solve [intros A; destruct (LG A) as [B|B]; [left; exact B|];
                    right; right; left; apply negb_true_iff; apply Nat.eqb_neq; lia].
    all: try solve [intros A; congruence].
  - (* before the read lock is released: nothing to clear, the mark was held all along *)
    assert (Em : exists m, ls_mark data s = Some m).
    { destruct (ls_mark data s) eqn:Em; [eauto|]. exfalso.
      destruct (N eq_refl) as [D|D]; [congruence|].
      destruct (pc data s); cbn in *; discriminate. }
    destruct Em as [m0 Em]. rewrite Em.
    assert (HK : wlock data s = false \/ lockedb (pc data s) = true \/ sealedb (pc data s) = true).
    { destruct (wlock data s) eqn:Ew; [right|left; reflexivity]. specialize (WF eq_refl).
      unfold wl_okb in WF. apply orb_prop in WF. destruct WF as [A|A].
      - apply orb_prop in A. destruct A; auto.
      - destruct (pc data s); cbn in *; discriminate. }
    destruct (pc data s) eqn:Epc; cbn in Ec, Efc; try discriminate;
      constructor; unfold freshlostb, weakb, lastoff, flag, openmark, reached in *;
      cbn in *; rewrite ?Eo, ?Em, ?Epc in *; cbn in *; try discriminate; try reflexivity; try assumption.
    all: try solve [intros A; congruence].
    all: try solve [intros A; destruct (L A) as [D|[D|[D|D]]]; first [discriminate D | auto 6]].
    all: try solve [intros _ A B; destruct HK as [Hw|[Hw|Hw]]; try discriminate;
                    destruct (K Hw A B) as [D|[D|[D|[D|D]]]];
                    first [discriminate D | left; exact D | right; right; right; right; exact D]].
    all: try solve [intros _ A B; left; apply KL; auto].
    all: try solve [intros _ A B; left; destruct (S eq_refl) as [_ D]; exact D].
Qed.

(** ** every step of /repo HEAD preserves [safe2]: no side condition *)
Lemma head_window s l :
  safe2 s -> head_label data true s l = true -> (forall c, l <> LsFail data c) ->
  window_ok data true true true s l = true.
Proof.
  intros [Hs LG WF KL] Hh Hnf. destruct l; try reflexivity.
  - destruct restart; reflexivity.
  - (* LsKill: [kill_ok] is [f_LG] *)
    cbn. unfold kill_ok. destruct (cur data s) eqn:Ec; try reflexivity.
    destruct (l0 data s) eqn:El; [reflexivity|].
    destruct (LG eq_refl) as [B|B]; [discriminate|].
    apply negb_true_iff. apply Nat.eqb_neq. lia.
  - cbn in Hh. discriminate.
  - exfalso. eapply Hnf. reflexivity.
Qed.

Theorem safe2_step s l s' :
  inv s -> safe2 s -> head_label data true s l = true -> step s l = Some s' -> safe2 s'.
Proof.
  intros H Hs2 Hh E. constructor.
  - destruct l; try (eapply (safe_step data zero lock true true Hmr); [exact H|apply (f_safe _ Hs2)| |exact E];
                     apply head_window; [exact Hs2|exact Hh|intros c; discriminate]).
    cbn in Hh. subst clear. eapply safe_LsFail; eauto.
  - eapply LG_step; eauto.
  - eapply WF_step; eauto.
  - eapply KL_step; eauto.
Qed.

Lemma init_safe2 s : init_ok data zero lock s -> safe2 s.
Proof.
  intros Hi. pose proof Hi as [H1 [H2 [H3 [H4 [H5 [H6 [H7 [H8 [H9 [H10 [H11 [H12 [H13 [H14 H15]]]]]]]]]]]]]].
  constructor.
  - apply (init_safe data zero lock). exact Hi.
  - intros _. left. exact H9.
  - rewrite H7. discriminate.
  - rewrite H10. discriminate.
Qed.

Lemma run_safe2 ls : forall s s',
  inv s -> safe2 s -> acks_true data s ->
  run s ls = Some s' -> steps_ok s ls -> steps_head s ls ->
  inv s' /\ safe2 s' /\ acks_true data s'.
Proof.
  induction ls as [|l r IH]; intros s s' H Hs Ha E Hok Hh; cbn in *.
  - inversion E; subst. auto.
  - destruct Hok as [Hl Hr]. destruct Hh as [Hh1 Hh2].
    destruct (step s l) as [s1|] eqn:Es; [|discriminate].
    eapply IH; [| | |exact E|exact Hr|exact Hh2].
    + eapply inv_step; eauto.
    + eapply safe2_step; eauto.
    + eapply (step_acks_true data lock true true); [apply (f_safe _ Hs)|exact Ha|exact Es].
Qed.

(** ** C01 / C03 / C04, whole histories of /repo HEAD: all four checkpoint modes, any number
       of sessions, the process killed at ANY instant, ANY litestream call failing at ANY
       point, every interleaving with the application — every acknowledgement restores to
       the image recorded when it was given.  No side condition. *)
Theorem acked_sync_restores_faults_lemma s0 ls s :
  init_ok data zero lock s0 -> run s0 ls = Some s -> steps_ok s0 ls -> steps_head s0 ls ->
  forall n im b, In (n, im, b) (acks data s) ->
  img_eq data (restoreL (firstn n (l0 data s))) im.
Proof.
  intros Hi E Hok Hh n im b Hin.
  destruct (run_safe2 ls s0 s (init_inv _ _ _ _ Hi) (init_safe2 _ Hi) (init_acks_true _ _ _ _ Hi) E Hok Hh)
    as [H [_ Ha]].
  rewrite (Ha n im b Hin) in Hin. apply (i_acks _ _ _ _ H). exact Hin.
Qed.

(** a lost cursor never sits under level-0 files carrying the live salts: what a new
    process (or a session whose call failed) finds on disk never looks continuous when it
    is not *)
Theorem lost_never_looks_continuous_lemma s0 ls s :
  init_ok data zero lock s0 -> run s0 ls = Some s -> steps_ok s0 ls -> steps_head s0 ls ->
  cur data s = Lost -> l0 data s = [] \/ cgen data s < gen data s.
Proof.
  intros Hi E Hok Hh.
  destruct (run_safe2 ls s0 s (init_inv _ _ _ _ Hi) (init_safe2 _ Hi) (init_acks_true _ _ _ _ Hi) E Hok Hh)
    as [_ [Hs _]].
  apply (f_LG _ Hs).
Qed.

End Faults.


(** * /repo HEAD, instantiated *)
Theorem acked_sync_restores_faults (data : Type) (zero : data) (lock : N) s0 ls s :
  init_ok data zero lock s0 -> run data lock true true true true true s0 ls = Some s ->
  steps_ok data lock true true true true true s0 ls ->
  steps_head data lock true true true true true s0 ls ->
  forall n im b, In (n, im, b) (acks data s) ->
  img_eq data (restore data zero lock (firstn n (l0 data s))) im.
Proof. apply acked_sync_restores_faults_lemma. Qed.

(** * F21: an error exit after the read lock was released, before commit a1345df

    FULL (or RESTART): the WAL is completely backfilled and litestream reads at mark 0;
    an application commit restarts the WAL between the pre-checkpoint copy and the PRAGMA,
    the PRAGMA backfills it, the header re-read sees the restart (boundary snapshot
    planned) — and the sequence bump fails (SQLITE_BUSY: the application holds the write
    lock).  The call returns with the sync state of its pre-checkpoint copy.  The
    application's commit restarts the WAL once more; the next sync finds the frame before
    its cursor intact, only known salts, and continues from the new header: the first
    commit is never replicated.  Reproduced on the real code:
    [OPEN S W SW REOPEN W W ACK-PASSIVE OPEN S SW INJ1=3 INJW=pt.ckpt.bump CK-FULL WT- S SW]. *)
Definition fail_steps (clear : bool) : list (label N) :=
  [ AppCommit N [F 1 2 11] false;
    AppCommit N [F 2 2 21] false;
    AppCkpt N 2 2%N;               (* WAL completely backfilled before litestream opens *)
    LsOpen N;                      (* read mark 0 *)
    LsSync N 0;                    (* snapshot, cursor at frame 2 *)
    LsAck N;
    LsCkStart N Full;
    LsSync N 0;                    (* copy before checkpoint: nothing new *)
    AppCommit N [F 1 2 99] true;   (* application commit restarts the WAL: generation 1 *)
    LsRelease N;
    LsCkpt N 1 2%N;                (* FULL backfills it *)
    LsReacquire N;                 (* read mark 0 again *)
    LsMid N;                       (* header changed: restartedBeforeCheckpoint *)
    LsUnlock N;
    LsFail N clear;                (* bumpLitestreamSeq: SQLITE_BUSY; the call returns an error *)
    AppCommit N [F 2 2 55] true;   (* the application's commit restarts the WAL again: generation 2 *)
    LsSync N 1;
    LsAck N ].

Theorem error_exit_after_release_refuted :
  exists (s0 : state N) ls s n im b,
    init_ok N 0%N 1000%N s0 /\ run N 1000%N true true true true true s0 ls = Some s /\
    steps_ok N 1000%N true true true true true s0 ls /\
    In (n, im, b) (acks N s) /\
    ~ img_eq N (restore N 0%N 1000%N (firstn n (l0 N s))) im.
Proof.
  destruct (run N 1000%N true true true true true ex_init (fail_steps false)) as [s|] eqn:E; [|vm_compute in E; discriminate].
  exists ex_init, (fail_steps false), s.
  refute_run E (fail_steps false).
  destruct (acks N s) as [|[[n im] b] r] eqn:Ea; [discriminate|].
  exists n, im, b.
  split; [exact ex_init_ok|]. split; [exact E|]. split.
  - cbn [fail_steps Machine.steps_ok].
    repeat (split; [first [exact I | apply tx_okb_sound; vm_compute; reflexivity]|]; vm_compute Machine.step; cbv iota beta).
    exact I.
  - split; [left; reflexivity|]. intros [_ Hp]. inversion Hv as [[H1 H2 H3]].
    specialize (Hp 1%N). rewrite H1, H2, H3 in Hp.
    assert (11 = 99)%N by (apply Hp; lia). discriminate.
Qed.

(** the same history with the clearing of a1345df: the next sync snapshots *)
Example fail_steps_ok : steps_ok N 1000%N true true true true true ex_init (fail_steps true).
Proof.
  cbn [fail_steps Machine.steps_ok].
  repeat (split; [first [exact I | apply tx_okb_sound; vm_compute; reflexivity]|]; vm_compute Machine.step; cbv iota beta).
  exact I.
Qed.

Example fail_steps_head : steps_head N 1000%N true true true true true ex_init (fail_steps true).
Proof.
  cbn [fail_steps Machine.steps_head].
  repeat (split; [vm_compute; reflexivity|]; vm_compute Machine.step; cbv iota beta).
  exact I.
Qed.

Example fail_steps_run :
  option_map (fun s => (length (l0 N s), gen N s, pc N s, cur N s,
                        map (fun a => (fst (fst a), snd a)) (acks N s),
                        map (fst (restore N 0%N 1000%N (l0 N s))) [1; 2]%N,
                        map (fst (committed N s)) [1; 2]%N))
             (run N 1000%N true true true true true ex_init (fail_steps true))
  = Some (2, 2, Idle, AtLive 1, [(2, true); (1, true)], [99; 55]%N, [99; 55]%N).
Proof. vm_compute. reflexivity. Qed.

(** * F20 repaired: the history of [kill_after_lost_post_copy_refuted] with the copy of
      commit 20b75a5 ([LsPostSync]): the copy snapshots the restarted WAL, the process
      dies, the next process continues from a level-0 chain without a gap *)
Definition kill_fixed_steps : list (label N) :=
  firstn 13 bad2_steps ++
  [ AppCommit N [F 2 2 55] true;   (* restarts the WAL between the re-read and the copy *)
    LsPostSync N 1;                (* the copy after the checkpoint: a snapshot *)
    LsKill N;                      (* the process dies before the header re-read *)
    LsOpen N;
    LsSync N 0;
    LsAck N ].

Example kill_fixed_ok : steps_ok N 1000%N true true true true true ex_init kill_fixed_steps.
Proof.
  cbn [kill_fixed_steps bad2_steps firstn app Machine.steps_ok].
  repeat (split; [first [exact I | apply tx_okb_sound; vm_compute; reflexivity]|]; vm_compute Machine.step; cbv iota beta).
  exact I.
Qed.

Example kill_fixed_head : steps_head N 1000%N true true true true true ex_init kill_fixed_steps.
Proof.
  cbn [kill_fixed_steps bad2_steps firstn app Machine.steps_head].
  repeat (split; [vm_compute; reflexivity|]; vm_compute Machine.step; cbv iota beta).
  exact I.
Qed.

Example kill_fixed_run :
  option_map (fun s => (length (l0 N s), pc N s, cur N s,
                        map (fun a => (fst (fst a), snd a)) (acks N s),
                        map (fst (restore N 0%N 1000%N (l0 N s))) [1; 2]%N,
                        map (fst (committed N s)) [1; 2]%N))
             (run N 1000%N true true true true true ex_init kill_fixed_steps)
  = Some (2, Idle, AtLive 1, [(2, true); (1, true)], [99; 55]%N, [99; 55]%N).
Proof. vm_compute. reflexivity. Qed.

(** the theorem applies to both histories (its hypotheses are satisfiable by runs that
    contain an error exit, a kill and the strict copy) *)
Example faults_theorem_applies :
  forall s, run N 1000%N true true true true true ex_init (fail_steps true) = Some s ->
  forall n im b, In (n, im, b) (acks N s) ->
  img_eq N (restore N 0%N 1000%N (firstn n (l0 N s))) im.
Proof.
  intros s E. eapply acked_sync_restores_faults; [exact ex_init_ok|exact E|exact fail_steps_ok|exact fail_steps_head].
Qed.

Theorem lost_never_looks_continuous (data : Type) (zero : data) (lock : N) s0 ls s :
  init_ok data zero lock s0 -> run data lock true true true true true s0 ls = Some s ->
  steps_ok data lock true true true true true s0 ls ->
  steps_head data lock true true true true true s0 ls ->
  cur data s = Lost -> l0 data s = [] \/ cgen data s < gen data s.
Proof. apply lost_never_looks_continuous_lemma. Qed.

(** * A TRUNCATE checkpoint that comes back busy ([LsCkptBusy]): an application commit lands
      while the read lock is released, the PRAGMA backfills what it can and does not reset
      the WAL; the header is unchanged after the bump, the call returns, the next sync
      continues incrementally and nothing is lost *)
Definition busy_truncate_steps : list (label N) :=
  [ AppCommit N [F 1 2 11] false;
    AppCommit N [F 2 2 21] false;
    LsOpen N;                      (* read mark 2 *)
    LsSync N 0;                    (* snapshot, cursor at frame 2 *)
    LsAck N;
    LsCkStart N Truncate;
    LsSync N 0;                    (* copy before checkpoint: nothing new *)
    LsRelease N;
    AppCommit N [F 1 2 99] false;  (* appended while the read lock is released *)
    LsCkptBusy N 2 2%N;            (* busy: frames 1-2 backfilled, no reset *)
    LsReacquire N;                 (* read mark 3 *)
    LsMid N;
    LsUnlock N;
    LsBump N [F 2 2 22] false;     (* appended: the header does not change *)
    LsCmpHdr N;                    (* not restarted *)
    LsSync N 2;                    (* incremental: the application's commit and the bump *)
    LsAck N ].

Example busy_truncate_ok : steps_ok N 1000%N true true true true true ex_init busy_truncate_steps.
Proof.
  cbn [busy_truncate_steps Machine.steps_ok].
  repeat (split; [first [exact I | apply tx_okb_sound; vm_compute; reflexivity]|]; vm_compute Machine.step; cbv iota beta).
  exact I.
Qed.

Example busy_truncate_head : steps_head N 1000%N true true true true true ex_init busy_truncate_steps.
Proof.
  cbn [busy_truncate_steps Machine.steps_head].
  repeat (split; [vm_compute; reflexivity|]; vm_compute Machine.step; cbv iota beta).
  exact I.
Qed.

Example busy_truncate_run :
  option_map (fun s => (length (l0 N s), gen N s, pc N s, cur N s,
                        map (fun a => (fst (fst a), snd a)) (acks N s),
                        map (fst (restore N 0%N 1000%N (l0 N s))) [1; 2]%N,
                        map (fst (committed N s)) [1; 2]%N))
             (run N 1000%N true true true true true ex_init busy_truncate_steps)
  = Some (2, 0, Idle, AtLive 4, [(2, true); (1, true)], [99; 22]%N, [99; 22]%N).
Proof. vm_compute. reflexivity. Qed.
