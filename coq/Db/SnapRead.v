(** The read phase of a snapshot against a WAL that can be restarted under it.

    A snapshot first builds its page map (frame offsets in the -wal file up to the bound measured when
    its position was captured), then reads the pages at those offsets.  Litestream's read lock sits at
    read mark 0 whenever the WAL was completely checkpointed when the lock was taken; that does not
    stop a writer from RESTARTING the WAL, which rewrites the file from its first frame on.  After the
    pages are read the snapshot therefore compares the WAL header's salts with the ones it started from
    (/repo commit 482a715) and fails when they changed.

    This file proves that this check is sufficient for EVERY sequence of writer steps between the two
    phases, and that the weaker-looking check "the LAST frame of the range still carries the old
    salts" (as verify does for the last synced frame) is not: a restarted WAL shorter than the range
    overwrites leading frames and leaves the last one intact (seed C02f; the scripts
    snapshot-during-restart of the C02 harness are this witness on the real code).

    WAL file: header generation (stands for the salts), number of live frames, and every frame slot of
    the file (stale tail included) tagged with the generation that wrote it. *)
From Coq Require Import List Arith Lia Bool.
Import ListNotations.

Section SnapRead.
Variable data : Type.

Record wal := mkW { hdr : nat; live : nat; slots : list (nat * data) }.

(** overwrite [fs] into [l] from position [i] on, extending the list when needed *)
Fixpoint overwrite (l : list (nat * data)) (i : nat) (fs : list (nat * data)) : list (nat * data) :=
  match i, l with
  | O, _ => fs ++ skipn (length fs) l
  | S i', [] => fs              (* unreachable under [wf] (i <= length l) *)
  | S i', x :: tl => x :: overwrite tl i' fs
  end.

Definition tag (g : nat) (ds : list data) : list (nat * data) := map (fun d => (g, d)) ds.

(** writer steps *)
Inductive wstep :=
| Commit (ds : list data)     (* frames appended after the live frames of the current generation *)
| Restart (ds : list data).   (* the WAL is restarted: new salts, frames written from slot 0 on (at least one) *)

Definition wf (w : wal) : Prop := live w <= length (slots w).

Definition wstep_run (w : wal) (s : wstep) : wal :=
  match s with
  | Commit ds => mkW (hdr w) (live w + length ds) (overwrite (slots w) (live w) (tag (hdr w) ds))
  | Restart ds => mkW (S (hdr w)) (length ds) (overwrite (slots w) 0 (tag (S (hdr w)) ds))
  end.

Definition run (w : wal) (ss : list wstep) : wal := fold_left wstep_run ss w.

Lemma overwrite_length l : forall i fs, i <= length l ->
  length (overwrite l i fs) = Nat.max (length l) (i + length fs).
Proof.
  induction l as [|x tl IH]; intros [|i] fs Hi; cbn [overwrite length] in *; try lia.
  - rewrite app_length, skipn_nil. cbn. lia.
  - rewrite app_length, skipn_length. cbn [length]. lia.
  - rewrite IH by lia. lia.
Qed.

Lemma overwrite_firstn l : forall i fs n, n <= i -> i <= length l ->
  firstn n (overwrite l i fs) = firstn n l.
Proof.
  induction l as [|x tl IH]; intros [|i] fs [|n] Hn Hi; cbn [overwrite firstn length] in *; try lia; try reflexivity.
  rewrite IH by lia. reflexivity.
Qed.

Lemma wf_step w s : wf w -> wf (wstep_run w s).
Proof.
  unfold wf. intros H. destruct s as [ds|ds]; cbn [wstep_run live slots].
  - rewrite overwrite_length by exact H. unfold tag. rewrite map_length. lia.
  - rewrite overwrite_length by lia. unfold tag. rewrite map_length. lia.
Qed.

(** the header generation never decreases, and a restart makes it strictly larger *)
Lemma hdr_mono_step w s : hdr w <= hdr (wstep_run w s).
Proof. destruct s; cbn; lia. Qed.

Lemma hdr_mono ss : forall w, hdr w <= hdr (run w ss).
Proof.
  induction ss as [|s tl IH]; intros w; cbn [run fold_left]; [lia|].
  specialize (IH (wstep_run w s)). unfold run in IH. pose proof (hdr_mono_step w s). lia.
Qed.

(** * the header check of 482a715 is sufficient *)
Theorem header_recheck_sound_lemma : forall ss w n,
  wf w -> n <= live w ->
  hdr (run w ss) = hdr w ->
  firstn n (slots (run w ss)) = firstn n (slots w) /\ n <= live (run w ss).
Proof.
  induction ss as [|s tl IH]; intros w n Hwf Hn Hh; cbn [run fold_left] in *; [split; [reflexivity|exact Hn]|].
  destruct s as [ds|ds].
  - (* a commit appends behind the live frames: the range is untouched *)
    assert (E : firstn n (slots (wstep_run w (Commit ds))) = firstn n (slots w)).
    { cbn [wstep_run slots]. apply overwrite_firstn; [lia|exact Hwf]. }
    destruct (IH (wstep_run w (Commit ds)) n (wf_step w _ Hwf)) as [A B].
    + cbn [wstep_run live]. lia.
    + cbn [wstep_run hdr] in *. exact Hh.
    + split; [unfold run in A; rewrite A; exact E|exact B].
  - (* a restart changes the header for good *)
    exfalso. pose proof (hdr_mono tl (wstep_run w (Restart ds))) as M.
    unfold run in M. cbn [wstep_run hdr] in M, Hh. rewrite Hh in M. lia.
Qed.

(** * ... the last-frame check is not *)
Definition last_frame_check (w0 w1 : wal) (n : nat) : bool :=
  match nth_error (slots w1) (n - 1) with
  | Some (g, _) => Nat.eqb g (hdr w0)
  | None => false
  end.

End SnapRead.

Theorem last_frame_recheck_refuted_lemma :
  exists (w : wal nat) (ss : list (wstep nat)) (n : nat),
    wf nat w /\ n <= live nat w /\
    last_frame_check nat w (run nat w ss) n = true /\
    firstn n (slots nat (run nat w ss)) <> firstn n (slots nat w).
Proof.
  exists (mkW nat 7 3 [(7, 10); (7, 11); (7, 12)]), [Restart nat [99]], 3.
  split; [unfold wf; cbn; lia|]. split; [cbn; lia|]. split; [reflexivity|]. cbn. discriminate.
Qed.

(** non-vacuity of the sound direction: commits behind the range, header unchanged *)
Example header_recheck_example :
  let w := mkW nat 7 2 [(7, 10); (7, 11); (6, 55)] in
  let w' := run nat w [Commit nat [12; 13]] in
  wf nat w /\ hdr nat w' = hdr nat w /\ slots nat w' = [(7, 10); (7, 11); (7, 12); (7, 13)].
Proof. unfold wf. cbn. repeat split; lia. Qed.
