(** List / image lemmas used by the invariant proofs of Db/Machine.v. *)
From Coq Require Import List NArith Bool Lia Arith.
From LS Require Import Db.Image Db.Machine.
Import ListNotations.
Open Scope nat_scope.

Section Lemmas.
Variable data : Type.
Variable zero : data.
Variable lock : N.

Local Notation tx := (tx data).
Local Notation txs_ok := (txs_ok data lock).
Local Notation tx_ok := (tx_ok data lock).
Local Notation restoreL := (restore data zero lock).

Lemma last_commit_snoc c a f :
  f_commit data f <> 0%N -> last_commit data c (a ++ [f]) = f_commit data f.
Proof.
  intros H. rewrite last_commit_app. cbn.
  destruct (N.eqb (f_commit data f) 0) eqn:E; [apply N.eqb_eq in E; contradiction|reflexivity].
Qed.

Lemma tx_ok_nonempty s t : tx_ok s t -> t <> [].
Proof. intros [[a [f [H _]]] _]. subst. destruct a; discriminate. Qed.

Lemma tx_ok_commit_indep s t a b : tx_ok s t -> last_commit data a t = last_commit data b t.
Proof.
  intros [[x [f [H Hc]]] _]. subst. rewrite !last_commit_snoc by assumption. reflexivity.
Qed.

Lemma txs_ok_app s a b :
  txs_ok s (a ++ b) <-> txs_ok s a /\ txs_ok (last_commit data s (concat a)) b.
Proof.
  revert s. induction a as [|t r IH]; intros s; cbn [app concat Machine.txs_ok last_commit].
  - tauto.
  - rewrite last_commit_app. rewrite IH. tauto.
Qed.

Lemma txs_ok_nonempty s ts : txs_ok s ts -> Forall (fun t => t <> []) ts.
Proof.
  revert s. induction ts as [|t r IH]; intros s H; constructor.
  - destruct H as [H _]. eapply tx_ok_nonempty; eauto.
  - destruct H as [_ H]. eapply IH; eauto.
Qed.

Lemma txs_commit_indep s ts a b :
  ts <> [] -> txs_ok s ts -> last_commit data a (concat ts) = last_commit data b (concat ts).
Proof.
  intros Hne H. destruct (exists_last Hne) as [r [t E]]. subst ts.
  apply txs_ok_app in H. destruct H as [_ [H _]].
  rewrite concat_app. cbn [concat]. rewrite app_nil_r. rewrite !last_commit_app.
  eapply tx_ok_commit_indep; eauto.
Qed.

Lemma grow_chunk ts : forall s, txs_ok s ts ->
  forall pg, (s < pg)%N -> (pg <= last_commit data s (concat ts))%N -> pg <> lock ->
  last_data data pg (concat ts) <> None.
Proof.
  induction ts as [|t r IH]; intros s H pg H1 H2 Hl; cbn [concat last_commit] in *.
  - lia.
  - destruct H as [Ht Hr]. rewrite last_commit_app in H2. rewrite last_data_app.
    destruct (N.ltb (last_commit data s t) pg) eqn:E.
    + apply N.ltb_lt in E. specialize (IH _ Hr pg E H2 Hl).
      destruct (last_data data pg (concat r)); [discriminate|contradiction].
    + apply N.ltb_ge in E. destruct Ht as [_ [_ Hg]].
      specialize (Hg pg H1 E Hl).
      destruct (last_data data pg (concat r)); [discriminate|exact Hg].
Qed.

Lemma last_data_lock_tx t : Forall (fun f => f_pg data f <> lock) t -> last_data data lock t = None.
Proof.
  induction 1 as [|f r Hf _ IH]; cbn; [reflexivity|].
  rewrite IH. destruct (N.eqb (f_pg data f) lock) eqn:E; [apply N.eqb_eq in E; contradiction|reflexivity].
Qed.

Lemma last_data_lock s ts : txs_ok s ts -> last_data data lock (concat ts) = None.
Proof.
  revert s. induction ts as [|t r IH]; intros s H; cbn [concat]; [reflexivity|].
  destruct H as [[_ [Hl _]] Hr]. rewrite last_data_app. rewrite (IH _ Hr).
  apply last_data_lock_tx. exact Hl.
Qed.

Lemma view_lock_zero (b : N -> data) sz s ts :
  b lock = zero -> txs_ok s ts -> fst (view data (b, sz) (concat ts)) lock = zero.
Proof. intros Hb H. unfold view. cbn [fst]. rewrite (last_data_lock _ _ H). exact Hb. Qed.

Lemma concat_firstn_skipn (ts : list tx) c k :
  concat (firstn c ts) ++ concat (firstn k (skipn c ts)) = concat (firstn (c + k) ts).
Proof.
  revert ts. induction c as [|c IH]; intros ts; cbn [firstn skipn concat app plus].
  - reflexivity.
  - destruct ts as [|t r]; cbn [firstn skipn concat].
    + destruct k; reflexivity.
    + rewrite <- app_assoc. rewrite IH. reflexivity.
Qed.

Lemma firstn_app_le {A} (a b : list A) n : n <= length a -> firstn n (a ++ b) = firstn n a.
Proof.
  intros H. rewrite firstn_app. replace (n - length a) with 0 by lia. cbn. apply app_nil_r.
Qed.

Lemma txs_ok_firstn s ts c : txs_ok s ts -> txs_ok s (firstn c ts).
Proof.
  intros H. rewrite <- (firstn_skipn c ts) in H. apply txs_ok_app in H. tauto.
Qed.

Lemma txs_ok_chunk s ts c k :
  txs_ok s ts -> txs_ok (last_commit data s (concat (firstn c ts))) (firstn k (skipn c ts)).
Proof.
  intros H. rewrite <- (firstn_skipn c ts) in H. apply txs_ok_app in H. destruct H as [_ H].
  apply txs_ok_firstn. exact H.
Qed.

Lemma flen_app (a b : list tx) : flen data (a ++ b) = flen data a + flen data b.
Proof. unfold flen. rewrite concat_app, app_length. reflexivity. Qed.

Lemma idx_flen (ts : list tx) : forall c,
  Forall (fun t => t <> []) ts -> c <= length ts ->
  idx data ts (flen data (firstn c ts)) = Some c.
Proof.
  induction ts as [|t r IH]; intros c Hne Hc.
  - cbn in Hc. assert (c = 0) by lia. subst. reflexivity.
  - destruct c as [|c]; [reflexivity|].
    cbn [firstn]. unfold flen. cbn [concat]. rewrite app_length. fold (flen data (firstn c r)).
    inversion Hne as [|? ? Ht Hr]; subst.
    destruct t as [|f t']; [contradiction|]. cbn [length plus].
    cbn [idx length].
    replace (S (length t') <=? S (length t' + flen data (firstn c r))) with true
      by (symmetry; apply Nat.leb_le; lia).
    replace (S (length t' + flen data (firstn c r)) - S (length t')) with (flen data (firstn c r)) by lia.
    rewrite IH; [reflexivity|assumption|cbn in Hc; lia].
Qed.

Lemma flen_zero_nil (ts : list tx) : Forall (fun t => t <> []) ts -> flen data ts = 0 -> ts = [].
Proof.
  intros H E. destruct ts as [|t r]; [reflexivity|].
  inversion H; subst. destruct t; [contradiction|]. unfold flen in E. cbn in E. lia.
Qed.

Lemma flen_firstn_full (ts : list tx) c :
  Forall (fun t => t <> []) ts -> c <= length ts ->
  flen data (firstn c ts) = flen data ts -> c = length ts.
Proof.
  intros Hne Hc E.
  assert (Hs : flen data (skipn c ts) = 0).
  { rewrite <- (firstn_skipn c ts) in E at 2. rewrite flen_app in E. lia. }
  assert (Hn : skipn c ts = []).
  { apply flen_zero_nil; [|exact Hs].
    rewrite <- (firstn_skipn c ts) in Hne. apply Forall_app in Hne. tauto. }
  assert (length (skipn c ts) = 0) by (rewrite Hn; reflexivity).
  rewrite skipn_length in H. lia.
Qed.

Lemma restore_snoc l x : restoreL (l ++ [x]) = apply data zero lock (restoreL l) x.
Proof. unfold restore. rewrite fold_left_app. reflexivity. Qed.

Lemma length_overwrite (p : list (slot data)) n new :
  n <= length p -> n + length new <= length (overwrite data p n new).
Proof.
  intros H. unfold overwrite. rewrite !app_length, firstn_length. lia.
Qed.

Lemma img_eq_sym (a b : image data) : img_eq data a b -> img_eq data b a.
Proof.
  intros [H1 H2]. split; [congruence|]. intros pg Hp Hq. symmetry. apply H2; [assumption|]. rewrite H1. assumption.
Qed.

Lemma view_nil_eq (b : image data) : img_eq data b (view data b []).
Proof. split; reflexivity. Qed.

Lemma view_pair_eq (b : image data) fs :
  img_eq data (view data b fs) (fst (view data b fs), snd (view data b fs)).
Proof. split; reflexivity. Qed.

End Lemmas.
