(** Model of /repo/db.go: verifyWithExecutor, lastPageMatch, detectFullCheckpoint.

    The WAL file is a byte string (as in Wal/Reader.v).  The last level-0 LTX
    file is observed through its header fields and, for lastPageMatch, through
    (pgno, content digest) pairs of its pages; the frame at the previous WAL
    offset is observed through the digest of its page data (the harness computes
    both digests with the same function; equality of digests stands for
    bytes.Equal). *)
From Coq Require Import List NArith ZArith Bool Lia.
From LS Require Import Base.Bytes Base.PMap Wal.Reader.
Import ListNotations.
Open Scope N_scope.

Record l0hdr := mkL0 {
  l_off : N;          (* WALOffset *)
  l_size : N;         (* WALSize *)
  l_s1 : N; l_s2 : N; (* WALSalt1/2 *)
  l_commit : N;
  l_pages : list (N * N) }.  (* (pgno, digest) of every page of the file, in file order *)

Record sinfo := mkInfo {
  i_offset : N;
  i_s1 : N; i_s2 : N;
  i_prevCommit : N;
  i_snap : bool;
  i_clear : bool }.          (* clearSyncedToWALEnd *)

Inductive vres := VOk (i : sinfo) | VErr.

(** lastPageMatch: the frame at [prev] (pgno [fpg], salts [fs1 fs2], data digest [fd]) *)
Definition last_page_match (last : l0hdr) (fpg fs1 fs2 fd : N) : bool :=
  if negb (N.eqb fs1 (l_s1 last) && N.eqb fs2 (l_s2 last)) then false
  else existsb (fun pd => N.eqb fpg (fst pd) && N.eqb fd (snd pd)) (l_pages last).

(** detectFullCheckpoint with knownSalts = [hdr salts; last salts] *)
Definition detect_full_checkpoint (w : list N) (hs1 hs2 ls1 ls2 : N) : option bool :=
  match read_header w with
  | HdrOk r =>
      let m := frame_salts_until w (r_ps r) ls1 ls2 in
      Some (existsb (fun p => negb (pair_eqb p (hs1, hs2)) && negb (pair_eqb p (ls1, ls2))) m)
  | _ => None
  end.

(** [wal = None]: the -wal file does not exist.  [fdig]: digest of the page data
    of the frame at offset (last end - frame size), supplied by the observer
    ([None] when that frame cannot be read completely). *)
Definition verify_gen (fresh_rule : bool) (ps : N) (pos : N) (last : l0hdr) (syncedToWALEnd : bool)
           (lastOff : N) (wal : option (list N)) (fdig : option N) : vres :=
  let fsz := ps + WALFrameHeaderSize in
  if N.eqb pos 0 then VOk (mkInfo WALHeaderSize 0 0 0 true false) else
  let off := l_off last + l_size last in
  let base := mkInfo off (l_s1 last) (l_s2 last) (l_commit last) true false in
  match wal with
  | None => VErr
  | Some w =>
      let wsz := N.of_nat (length w) in
      if N.ltb wsz off then
        if syncedToWALEnd then
          if N.ltb wsz WALHeaderSize then VErr
          else VOk (mkInfo WALHeaderSize (be32 w 16) (be32 w 20) (l_commit last) false true)
        else VOk base
      else
      if N.ltb wsz WALHeaderSize then VErr else
      let hs1 := be32 w 16 in
      let hs2 := be32 w 20 in
      let saltMatch := N.eqb hs1 (l_s1 last) && N.eqb hs2 (l_s2 last) in
      let incr := mkInfo off (l_s1 last) (l_s2 last) (l_commit last) false false in
      if N.eqb off WALHeaderSize then (if saltMatch then VOk incr else VOk base) else
      if N.ltb off fsz then VErr (* prevWALOffset negative *) else
      let prev := off - fsz in
      if N.eqb prev WALHeaderSize then (if saltMatch then VOk incr else VOk base) else
      if N.ltb prev WALHeaderSize then VErr else
      match fdig with
      | None => VErr   (* cannot read last synced wal page *)
      | Some fd =>
          let i := N.to_nat prev in
          if negb (last_page_match last (be32 w i) (be32 w (i + 8)) (be32 w (i + 12)) fd)
          then VOk base
          else if negb saltMatch then
            (* no sync of this session has reached the WAL end yet (reachedWALEnd = false): the old
               WAL held frames never copied - only a snapshot is safe *)
            if fresh_rule && N.eqb lastOff 0 then VOk (mkInfo WALHeaderSize hs1 hs2 (l_commit last) true false) else
            match detect_full_checkpoint w hs1 hs2 (l_s1 last) (l_s2 last) with
            | None => VErr
            | Some true => VOk (mkInfo WALHeaderSize hs1 hs2 (l_commit last) true false)
            | Some false => VOk (mkInfo WALHeaderSize hs1 hs2 (l_commit last) false false)
            end
          else VOk incr
      end
  end.

(** [lastOff] stands for syncState.reachedWALEnd (0 = no sync of the current open
    session has reached the end of the WAL yet; the harness passes the flag).  Before
    the repair of F18 the code used lastSyncedWALOffset = 0 here, which stopped
    protecting a chunked catch-up after its first chunk.  [verify] is the function of the current code;
    [verify_gen false] is the decision before the repair of F2 (the fresh-session rule
    did not exist), kept for the witness of the repaired defect. *)
Definition verify := verify_gen true.
