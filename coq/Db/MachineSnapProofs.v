(** snapshot_matches_position over whole histories, and the refutation of each
    side condition of [Machine.snap_ok] (F9, F9b among them). *)
From Coq Require Import List NArith Bool Lia Arith.
From LS Require Import Db.Image Db.Machine Db.MachineLemmas Db.MachineInv Db.MachineSnap Db.MachineProofs.
Import ListNotations.
Open Scope nat_scope.

Section SnapMain.
Variable data : Type.
Variable zero : data.
Variable lock : N.
Variable midcheck : bool.
Variable postcopy : bool.
Variable recheck : bool.
Variable freshrule : bool.
Variable reachrule : bool.

Local Notation run := (run data lock midcheck postcopy recheck freshrule reachrule).
Local Notation steps_ok := (steps_ok data lock midcheck postcopy recheck freshrule reachrule).
Local Notation steps_snap := (steps_snap data lock midcheck postcopy recheck freshrule reachrule).

Lemma run_sinv ls : forall s s',
  inv data zero lock s -> sinv data zero lock s ->
  run s ls = Some s' -> steps_ok s ls -> steps_snap s ls ->
  inv data zero lock s' /\ sinv data zero lock s'.
Proof.
  induction ls as [|l r IH]; intros s s' H Hn E Hok Hsn; cbn in *.
  - inversion E; subst. auto.
  - destruct Hok as [Hl Hr]. destruct Hsn as [Hs1 Hs2].
    destruct (step data lock midcheck postcopy recheck freshrule reachrule s l) as [s1|] eqn:Es; [|discriminate].
    eapply IH; [| |exact E|exact Hr|exact Hs2].
    + eapply inv_step; eauto.
    + eapply sinv_step; eauto.
Qed.

(** every snapshot read, in every history of any control flow (all checkpoint
    modes, sessions, error exit of the bump included), holds exactly the restore
    of the level-0 chain at the position it advertises - provided the three
    side conditions of [snap_ok] at its two steps *)
Theorem snapshot_matches_position_lemma s0 ls s :
  init_ok data zero lock s0 -> run s0 ls = Some s -> steps_ok s0 ls -> steps_snap s0 ls ->
  forall p im, In (p, im) (snaps data s) ->
  img_eq data (restore data zero lock (firstn p (l0 data s))) im.
Proof.
  intros Hi E Hok Hsn p im Hin.
  destruct (run_sinv ls s0 s (init_inv _ _ _ _ Hi) (init_sinv _ _ _ _ Hi) E Hok Hsn) as [_ Hn].
  apply (n_done _ _ _ _ Hn). exact Hin.
Qed.

End SnapMain.

(** * Non-vacuity: a snapshot taken between two syncs, with an application
      commit and a partial application checkpoint in between *)
Definition snap_steps : list (label N) :=
  [ AppCommit N [F 1 2 11] false;
    AppCommit N [F 2 2 21] false;
    LsOpen N;                      (* read mark 2 *)
    LsSync N 0;                    (* snapshot file, cursor at frame 2 *)
    LsSnapPos N true;              (* position 1, walEndOffset = frame 2 *)
    AppCommit N [F 1 2 99] false;  (* frame 3, after the position *)
    AppCkpt N 2 2%N;               (* backfill up to litestream's mark = the position *)
    LsSync N 1;                    (* the sync goes on: position 2 *)
    LsSnapRead N true ].                (* content = position 1, not 2 *)

Example snap_steps_ok : steps_ok N 1000%N true true true true true ex_init snap_steps.
Proof.
  cbn [snap_steps Machine.steps_ok].
  repeat (split; [first [exact I | apply tx_okb_sound; vm_compute; reflexivity]|]; vm_compute Machine.step; cbv iota beta).
  exact I.
Qed.

Example snap_steps_snap : steps_snap N 1000%N true true true true true ex_init snap_steps.
Proof.
  cbn [snap_steps Machine.steps_snap].
  repeat (split; [reflexivity|]; vm_compute Machine.step; cbv iota beta).
  exact I.
Qed.

Example snap_run :
  option_map (fun s => (length (l0 N s),
                        map (fun x => (fst x, snd (snd x), map (fst (snd x)) [1; 2]%N)) (snaps N s),
                        map (fst (restore N 0%N 1000%N (firstn 1 (l0 N s)))) [1; 2]%N,
                        map (fst (committed N s)) [1; 2]%N))
             (run N 1000%N true true true true true ex_init snap_steps)
  = Some (2, [(1, 2%N, [11; 21]%N)], [11; 21]%N, [99; 21]%N).
Proof. vm_compute. reflexivity. Qed.

(** * Each side condition dropped *)

Ltac refute_snap E steps pg want got :=
  match type of E with run N 1000%N ?a ?b ?c ?d ?e ex_init steps = Some ?s =>
    let Hv := fresh "Hv" in
    assert (Hv : option_map (fun s => match snaps N s with
                                      | (p, im) :: _ =>
                                          (snd (restore N 0%N 1000%N (firstn p (l0 N s))),
                                           fst (restore N 0%N 1000%N (firstn p (l0 N s))) pg, fst im pg)
                                      | [] => (0%N, 0%N, 0%N)
                                      end)
                            (run N 1000%N a b c d e ex_init steps) = Some (want, got))
      by (vm_compute; reflexivity);
    rewrite E in Hv; cbn [option_map] in Hv
  end.

Ltac finish_refute Hv pg :=
  match goal with
  | Ea : snaps N ?s = (?p, ?im) :: _ |- _ =>
      split; [left; reflexivity|]; intros [_ Hp]; try rewrite Ea in Hv; inversion Hv as [[H1 H2 H3]];
      specialize (Hp pg); rewrite H1, H2, H3 in Hp
  end.

(** the advertised position is not in the live WAL generation: litestream was
    closed while the application restarted the WAL and checkpointed the new
    generation into the database file; the snapshot of the re-opened session
    reads no WAL frames (salts differ) and a database file that is ahead of the
    position *)
Definition snap_bad_pos_steps : list (label N) :=
  [ AppCommit N [F 1 2 11] false;
    AppCommit N [F 2 2 21] false;
    LsOpen N;
    LsSync N 0;
    LsClose N;
    AppCkpt N 2 2%N;
    AppCommit N [F 1 2 99] true;   (* restarts the WAL: generation 1 *)
    AppCkpt N 1 2%N;               (* ... and it is backfilled *)
    LsOpen N;
    LsSnapPos N true;
    LsSnapRead N true ].

Theorem snapshot_position_not_live_refuted :
  exists (s0 : state N) ls s p im,
    init_ok N 0%N 1000%N s0 /\ run N 1000%N true true true true true s0 ls = Some s /\
    steps_ok N 1000%N true true true true true s0 ls /\
    In (p, im) (snaps N s) /\
    ~ img_eq N (restore N 0%N 1000%N (firstn p (l0 N s))) im.
Proof.
  destruct (run N 1000%N true true true true true ex_init snap_bad_pos_steps) as [s|] eqn:E; [|vm_compute in E; discriminate].
  exists ex_init, snap_bad_pos_steps, s.
  refute_snap E snap_bad_pos_steps 1%N (2%N, 11%N) 99%N.
  destruct (snaps N s) as [|[p im] r] eqn:Ea; [discriminate|].
  exists p, im.
  split; [exact ex_init_ok|]. split; [exact E|]. split.
  - cbn [snap_bad_pos_steps Machine.steps_ok].
    repeat (split; [first [exact I | apply tx_okb_sound; vm_compute; reflexivity]|]; vm_compute Machine.step; cbv iota beta).
    exact I.
  - finish_refute Hv 1%N. assert (11 = 99)%N by (apply Hp; lia). discriminate.
Qed.

(** F19, repaired by 482a715 / a637c7e: a commit restarts the WAL between
    capturing the position and reading (read mark 0 does not prevent it, chkMu
    only keeps litestream's own checkpoints out); the reader before those
    commits ([LsSnapRead false]) takes the NEW generation's frames up to the
    stale offset *)
Definition snap_restart_steps : list (label N) :=
  [ AppCommit N [F 1 2 11] false;
    AppCommit N [F 2 2 21] false;
    AppCkpt N 2 2%N;               (* completely backfilled before litestream opens: mark 0 *)
    LsOpen N;
    LsSync N 0;                    (* cursor at frame 2 *)
    LsSnapPos N true;              (* walEndOffset = frame 2 *)
    AppCommit N [F 1 0 99; F 2 2 98] true;  (* restarts the WAL with a two-frame transaction *)
    LsSnapRead N false ].

Theorem snapshot_restart_between_refuted :
  exists (s0 : state N) ls s p im,
    init_ok N 0%N 1000%N s0 /\ run N 1000%N true true true true true s0 ls = Some s /\
    steps_ok N 1000%N true true true true true s0 ls /\
    In (p, im) (snaps N s) /\
    ~ img_eq N (restore N 0%N 1000%N (firstn p (l0 N s))) im.
Proof.
  destruct (run N 1000%N true true true true true ex_init snap_restart_steps) as [s|] eqn:E; [|vm_compute in E; discriminate].
  exists ex_init, snap_restart_steps, s.
  refute_snap E snap_restart_steps 1%N (2%N, 11%N) 99%N.
  destruct (snaps N s) as [|[p im] r] eqn:Ea; [discriminate|].
  exists p, im.
  split; [exact ex_init_ok|]. split; [exact E|]. split.
  - cbn [snap_restart_steps Machine.steps_ok].
    repeat (split; [first [exact I | apply tx_okb_sound; vm_compute; reflexivity]|]; vm_compute Machine.step; cbv iota beta).
    exact I.
  - finish_refute Hv 1%N. assert (11 = 99)%N by (apply Hp; lia). discriminate.
Qed.

(** F9: litestream is closed while the application commits two transactions and
    checkpoints them; the re-opened session catches up in budgeted chunks
    (MaxSyncWALBytes > 0) and a snapshot is taken between two chunks: the
    database file already holds the second transaction's page *)
Definition snap_f9_steps : list (label N) :=
  [ AppCommit N [F 3 0 13; F 1 3 11] false;   (* the database grows to 3 pages *)
    AppCommit N [F 1 3 12] false;
    LsOpen N;
    LsSync N 0;                    (* cursor at frame 3 *)
    LsClose N;
    AppCommit N [F 3 3 33] false;
    AppCommit N [F 2 3 99] false;  (* page 2 is in no earlier frame *)
    AppCkpt N 4 3%N;               (* offline backfill of everything *)
    LsOpen N;
    LsSync N 1;                    (* first chunk only *)
    LsSnapPos N true;
    LsSnapRead N true ].

Theorem snapshot_between_chunks_after_offline_backfill_refuted :
  exists (s0 : state N) ls s p im,
    init_ok N 0%N 1000%N s0 /\ run N 1000%N true true true true true s0 ls = Some s /\
    steps_ok N 1000%N true true true true true s0 ls /\
    In (p, im) (snaps N s) /\
    ~ img_eq N (restore N 0%N 1000%N (firstn p (l0 N s))) im.
Proof.
  destruct (run N 1000%N true true true true true ex_init snap_f9_steps) as [s|] eqn:E; [|vm_compute in E; discriminate].
  exists ex_init, snap_f9_steps, s.
  refute_snap E snap_f9_steps 2%N (3%N, 20%N) 99%N.
  destruct (snaps N s) as [|[p im] r] eqn:Ea; [discriminate|].
  exists p, im.
  split; [exact ex_init_ok|]. split; [exact E|]. split.
  - cbn [snap_f9_steps Machine.steps_ok].
    repeat (split; [first [exact I | apply tx_okb_sound; vm_compute; reflexivity]|]; vm_compute Machine.step; cbv iota beta).
    exact I.
  - finish_refute Hv 2%N. assert (20 = 99)%N by (apply Hp; lia). discriminate.
Qed.

(** F9b: a FULL checkpoint call fails at the bump (SQLITE_BUSY) after the
    application restarted the WAL in its window: the position stays in the old
    generation with the cached lastSyncedWALOffset; before snapshotWALEndOffset
    compared the salts ([LsSnapPos false]) the snapshot read the NEW
    generation up to that stale offset *)
Definition snap_f9b_steps : list (label N) :=
  [ AppCommit N [F 1 2 11] false;
    AppCommit N [F 2 2 21] false;
    LsOpen N;
    LsSync N 0;                    (* cursor and lastSyncedWALOffset at frame 2 *)
    LsCkStart N Full;
    LsSync N 0;
    LsRelease N;
    AppCkpt N 2 2%N;
    AppCommit N [F 1 0 99; F 2 2 98] true;  (* restarts the WAL *)
    LsCkpt N 1 2%N;
    LsReacquire N;
    LsMid N;
    LsUnlock N;
    LsBumpFail N;                  (* the call returns an error; state as it is *)
    LsSnapPos N false;
    LsSnapRead N true ].

Theorem snapshot_after_failed_bump_refuted :
  exists (s0 : state N) ls s p im,
    init_ok N 0%N 1000%N s0 /\ run N 1000%N true true true true true s0 ls = Some s /\
    steps_ok N 1000%N true true true true true s0 ls /\
    In (p, im) (snaps N s) /\
    ~ img_eq N (restore N 0%N 1000%N (firstn p (l0 N s))) im.
Proof.
  destruct (run N 1000%N true true true true true ex_init snap_f9b_steps) as [s|] eqn:E; [|vm_compute in E; discriminate].
  exists ex_init, snap_f9b_steps, s.
  refute_snap E snap_f9b_steps 1%N (2%N, 11%N) 99%N.
  destruct (snaps N s) as [|[p im] r] eqn:Ea; [discriminate|].
  exists p, im.
  split; [exact ex_init_ok|]. split; [exact E|]. split.
  - cbn [snap_f9b_steps Machine.steps_ok].
    repeat (split; [first [exact I | apply tx_okb_sound; vm_compute; reflexivity]|]; vm_compute Machine.step; cbv iota beta).
    exact I.
  - finish_refute Hv 1%N. assert (11 = 99)%N by (apply Hp; lia). discriminate.
Qed.

(** the same history with the guards of 482a715 / a637c7e: the read fails, no
    snapshot is produced *)
Example snap_restart_fixed_run :
  option_map (fun s => (length (snaps N s), snap N s))
             (run N 1000%N true true true true true ex_init
                  (firstn 7 snap_restart_steps ++ [LsSnapRead N true]))
  = Some (0, None).
Proof. vm_compute. reflexivity. Qed.
