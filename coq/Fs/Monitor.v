(** The trace monitor of C11: a boolean checker over the model alphabet that
    encodes the ordering rules of the property per final name

      last write  <  fsync of that inode  <  rename to the final name
                  <  fsync of the directory  <  ack marker,

    no write / truncate / create through a final name (declared exception: a
    follow-mode restore output opened in place), and an unlink of a final LTX
    name only after a superseding file has been published durably.  "The
    directory" is a directory OBJECT (Model.v): an fsync through a descriptor
    opened before the directory was removed and re-created does not count.

    The monitor runs the file-system model of [Model.v] on the trace and
    evaluates a guard before each call; its extra (ghost) state is the set of
    inodes that have been published under a final name, the acknowledged names
    and the final LTX names seen so far. *)
From Coq Require Import List NArith Bool Lia.
From LS Require Import Fs.Model.
Import ListNotations.
Open Scope N_scope.

Record mstate : Type := mkM {
  mfs : fs;
  mpub : N -> bool;        (* inode was renamed to a strict final name *)
  mack : list path;        (* acknowledged and not unlinked since *)
  mever : list path;       (* every name ever acknowledged *)
  mknown : list path       (* final LTX names published or initially present *)
}.

Definition m_init : mstate := mkM fs_empty (fun _ => false) [] [] [].

(** final names whose content must never be partial *)
Definition strictb (p : path) : bool :=
  match pcls p with
  | CTmp => false
  | CFinal inplace => negb inplace
  | CLtx _ _ _ _ => true
  end.
Definition finalb (p : path) : bool :=
  match pcls p with CTmp => false | _ => true end.

Definition is_some {A} (o : option A) : bool := match o with Some _ => true | None => false end.

(** the name is bound now, durably bound, and no pending directory operation
    could leave it unbound *)
Definition present_allb (s : fs) (p : path) : bool :=
  is_some (svol s p) && is_some (sdur s p) &&
  forallb (fun e => negb (path_eqb (fst e) p) || is_some (snd e)) (spend s).

(** the name is bound, the DURABLE binding is the very same inode, and no
    directory operation on it is pending: after a power failure the name can
    only resolve to that inode.  A rename over an existing durable entry is a
    pending directory operation exactly like a rename creating the entry: until
    the directory is flushed the OLD file may reappear, so the replacement must
    not be acknowledged. *)
Definition settledb (s : fs) (p : path) : bool :=
  match svol s p, sdur s p with
  | Some a, Some b => N.eqb a b && forallb (fun e => negb (path_eqb (fst e) p)) (spend s)
  | _, _ => false
  end.

(** [q] supersedes [p]: another final LTX name whose TXID range contains that
    of [p], in the same tree or in the replica (the replica supersedes local
    copies). *)
Definition compatb (tq tp : N) : bool := N.eqb tq tp || N.eqb tq 1.
Definition supersedesb (q p : path) : bool :=
  match pcls q, pcls p with
  | CLtx tq _ aq bq, CLtx tp _ ap bp =>
      negb (path_eqb q p) && compatb tq tp && N.leb aq ap && N.leb bp bq
  | _, _ => false
  end.

Definition fd_ino (s : fs) (fd : N) : option N :=
  match sfd s fd with Some (FFile ino _) => Some ino | _ => None end.

(** reason codes (0 = allowed) *)
Definition R_CREAT_FINAL : N := 1.     (* create / truncate-open of a final name *)
Definition R_WRITE_PUBLISHED : N := 2. (* write or truncate reaching a published inode *)
Definition R_RENAME_UNSYNCED : N := 3. (* rename to a final name of an inode with unsynced data *)
Definition R_RENAME_SOURCE : N := 4.   (* rename whose source is not a bound staging name *)
Definition R_ACK_NOT_DURABLE : N := 5. (* ack of a name whose directory entry (new OR replaced) / data is not durable *)
Definition R_UNLINK_UNSUPERSEDED : N := 6.
Definition R_ACK_NOT_FINAL : N := 7.
Definition R_OPEN_FINAL : N := 8.      (* open for writing of a strict final name *)
Definition R_DIR_REPLACED_LIVE : N := 9. (* mkdir/rmdir at a path whose directory still holds a known final name *)

(** a directory object may only be removed / replaced once none of the final
    names the monitor knows (acknowledged, ever acknowledged, published LTX
    names) is still bound in it *)
Definition dir_dead (m : mstate) (d : N) : bool :=
  forallb (fun q => negb (in_dir d q && is_some (svol (mfs m) q))) (mack m ++ mever m ++ mknown m).

Definition guard_write (m : mstate) (fd : N) : N :=
  match fd_ino (mfs m) fd with
  | Some ino => if mpub m ino then R_WRITE_PUBLISHED else 0
  | None => 0
  end.

Definition guard (m : mstate) (c : syscall) : N :=
  let s := mfs m in
  match c with
  | Creat fd p trunc =>
      if finalb p then R_CREAT_FINAL
      else match svol s p with
           | Some ino => if mpub m ino then R_WRITE_PUBLISHED else 0
           | None => 0
           end
  | OpenW fd p => if strictb p then R_OPEN_FINAL else 0
  | OpenDir _ _ => 0
  | Write fd _ => guard_write m fd
  | Pwrite fd _ _ => guard_write m fd
  | Ftruncate fd _ => guard_write m fd
  | Fsync _ => 0
  | Close _ => 0
  | Rename src dst =>
      if finalb src then R_RENAME_SOURCE
      else match svol s src with
           | None => R_RENAME_SOURCE
           | Some ino =>
               if finalb dst then
                 if idirty (sino s ino) then R_RENAME_UNSYNCED else 0
               else if mpub m ino then R_WRITE_PUBLISHED else 0
           end
  | Unlink p =>
      match pcls p with
      | CLtx _ _ _ _ =>
          match svol s p with
          | None => 0
          | Some _ =>
              if existsb (fun q => supersedesb q p && present_allb s q) (mknown m) then 0
              else R_UNLINK_UNSUPERSEDED
          end
      | _ => 0
      end
  | Mkdir d => if dir_dead m d then 0 else R_DIR_REPLACED_LIVE
  | Rmdir d => if dir_dead m d then 0 else R_DIR_REPLACED_LIVE
  | Ack p =>
      if negb (finalb p) then R_ACK_NOT_FINAL
      else if settledb s p &&
              match svol s p with
              | Some ino => negb (idirty (sino s ino))
              | None => false
              end
           then 0 else R_ACK_NOT_DURABLE
  end.

Definition remove_path (p : path) (l : list path) : list path :=
  filter (fun q => negb (path_eqb q p)) l.

Definition is_ltx (p : path) : bool :=
  match pcls p with CLtx _ _ _ _ => true | _ => false end.

Definition mstep (m : mstate) (c : syscall) : mstate :=
  let s' := step (mfs m) c in
  match c with
  | Rename src dst =>
      match svol (mfs m) src with
      | Some ino =>
          mkM s' (if strictb dst then (fun x => if N.eqb x ino then true else mpub m x) else mpub m)
              (mack m) (mever m)
              (if is_ltx dst then dst :: mknown m else mknown m)
      | None => mkM s' (mpub m) (mack m) (mever m) (mknown m)
      end
  | Unlink p => mkM s' (mpub m) (remove_path p (mack m)) (mever m) (mknown m)
  | Ack p => mkM s' (mpub m) (p :: mack m) (p :: mever m) (mknown m)
  | _ => mkM s' (mpub m) (mack m) (mever m) (mknown m)
  end.

(** [check i m t]: 0 and the final state if every guard passes; otherwise the
    1-based index (counted from [i]) of the first offending call and its reason *)
Fixpoint check (i : N) (m : mstate) (t : list syscall) : N * N * mstate :=
  match t with
  | [] => (0, 0, m)
  | c :: tl =>
      let r := guard m c in
      if N.eqb r 0 then check (i + 1) (mstep m c) tl
      else (i, r, m)
  end.

Definition mrun (t : list syscall) (m : mstate) : mstate := fold_left mstep t m.

Definition run_ok (t : list syscall) (m : mstate) : bool :=
  N.eqb (snd (fst (check 1 m t))) 0.

Definition publish_ok (t : list syscall) : bool := run_ok t m_init.

(** ** Initial states: files already present (and durable) before the trace *)

Definition add_file (m : mstate) (p : path) (size : N) : mstate :=
  let s := mfs m in
  match svol s p with
  | Some _ => m
  | None =>
      let ino := snext s in
      let c := [W 0 size] in
      mkM (mkFs (updN (sino s) ino (mkInode c c false)) (updP (svol s) p (Some ino))
                (updP (sdur s) p (Some ino)) (spend s) (sfd s) (ino + 1) (sgen s))
          (if strictb p then (fun x => if N.eqb x ino then true else mpub m x) else mpub m)
          (mack m) (mever m)
          (if is_ltx p then p :: mknown m else mknown m)
  end.

Definition m_of_files (l : list (path * N)) : mstate :=
  fold_left (fun m e => add_file m (fst e) (snd e)) l m_init.
