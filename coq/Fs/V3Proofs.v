(** The legacy v0.3.x restore protocol (RestoreV3) satisfies the monitor, with
    and without the SQLite checkpoint phase, for all write sizes. *)
From Coq Require Import List NArith Bool Lia.
From LS Require Import Fs.Model Fs.Monitor Fs.Publish Fs.Proofs Fs.ProtoProofs.
Import ListNotations.
Open Scope N_scope.

Lemma pwrites_ok fd2 pw : forall m i off,
  sfd (mfs m) fd2 = Some (FFile i off) -> mpub m i = false ->
  let t := map (fun ol => Pwrite fd2 (fst ol) (snd ol)) pw in
  run_ok t m = true /\
  mpub (mrun t m) = mpub m /\
  sfd (mfs (mrun t m)) fd2 = Some (FFile i off) /\
  svol (mfs (mrun t m)) = svol (mfs m).
Proof.
  induction pw as [|[o l] pw IH]; intros m i off Hfd Hp; simpl.
  - repeat split; auto.
  - assert (guard m (Pwrite fd2 o l) = 0) as Hg.
    { simpl. unfold guard_write, fd_ino. now rewrite Hfd, Hp. }
    assert (sfd (mfs (mstep m (Pwrite fd2 o l))) fd2 = Some (FFile i off)) as Hfd'.
    { simpl. rewrite Hfd. simpl. exact Hfd. }
    destruct (IH (mstep m (Pwrite fd2 o l)) i off Hfd' Hp) as (H1 & H2 & H3 & H4).
    split; [apply run_ok_cons; auto|]. split; [exact H2|]. split; [exact H3|].
    transitivity (svol (mfs (mstep m (Pwrite fd2 o l)))); [exact H4|].
    simpl. rewrite Hfd. reflexivity.
Qed.

Lemma v3_checkpoint_ok fd2 tmp pw size m i :
  finalb tmp = false -> svol (mfs m) tmp = Some i -> mpub m i = false ->
  let t := v3_checkpoint fd2 tmp pw size in
  run_ok t m = true /\
  svol (mfs (mrun t m)) tmp = Some i /\
  idirty (sino (mfs (mrun t m)) i) = false.
Proof.
  intros Hf Hv Hp. unfold v3_checkpoint.
  set (m1 := mstep m (Creat fd2 tmp false)).
  assert (guard m (Creat fd2 tmp false) = 0) as Hg by (simpl; now rewrite Hf, Hv, Hp).
  assert (sfd (mfs m1) fd2 = Some (FFile i 0)) as Hfd.
  { unfold m1. simpl. rewrite Hv. simpl. apply updN_same. }
  assert (svol (mfs m1) = svol (mfs m)) as Hv1 by (unfold m1; simpl; now rewrite Hv).
  assert (mpub m1 i = false) as Hp1 by (unfold m1; simpl; exact Hp).
  destruct (pwrites_ok fd2 pw m1 i 0 Hfd Hp1) as (P1 & P2 & P3 & P4).
  set (t1 := map (fun ol => Pwrite fd2 (fst ol) (snd ol)) pw) in *.
  set (m2 := mrun t1 m1) in *.
  assert (guard_write m2 fd2 = 0) as Hgw.
  { unfold guard_write, fd_ino. rewrite P3, P2, Hp1. reflexivity. }
  change (mrun (Creat fd2 tmp false :: t1 ++ [Ftruncate fd2 size; Fsync fd2; Close fd2]) m)
    with (mrun (t1 ++ [Ftruncate fd2 size; Fsync fd2; Close fd2]) m1).
  unfold mrun. rewrite fold_left_app. fold (mrun t1 m1). fold m2.
  split.
  - apply run_ok_cons. split; [exact Hg|]. fold m1.
    apply run_ok_app_intro; [exact P1|]. fold m2.
    apply run_ok_cons. split; [exact Hgw|].
    apply run_ok_cons. split; [reflexivity|]. apply run_ok_cons. split; reflexivity.
  - simpl. repeat (rewrite P3; simpl). rewrite !updN_same. simpl.
    split; [|reflexivity]. rewrite P4, Hv1. exact Hv.
Qed.

(** [restore_v3_ok]: the v0.3.x restore as the code issues it (snapshot
    flushed by downloadSnapshotV3; optional checkpoint phase flushed by SQLite)
    is accepted from any invariant state, for all sizes *)
Theorem restore_v3_ok m fd fd2 dfd dir nm nm' ws ckpt :
  Inv m -> stage_ready m (mkPath dir nm' CTmp) ->
  run_ok (restore_v3 fd fd2 dfd dir nm nm' ws ckpt) m = true.
Proof.
  intros HI Hr. unfold restore_v3, restore_v3_seq.
  set (tmp := mkPath dir nm' CTmp). set (final := mkPath dir nm (CFinal false)).
  destruct (stage_ok fd tmp ws m HI eq_refl Hr) as (S1 & S2 & _).
  destruct (stage_run fd tmp ws (mfs m)) as (Hv & _ & Hd & _).
  apply run_ok_app_intro; [exact S1|].
  set (m2 := mrun (stage fd tmp ws) m) in *.
  assert (svol (mfs m2) tmp = Some (stage_ino tmp (mfs m))) as Hv2 by (unfold m2; rewrite mfs_mrun; exact Hv).
  assert (idirty (sino (mfs m2) (stage_ino tmp (mfs m))) = false) as Hd2 by (unfold m2; rewrite mfs_mrun; exact Hd).
  assert (mpub m2 (stage_ino tmp (mfs m)) = false) as Hp2.
  { rewrite S2. unfold stage_ino. unfold stage_ready in Hr. fold tmp in Hr.
    destruct (svol (mfs m) tmp) eqn:E; [exact Hr|].
    destruct (mpub m (snext (mfs m))) eqn:Ep; [|reflexivity]. apply (inv_publt _ HI) in Ep. lia. }
  destruct ckpt as [[pw size]|]; cbv iota beta.
  - destruct (v3_checkpoint_ok fd2 tmp pw size m2 _ eq_refl Hv2 Hp2) as (C1 & C2 & C3).
    apply run_ok_app_intro; [exact C1|].
    eapply tail_ok; eauto.
  - simpl app. eapply tail_ok; eauto.
Qed.

(** the seeded breakage: downloadSnapshotV3 without its Sync, snapshot-only
    generation: the rename publishes unflushed data -- rejected (reason 3);
    with WAL segments SQLite's checkpoint fsync hides the missing flush *)
Example restore_v3_without_snapshot_sync :
  let tmp := mkPath 1 2 CTmp in
  let final := mkPath 1 1 (CFinal false) in
  let tail := Rename tmp final :: fsync_dir 9 final ++ [Ack final] in
  fst (check 1 m_init ([Creat 5 tmp true; Write 5 8192; Close 5] ++ tail)) = (4, R_RENAME_UNSYNCED) /\
  publish_ok ([Creat 5 tmp true; Write 5 8192; Close 5] ++ v3_checkpoint 6 tmp [(4096, 4096)] 8192 ++ tail) = true /\
  publish_ok (restore_v3 5 6 9 1 1 2 [8192] None) = true /\
  publish_ok (restore_v3 5 6 9 1 1 2 [8192] (Some ([(4096, 4096)], 8192))) = true.
Proof. vm_compute. repeat split; reflexivity. Qed.
