(** A small, pessimistic POSIX file-system model for the crash properties
    C11 (power failure) and C03 (process kill).

    - An inode has a volatile content (what a reader sees), a durable content
      (what the last [fsync] of the inode made stable) and a dirty flag.
    - Directory entries (path -> inode) likewise have a volatile and a durable
      version; every entry operation that has not been made durable by an
      [fsync] of its directory is kept in [spend], oldest first.
    - [crash] relates a state to every durable state a power failure may leave:
      a dirty inode may hold anything at all (any prefix of the written data or
      garbage); for each name, either the durable entry survives or the effect
      of any one pending operation on that name does (any subset of the pending
      operations, applied in order per entry; operations on different names are
      independent, so the two halves of a rename may be separated).
    - Directories are OBJECTS, not path texts: every directory path has a
      generation counter [sgen]; [Mkdir]/[Rmdir] at a path end the life of the
      object that was there (its entries, durable or pending, die with it) and
      a directory descriptor remembers the generation it was opened on, so an
      [fsync] through a descriptor opened before the directory was removed and
      re-created flushes nothing of the live directory.  (The durability of a
      directory's own link in its parent is outside the model.)
    - [kill] is a process kill: every completed system call persists (the page
      cache survives), only the descriptor table is lost.

    File content is abstract: the log of write/truncate operations applied to
    the inode (offset and length of each write); equal logs = equal content for
    a deterministic writer.  The model is parametric in all write sizes. *)
From Coq Require Import List NArith Bool Lia.
Import ListNotations.
Open Scope N_scope.

(** ** Names *)

(** What a path is for litestream (computed by the harness from the path
    string, syntactically):
    - [CTmp]: a staging name ([*.tmp]) or any other non-final name;
    - [CFinal inplace]: restore output / TXID sidecar; [inplace = true] only for
      the restore output of a follow-mode restore (declared in-place writer);
    - [CLtx tree level mn mx]: a final LTX file name, [tree = 0] the local
      meta directory, [tree = 1] the file replica. *)
Inductive pclass : Type :=
| CTmp
| CFinal (inplace : bool)
| CLtx (tree level mn mx : N).

Record path : Type := mkPath { pdir : N; pnm : N; pcls : pclass }.

Definition pclass_eqb (a b : pclass) : bool :=
  match a, b with
  | CTmp, CTmp => true
  | CFinal x, CFinal y => Bool.eqb x y
  | CLtx t l a1 b1, CLtx t' l' a2 b2 => N.eqb t t' && N.eqb l l' && N.eqb a1 a2 && N.eqb b1 b2
  | _, _ => false
  end.

Definition path_eqb (p q : path) : bool :=
  N.eqb (pdir p) (pdir q) && N.eqb (pnm p) (pnm q) && pclass_eqb (pcls p) (pcls q).

(** ** Content *)

Inductive wr : Type :=
| W (off len : N)      (* bytes [off, off+len) written *)
| T (len : N).         (* truncated to [len] *)

Definition content := list wr.

Definition csize (c : content) : N :=
  fold_left (fun sz w => match w with W o l => N.max sz (o + l) | T l => l end) c 0.

Record inode : Type := mkInode { ivol : content; idur : content; idirty : bool }.

Definition empty_inode : inode := mkInode [] [] false.

(** ** System calls (the model alphabet) *)

Inductive syscall : Type :=
| Creat (fd : N) (p : path) (trunc : bool) (* openat(O_CREAT[|O_TRUNC]) for writing *)
| OpenW (fd : N) (p : path)                (* openat of an existing file for writing, no O_CREAT *)
| OpenDir (fd : N) (d : N)                 (* openat(O_RDONLY) of a directory *)
| Write (fd : N) (len : N)                 (* write / copy_file_range / sendfile at the descriptor's offset *)
| Pwrite (fd : N) (off len : N)
| Ftruncate (fd : N) (len : N)
| Fsync (fd : N)                           (* fsync / fdatasync of a file or directory descriptor *)
| Close (fd : N)
| Rename (src dst : path)
| Unlink (p : path)
| Mkdir (d : N)                            (* mkdir: a NEW directory object at path [d] *)
| Rmdir (d : N)                            (* rmdir / unlinkat(AT_REMOVEDIR): the object at [d] is gone *)
| Ack (p : path).                          (* marker: the operation that published [p] reported success *)

(** ** State *)

Inductive fdesc : Type :=
| FFile (ino off : N)
| FDir (d : N) (gen : N).                  (* directory path and the generation it was opened on *)

Record fs : Type := mkFs {
  sino : N -> inode;
  svol : path -> option N;
  sdur : path -> option N;
  spend : list (path * option N);
  sfd : N -> option fdesc;
  snext : N;
  sgen : N -> N                            (* generation of the directory object at each directory path *)
}.

Definition fs_empty : fs :=
  mkFs (fun _ => empty_inode) (fun _ => None) (fun _ => None) [] (fun _ => None) 1 (fun _ => 0).

Definition updN {A} (f : N -> A) (k : N) (v : A) : N -> A :=
  fun x => if N.eqb x k then v else f x.
Definition updP {A} (f : path -> A) (k : path) (v : A) : path -> A :=
  fun x => if path_eqb x k then v else f x.

Definition with_ino (s : fs) (ino : N) (i : inode) : fs :=
  mkFs (updN (sino s) ino i) (svol s) (sdur s) (spend s) (sfd s) (snext s) (sgen s).
Definition with_fd (s : fs) (fd : N) (d : option fdesc) : fs :=
  mkFs (sino s) (svol s) (sdur s) (spend s) (updN (sfd s) fd d) (snext s) (sgen s).

Definition ino_apply (i : inode) (w : wr) : inode := mkInode (ivol i ++ [w]) (idur i) true.
Definition ino_sync (i : inode) : inode := mkInode (ivol i) (ivol i) false.

Definition in_dir (d : N) (p : path) : bool := N.eqb (pdir p) d.

Definition sync_dir (s : fs) (d : N) : fs :=
  mkFs (sino s) (svol s)
       (fun p => if in_dir d p then svol s p else sdur s p)
       (filter (fun e => negb (in_dir d (fst e))) (spend s))
       (sfd s) (snext s) (sgen s).

(** the directory object at path [d] is replaced / removed: its entries die *)
Definition new_dir (s : fs) (d : N) : fs :=
  mkFs (sino s)
       (fun p => if in_dir d p then None else svol s p)
       (fun p => if in_dir d p then None else sdur s p)
       (filter (fun e => negb (in_dir d (fst e))) (spend s))
       (sfd s) (snext s) (updN (sgen s) d (sgen s d + 1)).

Definition step (s : fs) (c : syscall) : fs :=
  match c with
  | Creat fd p trunc =>
      match svol s p with
      | Some ino =>
          let s1 := if trunc then with_ino s ino (ino_apply (sino s ino) (T 0)) else s in
          with_fd s1 fd (Some (FFile ino 0))
      | None =>
          let ino := snext s in
          mkFs (updN (sino s) ino empty_inode) (updP (svol s) p (Some ino)) (sdur s)
               (spend s ++ [(p, Some ino)]) (updN (sfd s) fd (Some (FFile ino 0))) (ino + 1) (sgen s)
      end
  | OpenW fd p =>
      match svol s p with
      | Some ino => with_fd s fd (Some (FFile ino 0))
      | None => s
      end
  | OpenDir fd d => with_fd s fd (Some (FDir d (sgen s d)))
  | Write fd len =>
      match sfd s fd with
      | Some (FFile ino off) =>
          with_fd (with_ino s ino (ino_apply (sino s ino) (W off len))) fd (Some (FFile ino (off + len)))
      | _ => s
      end
  | Pwrite fd off len =>
      match sfd s fd with
      | Some (FFile ino _) => with_ino s ino (ino_apply (sino s ino) (W off len))
      | _ => s
      end
  | Ftruncate fd len =>
      match sfd s fd with
      | Some (FFile ino _) => with_ino s ino (ino_apply (sino s ino) (T len))
      | _ => s
      end
  | Fsync fd =>
      match sfd s fd with
      | Some (FFile ino _) => with_ino s ino (ino_sync (sino s ino))
      | Some (FDir d g) => if N.eqb g (sgen s d) then sync_dir s d else s
      | None => s
      end
  | Close fd => with_fd s fd None
  | Rename src dst =>
      match svol s src with
      | Some ino =>
          mkFs (sino s) (updP (updP (svol s) src None) dst (Some ino)) (sdur s)
               (spend s ++ [(src, None); (dst, Some ino)]) (sfd s) (snext s) (sgen s)
      | None => s
      end
  | Unlink p =>
      match svol s p with
      | Some _ =>
          mkFs (sino s) (updP (svol s) p None) (sdur s) (spend s ++ [(p, None)]) (sfd s) (snext s) (sgen s)
      | None => s
      end
  | Mkdir d => new_dir s d
  | Rmdir d => new_dir s d
  | Ack _ => s
  end.

Definition run (t : list syscall) (s : fs) : fs := fold_left step t s.

(** ** Power failure *)

Definition crash (s s' : fs) : Prop :=
  (forall p, sdur s' p = sdur s p \/ In (p, sdur s' p) (spend s)) /\
  (forall p, svol s' p = sdur s' p) /\
  spend s' = [] /\
  (forall fd, sfd s' fd = None) /\
  (forall ino, idirty (sino s ino) = false -> ivol (sino s' ino) = idur (sino s ino)) /\
  (forall ino, idur (sino s' ino) = ivol (sino s' ino) /\ idirty (sino s' ino) = false) /\
  (forall d, sgen s' d = sgen s d).

(** ** Process kill: completed system calls persist *)

Definition kill (s : fs) : fs :=
  mkFs (sino s) (svol s) (sdur s) (spend s) (fun _ => None) (snext s) (sgen s).

(** what a reader finds under a name *)
Definition read (s : fs) (p : path) : option content :=
  match svol s p with
  | Some ino => Some (ivol (sino s ino))
  | None => None
  end.
