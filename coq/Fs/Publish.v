(** The five publish protocols of litestream as system-call lists, parametric
    in the write sizes [ws] (one element per write(2)/copy_file_range(2) call),
    the descriptors and the names.  Each mirrors the order of calls in the Go
    source (and in the strace output of the real process):

    - local L0        db.go sync():   OpenFile(tmp, O_RDWR|O_CREATE|O_TRUNC); encoder writes;
                                      Sync; Close; Rename; FsyncDir; return
    - replica write   file/replica_client.go WriteLTXFile: CreateFile(tmp); io.Copy; Sync;
                                      Close; Rename; FsyncDir; (Chtimes); return
    - restore output  replica.go Restore: Create(tmp); DecodeDatabaseTo; Sync; Close; Rename;
                                      FsyncDir; return
    - TXID sidecar    replica.go WriteTXIDFile: Create(tmp); Fprintln; Sync; Close; Rename;
                                      FsyncDir; return
    - fetched baseline db.go checkDatabaseBehindReplica: Create(tmp); io.Copy; Sync; Close;
                                      Rename; FsyncDir; return
      (before commit b0f06c5 the FsyncDir was missing: finding F10, kept below as
       [baseline_fetch_prefix] = "pre-fix", refuted in ProtoProofs.v)

    [internal.FsyncDir] is open(dir) / fsync / close. *)
From Coq Require Import List NArith Bool.
From LS Require Import Fs.Model.
Import ListNotations.
Open Scope N_scope.

Definition stage (fd : N) (tmp : path) (ws : list N) : list syscall :=
  Creat fd tmp true :: map (Write fd) ws ++ [Fsync fd; Close fd].

Definition fsync_dir (dfd : N) (p : path) : list syscall :=
  [OpenDir dfd (pdir p); Fsync dfd; Close dfd].

(** stage, flush, publish, flush the directory, report success *)
Definition publish (fd dfd : N) (tmp final : path) (ws : list N) : list syscall :=
  stage fd tmp ws ++ Rename tmp final :: fsync_dir dfd final ++ [Ack final].

Definition local_l0 (fd dfd dir nm nm' txid : N) (ws : list N) : list syscall :=
  publish fd dfd (mkPath dir nm' CTmp) (mkPath dir nm (CLtx 0 0 txid txid)) ws.

Definition replica_write (fd dfd dir nm nm' level mn mx : N) (ws : list N) : list syscall :=
  publish fd dfd (mkPath dir nm' CTmp) (mkPath dir nm (CLtx 1 level mn mx)) ws.

Definition restore_output (fd dfd dir nm nm' : N) (ws : list N) : list syscall :=
  publish fd dfd (mkPath dir nm' CTmp) (mkPath dir nm (CFinal false)) ws.

Definition txid_sidecar (fd dfd dir nm nm' : N) (len : N) : list syscall :=
  publish fd dfd (mkPath dir nm' CTmp) (mkPath dir nm (CFinal false)) [len].

(** the sequence the code issued BEFORE the fix of F10: no directory fsync before returning *)
Definition baseline_fetch_prefix_seq (fd : N) (tmp final : path) (ws : list N) : list syscall :=
  stage fd tmp ws ++ [Rename tmp final; Ack final].

Definition baseline_fetch_prefix (fd dir nm nm' txid : N) (ws : list N) : list syscall :=
  baseline_fetch_prefix_seq fd (mkPath dir nm' CTmp) (mkPath dir nm (CLtx 0 0 txid txid)) ws.

(** the sequence the code issues now (FsyncDir after the rename, commit b0f06c5) *)
Definition baseline_fetch (fd dfd dir nm nm' txid : N) (ws : list N) : list syscall :=
  publish fd dfd (mkPath dir nm' CTmp) (mkPath dir nm (CLtx 0 0 txid txid)) ws.

(** legacy v0.3.x restore (replica.go RestoreV3): downloadSnapshotV3 is
    Create(tmp); io.Copy; Sync; Close.  With WAL segments, applyWALSegmentsV3
    then lets SQLite checkpoint them into the same file: open(tmp, O_RDWR|O_CREAT)
    (no truncation), pwrites, ftruncate, fsync, close -- [ckpt].  With no
    segments it returns at once ([pw = None]).  Then Rename; FsyncDir; return. *)
Definition v3_checkpoint (fd2 : N) (tmp : path) (pw : list (N * N)) (size : N) : list syscall :=
  Creat fd2 tmp false :: map (fun ol => Pwrite fd2 (fst ol) (snd ol)) pw ++ [Ftruncate fd2 size; Fsync fd2; Close fd2].

Definition restore_v3_seq (fd fd2 dfd : N) (tmp final : path) (ws : list N)
           (ckpt : option (list (N * N) * N)) : list syscall :=
  stage fd tmp ws ++
  match ckpt with Some (pw, size) => v3_checkpoint fd2 tmp pw size | None => [] end ++
  Rename tmp final :: fsync_dir dfd final ++ [Ack final].

Definition restore_v3 (fd fd2 dfd dir nm nm' : N) (ws : list N) (ckpt : option (list (N * N) * N)) : list syscall :=
  restore_v3_seq fd fd2 dfd (mkPath dir nm' CTmp) (mkPath dir nm (CFinal false)) ws ckpt.

(** content written by the staging phase: one [W] per write at the running offset *)
Fixpoint wlog (off : N) (ws : list N) : content :=
  match ws with
  | [] => []
  | w :: tl => W off w :: wlog (off + w) tl
  end.
