(** The publish protocols of [Publish.v]:
    - [protocol_ok]: they satisfy the monitor for all write sizes (so
      [monitor_sound] applies to them);
    - [baseline_fetch_prefix_refuted]: the sequence the code issued for the fetched
      baseline L0 before the fix of finding F10 (no directory fsync) is rejected, and
      a power failure after the acknowledgement can lose the file;
    - [kill_anywhere]: under process-kill semantics, at every prefix of every
      protocol, the final name holds its previous content or the complete new
      content, and no other name is affected. *)
From Coq Require Import List NArith Bool Lia Arith PeanoNat.
From LS Require Import Fs.Model Fs.Monitor Fs.Publish Fs.Proofs.
Import ListNotations.
Open Scope N_scope.

(** ** File-system level facts about the staging phase *)

Section Stage.
Variables (fd : N) (tmp : path).

Lemma writes_run ws : forall s i off,
  sfd s fd = Some (FFile i off) ->
  let s' := run (map (Write fd) ws) s in
  ivol (sino s' i) = ivol (sino s i) ++ wlog off ws /\
  (exists off', sfd s' fd = Some (FFile i off')) /\
  svol s' = svol s /\ sdur s' = sdur s /\ spend s' = spend s /\ snext s' = snext s /\
  (forall j, j <> i -> sino s' j = sino s j).
Proof.
  induction ws as [|w ws IH]; intros s i off Hfd; simpl.
  - rewrite app_nil_r. repeat split; eauto.
  - rewrite Hfd.
    set (s1 := with_fd (with_ino s i (ino_apply (sino s i) (W off w))) fd (Some (FFile i (off + w)))).
    assert (sfd s1 fd = Some (FFile i (off + w))) as H1 by (unfold s1; simpl; apply updN_same).
    destruct (IH s1 i (off + w) H1) as (Hc & Hf & Hv & Hd & Hp & Hn & Ho).
    repeat split; try assumption.
    + rewrite Hc. unfold s1. simpl. rewrite updN_same. simpl. now rewrite <- app_assoc.
    + intros j Hj. rewrite (Ho j Hj). unfold s1. simpl. now rewrite updN_other.
Qed.

(** the inode the staging phase writes to *)
Definition stage_ino (s : fs) : N :=
  match svol s tmp with Some i => i | None => snext s end.

(** what the staging phase starts from: nothing, or a stale staging file
    that O_TRUNC empties *)
Definition fresh_content (s : fs) : content :=
  match svol s tmp with Some i => ivol (sino s i) ++ [T 0] | None => [] end.

Lemma stage_run ws s :
  let s' := run (stage fd tmp ws) s in
  let i := stage_ino s in
  svol s' tmp = Some i /\
  ivol (sino s' i) = fresh_content s ++ wlog 0 ws /\
  idirty (sino s' i) = false /\
  (forall q, q <> tmp -> svol s' q = svol s q) /\
  sdur s' = sdur s /\
  (forall j, j <> i -> sino s' j = sino s j) /\
  (forall q v, In (q, v) (spend s') -> In (q, v) (spend s) \/ (q = tmp /\ v = Some i)).
Proof.
  cbv zeta. unfold stage.
  change (run (Creat fd tmp true :: map (Write fd) ws ++ [Fsync fd; Close fd]) s)
    with (run (map (Write fd) ws ++ [Fsync fd; Close fd]) (step s (Creat fd tmp true))).
  set (s1 := step s (Creat fd tmp true)).
  assert (sfd s1 fd = Some (FFile (stage_ino s) 0) /\ svol s1 tmp = Some (stage_ino s) /\
          ivol (sino s1 (stage_ino s)) = fresh_content s /\
          (forall q, q <> tmp -> svol s1 q = svol s q) /\ sdur s1 = sdur s /\
          (forall j, j <> stage_ino s -> sino s1 j = sino s j) /\
          (forall q v, In (q, v) (spend s1) -> In (q, v) (spend s) \/ (q = tmp /\ v = Some (stage_ino s)))) as H1.
  { unfold s1, stage_ino, fresh_content. simpl. destruct (svol s tmp) eqn:E; simpl.
    - rewrite !updN_same. rewrite E. simpl. repeat split; auto.
      intros j Hj. now rewrite updN_other.
    - rewrite !updN_same, updP_same. simpl. repeat split; auto.
      + intros q Hq. now rewrite updP_other.
      + intros j Hj. now rewrite updN_other.
      + intros q v Hin. apply in_app_or in Hin as [Hin|[Hin|[]]]; [auto|]. inversion Hin. auto. }
  destruct H1 as (Hfd & Hv & Hc & Hq & Hd & Ho & Hp).
  unfold run. rewrite fold_left_app. fold (run (map (Write fd) ws) s1).
  change (fold_left step [Fsync fd; Close fd] (run (map (Write fd) ws) s1))
    with (step (step (run (map (Write fd) ws) s1) (Fsync fd)) (Close fd)).
  destruct (writes_run ws s1 _ _ Hfd) as (Wc & [off' Wf] & Wv & Wd & Wp & Wn & Wo).
  remember (run (map (Write fd) ws) s1) as s2 eqn:Es2. clear Es2.
  simpl. rewrite Wf. simpl. rewrite updN_same. simpl.
  repeat split.
  - rewrite Wv. exact Hv.
  - rewrite Wc, Hc. reflexivity.
  - intros q Hne. rewrite Wv. now apply Hq.
  - now rewrite Wd.
  - intros j Hj. rewrite updN_other by assumption. rewrite (Wo j Hj). now apply Ho.
  - intros q v Hin. rewrite Wp in Hin. now apply Hp.
Qed.

End Stage.

(** ** protocol_ok *)

Lemma forallb_filter_dir (l : list (path * option N)) (final : path) :
  forallb (fun e => negb (path_eqb (fst e) final) || is_some (snd e))
          (filter (fun e => negb (in_dir (pdir final) (fst e))) l) = true.
Proof.
  apply forallb_forall. intros e Hin. apply filter_In in Hin as [_ Hd].
  destruct (path_eqb (fst e) final) eqn:E; [|reflexivity].
  apply path_eqb_eq in E. rewrite E in Hd. unfold in_dir in Hd. rewrite N.eqb_refl in Hd. discriminate.
Qed.

Lemma forallb_filter_dir' (l : list (path * option N)) (final : path) :
  forallb (fun e => negb (path_eqb (fst e) final))
          (filter (fun e => negb (in_dir (pdir final) (fst e))) l) = true.
Proof.
  apply forallb_forall. intros e Hin. apply filter_In in Hin as [_ Hd].
  destruct (path_eqb (fst e) final) eqn:E; [|reflexivity].
  apply path_eqb_eq in E. rewrite E in Hd. unfold in_dir in Hd. rewrite N.eqb_refl in Hd. discriminate.
Qed.

Lemma mfs_mrun t : forall m, mfs (mrun t m) = run t (mfs m).
Proof. induction t as [|c t IH]; intro m; simpl; [reflexivity|]. now rewrite IH, mfs_mstep. Qed.

(** monitor-level run of the staging phase *)
Definition stage_ready (m : mstate) (tmp : path) : Prop :=
  match svol (mfs m) tmp with Some i => mpub m i = false | None => True end.

Lemma writes_ok fd ws : forall m i off,
  sfd (mfs m) fd = Some (FFile i off) -> mpub m i = false ->
  run_ok (map (Write fd) ws) m = true /\
  mpub (mrun (map (Write fd) ws) m) = mpub m /\
  mack (mrun (map (Write fd) ws) m) = mack m.
Proof.
  induction ws as [|w ws IH]; intros m i off Hfd Hp; simpl.
  - repeat split; reflexivity.
  - assert (guard m (Write fd w) = 0) as Hg.
    { simpl. unfold guard_write, fd_ino. now rewrite Hfd, Hp. }
    assert (sfd (mfs (mstep m (Write fd w))) fd = Some (FFile i (off + w))) as Hfd'.
    { simpl. rewrite Hfd. simpl. apply updN_same. }
    destruct (IH (mstep m (Write fd w)) i (off + w) Hfd' Hp) as (H1 & H2 & H3).
    split; [apply run_ok_cons; auto|]. split; assumption.
Qed.

Lemma stage_ok fd tmp ws m :
  Inv m -> finalb tmp = false -> stage_ready m tmp ->
  run_ok (stage fd tmp ws) m = true /\
  mpub (mrun (stage fd tmp ws) m) = mpub m /\
  mack (mrun (stage fd tmp ws) m) = mack m.
Proof.
  intros HI Hf Hr. unfold stage.
  assert (mpub m (stage_ino tmp (mfs m)) = false) as Hnp.
  { unfold stage_ino. unfold stage_ready in Hr. destruct (svol (mfs m) tmp) eqn:E; [assumption|].
    destruct (mpub m (snext (mfs m))) eqn:Ep; [|reflexivity].
    apply (inv_publt _ HI) in Ep. lia. }
  assert (guard m (Creat fd tmp true) = 0) as Hg.
  { simpl. rewrite Hf. unfold stage_ready in Hr. destruct (svol (mfs m) tmp); [now rewrite Hr|reflexivity]. }
  set (m1 := mstep m (Creat fd tmp true)).
  assert (sfd (mfs m1) fd = Some (FFile (stage_ino tmp (mfs m)) 0)) as Hfd.
  { unfold m1, stage_ino. simpl. destruct (svol (mfs m) tmp); simpl; apply updN_same. }
  destruct (writes_ok fd ws m1 _ _ Hfd Hnp) as (W1 & W2 & W3).
  split.
  - apply run_ok_cons. split; [assumption|]. fold m1.
    apply run_ok_app_intro; [assumption|].
    apply run_ok_cons. split; [reflexivity|]. apply run_ok_cons. split; reflexivity.
  - change (mrun (Creat fd tmp true :: map (Write fd) ws ++ [Fsync fd; Close fd]) m)
      with (mrun (map (Write fd) ws ++ [Fsync fd; Close fd]) m1).
    unfold mrun. rewrite fold_left_app. fold (mrun (map (Write fd) ws) m1).
    change (fold_left mstep [Fsync fd; Close fd] (mrun (map (Write fd) ws) m1))
      with (mstep (mstep (mrun (map (Write fd) ws) m1) (Fsync fd)) (Close fd)).
    simpl. rewrite W2, W3. unfold m1. simpl. split; reflexivity.
Qed.

Lemma tail_ok dfd tmp final m i :
  svol (mfs m) tmp = Some i -> idirty (sino (mfs m) i) = false ->
  finalb tmp = false -> finalb final = true ->
  run_ok (Rename tmp final :: fsync_dir dfd final ++ [Ack final]) m = true.
Proof.
  intros Hv Hd Hf Hff. unfold fsync_dir. simpl app.
  apply run_ok_cons. split. { simpl. now rewrite Hf, Hv, Hff, Hd. }
  apply run_ok_cons. split; [reflexivity|].
  apply run_ok_cons. split; [reflexivity|].
  apply run_ok_cons. split; [reflexivity|].
  apply run_ok_cons. split; [|reflexivity].
  simpl. rewrite Hff. simpl. rewrite Hv. simpl. rewrite updN_same. simpl.
  rewrite N.eqb_refl. simpl.
  unfold settledb. simpl. unfold in_dir at 1. rewrite N.eqb_refl. rewrite !updP_same. simpl.
  rewrite N.eqb_refl, forallb_filter_dir'. simpl. now rewrite Hd.
Qed.

(** [protocol_ok]: from any state reached by an accepted trace, each protocol
    is accepted, for all write sizes and descriptors *)
Theorem publish_ok_from fd dfd tmp final ws m :
  Inv m -> finalb tmp = false -> finalb final = true -> stage_ready m tmp ->
  run_ok (publish fd dfd tmp final ws) m = true.
Proof.
  intros HI Hf Hff Hr. unfold publish.
  destruct (stage_ok fd tmp ws m HI Hf Hr) as (S1 & S2 & S3).
  apply run_ok_app_intro; [assumption|].
  destruct (stage_run fd tmp ws (mfs m)) as (Hv & _ & Hd & _).
  eapply tail_ok; try eassumption; rewrite mfs_mrun; eassumption.
Qed.

Theorem protocol_ok m :
  Inv m ->
  forall fd dfd dir nm nm' ws,
  stage_ready m (mkPath dir nm' CTmp) ->
  (forall txid, run_ok (local_l0 fd dfd dir nm nm' txid ws) m = true) /\
  (forall level mn mx, run_ok (replica_write fd dfd dir nm nm' level mn mx ws) m = true) /\
  run_ok (restore_output fd dfd dir nm nm' ws) m = true /\
  (forall len, run_ok (txid_sidecar fd dfd dir nm nm' len) m = true) /\
  (forall txid, run_ok (baseline_fetch fd dfd dir nm nm' txid ws) m = true).
Proof.
  intros HI fd dfd dir nm nm' ws Hr.
  repeat split; intros; apply publish_ok_from; auto.
Qed.

(** the hypotheses are satisfiable: the empty file system, any names *)
Example protocol_ok_example :
  publish_ok (local_l0 3 4 1 1 2 7 [100; 6; 4; 4096; 16]) = true /\
  publish_ok (local_l0 3 4 1 1 2 7 [100; 6; 4; 4096; 16] ++ replica_write 5 6 2 1 2 0 7 7 [100; 4126]
              ++ txid_sidecar 7 8 3 9 10 17 ++ txid_sidecar 7 8 3 9 10 17) = true.
Proof. split; vm_compute; reflexivity. Qed.

(** ** The fetched baseline L0 as the code wrote it before the fix (finding F10) *)

Definition durable_only (s : fs) : fs :=
  mkFs (fun ino => mkInode (idur (sino s ino)) (idur (sino s ino)) false)
       (sdur s) (sdur s) [] (fun _ => None) (snext s) (sgen s).

Lemma crash_durable_only s : crash s (durable_only s).
Proof. unfold crash, durable_only. simpl. repeat split; auto. Qed.

Lemma ack_upd_stage fd tmp ws l : fold_left ack_upd (stage fd tmp ws) l = l.
Proof.
  unfold stage. simpl. rewrite fold_left_app. simpl.
  induction ws as [|w ws IH]; simpl; auto.
Qed.

Lemma run_app t1 t2 s : run (t1 ++ t2) s = run t2 (run t1 s).
Proof. unfold run. apply fold_left_app. Qed.

Theorem baseline_fetch_prefix_refuted fd dir nm nm' txid ws :
  let t := baseline_fetch_prefix fd dir nm nm' txid ws in
  let final := mkPath dir nm (CLtx 0 0 txid txid) in
  publish_ok t = false /\
  In final (acked t) /\
  exists s', crash (run t fs_empty) s' /\ svol s' final = None.
Proof.
  cbv zeta. unfold baseline_fetch_prefix, baseline_fetch_prefix_seq.
  set (tmp := mkPath dir nm' CTmp). set (final := mkPath dir nm (CLtx 0 0 txid txid)).
  destruct (stage_run fd tmp ws fs_empty) as (Hv & _ & _ & _ & Hd & _).
  assert (sdur (run (stage fd tmp ws ++ [Rename tmp final; Ack final]) fs_empty) final = None) as Hnone.
  { rewrite run_app. set (s2 := run (stage fd tmp ws) fs_empty) in *. clearbody s2.
    simpl. rewrite Hv. simpl. now rewrite Hd. }
  split; [|split].
  - destruct (publish_ok (stage fd tmp ws ++ [Rename tmp final; Ack final])) eqn:E; [|reflexivity].
    exfalso. unfold publish_ok in E. apply run_ok_app in E as [_ E].
    apply run_ok_cons in E as [_ E]. apply run_ok_cons in E as [E _].
    assert (mfs (mrun (stage fd tmp ws) m_init) = run (stage fd tmp ws) fs_empty) as Hm by apply mfs_mrun.
    set (m2 := mrun (stage fd tmp ws) m_init) in *.
    set (s2 := run (stage fd tmp ws) fs_empty) in *. clearbody s2 m2.
    simpl in E. rewrite Hm in E. rewrite Hv in E. simpl in E.
    unfold settledb in E. simpl in E. rewrite Hd in E. simpl in E.
    rewrite updP_same in E. simpl in E. discriminate.
  - unfold acked. rewrite fold_left_app, ack_upd_stage. simpl. auto.
  - exists (durable_only (run (stage fd tmp ws ++ [Rename tmp final; Ack final]) fs_empty)).
    split; [apply crash_durable_only|]. simpl. exact Hnone.
Qed.

(** a concrete witness (the history of the strace excerpt: one copy_file_range
    of 2069 bytes): rejected at call 6 (the ack) with reason 5 *)
Example baseline_fetch_prefix_refuted_witness :
  fst (check 1 m_init (baseline_fetch_prefix 13 1 2 3 2 [2069])) = (6, R_ACK_NOT_DURABLE) /\
  publish_ok (baseline_fetch 13 12 1 2 3 2 [2069]) = true.
Proof. split; vm_compute; reflexivity. Qed.

(** ** kill_anywhere (C03) *)

Definition wf (s : fs) : Prop :=
  (forall p i, svol s p = Some i -> i < snext s) /\
  (forall p q i, svol s p = Some i -> svol s q = Some i -> p = q).

Lemma wf_empty : wf fs_empty.
Proof. split; simpl; intros; discriminate. Qed.

Inductive stagecall (fd : N) : syscall -> Prop :=
| SCWrite len : stagecall fd (Write fd len)
| SCFsync : stagecall fd (Fsync fd)
| SCClose : stagecall fd (Close fd).

Inductive harmless : syscall -> Prop :=
| HOpenDir fd d : harmless (OpenDir fd d)
| HFsync fd : harmless (Fsync fd)
| HClose fd : harmless (Close fd)
| HAck p : harmless (Ack p).

Definition stage_inv (s0 s : fs) (fd : N) (tmp : path) (i : N) : Prop :=
  (forall q, q <> tmp -> svol s q = svol s0 q) /\
  (forall j, j <> i -> sino s j = sino s0 j) /\
  (sfd s fd = None \/ exists off, sfd s fd = Some (FFile i off)).

Lemma stage_inv_step s0 s fd tmp i c :
  stage_inv s0 s fd tmp i -> stagecall fd c -> stage_inv s0 (step s c) fd tmp i.
Proof.
  intros (Hq & Hj & Hf) Hc. destruct Hc; simpl.
  - destruct Hf as [Hf|[off Hf]]; rewrite Hf; [repeat split; auto|].
    repeat split; simpl; auto.
    + intros j Hne. rewrite updN_other by assumption. auto.
    + right. rewrite updN_same. eauto.
  - destruct Hf as [Hf|[off Hf]]; rewrite Hf; [repeat split; auto|].
    repeat split; simpl; auto.
    + intros j Hne. rewrite updN_other by assumption. auto.
    + right. eauto.
  - repeat split; simpl; auto. left. apply updN_same.
Qed.

Lemma stage_inv_run s0 fd tmp i l : forall s,
  stage_inv s0 s fd tmp i -> Forall (stagecall fd) l -> stage_inv s0 (run l s) fd tmp i.
Proof.
  induction l as [|c l IH]; intros s H HF; simpl; [assumption|].
  inversion HF; subst. apply IH; [now apply stage_inv_step | assumption].
Qed.

Lemma stage_inv_creat s0 fd tmp :
  stage_inv s0 (step s0 (Creat fd tmp true)) fd tmp (stage_ino tmp s0).
Proof.
  unfold stage_inv, stage_ino. simpl. destruct (svol s0 tmp) eqn:E; simpl.
  - repeat split; auto.
    + intros j Hj. now rewrite updN_other.
    + right. rewrite updN_same. eauto.
  - repeat split.
    + intros q Hq. now rewrite updP_other.
    + intros j Hj. now rewrite updN_other.
    + right. rewrite updN_same. eauto.
Qed.

Lemma stage_ino_unbound s0 tmp q j :
  wf s0 -> q <> tmp -> svol s0 q = Some j -> j <> stage_ino tmp s0.
Proof.
  intros [Hlt Hinj] Hq Hv. unfold stage_ino. destruct (svol s0 tmp) eqn:E.
  - intro; subst. apply Hq. eapply Hinj; eauto.
  - apply Hlt in Hv. lia.
Qed.

Lemma read_frame s0 s tmp i q :
  (forall q, q <> tmp -> svol s q = svol s0 q) ->
  (forall j, j <> i -> sino s j = sino s0 j) ->
  (forall j, svol s0 q = Some j -> j <> i) ->
  q <> tmp -> read s q = read s0 q.
Proof.
  intros Hq Hj Hi Hne. unfold read. rewrite (Hq q Hne).
  destruct (svol s0 q) eqn:E; [|reflexivity]. rewrite Hj; [reflexivity|]. now apply Hi.
Qed.

Lemma Forall_firstn {A} (P : A -> Prop) (l : list A) k : Forall P l -> Forall P (firstn k l).
Proof.
  revert k. induction l as [|a l IH]; intros k H; destruct k; simpl; auto.
  inversion H; subst. constructor; auto.
Qed.

Lemma stage_rest_calls fd ws : Forall (stagecall fd) (map (Write fd) ws ++ [Fsync fd; Close fd]).
Proof.
  apply Forall_app. split.
  - induction ws; simpl; constructor; auto. constructor.
  - repeat constructor.
Qed.

(** every prefix of the staging phase leaves every other name untouched *)
Lemma stage_prefix_frame s0 fd tmp ws k q :
  wf s0 -> q <> tmp ->
  read (run (firstn k (stage fd tmp ws)) s0) q = read s0 q.
Proof.
  intros Hwf Hq. destruct k as [|k]; [reflexivity|].
  unfold stage. simpl firstn.
  change (run (Creat fd tmp true :: firstn k (map (Write fd) ws ++ [Fsync fd; Close fd])) s0)
    with (run (firstn k (map (Write fd) ws ++ [Fsync fd; Close fd])) (step s0 (Creat fd tmp true))).
  pose proof (stage_inv_run s0 fd tmp _ _ _ (stage_inv_creat s0 fd tmp)
                (Forall_firstn _ _ k (stage_rest_calls fd ws))) as (H1 & H2 & _).
  eapply read_frame; eauto. intros j Hv. eapply stage_ino_unbound; eauto.
Qed.

Lemma harmless_step s c :
  harmless c -> svol (step s c) = svol s /\ forall j, ivol (sino (step s c) j) = ivol (sino s j).
Proof.
  intro H. destruct H; simpl; auto.
  destruct (sfd s fd) as [[i o|d g]|]; simpl; auto.
  - split; [reflexivity|]. intro j. destruct (N.eq_dec j i) as [->|Hn].
    + now rewrite updN_same.
    + now rewrite updN_other.
  - destruct (N.eqb g (sgen s d)); simpl; auto.
Qed.

Lemma harmless_run l : forall s,
  Forall harmless l -> forall q, read (run l s) q = read s q.
Proof.
  induction l as [|c l IH]; intros s HF q; simpl; [reflexivity|].
  inversion HF; subst. rewrite IH by assumption.
  destruct (harmless_step s c H1) as [Hv Hi]. unfold read. rewrite Hv.
  destruct (svol s q); [now rewrite Hi|reflexivity].
Qed.

Lemma read_kill s q : read (kill s) q = read s q.
Proof. reflexivity. Qed.

Lemma firstn_app_cases {A} (l1 l2 : list A) k :
  (exists k1, firstn k (l1 ++ l2) = firstn k1 l1) \/
  (exists k2, firstn k (l1 ++ l2) = l1 ++ firstn k2 l2).
Proof.
  rewrite firstn_app. destruct (Nat.le_gt_cases k (length l1)) as [H|H].
  - left. exists k. replace (k - length l1)%nat with 0%nat by lia. simpl. now rewrite app_nil_r.
  - right. exists (k - length l1)%nat. rewrite firstn_all2 by lia. reflexivity.
Qed.

(** [kill_anywhere]: process kill at ANY prefix of a protocol's system-call
    sequence (any [k]), for all write sizes, from any well-formed state: the
    final name holds what it held before (nothing, or the previous complete
    file) or the complete new content (everything staged, in order) -- never
    a partial file; and every other name except the staging name, in
    particular every previously acknowledged file, is untouched.  The
    protocol is [stage ++ Rename :: tail] for any [tail] of directory-fsync /
    close / ack calls, which covers the five protocols of [Publish.v]
    (including the baseline fetch before and after the fix of F10). *)
Theorem kill_anywhere_gen s0 fd tmp final ws tail k :
  wf s0 -> tmp <> final -> Forall harmless tail ->
  let t := stage fd tmp ws ++ Rename tmp final :: tail in
  let s := kill (run (firstn k t) s0) in
  (read s final = read s0 final \/
   read s final = Some (fresh_content tmp s0 ++ wlog 0 ws)) /\
  (forall q, q <> tmp -> q <> final -> read s q = read s0 q).
Proof.
  intros Hwf Hne Htail. cbv zeta.
  destruct (firstn_app_cases (stage fd tmp ws) (Rename tmp final :: tail) k) as [[k1 E]|[k2 E]];
    rewrite E; clear E.
  - split; [left|intros q Hq _]; rewrite read_kill; apply stage_prefix_frame; auto.
  - rewrite run_app.
    destruct (stage_run fd tmp ws s0) as (Hv & Hc & _ & Hq & _ & Hj & _).
    set (s2 := run (stage fd tmp ws) s0) in *.
    destruct k2 as [|k2]; simpl firstn.
    + (* the rename has not happened *)
      simpl run. split; [left|intros q Hq1 _]; rewrite read_kill;
        (eapply read_frame; eauto; intros j Hvj; eapply stage_ino_unbound; eauto).
    + change (run (Rename tmp final :: firstn k2 tail) s2)
        with (run (firstn k2 tail) (step s2 (Rename tmp final))).
      assert (forall q, read (kill (run (firstn k2 tail) (step s2 (Rename tmp final)))) q
                        = read (step s2 (Rename tmp final)) q) as Hr.
      { intro q. rewrite read_kill. apply harmless_run. now apply Forall_firstn. }
      split.
      * right. rewrite Hr. unfold read. simpl. rewrite Hv. simpl. rewrite updP_same. now rewrite Hc.
      * intros q Hq1 Hq2. rewrite Hr. unfold read. simpl. rewrite Hv. simpl.
        rewrite updP_other by assumption. rewrite updP_other by assumption.
        rewrite (Hq q Hq1). destruct (svol s0 q) eqn:Eq; [|reflexivity].
        rewrite Hj; [reflexivity|]. eapply stage_ino_unbound; eauto.
Qed.

Lemma fsync_dir_ack_harmless dfd final : Forall harmless (fsync_dir dfd final ++ [Ack final]).
Proof. unfold fsync_dir. simpl. repeat constructor. Qed.

(** the five protocols, by name *)
Theorem kill_anywhere s0 fd dfd dir nm nm' ws k :
  wf s0 ->
  let tmp := mkPath dir nm' CTmp in
  let good (t : list syscall) (final : path) :=
    let s := kill (run (firstn k t) s0) in
    (read s final = read s0 final \/ read s final = Some (fresh_content tmp s0 ++ wlog 0 ws)) /\
    (forall q, q <> tmp -> q <> final -> read s q = read s0 q) in
  (forall txid, good (local_l0 fd dfd dir nm nm' txid ws) (mkPath dir nm (CLtx 0 0 txid txid))) /\
  (forall level mn mx, good (replica_write fd dfd dir nm nm' level mn mx ws) (mkPath dir nm (CLtx 1 level mn mx))) /\
  good (restore_output fd dfd dir nm nm' ws) (mkPath dir nm (CFinal false)) /\
  (forall txid, good (baseline_fetch_prefix fd dir nm nm' txid ws) (mkPath dir nm (CLtx 0 0 txid txid))) /\
  (forall txid, good (baseline_fetch fd dfd dir nm nm' txid ws) (mkPath dir nm (CLtx 0 0 txid txid))).
Proof.
  intros Hwf. cbv zeta.
  split; [|split; [|split; [|split]]]; intros.
  1,2,3,5: apply (kill_anywhere_gen s0 fd _ _ ws (fsync_dir dfd _ ++ [Ack _]) k Hwf);
    [discriminate | apply fsync_dir_ack_harmless].
  apply (kill_anywhere_gen s0 fd _ _ ws [Ack _] k Hwf); [discriminate | repeat constructor].
Qed.

(** the sidecar is the restore-output protocol with a single write *)
Theorem kill_anywhere_sidecar s0 fd dfd dir nm nm' len k :
  wf s0 ->
  let tmp := mkPath dir nm' CTmp in
  let final := mkPath dir nm (CFinal false) in
  let s := kill (run (firstn k (txid_sidecar fd dfd dir nm nm' len)) s0) in
  (read s final = read s0 final \/ read s final = Some (fresh_content tmp s0 ++ [W 0 len])) /\
  (forall q, q <> tmp -> q <> final -> read s q = read s0 q).
Proof.
  intros Hwf. cbv zeta.
  apply (kill_anywhere_gen s0 fd _ _ [len] (fsync_dir dfd _ ++ [Ack _]) k Hwf);
    [discriminate | apply fsync_dir_ack_harmless].
Qed.

(** [wf] holds in every state reachable from the empty file system, so the
    protocols may be chained and interleaved with any other calls *)
Lemma wf_step s c : wf s -> wf (step s c).
Proof.
  intros [Hlt Hinj]. pose proof (snext_mono s c) as Hm. unfold wf.
  destruct c; simpl in *; try (split; assumption).
  - destruct (svol s p) eqn:E.
    + destruct trunc; simpl; split; assumption.
    + simpl. split.
      * intros q i Hv. destruct (path_dec q p) as [->|Hn].
        -- rewrite updP_same in Hv. inversion Hv. lia.
        -- rewrite updP_other in Hv by assumption. apply Hlt in Hv. lia.
      * intros q1 q2 i H1 H2.
        destruct (path_dec q1 p) as [->|Hn1]; destruct (path_dec q2 p) as [->|Hn2]; auto.
        -- rewrite updP_same in H1. rewrite updP_other in H2 by assumption.
           inversion H1; subst. apply Hlt in H2. lia.
        -- rewrite updP_same in H2. rewrite updP_other in H1 by assumption.
           inversion H2; subst. apply Hlt in H1. lia.
        -- rewrite updP_other in H1, H2 by assumption. eauto.
  - destruct (svol s p); simpl; split; assumption.
  - destruct (sfd s fd) as [[i o|d g]|]; simpl; split; assumption.
  - destruct (sfd s fd) as [[i o|d g]|]; simpl; split; assumption.
  - destruct (sfd s fd) as [[i o|d g]|]; simpl; split; assumption.
  - destruct (sfd s fd) as [[i o|d g]|]; simpl; try (split; assumption).
    destruct (N.eqb g (sgen s d)); simpl; split; assumption.
  - destruct (svol s src) eqn:E; simpl; [|split; assumption]. split.
    + intros q i Hv. destruct (path_dec q dst) as [->|Hn].
      * rewrite updP_same in Hv. inversion Hv; subst. eauto.
      * rewrite updP_other in Hv by assumption.
        destruct (path_dec q src) as [->|Hn2]; [rewrite updP_same in Hv; discriminate|].
        rewrite updP_other in Hv by assumption. eauto.
    + assert (forall q i, q <> dst -> updP (updP (svol s) src None) dst (Some n) q = Some i ->
                          svol s q = Some i /\ q <> src) as Hold.
      { intros q i Hn Hv. rewrite updP_other in Hv by assumption.
        destruct (path_dec q src) as [->|Hn2]; [rewrite updP_same in Hv; discriminate|].
        rewrite updP_other in Hv by assumption. auto. }
      intros q1 q2 i H1 H2.
      destruct (path_dec q1 dst) as [->|Hn1]; destruct (path_dec q2 dst) as [->|Hn2]; auto.
      * rewrite updP_same in H1. inversion H1; subst.
        destruct (Hold _ _ Hn2 H2) as [Hv Hns]. exfalso. apply Hns. eapply Hinj; eauto.
      * rewrite updP_same in H2. inversion H2; subst.
        destruct (Hold _ _ Hn1 H1) as [Hv Hns]. exfalso. apply Hns. eapply Hinj; eauto.
      * destruct (Hold _ _ Hn1 H1) as [Hv1 _]. destruct (Hold _ _ Hn2 H2) as [Hv2 _]. eauto.
  - destruct (svol s p) eqn:E; simpl; [|split; assumption]. split.
    + intros q i Hv. destruct (path_dec q p) as [->|Hn]; [rewrite updP_same in Hv; discriminate|].
      rewrite updP_other in Hv by assumption. eauto.
    + intros q1 q2 i H1 H2.
      destruct (path_dec q1 p) as [->|Hn1]; [rewrite updP_same in H1; discriminate|].
      destruct (path_dec q2 p) as [->|Hn2]; [rewrite updP_same in H2; discriminate|].
      rewrite updP_other in H1, H2 by assumption. eauto.
  - split.
    + intros q i Hv. destruct (in_dir d q); [discriminate|eauto].
    + intros q1 q2 i H1 H2. destruct (in_dir d q1); [discriminate|]. destruct (in_dir d q2); [discriminate|eauto].
  - split.
    + intros q i Hv. destruct (in_dir d q); [discriminate|eauto].
    + intros q1 q2 i H1 H2. destruct (in_dir d q1); [discriminate|]. destruct (in_dir d q2); [discriminate|eauto].
Qed.

Theorem wf_reachable t : wf (run t fs_empty).
Proof.
  assert (forall t s, wf s -> wf (run t s)) as H.
  { induction t0 as [|c t0 IH]; intros s Hs; simpl; [assumption|]. apply IH. now apply wf_step. }
  apply H, wf_empty.
Qed.

(** the hypotheses of [kill_anywhere] are satisfiable by a non-trivial state:
    after two complete publications (one of them acknowledged and untouched by
    the third), kill in the middle of a third *)
Example kill_anywhere_example :
  let s0 := run (local_l0 3 4 1 1 2 1 [100; 16] ++ local_l0 3 4 1 3 4 2 [100; 32]) fs_empty in
  wf s0 /\
  read s0 (mkPath 1 1 (CLtx 0 0 1 1)) = Some [W 0 100; W 100 16] /\
  read (kill (run (firstn 3 (local_l0 3 4 1 5 6 3 [100; 6; 4])) s0)) (mkPath 1 5 (CLtx 0 0 3 3)) = None /\
  read (kill (run (firstn 7 (local_l0 3 4 1 5 6 3 [100; 6; 4])) s0)) (mkPath 1 5 (CLtx 0 0 3 3))
    = Some [W 0 100; W 100 6; W 106 4].
Proof. split; [apply wf_reachable|]. vm_compute. repeat split; reflexivity. Qed.

(** ** Directories are objects: a stale directory descriptor flushes nothing *)

Lemma stale_dir_fsync_noop s fd d g :
  sfd s fd = Some (FDir d g) -> g <> sgen s d -> step s (Fsync fd) = s.
Proof. intros H Hn. simpl. rewrite H. apply N.eqb_neq in Hn. now rewrite Hn. Qed.

Lemma mkdir_retires_handles s d fd g :
  sfd s fd = Some (FDir d g) -> g = sgen s d ->
  step (step s (Mkdir d)) (Fsync fd) = step s (Mkdir d).
Proof.
  intros H ->. apply (stale_dir_fsync_noop _ fd d (sgen s d)).
  - exact H.
  - simpl. rewrite updN_same. lia.
Qed.

(** the escaped mutant's trace shape: a directory descriptor opened once and
    cached; after the directory is removed and re-created the publish is
    fsynced through the cached descriptor: rejected at the ack (reason 5);
    re-opening the directory makes it accepted *)
Example stale_dir_handle_rejected :
  let f n := mkPath 1 n (CLtx 0 0 n n) in
  let t n := mkPath 1 (100 + n) CTmp in
  let r1 := mkPath 2 1 (CLtx 1 0 1 1) in
  let pub fd a b := [Creat fd a true; Write fd 10; Fsync fd; Close fd; Rename a b] in
  let before := OpenDir 9 1 :: pub 5 (t 1) (f 1) ++ [Fsync 9; Ack (f 1)]
                ++ pub 5 (mkPath 2 101 CTmp) r1 ++ [OpenDir 7 2; Fsync 7; Close 7; Ack r1] in
  let reset := [Unlink (f 1); Rmdir 1; Mkdir 1] in
  publish_ok (before ++ reset) = true /\
  fst (check 1 m_init (before ++ reset ++ pub 5 (t 2) (f 2) ++ [Fsync 9; Ack (f 2)])) = (27, R_ACK_NOT_DURABLE) /\
  publish_ok (before ++ reset ++ pub 5 (t 2) (f 2) ++ [OpenDir 8 1; Fsync 8; Ack (f 2)]) = true /\
  snd (fst (check 1 m_init (before ++ [Rmdir 1]))) = R_DIR_REPLACED_LIVE.
Proof. vm_compute. repeat split; reflexivity. Qed.
