(** Soundness of the trace monitor with respect to the file-system model:
    [monitor_sound] (power failure, C11) and [kill_sound] (process kill, C03),
    plus stability of published content. *)
From Coq Require Import List NArith Bool Lia.
From LS Require Import Fs.Model Fs.Monitor.
Import ListNotations.
Open Scope N_scope.

(** ** Equality on paths *)

Lemma pclass_eqb_eq a b : pclass_eqb a b = true <-> a = b.
Proof.
  destruct a, b; simpl; split; intro H; try discriminate; try reflexivity.
  - apply Bool.eqb_prop in H. now subst.
  - inversion H. apply Bool.eqb_reflx.
  - repeat (apply andb_true_iff in H; destruct H as [H ?]).
    apply N.eqb_eq in H, H0, H1, H2. now subst.
  - inversion H; subst. now rewrite !N.eqb_refl.
Qed.

Lemma path_eqb_eq p q : path_eqb p q = true <-> p = q.
Proof.
  unfold path_eqb. destruct p as [d n c], q as [d' n' c']; simpl. split; intro H.
  - repeat (apply andb_true_iff in H; destruct H as [H ?]).
    apply N.eqb_eq in H, H1. apply pclass_eqb_eq in H0. now subst.
  - inversion H; subst. rewrite !N.eqb_refl. simpl. now apply pclass_eqb_eq.
Qed.

Lemma path_eqb_refl p : path_eqb p p = true.
Proof. now apply path_eqb_eq. Qed.

Lemma path_eqb_neq p q : path_eqb p q = false <-> p <> q.
Proof.
  split; intro H.
  - intro E. apply path_eqb_eq in E. congruence.
  - destruct (path_eqb p q) eqn:E; [apply path_eqb_eq in E; contradiction | reflexivity].
Qed.

Lemma updP_same {A} (f : path -> A) k v : updP f k v k = v.
Proof. unfold updP. now rewrite path_eqb_refl. Qed.
Lemma updP_other {A} (f : path -> A) k v x : x <> k -> updP f k v x = f x.
Proof. intro H. unfold updP. apply path_eqb_neq in H. now rewrite H. Qed.
Lemma updN_same {A} (f : N -> A) k v : updN f k v k = v.
Proof. unfold updN. now rewrite N.eqb_refl. Qed.
Lemma updN_other {A} (f : N -> A) k v x : x <> k -> updN f k v x = f x.
Proof. intro H. unfold updN. apply N.eqb_neq in H. now rewrite H. Qed.

Lemma path_dec (p q : path) : p = q \/ p <> q.
Proof.
  destruct (path_eqb p q) eqn:E; [left; now apply path_eqb_eq | right; now apply path_eqb_neq].
Qed.

(** ** Bindings a power failure may leave *)

Definition image (s : fs) (p : path) (ino : N) : Prop :=
  svol s p = Some ino \/ sdur s p = Some ino \/ In (p, Some ino) (spend s).

Definition present_all (s : fs) (p : path) : Prop :=
  (exists a, svol s p = Some a) /\ (exists b, sdur s p = Some b) /\
  (forall v, In (p, v) (spend s) -> v <> None).

Lemma present_allb_spec s p : present_allb s p = true <-> present_all s p.
Proof.
  unfold present_allb, present_all. split.
  - intro H. apply andb_true_iff in H as [H H3]. apply andb_true_iff in H as [H1 H2].
    destruct (svol s p) eqn:E1; [|discriminate]. destruct (sdur s p) eqn:E2; [|discriminate].
    repeat split; eauto.
    intros v Hin ->. rewrite forallb_forall in H3. specialize (H3 _ Hin). simpl in H3.
    rewrite path_eqb_refl in H3. discriminate.
  - intros ([a Ha] & [b Hb] & H3). rewrite Ha, Hb. simpl.
    apply forallb_forall. intros [q v] Hin. simpl.
    destruct (path_eqb q p) eqn:E; [|reflexivity]. apply path_eqb_eq in E. subst q.
    specialize (H3 _ Hin). destruct v; [reflexivity | congruence].
Qed.

Lemma settledb_spec s p :
  settledb s p = true <->
  exists a, svol s p = Some a /\ sdur s p = Some a /\ forall v, ~ In (p, v) (spend s).
Proof.
  unfold settledb. split.
  - destruct (svol s p) as [a|]; [|discriminate]. destruct (sdur s p) as [b|]; [|discriminate].
    intro H. apply andb_true_iff in H as [H1 H2]. apply N.eqb_eq in H1. subst b.
    exists a. repeat split. intros v Hin. rewrite forallb_forall in H2.
    specialize (H2 _ Hin). simpl in H2. rewrite path_eqb_refl in H2. discriminate.
  - intros (a & Hv & Hd & Hp). rewrite Hv, Hd, N.eqb_refl. simpl.
    apply forallb_forall. intros [q v] Hin. simpl.
    destruct (path_eqb q p) eqn:E; [|reflexivity]. apply path_eqb_eq in E. subst q.
    exfalso. eapply Hp; eauto.
Qed.

Lemma settledb_present s p : settledb s p = true -> present_all s p.
Proof.
  intro H. apply settledb_spec in H as (a & Hv & Hd & Hp).
  repeat split; eauto. intros v Hin. exfalso. eapply Hp; eauto.
Qed.

(** how one system call changes the possible bindings *)
Lemma image_step s c p ino :
  image (step s c) p ino ->
  image s p ino \/
  (exists fd tr, c = Creat fd p tr /\ svol s p = None /\ ino = snext s) \/
  (exists src, c = Rename src p /\ svol s src = Some ino).
Proof.
  unfold image. destruct c; simpl; intro H.
  - (* Creat *)
    destruct (svol s p0) eqn:E.
    + left. destruct trunc; simpl in H; exact H.
    + simpl in H. destruct H as [H|[H|H]].
      * destruct (path_dec p p0) as [->|Hn].
        -- rewrite updP_same in H. inversion H. right. left. eauto.
        -- rewrite updP_other in H by assumption. auto.
      * auto.
      * apply in_app_or in H as [H|H]; [auto|].
        destruct H as [H|[]]. inversion H; subst. right. left. eauto.
  - destruct (svol s p0); simpl in H; auto.
  - simpl in H. auto.
  - destruct (sfd s fd) as [[i o|d g]|]; simpl in H; auto.
  - destruct (sfd s fd) as [[i o|d g]|]; simpl in H; auto.
  - destruct (sfd s fd) as [[i o|d g]|]; simpl in H; auto.
  - (* Fsync *)
    destruct (sfd s fd) as [[i o|d g]|]; simpl in H; auto.
    destruct (N.eqb g (sgen s d)); simpl in H; auto.
    left. destruct H as [H|[H|H]]; auto.
    + destruct (in_dir d p); auto.
    + apply filter_In in H as [H _]. auto.
  - simpl in H. auto.
  - (* Rename *)
    destruct (svol s src) eqn:E; [|auto]. simpl in H. destruct H as [H|[H|H]].
    + destruct (path_dec p dst) as [->|Hn].
      * rewrite updP_same in H. inversion H; subst. right. right. eauto.
      * rewrite updP_other in H by assumption.
        destruct (path_dec p src) as [->|Hn2].
        -- rewrite updP_same in H. discriminate.
        -- rewrite updP_other in H by assumption. auto.
    + auto.
    + apply in_app_or in H as [H|H]; [auto|].
      destruct H as [H|[H|[]]]; inversion H; subst. right. right. eauto.
  - (* Unlink *)
    destruct (svol s p0) eqn:E; [|auto]. simpl in H. destruct H as [H|[H|H]].
    + destruct (path_dec p p0) as [->|Hn].
      * rewrite updP_same in H. discriminate.
      * rewrite updP_other in H by assumption. auto.
    + auto.
    + apply in_app_or in H as [H|H]; [auto|]. destruct H as [H|[]]. inversion H.
  - (* Mkdir *)
    left. simpl in H. destruct H as [H|[H|H]].
    + destruct (in_dir d p); [discriminate|auto].
    + destruct (in_dir d p); [discriminate|auto].
    + apply filter_In in H as [H _]. auto.
  - (* Rmdir *)
    left. simpl in H. destruct H as [H|[H|H]].
    + destruct (in_dir d p); [discriminate|auto].
    + destruct (in_dir d p); [discriminate|auto].
    + apply filter_In in H as [H _]. auto.
  - auto.
Qed.

(** a durably present name stays so under every call except its own unlink,
    a rename away from it and the removal / replacement of its directory *)
Lemma present_all_step s c q :
  present_all s q ->
  (forall dst, c = Rename q dst -> False) ->
  (c = Unlink q -> False) ->
  (forall d, c = Mkdir d \/ c = Rmdir d -> in_dir d q = false) ->
  present_all (step s c) q.
Proof.
  intros (Hv & Hd & Hp) Hr Hu Hdir. unfold present_all.
  destruct c; simpl; try (repeat split; assumption).
  - destruct (svol s p) eqn:E.
    + destruct trunc; simpl; repeat split; assumption.
    + simpl. repeat split; try assumption.
      * destruct (path_dec q p) as [->|Hn]; [rewrite updP_same; eauto | rewrite updP_other by assumption; assumption].
      * intros v Hin. apply in_app_or in Hin as [Hin|[Hin|[]]]; [auto|]. inversion Hin. discriminate.
  - destruct (svol s p); simpl; repeat split; assumption.
  - destruct (sfd s fd) as [[i o|d g]|]; simpl; repeat split; assumption.
  - destruct (sfd s fd) as [[i o|d g]|]; simpl; repeat split; assumption.
  - destruct (sfd s fd) as [[i o|d g]|]; simpl; repeat split; assumption.
  - destruct (sfd s fd) as [[i o|d g]|]; simpl; try (repeat split; assumption).
    destruct (N.eqb g (sgen s d)); simpl; [|repeat split; assumption].
    repeat split; try assumption.
    + destruct (in_dir d q); assumption.
    + intros v Hin. apply filter_In in Hin as [Hin _]. auto.
  - destruct (svol s src) eqn:E; [|repeat split; assumption]. simpl.
    assert (q <> src) by (intro; subst; eapply Hr; reflexivity).
    repeat split; try assumption.
    + destruct (path_dec q dst) as [->|Hn]; [rewrite updP_same; eauto|].
      rewrite updP_other by assumption. rewrite updP_other by assumption. assumption.
    + intros v Hin. apply in_app_or in Hin as [Hin|[Hin|[Hin|[]]]]; [auto| |]; inversion Hin; subst; congruence.
  - destruct (svol s p) eqn:E; [|repeat split; assumption]. simpl.
    assert (q <> p) by (intro; subst; apply Hu; reflexivity).
    repeat split; try assumption.
    + rewrite updP_other by assumption. assumption.
    + intros v Hin. apply in_app_or in Hin as [Hin|[Hin|[]]]; [auto|]. inversion Hin; subst; congruence.
  - rewrite (Hdir d) by auto. repeat split; try assumption.
    intros v Hin. apply filter_In in Hin as [Hin _]. auto.
  - rewrite (Hdir d) by auto. repeat split; try assumption.
    intros v Hin. apply filter_In in Hin as [Hin _]. auto.
Qed.

(** ** The invariant of accepted traces *)

Record Inv (m : mstate) : Prop := mkInv {
  inv_img : forall p ino, strictb p = true -> image (mfs m) p ino -> mpub m ino = true;
  inv_pub : forall ino, mpub m ino = true -> idirty (sino (mfs m) ino) = false;
  inv_clean : forall ino, idirty (sino (mfs m) ino) = false ->
                          idur (sino (mfs m) ino) = ivol (sino (mfs m) ino);
  inv_ack : forall p, In p (mack m) -> finalb p = true /\ present_all (mfs m) p;
  inv_publt : forall ino, mpub m ino = true -> ino < snext (mfs m);
  inv_vollt : forall p ino, svol (mfs m) p = Some ino -> ino < snext (mfs m)
}.

Lemma strict_final p : strictb p = true -> finalb p = true.
Proof. unfold strictb, finalb. destruct (pcls p); auto. Qed.

Lemma Inv_init : Inv m_init.
Proof.
  constructor; simpl; unfold image; simpl; intros; try discriminate; try tauto.
  destruct H0 as [H0|[H0|[]]]; discriminate.
Qed.

Lemma mfs_mstep m c : mfs (mstep m c) = step (mfs m) c.
Proof. destruct c; simpl; try reflexivity. destruct (svol (mfs m) src); reflexivity. Qed.

Lemma mpub_mono m c ino : mpub m ino = true -> mpub (mstep m c) ino = true.
Proof.
  intro H. destruct c; simpl; try assumption.
  destruct (svol (mfs m) src); simpl; [|assumption].
  destruct (strictb dst); [|assumption]. destruct (N.eqb ino n); auto.
Qed.

Definition ack_upd (l : list path) (c : syscall) : list path :=
  match c with
  | Ack p => p :: l
  | Unlink p => remove_path p l
  | _ => l
  end.

Lemma mack_mstep m c : mack (mstep m c) = ack_upd (mack m) c.
Proof. destruct c; simpl; try reflexivity. destruct (svol (mfs m) src); reflexivity. Qed.

Lemma snext_mono s c : snext s <= snext (step s c).
Proof.
  destruct c; simpl; try lia.
  - destruct (svol s p); [destruct trunc|]; simpl; lia.
  - destruct (svol s p); simpl; lia.
  - destruct (sfd s fd) as [[i o|d g]|]; simpl; lia.
  - destruct (sfd s fd) as [[i o|d g]|]; simpl; lia.
  - destruct (sfd s fd) as [[i o|d g]|]; simpl; lia.
  - destruct (sfd s fd) as [[i o|d g]|]; simpl; try lia. destruct (N.eqb g (sgen s d)); simpl; lia.
  - destruct (svol s src); simpl; lia.
  - destruct (svol s p); simpl; lia.
Qed.

(** inodes are only changed by calls the guard lets through on unpublished inodes *)
Lemma sino_step_cases s c ino :
  sino (step s c) ino = sino s ino \/
  (exists fd p, c = Creat fd p true /\ svol s p = Some ino /\ sino (step s c) ino = ino_apply (sino s ino) (T 0)) \/
  (exists fd p tr, c = Creat fd p tr /\ svol s p = None /\ ino = snext s /\ sino (step s c) ino = empty_inode) \/
  (exists fd w off, fd_ino s fd = Some ino /\ sino (step s c) ino = ino_apply (sino s ino) w /\
                (c = Write fd off \/ (exists o l, c = Pwrite fd o l) \/ (exists l, c = Ftruncate fd l))) \/
  (exists fd, c = Fsync fd /\ sino (step s c) ino = ino_sync (sino s ino)).
Proof.
  destruct c; simpl; auto.
  - destruct (svol s p) eqn:E.
    + destruct trunc; simpl; auto.
      destruct (N.eq_dec ino n) as [->|Hn].
      * right. left. exists fd, p. rewrite updN_same. auto.
      * rewrite updN_other by assumption. auto.
    + simpl. destruct (N.eq_dec ino (snext s)) as [->|Hn].
      * right. right. left. exists fd, p, trunc. rewrite updN_same. auto.
      * rewrite updN_other by assumption. auto.
  - destruct (svol s p); simpl; auto.
  - unfold fd_ino. destruct (sfd s fd) as [[i o|d g]|] eqn:E; simpl; auto.
    destruct (N.eq_dec ino i) as [->|Hn].
    + right. right. right. left. exists fd, (W o len), len. rewrite E, updN_same. auto.
    + rewrite updN_other by assumption. auto.
  - unfold fd_ino. destruct (sfd s fd) as [[i o|d g]|] eqn:E; simpl; auto.
    destruct (N.eq_dec ino i) as [->|Hn].
    + right. right. right. left. exists fd, (W off len), 0. rewrite E, updN_same. split; [auto|]. split; [auto|]. right. left. eauto.
    + rewrite updN_other by assumption. auto.
  - unfold fd_ino. destruct (sfd s fd) as [[i o|d g]|] eqn:E; simpl; auto.
    destruct (N.eq_dec ino i) as [->|Hn].
    + right. right. right. left. exists fd, (T len), 0. rewrite E, updN_same. split; [auto|]. split; [auto|]. right. right. eauto.
    + rewrite updN_other by assumption. auto.
  - destruct (sfd s fd) as [[i o|d g]|] eqn:E; simpl; auto.
    + destruct (N.eq_dec ino i) as [->|Hn].
      * right. right. right. right. exists fd. rewrite updN_same. auto.
      * rewrite updN_other by assumption. auto.
    + destruct (N.eqb g (sgen s d)); simpl; auto.
  - destruct (svol s src); simpl; auto.
  - destruct (svol s p); simpl; auto.
Qed.

(** a published inode is never touched by an accepted call *)
Lemma published_content_stable m c ino :
  Inv m -> guard m c = 0 -> mpub m ino = true ->
  ivol (sino (mfs (mstep m c)) ino) = ivol (sino (mfs m) ino).
Proof.
  intros HI Hg Hp. rewrite mfs_mstep.
  destruct (sino_step_cases (mfs m) c ino) as [H|[H|[H|[H|H]]]].
  - now rewrite H.
  - destruct H as (fd & p & -> & Hv & _). simpl in Hg.
    destruct (finalb p); [discriminate|]. rewrite Hv, Hp in Hg. discriminate.
  - destruct H as (fd & p & tr & -> & Hv & -> & _).
    apply (inv_publt _ HI) in Hp. lia.
  - destruct H as (fd & w & off & Hf & _ & Hc).
    assert (guard_write m fd = 0) as Hw.
    { destruct Hc as [->|[(o & l & ->)|(l & ->)]]; exact Hg. }
    unfold guard_write in Hw. rewrite Hf, Hp in Hw. discriminate.
  - destruct H as (fd & -> & ->). reflexivity.
Qed.

Lemma dir_dead_present m d q :
  dir_dead m d = true -> In q (mack m ++ mever m ++ mknown m) -> present_all (mfs m) q ->
  in_dir d q = false.
Proof.
  intros Hd Hin ([a Ha] & _). unfold dir_dead in Hd. rewrite forallb_forall in Hd.
  specialize (Hd _ Hin). rewrite Ha in Hd. simpl in Hd.
  destruct (in_dir d q); [discriminate|reflexivity].
Qed.

Lemma Inv_step m c : Inv m -> guard m c = 0 -> Inv (mstep m c).
Proof.
  intros HI Hg. constructor.
  - (* inv_img *)
    intros p ino Hs Him. rewrite mfs_mstep in Him.
    apply image_step in Him as [Him|[Him|Him]].
    + apply mpub_mono. eapply inv_img; eauto.
    + destruct Him as (fd & tr & -> & _). simpl in Hg.
      rewrite (strict_final _ Hs) in Hg. discriminate.
    + destruct Him as (src & -> & Hv). simpl. rewrite Hv. simpl. rewrite Hs.
      now rewrite N.eqb_refl.
  - (* inv_pub *)
    intros ino Hp. rewrite mfs_mstep.
    assert (mpub m ino = true \/ (exists src dst, c = Rename src dst /\ svol (mfs m) src = Some ino /\ strictb dst = true)) as Hcase.
    { destruct c; simpl in Hp; auto.
      destruct (svol (mfs m) src) eqn:E; simpl in Hp; auto.
      destruct (strictb dst) eqn:Es; auto.
      destruct (N.eqb ino n) eqn:En; auto. apply N.eqb_eq in En. subst. right. eauto. }
    destruct Hcase as [Hold|(src & dst & -> & Hv & Hs)].
    + pose proof (inv_pub _ HI _ Hold) as Hc.
      destruct (sino_step_cases (mfs m) c ino) as [H|[H|[H|[H|H]]]].
      * now rewrite H.
      * destruct H as (fd & p & -> & Hv & _). simpl in Hg.
        destruct (finalb p); [discriminate|]. rewrite Hv, Hold in Hg. discriminate.
      * destruct H as (fd & p & tr & _ & _ & _ & ->). reflexivity.
      * destruct H as (fd & w & off & Hf & _ & Hcc).
        assert (guard_write m fd = 0) as Hw.
        { destruct Hcc as [->|[(o & l & ->)|(l & ->)]]; exact Hg. }
        unfold guard_write in Hw. rewrite Hf, Hold in Hw. discriminate.
      * destruct H as (fd & _ & ->). reflexivity.
    + simpl. rewrite Hv. simpl. simpl in Hg.
      destruct (finalb src); [discriminate|]. rewrite Hv in Hg.
      rewrite (strict_final _ Hs) in Hg.
      destruct (idirty (sino (mfs m) ino)); [discriminate|reflexivity].
  - (* inv_clean *)
    intros ino. rewrite mfs_mstep.
    destruct (sino_step_cases (mfs m) c ino) as [H|[H|[H|[H|H]]]].
    + rewrite H. apply (inv_clean _ HI).
    + destruct H as (fd & p & _ & _ & ->). simpl. discriminate.
    + destruct H as (fd & p & tr & _ & _ & _ & ->). reflexivity.
    + destruct H as (fd & w & off & _ & -> & _). simpl. discriminate.
    + destruct H as (fd & _ & ->). reflexivity.
  - (* inv_ack *)
    intros p Hin. rewrite mack_mstep in Hin. rewrite mfs_mstep.
    assert (In p (mack m) /\ (c = Unlink p -> False) \/ (c = Ack p /\ finalb p = true /\ present_all (mfs m) p)) as Hcase.
    { destruct c; simpl in Hin; try (left; split; [assumption|discriminate]).
      - apply filter_In in Hin as [Hin Hne]. left. split; [assumption|].
        intro E. inversion E; subst. rewrite path_eqb_refl in Hne. discriminate.
      - destruct Hin as [<-|Hin]; [|left; split; [assumption|discriminate]].
        right. split; [reflexivity|]. simpl in Hg.
        destruct (finalb p0) eqn:Ef; simpl in Hg; [|discriminate]. split; [reflexivity|].
        destruct (settledb (mfs m) p0) eqn:Ep; simpl in Hg; [|discriminate].
        now apply settledb_present. }
    destruct Hcase as [[Hold Hnu]|(-> & Hf & Hp)].
    + destruct (inv_ack _ HI _ Hold) as [Hf Hp]. split; [assumption|].
      apply present_all_step; try assumption.
      * intros dst ->. simpl in Hg. rewrite Hf in Hg. discriminate.
      * intros d Hd. eapply dir_dead_present; eauto.
        -- destruct Hd as [->| ->]; simpl in Hg; destruct (dir_dead m d); auto; discriminate.
        -- apply in_or_app. left. exact Hold.
    + split; [assumption|]. simpl. assumption.
  - (* inv_publt *)
    intros ino Hp. rewrite mfs_mstep.
    pose proof (snext_mono (mfs m) c) as Hm.
    assert (mpub m ino = true \/ (exists src, svol (mfs m) src = Some ino)) as Hcase.
    { destruct c; simpl in Hp; auto.
      destruct (svol (mfs m) src) eqn:E; simpl in Hp; auto.
      destruct (strictb dst); auto.
      destruct (N.eqb ino n) eqn:En; auto. apply N.eqb_eq in En. subst. right. eauto. }
    destruct Hcase as [Hold|[src Hv]].
    + apply (inv_publt _ HI) in Hold. lia.
    + apply (inv_vollt _ HI) in Hv. lia.
  - (* inv_vollt *)
    intros p ino Hv. rewrite mfs_mstep in *.
    assert (image (step (mfs m) c) p ino) as Him by (left; assumption).
    pose proof (snext_mono (mfs m) c) as Hm.
    destruct c; simpl in Hv |- *;
      try (apply (inv_vollt _ HI) in Hv; assumption).
    + destruct (svol (mfs m) p0) eqn:E.
      * destruct trunc; simpl in Hv |- *; apply (inv_vollt _ HI) in Hv; assumption.
      * simpl in Hv |- *. destruct (path_dec p p0) as [->|Hn].
        -- rewrite updP_same in Hv. inversion Hv. lia.
        -- rewrite updP_other in Hv by assumption. apply (inv_vollt _ HI) in Hv. lia.
    + destruct (svol (mfs m) p0); simpl in Hv |- *; apply (inv_vollt _ HI) in Hv; assumption.
    + destruct (sfd (mfs m) fd) as [[i o|d g]|]; simpl in Hv |- *; apply (inv_vollt _ HI) in Hv; assumption.
    + destruct (sfd (mfs m) fd) as [[i o|d g]|]; simpl in Hv |- *; apply (inv_vollt _ HI) in Hv; assumption.
    + destruct (sfd (mfs m) fd) as [[i o|d g]|]; simpl in Hv |- *; apply (inv_vollt _ HI) in Hv; assumption.
    + destruct (sfd (mfs m) fd) as [[i o|d g]|]; simpl in Hv |- *; try (apply (inv_vollt _ HI) in Hv; assumption).
      destruct (N.eqb g (sgen (mfs m) d)); simpl in Hv |- *; apply (inv_vollt _ HI) in Hv; assumption.
    + destruct (svol (mfs m) src) eqn:E; simpl in Hv |- *.
      * destruct (path_dec p dst) as [->|Hn].
        -- rewrite updP_same in Hv. inversion Hv; subst. apply (inv_vollt _ HI) in E. assumption.
        -- rewrite updP_other in Hv by assumption.
           destruct (path_dec p src) as [->|Hn2].
           ++ rewrite updP_same in Hv. discriminate.
           ++ rewrite updP_other in Hv by assumption. apply (inv_vollt _ HI) in Hv. assumption.
      * apply (inv_vollt _ HI) in Hv. assumption.
    + destruct (svol (mfs m) p0) eqn:E; simpl in Hv |- *.
      * destruct (path_dec p p0) as [->|Hn].
        -- rewrite updP_same in Hv. discriminate.
        -- rewrite updP_other in Hv by assumption. apply (inv_vollt _ HI) in Hv. assumption.
      * apply (inv_vollt _ HI) in Hv. assumption.
    + destruct (in_dir d p); [discriminate|]. apply (inv_vollt _ HI) in Hv. assumption.
    + destruct (in_dir d p); [discriminate|]. apply (inv_vollt _ HI) in Hv. assumption.
Qed.

(** ** Accepted traces keep the invariant at every prefix *)

Lemma check_snd_zero_iff i m t :
  snd (fst (check i m t)) = 0 <->
  match t with
  | [] => True
  | c :: tl => guard m c = 0 /\ snd (fst (check (i + 1) (mstep m c) tl)) = 0
  end.
Proof.
  destruct t as [|c tl]; simpl; [tauto|].
  destruct (N.eqb (guard m c) 0) eqn:E.
  - apply N.eqb_eq in E. tauto.
  - apply N.eqb_neq in E. simpl. tauto.
Qed.

Lemma run_ok_cons m c tl : run_ok (c :: tl) m = true <-> guard m c = 0 /\ run_ok tl (mstep m c) = true.
Proof.
  unfold run_ok. rewrite !N.eqb_eq. rewrite (check_snd_zero_iff 1 m (c :: tl)).
  assert (forall i j m t, snd (fst (check i m t)) = 0 <-> snd (fst (check j m t)) = 0) as Hij.
  { intros i j m' t. revert i j m'. induction t as [|c' t IH]; intros; simpl; [tauto|].
    destruct (N.eqb (guard m' c') 0); [apply IH | simpl; tauto]. }
  rewrite (Hij (1 + 1) 1). tauto.
Qed.

Lemma run_ok_app t1 : forall t2 m,
  run_ok (t1 ++ t2) m = true -> run_ok t1 m = true /\ run_ok t2 (mrun t1 m) = true.
Proof.
  induction t1 as [|c t1 IH]; intros t2 m H; simpl in *.
  - split; [reflexivity|assumption].
  - apply run_ok_cons in H as [Hg H]. apply IH in H as [H1 H2].
    split; [apply run_ok_cons; auto | assumption].
Qed.

Lemma run_ok_app_intro t1 : forall t2 m,
  run_ok t1 m = true -> run_ok t2 (mrun t1 m) = true -> run_ok (t1 ++ t2) m = true.
Proof.
  induction t1 as [|c t1 IH]; intros t2 m H1 H2; simpl in *; [assumption|].
  apply run_ok_cons in H1 as [Hg H1]. apply run_ok_cons. split; [assumption|]. now apply IH.
Qed.

Lemma Inv_run t : forall m, Inv m -> run_ok t m = true -> Inv (mrun t m).
Proof.
  induction t as [|c t IH]; intros m HI H; simpl; [assumption|].
  apply run_ok_cons in H as [Hg H]. apply IH; [now apply Inv_step | assumption].
Qed.

Lemma mack_mrun t : forall m, mack (mrun t m) = fold_left ack_upd t (mack m).
Proof.
  induction t as [|c t IH]; intro m; simpl; [reflexivity|]. now rewrite IH, mack_mstep.
Qed.

(** names acknowledged in a trace and not unlinked afterwards *)
Definition acked (t : list syscall) : list path := fold_left ack_upd t [].

(** ** Power failure (C11) *)

Lemma crash_image s s' p ino : crash s s' -> sdur s' p = Some ino -> image s p ino.
Proof.
  intros (H1 & _) Hd. destruct (H1 p) as [H|H]; rewrite Hd in H; unfold image; auto.
Qed.

Lemma crash_present s s' p : crash s s' -> present_all s p -> exists ino, sdur s' p = Some ino.
Proof.
  intros (H1 & _) (_ & [b Hb] & Hp). destruct (H1 p) as [H|H].
  - rewrite Hb in H. eauto.
  - apply Hp in H. destruct (sdur s' p); [eauto|congruence].
Qed.

(** what "complete" means after a power failure: the name is bound to an inode
    that was bound to it before the failure (now, durably, or by a pending
    directory operation) and the inode holds everything that had been written
    to it *)
Definition complete_after (s s' : fs) (p : path) : Prop :=
  exists ino, svol s' p = Some ino /\ image s p ino /\
              ivol (sino s' ino) = ivol (sino s ino).

Lemma crash_complete m s' p ino :
  Inv m -> crash (mfs m) s' -> strictb p = true -> sdur s' p = Some ino ->
  complete_after (mfs m) s' p.
Proof.
  intros HI Hc Hs Hd. pose proof (crash_image _ _ _ _ Hc Hd) as Him.
  exists ino. destruct Hc as (_ & H2 & _ & _ & H5 & _).
  split; [now rewrite H2|]. split; [assumption|].
  pose proof (inv_img _ HI _ _ Hs Him) as Hp. pose proof (inv_pub _ HI _ Hp) as Hcl.
  rewrite (H5 _ Hcl). apply (inv_clean _ HI _ Hcl).
Qed.

Theorem monitor_sound_from m0 t :
  Inv m0 -> run_ok t m0 = true ->
  forall t1 t2, t = t1 ++ t2 ->
  forall s', crash (mfs (mrun t1 m0)) s' ->
    (forall p, strictb p = true ->
       svol s' p = None \/ complete_after (mfs (mrun t1 m0)) s' p) /\
    (forall p, In p (fold_left ack_upd t1 (mack m0)) ->
       (exists ino, svol s' p = Some ino) /\
       (strictb p = true -> complete_after (mfs (mrun t1 m0)) s' p)).
Proof.
  intros HI Hok t1 t2 -> s' Hc.
  apply run_ok_app in Hok as [Hok1 _].
  pose proof (Inv_run _ _ HI Hok1) as HI1.
  assert (forall p, svol s' p = sdur s' p) as Hvd by (destruct Hc as (_ & H2 & _); exact H2).
  split.
  - intros p Hs. rewrite Hvd. destruct (sdur s' p) eqn:E; [right|left; reflexivity].
    eapply crash_complete; eauto.
  - intros p Hin. rewrite <- mack_mrun in Hin.
    destruct (inv_ack _ HI1 _ Hin) as [_ Hp].
    destruct (crash_present _ _ _ Hc Hp) as [ino Hd].
    split; [exists ino; now rewrite Hvd|].
    intro Hs. eapply crash_complete; eauto.
Qed.

(** [monitor_sound]: if the monitor accepts a trace, then for every prefix of
    it and every outcome of a power failure after that prefix, each strict
    final name (final LTX names, restore output, TXID sidecar) is absent or
    complete, and every name acknowledged before the failure (and not unlinked
    since, which the monitor allows only once a superseding file is durable) is
    present and complete. *)
Theorem monitor_sound t :
  publish_ok t = true ->
  forall t1 t2, t = t1 ++ t2 ->
  forall s', crash (run t1 fs_empty) s' ->
    (forall p, strictb p = true ->
       svol s' p = None \/ complete_after (run t1 fs_empty) s' p) /\
    (forall p, In p (acked t1) ->
       (exists ino, svol s' p = Some ino) /\
       (strictb p = true -> complete_after (run t1 fs_empty) s' p)).
Proof.
  intros Hok t1 t2 E s' Hc.
  assert (forall t m, mfs (mrun t m) = run t (mfs m)) as Hrun.
  { induction t0 as [|c t0 IH]; intro m; simpl; [reflexivity|]. now rewrite IH, mfs_mstep. }
  pose proof (monitor_sound_from m_init t Inv_init Hok t1 t2 E) as H.
  rewrite Hrun in H. exact (H s' Hc).
Qed.

(** the published content is exactly what the inode held when it was renamed:
    along an accepted trace a published inode never changes *)
Theorem published_content_stable_run t : forall m ino,
  Inv m -> run_ok t m = true -> mpub m ino = true ->
  ivol (sino (mfs (mrun t m)) ino) = ivol (sino (mfs m) ino).
Proof.
  induction t as [|c t IH]; intros m ino HI Hok Hp; simpl; [reflexivity|].
  apply run_ok_cons in Hok as [Hg Hok].
  rewrite IH; [| now apply Inv_step | assumption | now apply mpub_mono].
  now apply published_content_stable.
Qed.

(** ** Process kill (C03), for every accepted trace *)

(** [kill_sound]: after a kill at any prefix of an accepted trace, whatever is
    found under a strict final name is a published inode, i.e. one that was
    complete and flushed when it was renamed there and has not been written
    since ([published_content_stable_run]); acknowledged names are all there. *)
Theorem kill_sound t :
  publish_ok t = true ->
  forall t1 t2, t = t1 ++ t2 ->
  let m := mrun t1 m_init in
  let s := kill (mfs m) in
  (forall p ino, strictb p = true -> svol s p = Some ino ->
       mpub m ino = true /\ idirty (sino s ino) = false /\
       forall t3 t4, t2 = t3 ++ t4 -> ivol (sino (mfs (mrun t3 m)) ino) = ivol (sino s ino)) /\
  (forall p, In p (acked t1) -> exists ino, svol s p = Some ino).
Proof.
  intros Hok t1 t2 -> m s.
  apply run_ok_app in Hok as [Hok1 Hok2].
  pose proof (Inv_run _ _ Inv_init Hok1) as HI1. fold m in HI1, Hok2.
  split.
  - intros p ino Hs Hv. simpl in Hv.
    assert (mpub m ino = true) as Hp by (eapply inv_img; eauto; left; exact Hv).
    split; [assumption|]. split; [apply (inv_pub _ HI1 _ Hp)|].
    intros t3 t4 ->. apply run_ok_app in Hok2 as [Hok3 _].
    simpl. now apply published_content_stable_run.
  - intros p Hin. unfold acked in Hin.
    change (@nil path) with (mack m_init) in Hin. rewrite <- mack_mrun in Hin. fold m in Hin.
    destruct (inv_ack _ HI1 _ Hin) as [_ ([a Ha] & _)]. exists a. exact Ha.
Qed.

(** ** Initial states built from files already on disk *)

Lemma Inv_add_file m p size : Inv m -> spend (mfs m) = [] -> Inv (add_file m p size) /\ spend (mfs (add_file m p size)) = [].
Proof.
  intros HI Hpe. unfold add_file. destruct (svol (mfs m) p) eqn:E; [auto|].
  split; [|simpl; assumption].
  constructor; simpl.
  - intros q ino Hs Him. unfold image in Him. simpl in Him. rewrite Hpe in Him.
    destruct (path_dec q p) as [->|Hn].
    + rewrite !updP_same in Him. rewrite Hs.
      destruct Him as [H|[H|[]]]; inversion H; now rewrite N.eqb_refl.
    + rewrite !updP_other in Him by assumption.
      assert (mpub m ino = true) as Hp.
      { eapply inv_img; eauto. unfold image. rewrite Hpe. exact Him. }
      destruct (strictb p); [|assumption]. destruct (N.eqb ino (snext (mfs m))); auto.
  - intros ino Hp. destruct (N.eq_dec ino (snext (mfs m))) as [->|Hn].
    + rewrite updN_same. reflexivity.
    + rewrite updN_other by assumption. apply (inv_pub _ HI).
      destruct (strictb p); [|assumption].
      apply N.eqb_neq in Hn. now rewrite Hn in Hp.
  - intros ino. destruct (N.eq_dec ino (snext (mfs m))) as [->|Hn].
    + rewrite updN_same. reflexivity.
    + rewrite updN_other by assumption. apply (inv_clean _ HI).
  - intros q Hin. destruct (inv_ack _ HI _ Hin) as [Hf (Hv & Hd & Hp)]. split; [assumption|].
    unfold present_all. simpl. repeat split; try assumption.
    + destruct (path_dec q p) as [->|Hn]; [rewrite updP_same; eauto | now rewrite updP_other by assumption].
    + destruct (path_dec q p) as [->|Hn]; [rewrite updP_same; eauto | now rewrite updP_other by assumption].
  - intros ino Hp. destruct (strictb p).
    + destruct (N.eqb ino (snext (mfs m))) eqn:En.
      * apply N.eqb_eq in En. lia.
      * apply (inv_publt _ HI) in Hp. lia.
    + apply (inv_publt _ HI) in Hp. lia.
  - intros q ino Hv. destruct (path_dec q p) as [->|Hn].
    + rewrite updP_same in Hv. inversion Hv. lia.
    + rewrite updP_other in Hv by assumption. apply (inv_vollt _ HI) in Hv. lia.
Qed.

Lemma Inv_of_files l : Inv (m_of_files l).
Proof.
  unfold m_of_files.
  assert (forall l m, Inv m -> spend (mfs m) = [] ->
            Inv (fold_left (fun m e => add_file m (fst e) (snd e)) l m)) as H.
  { induction l0 as [|e l0 IH]; intros m HI Hp; simpl; [assumption|].
    destruct (Inv_add_file m (fst e) (snd e) HI Hp) as [HI' Hp']. now apply IH. }
  apply H; [apply Inv_init | reflexivity].
Qed.

(** the statement the correspondence check relies on: traces that start from
    files already on disk *)
Theorem monitor_sound_files l t :
  run_ok t (m_of_files l) = true ->
  forall t1 t2, t = t1 ++ t2 ->
  forall s', crash (mfs (mrun t1 (m_of_files l))) s' ->
    (forall p, strictb p = true ->
       svol s' p = None \/ complete_after (mfs (mrun t1 (m_of_files l))) s' p) /\
    (forall p, In p (fold_left ack_upd t1 []) ->
       (exists ino, svol s' p = Some ino) /\
       (strictb p = true -> complete_after (mfs (mrun t1 (m_of_files l))) s' p)).
Proof.
  intros Hok t1 t2 E s' Hc.
  pose proof (monitor_sound_from (m_of_files l) t (Inv_of_files l) Hok t1 t2 E s' Hc) as H.
  assert (mack (m_of_files l) = []) as Hm.
  { unfold m_of_files.
    assert (forall l m, mack (fold_left (fun m e => add_file m (fst e) (snd e)) l m) = mack m) as G.
    { induction l0 as [|e l0 IH]; intro m; simpl; [reflexivity|]. rewrite IH.
      unfold add_file. destruct (svol (mfs m) (fst e)); reflexivity. }
    now rewrite G. }
  now rewrite Hm in H.
Qed.
