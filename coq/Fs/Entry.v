(** [sx -> sx] entry points of the Fs layer for the correspondence runner. *)
From Coq Require Import List NArith ZArith Bool.
From LS Require Import Base.Sx Fs.Model Fs.Monitor.
Import ListNotations.
Open Scope N_scope.

(** path: [(dir nm k a b c d)]  k = 0 staging/other, 1 final, 2 final written
    in place (follow-mode output), 3 final LTX name with a = tree (0 local, 1
    replica), b = level, c = min TXID, d = max TXID *)
Definition dec_path (x : sx) : path :=
  let k := asN (nthx 2 x) in
  mkPath (asN (nthx 0 x)) (asN (nthx 1 x))
    (if N.eqb k 1 then CFinal false
     else if N.eqb k 2 then CFinal true
     else if N.eqb k 3 then CLtx (asN (nthx 3 x)) (asN (nthx 4 x)) (asN (nthx 5 x)) (asN (nthx 6 x))
     else CTmp).

(** call: [(tag args...)]
    0 Creat fd path trunc | 1 OpenW fd path | 2 OpenDir fd dir | 3 Write fd len
    4 Pwrite fd off len | 5 Ftruncate fd len | 6 Fsync fd | 7 Close fd
    8 Rename src dst | 9 Unlink path | 10 Ack path | 11 Mkdir dir | 12 Rmdir dir *)
Definition dec_call (x : sx) : syscall :=
  let tag := asN (nthx 0 x) in
  let a := nthx 1 x in
  let b := nthx 2 x in
  let c := nthx 3 x in
  if N.eqb tag 0 then Creat (asN a) (dec_path b) (asB c)
  else if N.eqb tag 1 then OpenW (asN a) (dec_path b)
  else if N.eqb tag 2 then OpenDir (asN a) (asN b)
  else if N.eqb tag 3 then Write (asN a) (asN b)
  else if N.eqb tag 4 then Pwrite (asN a) (asN b) (asN c)
  else if N.eqb tag 5 then Ftruncate (asN a) (asN b)
  else if N.eqb tag 6 then Fsync (asN a)
  else if N.eqb tag 7 then Close (asN a)
  else if N.eqb tag 8 then Rename (dec_path a) (dec_path b)
  else if N.eqb tag 9 then Unlink (dec_path a)
  else if N.eqb tag 11 then Mkdir (asN a)
  else if N.eqb tag 12 then Rmdir (asN a)
  else Ack (dec_path a).

Definition dec_init (x : sx) : list (path * N) :=
  map (fun e => (dec_path (nthx 0 e), asN (nthx 1 e))) (asL x).

(** Spec oracle on a REAL trace: input [(init calls)], [init] = files present
    (and durable) before the trace, as [(path size)];
    output [(ok index reason)]: [(1 0 0)] if the trace obeys the publish
    discipline, else 0, the 1-based index of the first offending call and the
    reason code of [Monitor.guard]. *)
Definition fs_publish_ok (x : sx) : sx :=
  let m0 := m_of_files (dec_init (nthx 0 x)) in
  let t := map dec_call (asL (nthx 1 x)) in
  match check 1 m0 t with
  | (i, r, _) => SL [sxB (N.eqb r 0); sxN i; sxN r]
  end.

(** Model entry for C03: input [(init calls queries)]; the calls are the
    prefix of the script's system calls that completed before the process was
    killed; output, per queried path, [(present size)] in the post-kill state. *)
Definition fs_kill_state (x : sx) : sx :=
  let m0 := m_of_files (dec_init (nthx 0 x)) in
  let t := map dec_call (asL (nthx 1 x)) in
  let s := kill (run t (mfs m0)) in
  SL (map (fun q =>
             match read s (dec_path q) with
             | Some c => SL [sxN 1; sxN (csize c)]
             | None => SL [sxN 0; sxN 0]
             end) (asL (nthx 2 x))).
