(** Deletion rule of C11: an LTX file is unlinked only after a superseding
    file is durable, so every TXID of every file that was ever acknowledged
    stays covered by a durable, complete LTX file (same tree or the replica)
    at every instant -- [acked_txids_stay_covered]. *)
From Coq Require Import List NArith Bool Lia.
From LS Require Import Fs.Model Fs.Monitor Fs.Proofs.
Import ListNotations.
Open Scope N_scope.

Definition compat (tq tp : N) : Prop := tq = tp \/ tq = 1.

Definition covered (m : mstate) (tree n : N) : Prop :=
  exists q tq lq aq bq,
    In q (mever m ++ mknown m) /\
    pcls q = CLtx tq lq aq bq /\ compat tq tree /\ aq <= n /\ n <= bq /\ present_all (mfs m) q.

Definition Cov (m : mstate) : Prop :=
  forall p t l a b, In p (mever m) -> pcls p = CLtx t l a b ->
  forall n, a <= n -> n <= b -> covered m t n.

Lemma mever_mono m c q : In q (mever m) -> In q (mever (mstep m c)).
Proof.
  intro H. destruct c; simpl; auto. destruct (svol (mfs m) src); simpl; auto.
Qed.

Lemma mknown_mono m c q : In q (mknown m) -> In q (mknown (mstep m c)).
Proof.
  intro H. destruct c; simpl; auto. destruct (svol (mfs m) src); simpl; auto.
  destruct (is_ltx dst); simpl; auto.
Qed.

Lemma known_mono m c q : In q (mever m ++ mknown m) -> In q (mever (mstep m c) ++ mknown (mstep m c)).
Proof.
  intro H. apply in_app_or in H as [H|H]; apply in_or_app;
    [left; now apply mever_mono | right; now apply mknown_mono].
Qed.

Lemma ltx_final q t l a b : pcls q = CLtx t l a b -> finalb q = true.
Proof. unfold finalb. now intros ->. Qed.

Lemma covered_intro m t n q tq lq aq bq :
  In q (mever m ++ mknown m) ->
  pcls q = CLtx tq lq aq bq -> compat tq t -> aq <= n -> n <= bq -> present_all (mfs m) q -> covered m t n.
Proof. intros. exists q, tq, lq, aq, bq. auto 10. Qed.

Lemma covered_step m c t n :
  guard m c = 0 -> covered m t n -> covered (mstep m c) t n.
Proof.
  intros Hg (q & tq & lq & aq & bq & Hk & Hc & Hcomp & Ha & Hb & Hp).
  assert (forall dst, c = Rename q dst -> False) as Hren.
  { intros dst ->. unfold guard in Hg. rewrite (ltx_final _ _ _ _ _ Hc) in Hg. discriminate. }
  assert (forall d, c = Mkdir d \/ c = Rmdir d -> in_dir d q = false) as Hdir.
  { intros d Hd. apply (dir_dead_present m d q); [|apply in_or_app; right; exact Hk|exact Hp].
    destruct Hd as [->| ->]; simpl in Hg; destruct (dir_dead m d); auto; discriminate. }
  assert ((c = Unlink q -> False) -> covered (mstep m c) t n) as Hkeep.
  { intro Hu. eapply covered_intro; [apply known_mono; exact Hk | exact Hc | exact Hcomp | exact Ha | exact Hb |].
    rewrite mfs_mstep. apply present_all_step; assumption. }
  destruct c; try (apply Hkeep; discriminate).
  (* Unlink p *)
  destruct (path_dec p q) as [->|Hn]; [|apply Hkeep; intro E; inversion E; congruence].
  simpl in Hg. rewrite Hc in Hg. destruct Hp as ([a0 Hv] & Hrest). rewrite Hv in Hg.
  destruct (existsb (fun q0 => supersedesb q0 q && present_allb (mfs m) q0) (mknown m)) eqn:E; [|discriminate].
  apply existsb_exists in E as (q' & Hk' & E). apply andb_true_iff in E as [Hs Hp'].
  apply present_allb_spec in Hp'. unfold supersedesb in Hs. rewrite Hc in Hs.
  destruct (pcls q') as [| |tq' lq' aq' bq'] eqn:Hc'; try discriminate.
  repeat (apply andb_true_iff in Hs; destruct Hs as [Hs ?]).
  apply negb_true_iff in Hs. apply path_eqb_neq in Hs.
  apply N.leb_le in H, H0. unfold compatb in H1. apply orb_true_iff in H1.
  eapply (covered_intro _ _ _ q' tq' lq' aq' bq'); try lia.
  - apply known_mono. apply in_or_app. right. exact Hk'.
  - exact Hc'.
  - destruct H1 as [H1|H1]; apply N.eqb_eq in H1; subst; [assumption | right; reflexivity].
  - rewrite mfs_mstep. apply present_all_step; [assumption | discriminate | | intros d [Hd|Hd]; discriminate Hd].
    intro E. inversion E. congruence.
Qed.

Lemma mever_mstep m c :
  mever (mstep m c) = match c with Ack p => p :: mever m | _ => mever m end.
Proof. destruct c; simpl; try reflexivity. destruct (svol (mfs m) src); reflexivity. Qed.

Lemma Cov_step m c : Cov m -> guard m c = 0 -> Cov (mstep m c).
Proof.
  intros HC Hg p t l a b Hin Hc n Ha Hb. rewrite mever_mstep in Hin.
  assert (In p (mever m) \/ (c = Ack p /\ present_all (mfs m) p)) as Hcase.
  { destruct c; auto. destruct Hin as [<-|Hin]; auto. right. split; [reflexivity|].
    simpl in Hg. destruct (finalb p0); simpl in Hg; [|discriminate].
    destruct (settledb (mfs m) p0) eqn:E; simpl in Hg; [|discriminate].
    now apply settledb_present. }
  destruct Hcase as [Hold|[-> Hp]].
  - apply covered_step; [assumption|]. eapply HC; eauto.
  - eapply covered_intro; [| exact Hc | left; reflexivity | exact Ha | exact Hb | simpl; exact Hp].
    simpl. left. reflexivity.
Qed.

Lemma Cov_run t : forall m, Cov m -> run_ok t m = true -> Cov (mrun t m).
Proof.
  induction t as [|c t IH]; intros m HC H; simpl; [assumption|].
  apply run_ok_cons in H as [Hg H]. apply IH; [now apply Cov_step | assumption].
Qed.

Lemma Cov_init : Cov m_init.
Proof. intros p t l a b []. Qed.

(** every name acknowledged so far, whether or not it was unlinked later *)
Definition ever_acked (t : list syscall) : list path :=
  fold_left (fun l c => match c with Ack p => p :: l | _ => l end) t [].

Lemma mever_mrun t : forall m,
  mever (mrun t m) = fold_left (fun l c => match c with Ack p => p :: l | _ => l end) t (mever m).
Proof.
  induction t as [|c t IH]; intro m; simpl; [reflexivity|]. rewrite IH, mever_mstep. reflexivity.
Qed.

(** [acked_txids_stay_covered]: along an accepted trace, after a power failure
    at any prefix, every TXID in the range of every LTX file acknowledged
    before the failure is still inside the range of some LTX file (in the same
    tree, or in the replica) that is present and complete after the failure. *)
Theorem acked_txids_stay_covered t :
  publish_ok t = true ->
  forall t1 t2, t = t1 ++ t2 ->
  forall s', crash (run t1 fs_empty) s' ->
  forall p tr l a b, In p (ever_acked t1) -> pcls p = CLtx tr l a b ->
  forall n, a <= n -> n <= b ->
  exists q tq lq aq bq,
    pcls q = CLtx tq lq aq bq /\ compat tq tr /\ aq <= n /\ n <= bq /\
    complete_after (run t1 fs_empty) s' q.
Proof.
  intros Hok t1 t2 -> s' Hc p tr l a b Hin Hcl n Ha Hb.
  unfold publish_ok in Hok. apply run_ok_app in Hok as [Hok1 _].
  pose proof (Inv_run _ _ Inv_init Hok1) as HI.
  pose proof (Cov_run _ _ Cov_init Hok1) as HC.
  assert (forall t m, mfs (mrun t m) = run t (mfs m)) as Hrun.
  { induction t as [|c t IH]; intro m; simpl; [reflexivity|]. now rewrite IH, mfs_mstep. }
  unfold ever_acked in Hin. change (@nil path) with (mever m_init) in Hin. rewrite <- mever_mrun in Hin.
  destruct (HC p tr l a b Hin Hcl n Ha Hb) as (q & tq & lq & aq & bq & _ & Hq & Hcomp & Hqa & Hqb & Hp).
  exists q, tq, lq, aq, bq.
  split; [assumption|]. split; [assumption|]. split; [assumption|]. split; [assumption|].
  rewrite Hrun in Hp. simpl in Hp.
  destruct (crash_present _ _ _ Hc Hp) as [ino Hd].
  assert (strictb q = true) as Hs by (unfold strictb; now rewrite Hq).
  pose proof (crash_complete (mrun t1 m_init) s' q ino HI) as H.
  rewrite Hrun in H. simpl in H. apply H; auto.
Qed.

(** non-trivial instance: L0 files 1 and 2 acknowledged in the replica, the
    L1 file 1..2 published durably, then both L0 files unlinked: accepted;
    unlinking before the directory fsync of the L1 file: rejected (reason 6) *)
Example deletion_rule_example :
  let l0 n := mkPath 1 n (CLtx 1 0 n n) in
  let t0 n := mkPath 1 (100 + n) CTmp in
  let l1 := mkPath 2 1 (CLtx 1 1 1 2) in
  let pub fd p q := [Creat fd p true; Write fd 10; Fsync fd; Close fd; Rename p q] in
  let dirsync d := [OpenDir 9 d; Fsync 9; Close 9] in
  let upload n := pub 5 (t0 n) (l0 n) ++ dirsync 1 ++ [Ack (l0 n)] in
  publish_ok (upload 1 ++ upload 2 ++ pub 6 (mkPath 2 101 CTmp) l1 ++ dirsync 2 ++ [Ack l1; Unlink (l0 1); Unlink (l0 2)]) = true /\
  snd (fst (check 1 m_init (upload 1 ++ upload 2 ++ pub 6 (mkPath 2 101 CTmp) l1 ++ [Unlink (l0 1)]))) = R_UNLINK_UNSUPERSEDED.
Proof. split; vm_compute; reflexivity. Qed.
