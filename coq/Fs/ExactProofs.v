(** Published before acknowledged, for CONTENT: a rename over an existing
    durable entry is a pending directory operation like any other, so the
    monitor accepts an ack only when the name can resolve to nothing but the
    inode being acknowledged.  [acked_content_exact]: after a power failure at
    any later instant, a name that was acknowledged and has not been renamed
    over or unlinked since resolves to exactly the inode acknowledged LAST,
    with its complete content -- the file it replaced cannot reappear. *)
From Coq Require Import List NArith Bool Lia.
From LS Require Import Fs.Model Fs.Monitor Fs.Proofs.
Import ListNotations.
Open Scope N_scope.

Definition drop_path (p : path) (l : list (path * N)) : list (path * N) :=
  filter (fun e => negb (path_eqb (fst e) p)) l.

(** (name, inode acknowledged last), for names not renamed over / unlinked since *)
Definition exact_upd (s : fs) (l : list (path * N)) (c : syscall) : list (path * N) :=
  match c with
  | Ack p => match svol s p with Some a => (p, a) :: drop_path p l | None => l end
  | Rename _ dst => drop_path dst l
  | Unlink p => drop_path p l
  | _ => l
  end.

Fixpoint exact_from (t : list syscall) (s : fs) (l : list (path * N)) : list (path * N) :=
  match t with
  | [] => l
  | c :: tl => exact_from tl (step s c) (exact_upd s l c)
  end.

Definition exact_acked (t : list syscall) : list (path * N) := exact_from t fs_empty [].

Definition settled (s : fs) (p : path) (a : N) : Prop :=
  svol s p = Some a /\ sdur s p = Some a /\ forall v, ~ In (p, v) (spend s).

Definition X (m : mstate) (l : list (path * N)) : Prop :=
  forall p a, In (p, a) l -> finalb p = true /\ In p (mever m) /\ settled (mfs m) p a.

Lemma drop_path_in p q a l : In (q, a) (drop_path p l) -> In (q, a) l /\ q <> p.
Proof.
  unfold drop_path. intro H. apply filter_In in H as [H1 H2]. split; [assumption|].
  simpl in H2. intro; subst. rewrite path_eqb_refl in H2. discriminate.
Qed.

Lemma settled_step s c p a :
  settled s p a -> finalb p = true ->
  (forall fd q tr, c = Creat fd q tr -> finalb q = false) ->
  (forall src dst, c = Rename src dst -> finalb src = false /\ dst <> p) ->
  (c = Unlink p -> False) ->
  (forall d, c = Mkdir d \/ c = Rmdir d -> in_dir d p = false) ->
  settled (step s c) p a.
Proof.
  intros (Hv & Hd & Hp) Hf Hcr Hre Hun Hdir. unfold settled.
  destruct c; simpl; try (repeat split; assumption).
  - assert (p <> p0) as Hne by (intro; subst; rewrite (Hcr _ _ _ eq_refl) in Hf; discriminate).
    destruct (svol s p0) eqn:E.
    + destruct trunc; simpl; repeat split; assumption.
    + simpl. repeat split; try assumption.
      * now rewrite updP_other.
      * intros v Hin. apply in_app_or in Hin as [Hin|[Hin|[]]]; [eapply Hp; eauto|]. inversion Hin. congruence.
  - destruct (svol s p0); simpl; repeat split; assumption.
  - destruct (sfd s fd) as [[i o|d g]|]; simpl; repeat split; assumption.
  - destruct (sfd s fd) as [[i o|d g]|]; simpl; repeat split; assumption.
  - destruct (sfd s fd) as [[i o|d g]|]; simpl; repeat split; assumption.
  - destruct (sfd s fd) as [[i o|d g]|]; simpl; try (repeat split; assumption).
    destruct (N.eqb g (sgen s d)); simpl; [|repeat split; assumption].
    repeat split; try assumption.
    + destruct (in_dir d p); assumption.
    + intros v Hin. apply filter_In in Hin as [Hin _]. eapply Hp; eauto.
  - destruct (Hre _ _ eq_refl) as [Hfs Hne].
    assert (p <> src) as Hne2 by (intro; subst; rewrite Hfs in Hf; discriminate).
    destruct (svol s src); simpl; [|repeat split; assumption].
    repeat split; try assumption.
    + rewrite updP_other by auto. now rewrite updP_other.
    + intros v Hin. apply in_app_or in Hin as [Hin|[Hin|[Hin|[]]]]; [eapply Hp; eauto| |]; inversion Hin; congruence.
  - assert (p <> p0) as Hne by (intro; subst; apply Hun; reflexivity).
    destruct (svol s p0); simpl; [|repeat split; assumption].
    repeat split; try assumption.
    + now rewrite updP_other.
    + intros v Hin. apply in_app_or in Hin as [Hin|[Hin|[]]]; [eapply Hp; eauto|]. inversion Hin. congruence.
  - rewrite (Hdir d) by auto. repeat split; try assumption.
    intros v Hin. apply filter_In in Hin as [Hin _]. eapply Hp; eauto.
  - rewrite (Hdir d) by auto. repeat split; try assumption.
    intros v Hin. apply filter_In in Hin as [Hin _]. eapply Hp; eauto.
Qed.

Lemma mever_keep m c q : In q (mever m) -> In q (mever (mstep m c)).
Proof. intro H. destruct c; simpl; auto. destruct (svol (mfs m) src); simpl; auto. Qed.

Lemma X_step m l c : X m l -> guard m c = 0 -> X (mstep m c) (exact_upd (mfs m) l c).
Proof.
  intros HX Hg p a Hin.
  assert ((In (p, a) l /\ (forall src, c = Rename src p -> False) /\ (c = Unlink p -> False)) \/
          (c = Ack p /\ finalb p = true /\ settled (mfs m) p a)) as Hcase.
  { destruct c; simpl in Hin; try (left; repeat split; [assumption | discriminate | discriminate]).
    - apply drop_path_in in Hin as [Hin Hne]. left. repeat split; try assumption; try discriminate.
      intros s0 E. inversion E. congruence.
    - apply drop_path_in in Hin as [Hin Hne]. left. repeat split; try assumption; try discriminate.
      intro E. inversion E. congruence.
    - destruct (svol (mfs m) p0) eqn:Ev; [|left; repeat split; [assumption|discriminate|discriminate]].
      destruct Hin as [Hin|Hin].
      + inversion Hin; subst. right. split; [reflexivity|]. simpl in Hg.
        destruct (finalb p) eqn:Ef; simpl in Hg; [|discriminate]. split; [reflexivity|].
        destruct (settledb (mfs m) p) eqn:Es; simpl in Hg; [|discriminate].
        apply settledb_spec in Es as (a' & Hv & Hd & Hp). rewrite Ev in Hv. inversion Hv; subst.
        repeat split; assumption.
      + apply drop_path_in in Hin as [Hin _]. left. repeat split; [assumption|discriminate|discriminate]. }
  destruct Hcase as [(Hold & Hnr & Hnu)|(-> & Hf & Hs)].
  - destruct (HX _ _ Hold) as (Hf & Hev & Hs). split; [assumption|]. split; [now apply mever_keep|].
    rewrite mfs_mstep. apply settled_step; try assumption.
    + intros fd q tr ->. simpl in Hg. destruct (finalb q); [discriminate|reflexivity].
    + intros src dst ->. split.
      * simpl in Hg. destruct (finalb src); [discriminate|reflexivity].
      * intro; subst. eapply Hnr; reflexivity.
    + intros d Hd. apply (dir_dead_present m d p).
      * destruct Hd as [->| ->]; simpl in Hg; destruct (dir_dead m d); auto; discriminate.
      * apply in_or_app. right. apply in_or_app. left. exact Hev.
      * destruct Hs as (Hv & Hd' & Hp). repeat split; eauto. intros v Hin'. exfalso. eapply Hp; eauto.
  - split; [assumption|]. split; [simpl; auto|]. simpl. exact Hs.
Qed.

Lemma X_run t : forall m l, X m l -> run_ok t m = true -> X (mrun t m) (exact_from t (mfs m) l).
Proof.
  induction t as [|c t IH]; intros m l HX H; simpl; [assumption|].
  apply run_ok_cons in H as [Hg H]. rewrite <- mfs_mstep. apply IH; [now apply X_step | assumption].
Qed.

Theorem acked_content_exact t :
  publish_ok t = true ->
  forall t1 t2, t = t1 ++ t2 ->
  forall s', crash (run t1 fs_empty) s' ->
  forall p a, In (p, a) (exact_acked t1) ->
    svol s' p = Some a /\
    (strictb p = true -> ivol (sino s' a) = ivol (sino (run t1 fs_empty) a)).
Proof.
  intros Hok t1 t2 -> s' Hc p a Hin.
  unfold publish_ok in Hok. apply run_ok_app in Hok as [Hok1 _].
  assert (X m_init []) as HX0 by (intros q b []).
  pose proof (X_run t1 m_init [] HX0 Hok1) as HX.
  pose proof (Inv_run _ _ Inv_init Hok1) as HI.
  assert (forall t m, mfs (mrun t m) = run t (mfs m)) as Hrun.
  { induction t as [|c t IH]; intro m; simpl; [reflexivity|]. now rewrite IH, mfs_mstep. }
  destruct (HX p a Hin) as (_ & _ & Hv & Hd & Hp). rewrite Hrun in Hv, Hd, Hp. simpl in Hv, Hd, Hp.
  assert (sdur s' p = Some a) as Hd'.
  { destruct Hc as (H1 & _). destruct (H1 p) as [H|H]; [now rewrite H|]. exfalso. eapply Hp; eauto. }
  split.
  - destruct Hc as (_ & H2 & _). now rewrite H2.
  - intro Hs. pose proof (crash_complete (mrun t1 m_init) s' p a HI) as H.
    rewrite Hrun in H. simpl in H. destruct (H Hc Hs Hd') as (i & Hvi & _ & Hcont).
    destruct Hc as (_ & H2 & _). rewrite H2, Hd' in Hvi. inversion Hvi; subst. exact Hcont.
Qed.

(** the escaped mutant's trace shape: a snapshot re-published over the same
    name; acknowledging the replacement without flushing the directory is
    rejected (reason 5), with the flush it is accepted and the acknowledged
    inode is the new one *)
Example replace_without_dir_fsync_rejected :
  let f := mkPath 1 1 (CLtx 1 9 1 3) in
  let t := mkPath 1 2 CTmp in
  let pub := [Creat 5 t true; Write 5 10; Fsync 5; Close 5; Rename t f] in
  let dirsync := [OpenDir 9 1; Fsync 9; Close 9] in
  fst (check 1 m_init (pub ++ dirsync ++ [Ack f] ++ pub ++ [Ack f])) = (15, R_ACK_NOT_DURABLE) /\
  publish_ok (pub ++ dirsync ++ [Ack f] ++ pub ++ dirsync ++ [Ack f]) = true /\
  exact_acked (pub ++ dirsync ++ [Ack f]) = [(f, 1)] /\
  exact_acked (pub ++ dirsync ++ [Ack f] ++ pub) = [] /\
  exact_acked (pub ++ dirsync ++ [Ack f] ++ pub ++ dirsync ++ [Ack f]) = [(f, 2)].
Proof. vm_compute. repeat split; reflexivity. Qed.
