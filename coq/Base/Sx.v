(** Generic data exchanged between the Go harness, the extracted OCaml runner
    and the in-Coq cross-check: numbers and nested lists.  Every model entry
    point used by a correspondence check has type [sx -> sx]. *)
From Coq Require Import List ZArith NArith Bool.
Import ListNotations.

Inductive sx : Type :=
| SA (z : Z)
| SL (l : list sx).

Definition sxN (n : N) : sx := SA (Z.of_N n).
Definition sxB (b : bool) : sx := SA (if b then 1%Z else 0%Z).

Definition asZ (x : sx) : Z := match x with SA z => z | SL _ => 0%Z end.
Definition asN (x : sx) : N := Z.to_N (asZ x).
Definition asB (x : sx) : bool := negb (Z.eqb (asZ x) 0).
Definition asL (x : sx) : list sx := match x with SL l => l | SA _ => [] end.
Definition asNs (x : sx) : list N := map asN (asL x).
Definition asZs (x : sx) : list Z := map asZ (asL x).

Definition sxNs (l : list N) : sx := SL (map sxN l).

(** positional access with a default: the harness always supplies the agreed
    arity, a short list decodes to zeros / empty lists. *)
Definition nthx (i : nat) (x : sx) : sx := nth i (asL x) (SL []).

Fixpoint sx_eqb (a b : sx) {struct a} : bool :=
  match a, b with
  | SA x, SA y => Z.eqb x y
  | SL xs, SL ys =>
      (fix go (xs ys : list sx) {struct xs} : bool :=
         match xs, ys with
         | [], [] => true
         | x :: xs', y :: ys' => sx_eqb x y && go xs' ys'
         | _, _ => false
         end) xs ys
  | _, _ => false
  end.

(** used by the in-Coq cross-check: indices of the cases on which the entry
    point disagrees with the observed output *)
Fixpoint mismatches_from (i : nat) (f : sx -> sx) (cases : list (sx * sx)) : list nat :=
  match cases with
  | [] => []
  | (inp, obs) :: tl =>
      if sx_eqb (f inp) obs then mismatches_from (S i) f tl
      else i :: mismatches_from (S i) f tl
  end.
Definition mismatches := mismatches_from 0.
