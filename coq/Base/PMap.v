(** Finite maps keyed by [N] as association lists kept sorted by key, so that
    the list itself is the canonical, order-independent observable. *)
From Coq Require Import List NArith Bool Lia.
Import ListNotations.
Open Scope N_scope.

Section PMap.
Context {V : Type}.
Definition pmap := list (N * V).

Fixpoint pm_get (k : N) (m : pmap) : option V :=
  match m with
  | [] => None
  | (k', v) :: tl => if N.eqb k k' then Some v else pm_get k tl
  end.

Fixpoint pm_set (k : N) (v : V) (m : pmap) : pmap :=
  match m with
  | [] => [(k, v)]
  | (k', v') :: tl =>
      if N.ltb k k' then (k, v) :: m
      else if N.eqb k k' then (k, v) :: tl
      else (k', v') :: pm_set k v tl
  end.

Definition pm_filter (f : N -> V -> bool) (m : pmap) : pmap :=
  filter (fun kv => f (fst kv) (snd kv)) m.

Definition pm_keys (m : pmap) : list N := map fst m.

Lemma pm_get_set k k' v m :
  pm_get k (pm_set k' v m) = if N.eqb k k' then Some v else pm_get k m.
Proof.
  induction m as [|[k0 v0] tl IH]; cbn [pm_set pm_get].
  - reflexivity.
  - destruct (N.ltb k' k0) eqn:Hlt; cbn [pm_get].
    + reflexivity.
    + destruct (N.eqb k' k0) eqn:He; cbn [pm_get].
      * apply N.eqb_eq in He; subst k0.
        destruct (N.eqb k k'); reflexivity.
      * destruct (N.eqb k k0) eqn:Hk0.
        -- apply N.eqb_eq in Hk0; subst k0.
           destruct (N.eqb k k') eqn:Hkk'; [|reflexivity].
           apply N.eqb_eq in Hkk'; subst k'. rewrite N.eqb_refl in He; discriminate.
        -- exact IH.
Qed.

(** [pm_union m tx]: every binding of [tx] written over [m]
    (Go: [for k, v := range tx { m[k] = v }]). *)
Definition pm_union (m tx : pmap) : pmap :=
  fold_right (fun kv acc => pm_set (fst kv) (snd kv) acc) m tx.

Lemma pm_get_union k m tx :
  pm_get k (pm_union m tx) = match pm_get k tx with Some v => Some v | None => pm_get k m end.
Proof.
  induction tx as [|[k0 v0] tl IH]; cbn [pm_union fold_right pm_get fst snd].
  - reflexivity.
  - fold (pm_union m tl). rewrite pm_get_set. destruct (N.eqb k k0); [reflexivity|exact IH].
Qed.


Lemma pm_get_filter_key (f : N -> bool) k m :
  pm_get k (pm_filter (fun k' _ => f k') m) = if f k then pm_get k m else None.
Proof.
  induction m as [|[k0 v0] tl IH]; cbn.
  - destruct (f k); reflexivity.
  - destruct (f k0) eqn:Hf0; cbn.
    + destruct (N.eqb k k0) eqn:E.
      * apply N.eqb_eq in E; subst. rewrite Hf0. reflexivity.
      * exact IH.
    + destruct (N.eqb k k0) eqn:E.
      * apply N.eqb_eq in E; subst. rewrite Hf0 in *. exact IH.
      * exact IH.
Qed.
End PMap.
Arguments pmap : clear implicits.
