(** Bytes as [N]; fixed-width big/little-endian decoding and u32 wrap-around. *)
From Coq Require Import List NArith ZArith Lia Bool.
Import ListNotations.
Open Scope N_scope.

Definition two32 : N := 4294967296.
Definition u32 (x : N) : N := x mod two32.

Definition nthb (l : list N) (i : nat) : N := nth i l 0.

(** big-endian 32-bit word at position [i] of [l] (missing bytes read as 0) *)
Definition be32 (l : list N) (i : nat) : N :=
  u32 (nthb l i * 16777216 + nthb l (i+1) * 65536 + nthb l (i+2) * 256 + nthb l (i+3)).
Definition le32 (l : list N) (i : nat) : N :=
  u32 (nthb l (i+3) * 16777216 + nthb l (i+2) * 65536 + nthb l (i+1) * 256 + nthb l i).
(** [bo = true] : big-endian *)
Definition w32 (bo : bool) (l : list N) (i : nat) : N := if bo then be32 l i else le32 l i.

Lemma u32_lt x : u32 x < two32.
Proof. unfold u32, two32. apply N.mod_lt. discriminate. Qed.

(** slicing *)
Definition slice {A} (l : list A) (off len : nat) : list A := firstn len (skipn off l).

(** complete chunks of [n] elements; a short tail is dropped *)
Fixpoint chunks_fuel {A} (fuel n : nat) (l : list A) : list (list A) :=
  match fuel with
  | O => []
  | S f =>
      if Nat.ltb (length l) n then []
      else firstn n l :: chunks_fuel f n (skipn n l)
  end.
Definition chunks {A} (n : nat) (l : list A) : list (list A) :=
  match n with
  | O => []
  | _ => chunks_fuel (length l) n l
  end.
