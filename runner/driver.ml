(* Correspondence runner: reads case files (one case per line:
   ENTRY <tab> INPUT-SX <tab> OBSERVED-SX), evaluates the extracted Coq entry
   point on the input and compares structurally with the observed output.
   This file contains no model logic: parsing, dispatch by name, comparison
   with the extracted [sx_eqb], printing. *)
open Model

let rec pos_of_int (n : int) : positive =
  if n = 1 then XH
  else if n land 1 = 0 then XO (pos_of_int (n lsr 1))
  else XI (pos_of_int (n lsr 1))

let z_of_int (n : int) : z =
  if n = 0 then Z0 else if n > 0 then Zpos (pos_of_int n) else Zneg (pos_of_int (-n))

let ten = z_of_int 10

(* decimal string of any length *)
let z_of_string (s : string) : z =
  let neg = String.length s > 0 && s.[0] = '-' in
  let start = if neg then 1 else 0 in
  let len = String.length s - start in
  let v =
    if len <= 17 then z_of_int (int_of_string (String.sub s start len))
    else begin
      let acc = ref Z0 in
      for i = start to String.length s - 1 do
        acc := Z.add (Z.mul !acc ten) (z_of_int (Char.code s.[i] - 48))
      done; !acc
    end in
  if neg then Z.opp v else v

let rec pos_to_hex_digits (p : positive) (acc : int list) : int list =
  (* least significant bit first *)
  match p with
  | XH -> List.rev (1 :: acc)
  | XO q -> pos_to_hex_digits q (0 :: acc)
  | XI q -> pos_to_hex_digits q (1 :: acc)

let hex_of_pos (p : positive) : string =
  let bits = Array.of_list (pos_to_hex_digits p []) in
  let n = Array.length bits in
  let nd = (n + 3) / 4 in
  let b = Bytes.create nd in
  for d = 0 to nd - 1 do
    let v = ref 0 in
    for k = 3 downto 0 do
      let i = d * 4 + k in
      v := !v * 2 + (if i < n then bits.(i) else 0)
    done;
    Bytes.set b (nd - 1 - d) "0123456789abcdef".[!v]
  done;
  Bytes.to_string b

let string_of_z (x : z) : string =
  match x with
  | Z0 -> "0"
  | Zpos p -> "0x" ^ hex_of_pos p
  | Zneg p -> "-0x" ^ hex_of_pos p

let rec string_of_sx (x : sx) : string =
  match x with
  | SA v -> string_of_z v
  | SL l -> "(" ^ String.concat " " (List.map string_of_sx l) ^ ")"

(* ---- parser ---- *)
exception Parse of string

let hexval c =
  match c with
  | '0'..'9' -> Char.code c - 48
  | 'a'..'f' -> Char.code c - 87
  | 'A'..'F' -> Char.code c - 55
  | _ -> raise (Parse "hex")

let byte_tbl : sx array = Array.init 256 (fun i -> SA (z_of_int i))

let defs : (string, sx) Hashtbl.t = Hashtbl.create 16

let parse_sx (s : string) : sx =
  let n = String.length s in
  let pos = ref 0 in
  let skip () = while !pos < n && (s.[!pos] = ' ') do incr pos done in
  let rec item () : sx =
    skip ();
    if !pos >= n then raise (Parse "eof");
    match s.[!pos] with
    | '(' ->
        incr pos;
        let acc = ref [] in
        let fin = ref false in
        while not !fin do
          skip ();
          if !pos >= n then raise (Parse "unclosed");
          if s.[!pos] = ')' then (incr pos; fin := true)
          else acc := item () :: !acc
        done;
        SL (List.rev !acc)
    | '#' ->
        incr pos;
        let st = !pos in
        while !pos < n && s.[!pos] <> ' ' && s.[!pos] <> ')' do incr pos done;
        let len = !pos - st in
        if len land 1 = 1 then raise (Parse "odd hex");
        let acc = ref [] in
        let i = ref (!pos - 2) in
        while !i >= st do
          acc := byte_tbl.(hexval s.[!i] * 16 + hexval s.[!i + 1]) :: !acc;
          i := !i - 2
        done;
        SL !acc
    | '$' ->
        incr pos;
        let st = !pos in
        while !pos < n && s.[!pos] <> ' ' && s.[!pos] <> ')' do incr pos done;
        (try Hashtbl.find defs (String.sub s st (!pos - st))
         with Not_found -> raise (Parse "undefined name"))
    | _ ->
        let st = !pos in
        while !pos < n && s.[!pos] <> ' ' && s.[!pos] <> ')' do incr pos done;
        SA (z_of_string (String.sub s st (!pos - st)))
  in
  let r = item () in
  skip ();
  if !pos <> n then raise (Parse "trailing");
  r

let entries : (string * (sx -> sx)) list = Entries.table

let () =
  let mode = if Array.length Sys.argv > 1 then Sys.argv.(1) else "check" in
  let total = ref 0 and bad = ref 0 in
  (try
    let lineno = ref 0 in
    while true do
      let line = input_line stdin in
      incr lineno;
      if String.length line > 0 && line.[0] = '=' then begin
        (* =NAME <tab> SX : bind a name usable as $NAME in later inputs *)
        match String.split_on_char '\t' line with
        | name :: v :: _ -> Hashtbl.replace defs (String.sub name 1 (String.length name - 1)) (parse_sx v)
        | _ -> Printf.printf "ERROR %d malformed definition\n" !lineno; exit 2
      end else
      if String.length line > 0 && line.[0] <> ';' then begin
        match String.split_on_char '\t' line with
        | name :: inp :: rest ->
            let f = try List.assoc name entries
                    with Not_found -> (Printf.printf "ERROR %d unknown entry %s\n" !lineno name; exit 2) in
            let out = f (parse_sx inp) in
            incr total;
            if mode = "eval" then
              Printf.printf "%d\t%s\t%s\n" !lineno name (string_of_sx out)
            else begin
              match rest with
              | obs :: _ ->
                  if not (sx_eqb out (parse_sx obs)) then begin
                    incr bad;
                    Printf.printf "MISMATCH\t%d\t%s\t%s\n" !lineno name (string_of_sx out)
                  end
              | [] -> Printf.printf "ERROR %d missing observed\n" !lineno; exit 2
            end
        | _ -> Printf.printf "ERROR %d malformed line\n" !lineno; exit 2
      end
    done
  with End_of_file -> ());
  Printf.printf "DONE\t%d\t%d\n" !total !bad
