#!/bin/sh
# build the extracted model + driver into /verif/runner/build/runner
set -e
cd "$(dirname "$0")"
mkdir -p build
cd build
coqc -Q ../../coq LS ../../coq/Extract/Extract.v > extract.log 2>&1 || { cat extract.log; exit 1; }
cp ../driver.ml ../entries.ml .
ocamlfind ocamlopt -O3 -w -a -package str model.mli model.ml entries.ml driver.ml -o runner 2>/dev/null || \
ocamlfind ocamlopt -w -a model.mli model.ml entries.ml driver.ml -o runner
