(* GENERATED: name -> extracted entry point; no logic *)
open Model
let table : (string * (sx -> sx)) list = [
  ("wal_run", wal_run);
  ("wal_salts", wal_salts);
  ("wal_spec", wal_spec);
  ("wal_spec_ok", wal_spec_ok);
]
