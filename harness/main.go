// Command harness drives the real litestream code for the correspondence
// checks of /verif. One sub-command per property group; each writes case files
// (ENTRY \t INPUT-SX \t OBSERVED-SX) and a stats JSON under the given work dir.
package main

import (
	"fmt"
	"os"
	"sort"
)

type subcmd func(args []string) error

var subcmds = map[string]subcmd{}

func register(name string, f subcmd) { subcmds[name] = f }

func main() {
	if len(os.Args) < 2 {
		names := make([]string, 0, len(subcmds))
		for n := range subcmds {
			names = append(names, n)
		}
		sort.Strings(names)
		fmt.Fprintln(os.Stderr, "usage: harness <subcommand> [flags]; subcommands:", names)
		os.Exit(2)
	}
	f, ok := subcmds[os.Args[1]]
	if !ok {
		fmt.Fprintln(os.Stderr, "unknown subcommand", os.Args[1])
		os.Exit(2)
	}
	if err := f(os.Args[2:]); err != nil {
		fmt.Fprintln(os.Stderr, "harness error:", err)
		os.Exit(3)
	}
}
