package main

import (
	"bufio"
	"crypto/sha256"
	"encoding/hex"
	"encoding/json"
	"fmt"
	"io"
	"log/slog"
	"math/rand"
	"os"
	"path/filepath"
	"sort"
	"strconv"
	"strings"
)

// ---- s-expression output -------------------------------------------------

// Sx is a number, a byte string (printed #hex, decoded as a list of bytes) or a list.
type Sx interface{ write(b *strings.Builder) }

type sxInt int64
type sxUint uint64
type sxBytes []byte
type sxList []Sx
type sxRef string

func (v sxInt) write(b *strings.Builder)  { b.WriteString(strconv.FormatInt(int64(v), 10)) }
func (v sxUint) write(b *strings.Builder) { b.WriteString(strconv.FormatUint(uint64(v), 10)) }
func (v sxBytes) write(b *strings.Builder) {
	if len(v) == 0 {
		b.WriteString("()")
		return
	}
	b.WriteByte('#')
	b.WriteString(hex.EncodeToString(v))
}
func (v sxRef) write(b *strings.Builder) { b.WriteByte('$'); b.WriteString(string(v)) }
func (v sxList) write(b *strings.Builder) {
	b.WriteByte('(')
	for i, x := range v {
		if i > 0 {
			b.WriteByte(' ')
		}
		x.write(b)
	}
	b.WriteByte(')')
}

func I(v int64) Sx   { return sxInt(v) }
func U(v uint64) Sx  { return sxUint(v) }
func B(v bool) Sx {
	if v {
		return sxInt(1)
	}
	return sxInt(0)
}
func L(xs ...Sx) Sx { return sxList(xs) }

func sxString(x Sx) string {
	var b strings.Builder
	x.write(&b)
	return b.String()
}

// ---- case writer -----------------------------------------------------------

type CaseWriter struct {
	f        *os.File
	w        *bufio.Writer
	N        int
	Classes  map[string]int
	distinct map[[32]byte]struct{}
	Nontriv  int
	Samples  []string
	defs     map[string][32]byte
}

func NewCaseWriter(path string) (*CaseWriter, error) {
	if err := os.MkdirAll(filepath.Dir(path), 0o755); err != nil {
		return nil, err
	}
	f, err := os.Create(path)
	if err != nil {
		return nil, err
	}
	return &CaseWriter{f: f, w: bufio.NewWriterSize(f, 1<<20), Classes: map[string]int{}, distinct: map[[32]byte]struct{}{}}, nil
}

// Add writes one case. class is a label for the input distribution; nontrivial
// says whether the case exercised a non-default path (by the caller's stated rule).
func (c *CaseWriter) Add(entry string, in, obs Sx, class string, nontrivial bool) {
	is, os_ := sxString(in), sxString(obs)
	fmt.Fprintf(c.w, "%s\t%s\t%s\n", entry, is, os_)
	c.N++
	c.Classes[class]++
	hs := entry + "\t" + is
	for n, dh := range c.defs {
		if strings.Contains(is, "$"+n) {
			hs += "\t" + n + "=" + hex.EncodeToString(dh[:])
		}
	}
	h := sha256.Sum256([]byte(hs))
	if _, ok := c.distinct[h]; !ok {
		c.distinct[h] = struct{}{}
		if nontrivial {
			c.Nontriv++
		}
	}
	if len(c.Samples) < 3 && len(is) < 600 {
		c.Samples = append(c.Samples, entry+" "+is+" => "+os_)
	}
}

// Define binds name to a value; later inputs may refer to it as Ref(name).
// References are resolved by content hash when counting distinct cases.
func (c *CaseWriter) Define(name string, v Sx) {
	s := sxString(v)
	fmt.Fprintf(c.w, "=%s\t%s\n", name, s)
	if c.defs == nil {
		c.defs = map[string][32]byte{}
	}
	c.defs[name] = sha256.Sum256([]byte(s))
}

func Ref(name string) Sx { return sxRef(name) }

func (c *CaseWriter) Close() error {
	if err := c.w.Flush(); err != nil {
		return err
	}
	return c.f.Close()
}

// Stats is written next to the case file and copied into the evidence.
type Stats struct {
	Cases              int            `json:"cases"`
	Distinct           int            `json:"distinct"`
	DistinctNontrivial int            `json:"distinct_nontrivial"`
	Classes            map[string]int `json:"classes"`
	Samples            []string       `json:"samples"`
	Extra              map[string]any `json:"extra,omitempty"`
	ImplViolations     []ImplViolation `json:"impl_violations,omitempty"`
}

// ImplViolation is a property-level failure observed directly on the
// implementation (spec-level oracle evaluated in Go, e.g. restored bytes differ).
type ImplViolation struct {
	Signature string `json:"signature"`
	Detail    string `json:"detail"`
	Replay    any    `json:"replay,omitempty"`
}

func (c *CaseWriter) Stats() Stats {
	return Stats{Cases: c.N, Distinct: len(c.distinct), DistinctNontrivial: c.Nontriv, Classes: c.Classes, Samples: c.Samples}
}

func writeJSON(path string, v any) error {
	b, err := json.MarshalIndent(v, "", " ")
	if err != nil {
		return err
	}
	return os.WriteFile(path, b, 0o644)
}

// ---- misc ------------------------------------------------------------------

func newRand(seed int64) *rand.Rand { return rand.New(rand.NewSource(seed)) }

func quietLogger() *slog.Logger { return slog.New(slog.NewTextHandler(io.Discard, nil)) }

func sortedKeysU32(m map[uint32]int64) []uint32 {
	ks := make([]uint32, 0, len(m))
	for k := range m {
		ks = append(ks, k)
	}
	sort.Slice(ks, func(i, j int) bool { return ks[i] < ks[j] })
	return ks
}

func envInt(name string, def int64) int64 {
	if s := os.Getenv(name); s != "" {
		if v, err := strconv.ParseInt(s, 10, 64); err == nil {
			return v
		}
	}
	return def
}
