// Package hx holds what every harness command shares: s-expression output,
// the case-file writer with its statistics, PRNG and small helpers.
package hx

import (
	"bufio"
	"crypto/sha256"
	"encoding/hex"
	"encoding/json"
	"fmt"
	"io"
	"log/slog"
	"math/rand"
	"os"
	"path/filepath"
	"sort"
	"strconv"
	"strings"
)

// ---- s-expression output -------------------------------------------------

// Sx is a number, a byte string (printed #hex, decoded as a list of bytes) or a list.
type Sx interface{ write(b *strings.Builder) }

type SxInt int64
type SxUint uint64
type SxBytes []byte
type SxList []Sx
type SxRef string

func (v SxInt) write(b *strings.Builder)  { b.WriteString(strconv.FormatInt(int64(v), 10)) }
func (v SxUint) write(b *strings.Builder) { b.WriteString(strconv.FormatUint(uint64(v), 10)) }
func (v SxBytes) write(b *strings.Builder) {
	if len(v) == 0 {
		b.WriteString("()")
		return
	}
	b.WriteByte('#')
	b.WriteString(hex.EncodeToString(v))
}
func (v SxRef) write(b *strings.Builder) { b.WriteByte('$'); b.WriteString(string(v)) }
func (v SxList) write(b *strings.Builder) {
	b.WriteByte('(')
	for i, x := range v {
		if i > 0 {
			b.WriteByte(' ')
		}
		x.write(b)
	}
	b.WriteByte(')')
}

func I(v int64) Sx   { return SxInt(v) }
func U(v uint64) Sx  { return SxUint(v) }
func B(v bool) Sx {
	if v {
		return SxInt(1)
	}
	return SxInt(0)
}
func L(xs ...Sx) Sx { return SxList(xs) }

func SxString(x Sx) string {
	var b strings.Builder
	x.write(&b)
	return b.String()
}

// ---- case writer -----------------------------------------------------------

type CaseWriter struct {
	f        *os.File
	w        *bufio.Writer
	N        int
	Classes  map[string]int
	distinct map[[32]byte]struct{}
	Nontriv  int
	Samples  []string
	defs     map[string][32]byte
}

func NewCaseWriter(path string) (*CaseWriter, error) {
	if err := os.MkdirAll(filepath.Dir(path), 0o755); err != nil {
		return nil, err
	}
	f, err := os.Create(path)
	if err != nil {
		return nil, err
	}
	return &CaseWriter{f: f, w: bufio.NewWriterSize(f, 1<<20), Classes: map[string]int{}, distinct: map[[32]byte]struct{}{}}, nil
}

// Add writes one case. class is a label for the input distribution; nontrivial
// says whether the case exercised a non-default path (by the caller's stated rule).
func (c *CaseWriter) Add(entry string, in, obs Sx, class string, nontrivial bool) {
	is, os_ := SxString(in), SxString(obs)
	fmt.Fprintf(c.w, "%s\t%s\t%s\n", entry, is, os_)
	c.N++
	c.Classes[class]++
	hs := entry + "\t" + is
	for n, dh := range c.defs {
		if strings.Contains(is, "$"+n) {
			hs += "\t" + n + "=" + hex.EncodeToString(dh[:])
		}
	}
	h := sha256.Sum256([]byte(hs))
	if _, ok := c.distinct[h]; !ok {
		c.distinct[h] = struct{}{}
		if nontrivial {
			c.Nontriv++
		}
	}
	if len(c.Samples) < 3 && len(is) < 600 {
		c.Samples = append(c.Samples, entry+" "+is+" => "+os_)
	}
}

// Define binds name to a value; later inputs may refer to it as Ref(name).
// References are resolved by content hash when counting distinct cases.
func (c *CaseWriter) Define(name string, v Sx) {
	s := SxString(v)
	fmt.Fprintf(c.w, "=%s\t%s\n", name, s)
	if c.defs == nil {
		c.defs = map[string][32]byte{}
	}
	c.defs[name] = sha256.Sum256([]byte(s))
}

func Ref(name string) Sx { return SxRef(name) }

func (c *CaseWriter) Close() error {
	if err := c.w.Flush(); err != nil {
		return err
	}
	return c.f.Close()
}

// Stats is written next to the case file and copied into the evidence.
type Stats struct {
	Cases              int            `json:"cases"`
	Distinct           int            `json:"distinct"`
	DistinctNontrivial int            `json:"distinct_nontrivial"`
	Classes            map[string]int `json:"classes"`
	Samples            []string       `json:"samples"`
	Extra              map[string]any `json:"extra,omitempty"`
	ImplViolations     []ImplViolation `json:"impl_violations,omitempty"`
}

// ImplViolation is a property-level failure observed directly on the
// implementation (spec-level oracle evaluated in Go, e.g. restored bytes differ).
type ImplViolation struct {
	Signature string `json:"signature"`
	Detail    string `json:"detail"`
	Replay    any    `json:"replay,omitempty"`
}

func (c *CaseWriter) Stats() Stats {
	return Stats{Cases: c.N, Distinct: len(c.distinct), DistinctNontrivial: c.Nontriv, Classes: c.Classes, Samples: c.Samples}
}

func WriteJSON(path string, v any) error {
	b, err := json.MarshalIndent(v, "", " ")
	if err != nil {
		return err
	}
	return os.WriteFile(path, b, 0o644)
}

// ---- misc ------------------------------------------------------------------

func NewRand(seed int64) *rand.Rand { return rand.New(rand.NewSource(seed)) }

func QuietLogger() *slog.Logger { return slog.New(slog.NewTextHandler(io.Discard, nil)) }

func SortedKeysU32(m map[uint32]int64) []uint32 {
	ks := make([]uint32, 0, len(m))
	for k := range m {
		ks = append(ks, k)
	}
	sort.Slice(ks, func(i, j int) bool { return ks[i] < ks[j] })
	return ks
}

func EnvInt(name string, def int64) int64 {
	if s := os.Getenv(name); s != "" {
		if v, err := strconv.ParseInt(s, 10, 64); err == nil {
			return v
		}
	}
	return def
}

// ---- reading case files back (replay) -----------------------------------------

// Node is a parsed s-expression: either Atom (decimal text), Bytes or List.
type Node struct {
	Atom  string
	Bytes []byte
	List  []*Node
	IsL   bool
	IsB   bool
}

func (n *Node) Int() int64     { v, _ := strconv.ParseInt(n.Atom, 10, 64); return v }
func (n *Node) Uint() uint64   { v, _ := strconv.ParseUint(n.Atom, 10, 64); return v }
func (n *Node) At(i int) *Node { if n != nil && n.IsL && i < len(n.List) { return n.List[i] }; return &Node{} }
// AsBytes returns the bytes of a #hex atom, or of a list of small numbers, or nil for ().
func (n *Node) AsBytes() []byte {
	if n.IsB {
		return n.Bytes
	}
	out := make([]byte, 0, len(n.List))
	for _, c := range n.List {
		out = append(out, byte(c.Int()))
	}
	return out
}

// ParseSx parses one s-expression; defs resolves $NAME references.
func ParseSx(s string, defs map[string]*Node) (*Node, error) {
	pos := 0
	var item func() (*Node, error)
	skip := func() {
		for pos < len(s) && s[pos] == ' ' {
			pos++
		}
	}
	tok := func() string {
		st := pos
		for pos < len(s) && s[pos] != ' ' && s[pos] != ')' {
			pos++
		}
		return s[st:pos]
	}
	item = func() (*Node, error) {
		skip()
		if pos >= len(s) {
			return nil, fmt.Errorf("unexpected end")
		}
		switch s[pos] {
		case '(':
			pos++
			n := &Node{IsL: true}
			for {
				skip()
				if pos >= len(s) {
					return nil, fmt.Errorf("unclosed list")
				}
				if s[pos] == ')' {
					pos++
					return n, nil
				}
				c, err := item()
				if err != nil {
					return nil, err
				}
				n.List = append(n.List, c)
			}
		case '#':
			pos++
			b, err := hex.DecodeString(tok())
			if err != nil {
				return nil, err
			}
			return &Node{IsB: true, Bytes: b}, nil
		case '$':
			pos++
			name := tok()
			d, ok := defs[name]
			if !ok {
				return nil, fmt.Errorf("undefined $%s", name)
			}
			return d, nil
		default:
			return &Node{Atom: tok()}, nil
		}
	}
	return item()
}

// ReadCases reads a case file; each returned case has its entry and parsed input
// (references resolved) and the raw input text.
type Case struct {
	Entry string
	In    *Node
	Defs  map[string]string // the definition lines in force, name -> raw sx
}

func ReadCases(path string) ([]Case, error) {
	f, err := os.Open(path)
	if err != nil {
		return nil, err
	}
	defer f.Close()
	sc := bufio.NewScanner(f)
	sc.Buffer(make([]byte, 1<<20), 1<<30)
	defs := map[string]*Node{}
	raw := map[string]string{}
	var out []Case
	for sc.Scan() {
		line := sc.Text()
		if line == "" || line[0] == ';' {
			continue
		}
		fs := strings.Split(line, "\t")
		if line[0] == '=' {
			if len(fs) < 2 {
				return nil, fmt.Errorf("bad definition line")
			}
			n, err := ParseSx(fs[1], defs)
			if err != nil {
				return nil, err
			}
			defs[fs[0][1:]] = n
			raw[fs[0][1:]] = fs[1]
			continue
		}
		if len(fs) < 2 {
			return nil, fmt.Errorf("bad case line")
		}
		n, err := ParseSx(fs[1], defs)
		if err != nil {
			return nil, err
		}
		cp := map[string]string{}
		for k, v := range raw {
			cp[k] = v
		}
		out = append(out, Case{Entry: fs[0], In: n, Defs: cp})
	}
	return out, sc.Err()
}
