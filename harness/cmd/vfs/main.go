// Command vfs: correspondence cases for the VFS read replica (C18).
//
// Each history drives a real litestream DB with a real SQLite application
// connection against a file replica (growth, deletes, partial shrink with
// incremental_vacuum, VACUUM, compaction, snapshots, retention) and a VFSFile
// opened on that replica.  At every check point (open, poll, lock-poll-unlock,
// time travel, reset) the harness
//   - reads EVERY page through VFSFile.ReadAt and FileSize and compares them with
//     the bytes of Restore(TXID = VFSFile.Pos()) (header bytes the VFS rewrites on
//     purpose are masked),
//   - emits the index (hook IndexSnapshot) as a case for the extracted model
//     (vfs_open / vfs_poll / vfs_lockop) and for the spec oracle vfs_pages_ok, whose
//     reference is the archived L0 ledger 1..Pos().
//
// Build: go build -tags "vfs verif" (cgo; mattn/go-sqlite3 must be linked in
// for psanford/sqlite3vfs).
package main

import (
	"bytes"
	"context"
	"database/sql"
	"errors"
	"flag"
	"fmt"
	"io"
	"math/rand"
	"os"
	"path/filepath"
	"sort"
	"strconv"
	"strings"
	"time"

	"github.com/benbjohnson/litestream"
	"github.com/benbjohnson/litestream/file"
	_ "github.com/mattn/go-sqlite3"
	"github.com/psanford/sqlite3vfs"
	"github.com/superfly/ltx"
	_ "modernc.org/sqlite"
	. "verifharness/hx"
)

// ---- abstract LTX files ------------------------------------------------------

type absFile struct {
	level    int
	min, max uint64
	commit   uint32
	pages    []uint32
	ts       time.Time
}

func (a absFile) sx() Sx {
	ps := make(SxList, len(a.pages))
	for i, p := range a.pages {
		ps[i] = U(uint64(p))
	}
	return L(I(int64(a.level)), U(a.min), U(a.max), U(uint64(a.commit)), ps)
}

// readAbstract decodes the whole file with the ltx decoder (page frames, not the
// page-index trailer the VFS uses).
func readAbstract(path string, level int) (absFile, uint32, error) {
	f, err := os.Open(path)
	if err != nil {
		return absFile{}, 0, err
	}
	defer f.Close()
	dec := ltx.NewDecoder(f)
	if err := dec.DecodeHeader(); err != nil {
		return absFile{}, 0, err
	}
	h := dec.Header()
	a := absFile{level: level, min: uint64(h.MinTXID), max: uint64(h.MaxTXID), commit: h.Commit}
	buf := make([]byte, h.PageSize)
	for {
		var ph ltx.PageHeader
		if err := dec.DecodePage(&ph, buf); err == io.EOF {
			break
		} else if err != nil {
			return absFile{}, 0, err
		}
		a.pages = append(a.pages, ph.Pgno)
	}
	if err := dec.Close(); err != nil {
		return absFile{}, 0, err
	}
	return a, h.PageSize, nil
}

// ---- one history ---------------------------------------------------------------

type point struct {
	ID        int      `json:"id"`
	History   int      `json:"history"`
	Instance  int      `json:"instance"`
	Kind      string   `json:"kind"` // open | reset | timetravel | poll | lpoll
	Script    string   `json:"script"`
	Pos       uint64   `json:"pos"`
	ModelLine int      `json:"model_line"` // line of the vfs_open / vfs_poll case behind this point
	OkLine    int      `json:"ok_line"`    // line of the vfs_pages_ok case
	RefSource string   `json:"ref_source"` // replica | archive
	SizeVFS   int64    `json:"size_vfs"`
	SizeRef   int64    `json:"size_ref"`
	BadPages  []uint32 `json:"bad_pages,omitempty"`  // bytes differ
	ErrPages  []uint32 `json:"err_pages,omitempty"`  // ReadAt failed although the entry's file exists (or there is no entry)
	GonePages []uint32 `json:"gone_pages,omitempty"` // the index entry names a file that is not on the replica any more; a cold read fails with BUSY
	Missing   []uint32 `json:"missing_pages,omitempty"` // pages of the restored database without an index entry (a cached page can hide this from ReadAt)
	EverTT    bool     `json:"ever_tt"`                 // SetTargetTime was called on this instance before this point
	Hydrated  bool     `json:"hydrated"`                // reads were served from the hydrated local file at this point
	HydTXID   uint64   `json:"hyd_txid,omitempty"`
	PlanDef   string   `json:"plan_def,omitempty"`      // name of the definition holding the restore plan behind the view (schedule kinds)
	PrevOK    bool     `json:"prev_ok"`              // previous point of this instance was clean
	BytesOK   bool     `json:"bytes_ok"`
	Note      string   `json:"note,omitempty"`
}

type env struct {
	cw      *CaseWriter
	ndefs   int
	points  []point
	classes map[string]int
	root    string
	nextID  int
	errs    []string
}

func (e *env) line() int { return e.cw.N + e.ndefs + 1 }
func (e *env) define(name string, v Sx) {
	e.cw.Define(name, v)
	e.ndefs++
}

type hist struct {
	e        *env
	id       int
	dir      string
	ps       int
	cache    int
	hyd      bool // open through VFS.Open with HydrationEnabled and wait for hydration to complete
	script   []string
	sqldb    *sql.DB
	db       *litestream.DB
	client   *file.ReplicaClient
	arch     *file.ReplicaClient
	ledger   []absFile // L0 file t..t at index t-1
	ledgerSx string    // name of the current definition
	ledgerN  int
	absCache map[string]absFile
	vf       *litestream.VFSFile
	instance int
	prevOK   bool
	rowSeq   int
	ctx      context.Context
	// lock / time-travel schedule state (tokens LK PL ST RT UL)
	locked     bool
	target     time.Time // zero: latest
	planDef    string    // definition holding the plan of the last SetTargetTime / ResetTime
	rebuilt    bool      // a ResetTime happened and no poll has been applied since
	lockedPoll int       // line of the vfs_poll case of a poll staged under the current lock
	planSeq    int
	everTT     bool
}

func (h *hist) scriptText() string {
	hy := 0
	if h.hyd {
		hy = 1
	}
	return fmt.Sprintf("ps=%d cache=%d hyd=%d : %s", h.ps, h.cache, hy, strings.Join(h.script, " ; "))
}

func (h *hist) exec(q string, args ...any) error {
	_, err := h.sqldb.Exec(q, args...)
	return err
}

func (h *hist) setup() error {
	h.ctx = context.Background()
	if err := os.MkdirAll(h.dir, 0o755); err != nil {
		return err
	}
	path := filepath.Join(h.dir, "db")
	sqldb, err := sql.Open("sqlite", path)
	if err != nil {
		return err
	}
	sqldb.SetMaxOpenConns(1)
	h.sqldb = sqldb
	for _, q := range []string{
		fmt.Sprintf("PRAGMA page_size=%d", h.ps),
		"PRAGMA auto_vacuum=incremental",
		"PRAGMA journal_mode=wal",
		"PRAGMA wal_autocheckpoint=0",
		"CREATE TABLE t(id INTEGER PRIMARY KEY, k INT, v BLOB)",
		"CREATE INDEX tk ON t(k)",
	} {
		if err := h.exec(q); err != nil {
			return fmt.Errorf("%s: %w", q, err)
		}
	}
	db := litestream.NewDB(path)
	db.MonitorInterval = 0
	db.Logger = QuietLogger()
	c := file.NewReplicaClient(filepath.Join(h.dir, "replica"))
	db.Replica = litestream.NewReplicaWithClient(db, c)
	db.Replica.MonitorEnabled = false
	c.Replica = db.Replica
	if err := db.Open(); err != nil {
		return err
	}
	h.db, h.client = db, c
	h.arch = file.NewReplicaClient(filepath.Join(h.dir, "archive"))
	h.absCache = map[string]absFile{}
	return nil
}

func (h *hist) teardown() {
	if h.vf != nil {
		_ = h.vf.Close()
		h.vf = nil
	}
	if h.db != nil {
		_ = h.db.Close(context.Background())
	}
	if h.sqldb != nil {
		_ = h.sqldb.Close()
	}
	_ = os.RemoveAll(h.dir)
}

// listLevel returns the abstract files of a replica level sorted by (min, max).
func (h *hist) listLevel(level int) ([]absFile, error) {
	des, err := os.ReadDir(h.client.LTXLevelDir(level))
	if os.IsNotExist(err) {
		return nil, nil
	} else if err != nil {
		return nil, err
	}
	var out []absFile
	for _, de := range des {
		mn, mx, err := ltx.ParseFilename(de.Name())
		if err != nil {
			continue
		}
		key := fmt.Sprintf("%d/%d-%d", level, mn, mx)
		a, ok := h.absCache[key]
		if !ok {
			a, _, err = readAbstract(filepath.Join(h.client.LTXLevelDir(level), de.Name()), level)
			if err != nil {
				return nil, fmt.Errorf("read %s: %w", key, err)
			}
			if fi, err := de.Info(); err == nil {
				a.ts = fi.ModTime()
			}
			h.absCache[key] = a
		}
		out = append(out, a)
	}
	sort.Slice(out, func(i, j int) bool {
		if out[i].min != out[j].min {
			return out[i].min < out[j].min
		}
		return out[i].max < out[j].max
	})
	return out, nil
}

func filesSx(fs []absFile) Sx {
	out := make(SxList, len(fs))
	for i, f := range fs {
		out[i] = f.sx()
	}
	return out
}

// sync: db.Sync + Replica.Sync, then archive the new L0 files into the ledger.
func (h *hist) sync() error {
	if err := h.db.Sync(h.ctx); err != nil {
		return fmt.Errorf("db.Sync: %w", err)
	}
	if err := h.db.Replica.Sync(h.ctx); err != nil {
		return fmt.Errorf("replica.Sync: %w", err)
	}
	l0, err := h.listLevel(0)
	if err != nil {
		return err
	}
	for _, a := range l0 {
		if a.min <= uint64(len(h.ledger)) {
			continue
		}
		if a.min != a.max || a.min != uint64(len(h.ledger))+1 {
			return fmt.Errorf("unexpected L0 file %d-%d after ledger of %d", a.min, a.max, len(h.ledger))
		}
		src := h.client.LTXFilePath(0, ltx.TXID(a.min), ltx.TXID(a.max))
		dst := h.arch.LTXFilePath(0, ltx.TXID(a.min), ltx.TXID(a.max))
		if err := os.MkdirAll(filepath.Dir(dst), 0o755); err != nil {
			return err
		}
		b, err := os.ReadFile(src)
		if err != nil {
			return err
		}
		if err := os.WriteFile(dst, b, 0o644); err != nil {
			return err
		}
		_ = os.Chtimes(dst, a.ts, a.ts)
		h.ledger = append(h.ledger, a)
	}
	time.Sleep(2 * time.Millisecond) // keep file timestamps of successive syncs apart
	return nil
}

func (h *hist) ledgerRef() Sx {
	if h.ledgerSx == "" || h.ledgerN != len(h.ledger) {
		out := make(SxList, len(h.ledger))
		for i, a := range h.ledger {
			ps := make(SxList, len(a.pages))
			for j, p := range a.pages {
				ps[j] = U(uint64(p))
			}
			out[i] = L(U(uint64(a.commit)), ps)
		}
		h.ledgerSx = fmt.Sprintf("w%d_%d", h.id, len(h.ledger))
		h.ledgerN = len(h.ledger)
		h.e.define(h.ledgerSx, out)
	}
	return Ref(h.ledgerSx)
}

func entriesSx(es []litestream.VFSIndexEntry) Sx {
	out := make(SxList, len(es))
	for i, e := range es {
		out[i] = L(U(uint64(e.Pgno)), I(int64(e.Level)), U(uint64(e.MinTXID)), U(uint64(e.MaxTXID)))
	}
	return out
}

func stateSx(st litestream.VFSIndexState) Sx {
	return L(entriesSx(st.Index), entriesSx(st.Pending), B(st.PendingReplace), U(uint64(st.Pos)),
		U(uint64(st.MaxTXID1)), U(uint64(st.Commit)), I(int64(st.LockType)))
}

func (h *hist) sizePages() (int64, int64) {
	sz, err := h.vf.FileSize()
	if err != nil {
		return -1, -1
	}
	return sz, sz / int64(h.ps)
}

// restoreRef returns the bytes of a full restore, from the live replica when it
// still has a plan ending exactly at txid, else from the archived L0 chain.
func (h *hist) restoreRef(txid uint64, ts time.Time) ([]byte, string, error) {
	out := filepath.Join(h.dir, fmt.Sprintf("restore-%d", h.e.nextID))
	defer func() {
		_ = os.Remove(out)
		_ = os.Remove(out + "-txid")
		_ = os.Remove(out + ".tmp")
	}()
	try := func(c *file.ReplicaClient) ([]byte, error) {
		_ = os.Remove(out)
		r := litestream.NewReplicaWithClient(nil, c)
		opt := litestream.NewRestoreOptions()
		opt.OutputPath = out
		if ts.IsZero() {
			opt.TXID = ltx.TXID(txid)
		} else {
			opt.Timestamp = ts
		}
		if err := r.Restore(h.ctx, opt); err != nil {
			return nil, err
		}
		return os.ReadFile(out)
	}
	b, err := try(h.client)
	if err == nil {
		return b, "replica", nil
	}
	if !ts.IsZero() {
		return nil, "", err
	}
	b, err2 := try(h.arch)
	if err2 != nil {
		return nil, "", fmt.Errorf("restore txid %d: replica: %v; archive: %v", txid, err, err2)
	}
	return b, "archive", nil
}

// check compares the VFS file with the restore at its position and emits the
// spec-oracle case. modelLine is the line of the model case this point follows.
func (h *hist) check(kind string, modelLine int, ts time.Time) (ok bool) {
	e := h.e
	st := h.vf.IndexSnapshot()
	szBytes, szPages := h.sizePages()
	p := point{ID: e.nextID, History: h.id, Instance: h.instance, Kind: kind, Script: h.scriptText(),
		Pos: uint64(st.Pos), ModelLine: modelLine, SizeVFS: szBytes, PrevOK: h.prevOK, PlanDef: h.planDef, EverTT: h.everTT}
	e.nextID++
	ref, src, err := h.restoreRef(uint64(st.Pos), ts)
	if err != nil {
		p.Note = "reference restore failed: " + err.Error()
		e.errs = append(e.errs, p.Note)
		e.points = append(e.points, p)
		return false
	}
	p.RefSource = src
	p.SizeRef = int64(len(ref))
	// pages whose index entry names a file that is no longer on the replica (retention)
	gone := map[uint32]bool{}
	statCache := map[string]bool{}
	for _, ie := range st.Index {
		path := h.client.LTXFilePath(ie.Level, ie.MinTXID, ie.MaxTXID)
		missing, ok := statCache[path]
		if !ok {
			_, err := os.Stat(path)
			missing = os.IsNotExist(err)
			statCache[path] = missing
		}
		if missing && int(ie.Pgno)*h.ps <= len(ref) {
			gone[ie.Pgno] = true
		}
	}
	if _, complete, htx, _ := h.vf.HydrationState(); complete {
		// reads come from the local hydrated file: nothing is fetched through the index
		p.Hydrated, p.HydTXID = true, uint64(htx)
		gone = map[uint32]bool{}
	}
	buf := make([]byte, h.ps)
	badSet, errSet := map[uint32]bool{}, map[uint32]bool{}
	// two passes over EVERY page: with the cache as the history left it (stale cached pages show
	// here), then with a cold cache (every read goes through the index to the replica). A read
	// through an entry whose file is gone costs the VFS's whole retry schedule (225 ms) and can only
	// fail, so it is attempted once per check point, on the cold pass.
	confirmed := false
	for pass := 0; pass < 2; pass++ {
		if pass == 1 {
			h.vf.PurgePageCache()
		}
		for pg := 1; pg*h.ps <= len(ref); pg++ {
			if uint32(pg) == ltx.LockPgno(uint32(h.ps)) {
				continue
			}
			if gone[uint32(pg)] {
				if pass == 0 || confirmed {
					continue
				}
				confirmed = true
				if n, err := h.vf.ReadAt(buf, int64(pg-1)*int64(h.ps)); err == nil && n == h.ps {
					delete(gone, uint32(pg)) // served after all
				} else {
					p.Note = fmt.Sprintf("cold read of page %d through an entry whose file is gone: %v", pg, err)
					continue
				}
			}
			want := ref[(pg-1)*h.ps : pg*h.ps]
			n, err := h.vf.ReadAt(buf, int64(pg-1)*int64(h.ps))
			if err != nil || n != h.ps {
				errSet[uint32(pg)] = true
				continue
			}
			got := append([]byte(nil), buf...)
			if pg == 1 {
				// vfs.go ReadAt: p[18], p[19] = 1, 1 (journal mode) and p[24:28] random (change counter)
				w := append([]byte(nil), want...)
				for _, i := range []int{18, 19, 24, 25, 26, 27} {
					got[i], w[i] = 0, 0
				}
				want = w
			}
			if !bytes.Equal(got, want) {
				badSet[uint32(pg)] = true
			}
		}
	}
	p.BadPages, p.ErrPages, p.GonePages = sortedSet(badSet), sortedSet(errSet), sortedSet(gone)
	have := map[uint32]bool{}
	for _, ie := range st.Index {
		have[ie.Pgno] = true
	}
	for pg := 1; pg*h.ps <= len(ref); pg++ {
		if uint32(pg) != ltx.LockPgno(uint32(h.ps)) && !have[uint32(pg)] {
			p.Missing = append(p.Missing, uint32(pg))
		}
	}
	p.BytesOK = len(p.BadPages) == 0 && len(p.ErrPages) == 0 && len(p.GonePages) == 0 && p.SizeVFS == p.SizeRef
	// the spec oracle on the index (reference: the L0 ledger)
	if uint64(st.Pos) <= uint64(len(h.ledger)) {
		lr := h.ledgerRef()
		p.OkLine = e.line()
		class := "oracle/" + kind
		e.cw.Add("vfs_pages_ok", L(U(uint64(ltx.LockPgno(uint32(h.ps)))), lr, U(uint64(st.Pos)), entriesSx(st.Index), I(szPages)),
			I(1), class, len(st.Index) > 1)
	} else {
		p.Note = fmt.Sprintf("pos %d beyond ledger %d", st.Pos, len(h.ledger))
		e.errs = append(e.errs, p.Note)
	}
	e.points = append(e.points, p)
	h.prevOK = p.BytesOK && len(p.Missing) == 0
	return h.prevOK
}

func sortedSet(m map[uint32]bool) []uint32 {
	out := make([]uint32, 0, len(m))
	for k := range m {
		out = append(out, k)
	}
	sort.Slice(out, func(i, j int) bool { return out[i] < out[j] })
	if len(out) == 0 {
		return nil
	}
	return out
}

func (h *hist) closeVFS() {
	if h.vf != nil {
		_ = h.vf.Close()
		h.vf = nil
	}
}

// openVFS opens a fresh VFSFile on the replica; emits the vfs_open case.
func (h *hist) openVFS() error {
	h.closeVFS()
	plan, err := litestream.CalcRestorePlan(h.ctx, h.client, 0, time.Time{}, QuietLogger())
	if err != nil {
		return nil // nothing to open yet
	}
	var vf *litestream.VFSFile
	if h.hyd {
		// the public route: VFS.Open with HydrationEnabled (a fresh hydration file per instance)
		v := litestream.NewVFS(h.client, QuietLogger())
		v.PollInterval = 24 * time.Hour
		v.CacheSize = h.cache
		v.HydrationEnabled = true
		v.HydrationPath = filepath.Join(h.dir, fmt.Sprintf("hydration-%d.db", h.instance+1))
		sf, _, err := v.Open("db", sqlite3vfs.OpenMainDB|sqlite3vfs.OpenReadOnly)
		if err != nil {
			return fmt.Errorf("VFS.Open: %w", err)
		}
		vf = sf.(*litestream.VFSFile)
		// hydration runs in a goroutine started by Open; every schedule starts once it is complete
		deadline := time.Now().Add(20 * time.Second)
		for {
			_, complete, _, herr := vf.HydrationState()
			if herr != nil {
				return fmt.Errorf("hydration: %w", herr)
			}
			if complete {
				break
			}
			if time.Now().After(deadline) {
				return fmt.Errorf("hydration did not complete")
			}
			time.Sleep(200 * time.Microsecond)
		}
	} else {
		vf = litestream.NewVFSFile(h.client, "db", QuietLogger())
		vf.PollInterval = 24 * time.Hour
		vf.CacheSize = h.cache
		if err := vf.Open(); err != nil {
			return fmt.Errorf("VFSFile.Open: %w", err)
		}
	}
	h.vf = vf
	h.instance++
	h.prevOK = true
	h.locked, h.target, h.planDef, h.rebuilt, h.lockedPoll, h.everTT = false, time.Time{}, "", false, 0, false
	line, err := h.emitOpenCase(plan, "open")
	if err != nil {
		return err
	}
	h.check("open", line, time.Time{})
	return nil
}

func (h *hist) planAbs(plan []*ltx.FileInfo) ([]absFile, error) {
	var out []absFile
	for _, info := range plan {
		a, _, err := readAbstract(h.client.LTXFilePath(info.Level, info.MinTXID, info.MaxTXID), info.Level)
		if err != nil {
			return nil, err
		}
		out = append(out, a)
	}
	return out, nil
}

func planClass(fs []absFile) string {
	shrink, levels := false, map[int]bool{}
	for i, f := range fs {
		levels[f.level] = true
		if i > 0 && f.commit < fs[i-1].commit {
			shrink = true
		}
	}
	s := fmt.Sprintf("files=%s levels=%d", bucket(len(fs)), len(levels))
	if shrink {
		s += " shrink"
	}
	return s
}

func bucket(n int) string {
	switch {
	case n == 0:
		return "0"
	case n == 1:
		return "1"
	case n <= 3:
		return "2-3"
	case n <= 8:
		return "4-8"
	}
	return "9+"
}

func (h *hist) emitOpenCase(plan []*ltx.FileInfo, kind string) (int, error) {
	fs, err := h.planAbs(plan)
	if err != nil {
		return 0, err
	}
	st := h.vf.IndexSnapshot()
	_, szPages := h.sizePages()
	line := h.e.line()
	h.e.cw.Add("vfs_open", L(filesSx(fs)), L(stateSx(st), I(szPages)), kind+"/"+planClass(fs), len(fs) > 1)
	return line, nil
}

// poll: one PollOnce with the listings taken just before it; emits vfs_poll.
func (h *hist) pollCase() (int, bool, error) {
	pre := h.vf.IndexSnapshot()
	l0, err := h.listLevel(0)
	if err != nil {
		return 0, false, err
	}
	l1, err := h.listLevel(1)
	if err != nil {
		return 0, false, err
	}
	perr := h.vf.PollOnce(h.ctx)
	post := h.vf.IndexSnapshot()
	_, szPages := h.sizePages()
	n0, n1, shrink := 0, 0, false
	last := pre.Commit
	for _, f := range l0 {
		if f.min > uint64(pre.Pos) {
			n0++
			if f.commit < last {
				shrink = true
			}
			last = f.commit
		}
	}
	for _, f := range l1 {
		if f.min > uint64(pre.MaxTXID1) {
			n1++
			if f.commit < last {
				shrink = true
			}
			last = f.commit
		}
	}
	class := fmt.Sprintf("poll/newL0=%s newL1=%s lock=%d", bucket(n0), bucket(n1), pre.LockType)
	if shrink {
		class += " commit-decrease"
	}
	if perr != nil {
		class += " error"
	}
	line := h.e.line()
	h.e.cw.Add("vfs_poll", L(stateSx(pre), filesSx(l0), filesSx(l1)), L(B(perr == nil), stateSx(post), I(szPages)), class, n0+n1 > 0)
	return line, perr == nil, nil
}

func (h *hist) lockCase(kind int, lt sqlite3vfs.LockType) {
	pre := h.vf.IndexSnapshot()
	var err error
	if kind == 0 {
		err = h.vf.Lock(lt)
	} else {
		err = h.vf.Unlock(lt)
	}
	post := h.vf.IndexSnapshot()
	_, szPages := h.sizePages()
	h.e.cw.Add("vfs_lockop", L(stateSx(pre), I(int64(kind)), I(int64(lt))), L(B(err == nil), stateSx(post), I(szPages)),
		fmt.Sprintf("lockop/%d pending=%s replace=%v", kind, bucket(len(pre.Pending)), pre.PendingReplace), len(pre.Pending) > 0 || pre.PendingReplace)
}

// afterFailure: a failed check leaves a wrong index behind; continue the history on a fresh file.
// stepCase runs one step of the lock / poll / time-travel machine on the real file and emits it as
// a vfs_step case: [state; target set?; op] -> [ok; state'; target set?; FileSize / pageSize].
func (h *hist) stepCase(opSx Sx, class string, do func() error) (int, error) {
	pre := h.vf.IndexSnapshot()
	preT := h.vf.TargetTime() != nil
	_, preH, _, _ := h.vf.HydrationState()
	err := do()
	post := h.vf.IndexSnapshot()
	postT := h.vf.TargetTime() != nil
	_, postH, _, _ := h.vf.HydrationState()
	_, szPages := h.sizePages()
	line := h.e.line()
	h.e.cw.Add("vfs_step", L(stateSx(pre), B(preT), opSx, B(preH)), L(B(err == nil), stateSx(post), B(postT), I(szPages), B(postH)),
		fmt.Sprintf("step/%s lock=%d target=%v pending=%s replace=%v hydrated=%v", class, pre.LockType, preT, bucket(len(pre.Pending)), pre.PendingReplace, preH),
		len(pre.Pending) > 0 || pre.PendingReplace || preT)
	return line, err
}

func (h *hist) definePlan(plan []*ltx.FileInfo) (Sx, error) {
	fs, err := h.planAbs(plan)
	if err != nil {
		return nil, err
	}
	h.planSeq++
	h.planDef = fmt.Sprintf("plan%d_%d", h.id, h.planSeq)
	h.e.define(h.planDef, filesSx(fs))
	// the runner shards the case file at definition lines: make the next oracle case re-define the
	// ledger so that every shard is self-contained
	h.ledgerSx = ""
	return Ref(h.planDef), nil
}

func (h *hist) stepLock() error {
	if h.locked {
		return nil
	}
	_, err := h.stepCase(L(I(0), I(int64(sqlite3vfs.LockShared))), "lock", func() error { return h.vf.Lock(sqlite3vfs.LockShared) })
	h.locked, h.lockedPoll = err == nil, 0
	return err
}

// stepPoll: a poll inside a schedule. With a target set the poll must change nothing; under the lock
// it is staged in the pending index (no check: the reader keeps its snapshot).
func (h *hist) stepPoll() error {
	if h.target.IsZero() {
		line, _, err := h.pollCase()
		if err != nil {
			return err
		}
		h.rebuilt = false
		if h.locked {
			h.lockedPoll = line
			// the reader that holds SHARED goes on reading after the poll was staged: every page, through a
			// cold cache (its own snapshot, whatever that shows — not compared here). The pages it caches
			// now must not survive the publication of the staged index at unlock (seed C18d)
			h.readAllCold()
			return nil
		}
		return h.afterCheck(h.check("poll", line, time.Time{}))
	}
	l0, err := h.listLevel(0)
	if err != nil {
		return err
	}
	l1, err := h.listLevel(1)
	if err != nil {
		return err
	}
	line, _ := h.stepCase(L(I(2), filesSx(l0), filesSx(l1)), "poll", func() error { return h.vf.PollOnce(h.ctx) })
	return h.afterCheck(h.check("tt-poll", line, h.target))
}

var lockedReads int

func (h *hist) readAllCold() {
	szBytes, _ := h.sizePages()
	h.vf.PurgePageCache()
	buf := make([]byte, h.ps)
	for pg := 1; int64(pg)*int64(h.ps) <= szBytes; pg++ {
		if uint32(pg) == ltx.LockPgno(uint32(h.ps)) {
			continue
		}
		_, _ = h.vf.ReadAt(buf, int64(pg-1)*int64(h.ps))
	}
	lockedReads++
}

func (h *hist) stepSetTarget(k int) error {
	if len(h.ledger) == 0 {
		return nil
	}
	k %= len(h.ledger)
	ts := h.ledger[len(h.ledger)-1-k].ts.Add(time.Millisecond)
	plan, err := litestream.CalcRestorePlan(h.ctx, h.client, 0, ts, QuietLogger())
	if err != nil {
		return nil
	}
	ref, err := h.definePlan(plan)
	if err != nil {
		return err
	}
	line, err := h.stepCase(L(I(3), ref), "set-target", func() error { return h.vf.SetTargetTime(h.ctx, ts) })
	if err != nil {
		return fmt.Errorf("SetTargetTime: %w", err)
	}
	h.target, h.rebuilt, h.lockedPoll, h.everTT = ts, false, 0, true
	h.prevOK = true
	return h.afterCheck(h.check("tt-set", line, ts))
}

func (h *hist) stepReset() error {
	plan, err := litestream.CalcRestorePlan(h.ctx, h.client, 0, time.Time{}, QuietLogger())
	if err != nil {
		return err
	}
	ref, err := h.definePlan(plan)
	if err != nil {
		return err
	}
	line, err := h.stepCase(L(I(4), ref), "reset", func() error { return h.vf.ResetTime(h.ctx) })
	if err != nil {
		return fmt.Errorf("ResetTime: %w", err)
	}
	h.target, h.rebuilt, h.lockedPoll = time.Time{}, true, 0
	h.prevOK = true
	return h.afterCheck(h.check("rt-reset", line, time.Time{}))
}

func (h *hist) stepUnlock() error {
	if !h.locked {
		return nil
	}
	line, err := h.stepCase(L(I(1), I(int64(sqlite3vfs.LockNone))), "unlock", func() error { return h.vf.Unlock(sqlite3vfs.LockNone) })
	if err != nil {
		return err
	}
	h.locked = false
	switch {
	case !h.target.IsZero():
		return h.afterCheck(h.check("tt-unlock", line, h.target))
	case h.rebuilt:
		return h.afterCheck(h.check("rt-unlock", line, time.Time{}))
	case h.lockedPoll > 0:
		pl := h.lockedPoll
		h.lockedPoll = 0
		return h.afterCheck(h.check("lpoll", pl, time.Time{}))
	}
	return nil
}

// normalize leaves a schedule (unlock, back to latest) before the self-contained tokens.
func (h *hist) normalize() error {
	if h.vf == nil {
		return nil
	}
	if h.locked {
		if err := h.stepUnlock(); err != nil {
			return err
		}
	}
	if h.vf != nil && !h.target.IsZero() {
		return h.stepReset()
	}
	return nil
}

func (h *hist) afterCheck(ok bool) error {
	if ok {
		return nil
	}
	return h.openVFS()
}

func (h *hist) run(op string) (err error) {
	defer func() {
		if r := recover(); r != nil {
			err = fmt.Errorf("panic in %s: %v", op, r)
		}
	}()
	h.script = append(h.script, op)
	f := strings.Fields(op)
	arg := func(i int) int {
		if i < len(f) {
			v, _ := strconv.Atoi(f[i])
			return v
		}
		return 0
	}
	switch f[0] {
	case "POLL", "LPOLL", "TT":
		if err := h.normalize(); err != nil {
			return err
		}
	}
	switch f[0] {
	case "LK", "PL", "ST", "RT", "UL":
		if h.vf == nil {
			return h.openVFS()
		}
		switch f[0] {
		case "LK":
			return h.stepLock()
		case "PL":
			return h.stepPoll()
		case "ST":
			return h.stepSetTarget(arg(1))
		case "RT":
			return h.stepReset()
		default:
			return h.stepUnlock()
		}
	case "I": // I n size
		tx, err := h.sqldb.Begin()
		if err != nil {
			return err
		}
		for i := 0; i < arg(1); i++ {
			h.rowSeq++
			blob := bytes.Repeat([]byte{byte(h.rowSeq), byte(h.rowSeq >> 8), 0x5a}, arg(2)/3+1)[:arg(2)]
			if _, err := tx.Exec("INSERT INTO t(k, v) VALUES(?, ?)", h.rowSeq%17, blob); err != nil {
				_ = tx.Rollback()
				return err
			}
		}
		return tx.Commit()
	case "U": // U k m : rows with id % m == k
		h.rowSeq++
		return h.exec("UPDATE t SET k = k + 1, v = CAST(substr(v, 2) || ? AS BLOB) WHERE id % ? = ?", []byte{byte(h.rowSeq)}, arg(2), arg(1))
	case "D":
		return h.exec("DELETE FROM t WHERE id % ? = ?", arg(2), arg(1))
	case "V": // incremental_vacuum(n)
		rows, err := h.sqldb.Query(fmt.Sprintf("PRAGMA incremental_vacuum(%d)", arg(1)))
		if err != nil {
			return err
		}
		for rows.Next() {
		}
		return rows.Close()
	case "VAC":
		return h.exec("VACUUM")
	case "S":
		return h.sync()
	case "C1", "C2":
		lvl := 1
		if f[0] == "C2" {
			lvl = 2
		}
		if _, err := h.db.Compact(h.ctx, lvl); err != nil && !errors.Is(err, litestream.ErrNoCompaction) {
			return fmt.Errorf("compact %d: %w", lvl, err)
		}
		time.Sleep(2 * time.Millisecond)
		return nil
	case "SN":
		if _, err := h.db.Snapshot(h.ctx); err != nil {
			return fmt.Errorf("snapshot: %w", err)
		}
		time.Sleep(2 * time.Millisecond)
		return nil
	case "R0": // L0 retention: everything compacted into L1 is old enough
		old := h.db.L0Retention
		h.db.L0Retention = time.Nanosecond
		err := h.db.EnforceL0RetentionByTime(h.ctx)
		h.db.L0Retention = old
		return err
	case "RS": // snapshot retention "now" + retention by TXID below the floor (Store.EnforceSnapshotRetention)
		minTXID, err := h.db.EnforceSnapshotRetention(h.ctx, time.Now())
		if err != nil {
			return err
		}
		for lvl := 1; lvl <= 2; lvl++ {
			if err := h.db.EnforceRetentionByTXID(h.ctx, lvl, minTXID); err != nil {
				return err
			}
		}
		return nil
	case "OPEN":
		return h.openVFS()
	case "POLL":
		if h.vf == nil {
			return h.openVFS()
		}
		line, _, err := h.pollCase()
		if err != nil {
			return err
		}
		return h.afterCheck(h.check("poll", line, time.Time{}))
	case "LPOLL": // reader holds SHARED across n polls, then unlocks
		if h.vf == nil {
			return h.openVFS()
		}
		h.lockCase(0, sqlite3vfs.LockShared)
		line, _, err := h.pollCase()
		if err != nil {
			return err
		}
		h.readAllCold() // the reader goes on reading its snapshot after the poll was staged
		h.lockCase(1, sqlite3vfs.LockNone)
		return h.afterCheck(h.check("lpoll", line, time.Time{}))
	case "TT": // time travel to just after the k-th newest L0 file, then back
		if h.vf == nil || len(h.ledger) == 0 {
			return nil
		}
		k := arg(1) % len(h.ledger)
		ts := h.ledger[len(h.ledger)-1-k].ts.Add(time.Millisecond)
		plan, err := litestream.CalcRestorePlan(h.ctx, h.client, 0, ts, QuietLogger())
		if err != nil {
			return nil
		}
		if err := h.vf.SetTargetTime(h.ctx, ts); err != nil {
			return fmt.Errorf("SetTargetTime: %w", err)
		}
		h.everTT = true
		line, err := h.emitOpenCase(plan, "timetravel")
		if err != nil {
			return err
		}
		h.check("timetravel", line, ts)
		plan, err = litestream.CalcRestorePlan(h.ctx, h.client, 0, time.Time{}, QuietLogger())
		if err != nil {
			return err
		}
		if err := h.vf.ResetTime(h.ctx); err != nil {
			return fmt.Errorf("ResetTime: %w", err)
		}
		line, err = h.emitOpenCase(plan, "reset")
		if err != nil {
			return err
		}
		h.prevOK = true
		h.check("reset", line, time.Time{})
		return nil
	}
	return fmt.Errorf("unknown op %q", op)
}

// ---- scripts ------------------------------------------------------------------

// directed histories: the shapes of DESIGN §9 F4 / F5 and their neighbours, run first on every run.
var directed = []struct {
	name   string
	ps     int
	script string
}{
	{"growth", 1024, "I 20 300;S;OPEN;I 30 300;S;POLL;I 5 3000;S;I 5 20;S;POLL;U 1 3;S;LPOLL"},
	{"partial-shrink-poll", 4096, "I 40 3500;S;OPEN;D 0 2;S;POLL;V 2;S;POLL;I 3 100;S;POLL"},
	{"partial-shrink-open", 1024, "I 60 900;S;SN;D 0 2;S;V 3;S;OPEN;I 2 50;S;POLL"},
	{"vacuum-poll", 1024, "I 60 900;S;OPEN;D 0 2;S;POLL;VAC;S;POLL;I 10 500;S;POLL"},
	{"vacuum-open", 1024, "I 60 900;S;SN;D 1 2;VAC;S;OPEN;U 0 4;S;POLL"},
	{"l1-then-l0", 1024, "I 20 300;S;C1;OPEN;U 0 2;S;C1;U 0 2;S;POLL;U 1 2;S;POLL"},
	{"l1-seeded-from-l0", 1024, "I 20 300;S;OPEN;U 0 2;S;C1;U 0 2;S;POLL;U 1 2;S;C1;POLL"},
	{"l1-behind-grown-l0", 1024, "I 20 300;S;C1;OPEN;U 0 2;S;C1;I 20 300;S;POLL;POLL"},
	{"l1-two-files-growth", 1024, "I 20 300;S;C1;OPEN;U 0 2;S;C1;I 20 300;S;C1;POLL;U 0 3;S;POLL"},
	{"compaction-retention", 1024, "I 20 300;S;OPEN;I 5 300;S;I 5 300;S;C1;R0;POLL;I 5 300;S;C1;C2;R0;SN;RS;POLL;OPEN"},
	{"lag-behind-retention", 1024, "I 20 300;S;OPEN;I 5 300;S;I 5 300;S;I 5 300;S;C1;R0;I 5 300;S;POLL;POLL"},
	{"l1-catches-up-then-l0-retention", 1024, "I 20 900;S;C1;OPEN;U 0 2;S;U 1 2;S;POLL;C1;R0;POLL;U 0 3;S;POLL"},
	{"l1-catches-up-maxtxid1-seeded-from-pos", 1024, "I 20 900;S;OPEN;U 0 2;S;U 1 2;S;POLL;C1;R0;POLL;U 0 3;S;POLL"},
	{"tt-under-lock-growth", 1024, "I 20 900;S;I 20 900;S;OPEN;I 30 900;S;LK;PL;ST 1;UL;PL;RT;POLL"},
	{"tt-under-lock-growth-older", 1024, "I 20 900;S;I 20 900;S;OPEN;I 30 900;S;LK;PL;ST 2;PL;UL;RT;UL"},
	{"tt-under-lock-partial-shrink", 1024, "I 60 900;S;OPEN;D 0 2;S;V 3;S;LK;PL;ST 2;UL;RT"},
	{"tt-under-lock-vacuum", 1024, "I 60 900;S;OPEN;D 1 2;VAC;S;I 5 900;S;LK;PL;ST 2;PL;UL;PL;RT"},
	{"reset-under-lock-after-further-sync", 1024, "I 20 900;S;OPEN;U 0 2;S;LK;PL;U 1 2;S;RT;UL;POLL"},
	{"reset-under-lock-shrink-then-growth", 1024, "I 60 900;S;OPEN;D 0 2;S;V 3;S;LK;PL;I 30 900;S;RT;UL;I 3 50;S;POLL"},
	{"hyd-tt-updates-during-window", 1024, "I 20 900;S;I 5 900;S;OPEN;ST 1;U 0 2;S;PL;RT;POLL;U 1 3;S;POLL"},
	{"hyd-poll-shrink", 1024, "I 60 900;S;OPEN;U 0 3;S;POLL;D 0 2;S;POLL;VAC;S;POLL;I 5 900;S;POLL"},
	{"hyd-compaction-of-source-files", 1024, "I 20 900;S;C1;U 0 2;S;OPEN;C1;R0;POLL;U 1 2;S;C1;C2;R0;POLL;U 0 3;S;POLL"},
	{"locked-polls", 1024, "I 30 300;S;OPEN;I 30 300;S;LPOLL;D 0 2;S;VAC;S;LPOLL;I 3 30;S;LPOLL"},
	{"locked-reader-reads-after-staged-update", 1024, "I 20 900;S;I 20 900;S;OPEN;U 1 2;S;LK;PL;UL;POLL;U 0 3;S;LPOLL;POLL"},
	{"locked-reader-reads-after-staged-replace", 1024, "I 60 900;S;OPEN;D 1 2;VAC;S;LK;PL;UL;POLL;U 0 2;S;LK;PL;UL"},
	{"time-travel", 1024, "I 20 300;S;I 20 300;S;OPEN;D 0 2;S;V 2;S;I 4 40;S;POLL;TT 0;TT 1;TT 2;TT 3"},
}

func randomScript(r *rand.Rand) (int, []string) {
	pss := []int{512, 1024, 1024, 4096}
	ps := pss[r.Intn(len(pss))]
	var ops []string
	w := func(s string, a ...any) { ops = append(ops, fmt.Sprintf(s, a...)) }
	sizes := []int{20, 200, ps, 3 * ps}
	w("I %d %d", 10+r.Intn(40), sizes[1+r.Intn(3)])
	w("S")
	if r.Intn(3) == 0 {
		w("C1")
	}
	if r.Intn(4) == 0 {
		w("SN")
	}
	w("OPEN")
	n := 10 + r.Intn(25)
	for i := 0; i < n; i++ {
		switch x := r.Intn(100); {
		case x < 14:
			w("I %d %d", 1+r.Intn(25), sizes[r.Intn(4)])
		case x < 22:
			m := 2 + r.Intn(4)
			w("U %d %d", r.Intn(m), m)
		case x < 30:
			m := 2 + r.Intn(3)
			w("D %d %d", r.Intn(m), m)
		case x < 37:
			w("V %d", r.Intn(6))
		case x < 40:
			w("VAC")
		case x < 60:
			w("S")
		case x < 68:
			w("C1")
		case x < 71:
			w("C2")
		case x < 74:
			w("SN")
		case x < 78:
			w("R0")
		case x < 80:
			w("RS")
		case x < 83:
			w("OPEN")
		case x < 94:
			w("POLL")
		case x < 96:
			w("LPOLL")
		case x < 97:
			w("TT %d", r.Intn(6))
		default: // lock / staged poll / time travel or reset / unlock
			w("LK")
			w("PL")
			if r.Intn(2) == 0 {
				if r.Intn(2) == 0 {
					w("I %d %d", 1+r.Intn(25), sizes[r.Intn(4)])
				} else {
					w("D %d 2", r.Intn(2))
					w("V %d", 1+r.Intn(4))
				}
				w("S")
			}
			if r.Intn(3) > 0 {
				w("ST %d", r.Intn(5))
				if r.Intn(2) == 0 {
					w("PL")
				}
				w("UL")
				if r.Intn(2) == 0 {
					w("PL")
				}
				w("RT")
			} else {
				w("RT")
				w("UL")
			}
		}
		// writes are usually followed by a sync so that polls see something
		if last := ops[len(ops)-1][0]; (last == 'I' || last == 'U' || last == 'D' || last == 'V') && r.Intn(3) > 0 {
			w("S")
		}
	}
	w("S")
	w("POLL")
	return ps, ops
}

func runHistory(e *env, id, ps, cache int, hyd bool, ops []string) {
	h := &hist{e: e, id: id, dir: filepath.Join(e.root, fmt.Sprintf("h%d", id)), ps: ps, cache: cache, hyd: hyd}
	defer h.teardown()
	if err := h.setup(); err != nil {
		e.errs = append(e.errs, fmt.Sprintf("history %d setup: %v", id, err))
		return
	}
	for _, op := range ops {
		if err := h.run(strings.TrimSpace(op)); err != nil {
			e.errs = append(e.errs, fmt.Sprintf("history %d (%s): %v", id, h.scriptText(), err))
			return
		}
	}
}

func main() {
	args := os.Args[1:]
	if len(args) > 0 && args[0] == "vfs" {
		args = args[1:]
	}
	fs := flag.NewFlagSet("vfs", flag.ExitOnError)
	out := fs.String("out", "", "output directory")
	n := fs.Int("n", 20, "number of random histories")
	seed := fs.Int64("seed", 1, "seed")
	variants := fs.Int("variants", 3, "3: every directed schedule with all three variants; 2: large-cache variant thinned out")
	script := fs.String("script", "", "run exactly this history: 'ps=<n> cache=<n> : op ; op ; ...'")
	replay := fs.String("replay", "", "file holding a -script line")
	_ = fs.Parse(args)
	if *out == "" {
		fmt.Fprintln(os.Stderr, "-out required")
		os.Exit(2)
	}
	if *replay != "" {
		b, err := os.ReadFile(*replay)
		if err != nil {
			fmt.Fprintln(os.Stderr, err)
			os.Exit(2)
		}
		*script = strings.TrimSpace(string(b))
	}
	if err := os.MkdirAll(*out, 0o755); err != nil {
		fmt.Fprintln(os.Stderr, err)
		os.Exit(2)
	}
	cw, err := NewCaseWriter(filepath.Join(*out, "cases.txt"))
	if err != nil {
		fmt.Fprintln(os.Stderr, err)
		os.Exit(2)
	}
	root := filepath.Join(*out, "tmp")
	_ = os.RemoveAll(root)
	e := &env{cw: cw, root: root}
	if *script != "" {
		ps, cache, hyd, ops, err := parseScript(*script)
		if err != nil {
			fmt.Fprintln(os.Stderr, err)
			os.Exit(2)
		}
		runHistory(e, 0, ps, cache, hyd, ops)
	} else {
		r := NewRand(*seed)
		id := 0
		for di, d := range directed {
			// every directed schedule: index path with a 1-page cache, index path with a 10 MiB cache,
			// and with background hydration (reads from the hydrated local file once it is complete)
			for _, vr := range []struct {
				cache int
				hyd   bool
			}{{1, false}, {10 << 20, false}, {10 << 20, true}} {
				if *variants == 2 && vr.cache != 1 && !vr.hyd && di%2 == 1 {
					id++ // quick tier: the large-cache variant for every other pair of schedules
					continue
				}
				runHistory(e, id, d.ps, vr.cache, vr.hyd, strings.Split(d.script, ";"))
				id++
			}
		}
		for i := 0; i < *n; i++ {
			ps, ops := randomScript(r)
			cache := 1
			if r.Intn(2) == 0 {
				cache = 10 << 20
			}
			runHistory(e, id, ps, cache, r.Intn(3) == 0, ops)
			id++
		}
	}
	_ = os.RemoveAll(root)
	if err := cw.Close(); err != nil {
		fmt.Fprintln(os.Stderr, err)
		os.Exit(2)
	}
	st := cw.Stats()
	st.Extra = map[string]any{"points": e.points, "errors": e.errs, "locked_reads_after_staged_poll": lockedReads}
	if err := WriteJSON(filepath.Join(*out, "stats.json"), st); err != nil {
		fmt.Fprintln(os.Stderr, err)
		os.Exit(2)
	}
	bad := 0
	for _, p := range e.points {
		if !p.BytesOK {
			bad++
		}
	}
	fmt.Printf("cases=%d points=%d bytes-level-failures=%d harness-errors=%d\n", cw.N, len(e.points), bad, len(e.errs))
}

func parseScript(s string) (ps, cache int, hyd bool, ops []string, err error) {
	i := strings.Index(s, ":")
	if i < 0 {
		return 0, 0, false, nil, fmt.Errorf("script needs 'ps=<n> cache=<n> [hyd=1] : ops'")
	}
	for _, kv := range strings.Fields(s[:i]) {
		if v, ok := strings.CutPrefix(kv, "ps="); ok {
			ps, _ = strconv.Atoi(v)
		}
		if v, ok := strings.CutPrefix(kv, "cache="); ok {
			cache, _ = strconv.Atoi(v)
		}
		if v, ok := strings.CutPrefix(kv, "hyd="); ok {
			hyd = v == "1"
		}
	}
	if ps == 0 {
		ps = 1024
	}
	if cache == 0 {
		cache = 1
	}
	for _, op := range strings.Split(s[i+1:], ";") {
		if op = strings.TrimSpace(op); op != "" {
			ops = append(ops, op)
		}
	}
	return ps, cache, hyd, ops, nil
}
