// Command store: real histories over a litestream.DB registered with a
// litestream.Store and a file replica — SQLite writes, db.Sync, Replica.Sync,
// DB.Compact, Store.CompactDB, DB.Snapshot, the three retention entry points
// and Store.EnforceSnapshotRetention, with file ages placed by os.Chtimes
// around every threshold and RetentionEnabled in {true,false}.
//
// Per history it writes
//
//	store_run      the operation list (with the clock values the code read)   -> listing after each op
//	store_inv_ok   C07 RInv / C06 levels_contiguous on the observed listings  -> 1
//	store_ts_plan  (listing, T)                                               -> planner status and end TXID
//	store_ts_ok    C15 on the implementation's answers for all T of a listing -> 1
//
// and evaluates in Go: Restore(latest) = source image after every retention
// pass (C07); every level>=1 file = independent re-composition of archived L0
// files, Restore(TXID) from the replica = Restore(TXID) from the L0 archive
// (C06); Restore(Timestamp=T) image = image of the selected TXID, and
// CreatedAt = header timestamp (C15).
package main

import (
	"bytes"
	"context"
	"crypto/sha256"
	"database/sql"
	"encoding/hex"
	"errors"
	"flag"
	"fmt"
	"io"
	"log/slog"
	"math/rand"
	"os"
	"path/filepath"
	"runtime"
	"sort"
	"strings"
	"sync"
	"time"

	"github.com/benbjohnson/litestream"
	"github.com/benbjohnson/litestream/file"
	"github.com/superfly/ltx"
	_ "modernc.org/sqlite"

	. "verifharness/hx"
)

var ctxb = context.Background()

// focus shifts the operation mix: c07 retention-heavy, c06 retention-free with up to
// 8 levels, c15 mostly real-clock stamps.
var focus = "c07"

const unit = time.Hour

// ---- time canonicalisation ---------------------------------------------------------

// The model depends on times only through their order, so every time value the
// history met (file stamps, thresholds, clock reads, query timestamps) is emitted
// as 1 + its rank among all values of the history; 0 is the zero time.
type tval int64 // UnixNano, 0 = zero time

type canon struct {
	t0   time.Time // base of the injected ages: injected stamp a = t0 + a*unit
	mu   sync.Mutex
	vals map[tval]struct{}
	rank map[tval]int64
}

func (c *canon) of(t time.Time) tval {
	if t.IsZero() {
		return 0
	}
	v := tval(t.UnixNano())
	c.vals[v] = struct{}{}
	return v
}

func (c *canon) inj(a int64) time.Time { return c.t0.Add(time.Duration(a) * unit) }

func (c *canon) time(v tval) time.Time { return time.Unix(0, int64(v)) }

func (c *canon) finish() {
	ks := make([]tval, 0, len(c.vals))
	for k := range c.vals {
		ks = append(ks, k)
	}
	sort.Slice(ks, func(i, j int) bool { return ks[i] < ks[j] })
	c.rank = map[tval]int64{}
	for i, k := range ks {
		c.rank[k] = int64(i) + 1
	}
}

func (c *canon) sx(v tval) Sx {
	if v == 0 {
		return I(0)
	}
	return I(c.rank[v])
}

// ---- observed files -----------------------------------------------------------------

type ofile struct {
	level    int
	min, max uint64
	created  tval
}

type listing []ofile

func (w *World) listing() listing {
	var out listing
	for lv := 0; lv <= 9; lv++ {
		itr, err := w.client.LTXFiles(ctxb, lv, 0, false)
		if err != nil {
			continue
		}
		for itr.Next() {
			it := itr.Item()
			out = append(out, ofile{level: lv, min: uint64(it.MinTXID), max: uint64(it.MaxTXID), created: w.cn.of(it.CreatedAt)})
		}
		itr.Close()
	}
	return out
}

func (w *World) sxListing(l listing) Sx {
	out := make(SxList, 0, len(l))
	for _, f := range l {
		out = append(out, L(I(int64(f.level)), U(f.min), U(f.max), w.cn.sx(f.created)))
	}
	return out
}

func (l listing) level(lv int) listing {
	var out listing
	for _, f := range l {
		if f.level == lv {
			out = append(out, f)
		}
	}
	return out
}

func (l listing) find(lv int, min, max uint64) *ofile {
	for i := range l {
		if l[i].level == lv && l[i].min == min && l[i].max == max {
			return &l[i]
		}
	}
	return nil
}

// ---- world ------------------------------------------------------------------------------

type mop struct { // one model operation with its observation
	code   int
	args   []any // int64 | tval | []tval (l0r option)
	status int
	aux    uint64
	pos    uint64
	after  listing
	safe   bool // a TXID retention whose floor is the one the snapshot pass returned (cascade by hand)
}

type World struct {
	dir, dbPath, replicaDir, archDir, tmp string
	pageSize                              int
	nlv                                   int
	ret                                   bool
	style                                 string // aged | real
	app                                   *sql.DB
	ldb                                   *litestream.DB
	store                                 *litestream.Store
	client                                *file.ReplicaClient
	gate                                  *gateClient
	lagPos                                uint64
	arch                                  *file.ReplicaClient
	rng                                   *rand.Rand
	forceL0                               string    // "" random | "off" | "far": what chooseL0R returns (directed scenarios)
	forceAge                              int64     // >= 0: the injected age a retention threshold is placed half a unit after
	far                                   time.Time // stands for "now" where the code reads the clock to age files: later than every stamp
	cn                                    *canon
	ops                                   []mop
	trace                                 []string
	hadSnap                               bool
	retFree                               bool // no retention pass has run yet (C06 histories)
	unsafe                                bool // a direct TXID retention used a floor above the newest snapshot
	srcDigest                             map[uint64]string
	archDigest                            map[uint64]string
	violations                            []ImplViolation
	counts                                map[string]int
	noRestamp                             map[string]bool // files whose mtime the harness never touched
	repl                                  map[uint64]tval // C15: header timestamp of the L0 file of each TXID when it was replicated
	marks                                 []time.Time     // C15: wall-clock times of checkpoints and snapshots (query points)
	soft                                  []ImplViolation // C15 hypothesis violations: reported, but the history goes on to the timestamp restores
	softSeen                              map[string]bool
}

// violateSoft records a violation (once per key) without stopping the history.
func (w *World) violateSoft(k, sig, detail string) {
	if w.softSeen == nil {
		w.softSeen = map[string]bool{}
	}
	if w.softSeen[k] {
		return
	}
	w.softSeen[k] = true
	w.soft = append(w.soft, ImplViolation{Signature: sig, Detail: detail,
		Replay: map[string]any{"history": strings.Join(w.trace, " "), "style": w.style, "levels": w.nlv, "page_size": w.pageSize}})
}

func (w *World) violate(sig, detail string) {
	w.violations = append(w.violations, ImplViolation{Signature: sig, Detail: detail,
		Replay: map[string]any{"history": strings.Join(w.trace, " "), "style": w.style, "levels": w.nlv, "page_size": w.pageSize}})
}

// gateClient lets ONE listing of one level be computed and then held back (until released or a
// timeout), so that a cache fill of DB.MaxLTXFileInfo can be made to span a whole compaction of
// that level (seed C06d: the cache lock no longer held across the listing).
type gateClient struct {
	litestream.ReplicaClient
	mu      sync.Mutex
	level   int
	listed  chan struct{}
	release chan struct{}
}

func (g *gateClient) arm(level int) (listed, release chan struct{}) {
	g.mu.Lock()
	defer g.mu.Unlock()
	g.level, g.listed, g.release = level, make(chan struct{}), make(chan struct{})
	return g.listed, g.release
}

func (g *gateClient) disarm() {
	g.mu.Lock()
	g.listed = nil
	g.mu.Unlock()
}

func (g *gateClient) LTXFiles(ctx context.Context, level int, seek ltx.TXID, useMetadata bool) (ltx.FileIterator, error) {
	g.mu.Lock()
	armed := g.listed != nil && g.level == level
	listed, release := g.listed, g.release
	if armed {
		g.listed = nil
	}
	g.mu.Unlock()
	if !armed {
		return g.ReplicaClient.LTXFiles(ctx, level, seek, useMetadata)
	}
	itr, err := g.ReplicaClient.LTXFiles(ctx, level, seek, useMetadata)
	if err != nil {
		close(listed)
		return nil, err
	}
	var infos []*ltx.FileInfo
	for itr.Next() {
		it := *itr.Item()
		infos = append(infos, &it)
	}
	_ = itr.Close()
	close(listed)
	select {
	case <-release:
	case <-time.After(300 * time.Millisecond):
	}
	return ltx.NewFileInfoSliceIterator(infos), nil
}

func newWorld(dir string, rng *rand.Rand, start time.Time) (*World, error) {
	w := &World{dir: dir, dbPath: filepath.Join(dir, "db"), replicaDir: filepath.Join(dir, "replica"),
		archDir: filepath.Join(dir, "arch"), tmp: filepath.Join(dir, "tmp"), rng: rng,
		srcDigest: map[uint64]string{}, archDigest: map[uint64]string{}, counts: map[string]int{},
		retFree: true, noRestamp: map[string]bool{}, forceAge: -1, repl: map[uint64]tval{}}
	os.MkdirAll(w.tmp, 0o755)
	w.pageSize = []int{512, 1024, 4096, 4096}[rng.Intn(4)]
	w.nlv = 1 + rng.Intn(3)
	if focus == "c06" && rng.Intn(3) == 0 {
		w.nlv = 1 + rng.Intn(8)
	}
	w.ret = rng.Intn(4) != 0
	w.style = "aged"
	if rng.Intn(10) < map[string]int{"c07": 3, "c06": 4, "c15": 7}[focus] {
		w.style = "real"
	}
	w.cn = &canon{t0: start.Add(-20000 * unit), vals: map[tval]struct{}{}}
	w.far = start.Add(1000 * unit)
	db, err := sql.Open("sqlite", "file:"+w.dbPath+"?_pragma=busy_timeout(2000)")
	if err != nil {
		return nil, err
	}
	db.SetMaxOpenConns(2)
	for _, s := range []string{
		fmt.Sprintf("PRAGMA page_size=%d", w.pageSize),
		"PRAGMA journal_mode=wal",
		"PRAGMA wal_autocheckpoint=0",
		"CREATE TABLE t(id INTEGER PRIMARY KEY, v BLOB)",
		"CREATE TABLE u(id INTEGER PRIMARY KEY, v BLOB)",
	} {
		if _, err := db.Exec(s); err != nil {
			return nil, fmt.Errorf("%s: %w", s, err)
		}
	}
	w.app = db

	ldb := litestream.NewDB(w.dbPath)
	ldb.MonitorInterval = 0
	ldb.MinCheckpointPageN = 1 << 30
	ldb.TruncatePageN = 0
	ldb.CheckpointInterval = 0
	ldb.ShutdownSyncTimeout = 0
	ldb.BusyTimeout = 200 * time.Millisecond
	ldb.Logger = QuietLogger()
	c := file.NewReplicaClient(w.replicaDir)
	w.gate = &gateClient{ReplicaClient: c}
	ldb.Replica = litestream.NewReplicaWithClient(ldb, w.gate)
	ldb.Replica.MonitorEnabled = false
	c.Replica = ldb.Replica
	w.client = c
	w.arch = file.NewReplicaClient(w.archDir)

	levels := litestream.CompactionLevels{{Level: 0}}
	for i := 1; i <= w.nlv; i++ {
		levels = append(levels, &litestream.CompactionLevel{Level: i, Interval: time.Second})
	}
	st := litestream.NewStore([]*litestream.DB{ldb}, levels)
	st.CompactionMonitorEnabled = false
	st.Logger = QuietLogger()
	ldb.Logger = QuietLogger()
	ldb.L0Retention = 0
	ldb.RetentionEnabled = w.ret
	st.RetentionEnabled = w.ret
	if err := ldb.Open(); err != nil {
		return nil, err
	}
	w.ldb, w.store = ldb, st
	return w, nil
}

func (w *World) close() {
	ctx, cancel := context.WithTimeout(ctxb, 20*time.Second)
	defer cancel()
	_ = w.ldb.Close(ctx)
	w.app.Close()
}

func (w *World) pos() uint64 {
	p, err := w.ldb.Pos()
	if err != nil {
		return 0
	}
	return uint64(p.TXID)
}

// ---- source reference image -----------------------------------------------------------

func copyFile(src, dst string) error {
	b, err := os.ReadFile(src)
	if err != nil {
		return err
	}
	os.MkdirAll(filepath.Dir(dst), 0o755)
	return os.WriteFile(dst, b, 0o644)
}

// refImage: the committed image of (db, -wal) as SQLite itself computes it.
func refImage(dbPath, tmp string) ([]byte, error) {
	cp := filepath.Join(tmp, "ref.db")
	for _, sfx := range []string{"", "-wal", "-shm"} {
		os.Remove(cp + sfx)
	}
	if err := copyFile(dbPath, cp); err != nil {
		return nil, err
	}
	if _, err := os.Stat(dbPath + "-wal"); err == nil {
		if err := copyFile(dbPath+"-wal", cp+"-wal"); err != nil {
			return nil, err
		}
	}
	db, err := sql.Open("sqlite", "file:"+cp)
	if err != nil {
		return nil, err
	}
	var a, b, c int
	if err := db.QueryRow("PRAGMA wal_checkpoint(TRUNCATE)").Scan(&a, &b, &c); err != nil {
		db.Close()
		return nil, fmt.Errorf("reference checkpoint: %w", err)
	}
	db.Close()
	img, err := os.ReadFile(cp)
	for _, sfx := range []string{"", "-wal", "-shm"} {
		os.Remove(cp + sfx)
	}
	return img, err
}

func sha(b []byte) string { h := sha256.Sum256(b); return hex.EncodeToString(h[:12]) }

func diffPages(a, b []byte, ps int) []int {
	var d []int
	if len(a) != len(b) {
		d = append(d, 0)
	}
	n := len(a)
	if len(b) < n {
		n = len(b)
	}
	for off := 0; off+ps <= n; off += ps {
		if !bytes.Equal(a[off:off+ps], b[off:off+ps]) {
			d = append(d, off/ps+1)
		}
	}
	if len(d) > 12 {
		d = d[:12]
	}
	return d
}

// restore runs the real Replica.Restore against a replica directory.
func restore(replicaDir, out string, txid uint64, ts time.Time) ([]byte, error) {
	for _, sfx := range []string{"", "-wal", "-shm", ".tmp", "-txid"} {
		os.Remove(out + sfx)
	}
	c := file.NewReplicaClient(replicaDir)
	r := litestream.NewReplicaWithClient(nil, c)
	opt := litestream.NewRestoreOptions()
	opt.OutputPath = out
	opt.TXID = ltx.TXID(txid)
	opt.Timestamp = ts
	if err := r.Restore(ctxb, opt); err != nil {
		return nil, err
	}
	return os.ReadFile(out)
}

// ---- C07 oracle on the implementation ------------------------------------------------------

func (w *World) latestOracle(what string) {
	if w.unsafe {
		return
	}
	w.counts["latest_restores"]++
	ref, err := refImage(w.dbPath, w.tmp)
	if err != nil {
		w.violate("harness/ref-image", err.Error())
		return
	}
	got, err := restore(w.replicaDir, filepath.Join(w.tmp, "latest.db"), 0, time.Time{})
	if err != nil {
		w.violate("C07/latest-not-restorable-after-retention", fmt.Sprintf("after %s: Restore(latest) failed: %v", what, err))
		return
	}
	if d := diffPages(ref, got, w.pageSize); len(d) > 0 {
		w.violate("C07/latest-restore-differs-from-source", fmt.Sprintf("after %s: restored image differs from the source on pages %v (sizes %d / %d)", what, d, len(ref), len(got)))
	}
}

// ---- operations ---------------------------------------------------------------------------------

func (w *World) record(code int, status int, aux uint64, args ...any) {
	l := w.listing()
	pos := w.pos()
	if w.lagPos > 0 {
		pos = w.lagPos // the replica is behind: for the model the lagging syncs have not happened yet
	}
	w.ops = append(w.ops, mop{code: code, args: args, status: status, aux: aux, pos: pos, after: l})
}

func errStatus(err error, other int) int {
	switch {
	case err == nil:
		return 0
	case errors.Is(err, litestream.ErrNoCompaction):
		return 1
	case errors.Is(err, litestream.ErrCompactionTooEarly):
		return 2
	}
	return other
}

func (w *World) appWrite() error {
	switch k := w.rng.Intn(10); {
	case k < 6:
		tx, err := w.app.Begin()
		if err != nil {
			return err
		}
		for i, n := 0, 1+w.rng.Intn(3); i < n; i++ {
			tbl := []string{"t", "u"}[w.rng.Intn(2)]
			if _, err := tx.Exec("INSERT INTO "+tbl+"(v) VALUES (randomblob(?))", 10+w.rng.Intn(3*w.pageSize)); err != nil {
				tx.Rollback()
				return err
			}
		}
		return tx.Commit()
	case k < 8:
		_, err := w.app.Exec("UPDATE t SET v=randomblob(length(v)) WHERE id % 3 = ?", w.rng.Intn(3))
		if err != nil {
			return err
		}
		_, err = w.app.Exec("INSERT INTO u(v) VALUES (randomblob(5))")
		return err
	case k < 9:
		if _, err := w.app.Exec("DELETE FROM t WHERE id % 2 = ?", w.rng.Intn(2)); err != nil {
			return err
		}
		_, err := w.app.Exec("INSERT INTO u(v) VALUES (randomblob(5))")
		return err
	default:
		// shrink the database: delete most rows and VACUUM (C06: shrinking databases)
		if _, err := w.app.Exec("DELETE FROM t WHERE id % 4 != 0"); err != nil {
			return err
		}
		if _, err := w.app.Exec("VACUUM"); err != nil {
			return err
		}
		return nil
	}
}

// headerTS reads the LTX header timestamp (ms) of a replica file.
func headerOf(path string) (ltx.Header, error) {
	f, err := os.Open(path)
	if err != nil {
		return ltx.Header{}, err
	}
	defer f.Close()
	dec := ltx.NewDecoder(f)
	if err := dec.DecodeHeader(); err != nil {
		return ltx.Header{}, err
	}
	return dec.Header(), nil
}

// checkCreated: the file client reports the header timestamp (C15), for a file just written.
func (w *World) checkCreated(level int, min, max uint64) (time.Time, bool) {
	p := w.client.LTXFilePath(level, ltx.TXID(min), ltx.TXID(max))
	h, err := headerOf(p)
	if err != nil {
		w.violate("harness/read-header", err.Error())
		return time.Time{}, false
	}
	fi, err := os.Stat(p)
	if err != nil {
		w.violate("harness/stat", err.Error())
		return time.Time{}, false
	}
	w.counts["created_vs_header_checks"]++
	if fi.ModTime().UnixMilli() != h.Timestamp {
		w.violate("C15/file-client-created-differs-from-header",
			fmt.Sprintf("level %d file %d-%d: mtime %d ms, header timestamp %d ms", level, min, max, fi.ModTime().UnixMilli(), h.Timestamp))
	}
	return time.UnixMilli(h.Timestamp), true
}

func key(level int, min, max uint64) string { return fmt.Sprintf("%d/%d-%d", level, min, max) }

// maybeRestamp places the age of a new file (aged style).
func (w *World) maybeRestamp(level int, min, max uint64) {
	w.noRestamp[key(level, min, max)] = true
	if w.style != "aged" || w.rng.Intn(100) >= 85 {
		return
	}
	w.doRestamp(level, min, max, int64(1+w.rng.Intn(12)))
}

func (w *World) doRestamp(level int, min, max uint64, a int64) {
	t := w.cn.t0.Add(time.Duration(a) * unit)
	if err := os.Chtimes(w.client.LTXFilePath(level, ltx.TXID(min), ltx.TXID(max)), t, t); err != nil {
		w.violate("harness/chtimes", err.Error())
		return
	}
	delete(w.noRestamp, key(level, min, max))
	w.trace = append(w.trace, fmt.Sprintf("restamp(%d,%d-%d,%d)", level, min, max, a))
	w.record(9, 0, 0, int64(level), int64(min), int64(max), w.cn.of(t))
}

func (w *World) opSync() {
	before := w.pos()
	if err := w.appWrite(); err != nil {
		w.violate("harness/app-write", err.Error())
		return
	}
	ctx, cancel := context.WithTimeout(ctxb, 30*time.Second)
	defer cancel()
	t0 := time.Now()
	if err := w.ldb.Sync(ctx); err != nil {
		w.violate("harness/sync", err.Error())
		return
	}
	if err := w.ldb.Replica.Sync(ctx); err != nil {
		w.violate("harness/replica-sync", err.Error())
		return
	}
	after := w.pos()
	if after != before+1 {
		w.violate("harness/sync-shape", fmt.Sprintf("one write+sync moved the position %d -> %d", before, after))
		if after <= before {
			return
		}
	}
	w.trace = append(w.trace, "sync")
	w.absorb(before, after, t0)
}

// absorb takes note of the L0 files before+1..after that an operation (sync, checkpoint) replicated
// during the wall-clock window starting at t0: archives them, records their replication time and
// replays them to the model as sync operations.
func (w *World) absorb(before, after uint64, t0 time.Time) {
	t1 := time.Now()
	for n := before + 1; n <= after; n++ {
		// archive the L0 file before retention can delete it
		src := w.client.LTXFilePath(0, ltx.TXID(n), ltx.TXID(n))
		if err := copyFile(src, w.arch.LTXFilePath(0, ltx.TXID(n), ltx.TXID(n))); err != nil {
			w.violate("harness/archive", err.Error())
			return
		}
		ts, ok := w.checkCreated(0, n, n)
		if !ok {
			return
		}
		// C15: an L0 file is stamped while it is being replicated (the clock read of its sync)
		w.repl[n] = w.cn.of(ts)
		w.counts["l0_stamp_in_sync_window_checks"]++
		if ts.UnixMilli() < t0.UnixMilli() || ts.UnixMilli() > t1.UnixMilli() {
			w.violate("C15/l0-timestamp-outside-its-replication-window",
				fmt.Sprintf("TXID %d was replicated between %d and %d (Unix ms) but its level-0 file is stamped %d", n, t0.UnixMilli(), t1.UnixMilli(), ts.UnixMilli()))
		}
		if n == after {
			w.record(0, 0, 0, w.cn.of(ts))
		} else {
			// more than one file: replay them to the model one by one (listing compared only after the last)
			w.ops = append(w.ops, mop{code: 0, args: []any{w.cn.of(ts)}, status: 0, pos: n, after: nil})
		}
	}
	if ref, err := refImage(w.dbPath, w.tmp); err == nil {
		w.srcDigest[after] = sha(ref)
	}
	w.maybeRestamp(0, after, after)
}

// chooseL0R chooses and sets db.L0Retention: nil = disabled (<= 0), else the
// threshold time.Now().Add(-L0Retention) the code will compute (up to the few
// microseconds between here and there; no stamp lies that close).
func (w *World) chooseL0R() []tval {
	if focus == "c06" || w.forceL0 == "off" {
		w.ldb.L0Retention = 0
		return nil
	}
	if w.forceL0 == "far" {
		time.Sleep(2 * time.Millisecond)
		w.ldb.L0Retention = time.Nanosecond
		return []tval{w.cn.of(w.far)}
	}
	switch k := w.rng.Intn(10); {
	case k < 3:
		w.ldb.L0Retention = 0
		return nil
	case k < 5 || w.style == "real":
		// everything is old enough
		time.Sleep(2 * time.Millisecond)
		w.ldb.L0Retention = time.Nanosecond
		return []tval{w.cn.of(w.far)}
	default:
		// half a unit after an injected age: stamps a <= thr are "not after", a > thr are
		target := w.cn.inj(int64(w.rng.Intn(14))).Add(unit / 2)
		w.ldb.L0Retention = time.Since(target)
		return []tval{w.cn.of(target)}
	}
}

func (w *World) afterCreate(level int, info *ltx.FileInfo) {
	if info == nil {
		return
	}
	min, max := uint64(info.MinTXID), uint64(info.MaxTXID)
	if ts, ok := w.checkCreated(level, min, max); ok {
		w.checkContents(ofile{level: level, min: min, max: max, created: w.cn.of(ts)}, "when it was written")
	}
	w.recompose(level, min, max)
	w.maybeRestamp(level, min, max)
}

func (w *World) opCompact(level int) {
	l0r := w.chooseL0R()
	ctx, cancel := context.WithTimeout(ctxb, 30*time.Second)
	defer cancel()
	preL0 := len(w.listing().level(0))
	info, err := w.ldb.Compact(ctx, level)
	w.ldb.L0Retention = 0
	st := errStatus(err, 3)
	w.trace = append(w.trace, fmt.Sprintf("compact(%d,l0r=%v)=%d", level, l0rStr(l0r), st))
	w.record(1, st, 0, int64(level), l0r)
	if st == 0 {
		if level == 1 && len(w.listing().level(0)) != preL0 {
			w.retFree = false
			w.latestOracle("Compact(1)+L0 retention")
		}
		w.afterCreate(level, info)
	}
}

// opCompactRaced: Compact(1) while another goroutine fills the cold max-file cache of level 1
// (DB.MaxLTXFileInfo, as the level-2 compaction or a status query does after a restart) with a
// listing taken BEFORE the compaction and delivered after it (or after 300 ms when the cache lock
// keeps the compaction waiting, as on the unchanged tree). Whatever the order, the cache must end up
// naming the newest level-1 file: the following sync + Compact(1) must continue after it. For the
// model this is Compact(1), a sync and Compact(1).
func (w *World) opCompactRaced() {
	w.opSync()
	if len(w.violations) > 0 {
		return
	}
	w.ldb.VerifClearMaxLTXCache(1)
	listed, release := w.gate.arm(1)
	done := make(chan struct{})
	go func() {
		defer close(done)
		ctx, cancel := context.WithTimeout(ctxb, 30*time.Second)
		defer cancel()
		_, _ = w.ldb.MaxLTXFileInfo(ctx, 1)
	}()
	select {
	case <-listed:
	case <-time.After(2 * time.Second):
	}
	w.gate.disarm()
	w.opCompact(1)
	close(release)
	<-done
	w.counts["raced_cache_fill_compactions"]++
	if len(w.violations) > 0 {
		return
	}
	w.opSync()
	w.opCompact(1)
}

// opResetCompact: the local state is reset at run time (the monitor's auto-recovery after a local
// LTX error: ResetLocalState removes the local level-0 files and re-fetches the replica's newest one
// as the baseline) while level 1 lags level 0 by several transactions; after one more sync, Compact(1)
// must continue where level 1 ended, whatever the LOCAL directory still holds. For the model the
// reset changes nothing in the replica: sync, sync, sync, Compact(1).
func (w *World) opResetCompact() {
	for i := 0; i < 2 && len(w.violations) == 0; i++ {
		w.opSync()
	}
	if len(w.violations) > 0 {
		return
	}
	ctx, cancel := context.WithTimeout(ctxb, 30*time.Second)
	defer cancel()
	before := w.pos()
	if err := w.ldb.ResetLocalState(ctx); err != nil {
		w.violate("harness/reset-local-state", err.Error())
		return
	}
	if after := w.pos(); after != before {
		w.violate("C06/position-moved-by-local-reset", fmt.Sprintf("ResetLocalState with the replica at TXID %d left the database at TXID %d", before, after))
		return
	}
	w.trace = append(w.trace, "reset-local-state")
	w.counts["compactions_after_local_reset"]++
	w.opSync()
	if len(w.violations) > 0 {
		return
	}
	w.opCompact(1)
}

// laggedSnapshotRetention (end of a history, nothing is replayed to the model afterwards): the
// database has synced commits into local level-0 files that are NOT uploaded yet, two snapshots are
// taken straight from the database beyond the replica's level-0 position, every snapshot but the
// newest is expired and Store.EnforceSnapshotRetention runs with its cascade. Whatever it deletes,
// the files still waiting for upload must survive: Replica.Sync (cached position dropped) must catch
// up and the latest state must restore to the source.
func (w *World) laggedSnapshotRetention() {
	ctx, cancel := context.WithTimeout(ctxb, 60*time.Second)
	defer cancel()
	local := func(n int) bool {
		for i := 0; i < n; i++ {
			if err := w.appWrite(); err != nil {
				w.violate("harness/app-write", err.Error())
				return false
			}
			if err := w.ldb.Sync(ctx); err != nil {
				w.violate("harness/sync", err.Error())
				return false
			}
		}
		return true
	}
	remote := remoteL0Max(w.replicaDir)
	if !local(2) {
		return
	}
	for i := 0; i < 2; i++ {
		if _, err := w.ldb.Snapshot(ctx); err != nil {
			return // e.g. a known snapshot finding: not this scenario's business
		}
		time.Sleep(2 * time.Millisecond)
		if !local(1) {
			return
		}
	}
	w.store.SnapshotRetention = time.Nanosecond
	for _, enabled := range []bool{w.ret} {
		_ = enabled
		if err := w.store.EnforceSnapshotRetention(ctx, w.ldb); err != nil {
			w.violate("harness/store-snapshot-retention-error", err.Error())
			return
		}
	}
	w.counts["snapshot_retention_passes_with_replica_behind"]++
	w.trace = append(w.trace, "storesnapret-while-replica-behind")
	w.ldb.Replica.SetPos(ltx.Pos{})
	if err := w.ldb.Replica.Sync(ctx); err != nil {
		w.violate("C07/replica-cannot-catch-up-after-retention",
			fmt.Sprintf("snapshot retention ran while the replica was behind (database at TXID %d, replica level 0 at %d, two snapshots taken from the database in between); Replica.Sync then fails: %v", w.pos(), remote, err))
		return
	}
	if got := remoteL0Max(w.replicaDir); got != w.pos() {
		w.violate("C07/replica-cannot-catch-up-after-retention",
			fmt.Sprintf("snapshot retention ran while the replica was behind; after Replica.Sync the replica's level 0 ends at TXID %d, the database at %d", got, w.pos()))
		return
	}
	w.latestOracle("Store.EnforceSnapshotRetention with the replica behind, then catch-up")
}

// snapshotAheadTimestampRestore (C15, end of a real-clock history; nothing is replayed to the model
// afterwards): a transaction N+1 is synced into a local level-0 file that is NOT uploaded, then a
// snapshot is taken (snapshots are written straight from the database, so the replica now holds
// [1..N+1] stamped S while its level 0 ends at N). A restore at T = S may not use that snapshot
// (created at T, not before it): it must produce state N, never the data of N+1 (seed C15e: a
// "newest level-0 file is older than T, restore latest" shortcut).
func (w *World) snapshotAheadTimestampRestore() {
	ctx, cancel := context.WithTimeout(ctxb, 60*time.Second)
	defer cancel()
	n := w.pos()
	if remoteL0Max(w.replicaDir) != n || n == 0 {
		return
	}
	refN, err := refImage(w.dbPath, w.tmp)
	if err != nil {
		return
	}
	time.Sleep(3 * time.Millisecond)
	if err := w.appWrite(); err != nil {
		w.violate("harness/app-write", err.Error())
		return
	}
	if err := w.ldb.Sync(ctx); err != nil {
		w.violate("harness/sync", err.Error())
		return
	}
	time.Sleep(3 * time.Millisecond)
	info, err := w.ldb.Snapshot(ctx)
	if err != nil || info == nil {
		return
	}
	S := info.CreatedAt
	// precondition: every other file of the replica is stamped before S
	for _, f := range w.listing() {
		if f.level == 9 && f.max == n+1 {
			continue
		}
		if !w.cn.time(f.created).Before(S) {
			return
		}
	}
	w.counts["timestamp_restores_with_snapshot_ahead_of_level0"]++
	got, err := restore(w.replicaDir, filepath.Join(w.tmp, "ahead.db"), 0, S)
	if err != nil {
		return // no eligible plan: an error is allowed
	}
	if d := diffPages(refN, got, w.pageSize); len(d) > 0 {
		refN1, _ := refImage(w.dbPath, w.tmp)
		later := refN1 != nil && len(diffPages(refN1, got, w.pageSize)) == 0
		w.violate("C15/timestamp-restore-returns-later-state",
			fmt.Sprintf("the replica's level 0 ends at TXID %d; TXID %d exists only in a snapshot stamped S; Restore(timestamp = S) must give the state of TXID %d but differs from it on pages %v (equal to the state of TXID %d: %v)", n, n+1, n, d, n+1, later))
	}
	w.ldb.Replica.SetPos(ltx.Pos{})
	_ = w.ldb.Replica.Sync(ctx)
}

// ---- retention over long listings (the Compactor used by the store and by the VFS compaction monitor) ----
//
// listClient: a replica whose listings are given and whose deletions are recorded; everything else is the
// file client over an empty directory.
type listClient struct {
	*file.ReplicaClient
	mu    sync.Mutex
	files map[int][]*ltx.FileInfo
}

func (c *listClient) LTXFiles(ctx context.Context, level int, seek ltx.TXID, useMetadata bool) (ltx.FileIterator, error) {
	c.mu.Lock()
	defer c.mu.Unlock()
	var out []*ltx.FileInfo
	for _, f := range c.files[level] {
		if f.MinTXID >= seek {
			cp := *f
			out = append(out, &cp)
		}
	}
	return ltx.NewFileInfoSliceIterator(out), nil
}

func (c *listClient) DeleteLTXFiles(ctx context.Context, a []*ltx.FileInfo) error {
	c.mu.Lock()
	defer c.mu.Unlock()
	for _, d := range a {
		l := c.files[d.Level]
		for i, f := range l {
			if f.MinTXID == d.MinTXID && f.MaxTXID == d.MaxTXID {
				c.files[d.Level] = append(append([]*ltx.FileInfo{}, l[:i]...), l[i+1:]...)
				break
			}
		}
	}
	return nil
}

// manyFilesRetention: snapshot_survives / "keep one" (Store/RetentionProofs.v) on listings of N files that are
// ALL expired, for N around powers of two and round numbers (batch sizes of storage APIs): the newest
// snapshot and the newest file of a level must survive whatever N is (seed C07g: deletions flushed in
// batches of 1000 while the level is still being scanned).
func manyFilesRetention(base string) (vs []ImplViolation, n int) {
	old := time.Now().Add(-100 * time.Hour)
	for _, N := range []int{1, 2, 3, 63, 64, 65, 100, 128, 256, 500, 512, 999, 1000, 1001, 1024, 2000, 2048, 3000} {
		dir := filepath.Join(base, fmt.Sprintf("many%d", N))
		os.MkdirAll(dir, 0o755)
		c := &listClient{ReplicaClient: file.NewReplicaClient(dir), files: map[int][]*ltx.FileInfo{}}
		for k := 1; k <= N; k++ {
			c.files[litestream.SnapshotLevel] = append(c.files[litestream.SnapshotLevel],
				&ltx.FileInfo{Level: litestream.SnapshotLevel, MinTXID: 1, MaxTXID: ltx.TXID(k), Size: 100, CreatedAt: old.Add(time.Duration(k) * time.Second)})
			c.files[1] = append(c.files[1], &ltx.FileInfo{Level: 1, MinTXID: ltx.TXID(k), MaxTXID: ltx.TXID(k), Size: 100, CreatedAt: old.Add(time.Duration(k) * time.Second)})
		}
		comp := litestream.NewCompactor(c, QuietLogger())
		n++
		if _, err := comp.EnforceSnapshotRetention(ctxb, time.Hour); err != nil {
			vs = append(vs, ImplViolation{Signature: "harness/many-files-retention-error", Detail: err.Error()})
			continue
		}
		left := c.files[litestream.SnapshotLevel]
		if len(left) == 0 || left[len(left)-1].MaxTXID != ltx.TXID(N) {
			vs = append(vs, ImplViolation{Signature: "C07/retention-deleted-the-newest-snapshot",
				Detail:  fmt.Sprintf("Compactor.EnforceSnapshotRetention over %d snapshots 1..k (k = 1..%d), all older than the retention period: %d snapshots are left, the newest (1..%d) is gone", N, N, len(left), N),
				Replay: map[string]any{"how": "harness store -focus c07 (manyFilesRetention)", "snapshots": N}})
		}
		if err := comp.EnforceRetentionByTXID(ctxb, 1, ltx.TXID(N+10)); err != nil {
			vs = append(vs, ImplViolation{Signature: "harness/many-files-retention-error", Detail: err.Error()})
			continue
		}
		if l1 := c.files[1]; len(l1) == 0 || l1[len(l1)-1].MaxTXID != ltx.TXID(N) {
			vs = append(vs, ImplViolation{Signature: "C07/txid-retention-deleted-the-newest-file-of-a-level",
				Detail:  fmt.Sprintf("Compactor.EnforceRetentionByTXID(level 1, floor beyond every file) over %d files: %d are left, the newest is gone", N, len(l1)),
				Replay: map[string]any{"how": "harness store -focus c07 (manyFilesRetention)", "files": N}})
		}
		os.RemoveAll(dir)
	}
	return vs, n
}

func remoteL0Max(replicaDir string) uint64 {
	ents, _ := os.ReadDir(filepath.Join(replicaDir, "ltx", "0"))
	var m uint64
	for _, e := range ents {
		var a, b uint64
		if n, _ := fmt.Sscanf(e.Name(), "%016x-%016x.ltx", &a, &b); n == 2 && b > m {
			m = b
		}
	}
	return m
}

func l0rStr(l []tval) string {
	if l == nil {
		return "off"
	}
	return fmt.Sprint(int64(l[0]))
}

func (w *World) opCompactDB(level int) {
	l0r := w.chooseL0R()
	early := w.rng.Intn(4) == 0
	lvl := &litestream.CompactionLevel{Level: level, Interval: time.Nanosecond}
	prev := w.cn.of(w.far) // PrevCompactionAt = now: later than every stamp
	if early {
		lvl.Interval = 200 * 365 * 24 * time.Hour // PrevCompactionAt = year ~2001: before every stamp (zero time aside)
		prev = 0
	}
	ctx, cancel := context.WithTimeout(ctxb, 30*time.Second)
	defer cancel()
	preL0 := len(w.listing().level(0))
	info, err := w.store.CompactDB(ctx, w.ldb, lvl)
	if level == 9 {
		w.marks = append(w.marks, time.Now())
	}
	w.ldb.L0Retention = 0
	st := errStatus(err, 3)
	if level == 9 && st == 3 {
		st = 4
	}
	var t tval
	if st == 0 && level == 9 && info != nil {
		t = w.cn.of(info.CreatedAt)
		w.hadSnap = true
	}
	w.trace = append(w.trace, fmt.Sprintf("compactdb(%d,early=%v,l0r=%v)=%d", level, early, l0rStr(l0r), st))
	w.record(2, st, 0, int64(level), prev, l0r, t)
	if st == 0 {
		if level == 1 && len(w.listing().level(0)) != preL0 {
			w.retFree = false
			w.latestOracle("CompactDB(1)+L0 retention")
		}
		w.afterCreate(level, info)
	}
}

func (w *World) opSnapshot() {
	ctx, cancel := context.WithTimeout(ctxb, 30*time.Second)
	defer cancel()
	before := w.pos()
	info, err := w.ldb.Snapshot(ctx)
	w.marks = append(w.marks, time.Now())
	st := errStatus(err, 4)
	var t tval
	if st == 0 {
		t = w.cn.of(info.CreatedAt)
		w.hadSnap = true
	}
	if w.pos() != before {
		w.violate("harness/snapshot-moved-position", fmt.Sprintf("%d -> %d", before, w.pos()))
	}
	w.trace = append(w.trace, fmt.Sprintf("snapshot=%d", st))
	w.record(3, st, 0, t)
	if st == 0 {
		w.afterCreate(9, info)
	}
}

// checkContents (C15 hypothesis, every level including 9): a file whose mtime the harness has not
// re-stamped is stamped no earlier than the replication time of the newest transaction it contains
// (the L0 file of its MaxTXID, as recorded when that TXID was replicated); an L0 file keeps it.
func (w *World) checkContents(f ofile, when string) {
	if w.style != "real" && !w.noRestamp[key(f.level, f.min, f.max)] {
		return
	}
	rt, ok := w.repl[f.max]
	if !ok {
		return
	}
	w.counts["file_stamp_vs_contents_checks"]++
	got, want := w.cn.time(f.created).UnixMilli(), w.cn.time(rt).UnixMilli()
	switch {
	case f.level == 9 && got < want:
		w.violateSoft(key(f.level, f.min, f.max), "C15/snapshot-timestamp-earlier-than-its-contents",
			fmt.Sprintf("%s the snapshot 1-%d is stamped %d (Unix ms), %d ms BEFORE TXID %d was replicated (%d): a timestamp restore "+
				"with T in (%d, %d] uses it and returns transactions replicated at or after T", when, f.max, got, want-got, f.max, want, got, want))
	case f.level != 9 && f.level != 0 && got < want:
		w.violateSoft(key(f.level, f.min, f.max), "C15/file-timestamp-earlier-than-its-contents",
			fmt.Sprintf("%s the level-%d file %d-%d is stamped %d (Unix ms), before TXID %d was replicated (%d)", when, f.level, f.min, f.max, got, f.max, want))
	case f.level == 0 && got != want:
		w.violateSoft(key(f.level, f.min, f.max), "C15/l0-timestamp-changed",
			fmt.Sprintf("%s the level-0 file of TXID %d is stamped %d (Unix ms) but was replicated at %d", when, f.max, got, want))
	}
}

// opCheckpoint: a real PASSIVE checkpoint through litestream (C15 histories): the database file is
// written now, the transactions replicated afterwards live only in the WAL until the next one.
func (w *World) opCheckpoint() {
	ctx, cancel := context.WithTimeout(ctxb, 30*time.Second)
	defer cancel()
	before := w.pos()
	t0 := time.Now()
	err := w.ldb.Checkpoint(ctx, litestream.CheckpointModePassive)
	if err == nil {
		err = w.ldb.Replica.Sync(ctx)
	}
	if err != nil {
		w.violate("harness/checkpoint", err.Error())
		return
	}
	w.marks = append(w.marks, time.Now())
	w.counts["checkpoints"]++
	w.trace = append(w.trace, "checkpoint")
	if after := w.pos(); after > before {
		w.absorb(before, after, t0)
	}
}

// a retention timestamp around the stamps of the existing snapshots
func (w *World) chooseTS() tval {
	snaps := w.listing().level(9)
	if w.forceAge >= 0 {
		return w.cn.of(w.cn.inj(w.forceAge).Add(unit / 2))
	}
	if len(snaps) > 0 && (w.style == "real" || w.rng.Intn(3) == 0) && w.rng.Intn(5) != 0 {
		// at / 1 ms before / 1 ms after the stamp of an existing snapshot
		s := snaps[w.rng.Intn(len(snaps))]
		return w.cn.of(w.cn.time(s.created).Add(time.Duration(w.rng.Intn(3)-1) * time.Millisecond))
	}
	if w.rng.Intn(6) == 0 {
		return w.cn.of(w.far)
	}
	return w.cn.of(w.cn.inj(int64(w.rng.Intn(14))))
}

func (w *World) opSnapRet() {
	ts := w.chooseTS()
	ctx, cancel := context.WithTimeout(ctxb, 30*time.Second)
	defer cancel()
	fl, err := w.ldb.EnforceSnapshotRetention(ctx, w.cn.time(ts))
	if err != nil {
		w.violate("harness/snapshot-retention-error", err.Error())
		return
	}
	w.retFree = false
	w.trace = append(w.trace, fmt.Sprintf("snapret(%v)=%d", ts, fl))
	w.record(4, 0, uint64(fl), ts)
	w.latestOracle("EnforceSnapshotRetention")
}

func (w *World) snapMax() uint64 {
	var m uint64
	for _, f := range w.listing().level(9) {
		if f.max > m {
			m = f.max
		}
	}
	return m
}

func (w *World) opTxidRet() {
	level := 1 + w.rng.Intn(w.nlv)
	S := w.snapMax()
	var floor uint64
	switch k := w.rng.Intn(10); {
	case k < 3:
		floor = S
	case k < 5 && S > 0:
		floor = S - 1
	case k < 8:
		floor = uint64(w.rng.Intn(int(S) + 1))
	default:
		floor = uint64(w.rng.Intn(int(S) + 1))
		if w.rng.Intn(3) == 0 {
			floor = S + 1 + uint64(w.rng.Intn(3)) // beyond every snapshot: outside the theorem's domain
		}
	}
	ctx, cancel := context.WithTimeout(ctxb, 30*time.Second)
	defer cancel()
	if err := w.ldb.EnforceRetentionByTXID(ctx, level, ltx.TXID(floor)); err != nil {
		w.violate("harness/txid-retention-error", err.Error())
		return
	}
	w.retFree = false
	if floor > S {
		w.unsafe = true
		w.counts["unsafe_floor_histories"]++
	}
	w.trace = append(w.trace, fmt.Sprintf("txidret(%d,%d)", level, floor))
	w.record(5, 0, 0, int64(level), int64(floor))
	w.latestOracle("EnforceRetentionByTXID")
}

func (w *World) opL0Ret() {
	l0r := w.chooseL0R()
	ctx, cancel := context.WithTimeout(ctxb, 30*time.Second)
	defer cancel()
	err := w.ldb.EnforceL0RetentionByTime(ctx)
	w.ldb.L0Retention = 0
	if err != nil {
		w.violate("harness/l0-retention-error", err.Error())
		return
	}
	w.retFree = false
	w.trace = append(w.trace, fmt.Sprintf("l0ret(%v)", l0rStr(l0r)))
	w.record(6, 0, 0, l0r)
	w.latestOracle("EnforceL0RetentionByTime")
}

// opLaggedL0Ret: the replica is BEHIND the database (transactions synced locally, not uploaded yet) when
// the level-0 retention pass runs with every replicated file old enough; afterwards the replica's cached
// position is dropped (what any failed upload or a restart does) and the replica catches up. The newest
// REPLICATED level-0 file anchors the replica position and must survive the pass (seed C07d: the guard
// compared with the newest LOCAL file). For the model the lagging syncs happen when they are uploaded.
func (w *World) opLaggedL0Ret() {
	for i := 0; i < 2 && len(w.violations) == 0; i++ {
		w.opSync()
	}
	if len(w.violations) > 0 {
		return
	}
	w.opCompact(1)
	if len(w.violations) > 0 {
		return
	}
	ctx, cancel := context.WithTimeout(ctxb, 30*time.Second)
	defer cancel()
	before := w.pos()
	t0 := time.Now()
	for i := 0; i < 1; i++ { // one lagging file: the model's listing is compared after every replayed sync
		if err := w.appWrite(); err != nil {
			w.violate("harness/app-write", err.Error())
			return
		}
		if err := w.ldb.Sync(ctx); err != nil {
			w.violate("harness/sync", err.Error())
			return
		}
	}
	prev := w.forceL0
	w.forceL0 = "far"
	l0r := w.chooseL0R()
	w.forceL0 = prev
	err := w.ldb.EnforceL0RetentionByTime(ctx)
	w.ldb.L0Retention = 0
	if err != nil {
		w.violate("harness/l0-retention-error", err.Error())
		return
	}
	w.retFree = false
	w.trace = append(w.trace, fmt.Sprintf("l0ret-while-replica-behind(%v)", l0rStr(l0r)))
	w.lagPos = before
	w.record(6, 0, 0, l0r)
	w.lagPos = 0
	w.counts["l0_retention_passes_with_replica_behind"]++
	w.ldb.Replica.SetPos(ltx.Pos{})
	if err := w.ldb.Replica.Sync(ctx); err != nil {
		w.violate("C07/replica-cannot-catch-up-after-retention",
			fmt.Sprintf("level-0 retention ran while the replica was behind (database at TXID %d, replica at %d); after the cached replica position was dropped, Replica.Sync fails: %v", w.pos(), before, err))
		return
	}
	after := w.pos()
	w.trace = append(w.trace, "catch-up")
	w.absorb(before, after, t0)
	w.latestOracle("EnforceL0RetentionByTime with the replica behind, then catch-up")
}

func (w *World) opStoreSnapRet() {
	// Store.EnforceSnapshotRetention reads the clock: timestamp = now - SnapshotRetention
	var ts tval
	if w.forceAge >= 0 {
		target := w.cn.inj(w.forceAge).Add(unit / 2)
		ts = w.cn.of(target)
		w.store.SnapshotRetention = time.Since(target)
	} else if w.style == "real" || w.rng.Intn(5) == 0 {
		if w.rng.Intn(2) == 0 {
			time.Sleep(2 * time.Millisecond)
			ts = w.cn.of(w.far)
			w.store.SnapshotRetention = time.Nanosecond
		} else {
			ts = w.cn.of(w.cn.t0.Add(-1000 * unit)) // before every stamp
			w.store.SnapshotRetention = time.Since(w.cn.t0.Add(-1000 * unit))
		}
	} else {
		target := w.cn.inj(int64(w.rng.Intn(14))).Add(unit / 2)
		ts = w.cn.of(target)
		w.store.SnapshotRetention = time.Since(target)
	}
	ctx, cancel := context.WithTimeout(ctxb, 30*time.Second)
	defer cancel()
	if err := w.store.EnforceSnapshotRetention(ctx, w.ldb); err != nil {
		w.violate("harness/store-snapshot-retention-error", err.Error())
		return
	}
	w.retFree = false
	w.trace = append(w.trace, fmt.Sprintf("storesnapret(%v)", int64(ts)))
	w.record(7, 0, 0, ts)
	w.latestOracle("Store.EnforceSnapshotRetention")
}

func (w *World) opSetRet() {
	w.ret = !w.ret
	w.store.SetRetentionEnabled(w.ret)
	w.trace = append(w.trace, fmt.Sprintf("setret(%v)", w.ret))
	b := int64(0)
	if w.ret {
		b = 1
	}
	w.record(8, 0, 0, b)
}

func (w *World) opRestampAny() {
	l := w.listing()
	if len(l) == 0 {
		return
	}
	f := l[w.rng.Intn(len(l))]
	w.doRestamp(f.level, f.min, f.max, int64(1+w.rng.Intn(12)))
}

// ---- C06: independent re-composition ---------------------------------------------------------------

type pageSet struct {
	hdr   ltx.Header
	pgnos []uint32
	sums  []string
}

func decodePages(r io.Reader) (*pageSet, error) {
	dec := ltx.NewDecoder(r)
	if err := dec.DecodeHeader(); err != nil {
		return nil, err
	}
	ps := &pageSet{hdr: dec.Header()}
	buf := make([]byte, ps.hdr.PageSize)
	for {
		var ph ltx.PageHeader
		if err := dec.DecodePage(&ph, buf); errors.Is(err, io.EOF) {
			break
		} else if err != nil {
			return nil, err
		}
		ps.pgnos = append(ps.pgnos, ph.Pgno)
		ps.sums = append(ps.sums, sha(buf))
	}
	if err := dec.Close(); err != nil {
		return nil, err
	}
	return ps, nil
}

// recompose compares a level>=1 file with the ltx.Compactor merge of the archived L0 files min..max.
func (w *World) recompose(level int, min, max uint64) {
	w.counts["recompositions"]++
	f, err := os.Open(w.client.LTXFilePath(level, ltx.TXID(min), ltx.TXID(max)))
	if err != nil {
		w.violate("harness/open-compacted", err.Error())
		return
	}
	got, err := decodePages(f)
	f.Close()
	if err != nil {
		w.violate("C06/compacted-file-unreadable", fmt.Sprintf("level %d %d-%d: %v", level, min, max, err))
		return
	}
	var rdrs []io.Reader
	var files []*os.File
	defer func() {
		for _, f := range files {
			f.Close()
		}
	}()
	for n := min; n <= max; n++ {
		af, err := os.Open(w.arch.LTXFilePath(0, ltx.TXID(n), ltx.TXID(n)))
		if err != nil {
			w.violate("harness/archive-missing", err.Error())
			return
		}
		files = append(files, af)
		rdrs = append(rdrs, af)
	}
	var buf bytes.Buffer
	comp, err := ltx.NewCompactor(&buf, rdrs)
	if err != nil {
		w.violate("harness/recompose", err.Error())
		return
	}
	comp.HeaderFlags = ltx.HeaderFlagNoChecksum
	if err := comp.Compact(ctxb); err != nil {
		w.violate("harness/recompose", err.Error())
		return
	}
	want, err := decodePages(bytes.NewReader(buf.Bytes()))
	if err != nil {
		w.violate("harness/recompose-decode", err.Error())
		return
	}
	var diffs []string
	if got.hdr.MinTXID != want.hdr.MinTXID || got.hdr.MaxTXID != want.hdr.MaxTXID {
		diffs = append(diffs, fmt.Sprintf("range %d-%d vs %d-%d", got.hdr.MinTXID, got.hdr.MaxTXID, want.hdr.MinTXID, want.hdr.MaxTXID))
	}
	if got.hdr.Commit != want.hdr.Commit {
		diffs = append(diffs, fmt.Sprintf("commit %d vs %d", got.hdr.Commit, want.hdr.Commit))
	}
	if got.hdr.PageSize != want.hdr.PageSize {
		diffs = append(diffs, "page size")
	}
	if level != 9 && got.hdr.Timestamp != want.hdr.Timestamp {
		diffs = append(diffs, fmt.Sprintf("timestamp %d vs newest input's %d", got.hdr.Timestamp, want.hdr.Timestamp))
	}
	if level == 9 && got.hdr.Timestamp < want.hdr.Timestamp && focus != "c15" { // c15: checkContents reports it and goes on
		diffs = append(diffs, fmt.Sprintf("snapshot stamped %d, before its newest transaction %d", got.hdr.Timestamp, want.hdr.Timestamp))
	}
	if len(got.pgnos) != len(want.pgnos) {
		diffs = append(diffs, fmt.Sprintf("%d pages vs %d", len(got.pgnos), len(want.pgnos)))
	} else {
		for i := range got.pgnos {
			if got.pgnos[i] != want.pgnos[i] || got.sums[i] != want.sums[i] {
				diffs = append(diffs, fmt.Sprintf("page #%d: pgno %d vs %d", i, got.pgnos[i], want.pgnos[i]))
				break
			}
		}
	}
	if len(diffs) > 0 {
		w.violate("C06/compacted-file-differs-from-recomposition",
			fmt.Sprintf("level %d file %d-%d differs from the merge of the archived L0 files: %s", level, min, max, strings.Join(diffs, "; ")))
	}
}

func (w *World) archiveDigest(k uint64) (string, bool) {
	if d, ok := w.archDigest[k]; ok {
		return d, true
	}
	img, err := restore(w.archDir, filepath.Join(w.tmp, "arch.db"), k, time.Time{})
	if err != nil {
		w.violate("harness/archive-restore", fmt.Sprintf("TXID %d: %v", k, err))
		return "", false
	}
	w.archDigest[k] = sha(img)
	if s, ok := w.srcDigest[k]; ok && s != w.archDigest[k] {
		w.violate("C06/l0-chain-differs-from-source", fmt.Sprintf("restoring the archived L0 files 1..%d does not give the source image recorded at that sync", k))
	}
	return w.archDigest[k], true
}

// txidOracle: Restore(TXID=k) from the replica (any mix of levels) = restore of the L0 chain 1..k.
func (w *World) txidOracle(when string) {
	pos := w.pos()
	stride := uint64(1)
	if focus != "c06" && pos > 6 {
		stride = (pos + 5) / 6 // C06's business: the other checks keep a sample (always including pos)
	}
	for k := uint64(1); k <= pos; k++ {
		if (pos-k)%stride != 0 {
			continue
		}
		img, err := restore(w.replicaDir, filepath.Join(w.tmp, "txid.db"), k, time.Time{})
		if err != nil {
			if errors.Is(err, litestream.ErrTxNotAvailable) || strings.Contains(err.Error(), "transaction not available") {
				w.counts["txid_not_reachable"]++
				continue
			}
			if !w.unsafe {
				w.violate("C06/restore-txid-fails", fmt.Sprintf("%s: Restore(TXID=%d): %v", when, k, err))
			}
			continue
		}
		w.counts["txid_restores"]++
		want, ok := w.archiveDigest(k)
		if ok && sha(img) != want {
			w.violate("C06/restore-txid-differs-across-plans", fmt.Sprintf("%s: Restore(TXID=%d) from the replica differs from the L0 chain 1..%d", when, k, k))
		}
	}
}

// ---- C15 -------------------------------------------------------------------------------------------------

type tsQuery struct {
	T      tval
	status int
	plan   listing
}

func planStr(infos []*ltx.FileInfo) string {
	var b strings.Builder
	for i, it := range infos {
		if i > 0 {
			b.WriteString(" ")
		}
		fmt.Fprintf(&b, "L%d:%d-%d@%d", it.Level, it.MinTXID, it.MaxTXID, it.CreatedAt.UnixMilli())
	}
	return "[" + b.String() + "]"
}

func (w *World) tsOracle() (listing, []tsQuery) {
	l := w.listing()
	set := map[int64]struct{}{}
	var stamps []int64
	for _, f := range l {
		w.checkContents(f, "in the final listing")
		ms := w.cn.time(f.created).UnixMilli()
		if _, ok := set[ms]; !ok {
			set[ms] = struct{}{}
			stamps = append(stamps, ms)
		}
	}
	// C15, histories on the real clock: every replication time (also of TXIDs whose L0 file is gone)
	// and the times of checkpoints and snapshots are query points too, so that T falls inside every
	// (checkpoint, snapshot) window and around every transaction
	pos := w.pos()
	real := w.style == "real"
	l0All := uint64(len(l.level(0))) == pos && pos > 0
	if real {
		add := func(ms int64) {
			if _, ok := set[ms]; !ok {
				set[ms] = struct{}{}
				stamps = append(stamps, ms)
			}
		}
		for _, rt := range w.repl {
			add(w.cn.time(rt).UnixMilli())
		}
		for _, m := range w.marks {
			add(m.UnixMilli())
		}
	}
	// the newest TXID replicated strictly before T, from the harness's own record (0: none)
	lastBefore := func(T time.Time) uint64 {
		var k uint64
		for n := uint64(1); n <= pos; n++ {
			if rt, ok := w.repl[n]; ok && w.cn.time(rt).UnixMilli() < T.UnixMilli() && n > k {
				k = n
			}
		}
		return k
	}
	sort.Slice(stamps, func(i, j int) bool { return stamps[i] < stamps[j] })
	tset := map[int64]struct{}{}
	for i, s := range stamps {
		tset[s-1], tset[s], tset[s+1] = struct{}{}, struct{}{}, struct{}{}
		if i+1 < len(stamps) && stamps[i+1]-s > 3 {
			tset[s+(stamps[i+1]-s)/2] = struct{}{}
		}
	}
	if len(stamps) > 0 {
		tset[stamps[0]-int64(unit/time.Millisecond)] = struct{}{}
		tset[stamps[len(stamps)-1]+int64(unit/time.Millisecond)] = struct{}{}
	}
	var ts []int64
	for t := range tset {
		ts = append(ts, t)
	}
	sort.Slice(ts, func(i, j int) bool { return ts[i] < ts[j] })
	maxQ := 48
	if focus != "c15" {
		maxQ = 10 // timestamp queries are C15's business; the other checks keep a sample
	}
	if len(ts) > maxQ { // keep the run short: thin out evenly but keep the ends
		var keep []int64
		step := float64(len(ts)) / float64(maxQ)
		for i := 0; i < maxQ; i++ {
			keep = append(keep, ts[int(float64(i)*step)])
		}
		keep = append(keep, ts[len(ts)-1])
		ts = keep
	}
	var qs []tsQuery
	for _, ms := range ts {
		T := time.UnixMilli(ms)
		tv := w.cn.of(T)
		q := tsQuery{T: tv}
		infos, err := litestream.CalcRestorePlan(ctxb, w.client, 0, T, QuietLogger())
		w.counts["ts_queries"]++
		if err != nil {
			if errors.Is(err, litestream.ErrTxNotAvailable) {
				q.status = 2
			} else {
				q.status = 9
				w.violate("C15/unexpected-plan-error", fmt.Sprintf("T=%v: %v", tv, err))
			}
			// the restore must fail too
			if _, rerr := restore(w.replicaDir, filepath.Join(w.tmp, "ts.db"), 0, T); rerr == nil {
				w.violate("C15/restore-succeeds-where-plan-fails", fmt.Sprintf("T=%v", tv))
			}
			if want := lastBefore(T); real && l0All && q.status == 2 && want > 0 {
				w.violate("C15/timestamp-restore-not-the-last-transaction-before-T",
					fmt.Sprintf("T=%d (Unix ms): TXID %d was replicated before T and every level-0 file is present, but the restore fails with ErrTxNotAvailable", ms, want))
			}
			qs = append(qs, q)
			continue
		}
		for _, it := range infos {
			q.plan = append(q.plan, ofile{level: it.Level, min: uint64(it.MinTXID), max: uint64(it.MaxTXID), created: w.cn.of(it.CreatedAt)})
		}
		end := uint64(infos[len(infos)-1].MaxTXID)
		if real {
			// the property itself, against the harness's own record of when each TXID was replicated
			w.counts["ts_end_vs_replication_record_checks"]++
			want := lastBefore(T)
			if rt, ok := w.repl[end]; ok && w.cn.time(rt).UnixMilli() >= ms {
				w.violate("C15/timestamp-restore-returns-transaction-replicated-at-or-after-T",
					fmt.Sprintf("T=%d (Unix ms): the restore plan %v ends at TXID %d, which was replicated at %d (>= T); the newest TXID replicated before T is %d",
						ms, planStr(infos), end, w.cn.time(rt).UnixMilli(), want))
			} else if l0All && end != want {
				w.violate("C15/timestamp-restore-not-the-last-transaction-before-T",
					fmt.Sprintf("T=%d (Unix ms): every level-0 file is present and the newest TXID replicated before T is %d, but the plan %v ends at %d", ms, want, planStr(infos), end))
			}
		}
		img, rerr := restore(w.replicaDir, filepath.Join(w.tmp, "ts.db"), 0, T)
		if rerr != nil {
			w.violate("C15/timestamp-restore-fails", fmt.Sprintf("T=%v plan ends at %d: %v", tv, end, rerr))
		} else if want, ok := w.archiveDigest(end); ok && sha(img) != want {
			w.violate("C15/timestamp-restore-differs-from-txid-state",
				fmt.Sprintf("Restore(Timestamp=%v) chose TXID %d but the image differs from the state of TXID %d", tv, end, end))
		}
		w.counts["ts_restores"]++
		qs = append(qs, q)
	}
	return l, qs
}

// directed: snapshot ages in EVERY order relative to the retention threshold (every subset of
// 2-3 snapshots expired, not only TXID prefixes), with L0 trimmed behind L1 by L0 retention,
// followed by the snapshot pass and its cascade (Store.EnforceSnapshotRetention, or
// DB.EnforceSnapshotRetention + EnforceRetentionByTXID with the returned floor).
func (w *World) directed(mask int, nsnap int) {
	w.forceL0 = "off"
	w.opSync()
	type sn struct{ max uint64 }
	var snaps []sn
	for i := 0; i < nsnap && len(w.violations) == 0; i++ {
		w.opSnapshot()
		snaps = append(snaps, sn{w.pos()})
		for j, n := 0, 1+w.rng.Intn(2); j < n; j++ {
			w.opSync()
			w.opCompact(1)
		}
		if w.nlv >= 2 && w.rng.Intn(2) == 0 {
			w.opCompact(2)
		}
	}
	if len(w.violations) > 0 {
		return
	}
	for i, s := range snaps {
		age := int64(9)
		if mask>>i&1 == 1 {
			age = 3 // expired: threshold is 6.5
		}
		w.doRestamp(9, 1, s.max, age)
	}
	for _, f := range w.listing().level(0) {
		w.doRestamp(0, f.min, f.max, 1)
	}
	w.forceL0 = "far"
	w.opL0Ret()
	w.forceAge = 6
	if w.rng.Intn(3) != 0 {
		w.opStoreSnapRet()
	} else {
		w.opSnapRet()
		// the cascade by hand, with the floor the snapshot pass returned
		fl := w.ops[len(w.ops)-1].aux
		for lv := 1; lv <= w.nlv && len(w.violations) == 0; lv++ {
			ctx, cancel := context.WithTimeout(ctxb, 30*time.Second)
			err := w.ldb.EnforceRetentionByTXID(ctx, lv, ltx.TXID(fl))
			cancel()
			if err != nil {
				w.violate("harness/txid-retention-error", err.Error())
				return
			}
			w.trace = append(w.trace, fmt.Sprintf("txidret(%d,%d)", lv, fl))
			w.record(5, 0, 0, int64(lv), int64(fl))
			w.ops[len(w.ops)-1].safe = true
			w.latestOracle("EnforceRetentionByTXID (cascade)")
		}
	}
	w.counts["directed_snapshot_subset_histories"]++
	w.counts[fmt.Sprintf("directed_mask_%d_of_%d", mask, nsnap)]++
	w.forceL0, w.forceAge = "", -1
}

// ---- one history ----------------------------------------------------------------------------------------------

type result struct {
	w      *World
	tsL    listing
	tsQ    []tsQuery
	tsPos  uint64
	midL   listing
	midQ   []tsQuery
	midPos uint64
	preL   listing
	preQ   []tsQuery
	prePos uint64
	err    error
}

func runHistory(dir string, rng *rand.Rand, steps int, start time.Time, index int) (res result) {
	w, err := newWorld(dir, rng, start)
	if err != nil {
		return result{err: err}
	}
	res.w = w
	defer func() {
		if r := recover(); r != nil {
			w.violate("harness/panic", fmt.Sprint(r))
		}
		w.violations = append(w.violations, w.soft...)
		w.close()
	}()
	if focus == "c15" && index%2 == 0 {
		w.style = "real" // decided before the first file is written (see the directed C15 scenario below)
	}
	w.opSync()
	if focus == "c07" && index%3 == 0 {
		// every third history starts with a directed snapshot-subset scenario; all 12 subsets within 36 histories
		w.style = "aged"
		// d cycles through the 4 subsets of two snapshots and the 8 subsets of three
		d, nsnap, mask := (index/3)%12, 2, 0
		if d < 4 {
			mask = d
		} else {
			nsnap, mask = 3, d-4
		}
		w.directed(mask, nsnap)
		steps = steps / 3
	}
	retentionHeavy := rng.Intn(3) != 0
	if focus == "c15" {
		retentionHeavy = rng.Intn(3) == 0
	}
	if focus == "c15" && index%2 == 0 {
		// every second C15 history runs on the real clock and starts with the shape in which a file's
		// stamp and the replication times of its contents can drift apart: transactions, a checkpoint
		// (the database file is written), more transactions that stay in the WAL, a snapshot taken
		// well after them, more transactions — then timestamp restores around every one of these times
		w.style = "real"
		nap := func() { time.Sleep(time.Duration(2+rng.Intn(3)) * time.Millisecond) }
		for i, n := 0, 1+rng.Intn(2); i < n && len(w.violations) == 0; i++ {
			nap()
			w.opSync()
		}
		nap()
		if len(w.violations) == 0 {
			w.opCheckpoint()
		}
		for i, n := 0, 2+rng.Intn(3); i < n && len(w.violations) == 0; i++ {
			nap()
			w.opSync()
		}
		nap()
		if len(w.violations) == 0 {
			if rng.Intn(3) == 0 {
				w.opCompactDB(9)
			} else {
				w.opSnapshot()
			}
		}
		for i, n := 0, 1+rng.Intn(2); i < n && len(w.violations) == 0; i++ {
			nap()
			w.opSync()
		}
		if len(w.violations) == 0 {
			res.preL, res.preQ = w.tsOracle()
			res.prePos = w.pos()
		}
		w.counts["directed_checkpoint_snapshot_histories"]++
	}
	mid := steps/2 + rng.Intn(5)
	for i := 0; i < steps && len(w.violations) == 0; i++ {
		if w.style == "real" && rng.Intn(2) == 0 {
			time.Sleep(time.Duration(rng.Intn(4)) * time.Millisecond)
		}
		k := rng.Intn(100)
		if !retentionHeavy && k >= 70 && k < 96 {
			k = rng.Intn(70)
		}
		if focus == "c06" && k >= 68 && k < 96 && (k < 94 || rng.Intn(2) == 0) {
			k = rng.Intn(68) // retention-free histories
		}
		switch {
		case k < 34:
			w.opSync()
		case k < 48:
			if focus == "c06" && rng.Intn(12) == 0 {
				w.opCompactRaced()
			} else if (focus == "c06" || focus == "c07") && rng.Intn(10) == 0 {
				w.opResetCompact()
			} else {
				w.opCompact(1 + pickLevel(rng, w.nlv))
			}
		case k < 58:
			lv := 1 + pickLevel(rng, w.nlv)
			if rng.Intn(4) == 0 {
				lv = 9
			}
			w.opCompactDB(lv)
		case k < 68:
			w.opSnapshot()
		case k < 76:
			w.opSnapRet()
		case k < 82:
			w.opTxidRet()
		case k < 88:
			if focus == "c07" && w.ret && rng.Intn(3) == 0 {
				w.opLaggedL0Ret()
			} else {
				w.opL0Ret()
			}
		case k < 94:
			w.opStoreSnapRet()
		case k < 96:
			w.opSetRet()
		default:
			if w.style == "aged" {
				w.opRestampAny()
			} else if focus == "c15" {
				w.opCheckpoint()
			} else {
				w.opSync()
			}
		}
		if i == mid && focus == "c15" && !w.unsafe && len(w.violations) == 0 {
			res.midL, res.midQ = w.tsOracle()
			res.midPos = w.pos()
		}
	}
	if len(w.violations) == 0 {
		w.latestOracle("end of history")
		w.txidOracle("end of history")
		if !w.unsafe {
			res.tsL, res.tsQ = w.tsOracle()
			res.tsPos = w.pos()
		}
	}
	if len(w.violations) == 0 && focus == "c07" && index%3 == 0 {
		w.laggedSnapshotRetention()
	}
	if len(w.violations) == 0 && focus == "c15" && w.style == "real" && !w.unsafe {
		w.snapshotAheadTimestampRestore()
	}
	return res
}

// lower levels more often
func pickLevel(rng *rand.Rand, nlv int) int {
	for i := 0; i < nlv-1; i++ {
		if rng.Intn(5) < 3 {
			return i
		}
	}
	return nlv - 1
}

// ---- emitting cases ----------------------------------------------------------------------------------------------

func (w *World) sxArg(a any) Sx {
	switch v := a.(type) {
	case int64:
		return I(v)
	case tval:
		return w.cn.sx(v)
	case []tval:
		if v == nil {
			return L()
		}
		return L(w.cn.sx(v[0]))
	}
	return I(0)
}

func (w *World) sxPlan(l listing) Sx { return w.sxListing(l) }

func emit(cw *CaseWriter, res result) {
	w := res.w
	w.cn.finish()
	ops := make(SxList, 0, len(w.ops))
	obs := make(SxList, 0, len(w.ops))
	var lastL Sx = L()
	for _, o := range w.ops {
		a := SxList{I(int64(o.code))}
		for _, x := range o.args {
			a = append(a, w.sxArg(x))
		}
		ops = append(ops, a)
		if o.after != nil {
			lastL = w.sxListing(o.after)
		}
		obs = append(obs, L(I(int64(o.status)), U(o.aux), U(o.pos), lastL))
	}
	// multi-file syncs: the listing is observed only after the last file; the model's
	// intermediate listings are not comparable. They do not occur with checkpoints disabled.
	retInit := int64(0)
	if w.initRet() {
		retInit = 1
	}
	cls := fmt.Sprintf("%s/levels=%d", w.style, w.nlv)
	cw.Add("store_run", L(I(int64(w.nlv)), I(retInit), ops), obs, cls, len(w.ops) > 4)
	// spec oracle on every observed listing up to the first unsafe floor
	had, retFree, unsafe := false, true, false
	S := uint64(0)
	for _, o := range w.ops {
		if o.after == nil {
			continue
		}
		if (o.code == 3 || (o.code == 2 && len(o.args) > 0 && o.args[0].(int64) == 9)) && o.status == 0 {
			had = true
		}
		if o.code >= 4 && o.code <= 7 {
			retFree = false
		}
		if o.code == 1 || o.code == 2 {
			// a compaction into L1 runs L0 retention when enabled
			for _, x := range o.args {
				if l0r, ok := x.([]tval); ok && l0r != nil && o.args[0].(int64) == 1 && o.status == 0 {
					retFree = false
				}
			}
		}
		if o.code == 5 && !o.safe && uint64(o.args[1].(int64)) > S {
			unsafe = true
		}
		S = 0
		for _, f := range o.after.level(9) {
			if f.max > S {
				S = f.max
			}
		}
		if unsafe {
			break
		}
		b := func(v bool) Sx { return B(v) }
		cw.Add("store_inv_ok", L(U(o.pos), b(had), b(retFree), w.sxListing(o.after)), I(1),
			fmt.Sprintf("inv/retention_free=%v", retFree), len(o.after) > 3)
	}
	emitTS := func(pos uint64, l listing, qs []tsQuery) {
		if l == nil {
			return
		}
		ls := w.sxListing(l)
		sq := make(SxList, 0, len(qs))
		for _, q := range qs {
			sq = append(sq, L(w.cn.sx(q.T), I(int64(q.status)), w.sxPlan(q.plan)))
			end := uint64(0)
			if len(q.plan) > 0 {
				end = q.plan[len(q.plan)-1].max
			}
			cw.Add("store_ts_plan", L(ls, w.cn.sx(q.T)), L(I(int64(q.status)), U(end)), "ts-query/"+w.style, len(l) > 2)
		}
		cw.Add("store_ts_ok", L(U(pos), ls, sq), I(1), "ts-oracle/"+w.style, len(qs) > 3)
		if w.style == "real" {
			// the hypothesis of ts_exact (ts_hyp) on the real listing, with the harness's record of when
			// each TXID was replicated: must hold for every file the real code stamped
			st := make(SxList, 0, pos)
			for n := uint64(1); n <= pos; n++ {
				if rt, ok := w.repl[n]; ok {
					st = append(st, L(U(n), w.cn.sx(rt)))
				}
			}
			cw.Add("store_ts_hyp_ok", L(U(pos), ls, st), I(1), "ts-hypothesis/real", len(l) > 2)
		}
	}
	emitTS(res.prePos, res.preL, res.preQ)
	emitTS(res.midPos, res.midL, res.midQ)
	emitTS(res.tsPos, res.tsL, res.tsQ)
}

// initRet: RetentionEnabled at the start of the history (w.ret is toggled by setret ops).
func (w *World) initRet() bool {
	r := w.ret
	for _, o := range w.ops {
		if o.code == 8 {
			r = !r
		}
	}
	return r
}

func main() {
	slog.SetDefault(QuietLogger())
	fl := flag.NewFlagSet("store", flag.ContinueOnError)
	out := fl.String("out", "", "work directory")
	n := fl.Int("n", 20, "number of histories")
	steps := fl.Int("steps", 34, "operations per history")
	seed := fl.Int64("seed", 1, "PRNG seed")
	only := fl.Int("only", -1, "run only the history with this index (replay)")
	par := fl.Int("par", runtime.NumCPU(), "histories run in parallel")
	fl.StringVar(&focus, "focus", "c07", "c07 | c06 | c15")
	if err := fl.Parse(os.Args[1:]); err != nil {
		os.Exit(2)
	}
	if *out == "" {
		fmt.Fprintln(os.Stderr, "-out required")
		os.Exit(2)
	}
	cw, err := NewCaseWriter(filepath.Join(*out, "cases.txt"))
	if err != nil {
		fmt.Fprintln(os.Stderr, err)
		os.Exit(3)
	}
	base := filepath.Join(*out, "scratch")
	os.RemoveAll(base)
	os.MkdirAll(base, 0o755)
	defer os.RemoveAll(base)
	start := time.Now().Truncate(time.Millisecond)
	results := make([]result, *n)
	sem := make(chan struct{}, *par)
	var wg sync.WaitGroup
	for i := 0; i < *n; i++ {
		if *only >= 0 && i != *only {
			continue
		}
		wg.Add(1)
		sem <- struct{}{}
		go func(i int) {
			defer wg.Done()
			defer func() { <-sem }()
			rng := NewRand(*seed*1000003 + int64(i))
			dir := filepath.Join(base, fmt.Sprintf("h%d", i))
			os.MkdirAll(dir, 0o755)
			results[i] = runHistory(dir, rng, *steps, start, i)
			os.RemoveAll(dir)
		}(i)
	}
	wg.Wait()
	var violations []ImplViolation
	counts := map[string]int{}
	opCounts := map[string]int{}
	histories := 0
	if focus == "c07" && *only < 0 {
		vs, n := manyFilesRetention(base)
		violations = append(violations, vs...)
		counts["many_files_retention_listings"] = n
	}
	for i, res := range results {
		if *only >= 0 && i != *only {
			continue
		}
		if res.err != nil {
			violations = append(violations, ImplViolation{Signature: "harness/setup", Detail: res.err.Error()})
			continue
		}
		histories++
		for _, v := range res.w.violations {
			if m, ok := v.Replay.(map[string]any); ok {
				m["seed"], m["index"] = *seed, i
			}
			violations = append(violations, v)
		}
		for k, v := range res.w.counts {
			counts[k] += v
		}
		for _, t := range res.w.trace {
			opCounts[strings.SplitN(strings.SplitN(t, "(", 2)[0], "=", 2)[0]]++
		}
		if res.w.ret {
			counts["histories_ending_retention_enabled"]++
		}
		emit(cw, res)
	}
	cw.Close()
	st := cw.Stats()
	st.ImplViolations = violations
	st.Extra = map[string]any{"histories": histories, "oracle_counts": counts, "op_counts": opCounts}
	if err := WriteJSON(filepath.Join(*out, "stats.json"), st); err != nil {
		fmt.Fprintln(os.Stderr, err)
		os.Exit(3)
	}
}
