// Command conc: randomised N-goroutine stress of the daemon's operation set
// against one Store with live application writers (property C12), built with
// -race by lib/props/c12.py.  Per episode it checks, on the REAL code:
//
//   - every call returns within the watchdog timeout (deadlock / leaked lock),
//   - RegisterDB of one path from many goroutines leaves exactly one instance,
//   - after Store.Close the source database is free of litestream: no open
//     file descriptor below the episode directory, a TRUNCATE checkpoint from a
//     fresh connection is not blocked by a reader and a write succeeds at once,
//   - C01: restore(latest) equals the source, from the replica and from the
//     archived L0 chain,
//   - C02: every snapshot (level 9) that was ever published restores to the
//     state of the L0 chain at the TXID it advertises,
//   - (with the verifTrace hook) the recorded lock events, emitted as
//     `conc_trace_ok` cases for the extracted Coq monitor.
//
// Data races are reported by the race detector into GORACE's log_path and are
// picked up by the check.  A dedicated scenario replays the history of finding
// F9 (DESIGN §9).
package main

import (
	"bytes"
	"context"
	"crypto/sha256"
	"database/sql"
	"errors"
	"flag"
	"fmt"
	"io"
	"log/slog"
	"math/rand"
	"os"
	"path/filepath"
	"runtime"
	"sort"
	"strings"
	"sync"
	"sync/atomic"
	"time"

	"github.com/benbjohnson/litestream"
	"github.com/benbjohnson/litestream/file"
	"github.com/superfly/ltx"
	_ "modernc.org/sqlite"
	. "verifharness/hx"
)

// ---- violations ---------------------------------------------------------------

var (
	violMu sync.Mutex
	viols  []ImplViolation
)

func violate(sig, detail string, replay any) {
	violMu.Lock()
	defer violMu.Unlock()
	for _, v := range viols {
		if v.Signature == sig {
			return
		}
	}
	viols = append(viols, ImplViolation{Signature: sig, Detail: detail, Replay: replay})
}

// ---- tee client: archives every L0 file and every snapshot ever written -------

type teeClient struct {
	*file.ReplicaClient
	arc     *file.ReplicaClient // complete L0 chain (never subject to retention)
	snapDir string              // every snapshot stream ever uploaded: <n>-<seq>.ltx
	gateMu  sync.Mutex
	gate    chan struct{} // scenario queuedsync: the next level-0 upload waits here ...
	reached chan struct{} // ... after closing this
}

var teeSeq atomic.Int64

// progress is bumped whenever anything completes (a call, an upload, a listing):
// the watchdog only reports a call that is overdue while the whole process has
// been silent, so a long but advancing operation on a loaded machine is not a deadlock.
var progress atomic.Int64

// uploads of one snapshot name that overlapped in time (keyed by snapDir + TXID)
var (
	ovMu       sync.Mutex
	ovInflight = map[string]int{}
	ovSeen     = map[string]bool{}
	goodUpload = map[string]string{} // snapDir:TXID -> an uploaded stream of that position that restored correctly
	slowSnap   atomic.Bool           // scenario snapdup: a slow destination (1 ms per read)
)

type slowReader struct{ r io.Reader }

func (s slowReader) Read(p []byte) (int, error) {
	time.Sleep(time.Millisecond)
	if len(p) > 4096 {
		p = p[:4096]
	}
	return s.r.Read(p)
}

func overlapped(snapDir string, n ltx.TXID) bool {
	ovMu.Lock()
	defer ovMu.Unlock()
	return ovSeen[fmt.Sprintf("%s:%d", snapDir, uint64(n))]
}

func (c *teeClient) LTXFiles(ctx context.Context, level int, seek ltx.TXID, useMetadata bool) (ltx.FileIterator, error) {
	defer progress.Add(1)
	return c.ReplicaClient.LTXFiles(ctx, level, seek, useMetadata)
}

func (c *teeClient) WriteLTXFile(ctx context.Context, level int, minTXID, maxTXID ltx.TXID, rd io.Reader) (*ltx.FileInfo, error) {
	defer progress.Add(1)
	switch level {
	case 0:
		c.gateMu.Lock()
		gate, reached := c.gate, c.reached
		c.gate, c.reached = nil, nil
		c.gateMu.Unlock()
		if gate != nil {
			close(reached)
			select {
			case <-gate:
			case <-time.After(10 * time.Second):
			}
		}
		b, err := io.ReadAll(rd)
		if err != nil {
			return nil, err
		}
		if _, err := c.arc.WriteLTXFile(ctx, 0, minTXID, maxTXID, bytes.NewReader(b)); err != nil {
			return nil, fmt.Errorf("archive: %w", err)
		}
		return c.ReplicaClient.WriteLTXFile(ctx, level, minTXID, maxTXID, bytes.NewReader(b))
	case litestream.SnapshotLevel:
		seq := teeSeq.Add(1)
		key := fmt.Sprintf("%s:%d", c.snapDir, uint64(maxTXID))
		ovMu.Lock()
		ovInflight[key]++
		if ovInflight[key] > 1 {
			ovSeen[key] = true
		}
		ovMu.Unlock()
		defer func() { ovMu.Lock(); ovInflight[key]--; ovMu.Unlock() }()
		if slowSnap.Load() {
			rd = slowReader{rd}
		}
		tmp := filepath.Join(c.snapDir, fmt.Sprintf("tmp-%d", seq))
		f, err := os.Create(tmp)
		if err != nil {
			return nil, err
		}
		info, err := c.ReplicaClient.WriteLTXFile(ctx, level, minTXID, maxTXID, io.TeeReader(rd, f))
		_ = f.Close()
		if err != nil {
			_ = os.Remove(tmp)
			return info, err
		}
		_ = os.Rename(tmp, filepath.Join(c.snapDir, fmt.Sprintf("%d-%d.ltx", uint64(maxTXID), seq)))
		return info, nil
	}
	return c.ReplicaClient.WriteLTXFile(ctx, level, minTXID, maxTXID, rd)
}

// ---- episode --------------------------------------------------------------------

type cfg struct {
	Episode         int   `json:"episode"`
	Seed            int64 `json:"seed"`
	Goroutines      int   `json:"goroutines"`
	OpsPer          int   `json:"ops_per_goroutine"`
	Writers         int   `json:"writers"`
	Registrars      int   `json:"registrars"`
	MonitorMs       int   `json:"db_monitor_ms"`
	ReplicaMonitor  bool  `json:"replica_monitor"`
	StoreMonitors   bool  `json:"store_monitors"`
	MinCkptPages    int   `json:"min_checkpoint_pages"`
	TruncPages      int   `json:"truncate_pages"`
	CkptIntervalMs  int   `json:"checkpoint_interval_ms"`
	MaxSyncWALBytes int64 `json:"max_sync_wal_bytes"`
	CancelledClose  bool  `json:"close_with_cancelled_ctx"`
	PreRegister     bool  `json:"pre_register"`
	// Guarded: operations that (re)initialise a DB (Sync, Checkpoint, CRC64, SyncDB…)
	// never *start* on an instance whose Close has begun (harness RW lock). Free: no
	// such guard, exactly like the daemon's handlers (FindDB, IsOpen, then operate).
	Guarded bool `json:"guarded"`
}

type episode struct {
	c       cfg
	dir     string
	dbPath  string
	repDir  string
	arcDir  string
	snapDir string
	store   *litestream.Store
	app     *sql.DB
	opCount map[string]*atomic.Int64
	errCnt  atomic.Int64
	stop    atomic.Bool
	life    sync.RWMutex // see cfg.Guarded
	instMu  sync.Mutex
	insts   []*litestream.DB // every DB object ever created for the path
}

func (e *episode) guardInit() func() {
	if !e.c.Guarded {
		return func() {}
	}
	e.life.RLock()
	return e.life.RUnlock
}

func (e *episode) guardClose() func() {
	if !e.c.Guarded {
		return func() {}
	}
	e.life.Lock()
	return e.life.Unlock
}

var opNames = []string{
	"Sync", "SyncDB", "SyncDBWait", "ReplicaSync", "SyncAndWait",
	"CheckpointPassive", "CheckpointFull", "CheckpointRestart", "CheckpointTruncate",
	"Snapshot", "SnapshotReaderAbandon", "CompactL1", "CompactL2", "CompactDBSnapshot",
	"SnapshotRetention", "L0Retention", "RetentionByTXID",
	"Status", "SyncStatus", "CRC64", "Validate",
	"RegisterDB", "UnregisterDB", "DisableDB", "EnableDB",
}

func levels() litestream.CompactionLevels {
	return litestream.CompactionLevels{
		{Level: 0},
		{Level: 1, Interval: 40 * time.Millisecond},
		{Level: 2, Interval: 160 * time.Millisecond},
	}
}

func (e *episode) newDB() *litestream.DB {
	db := litestream.NewDB(e.dbPath)
	db.MonitorInterval = time.Duration(e.c.MonitorMs) * time.Millisecond
	db.MinCheckpointPageN = e.c.MinCkptPages
	db.TruncatePageN = e.c.TruncPages
	db.CheckpointInterval = time.Duration(e.c.CkptIntervalMs) * time.Millisecond
	db.MaxSyncWALBytes = e.c.MaxSyncWALBytes
	db.BusyTimeout = 2 * time.Second
	fc := file.NewReplicaClient(e.repDir)
	tc := &teeClient{ReplicaClient: fc, arc: file.NewReplicaClient(e.arcDir), snapDir: e.snapDir}
	db.Replica = litestream.NewReplicaWithClient(db, tc)
	db.Replica.MonitorEnabled = e.c.ReplicaMonitor
	db.Replica.SyncInterval = 15 * time.Millisecond
	fc.Replica = db.Replica
	e.instMu.Lock()
	e.insts = append(e.insts, db)
	e.instMu.Unlock()
	return db
}

// ---- watchdog -------------------------------------------------------------------

type inflight struct {
	name  string
	start time.Time
}

var (
	wdMu      sync.Mutex
	wdCalls   = map[int64]inflight{}
	wdSeq     int64
	wdTimeout = 60 * time.Second
	wdOutDir  string
	wdReplay  any
	wdCW      *CaseWriter
)

func call(name string, f func()) {
	wdMu.Lock()
	wdSeq++
	id := wdSeq
	wdCalls[id] = inflight{name, time.Now()}
	wdMu.Unlock()
	defer func() {
		wdMu.Lock()
		delete(wdCalls, id)
		wdMu.Unlock()
		progress.Add(1)
		if r := recover(); r != nil { // a panic of the code under test: report, keep going so the trace is judged
			msg := fmt.Sprint(r)
			if len(msg) > 120 {
				msg = msg[:120]
			}
			wdMu.Lock()
			rep := wdReplay
			wdMu.Unlock()
			violate("C12/panic-in-"+name+":"+msg, fmt.Sprintf("operation %s panicked: %v", name, r), rep)
		}
	}()
	f()
}

func watchdog(finish func()) {
	last, lastChange := progress.Load(), time.Now()
	for {
		time.Sleep(200 * time.Millisecond)
		if p := progress.Load(); p != last {
			last, lastChange = p, time.Now()
		}
		silent := time.Since(lastChange) > wdTimeout/3
		wdMu.Lock()
		var stuck []string
		for _, c := range wdCalls {
			if age := time.Since(c.start); (age > wdTimeout && silent) || age > 8*wdTimeout {
				stuck = append(stuck, c.name)
			}
		}
		rep := wdReplay
		wdMu.Unlock()
		if len(stuck) > 0 {
			sort.Strings(stuck)
			buf := make([]byte, 8<<20)
			n := runtime.Stack(buf, true)
			p := filepath.Join(wdOutDir, "deadlock-goroutines.txt")
			_ = os.WriteFile(p, buf[:n], 0o644)
			violate("C12/call-did-not-return:"+stuck[0],
				fmt.Sprintf("operation(s) %v did not return within %s while no call, upload or listing completed anywhere in the process for %s (deadlock or leaked lock); goroutine dump in %s", stuck, wdTimeout, wdTimeout/3, p),
				rep)
			if wdCW != nil {
				emitTrace(wdCW, "watchdog") // what was recorded up to the deadlock is judged too
			}
			finish()
			os.Exit(0)
		}
	}
}

// ---- application side -----------------------------------------------------------

func openApp(path string, conns int) (*sql.DB, error) {
	dsn := fmt.Sprintf("file:%s?_pragma=busy_timeout(10000)&_pragma=journal_mode(wal)&_pragma=wal_autocheckpoint(0)&_pragma=synchronous(off)", path)
	d, err := sql.Open("sqlite", dsn)
	if err != nil {
		return nil, err
	}
	d.SetMaxOpenConns(conns)
	return d, nil
}

func (e *episode) writer(id int, seed int64, wg *sync.WaitGroup, nWrites *atomic.Int64) {
	defer wg.Done()
	r := rand.New(rand.NewSource(seed))
	for !e.stop.Load() {
		tx, err := e.app.Begin()
		if err != nil {
			time.Sleep(time.Millisecond)
			continue
		}
		k := 1 + r.Intn(3)
		ok := true
		for i := 0; i < k && ok; i++ {
			b := make([]byte, 50+r.Intn(2500))
			r.Read(b)
			switch r.Intn(6) {
			case 0, 1, 2:
				_, err = tx.Exec(`INSERT INTO t(w, v) VALUES (?, ?)`, id, b)
			case 3, 4:
				_, err = tx.Exec(`UPDATE t SET v = ? WHERE id = (SELECT id FROM t ORDER BY random() LIMIT 1)`, b)
			default:
				_, err = tx.Exec(`DELETE FROM t WHERE id = (SELECT id FROM t ORDER BY random() LIMIT 1)`)
			}
			ok = err == nil
		}
		if ok && r.Intn(10) != 0 {
			if tx.Commit() == nil {
				nWrites.Add(1)
			}
		} else {
			_ = tx.Rollback()
		}
		time.Sleep(time.Duration(r.Intn(3000)) * time.Microsecond)
	}
}

// ---- the operation set ------------------------------------------------------------

func (e *episode) opCtx(r *rand.Rand) (context.Context, context.CancelFunc) {
	switch r.Intn(12) {
	case 0: // already cancelled
		ctx, cancel := context.WithCancel(context.Background())
		cancel()
		return ctx, cancel
	case 1:
		return context.WithTimeout(context.Background(), time.Duration(1+r.Intn(5))*time.Millisecond)
	default:
		return context.WithTimeout(context.Background(), 20*time.Second)
	}
}

func (e *episode) count(name string) { e.opCount[name].Add(1) }

// doOp mimics the daemon: look the database up in the store (as the socket
// handlers and monitors do), then operate on it.
func (e *episode) doOp(r *rand.Rand) {
	ctx, cancel := e.opCtx(r)
	defer cancel()
	name := ""
	var err error
	x := r.Intn(100)
	switch {
	case x < 17 || (x >= 24 && x < 40) || x == 82: // Sync*, SyncDB*, SyncAndWait, Checkpoint*, CRC64
		defer e.guardInit()()
	case x >= 89 && x < 95: // UnregisterDB, DisableDB
		defer e.guardClose()()
	}
	db := e.store.FindDB(e.dbPath)
	switch {
	case x < 10:
		name = "Sync"
		if db != nil {
			call(name, func() { err = db.Sync(ctx) })
		}
	case x < 14:
		name = "SyncDB"
		call(name, func() { _, err = e.store.SyncDB(ctx, e.dbPath, false) })
	case x < 17:
		name = "SyncDBWait"
		call(name, func() { _, err = e.store.SyncDB(ctx, e.dbPath, true) })
	case x < 24:
		name = "ReplicaSync"
		if db != nil {
			call(name, func() { err = db.Replica.Sync(ctx) })
		}
	case x < 27:
		name = "SyncAndWait"
		if db != nil {
			call(name, func() { err = db.SyncAndWait(ctx) })
		}
	case x < 33:
		name = "CheckpointPassive"
		if db != nil {
			call(name, func() { err = db.Checkpoint(ctx, litestream.CheckpointModePassive) })
		}
	case x < 35:
		name = "CheckpointFull"
		if db != nil {
			call(name, func() { err = db.Checkpoint(ctx, litestream.CheckpointModeFull) })
		}
	case x < 37:
		name = "CheckpointRestart"
		if db != nil {
			call(name, func() { err = db.Checkpoint(ctx, litestream.CheckpointModeRestart) })
		}
	case x < 40:
		name = "CheckpointTruncate"
		if db != nil {
			call(name, func() { err = db.Checkpoint(ctx, litestream.CheckpointModeTruncate) })
		}
	case x < 50:
		name = "Snapshot"
		if db != nil {
			call(name, func() { _, err = db.Snapshot(ctx) })
		}
	case x < 52:
		name = "SnapshotReaderAbandon"
		if db != nil {
			call(name, func() {
				var rc io.ReadCloser
				_, rc, err = db.SnapshotReader(ctx)
				if err == nil {
					buf := make([]byte, 1+r.Intn(8192))
					_, _ = io.ReadFull(rc, buf)
					_ = rc.Close()
				}
			})
		}
	case x < 58:
		name = "CompactL1"
		if db != nil {
			if r.Intn(2) == 0 {
				call(name, func() { _, err = db.Compact(ctx, 1) })
			} else {
				call(name, func() { _, err = e.store.CompactDB(ctx, db, levels()[1]) })
			}
		}
	case x < 61:
		name = "CompactL2"
		if db != nil {
			call(name, func() { _, err = e.store.CompactDB(ctx, db, levels()[2]) })
		}
	case x < 64:
		name = "CompactDBSnapshot"
		if db != nil {
			call(name, func() { _, err = e.store.CompactDB(ctx, db, e.store.SnapshotLevel()) })
		}
	case x < 67:
		name = "SnapshotRetention"
		if db != nil {
			call(name, func() { err = e.store.EnforceSnapshotRetention(ctx, db) })
		}
	case x < 70:
		name = "L0Retention"
		if db != nil {
			call(name, func() { err = db.EnforceL0RetentionByTime(ctx) })
		}
	case x < 72:
		name = "RetentionByTXID"
		if db != nil {
			call(name, func() {
				// DB.EnforceRetentionByTXID deletes the files of a level that lie wholly below txID
				// (keeping the newest); its callers (Store.EnforceSnapshotRetention) pass a TXID that a
				// retained snapshot covers. An arbitrary TXID legitimately makes the replica
				// unrestorable, so the floor used here is the newest published snapshot's position.
				var t ltx.TXID
				if info, e := db.MaxLTXFileInfo(ctx, litestream.SnapshotLevel); e == nil {
					t = info.MaxTXID
				}
				if t > 0 {
					err = db.EnforceRetentionByTXID(ctx, 1, t)
				}
			})
		}
	case x < 79:
		name = "Status"
		call(name, func() {
			for _, d := range e.store.DBs() {
				_ = d.IsOpen()
				_, _ = d.Pos()
				_ = d.SyncDiagnostic()
				_, _, _ = d.MaxLTX()
				_ = d.PageSize()
				_ = d.Replica.Pos()
				_ = d.LastSuccessfulSyncAt()
				_ = d.Notify()
			}
		})
	case x < 82:
		name = "SyncStatus"
		if db != nil {
			call(name, func() { _, err = db.SyncStatus(ctx) })
		}
	case x < 83:
		name = "CRC64"
		if db != nil {
			call(name, func() { _, _, err = db.CRC64(ctx) })
		}
	case x < 84:
		name = "Validate"
		call(name, func() { _, err = e.store.Validate(ctx) })
	case x < 89:
		name = "RegisterDB"
		nd := e.newDB()
		call(name, func() { err = e.store.RegisterDB(nd) })
	case x < 92:
		name = "UnregisterDB"
		call(name, func() { err = e.store.UnregisterDB(ctx, e.dbPath) })
	case x < 95:
		name = "DisableDB"
		call(name, func() { err = e.store.DisableDB(ctx, e.dbPath) })
	default:
		name = "EnableDB"
		call(name, func() { err = e.store.EnableDB(ctx, e.dbPath) })
	}
	e.count(name)
	if err != nil {
		e.errCnt.Add(1)
	}
}

// ---- oracles ----------------------------------------------------------------------

func pageDigests(path string) (pageSize int, ds [][32]byte, err error) {
	b, err := os.ReadFile(path)
	if err != nil {
		return 0, nil, err
	}
	if len(b) < 100 {
		return 0, nil, fmt.Errorf("short database file (%d bytes)", len(b))
	}
	ps := int(b[16])<<8 | int(b[17])
	if ps == 1 {
		ps = 65536
	}
	if ps < 512 {
		return 0, nil, fmt.Errorf("bad page size %d", ps)
	}
	for off := 0; off+ps <= len(b); off += ps {
		ds = append(ds, sha256.Sum256(b[off:off+ps]))
	}
	return ps, ds, nil
}

func diffPages(a, b [][32]byte) []int {
	var out []int
	n := len(a)
	if len(b) > n {
		n = len(b)
	}
	for i := 0; i < n; i++ {
		if i >= len(a) || i >= len(b) || a[i] != b[i] {
			out = append(out, i+1)
		}
	}
	return out
}

func restore(repDir, out string, txid ltx.TXID) error {
	_ = os.Remove(out)
	c := file.NewReplicaClient(repDir)
	r := litestream.NewReplicaWithClient(nil, c)
	opt := litestream.NewRestoreOptions()
	opt.OutputPath = out
	opt.TXID = txid
	ctx, cancel := context.WithTimeout(context.Background(), 60*time.Second)
	defer cancel()
	return r.Restore(ctx, opt)
}

// topUpLocalTail copies the local L0 files that continue the archived chain into the
// archive and the replica; returns how many there were.
func (e *episode) topUpLocalTail() int {
	maxOf := func(dir string) ltx.TXID {
		var m ltx.TXID
		ents, _ := os.ReadDir(dir)
		for _, ent := range ents {
			if _, mx, err := ltx.ParseFilename(ent.Name()); err == nil && mx > m {
				m = mx
			}
		}
		return m
	}
	arc0 := filepath.Join(e.arcDir, "ltx", "0")
	local := filepath.Join(filepath.Dir(e.dbPath), "."+filepath.Base(e.dbPath)+litestream.MetaDirSuffix, "ltx", "0")
	n := 0
	for next := maxOf(arc0) + 1; ; next++ {
		name := ltx.FormatFilename(next, next)
		b, err := os.ReadFile(filepath.Join(local, name))
		if err != nil {
			return n
		}
		for _, d := range []string{arc0, filepath.Join(e.repDir, "ltx", "0")} {
			_ = os.MkdirAll(d, 0o755)
			_ = os.WriteFile(filepath.Join(d, name), b, 0o644)
		}
		n++
	}
}

const sigF9b = "C12/F9b:snapshot-after-failed-checkpoint-does-not-match-its-position:" // + mode of that checkpoint

// ltxWALRange decodes the WAL salts and range recorded in an LTX file's header.
func ltxWALRange(path string) (salt1, salt2 uint32, off, size int64, ok bool) {
	f, err := os.Open(path)
	if err != nil {
		return
	}
	defer f.Close()
	dec := ltx.NewDecoder(f)
	if dec.DecodeHeader() != nil {
		return
	}
	h := dec.Header()
	return h.WALSalt1, h.WALSalt2, h.WALOffset, h.WALSize, true
}

func fdsUnder(dir string) []string {
	ents, _ := os.ReadDir("/proc/self/fd")
	var out []string
	for _, ent := range ents {
		t, err := os.Readlink("/proc/self/fd/" + ent.Name())
		if err == nil && strings.HasPrefix(t, dir) {
			out = append(out, strings.TrimPrefix(t, dir))
		}
	}
	sort.Strings(out)
	return out
}

// snapshotOracle: each snapshot file restores to the L0-chain state at its TXID.
// Returns (checked, differing-pages of the first bad one).
func snapshotOracle(label string, files map[string]ltx.TXID, arcDir, scratch string, rep any, sigPrefix string, good map[ltx.TXID]int, snapDir string) (checked int) {
	names := make([]string, 0, len(files))
	for p := range files {
		names = append(names, p)
	}
	sort.Strings(names)
	refCache := map[ltx.TXID][][32]byte{}
	for _, p := range names {
		n := files[p]
		one := filepath.Join(scratch, "one")
		_ = os.RemoveAll(one)
		_ = os.MkdirAll(filepath.Join(one, "ltx", "9"), 0o755)
		b, err := os.ReadFile(p)
		if err != nil {
			continue
		}
		_ = os.WriteFile(filepath.Join(one, "ltx", "9", ltx.FormatFilename(1, n)), b, 0o644)
		outA := filepath.Join(scratch, "snap.db")
		if err := restore(one, outA, n); err != nil {
			if label == "published" && overlapped(snapDir, n) {
				// two uploads of this position overlapped in time and every stream that was
				// uploaded completely was a correct snapshot: the file client stages both under
				// the same "<final>.tmp" name (O_TRUNC), so concurrent uploads overwrite each other.
				violate(sigPrefix+"concurrent-snapshots-of-one-position-publish-corrupt-file",
					fmt.Sprintf("published snapshot 1..%d (%s) cannot be restored (%v) although the %d completely uploaded snapshot stream(s) for TXID %d were correct and two uploads overlapped: "+
						"concurrent DB.Snapshot calls at one position share the staging file name in file.ReplicaClient.WriteLTXFile", n, filepath.Base(p), err, good[n], n), rep)
				continue
			}
			violate(sigPrefix+"snapshot-does-not-restore",
				fmt.Sprintf("%s snapshot 1..%d (%s) cannot be restored: %v", label, n, filepath.Base(p), err), rep)
			continue
		}
		ref, ok := refCache[n]
		if !ok {
			outB := filepath.Join(scratch, "chain.db")
			if err := restore(arcDir, outB, n); err != nil {
				violate(sigPrefix+"l0-chain-does-not-restore",
					fmt.Sprintf("archived L0 chain cannot be restored at TXID %d: %v", n, err), rep)
				continue
			}
			_, ref, _ = pageDigests(outB)
			refCache[n] = ref
		}
		_, got, _ := pageDigests(outA)
		checked++
		if d := diffPages(got, ref); len(d) > 0 {
			sig := sigPrefix + "snapshot-differs-from-l0-chain-at-its-txid"
			extra := ""
			// shape F9b: the snapshot's header names another WAL generation than the L0 file of
			// the position it advertises: it was built from a restarted WAL that litestream had
			// not copied yet, read up to the stale synced offset of the previous generation
			if ss1, ss2, _, ssz, ok := ltxWALRange(p); ok {
				if ls1, ls2, lo, lsz, ok := ltxWALRange(filepath.Join(arcDir, "ltx", "0", ltx.FormatFilename(n, n))); ok && (ss1 != ls1 || ss2 != ls2) {
					if sigPrefix == "C12/" {
						sig = sigF9b + snapMode(uint64(n))
					}
					extra = fmt.Sprintf("; the snapshot was read from WAL generation %08x/%08x (%d bytes of it) while L0 %d ends at offset %d of generation %08x/%08x", ss1, ss2, ssz, uint64(n), lo+lsz, ls1, ls2)
				}
			}
			violate(sig,
				fmt.Sprintf("%s snapshot 1..%d (%s) differs from Restore(TXID=%d) of the L0 chain on %d page(s), first %v",
					label, n, filepath.Base(p), n, len(d), d[:min(len(d), 8)])+extra, rep)
		} else if label == "uploaded" {
			good[n]++
			ovMu.Lock()
			goodUpload[fmt.Sprintf("%s:%d", snapDir, uint64(n))] = p
			ovMu.Unlock()
		}
	}
	return checked
}

func snapshotFiles(dir string, archived bool) map[string]ltx.TXID {
	out := map[string]ltx.TXID{}
	ents, _ := os.ReadDir(dir)
	for _, ent := range ents {
		if archived {
			var n, seq uint64
			if _, err := fmt.Sscanf(ent.Name(), "%d-%d.ltx", &n, &seq); err == nil {
				out[filepath.Join(dir, ent.Name())] = ltx.TXID(n)
			}
		} else if _, max, err := ltx.ParseFilename(ent.Name()); err == nil {
			out[filepath.Join(dir, ent.Name())] = max
		}
	}
	return out
}

// ---- one episode ------------------------------------------------------------------

type epResult struct {
	Cfg          cfg              `json:"cfg"`
	Ops          map[string]int64 `json:"ops"`
	Errors       int64            `json:"op_errors"`
	Writes       int64            `json:"app_commits"`
	FinalTXID    uint64           `json:"final_txid"`
	Snapshots    int              `json:"snapshots_checked"`
	RegisterN    int              `json:"instances_after_concurrent_register"`
	TraceEvents  int              `json:"trace_events"`
	Reinit       int              `json:"closed_instances_reinitialised"`
	SnapRepaired int              `json:"corrupt_published_snapshots_replaced_by_good_upload"`
	LocalTail    int              `json:"local_only_l0_files_after_close"`
	SnapSetAside int              `json:"corrupt_published_snapshots_set_aside"`
	Ms           int64            `json:"ms"`
}

var (
	smallEpisodes bool
	episodeTime   time.Duration
)

func randCfg(seed int64, k int) cfg {
	r := rand.New(rand.NewSource(seed*1000003 + int64(k)))
	c := cfg{Episode: k, Seed: seed}
	c.Goroutines = 4 + r.Intn(9)
	c.OpsPer = 6 + r.Intn(10)
	c.Writers = 1 + r.Intn(3)
	c.Registrars = 2 + r.Intn(10)
	if smallEpisodes {
		c.Goroutines = 3 + r.Intn(4)
		c.OpsPer = 4 + r.Intn(5)
		c.Writers = 1 + r.Intn(2)
		c.Registrars = 2 + r.Intn(5)
	}
	c.MonitorMs = []int{0, 0, 1000, 10}[r.Intn(4)]
	c.ReplicaMonitor = r.Intn(3) == 0
	c.StoreMonitors = r.Intn(2) == 0
	c.MinCkptPages = []int{5, 20, 100, 1000}[r.Intn(4)]
	c.TruncPages = []int{0, 40, 200}[r.Intn(3)]
	c.CkptIntervalMs = []int{0, 20, 60000}[r.Intn(3)]
	c.MaxSyncWALBytes = []int64{0, 0, 1, 9000}[r.Intn(4)]
	c.CancelledClose = r.Intn(3) == 0
	c.PreRegister = r.Intn(2) == 0
	c.Guarded = k%3 != 2
	if !c.PreRegister && c.MonitorMs == 10 {
		c.MonitorMs = 1000 // duplicates of a concurrent registration keep the daemon's default
	}
	return c
}

func nViols() int {
	violMu.Lock()
	defer violMu.Unlock()
	return len(viols)
}

func runEpisode(c cfg, out string, cw *CaseWriter) (res epResult, err error) {
	t0 := time.Now()
	viols0 := nViols()
	res.Cfg = c
	rep := map[string]any{"how": "harness conc -seed S -only K", "seed": c.Seed, "episode": c.Episode, "cfg": c}
	wdMu.Lock()
	wdReplay = rep
	wdMu.Unlock()
	e := &episode{c: c, opCount: map[string]*atomic.Int64{}}
	for _, n := range opNames {
		e.opCount[n] = new(atomic.Int64)
	}
	e.dir = filepath.Join(out, fmt.Sprintf("ep%03d", c.Episode)) + "/"
	_ = os.RemoveAll(e.dir)
	e.dbPath = filepath.Join(e.dir, "src", "db.sqlite")
	e.repDir = filepath.Join(e.dir, "rep")
	e.arcDir = filepath.Join(e.dir, "arc")
	e.snapDir = filepath.Join(e.dir, "snaps")
	for _, d := range []string{filepath.Dir(e.dbPath), e.repDir, e.arcDir, e.snapDir, filepath.Join(e.dir, "scratch")} {
		if err := os.MkdirAll(d, 0o755); err != nil {
			return res, err
		}
	}
	traceReset()

	// application
	e.app, err = openApp(e.dbPath, c.Writers+2)
	if err != nil {
		return res, err
	}
	if _, err = e.app.Exec(`CREATE TABLE t(id INTEGER PRIMARY KEY, w INTEGER, v BLOB)`); err != nil {
		return res, err
	}
	r := rand.New(rand.NewSource(c.Seed*7919 + int64(c.Episode)))
	for i := 0; i < 30; i++ {
		b := make([]byte, 1500)
		r.Read(b)
		if _, err = e.app.Exec(`INSERT INTO t(w, v) VALUES (0, ?)`, b); err != nil {
			return res, err
		}
	}

	// store
	e.store = litestream.NewStore(nil, levels())
	e.store.CompactionMonitorEnabled = c.StoreMonitors
	e.store.SnapshotInterval = 120 * time.Millisecond
	e.store.SnapshotRetention = 400 * time.Millisecond
	e.store.L0Retention = 150 * time.Millisecond
	e.store.L0RetentionCheckInterval = 50 * time.Millisecond
	if !c.StoreMonitors {
		e.store.L0RetentionCheckInterval = 0
	}
	e.store.ShutdownSyncTimeout = 0
	e.store.Logger = QuietLogger()
	if err = e.store.Open(context.Background()); err != nil {
		return res, err
	}

	var nWrites atomic.Int64
	var wwg sync.WaitGroup
	for i := 0; i < c.Writers; i++ {
		wwg.Add(1)
		go e.writer(i+1, r.Int63(), &wwg, &nWrites)
	}

	// phase 1: concurrent registration of one path
	if c.PreRegister {
		d := e.newDB()
		call("RegisterDB", func() { err = e.store.RegisterDB(d) })
		if err != nil {
			return res, fmt.Errorf("register: %w", err)
		}
	}
	var rwg sync.WaitGroup
	start := make(chan struct{})
	for i := 0; i < c.Registrars; i++ {
		d := e.newDB()
		d.MonitorInterval = time.Second
		if c.MonitorMs == 0 {
			d.MonitorInterval = 0
		}
		rwg.Add(1)
		go func() {
			defer rwg.Done()
			<-start
			call("RegisterDB", func() {
				if err := e.store.RegisterDB(d); err != nil {
					e.errCnt.Add(1)
				}
			})
		}()
	}
	close(start)
	rwg.Wait()
	inst := 0
	for _, d := range e.store.DBs() {
		if d.Path() == e.dbPath {
			inst++
		}
	}
	res.RegisterN = inst
	if inst != 1 {
		violate("C12/register-same-path-not-exactly-one-instance",
			fmt.Sprintf("%d goroutines registered %s concurrently (pre-registered=%v): the store manages %d instances of it",
				c.Registrars, "db.sqlite", c.PreRegister, inst), rep)
	}

	// phase 2: the stress
	var owg sync.WaitGroup
	for g := 0; g < c.Goroutines; g++ {
		gr := rand.New(rand.NewSource(r.Int63()))
		owg.Add(1)
		go func() {
			defer owg.Done()
			for i := 0; i < c.OpsPer; i++ {
				if episodeTime > 0 && time.Since(t0) > episodeTime {
					return
				}
				e.doOp(gr)
				if gr.Intn(3) == 0 {
					time.Sleep(time.Duration(gr.Intn(4000)) * time.Microsecond)
				}
			}
		}()
	}
	owg.Wait()
	e.stop.Store(true)
	wwg.Wait()
	res.Writes = nWrites.Load()

	// A closed instance that a late Sync re-initialised (known finding, free episodes) holds a
	// read transaction that really persists since beb697d: it would starve the TRUNCATE
	// checkpoints of the final sync. Report it now and close the leaked objects.
	earlyReinit := 0
	if !c.Guarded {
		for _, d := range e.insts {
			if h, f, rtx, opened := d.VerifConcHandles(); !opened && (h || f || rtx) {
				earlyReinit++
				dd := d
				call("DBCloseLeaked", func() { _ = dd.Close(context.Background()) })
			}
		}
	}

	// phase 3: settle, acknowledge, close
	if d := e.store.FindDB(e.dbPath); d == nil {
		nd := e.newDB()
		call("RegisterDB", func() { err = e.store.RegisterDB(nd) })
		if err != nil {
			return res, fmt.Errorf("final register: %w", err)
		}
	} else if !d.IsOpen() {
		call("EnableDB", func() { err = e.store.EnableDB(context.Background(), e.dbPath) })
		if err != nil {
			return res, fmt.Errorf("final enable: %w", err)
		}
	}
	final := e.store.FindDB(e.dbPath)
	var ackErr error
	call("SyncAndWait", func() { ackErr = final.SyncAndWait(context.Background()) })
	// concurrent closers: Store.Close together with unregister/disable of the same path
	var cwg sync.WaitGroup
	var closeErr error
	cctx, ccancel := context.WithCancel(context.Background())
	if c.CancelledClose {
		ccancel()
	}
	cwg.Add(1)
	go func() {
		defer cwg.Done()
		call("StoreClose", func() { closeErr = e.store.Close(cctx) })
	}()
	if r.Intn(2) == 0 {
		cwg.Add(1)
		go func() {
			defer cwg.Done()
			call("DisableDB", func() { _ = e.store.DisableDB(cctx, e.dbPath) })
		}()
	}
	if r.Intn(2) == 0 {
		cwg.Add(1)
		go func() {
			defer cwg.Done()
			call("Status", func() {
				_ = final.SyncDiagnostic()
				_, _ = final.Pos()
				_ = final.IsOpen()
			})
		}()
	}
	cwg.Wait()
	ccancel()
	// a second Close of an already closed database must also complete
	call("DBCloseAgain", func() { _ = final.Close(context.Background()) })
	pos, _ := final.Pos()
	res.FinalTXID = uint64(pos.TXID)

	// lock trace -> cases for the Coq monitor
	res.TraceEvents = emitTrace(cw, fmt.Sprintf("ep%d", c.Episode))

	// phase 4: the source must be free of litestream
	_ = e.app.Close()
	// A DB object that is closed (not marked open) but holds a SQL handle, the
	// database file descriptor or the read transaction was re-initialised by an
	// operation that started after Close had completed (init() does not look at
	// db.opened): Store.SyncDB / the socket's /sync do FindDB + IsOpen + Sync.
	reinit := 0
	for _, d := range e.insts {
		h, f, rtx, opened := d.VerifConcHandles()
		if !opened && (h || f || rtx) {
			reinit++
		}
	}
	reinit += earlyReinit
	res.Reinit = reinit
	if reinit > 0 {
		violate("C12/closed-db-reinitialised-by-late-sync:read-lock-and-handles-leak",
			fmt.Sprintf("%d DB object(s) of %d are closed (opened=false, Close returned) yet hold a SQL handle / file descriptor / read transaction again: "+
				"a Sync, Checkpoint or CRC64 that passed FindDB+IsOpen before UnregisterDB/DisableDB/Close and acquired the executor after it "+
				"ran init() on the closed object; descriptors still open below the episode directory: %v. From then on two instances replicate one "+
				"database into one meta directory, so the remaining oracles of this episode are skipped.", reinit, len(e.insts), fdsUnder(e.dir)), rep)
		for _, d := range e.insts {
			_ = d.Close(context.Background())
		}
		res.Ops = map[string]int64{}
		for n, c := range e.opCount {
			res.Ops[n] = c.Load()
		}
		res.Errors = e.errCnt.Load()
		res.Ms = time.Since(t0).Milliseconds()
		return res, nil
	}
	if left := fdsUnder(e.dir); len(left) > 0 {
		violate("C12/open-handles-after-close",
			fmt.Sprintf("after Store.Close (and closing the application's connections) the process still holds %d descriptor(s) below the episode directory: %v",
				len(left), left[:min(len(left), 6)]), rep)
	}
	probe, perr := sql.Open("sqlite", "file:"+e.dbPath+"?_pragma=busy_timeout(0)")
	if perr != nil {
		return res, perr
	}
	probe.SetMaxOpenConns(1)
	var busy, nlog, nckpt int
	if err := probe.QueryRow(`PRAGMA wal_checkpoint(TRUNCATE)`).Scan(&busy, &nlog, &nckpt); err != nil || busy != 0 {
		violate("C12/source-still-locked-after-close",
			fmt.Sprintf("after Store.Close a TRUNCATE checkpoint from a fresh connection is blocked (busy=%d err=%v): a read transaction of litestream is still open", busy, err), rep)
	}
	_ = probe.Close()

	if !c.Guarded {
		// Free episodes let a late Sync re-initialise a closed instance (reported above when
		// it is still visible at the end); two instances may have replicated the database
		// for a while, so the restore oracles are only evaluated in guarded episodes.
		res.Ops = map[string]int64{}
		for n, c := range e.opCount {
			res.Ops[n] = c.Load()
		}
		res.Errors = e.errCnt.Load()
		res.Ms = time.Since(t0).Milliseconds()
		if nViols() == viols0 {
			_ = os.RemoveAll(e.dir)
		}
		return res, nil
	}
	// L0 files that exist only locally: a Close whose context was cancelled runs its final
	// sync but cannot upload. They are the unacknowledged tail of the chain; add them to the
	// replica and to the archive so that the oracles compare like with like. A Close that
	// reported success must not leave such a tail.
	if tail := e.topUpLocalTail(); tail > 0 {
		res.LocalTail = tail
		if !c.CancelledClose && closeErr == nil && ackErr == nil {
			violate("C12/close-succeeded-with-unuploaded-l0",
				fmt.Sprintf("Store.Close returned nil but %d local L0 file(s) above the replica's position were never uploaded", tail), rep)
		}
	}
	_, src, derr := pageDigests(e.dbPath)
	if derr != nil {
		return res, derr
	}
	sc := filepath.Join(e.dir, "scratch")
	// C02: snapshots
	good := map[ltx.TXID]int{}
	res.Snapshots = snapshotOracle("uploaded", snapshotFiles(e.snapDir, true), e.arcDir, sc, rep, "C12/", good, e.snapDir)
	res.Snapshots += snapshotOracle("published", snapshotFiles(filepath.Join(e.repDir, "ltx", "9"), false), e.arcDir, sc, rep, "C12/", good, e.snapDir)
	setAside := 0
	// published files corrupted by overlapping uploads are reported above (known finding);
	// repair or set them aside so that the C01 oracle below still judges the rest of the replica
	for p, n := range snapshotFiles(filepath.Join(e.repDir, "ltx", "9"), false) {
		if overlapped(e.snapDir, n) {
			one := filepath.Join(sc, "chk")
			_ = os.RemoveAll(one)
			_ = os.MkdirAll(filepath.Join(one, "ltx", "9"), 0o755)
			b, _ := os.ReadFile(p)
			_ = os.WriteFile(filepath.Join(one, "ltx", "9", filepath.Base(p)), b, 0o644)
			if restore(one, filepath.Join(sc, "chk.db"), n) != nil {
				// Retention may already have removed everything the snapshot covers, so the rest
				// of the replica can only be judged with a sound snapshot of the same position:
				// put a correctly uploaded stream of that TXID in its place when there is one.
				ovMu.Lock()
				g := goodUpload[fmt.Sprintf("%s:%d", e.snapDir, uint64(n))]
				ovMu.Unlock()
				if gb, err := os.ReadFile(g); g != "" && err == nil {
					_ = os.WriteFile(p, gb, 0o644)
					res.SnapRepaired++
				} else {
					_ = os.Remove(p)
					setAside++
				}
			}
		}
	}

	// C01 at the end
	ackOK := ackErr == nil && (closeErr == nil || c.CancelledClose)
	outL := filepath.Join(e.dir, "scratch", "latest.db")
	if ackErr != nil && strings.Contains(ackErr.Error(), "sync: invalid argument") {
		h, f, _, _ := final.VerifConcHandles()
		violate("C12/init-under-cancelled-context-leaves-db-half-initialised",
			fmt.Sprintf("SyncAndWait on the quiesced database fails with %q: SQL handle set=%v, file descriptor set=%v. init() stores db.db, then "+
				"setPersistWAL(ctx) fails under a cancelled/expired context and returns before the cleanup defer is installed; every later init() "+
				"returns early because db.db != nil, and sync() calls Stat on the nil *os.File", ackErr.Error(), h, f), rep)
	} else if ackErr != nil {
		violate("C12/final-sync-failed", fmt.Sprintf("SyncAndWait on the quiesced database failed after the stress: %v", ackErr), rep)
	}
	if err := restore(e.repDir, outL, 0); err != nil {
		// retention may already have removed what lay below a corrupt snapshot that had to be set
		// aside without a replacement: the planner then reports a missing or non-contiguous
		// range, which is the consequence already described by the corrupt-snapshot finding
		res.SnapSetAside = setAside
		if !(setAside > 0 && strings.Contains(err.Error(), "cannot calc restore plan")) {
			violate("C12/restore-latest-fails-after-stress", fmt.Sprintf("restore of the replica failed: %v", err), rep)
		}
	} else if ackOK {
		_, got, _ := pageDigests(outL)
		if d := diffPages(got, src); len(d) > 0 {
			violate("C12/restore-latest-differs-from-source",
				fmt.Sprintf("after an acknowledged SyncAndWait and Close, Restore(latest) differs from the source on %d page(s), first %v (source %d pages, restored %d)",
					len(d), d[:min(len(d), 8)], len(src), len(got)), rep)
		}
	}
	outA := filepath.Join(e.dir, "scratch", "latest-arc.db")
	if err := restore(e.arcDir, outA, 0); err != nil {
		violate("C12/l0-chain-does-not-restore", fmt.Sprintf("restore of the archived L0 chain failed: %v", err), rep)
	} else if ackOK {
		_, got, _ := pageDigests(outA)
		if d := diffPages(got, src); len(d) > 0 {
			violate("C12/l0-chain-differs-from-source",
				fmt.Sprintf("the complete L0 chain restores to a state differing from the source on %d page(s), first %v", len(d), d[:min(len(d), 8)]), rep)
		}
	}
	// write probe last (it modifies the source)
	probe, _ = sql.Open("sqlite", "file:"+e.dbPath+"?_pragma=busy_timeout(0)")
	if _, err := probe.Exec(`BEGIN EXCLUSIVE; INSERT INTO t(w, v) VALUES (-1, x'00'); COMMIT;`); err != nil {
		violate("C12/source-not-writable-after-close", fmt.Sprintf("BEGIN EXCLUSIVE + write from a fresh connection fails right after Close: %v", err), rep)
	}
	_ = probe.Close()

	res.Ops = map[string]int64{}
	for n, c := range e.opCount {
		res.Ops[n] = c.Load()
	}
	res.Errors = e.errCnt.Load()
	res.Ms = time.Since(t0).Milliseconds()
	if nViols() == viols0 {
		_ = os.RemoveAll(e.dir)
	}
	return res, nil
}

// ---- scenario F9 (DESIGN §9): snapshot between sync chunks after an offline backfill ----

func scenarioF9(out string) (detail string, err error) {
	dir := filepath.Join(out, "f9") + "/"
	_ = os.RemoveAll(dir)
	dbPath := filepath.Join(dir, "src", "db.sqlite")
	e := &episode{dir: dir, dbPath: dbPath, repDir: dir + "rep", arcDir: dir + "arc", snapDir: dir + "snaps",
		c: cfg{MinCkptPages: 100000, TruncPages: 0, CkptIntervalMs: 0}}
	for _, d := range []string{filepath.Dir(dbPath), e.repDir, e.arcDir, e.snapDir, dir + "scratch"} {
		_ = os.MkdirAll(d, 0o755)
	}
	app, err := openApp(dbPath, 2)
	if err != nil {
		return "", err
	}
	defer app.Close()
	if _, err = app.Exec(`CREATE TABLE t(id INTEGER PRIMARY KEY, w INTEGER, v BLOB)`); err != nil {
		return "", err
	}
	for i := 0; i < 60; i++ { // one row per page
		if _, err = app.Exec(`INSERT INTO t(w, v) VALUES (0, zeroblob(3000))`); err != nil {
			return "", err
		}
	}
	ctx := context.Background()
	db := e.newDB()
	db.MonitorInterval = 0
	if err = db.Open(); err != nil {
		return "", err
	}
	step := func(what string, f func() error) {
		if err == nil {
			if e := f(); e != nil {
				err = fmt.Errorf("%s: %w", what, e)
			}
		}
	}
	step("sync", func() error { return db.SyncAndWait(ctx) })
	step("checkpoint", func() error { return db.Checkpoint(ctx, litestream.CheckpointModePassive) })
	step("write", func() error { _, e := app.Exec(`UPDATE t SET w = 1 WHERE id = 1`); return e })
	step("sync", func() error { return db.SyncAndWait(ctx) })
	step("close", func() error { return db.Close(ctx) })
	for i := 1; i <= 60 && err == nil; i++ {
		_, err = app.Exec(`UPDATE t SET w = 2, v = randomblob(3000) WHERE id = ?`, i)
	}
	step("app checkpoint", func() error { _, e := app.Exec(`PRAGMA wal_checkpoint(PASSIVE)`); return e })
	if err != nil {
		return "", err
	}
	db2 := e.newDB()
	db2.MonitorInterval = 0
	db2.MaxSyncWALBytes = 1
	if err = db2.Open(); err != nil {
		return "", err
	}
	done := make(chan error, 1)
	go func() { done <- db2.Sync(ctx) }()
	nsnap := 0
loop:
	for {
		select {
		case err = <-done:
			break loop
		default:
			if _, e := db2.Snapshot(ctx); e == nil {
				nsnap++
			}
			time.Sleep(2 * time.Millisecond)
		}
	}
	if err != nil {
		return "", fmt.Errorf("chunked sync: %w", err)
	}
	step("replica sync", func() error { return db2.Replica.Sync(ctx) })
	step("close", func() error { return db2.Close(ctx) })
	if err != nil {
		return "", err
	}
	rep := map[string]any{"how": "harness conc -f9", "history": "sync; Checkpoint(PASSIVE); write; sync; Close; app updates 60 rows on 60 pages; app wal_checkpoint(PASSIVE); new DB MaxSyncWALBytes=1; Sync || Snapshot loop"}
	before := nViols()
	files := snapshotFiles(e.snapDir, true)
	if len(files) > 8 { // check eight of them, spread over the catch-up
		names := make([]string, 0, len(files))
		for p := range files {
			names = append(names, p)
		}
		sort.Slice(names, func(i, j int) bool { return files[names[i]] < files[names[j]] })
		keep := map[string]ltx.TXID{}
		for i := 0; i < 8; i++ {
			p := names[i*len(names)/8]
			keep[p] = files[p]
		}
		files = keep
	}
	n := snapshotOracle("uploaded", files, e.arcDir, dir+"scratch", rep, "C12/F9:sync-chunks-vs-snapshot-after-offline-backfill:", map[ltx.TXID]int{}, e.snapDir)
	detail = fmt.Sprintf("%d snapshots taken while a chunked sync was catching up, %d checked", nsnap, n)
	if nViols() == before {
		_ = os.RemoveAll(dir)
	}
	return detail, nil
}

// ---- scenario: concurrent snapshots of one position -------------------------------------------

func scenarioSnapDup(out string, rounds int) (detail string, err error) {
	dir := filepath.Join(out, "snapdup") + "/"
	_ = os.RemoveAll(dir)
	dbPath := filepath.Join(dir, "src", "db.sqlite")
	e := &episode{dir: dir, dbPath: dbPath, repDir: dir + "rep", arcDir: dir + "arc", snapDir: dir + "snaps",
		c: cfg{MinCkptPages: 100000}}
	for _, d := range []string{filepath.Dir(dbPath), e.repDir, e.arcDir, e.snapDir, dir + "scratch"} {
		_ = os.MkdirAll(d, 0o755)
	}
	app, err := openApp(dbPath, 2)
	if err != nil {
		return "", err
	}
	defer app.Close()
	if _, err = app.Exec(`CREATE TABLE t(id INTEGER PRIMARY KEY, w INTEGER, v BLOB)`); err != nil {
		return "", err
	}
	for i := 0; i < 150 && err == nil; i++ {
		_, err = app.Exec(`INSERT INTO t(w, v) VALUES (0, randomblob(3000))`)
	}
	if err != nil {
		return "", err
	}
	ctx := context.Background()
	db := e.newDB()
	if err = db.Open(); err != nil {
		return "", err
	}
	defer db.Close(ctx)
	rep := map[string]any{"how": "harness conc -snapdup", "history": "quiescent database, slow destination (1 ms per 4 KiB); Snapshot A (duration D) || Snapshot B started at 0.7 D with a context cancelled 0.5 D later; restore the published level-9 file alone"}
	before := nViols()
	bad := 0
	slowSnap.Store(true)
	defer slowSnap.Store(false)
	for k := 0; k < rounds; k++ {
		if _, err = app.Exec(`UPDATE t SET w = ? WHERE id = 1`, k); err != nil {
			return "", err
		}
		if err = db.SyncAndWait(ctx); err != nil {
			return "", err
		}
		// solo upload to measure the duration D of one (slow) snapshot upload
		t := time.Now()
		if _, err = db.Snapshot(ctx); err != nil {
			return "", err
		}
		d0 := time.Since(t)
		_ = os.RemoveAll(filepath.Join(e.repDir, "ltx", "9"))
		// A: complete upload. B: starts at 0.7 D (truncating the shared staging file while A
		// is writing), is cancelled 0.5 D later, i.e. after A has renamed the staging file.
		var wg sync.WaitGroup
		wg.Add(2)
		go func() { defer wg.Done(); _, _ = db.Snapshot(ctx) }()
		frac := []time.Duration{7, 8, 6, 9, 5}[k%5]
		time.Sleep(d0 * frac / 10)
		go func() {
			defer wg.Done()
			bctx, cancel := context.WithTimeout(ctx, d0/2)
			defer cancel()
			_, _ = db.Snapshot(bctx)
		}()
		wg.Wait()
		good := map[ltx.TXID]int{}
		snapshotOracle("uploaded", snapshotFiles(e.snapDir, true), e.arcDir, dir+"scratch", rep, "C12/", good, e.snapDir)
		snapshotOracle("published", snapshotFiles(filepath.Join(e.repDir, "ltx", "9"), false), e.arcDir, dir+"scratch", rep, "C12/", good, e.snapDir)
		if nViols() > before {
			bad = k + 1
			break
		}
		_ = os.RemoveAll(e.snapDir)
		_ = os.MkdirAll(e.snapDir, 0o755)
		_ = os.RemoveAll(filepath.Join(e.repDir, "ltx", "9"))
	}
	if bad == 0 {
		_ = os.RemoveAll(dir)
		return fmt.Sprintf("%d rounds of two overlapping snapshots (second one cancelled), all published files restore", rounds), nil
	}
	return fmt.Sprintf("round %d: two overlapping snapshots of one position (second one cancelled) left a corrupt published file", bad), nil
}

// ---- scenario: FULL checkpoint under a live writer, then a snapshot before the next sync ----------

func scenarioCkptSnap(out string, rounds int) (detail string, err error) {
	dir := filepath.Join(out, "ckptsnap") + "/"
	_ = os.RemoveAll(dir)
	dbPath := filepath.Join(dir, "src", "db.sqlite")
	e := &episode{dir: dir, dbPath: dbPath, repDir: dir + "rep", arcDir: dir + "arc", snapDir: dir + "snaps",
		c: cfg{MinCkptPages: 100000}, opCount: map[string]*atomic.Int64{}}
	for _, d := range []string{filepath.Dir(dbPath), e.repDir, e.arcDir, e.snapDir, dir + "scratch"} {
		_ = os.MkdirAll(d, 0o755)
	}
	e.app, err = openApp(dbPath, 5)
	if err != nil {
		return "", err
	}
	defer e.app.Close()
	if _, err = e.app.Exec(`CREATE TABLE t(id INTEGER PRIMARY KEY, w INTEGER, v BLOB)`); err != nil {
		return "", err
	}
	for i := 0; i < 40 && err == nil; i++ {
		_, err = e.app.Exec(`INSERT INTO t(w, v) VALUES (0, randomblob(3000))`)
	}
	if err != nil {
		return "", err
	}
	ctx := context.Background()
	db := e.newDB()
	db.MonitorInterval = 0
	if err = db.Open(); err != nil {
		return "", err
	}
	if err = db.SyncAndWait(ctx); err != nil {
		return "", err
	}
	// Three application writers commit continuously while DB.Checkpoint(FULL|RESTART) and
	// DB.Snapshot alternate without a sync in between. The defect needs one commit between the
	// checkpoint's copy-before sync and its PRAGMA (it is backfilled unsynced) and another
	// before the sequence bump (so the WAL is not restarted and the call returns without
	// copying): roughly one round in sixty. (Holding a write transaction open across the
	// PRAGMA is deterministic but takes the restart path, which 80a5b27 repaired.)
	if _, err = e.app.Exec(`CREATE TABLE marker(n INTEGER); INSERT INTO marker VALUES (0)`); err != nil {
		return "", err
	}
	if err = db.SyncAndWait(ctx); err != nil {
		return "", err
	}
	dbg := ckptDebugStart(dbPath)
	defer ckptDebugStop()
	var wwg sync.WaitGroup
	var nw atomic.Int64
	for w := 1; w <= 3; w++ {
		wwg.Add(1)
		go func(id int) { // every commit bumps the marker: the restored value tells the last commit contained
			defer wwg.Done()
			r := rand.New(rand.NewSource(int64(41 + id)))
			for !e.stop.Load() {
				tx, err := e.app.Begin()
				if err != nil {
					continue
				}
				for i, k := 0, 1+r.Intn(3); i < k && err == nil; i++ { // same statement mix as episode writers
					b := make([]byte, 50+r.Intn(2500))
					r.Read(b)
					switch r.Intn(6) {
					case 0, 1, 2:
						_, err = tx.Exec(`INSERT INTO t(w, v) VALUES (?, ?)`, id, b)
					case 3, 4:
						_, err = tx.Exec(`UPDATE t SET v = ? WHERE id = (SELECT id FROM t ORDER BY random() LIMIT 1)`, b)
					default:
						_, err = tx.Exec(`DELETE FROM t WHERE id = (SELECT id FROM t ORDER BY random() LIMIT 1)`)
					}
				}
				var n int64
				if err == nil {
					err = tx.QueryRow(`UPDATE marker SET n = n + 1 RETURNING n`).Scan(&n)
				}
				if err == nil && tx.Commit() == nil {
					nw.Add(1)
					if dbg {
						ckptDebugLog("commit", fmt.Sprintf("n=%d", n))
					}
				} else {
					_ = tx.Rollback()
				}
				time.Sleep(time.Duration(r.Intn(3000)) * time.Microsecond)
			}
		}(w)
	}
	nsnap, ncommit, ckptErrs := 0, 0, 0
	for k := 0; k < rounds; k++ {
		mode := litestream.CheckpointModeFull
		if k%2 == 1 {
			mode = litestream.CheckpointModeRestart
		}
		ckptDebugLog("op.checkpoint", mode)
		var cerr error
		call("Checkpoint"+mode, func() { cerr = db.Checkpoint(ctx, mode) })
		ckptDebugLog("op.checkpoint.ret", fmt.Sprintf("err=%v", cerr))
		if cerr != nil {
			ckptErrs++
		}
		ckptDebugLog("op.snapshot", "")
		call("Snapshot", func() {
			if info, e := db.Snapshot(ctx); e == nil {
				nsnap++
				ckptDebugLog("op.snapshot.ok", fmt.Sprintf("published=1..%d", uint64(info.MaxTXID)))
			}
		})
		ncommit++
	}
	e.stop.Store(true)
	wwg.Wait()
	var e1, e2 error
	call("SyncAndWait", func() { e1 = db.SyncAndWait(ctx) })
	call("DBClose", func() { e2 = db.Close(ctx) })
	if e1 != nil || e2 != nil {
		return "", fmt.Errorf("final sync/close: %v / %v", e1, e2)
	}
	rep := map[string]any{"how": "harness conc -ckptsnap N", "history": "three application writers committing continuously; loop: DB.Checkpoint(FULL|RESTART); DB.Snapshot (no sync in between); finally SyncAndWait; Close; every snapshot 1..n against Restore(TXID=n) of the L0 chain"}
	before := nViols()
	n := snapshotOracle("uploaded", snapshotFiles(e.snapDir, true), e.arcDir, dir+"scratch", rep, "C12/", map[ltx.TXID]int{}, e.snapDir)
	if nViols() == before {
		_ = os.RemoveAll(dir)
		return fmt.Sprintf("%d rounds of Checkpoint(FULL|RESTART)+Snapshot under three live writers (%d checkpoint calls returned an error, %d commits), %d snapshots, all equal to the L0 chain at their TXID", ncommit, ckptErrs, nw.Load(), n), nil
	}
	return fmt.Sprintf("%d rounds (%d checkpoint calls returned an error), %d commits, %d snapshots checked: a snapshot contains commits beyond the position it advertises", ncommit, ckptErrs, nw.Load(), n), nil
}

// ---- scenario: init under a cancelled context ---------------------------------------------------

func scenarioHalfInit(out string) (detail string, err error) {
	dir := filepath.Join(out, "halfinit") + "/"
	_ = os.RemoveAll(dir)
	dbPath := filepath.Join(dir, "src", "db.sqlite")
	e := &episode{dir: dir, dbPath: dbPath, repDir: dir + "rep", arcDir: dir + "arc", snapDir: dir + "snaps", c: cfg{MinCkptPages: 1000}}
	for _, d := range []string{filepath.Dir(dbPath), e.repDir, e.arcDir, e.snapDir} {
		_ = os.MkdirAll(d, 0o755)
	}
	app, err := openApp(dbPath, 2)
	if err != nil {
		return "", err
	}
	defer app.Close()
	if _, err = app.Exec(`CREATE TABLE t(id INTEGER PRIMARY KEY, w INTEGER, v BLOB)`); err != nil {
		return "", err
	}
	db := e.newDB()
	db.ShutdownSyncTimeout = 0
	if err = db.Open(); err != nil {
		return "", err
	}
	cctx, cancel := context.WithCancel(context.Background())
	cancel()
	// lockExec succeeds (TryAcquire), then init runs under the cancelled context
	rep := map[string]any{"how": "harness conc -halfinit", "history": "NewDB; Open; Checkpoint(ctx already cancelled); Sync(context.Background()); app write; SyncAndWait; Close; restore"}
	e1 := db.Checkpoint(cctx, litestream.CheckpointModePassive)
	e2 := db.Sync(context.Background())
	h, f, _, _ := db.VerifConcHandles()
	if e2 != nil {
		_ = db.Close(context.Background())
		if strings.Contains(e2.Error(), "invalid argument") || (h && !f) {
			violate("C12/init-under-cancelled-context-leaves-db-half-initialised",
				fmt.Sprintf("Open; Checkpoint(cancelled ctx) = %v; Sync(background) = %q; SQL handle set=%v, file descriptor set=%v: init() keeps db.db when "+
					"setPersistWAL fails, so the database never initialises again and every sync fails on the nil file", e1, e2.Error(), h, f), rep)
			return "reproduced: " + e2.Error(), nil
		}
		violate("C12/sync-fails-after-init-under-cancelled-context",
			fmt.Sprintf("Open; Checkpoint(cancelled ctx) = %v; Sync(background) = %q (sql=%v file=%v)", e1, e2.Error(), h, f), rep)
		return "later sync failed: " + e2.Error(), nil
	}
	// the later sync must also replicate: write, acknowledge, close, restore = source
	if _, err = app.Exec(`INSERT INTO t(w, v) VALUES (1, randomblob(2000))`); err != nil {
		return "", err
	}
	e3 := db.SyncAndWait(context.Background())
	pos, _ := db.Pos()
	e4 := db.Close(context.Background())
	_ = app.Close()
	if e3 != nil || e4 != nil || pos.TXID == 0 {
		violate("C12/sync-fails-after-init-under-cancelled-context",
			fmt.Sprintf("after Checkpoint(cancelled ctx) = %v and a successful Sync: SyncAndWait = %v, Close = %v, position %d", e1, e3, e4, pos.TXID), rep)
		return fmt.Sprintf("not replicating: %v / %v", e3, e4), nil
	}
	outL := filepath.Join(dir, "latest.db")
	if err := restore(e.repDir, outL, 0); err != nil {
		violate("C12/sync-fails-after-init-under-cancelled-context", fmt.Sprintf("restore after the recovered init failed: %v", err), rep)
		return "restore failed: " + err.Error(), nil
	}
	probe, _ := sql.Open("sqlite", "file:"+dbPath+"?_pragma=busy_timeout(0)")
	var busy, nlog, nckpt int
	perr := probe.QueryRow(`PRAGMA wal_checkpoint(TRUNCATE)`).Scan(&busy, &nlog, &nckpt)
	_ = probe.Close()
	if perr != nil || busy != 0 {
		violate("C12/source-still-locked-after-close", fmt.Sprintf("halfinit scenario: TRUNCATE checkpoint after Close blocked (busy=%d err=%v)", busy, perr), rep)
	}
	_, src, _ := pageDigests(dbPath)
	_, got, _ := pageDigests(outL)
	if d := diffPages(got, src); len(d) > 0 {
		violate("C12/restore-latest-differs-from-source", fmt.Sprintf("halfinit scenario: restore differs from the source on %d page(s)", len(d)), rep)
		return "restore differs", nil
	}
	_ = os.RemoveAll(dir)
	return fmt.Sprintf("passes: init under a cancelled context failed cleanly (%v); the next Sync initialised, replicated to TXID %d, restore = source", e1, pos.TXID), nil
}

// ---- scenario: the final Close after a late operation re-initialised a closed database (seed C12e) ----
//
// A Sync that passed its IsOpen check before Close and runs after it re-initialises the closed object
// (SQL handle, file descriptor, read transaction; the known finding closed-db-reinitialised-by-late-sync).
// The last line of defence is the Close every shutdown path still issues (Store.Close, UnregisterDB,
// DisableDB): it must release whatever such an operation acquired, whatever the opened flag says.
func scenarioLateClose(out string) (detail string, err error) {
	dir := filepath.Join(out, "lateclose") + "/"
	_ = os.RemoveAll(dir)
	dbPath := filepath.Join(dir, "src", "db.sqlite")
	e := &episode{dir: dir, dbPath: dbPath, repDir: dir + "rep", arcDir: dir + "arc", snapDir: dir + "snaps", c: cfg{MinCkptPages: 1000}}
	for _, d := range []string{filepath.Dir(dbPath), e.repDir, e.arcDir, e.snapDir} {
		_ = os.MkdirAll(d, 0o755)
	}
	app, err := openApp(dbPath, 2)
	if err != nil {
		return "", err
	}
	defer app.Close()
	if _, err = app.Exec(`CREATE TABLE t(id INTEGER PRIMARY KEY, w INTEGER, v BLOB)`); err != nil {
		return "", err
	}
	db := e.newDB()
	db.ShutdownSyncTimeout = 0
	if err = db.Open(); err != nil {
		return "", err
	}
	if _, err = app.Exec(`INSERT INTO t(w, v) VALUES (1, randomblob(2000))`); err != nil {
		return "", err
	}
	if err = db.SyncAndWait(context.Background()); err != nil {
		return "", err
	}
	rep := map[string]any{"how": "harness conc -halfinit", "history": "NewDB; Open; write; SyncAndWait; Close; Sync (late: re-initialises the closed object); Close; the source must be free of litestream"}
	e1 := db.Close(context.Background())
	if _, err = app.Exec(`INSERT INTO t(w, v) VALUES (2, randomblob(2000))`); err != nil {
		return "", err
	}
	e2 := db.Sync(context.Background())
	h, f, rtx, opened := db.VerifConcHandles()
	e3 := db.Close(context.Background())
	h2, f2, rtx2, _ := db.VerifConcHandles()
	_ = app.Close()
	if h2 || f2 || rtx2 {
		violate("C12/close-leaves-reinitialised-db-open",
			fmt.Sprintf("Close = %v; late Sync = %v re-initialised the closed object (sql=%v file=%v read-tx=%v opened=%v); the following Close = %v "+
				"left sql=%v file=%v read-tx=%v: litestream keeps its read lock and descriptors on the source after shutdown", e1, e2, h, f, rtx, opened, e3, h2, f2, rtx2), rep)
		return "leak after the final Close", nil
	}
	probe, _ := sql.Open("sqlite", "file:"+dbPath+"?_pragma=busy_timeout(0)")
	var busy, nlog, nckpt int
	perr := probe.QueryRow(`PRAGMA wal_checkpoint(TRUNCATE)`).Scan(&busy, &nlog, &nckpt)
	_ = probe.Close()
	if perr != nil || busy != 0 {
		violate("C12/source-still-locked-after-close", fmt.Sprintf("lateclose scenario: TRUNCATE checkpoint after the final Close blocked (busy=%d err=%v)", busy, perr), rep)
		return "source locked after the final Close", nil
	}
	_ = os.RemoveAll(dir)
	return fmt.Sprintf("passes: late Sync = %v re-initialised=%v; the final Close released everything", e2, h || f || rtx), nil
}

// ---- scenario: an acknowledging replica sync queued behind an upload pass that started before the
// newest level-0 file existed (seed C12d: queued callers coalesced with the pass that just finished) ----

func scenarioQueuedSync(out string) (detail string, err error) {
	dir := filepath.Join(out, "queuedsync") + "/"
	_ = os.RemoveAll(dir)
	dbPath := filepath.Join(dir, "src", "db.sqlite")
	e := &episode{dir: dir, dbPath: dbPath, repDir: dir + "rep", arcDir: dir + "arc", snapDir: dir + "snaps", c: cfg{MinCkptPages: 1000}}
	for _, d := range []string{filepath.Dir(dbPath), e.repDir, e.arcDir, e.snapDir} {
		_ = os.MkdirAll(d, 0o755)
	}
	app, err := openApp(dbPath, 2)
	if err != nil {
		return "", err
	}
	defer app.Close()
	if _, err = app.Exec(`CREATE TABLE t(id INTEGER PRIMARY KEY, w INTEGER, v BLOB)`); err != nil {
		return "", err
	}
	db := e.newDB()
	db.ShutdownSyncTimeout = 0
	if err = db.Open(); err != nil {
		return "", err
	}
	defer func() { _ = db.Close(context.Background()) }()
	ctx := context.Background()
	write := func() error {
		_, err := app.Exec(`INSERT INTO t(w, v) VALUES (1, randomblob(1500))`)
		return err
	}
	if err = write(); err != nil {
		return "", err
	}
	if err = db.SyncAndWait(ctx); err != nil {
		return "", err
	}
	rep := map[string]any{"how": "harness conc -queuedsync", "history": "write; SyncAndWait; write; Sync; Replica.Sync P (its level-0 upload held back); write; Sync; Replica.Sync W (queued behind P); P released; W returns nil: every level-0 file that existed before W was called must be on the replica"}
	tc := db.Replica.Client.(*teeClient)
	rounds, missed := 0, 0
	for round := 0; round < 4; round++ {
		if err = write(); err != nil {
			return "", err
		}
		if err = db.Sync(ctx); err != nil {
			return "", err
		}
		gate, reached := make(chan struct{}), make(chan struct{})
		tc.gateMu.Lock()
		tc.gate, tc.reached = gate, reached
		tc.gateMu.Unlock()
		pdone := make(chan error, 1)
		go func() { pdone <- db.Replica.Sync(ctx) }()
		select {
		case <-reached:
		case <-time.After(5 * time.Second):
			close(gate)
			<-pdone
			continue // the pass found nothing to upload: not the interleaving
		}
		if err = write(); err != nil {
			close(gate)
			return "", err
		}
		if err = db.Sync(ctx); err != nil {
			close(gate)
			return "", err
		}
		before, _ := db.Pos()
		wdone := make(chan error, 1)
		go func() { wdone <- db.Replica.Sync(ctx) }()
		time.Sleep(time.Duration(60+40*round) * time.Millisecond) // W is queued on the replica's sync lock by now
		close(gate)
		perr, werr := <-pdone, <-wdone
		rounds++
		if werr != nil {
			continue
		}
		var max ltx.TXID
		for _, lv := range []int{0, 1, 2, litestream.SnapshotLevel} {
			itr, lerr := tc.ReplicaClient.LTXFiles(ctx, lv, 0, false)
			if lerr != nil {
				continue
			}
			for itr.Next() {
				if m := itr.Item().MaxTXID; m > max {
					max = m
				}
			}
			_ = itr.Close()
		}
		if max < before.TXID {
			missed++
			violate("C12/acknowledged-sync-did-not-upload",
				fmt.Sprintf("round %d: Replica.Sync returned nil (the pass it queued behind returned %v) while the replica ends at TXID %d and the database was at TXID %d before the call", round, perr, uint64(max), uint64(before.TXID)), rep)
			break
		}
	}
	if missed > 0 {
		return "reproduced", nil
	}
	_ = os.RemoveAll(dir)
	return fmt.Sprintf("passes: %d rounds, every acknowledged queued sync uploaded what existed before it was called", rounds), nil
}

// ---- scenario: every operation once, sequentially (its lock trace is written out first) ----------

func scenarioBasic(out string) (detail string, err error) {
	dir := filepath.Join(out, "basic") + "/"
	_ = os.RemoveAll(dir)
	e := &episode{dir: dir, dbPath: filepath.Join(dir, "src", "db.sqlite"), repDir: dir + "rep", arcDir: dir + "arc", snapDir: dir + "snaps",
		c: cfg{MinCkptPages: 5, TruncPages: 40}}
	for _, d := range []string{filepath.Dir(e.dbPath), e.repDir, e.arcDir, e.snapDir} {
		_ = os.MkdirAll(d, 0o755)
	}
	app, err := openApp(e.dbPath, 2)
	if err != nil {
		return "", err
	}
	defer app.Close()
	if _, err = app.Exec(`CREATE TABLE t(id INTEGER PRIMARY KEY, w INTEGER, v BLOB)`); err != nil {
		return "", err
	}
	cw, err := NewCaseWriter(filepath.Join(out, "cases_basic.txt"))
	if err != nil {
		return "", err
	}
	traceReset()
	e.store = litestream.NewStore(nil, levels())
	e.store.CompactionMonitorEnabled = false
	e.store.ShutdownSyncTimeout = 0
	e.store.Logger = QuietLogger()
	ctx := context.Background()
	db := e.newDB()
	db.MonitorInterval = 0
	n := 0
	do := func(name string, f func() error) {
		call(name, func() { _ = f() })
		n++
	}
	write := func() {
		for i := 0; i < 12; i++ {
			_, _ = app.Exec(`INSERT INTO t(w, v) VALUES (1, randomblob(3000))`)
		}
	}
	do("RegisterDB", func() error { return e.store.RegisterDB(db) })
	write()
	do("Sync", func() error { return db.Sync(ctx) })
	do("ReplicaSync", func() error { return db.Replica.Sync(ctx) })
	write()
	do("SyncDBWait", func() error { _, err := e.store.SyncDB(ctx, e.dbPath, true); return err })
	do("CheckpointPassive", func() error { return db.Checkpoint(ctx, litestream.CheckpointModePassive) })
	write()
	do("CheckpointTruncate", func() error { return db.Checkpoint(ctx, litestream.CheckpointModeTruncate) })
	do("Snapshot", func() error { _, err := db.Snapshot(ctx); return err })
	do("CompactL1", func() error { _, err := db.Compact(ctx, 1); return err })
	do("CRC64", func() error { _, _, err := db.CRC64(ctx); return err })
	do("Status", func() error { _ = db.IsOpen(); _ = db.PageSize(); _ = e.store.DBs(); return nil })
	do("DisableDB", func() error { return e.store.DisableDB(ctx, e.dbPath) })
	do("EnableDB", func() error { return e.store.EnableDB(ctx, e.dbPath) })
	// a snapshot request before the first sync re-initialises the database: the page size
	// survived Close, the file handle did not, so the reader set-up fails after the
	// position / chkMu hand-off — the failure must release the read lock again
	do("SnapshotBeforeInit", func() error { _, err := db.Snapshot(ctx); return err })
	write()
	do("SyncAndWait", func() error { return db.SyncAndWait(ctx) })
	write()
	do("CheckpointPassive", func() error { return db.Checkpoint(ctx, litestream.CheckpointModePassive) })
	do("UnregisterDB", func() error { return e.store.UnregisterDB(ctx, e.dbPath) })
	do("StoreClose", func() error { return e.store.Close(ctx) })
	ev := emitTrace(cw, "basic")
	_ = cw.Close()
	_ = os.RemoveAll(dir)
	return fmt.Sprintf("%d operations in sequence, %d lock events", n, ev), nil
}

// ---- main -----------------------------------------------------------------------------

func main() {
	slog.SetDefault(QuietLogger())
	if err := cmdConc(os.Args[1:]); err != nil {
		fmt.Fprintln(os.Stderr, "harness error:", err)
		os.Exit(3)
	}
}

func cmdConc(args []string) error {
	if len(args) > 0 && args[0] == "conc" {
		args = args[1:]
	}
	fl := flag.NewFlagSet("conc", flag.ContinueOnError)
	out := fl.String("out", "", "work directory")
	n := fl.Int("n", 6, "number of episodes")
	seed := fl.Int64("seed", 1, "PRNG seed")
	only := fl.Int("only", -1, "run only this episode (replay)")
	f9 := fl.Bool("f9", true, "also run the F9 scenario")
	regsched := fl.Int("regsched", 2, "registry schedules: longest sequence of whole calls while a RegisterDB is parked (0 = skip)")
	regstress := fl.Int("regstress", 10, "rounds of the randomised multi-path registration scenario (0 = skip)")
	ckptsnap := fl.Int("ckptsnap", 0, "rounds of the FULL/RESTART-checkpoint-then-snapshot scenario (0 = skip)")
	ckptfail := fl.Bool("ckptfail", true, "deterministic: checkpoint fails after the WAL restarted, then Snapshot")
	halfinit := fl.Bool("halfinit", true, "also run the init-under-cancelled-context scenario")
	queuedsync := fl.Bool("queuedsync", true, "also run the queued-acknowledging-sync scenario")
	snapdup := fl.Int("snapdup", 6, "rounds of the concurrent-snapshot scenario (0 = skip)")
	budget := fl.Duration("budget", 0, "stop starting new episodes after this much wall time (0 = none)")
	wd := fl.Duration("watchdog", 60*time.Second, "per-call timeout")
	fl.BoolVar(&smallEpisodes, "small", false, "smaller episodes (quick tier)")
	fl.DurationVar(&episodeTime, "eptime", 0, "stop issuing operations in an episode after this long (0 = none)")
	if err := fl.Parse(args); err != nil {
		return err
	}
	if *out == "" {
		return errors.New("-out required")
	}
	if err := os.MkdirAll(*out, 0o755); err != nil {
		return err
	}
	wdTimeout, wdOutDir = *wd, *out
	cw, err := NewCaseWriter(filepath.Join(*out, "cases.txt"))
	if err != nil {
		return err
	}
	var results []epResult
	var f9detail, sddetail, hidetail, rsdetail, rtdetail, bsdetail, csdetail, cfdetail, qsdetail, lcdetail string
	finish := func() {
		_ = cw.Close()
		st := cw.Stats()
		violMu.Lock()
		st.ImplViolations = viols
		violMu.Unlock()
		tot := map[string]int64{}
		for _, r := range results {
			for k, v := range r.Ops {
				tot[k] += v
			}
		}
		st.Extra = map[string]any{"episodes": results, "ops_total": tot, "f9": f9detail, "snapdup": sddetail, "halfinit": hidetail, "regsched": rsdetail, "regstress": rtdetail, "basic": bsdetail, "ckptsnap": csdetail, "ckptfail": cfdetail, "queuedsync": qsdetail, "lateclose": lcdetail, "trace_hook": traceEnabled, "trace_events_total": traceTotal}
		_ = WriteJSON(filepath.Join(*out, "stats.json"), st)
	}
	wdCW = cw
	go watchdog(finish)
	// the discipline check of the transcribed operations, evaluated by the extracted model
	cw.Add("conc_progs_checked", L(), I(1), "model/discipline-check", false)
	if *only < 0 {
		if d, err := scenarioBasic(*out); err != nil {
			bsdetail = "scenario could not be set up: " + err.Error()
		} else {
			bsdetail = d
		}
	}
	if *regsched > 0 && *only < 0 {
		rsdetail = scenarioRegSched(*out, *regsched, cw)
	}
	if *regstress > 0 && *only < 0 {
		rtdetail = scenarioRegStress(*out, *seed, *regstress, cw)
	}
	t0 := time.Now()
	for k := 0; k < *n; k++ {
		if *only >= 0 && k != *only {
			continue
		}
		if *budget > 0 && time.Since(t0) > *budget && k > 0 {
			break
		}
		res, err := runEpisode(randCfg(*seed, k), *out, cw)
		if err != nil {
			finish()
			return fmt.Errorf("episode %d: %w", k, err)
		}
		results = append(results, res)
	}
	if *f9 && *only < 0 {
		traceReset()
		d, err := scenarioF9(*out)
		emitTrace(cw, "f9")
		if err != nil {
			f9detail = "scenario could not be set up: " + err.Error()
		} else {
			f9detail = d
		}
	}
	if *ckptsnap > 0 && *only < 0 {
		traceReset()
		d, err := scenarioCkptSnap(*out, *ckptsnap)
		emitTrace(cw, "ckptsnap")
		if err != nil {
			csdetail = "scenario could not be completed: " + err.Error()
		} else {
			csdetail = d
		}
	}
	if *ckptfail && *only < 0 {
		for _, mode := range []string{litestream.CheckpointModeFull, litestream.CheckpointModeRestart, litestream.CheckpointModePassive, litestream.CheckpointModeTruncate} {
			traceReset()
			d, err := scenarioCkptFail(*out, mode)
			emitTrace(cw, "ckptfail")
			if err != nil {
				d = "scenario could not be completed: " + err.Error()
			}
			cfdetail += mode + ": " + d + " | "
		}
	}
	if *halfinit && *only < 0 {
		traceReset()
		d, err := scenarioHalfInit(*out)
		emitTrace(cw, "halfinit")
		if err != nil {
			hidetail = "scenario could not be set up: " + err.Error()
		} else {
			hidetail = d
		}
	}
	if *halfinit && *only < 0 {
		traceReset()
		d, err := scenarioLateClose(*out)
		emitTrace(cw, "lateclose")
		if err != nil {
			lcdetail = "scenario could not be set up: " + err.Error()
		} else {
			lcdetail = d
		}
	}
	if *queuedsync && *only < 0 {
		traceReset()
		d, err := scenarioQueuedSync(*out)
		emitTrace(cw, "queuedsync")
		if err != nil {
			qsdetail = "scenario could not be set up: " + err.Error()
		} else {
			qsdetail = d
		}
	}
	if *snapdup > 0 && *only < 0 {
		traceReset()
		d, err := scenarioSnapDup(*out, *snapdup)
		emitTrace(cw, "snapdup")
		if err != nil {
			sddetail = "scenario could not be set up: " + err.Error()
		} else {
			sddetail = d
		}
	}
	finish()
	return nil
}
